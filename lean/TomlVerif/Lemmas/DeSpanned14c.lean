import TomlVerif.Lemmas.DeSpanned14b
/-! Lemmas for Props/C14SpannedFull.lean: the condition under which `Spanned` wrappers are transparent (`Ok`), and the
    commuting lemmas of the combinators. -/
namespace TomlVerif.Lemmas.DeSpanned14
open TomlVerif TomlVerif.Model TomlVerif.Model.DeTyped TomlVerif.Model.Cst TomlVerif.Model.DeLocated
open TomlVerif.Model.DeSpanned TomlVerif.Lemmas.DeLocated15 TomlVerif.Lemmas.Cst03

/-! ### the condition -/

/-- no `Spanned` in a key type -/
def noSp : KeyTy → Bool
  | .string => true
  | .newtype k => noSp k
  | .spanned _ => false

/-- `NoDoubleSpannedKey`: no `Spanned` inside a `Spanned` of a key type -/
def keyOk : KeyTy → Bool
  | .string => true
  | .newtype k => keyOk k
  | .spanned k => noSp k

/-- not `Spanned<_>` itself (what serde's `StringDeserializer` can be asked for) -/
def strOk : STy → Bool
  | .spanned _ => false
  | _ => true

/-- `NoSpannedOption` for one field: `missing_field` answers for the wrapper type as for the stripped type -/
def missAgree (t : STy) : Bool :=
  match missingSp t, missingField (strip t) with
  | some _, .ok _ => true
  | none, .error _ => true
  | _, _ => false

def missAll : SFields → Bool
  | .nil => true
  | .cons _ t _ r => missAgree t && missAll r

mutual
/-- `Ok t it`: decoding `it` into `t`, every node a `Spanned` of the type meets has an `item_span`, every key a `Spanned`
key type meets has a span and the key type has no `Spanned` inside `Spanned`, no struct field is a `Spanned<Option<_>>`
(more exactly: `missing_field` agrees), and where a date-time is read as a map / struct (serde's string deserializers) the
key type is `String` and the value type is not `Spanned<_>` -/
def Ok : STy → CItem → Prop
  | .plain _, _ => True
  | .spanned t, it => (itemSpan it).isSome = true ∧ Ok t it
  | .option t, it => Ok t it
  | .newtype t, it => Ok t it
  | .seq t, it => ∀ l, citemElems it = some l → ∀ x ∈ l, Ok t x
  | .map kt t, it =>
    ∀ es, locMapEntries it = some es → ∀ kv ∈ es,
      (match kv.2 with
       | .item k i => keyOk kt = true ∧ ((keySpan k).isSome = true ∨ noSp kt = true) ∧ Ok t i
       | .str _ => kt = .string ∧ strOk t = true)
  | .struct fs, it =>
    missAll fs = true ∧ (∀ es, locMapEntries it = some es → ∀ kv ∈ es, OkEntry fs kv.1 kv.2) ∧
      (∀ l, citemElems it = some l → OkSeq fs l)
  | .enum vs, it => ∀ k p, citemEntries it = some [(k, p)] → OkVariants vs k.key p
def OkEntry : SFields → Bytes → LSrc → Prop
  | .nil, _, _ => True
  | .cons name t _ r, k, src =>
    if name == k then (match src with | .item _ i => Ok t i | .str _ => strOk t = true) else OkEntry r k src
def OkSeq : SFields → List CItem → Prop
  | .nil, _ => True
  | .cons _ _ _ r, [] => OkSeq r []
  | .cons _ t _ r, i :: l => Ok t i ∧ OkSeq r l
def OkVariants : SVariants → Bytes → CItem → Prop
  | .nil, _, _ => True
  | .cons name s r, k, p => if name == k then OkShape s p else OkVariants r k p
def OkShape : SShape → CItem → Prop
  | .unit, _ => True
  | .newtype t, p => Ok t p
end

/-! ### combinators -/

theorem lmap_lmap {α β γ} (f : β → γ) (g : α → β) (x : LR α) : lmap f (lmap g x) = lmap (fun a => f (g a)) x := by
  cases x <;> rfl

theorem lmap_atSpan {α β} (f : α → β) (sp : Option Span) (x : LR α) : lmap f (atSpan sp x) = atSpan sp (lmap f x) := by
  cases x <;> rfl

theorem lmap_inEntry {α β} (f : α → β) (sp : Option Span) (k : Bytes) (x : LR α) :
    lmap f (inEntry sp k x) = inEntry sp k (lmap f x) := by
  cases x <;> rfl

theorem lmap_lcons {α β} (h : α → β) (a : LR α) (l : LR (List α)) :
    lmap (List.map h) (lcons a l) = lcons (lmap h a) (lmap (List.map h) l) := by
  cases a <;> cases l <;> rfl

theorem lmap_mapL {α β γ} (h : β → γ) (f : α → LR β) (g : α → LR γ) : ∀ l : List α, (∀ a ∈ l, lmap h (f a) = g a) →
    lmap (List.map h) (mapL f l) = mapL g l
  | [], _ => rfl
  | a :: r, hh => by
    simp only [mapL, lmap_lcons]
    rw [hh a (List.mem_cons_self ..), lmap_mapL h f g r fun x hx => hh x (List.mem_cons_of_mem _ hx)]

theorem lmap_congr {α β} (f g : α → β) (x : LR α) (h : ∀ a, f a = g a) : lmap f x = lmap g x := by
  cases x with
  | ok a => simp [lmap, h]
  | error e => rfl

theorem stripDecs_eq_map : ∀ l : List SDec, stripDecs l = l.map stripDec
  | [] => by simp [stripDecs]
  | d :: r => by simp [stripDecs, stripDecs_eq_map r]

theorem stripEntries_eq_map : ∀ l : List (SKey × SDec), stripEntries l = l.map fun kd => (stripKey kd.1, stripDec kd.2)
  | [] => by simp [stripEntries]
  | (k, d) :: r => by simp [stripEntries, stripEntries_eq_map r]

theorem stripNamed_eq_map : ∀ l : List (Bytes × SDec), stripNamed l = l.map fun kd => (kd.1, stripDec kd.2)
  | [] => by simp [stripNamed]
  | (k, d) :: r => by simp [stripNamed, stripNamed_eq_map r]

/-! ### keys -/

theorem decodeKey_noSp (k : Bytes) (sp : Option Span) : ∀ kt : KeyTy, noSp kt = true →
    ∃ key, decodeKey kt k sp = .ok key ∧ stripKey key = k
  | .string, _ => ⟨.str k, rfl, rfl⟩
  | .newtype kt, h => by
    obtain ⟨key, hk, hs⟩ := decodeKey_noSp k sp kt (by simpa [noSp] using h)
    exact ⟨.newtype key, by simp [decodeKey, hk, lmap], by simpa [stripKey] using hs⟩
  | .spanned _, h => by simp [noSp] at h

theorem decodeKey_ok (k : Bytes) (sp : Option Span) : ∀ kt : KeyTy, keyOk kt = true → (sp.isSome = true ∨ noSp kt = true) →
    ∃ key, decodeKey kt k sp = .ok key ∧ stripKey key = k
  | .string, _, _ => ⟨.str k, rfl, rfl⟩
  | .newtype kt, h, h2 => by
    obtain ⟨key, hk, hs⟩ := decodeKey_ok k sp kt (by simpa [keyOk] using h) (by simpa [noSp] using h2)
    exact ⟨.newtype key, by simp [decodeKey, hk, lmap], by simpa [stripKey] using hs⟩
  | .spanned kt, h, h2 => by
    cases sp with
    | none => simp [noSp] at h2
    | some ab =>
      obtain ⟨a, b⟩ := ab
      obtain ⟨key, hk, hs⟩ := decodeKey_noSp k none kt (by simpa [keyOk] using h)
      exact ⟨.spanned a b key, by simp [decodeKey, hk, lmap], by simpa [stripKey] using hs⟩

/-! ### serde's string deserializers -/

theorem unitOnlySp_strip : ∀ (vs : SVariants) (s : Bytes),
    rmap stripDec (unitOnlySp vs s) = unitOnlyVariant (stripVariants vs) s
  | .nil, s => rfl
  | .cons n sh r, s => by
    unfold unitOnlySp
    simp only [stripVariants, unitOnlyVariant]
    split
    · cases sh <;> simp [stripShape, rmap, stripDec, fail]
    · exact unitOnlySp_strip r s

theorem decodeStrSp_strip (t : STy) (s : Bytes) (h : strOk t = true) :
    rmap stripDec (decodeStrSp t s) = decodeStrDe (strip t) s := by
  cases t with
  | plain t =>
    simp only [decodeStrSp, strip]
    cases decodeStrDe t s <;> simp [rmap, stripDec]
  | spanned t => simp [strOk] at h
  | enum vs => simp only [decodeStrSp, strip, decodeStrDe]; exact unitOnlySp_strip vs s
  | option t => simp [decodeStrSp, strip, decodeStrDe, rmap, fail]
  | newtype t => simp [decodeStrSp, strip, decodeStrDe, rmap, fail]
  | seq t => simp [decodeStrSp, strip, decodeStrDe, rmap, fail]
  | map k t => simp [decodeStrSp, strip, decodeStrDe, rmap, fail]
  | struct fs => simp [decodeStrSp, strip, decodeStrDe, rmap, fail]

theorem lmap_liftV {α β} (f : α → β) (r : R α) : lmap f (liftV r) = liftV (rmap f r) := by
  cases r <;> rfl

/-! ### derived structs -/

theorem hasName_strip (k : Bytes) : ∀ fs : SFields, (stripFields fs).hasName k = fs.hasName k
  | .nil => rfl
  | .cons n t d r => by simp [stripFields, Fields.hasName, SFields.hasName, hasName_strip k r]

theorem walk_strip (known : Bytes → Bool) (fS : Bytes → LSrc → LR (Option SDec)) (fL : Bytes → LSrc → LR (Option Dec)) :
    ∀ (es : List (Bytes × LSrc)) (seen : List Bytes),
    (∀ kv ∈ es, lmap (Option.map stripDec) (fS kv.1 kv.2) = fL kv.1 kv.2) →
    lmap stripNamed (walkG visitorErr known fS seen es) = walkEntries visitorErr known fL seen es
  | [], _, _ => by simp [walkG, walkEntries, lmap, stripNamed]
  | (k, s) :: r, seen, h => by
    have hh := h (k, s) (List.mem_cons_self ..)
    have ih := fun seen' => walk_strip known fS fL r seen' fun kv hkv => h kv (List.mem_cons_of_mem _ hkv)
    unfold walkG walkEntries
    by_cases hc : (known k && seen.contains k) = true
    · rw [if_pos hc, if_pos hc]; rfl
    · rw [if_neg hc, if_neg hc]
      simp only [] at hh
      rw [← hh]
      cases hf : fS k s with
      | error e => rfl
      | ok o =>
        cases o with
        | none => simpa [lmap] using ih seen
        | some d =>
          have := ih (k :: seen)
          simp only [lmap, Option.map_some]
          cases hw : walkG visitorErr known fS (k :: seen) r with
          | error e => rw [hw] at this; simp only [lmap] at this; rw [← this]
          | ok ds => rw [hw] at this; simp only [lmap] at this; rw [← this]; simp [stripNamed]

theorem alookup_stripNamed (name : Bytes) : ∀ ds : List (Bytes × SDec),
    alookup name (stripNamed ds) = (alookup name ds).map stripDec
  | [] => by simp [stripNamed, alookup]
  | (k, d) :: r => by
    simp only [stripNamed, alookup]
    split
    · rfl
    · exact alookup_stripNamed name r

theorem fill_strip : ∀ (fs : SFields) (ds : List (Bytes × SDec)), missAll fs = true →
    lmap stripNamed (fillSp fs ds) = fillFields visitorErr (stripFields fs) (stripNamed ds)
  | .nil, ds, _ => by simp [fillSp, fillFields, stripFields, lmap, stripNamed]
  | .cons name t dflt r, ds, h => by
    simp only [missAll, Bool.and_eq_true] at h
    have ih := fill_strip r ds h.2
    unfold fillSp
    simp only [stripFields]
    unfold fillFields
    rw [alookup_stripNamed]
    cases hl : alookup name ds with
    | some d =>
      simp only [Option.map_some]
      cases hf : fillSp r ds with
      | error e => rw [hf] at ih; simp only [lmap] at ih; rw [← ih]; rfl
      | ok l => rw [hf] at ih; simp only [lmap] at ih; rw [← ih]; simp [lmap, stripNamed]
    | none =>
      simp only [Option.map_none]
      cases dflt with
      | true =>
        simp only [if_true]
        cases hf : fillSp r ds with
        | error e => rw [hf] at ih; simp only [lmap] at ih; rw [← ih]; rfl
        | ok l => rw [hf] at ih; simp only [lmap] at ih; rw [← ih]; simp [lmap, stripNamed, stripDec]
      | false =>
        simp only [Bool.false_eq_true, if_false]
        have hm := h.1
        unfold missAgree at hm
        cases hms : missingSp t with
        | none =>
          rw [hms] at hm
          cases hmf : missingField (strip t) with
          | ok d => rw [hmf] at hm; simp at hm
          | error e => simp [lmap, vfail]
        | some d =>
          rw [hms] at hm
          cases hmf : missingField (strip t) with
          | error e => rw [hmf] at hm; simp at hm
          | ok d' =>
            -- both are `None`
            have hd : stripDec d = d' := by
              cases t with
              | option t0 =>
                simp only [missingSp, Option.some.injEq] at hms
                simp only [strip, missingField, Except.ok.injEq] at hmf
                subst hms; subst hmf; rfl
              | plain t0 =>
                cases t0 <;> simp [missingSp] at hms
                simp only [strip, missingField, Except.ok.injEq] at hmf
                subst hms; subst hmf; rfl
              | _ => simp [missingSp] at hms
            simp only []
            cases hf : fillSp r ds with
            | error e => rw [hf] at ih; simp only [lmap] at ih; rw [← ih]; rfl
            | ok l => rw [hf] at ih; simp only [lmap] at ih; rw [← ih]; simp [lmap, stripNamed, hd]

end TomlVerif.Lemmas.DeSpanned14
