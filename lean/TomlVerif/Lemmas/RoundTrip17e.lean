import TomlVerif.Lemmas.RoundTrip17d
import TomlVerif.Props.C12
import TomlVerif.Lemmas.TomlValue17
/-! Round trip of `toml::Value` trees, assembly: `norm` on well-formed trees (`normTV`), the printed statements are
    all parseable (`stok_*`), the tree in document order is well formed (`ok_docTbl`), and `Value`'s visitor on the
    presentation of a well-formed tree rebuilds it with every table's entries placed by the target map
    (`visit_presEdit`). -/
namespace TomlVerif.Lemmas.RoundTrip17
open TomlVerif.Model.DeText
open TomlVerif TomlVerif.Spec TomlVerif.Model TomlVerif.Model.TomlValue TomlVerif.Model.DeRoutes
open TomlVerif.Model.Value (LIMIT)
open TomlVerif.Lemmas.State09

/-! ## membership forms -/

theorem okPs_iff (l : List (Bytes × TV)) : OkPs l ↔ ∀ e ∈ l, OkV e.2 := by
  induction l with
  | nil => simp [OkPs]
  | cons x r ih => obtain ⟨k, v⟩ := x; simp [OkPs, ih]

theorem okVs_iff (l : List TV) : OkVs l ↔ ∀ v ∈ l, OkV v := by
  induction l with
  | nil => simp [OkVs]
  | cons x r ih => simp [OkVs, ih]

theorem depthTVPs_le (l : List (Bytes × TV)) (n : Nat) : depthTVPs l ≤ n ↔ ∀ e ∈ l, depthTV e.2 ≤ n := by
  induction l with
  | nil => simp [depthTVPs]
  | cons x r ih => obtain ⟨k, v⟩ := x; simp [depthTVPs, ih, Nat.max_le]

theorem depthTVs_le (l : List TV) (n : Nat) : depthTVs l ≤ n ↔ ∀ v ∈ l, depthTV v ≤ n := by
  induction l with
  | nil => simp [depthTVs]
  | cons x r ih => simp [depthTVs, ih, Nat.max_le]

theorem mem_serOrder (l : List (Bytes × TV)) (e : Bytes × TV) : e ∈ serOrder l ↔ e ∈ l := by
  have := (TomlVerif.Lemmas.TomlValue17.filter3_perm (fun e : Bytes × TV => pass1 e.2) (fun e => pass2 e.2) (fun e => pass3 e.2)
    (fun e => TomlVerif.Lemmas.TomlValue17.pass_exactly_one e.2) l).mem_iff (a := e)
  exact this

theorem serOrder_keys_perm (l : List (Bytes × TV)) : ((serOrder l).map Prod.fst).Perm (l.map Prod.fst) :=
  (TomlVerif.Lemmas.TomlValue17.filter3_perm (fun e : Bytes × TV => pass1 e.2) (fun e => pass2 e.2) (fun e => pass3 e.2)
    (fun e => TomlVerif.Lemmas.TomlValue17.pass_exactly_one e.2) l).map _

/-! ## `norm` on well-formed trees -/

mutual
/-- `norm` without the date-time re-read: `serOrder` at every table -/
def normTV : TV → TV
  | .arr l => .arr (normTVs l)
  | .tbl items => .tbl (serOrder (normTVPs items))
  | .str s => .str s
  | .int n => .int n
  | .float b => .float b
  | .bool b => .bool b
  | .dt d => .dt d
def normTVs : List TV → List TV
  | [] => []
  | v :: r => normTV v :: normTVs r
def normTVPs : List (Bytes × TV) → List (Bytes × TV)
  | [] => []
  | (k, v) :: r => (k, normTV v) :: normTVPs r
end

mutual
theorem norm_eq : ∀ v : TV, OkV v → norm v = some (normTV v)
  | .str _, _ => by simp [norm, normTV]
  | .int _, _ => by simp [norm, normTV]
  | .float _, _ => by simp [norm, normTV]
  | .bool _, _ => by simp [norm, normTV]
  | .dt d, h => by
    rw [OkV] at h
    simp [norm, normTV, (Props.C12.T12_roundtrip d h.1 h.2).1]
  | .arr l, h => by rw [OkV] at h; simp [norm, normTV, normList_eq l h]
  | .tbl items, h => by rw [OkV] at h; simp [norm, normTV, normPairs_eq items h.1]
theorem normList_eq : ∀ l : List TV, OkVs l → normList l = some (normTVs l)
  | [], _ => by simp [normList, normTVs]
  | v :: r, h => by rw [OkVs] at h; simp [normList, normTVs, norm_eq v h.1, normList_eq r h.2]
theorem normPairs_eq : ∀ l : List (Bytes × TV), OkPs l → normPairs l = some (normTVPs l)
  | [], _ => by simp [normPairs, normTVPs]
  | (k, v) :: r, h => by rw [OkPs] at h; simp [normPairs, normTVPs, norm_eq v h.1, normPairs_eq r h.2]
end

theorem normTVPs_keys (l : List (Bytes × TV)) : (normTVPs l).map Prod.fst = l.map Prod.fst := by
  induction l with
  | nil => rfl
  | cons x r ih => obtain ⟨k, v⟩ := x; simp [normTVPs, ih]

mutual
theorem ok_normTV : ∀ v : TV, OkV v → OkV (normTV v) ∧ depthTV (normTV v) ≤ depthTV v
  | .str _, h => ⟨by simpa [normTV] using h, by simp [normTV]⟩
  | .int _, h => ⟨by simpa [normTV] using h, by simp [normTV]⟩
  | .float _, h => ⟨by simpa [normTV] using h, by simp [normTV]⟩
  | .bool _, h => ⟨by simpa [normTV] using h, by simp [normTV]⟩
  | .dt _, h => ⟨by simpa [normTV] using h, by simp [normTV]⟩
  | .arr l, h => by
    rw [OkV] at h
    have := ok_normTVs l h
    rw [normTV, OkV, depthTV, depthTV]
    exact ⟨this.1, by omega⟩
  | .tbl items, h => by
    rw [OkV] at h
    have hp := ok_normTVPs items h.1
    rw [normTV, OkV, depthTV, depthTV]
    refine ⟨⟨?_, ?_, ?_⟩, ?_⟩
    · rw [okPs_iff]
      intro e he
      exact (okPs_iff _).1 hp.1 e ((mem_serOrder _ e).1 he)
    · rw [(serOrder_keys_perm _).nodup_iff, normTVPs_keys]; exact h.2.1
    · rw [(serOrder_keys_perm _).mem_iff, normTVPs_keys]; exact h.2.2
    · have : depthTVPs (serOrder (normTVPs items)) ≤ depthTVPs (normTVPs items) := by
        rw [depthTVPs_le]
        intro e he
        exact (depthTVPs_le _ _).1 (Nat.le_refl _) e ((mem_serOrder _ e).1 he)
      omega
theorem ok_normTVs : ∀ l : List TV, OkVs l → OkVs (normTVs l) ∧ depthTVs (normTVs l) ≤ depthTVs l
  | [], _ => by simp [normTVs, OkVs, depthTVs]
  | v :: r, h => by
    rw [OkVs] at h
    have h1 := ok_normTV v h.1
    have h2 := ok_normTVs r h.2
    rw [normTVs, OkVs, depthTVs, depthTVs]
    exact ⟨⟨h1.1, h2.1⟩, by omega⟩
theorem ok_normTVPs : ∀ l : List (Bytes × TV), OkPs l → OkPs (normTVPs l) ∧ depthTVPs (normTVPs l) ≤ depthTVPs l
  | [], _ => by simp [normTVPs, OkPs, depthTVPs]
  | (k, v) :: r, h => by
    rw [OkPs] at h
    have h1 := ok_normTV v h.1
    have h2 := ok_normTVPs r h.2
    rw [normTVPs, OkPs, depthTVPs, depthTVPs]
    exact ⟨⟨h1.1, h2.1⟩, by omega⟩
end

/-! ## every printed statement is parseable -/

theorem stok_table (path : List Bytes) (isAot : Bool) (items : List (Bytes × TV)) (subs : List TomlValue.Stmt)
    (hne : path ≠ []) (hl : path.length < LIMIT) (hi : ∀ e ∈ items, OkV e.2 ∧ depthTV e.2 < LIMIT)
    (hs : ∀ s ∈ subs, StmtOk s) : ∀ s ∈ tableStmts path isAot items subs, StmtOk s := by
  intro s hs'
  simp only [tableStmts, List.mem_append] at hs'
  rcases hs' with (hs' | hs') | hs'
  · unfold headerOf at hs'
    have hpe : path.isEmpty = false := by cases path <;> simp_all
    simp only [hpe, Bool.false_eq_true, if_false] at hs'
    split at hs'
    · simp at hs'; subst hs'; exact ⟨hne, hl⟩
    · split at hs'
      · simp at hs'
      · simp at hs'; subst hs'; exact ⟨hne, hl⟩
  · simp only [ownKvs, ownValues, List.mem_map, List.mem_filter] at hs'
    obtain ⟨e, ⟨he, _⟩, rfl⟩ := hs'
    exact hi e he
  · exact hs s hs'

theorem items_bound (items : List (Bytes × TV)) (n : Nat) (h : OkPs items) (hd : n + 1 + depthTVPs items ≤ LIMIT) :
    ∀ e ∈ items, OkV e.2 ∧ depthTV e.2 < LIMIT := by
  intro e he
  have := (depthTVPs_le items _).1 (Nat.le_refl _) e he
  exact ⟨(okPs_iff items).1 h e he, by omega⟩

mutual
theorem stok_subs : ∀ (items : List (Bytes × TV)) (path : List Bytes), OkPs items →
    path.length + 1 + depthTVPs items ≤ LIMIT → ∀ s ∈ emitSubs path items, StmtOk s
  | [], _, _, _ => by intro s hs; simp [emitSubs] at hs
  | (k, v) :: r, path, h, hd => by
    rw [OkPs] at h
    rw [depthTVPs] at hd
    intro s hs
    rw [emitSubs, List.mem_append] at hs
    rcases hs with hs | hs
    · exact stok_item v (path ++ [k]) h.1 (by simp) (by simp; omega) s hs
    · exact stok_subs r path h.2 (by omega) s hs
theorem stok_item : ∀ (v : TV) (path : List Bytes), OkV v → path ≠ [] → path.length + depthTV v ≤ LIMIT →
    ∀ s ∈ emitItem path v, StmtOk s
  | .tbl items, path, h, hne, hd => by
    rw [OkV] at h
    rw [depthTV] at hd
    rw [emitItem]
    exact stok_table path false items _ hne (by omega) (items_bound items path.length h.1 (by omega))
      (stok_subs items path h.1 (by omega))
  | .arr l, path, h, hne, hd => by
    rw [OkV] at h
    rw [depthTV] at hd
    rw [emitItem]
    split
    · exact stok_aot l path h hne (by omega)
    · intro s hs; cases hs
  | .str _, _, _, _, _ => by intro s hs; simp [emitItem] at hs
  | .int _, _, _, _, _ => by intro s hs; simp [emitItem] at hs
  | .float _, _, _, _, _ => by intro s hs; simp [emitItem] at hs
  | .bool _, _, _, _, _ => by intro s hs; simp [emitItem] at hs
  | .dt _, _, _, _, _ => by intro s hs; simp [emitItem] at hs
theorem stok_aot : ∀ (l : List TV) (path : List Bytes), OkVs l → path ≠ [] → path.length + depthTVs l ≤ LIMIT →
    ∀ s ∈ emitAot path l, StmtOk s
  | [], _, _, _, _ => by intro s hs; simp [emitAot] at hs
  | .tbl items :: r, path, h, hne, hd => by
    rw [OkVs, OkV] at h
    rw [depthTVs, depthTV] at hd
    intro s hs
    rw [emitAot, List.mem_append] at hs
    rcases hs with hs | hs
    · exact stok_table path true items _ hne (by omega) (items_bound items path.length h.1.1 (by omega))
        (stok_subs items path h.1.1 (by omega)) s hs
    · exact stok_aot r path h.2 hne (by omega) s hs
  | .str _ :: r, path, h, hne, hd => by
    rw [OkVs] at h; rw [depthTVs] at hd; simp only [emitAot]; exact stok_aot r path h.2 hne (by omega)
  | .int _ :: r, path, h, hne, hd => by
    rw [OkVs] at h; rw [depthTVs] at hd; simp only [emitAot]; exact stok_aot r path h.2 hne (by omega)
  | .float _ :: r, path, h, hne, hd => by
    rw [OkVs] at h; rw [depthTVs] at hd; simp only [emitAot]; exact stok_aot r path h.2 hne (by omega)
  | .bool _ :: r, path, h, hne, hd => by
    rw [OkVs] at h; rw [depthTVs] at hd; simp only [emitAot]; exact stok_aot r path h.2 hne (by omega)
  | .dt _ :: r, path, h, hne, hd => by
    rw [OkVs] at h; rw [depthTVs] at hd; simp only [emitAot]; exact stok_aot r path h.2 hne (by omega)
  | .arr _ :: r, path, h, hne, hd => by
    rw [OkVs] at h; rw [depthTVs] at hd; simp only [emitAot]; exact stok_aot r path h.2 hne (by omega)
end

theorem stok_doc (items : List (Bytes × TV)) (h : OkPs items) (hd : 1 + depthTVPs items ≤ LIMIT) :
    ∀ s ∈ emitDoc items, StmtOk s := by
  intro s hs
  have e : emitDoc items = ownKvs items ++ emitSubs [] items := by simp [emitDoc, tableStmts, headerOf]
  rw [e, List.mem_append] at hs
  rcases hs with hs | hs
  · simp only [ownKvs, ownValues, List.mem_map, List.mem_filter] at hs
    obtain ⟨e, ⟨he, _⟩, rfl⟩ := hs
    exact items_bound items 0 h (by omega) e he
  · exact stok_subs items [] h (by simpa using hd) s hs

/-! ## the tree in document order is well formed -/

theorem mem_ownValues (items : List (Bytes × TV)) (e : Bytes × TV) (h : e ∈ ownValues items) : e ∈ items := by
  simp only [ownValues, List.mem_filter] at h; exact h.1

theorem subKeys_sub (items : List (Bytes × TV)) (k : Bytes) (h : k ∈ subKeys items) : k ∈ items.map Prod.fst := by
  simp only [subKeys, List.mem_map, List.mem_filter] at h
  obtain ⟨e, ⟨he, _⟩, rfl⟩ := h
  exact List.mem_map_of_mem he

theorem ok_docTbl_of (items : List (Bytes × TV)) (h : OkPs items) (hn : (items.map Prod.fst).Nodup)
    (hf : FIELD ∉ items.map Prod.fst) (hs : OkPs (docSubs items)) (hk : (docSubs items).map Prod.fst = subKeys items) :
    OkV (.tbl (ownValues items ++ docSubs items)) := by
  obtain ⟨hn1, hn2, hn3⟩ := keys_split items hn
  rw [OkV]
  refine ⟨?_, ?_, ?_⟩
  · rw [okPs_iff]
    intro e he
    rcases List.mem_append.1 he with he | he
    · exact (okPs_iff items).1 h e (mem_ownValues items e he)
    · exact (okPs_iff _).1 hs e he
  · rw [List.map_append, hk, List.nodup_append]
    exact ⟨hn2, hn1, fun a ha b hb hab => hn3 b hb (hab ▸ ha)⟩
  · rw [List.map_append, hk, List.mem_append]
    intro hc
    rcases hc with hc | hc
    · obtain ⟨e, he, hfe⟩ := List.mem_map.1 hc
      exact hf (hfe ▸ List.mem_map_of_mem (mem_ownValues items e he))
    · exact hf (subKeys_sub items _ hc)

mutual
theorem ok_docSubs : ∀ items : List (Bytes × TV), OkPs items →
    OkPs (docSubs items) ∧ (docSubs items).map Prod.fst = subKeys items
  | [], _ => by simp [docSubs, OkPs, subKeys]
  | (k, v) :: r, h => by
    rw [OkPs] at h
    have h1 := ok_docItem k v h.1
    have h2 := ok_docSubs r h.2
    rw [docSubs]
    refine ⟨?_, ?_⟩
    · rw [okPs_iff]
      intro e he
      rcases List.mem_append.1 he with he | he
      · exact (okPs_iff _).1 h1.1 e he
      · exact (okPs_iff _).1 h2.1 e he
    · rw [List.map_append, h1.2, h2.2]
      cases hv : kindOf v == .value <;> simp [subKeys, List.filter_cons, hv]
theorem ok_docItem : ∀ (k : Bytes) (v : TV), OkV v →
    OkPs (docItem k v) ∧ (docItem k v).map Prod.fst = if kindOf v == .value then [] else [k]
  | k, .tbl items, h => by
    rw [OkV] at h
    have hs := ok_docSubs items h.1
    have := ok_docTbl_of items h.1 h.2.1 h.2.2 hs.1 hs.2
    simp [docItem, OkPs, kindOf, this]
  | k, .arr l, h => by
    rw [OkV] at h
    have := ok_docAot l h
    rw [docItem]
    cases ha : isAotList l with
    | true => simp [OkPs, OkV, kindOf, ha, this]
    | false => simp [OkPs, kindOf, ha]
  | _, .str _, _ => by simp [docItem, OkPs, kindOf]
  | _, .int _, _ => by simp [docItem, OkPs, kindOf]
  | _, .float _, _ => by simp [docItem, OkPs, kindOf]
  | _, .bool _, _ => by simp [docItem, OkPs, kindOf]
  | _, .dt _, _ => by simp [docItem, OkPs, kindOf]
theorem ok_docAot : ∀ l : List TV, OkVs l → OkVs (docAot l)
  | [], _ => by simp [docAot, OkVs]
  | .tbl items :: r, h => by
    rw [OkVs, OkV] at h
    have hs := ok_docSubs items h.1.1
    have := ok_docTbl_of items h.1.1 h.1.2.1 h.1.2.2 hs.1 hs.2
    rw [docAot, OkVs]
    exact ⟨this, ok_docAot r h.2⟩
  | .str _ :: r, h => by rw [OkVs] at h; simp only [docAot]; exact ok_docAot r h.2
  | .int _ :: r, h => by rw [OkVs] at h; simp only [docAot]; exact ok_docAot r h.2
  | .float _ :: r, h => by rw [OkVs] at h; simp only [docAot]; exact ok_docAot r h.2
  | .bool _ :: r, h => by rw [OkVs] at h; simp only [docAot]; exact ok_docAot r h.2
  | .dt _ :: r, h => by rw [OkVs] at h; simp only [docAot]; exact ok_docAot r h.2
  | .arr _ :: r, h => by rw [OkVs] at h; simp only [docAot]; exact ok_docAot r h.2
end

theorem ok_docTbl (items : List (Bytes × TV)) (h : OkV (.tbl items)) : OkV (.tbl (docTbl items)) := by
  rw [OkV] at h
  have hs := ok_docSubs items h.1
  exact ok_docTbl_of items h.1 h.2.1 h.2.2 hs.1 hs.2

/-! ## `Value`'s visitor on the presentation of a well-formed tree -/

mutual
/-- every table's entries placed into the target map one by one (`BTreeMap`: sorted by key; `IndexMap`: as they come) -/
def placeTV (fl : Flavour) : TV → TV
  | .arr l => .arr (placeTVs fl l)
  | .tbl items => .tbl (insertAllReplace fl [] (placeTVPs fl items))
  | .str s => .str s
  | .int n => .int n
  | .float b => .float b
  | .bool b => .bool b
  | .dt d => .dt d
def placeTVs (fl : Flavour) : List TV → List TV
  | [] => []
  | v :: r => placeTV fl v :: placeTVs fl r
def placeTVPs (fl : Flavour) : List (Bytes × TV) → List (Bytes × TV)
  | [] => []
  | (k, v) :: r => (k, placeTV fl v) :: placeTVPs fl r
end

theorem placeTVPs_keys (fl : Flavour) (l : List (Bytes × TV)) : (placeTVPs fl l).map Prod.fst = l.map Prod.fst := by
  induction l with
  | nil => rfl
  | cons x r ih => obtain ⟨k, v⟩ := x; simp [placeTVPs, ih]

theorem sortedInsert_keys {α : Type} (k : Bytes) (v : α) (l : List (Bytes × α)) (k' : Bytes) :
    k' ∈ (sortedInsert k v l).map Prod.fst ↔ k' = k ∨ k' ∈ l.map Prod.fst := by
  induction l with
  | nil => simp [sortedInsert]
  | cons x r ih =>
    obtain ⟨a, b⟩ := x
    unfold sortedInsert
    split
    · rename_i he
      have : a = k := by simpa using he
      subst this
      simp
    · split
      · simp
      · simp only [List.map_cons, List.mem_cons, ih]
        constructor
        · rintro (h | h | h)
          · exact Or.inr (Or.inl h)
          · exact Or.inl h
          · exact Or.inr (Or.inr h)
        · rintro (h | h | h)
          · exact Or.inr (Or.inl h)
          · exact Or.inl h
          · exact Or.inr (Or.inr h)

theorem mapInsert_keys {α : Type} (fl : Flavour) (k : Bytes) (v : α) (l : List (Bytes × α)) (k' : Bytes) :
    k' ∈ (mapInsert fl k v l).map Prod.fst ↔ k' = k ∨ k' ∈ l.map Prod.fst := by
  cases fl with
  | sorted => exact sortedInsert_keys k v l k'
  | insertion =>
    simp only [mapInsert, aset_keys]
    cases h : alookup k l with
    | none => simp [or_comm]
    | some x =>
      have hk : k ∈ l.map Prod.fst := by
        apply Classical.byContradiction
        intro hn
        rw [(alookup_none_iff k l).2 hn] at h; cases h
      simp only [Option.isSome_some, if_true]
      constructor
      · exact Or.inr
      · rintro (h | h)
        · subst h; exact hk
        · exact h

/-- distinct new keys: the duplicate check of `visit_map` never fires, the result is that of plain insertion -/
theorem insertAll_nodup (fl : Flavour) : ∀ (l acc : List (Bytes × TV)), (l.map Prod.fst).Nodup →
    (∀ k ∈ l.map Prod.fst, k ∉ acc.map Prod.fst) → insertAll fl acc l = some (insertAllReplace fl acc l) := by
  intro l
  induction l with
  | nil => intro acc _ _; rfl
  | cons x r ih =>
    obtain ⟨k, v⟩ := x
    intro acc hn ha
    simp only [List.map_cons, List.nodup_cons] at hn
    have hk : alookup k acc = none := (alookup_none_iff _ _).2 (ha k (by simp))
    simp only [insertAll, hk, insertAllReplace]
    apply ih _ hn.2
    intro k' hk' hm
    rw [mapInsert_keys] at hm
    rcases hm with hm | hm
    · subst hm; exact hn.1 hk'
    · exact ha k' (by simp [hk']) hm

mutual
theorem visit_presEdit (fl : Flavour) (strict : Bool) : ∀ w : TV, OkV w →
    visitValue fl strict (presEdit w) = some (placeTV fl w)
  | .str _, _ => by simp [presEdit, visitValue, placeTV]
  | .int _, _ => by simp [presEdit, visitValue, placeTV]
  | .float _, _ => by simp [presEdit, visitValue, placeTV]
  | .bool _, _ => by simp [presEdit, visitValue, placeTV]
  | .dt d, h => by
    rw [OkV] at h
    have hr := (Props.C12.T12_roundtrip d h.1 h.2).1
    simp [presEdit, dtMap, visitValue, placeTV, hr]
  | .arr l, h => by
    rw [OkV] at h
    simp [presEdit, visitValue, placeTV, visitList_presEdit fl strict l h]
  | .tbl [], _ => by simp [presEdit, presEditPairs, visitValue, placeTV, placeTVPs, insertAllReplace]
  | .tbl ((k, v) :: r), h => by
    rw [OkV, OkPs] at h
    obtain ⟨⟨hv, hr⟩, hn, hf⟩ := h
    simp only [List.map_cons, List.nodup_cons, List.mem_cons, not_or] at hn hf
    have hkf : (k == FIELD) = false := by
      simp only [beq_eq_false_iff_ne, ne_eq]
      exact fun e => hf.1 e.symm
    rw [presEdit, presEditPairs]
    conv => lhs; unfold visitValue
    simp only [hkf, Bool.false_eq_true, if_false, visit_presEdit fl strict v hv, visitPairs_presEdit fl strict r hr]
    have := insertAll_nodup fl (placeTVPs fl r) (mapInsert fl k (placeTV fl v) [])
      (by rw [placeTVPs_keys]; exact hn.2)
      (by intro k' hk' hm
          rw [placeTVPs_keys] at hk'
          rw [mapInsert_keys] at hm
          rcases hm with hm | hm
          · subst hm; exact hn.1 hk'
          · simp at hm)
    rw [this]
    simp [placeTV, placeTVPs, insertAllReplace]
theorem visitList_presEdit (fl : Flavour) (strict : Bool) : ∀ l : List TV, OkVs l →
    visitList fl strict (presEditList l) = some (placeTVs fl l)
  | [], _ => by simp [presEditList, visitList, placeTVs]
  | v :: r, h => by
    rw [OkVs] at h
    simp [presEditList, visitList, placeTVs, visit_presEdit fl strict v h.1, visitList_presEdit fl strict r h.2]
theorem visitPairs_presEdit (fl : Flavour) (strict : Bool) : ∀ l : List (Bytes × TV), OkPs l →
    visitPairs fl strict (presEditPairs l) = some (placeTVPs fl l)
  | [], _ => by simp [presEditPairs, visitPairs, placeTVPs]
  | (k, v) :: r, h => by
    rw [OkPs] at h
    simp [presEditPairs, visitPairs, placeTVPs, visit_presEdit fl strict v h.1, visitPairs_presEdit fl strict r h.2]
end

end TomlVerif.Lemmas.RoundTrip17
