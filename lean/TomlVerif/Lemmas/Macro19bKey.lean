import TomlVerif.Lemmas.Macro19
/-! C19 (full): keys as the macro reads them. A key is `seg . seg . …`, a segment `atom - atom - …` (the macro
    glues `a-b` back together with `concat!`), an atom any single non-punctuation token (identifier, string /
    character literal, number literal). -/
namespace TomlVerif.Lemmas.Macro19b
open TomlVerif TomlVerif.Model TomlVerif.Model.Macro TomlVerif.Lemmas.Macro19

/-- one token of a key -/
inductive KAtom where
  | ident (s : Bytes)
  | num (body suffix : Bytes) (fl : Bool)
  | str (raw val : Bytes)
  | chr (raw val : Bytes)

def KAtom.tok : KAtom → Tok
  | .ident s => .ident s
  | .num b s f => .num b s f
  | .str r v => .str r v
  | .chr r v => .chr r v

def KAtom.tt (a : KAtom) : TT := .tok a.tok

/-- `atom - atom - …` -/
structure Seg where
  head : KAtom
  tail : List KAtom

/-- `seg . seg . …` -/
structure MKey where
  head : Seg
  tail : List Seg

def eqT : TT := pc 0x3D

def dashed : List KAtom → List TT
  | [] => []
  | a :: r => dash :: a.tt :: dashed r

/-- the tokens of a segment as written -/
def Seg.toks (s : Seg) : List TT := s.head.tt :: dashed s.tail

/-- the token trees `$($k:tt)-+` binds -/
def Seg.tts (s : Seg) : List TT := s.head.tt :: s.tail.map KAtom.tt

def dotted : List Seg → List TT
  | [] => []
  | s :: r => dot :: (s.toks ++ dotted r)

/-- the tokens of a key as written -/
def MKey.toks (k : MKey) : List TT := k.head.toks ++ dotted k.tail

/-- what `$($($k:tt)-+).+` binds -/
def MKey.segs (k : MKey) : List (List TT) := k.head.tts :: k.tail.map Seg.tts

/-- the path the macro computes (`concat!` of the atoms of each segment); `none`: `concat!` rejects an atom -/
def MKey.path (k : MKey) : Option (List Bytes) := segsStr k.segs

@[simp] theorem isP_atom (c : Byte) (a : KAtom) : isP c a.tt = false := by cases a <;> rfl

theorem keyPath_dashed (l : List KAtom) (a : KAtom) (sep : TT) (rest cur : List TT) (segs : List (List TT)) :
    keyPath (a.tt :: (dashed l ++ sep :: rest)) cur segs =
      keyPath (((a :: l).getLast (by simp)).tt :: sep :: rest) (cur ++ ((a :: l).dropLast.map KAtom.tt)) segs := by
  induction l generalizing a cur with
  | nil => simp [dashed]
  | cons b r ih =>
    have : keyPath (a.tt :: (dashed (b :: r) ++ sep :: rest)) cur segs =
        keyPath (b.tt :: (dashed r ++ sep :: rest)) (cur ++ [a.tt]) segs := by
      simp [dashed, keyPath, dash, pc]
    rw [this, ih b (cur ++ [a.tt])]
    simp [List.getLast_cons, List.dropLast]

theorem tts_split (a : KAtom) (l : List KAtom) :
    (a :: l).dropLast.map KAtom.tt ++ [((a :: l).getLast (by simp)).tt] = a.tt :: l.map KAtom.tt := by
  induction l generalizing a with
  | nil => rfl
  | cons b r ih =>
    have := ih b
    simp only [List.dropLast_cons_cons, List.map_cons, List.cons_append, List.getLast_cons_cons]
    rw [this]

/-- a segment followed by `.` -/
theorem keyPath_seg_dot (s : Seg) (rest cur : List TT) (segs : List (List TT)) :
    keyPath (s.toks ++ dot :: rest) cur segs = keyPath rest [] (segs ++ [cur ++ s.tts]) := by
  unfold Seg.toks Seg.tts
  rw [List.cons_append, keyPath_dashed]
  have h := tts_split s.head s.tail
  simp only [keyPath, dot, pc, isP_punct]
  simp only [List.append_assoc, h]
  simp

/-- a segment followed by `=` -/
theorem keyPath_seg_eq (s : Seg) (rest cur : List TT) (segs : List (List TT)) :
    keyPath (s.toks ++ eqT :: rest) cur segs = some (segs ++ [cur ++ s.tts], rest) := by
  unfold Seg.toks Seg.tts
  rw [List.cons_append, keyPath_dashed]
  have h := tts_split s.head s.tail
  simp only [keyPath, eqT, pc, isP_punct]
  simp only [List.append_assoc, h]
  simp

theorem keyPath_dotted (l : List Seg) (s : Seg) (rest cur : List TT) (segs : List (List TT)) :
    keyPath (s.toks ++ (dotted l ++ eqT :: rest)) cur segs =
      some (segs ++ [cur ++ s.tts] ++ l.map Seg.tts, rest) := by
  induction l generalizing s cur segs with
  | nil => simpa [dotted] using keyPath_seg_eq s rest cur segs
  | cons t r ih =>
    have : s.toks ++ (dotted (t :: r) ++ eqT :: rest) = s.toks ++ dot :: (t.toks ++ (dotted r ++ eqT :: rest)) := by
      simp [dotted]
    rw [this, keyPath_seg_dot, ih]
    simp

/-- `key = rest`: the key arm binds the segments and leaves `rest` -/
theorem keyPath_key (k : MKey) (rest : List TT) :
    keyPath (k.toks ++ eqT :: rest) [] [] = some (k.segs, rest) := by
  unfold MKey.toks MKey.segs
  rw [List.append_assoc, keyPath_dotted]
  simp

/-! ### header paths -/

theorem headerPath_dashed (l : List KAtom) (a : KAtom) (rest cur : List TT) (segs : List (List TT)) :
    headerPath (a.tt :: (dashed l ++ rest)) cur segs =
      headerPath (((a :: l).getLast (by simp)).tt :: rest) (cur ++ ((a :: l).dropLast.map KAtom.tt)) segs := by
  induction l generalizing a cur with
  | nil => simp [dashed]
  | cons b r ih =>
    have : headerPath (a.tt :: (dashed (b :: r) ++ rest)) cur segs =
        headerPath (b.tt :: (dashed r ++ rest)) (cur ++ [a.tt]) segs := by
      simp [dashed, headerPath, dash, pc]
    rw [this, ih b (cur ++ [a.tt])]
    simp [List.getLast_cons, List.dropLast]

theorem headerPath_seg_dot (s : Seg) (rest cur : List TT) (segs : List (List TT)) :
    headerPath (s.toks ++ dot :: rest) cur segs = headerPath rest [] (segs ++ [cur ++ s.tts]) := by
  unfold Seg.toks Seg.tts
  rw [List.cons_append, headerPath_dashed]
  have h := tts_split s.head s.tail
  simp only [headerPath, dot, pc, isP_punct]
  simp only [List.append_assoc, h]
  simp

theorem headerPath_seg_end (s : Seg) (cur : List TT) (segs : List (List TT)) :
    headerPath s.toks cur segs = some (segs ++ [cur ++ s.tts]) := by
  unfold Seg.toks Seg.tts
  have := headerPath_dashed s.tail s.head [] cur segs
  rw [List.append_nil] at this
  rw [this]
  have h := tts_split s.head s.tail
  simp only [headerPath]
  simp only [List.append_assoc, h]

theorem headerPath_dotted (l : List Seg) (s : Seg) (cur : List TT) (segs : List (List TT)) :
    headerPath (s.toks ++ dotted l) cur segs = some (segs ++ [cur ++ s.tts] ++ l.map Seg.tts) := by
  induction l generalizing s cur segs with
  | nil => simpa [dotted] using headerPath_seg_end s cur segs
  | cons t r ih =>
    have : s.toks ++ dotted (t :: r) = s.toks ++ dot :: (t.toks ++ dotted r) := by simp [dotted]
    rw [this, headerPath_seg_dot, ih]
    simp

/-- `[key]`: the whole content of the bracket is the path -/
theorem headerPath_key (k : MKey) : headerPath k.toks [] [] = some k.segs := by
  unfold MKey.toks MKey.segs
  rw [headerPath_dotted]
  simp

theorem key_toks_cons (k : MKey) : ∃ r, k.toks = k.head.head.tt :: r := ⟨_, rfl⟩

end TomlVerif.Lemmas.Macro19b
