import TomlVerif.Lemmas.Tiling03Value
import TomlVerif.Lemmas.Tiling03LastByte
/-! Document-level tiling for C03: documents without table headers whose lines are
    `key = value` with one-segment keys and `simpleVal` values, comments, blank lines. -/
namespace TomlVerif.Lemmas.Tiling03
open TomlVerif TomlVerif.Spec TomlVerif.Model TomlVerif.Model.Strings TomlVerif.Model.Value
open TomlVerif.Model.Cst TomlVerif.Model.Encode TomlVerif.Lemmas.Suffix03 TomlVerif.Lemmas.Cst03
open TomlVerif.Lemmas.LastByte03

/-! ### last bytes -/

theorem lastNe_of_split {s p r : Bytes} {b : UInt8} (h : s = p ++ b :: r) (hb : b ≠ 0x0A) : LastNe r s :=
  ⟨p, b, h, hb⟩

theorem cvalue_lastNe (inp : Bytes) (fuel d : Nat) (s r : Bytes) (v : CVal) (hs : s <:+ inp)
    (h : cvalue inp.length fuel d s = .ok v r) : LastNe r s := by
  cases fuel with
  | zero => unfold cvalue at h; cases h
  | succ fuel =>
    obtain ⟨_, p2, _, p4⟩ := value_main inp fuel
    unfold cvalue at h
    split at h
    · cases h
    · rename_i b r0
      have hr0 : r0 <:+ inp := (List.suffix_cons b r0).trans hs
      split at h
      · split at h
        · cases h
        · split at h
          · rename_i vs comma tr r1 hav
            obtain ⟨t, ht, _⟩ := p2 _ _ _ _ _ _ hr0 hav
            split at h
            · rename_i r2
              injection h with h1 h2; subst h2
              exact lastNe_of_split (p := b :: t) (b := 0x5D) (by rw [ht]; simp) (by decide)
            · cases h
          · cases h
      · split at h
        · split at h
          · cases h
          · split at h
            · rename_i kvs r1 hkv
              have h1 := p4 _ _ _ _ _ hr0 hkv
              simp only [] at h
              split at h
              · cases h
              · split at h
                · rename_i r2 heq
                  injection h with h1' h2; subst h2
                  obtain ⟨p, hp⟩ := ((heq ▸ Cst03.dropWs_suffix r1 : (0x7D :: r2) <:+ r1).trans h1).trans (List.suffix_cons b r0)
                  exact lastNe_of_split (p := p) (b := 0x7D) hp.symm (by decide)
                · cases h
            · cases h
        · split at h
          · rename_i v0 r1 hv
            injection h with h1 h2; subst h2
            exact scalar_lastNe _ _ _ _ hv
          · cases h
          · cases h

theorem consumed_orEq (s t r : Bytes) (h : s = t ++ r) (hb : ∀ b ∈ t, b ≠ 0x0A) : OrEq r s := by
  rcases List.eq_nil_or_concat t with e | ⟨i, l, e⟩
  · subst e; left; simpa using h.symm
  · subst e
    right
    exact ⟨i, l, by rw [h]; simp, hb l (by simp)⟩

theorem trailEnd_orEq (s : Bytes) : OrEq (trailEnd s) s := by
  unfold trailEnd
  simp only []
  obtain ⟨w, hw⟩ := Cst03.dropWs_suffix s
  have hwb := dropWs_consumed_ne_lf s w hw.symm
  split
  · rename_i r heq
    obtain ⟨c, hc⟩ := LastByte03.dropComment_suffix r
    have hcb := dropComment_consumed_ne_lf r c hc.symm
    refine consumed_orEq s (w ++ 0x23 :: c) _ (by
      have : s = w ++ (0x23 :: (c ++ dropComment r)) := by rw [hc, ← heq, hw]
      simpa [List.append_assoc] using this) ?_
    intro b hb
    rcases List.mem_append.1 hb with hb | hb
    · exact hwb b hb
    · rcases List.mem_cons.1 hb with hb | hb
      · subst hb; decide
      · exact hcb b hb
  · exact consumed_orEq s w _ hw.symm hwb

/-- `line_trailing`: the end of the input, or a newline after the recorded trailing text -/
theorem lineTrailing_cases (s r : Bytes) (h : lineTrailing s = .ok () r) :
    (trailEnd s = [] ∧ r = []) ∨ newline? (trailEnd s) = some r := by
  have key : lineTrailing s = (match trailEnd s with
      | [] => .ok () []
      | _ => match newline? (trailEnd s) with
        | some r => .ok () r
        | none => .bt) := rfl
  rw [key] at h
  split at h
  · rename_i heq; injection h with _ h; subst h; exact Or.inl ⟨heq, rfl⟩
  · split at h
    · rename_i r' hnl; injection h with _ h; subst h; exact Or.inr hnl
    · cases h

theorem newline?_noCr (x r : Bytes) (h : newline? x = some r) (hcr : ∀ b ∈ x, b ≠ 0x0D) : x = 0x0A :: r := by
  unfold newline? at h
  split at h
  · injection h with h; subst h; rfl
  · exact absurd rfl (hcr 0x0D (by simp))
  · cases h

/-! ### table bodies made of simple values -/

/-- every item is a `simpleVal` value -/
def simpleBody : List (CKey × CItem) → Bool
  | [] => true
  | (_, .value v) :: r => simpleVal v && simpleBody r
  | (_, .table _) :: _ => false
  | (_, .aot _ _) :: _ => false

theorem simpleBody_append : ∀ (a b : List (CKey × CItem)), simpleBody (a ++ b) = (simpleBody a && simpleBody b)
  | [], b => by simp [simpleBody]
  | (k, .value v) :: r, b => by simp [simpleBody, simpleBody_append r b, Bool.and_assoc]
  | (k, .table _) :: r, b => by simp [simpleBody]
  | (k, .aot _ _) :: r, b => by simp [simpleBody]

def isValueItem : CItem → Bool
  | .value _ => true
  | _ => false

theorem simpleBody_creplace (k : Bytes) (x : CItem) (hx : isValueItem x = false) :
    ∀ (l : List (CKey × CItem)) (y : CItem), clookup k l = some y → simpleBody (creplace k x l) = false
  | [], _, h => by simp [clookup] at h
  | (k', v') :: r, y, h => by
    unfold clookup at h
    unfold creplace
    split at h
    · rename_i hk
      simp only [hk, if_true]
      cases x <;> simp [simpleBody, isValueItem] at hx ⊢
    · rename_i hk
      simp only [hk]
      have := simpleBody_creplace k x hx r y h
      cases v' <;> simp [simpleBody, this]

theorem simpleBody_cset (k : CKey) (x : CItem) (hx : isValueItem x = false) (l : List (CKey × CItem)) :
    simpleBody (cset k x l) = false := by
  unfold cset
  split
  · rename_i y hy; exact simpleBody_creplace k.key x hx l y hy
  · rw [simpleBody_append]
    cases x <;> simp [simpleBody, isValueItem] at hx ⊢

@[simp] theorem setItems_items (t : CTbl) (i : List (CKey × CItem)) : (t.setItems i).items = i := by
  simp [CTbl.setItems, CTbl.items]

theorem descend_cons_notSimple (t t' : CTbl) (k : CKey) (ks : List CKey) (dotted : Bool) (f : CTbl → Option CTbl)
    (h : descend t (k :: ks) dotted f = some t') : simpleBody t'.items = false := by
  unfold descend at h
  simp only [] at h
  split at h
  · cases h
  · split at h
    · cases h
    · split at h
      · injection h with h; subst h
        rw [setItems_items]; exact simpleBody_cset _ _ rfl _
      · cases h
  · split at h
    · cases h
    · split at h
      · injection h with h; subst h
        rw [setItems_items]; exact simpleBody_cset _ _ rfl _
      · cases h

theorem valuesTbl_append : ∀ (a b : List (CKey × CItem)) (p : List CKey),
    valuesTbl (a ++ b) p = valuesTbl a p ++ valuesTbl b p
  | [], b, p => by simp [valuesTbl]
  | (k, it) :: r, b, p => by
    have ih := valuesTbl_append r b p
    cases it with
    | table t => simp [valuesTbl, ih]
    | aot ts sp => simp [valuesTbl, ih]
    | value v => cases v <;> simp [valuesTbl, ih]

theorem valuesTbl_single (k : CKey) (v : CVal) (h : simpleVal v = true) :
    valuesTbl [(k, .value v)] [] = [([k], v)] := by
  cases v with
  | scalar a b c => simp [valuesTbl]
  | arr a b c d e => simp [valuesTbl]
  | inl sub pre imp dot dec sp =>
    have : dot = false := by simp [simpleVal] at h; exact h.1.2
    subst this
    simp [valuesTbl]

theorem encodeBody_append (f : Bytes → Bytes) (inp : Bytes) : ∀ (a b : List (List CKey × CVal)),
    encodeBody f inp (a ++ b) = encodeBody f inp a ++ encodeBody f inp b
  | [], b => by simp [encodeBody]
  | (kp, v) :: r, b => by
    simp only [List.cons_append, encodeBody, encodeBody_append f inp r b, List.append_assoc]

theorem visitItems_simple : ∀ (items : List (CKey × CItem)) (path : List CKey) (st : Nat × List Entry),
    simpleBody items = true → visitItems items path st = st
  | [], _, _, _ => by simp [visitItems]
  | (k, .value v) :: r, path, st, h => by
    simp only [simpleBody, Bool.and_eq_true] at h
    rw [visitItems]; exact visitItems_simple r path st h.2
  | (k, .table _) :: r, _, _, h => by simp [simpleBody] at h
  | (k, .aot _ _) :: r, _, _, h => by simp [simpleBody] at h

/-- the printed form of a document whose root holds only simple values -/
theorem printDocG_root (f : Bytes → Bytes) (inp : Bytes) (hf : FixOn f inp) (items : List (CKey × CItem))
    (imp : Bool) (p : Option Nat) (sp : Option Span) (tr : Raw) (h : simpleBody items = true) :
    printDocG f inp ⟨.mk items imp false p {} sp, tr⟩ = encodeBody f inp (valuesTbl items []) ++ rawText inp tr := by
  unfold printDocG
  simp only [visitTbl, visitItems_simple items [] _ h]
  simp [sortEntries, insertEntry, visitTables, visitTable, prefixEncode, suffixEncode, CTbl.decor, CTbl.items,
    encRaw_fix hf]

/-! ### the state invariant -/

/-- the pending `trailing` span covers exactly the text `tr` before `s` -/
def TrailIs (n : Nat) (t : Option Span) (tr s : Bytes) : Prop :=
  (t = none ∧ tr = []) ∨ t = some (pos n (tr ++ s), pos n s)

theorem trailIs_text (inp : Bytes) (t : Option Span) (tr s : Bytes) (h : TrailIs inp.length t tr s)
    (hs : tr ++ s <:+ inp) : rawText inp (takeTrailing t) = tr := by
  rcases h with ⟨h1, h2⟩ | h
  · subst h1; subst h2; rfl
  · subst h
    exact rawText_between inp (tr ++ s) tr s hs rfl

theorem trailIs_onWs (n : Nat) (st : CState) (tr w s' : Bytes) (h : TrailIs n st.trailing tr (w ++ s')) :
    TrailIs n (onWs st (pos n (w ++ s')) (pos n s')).trailing (tr ++ w) s' := by
  unfold onWs
  rcases h with ⟨h1, h2⟩ | h
  · subst h2
    simp only [h1]
    right; simp
  · simp only [h]
    right; simp [List.append_assoc]

/-- the good states: no header seen, the root being built holds simple values, and what has been
    recorded prints as the consumed text (`body`: up to the end of the last key/value line, `tr`:
    the pending trivia) -/
def Good (f : Bytes → Bytes) (inp base : Bytes) (st : CState) (s : Bytes) : Prop :=
  st.root = CTbl.empty ∧ st.currentPath = [] ∧
  ∃ items imp p sp body tr eol, st.current = .mk items imp false p {} sp ∧ simpleBody items = true ∧
    TrailIs inp.length st.trailing tr s ∧ inp = base ++ body ++ tr ++ s ∧
    encodeBody f inp (valuesTbl items []) = body ++ eol ∧
    (eol = [] ∨ (eol = [0x0A] ∧ s = [] ∧ tr = [] ∧ body.getLast? ≠ some 0x0A))

/-- the states from which no document of the class can result -/
def Bad (st : CState) : Prop :=
  (simpleBody st.root.items && st.currentPath.isEmpty && simpleBody st.current.items) = false

def Inv (f : Bytes → Bytes) (inp base : Bytes) (st : CState) (s : Bytes) : Prop :=
  Good f inp base st s ∨ Bad st

theorem inv_onWs (f : Bytes → Bytes) (inp base : Bytes) (st : CState) (w s' : Bytes) (a b : Nat)
    (ha : a = pos inp.length (w ++ s')) (hb : b = pos inp.length s')
    (h : Inv f inp base st (w ++ s')) : Inv f inp base (onWs st a b) s' := by
  subst ha; subst hb
  rcases h with h | h
  · left
    obtain ⟨h1, h2, items, imp, p, sp, body, tr, eol, h3, h4, h5, h6, h7, h8⟩ := h
    have hroot : (onWs st (pos inp.length (w ++ s')) (pos inp.length s')).root = st.root := by
      unfold onWs; split <;> rfl
    have hpath : (onWs st (pos inp.length (w ++ s')) (pos inp.length s')).currentPath = st.currentPath := by
      unfold onWs; split <;> rfl
    have hcur : (onWs st (pos inp.length (w ++ s')) (pos inp.length s')).current = st.current := by
      unfold onWs; split <;> rfl
    refine ⟨hroot ▸ h1, hpath ▸ h2, items, imp, p, sp, body, tr ++ w, eol, hcur ▸ h3, h4,
      trailIs_onWs _ st tr w s' h5, by rw [h6]; simp [List.append_assoc], h7, ?_⟩
    rcases h8 with h8 | ⟨e1, e2, e3, e4⟩
    · exact Or.inl h8
    · right
      have hw : w = [] := (List.append_eq_nil_iff.1 e2).1
      have hs' : s' = [] := (List.append_eq_nil_iff.1 e2).2
      exact ⟨e1, hs', by rw [e3, hw]; rfl, e4⟩
  · right
    unfold Bad at h ⊢
    unfold onWs
    split <;> exact h

theorem good_suffix {f : Bytes → Bytes} {inp base : Bytes} {st : CState} {s : Bytes}
    (h : Good f inp base st s) : s <:+ inp := by
  obtain ⟨_, _, items, imp, p, sp, body, tr, eol, _, _, _, h6, _⟩ := h
  exact ⟨base ++ body ++ tr, h6.symm⟩

/-! ### the key/value line -/

/-- how `on_keyval` joins the pending trailing span and the key's own prefix -/
def mergeSpan (a b : Option Span) : Option Span :=
  match a, b with
  | some p, some k => some (p.1, k.2)
  | some p, none => some p
  | none, some p => some p
  | none, none => none

def kvKey (st : CState) (key : CKey) : CKey :=
  { key with leaf := { key.leaf with pre := some (takeTrailing (mergeSpan st.trailing
      (match key.leaf.pre with | some r => r.span | none => none))) } }

def kvCur (st : CState) (v : CVal) : CTbl :=
  match st.current.span, v.span with
  | some e, some vs => st.current.setSpan (some (e.1, vs.2))
  | _, _ => st.current

def kvFn (path : List CKey) (key' : CKey) (v : CVal) : CTbl → Option CTbl := fun table =>
  if table.dotted == path.isEmpty then none
  else match clookup key'.key table.items with
    | some _ => none
    | none => some (table.setItems (table.items ++ [(key', .value v)]))

theorem onKeyval_eq (st : CState) (path : List CKey) (key : CKey) (v : CVal) :
    onKeyval st path key v = (descend (kvCur st v) path true (kvFn path (kvKey st key) v)).map
      fun c => { st with current := c, trailing := none } := rfl

theorem mergePre_text (inp : Bytes) (t : Option Span) (tr s kw1 s0 : Bytes) (h : TrailIs inp.length t tr s)
    (hs : tr ++ s <:+ inp) (hk : s = kw1 ++ s0) :
    rawText inp (takeTrailing (mergeSpan t (rawBetween inp.length s s0).span)) = tr ++ kw1 := by
  unfold mergeSpan
  have hs0 : s <:+ inp := (List.suffix_append tr s).trans hs
  have hkw : rawText inp (rawBetween inp.length s s0) = kw1 := rawText_between inp s kw1 s0 hs0 hk
  have e2 : pos inp.length s0 = pos inp.length s + kw1.length := by
    obtain ⟨p, hp⟩ := hs0
    rw [← hp, hk]; simp [pos]; omega
  cases hsp : (rawBetween inp.length s s0).span with
  | none =>
    have : kw1 = [] := by
      unfold rawBetween Raw.withSpan at hsp hkw
      split at hsp
      · rename_i he; simp only [he, if_true] at hkw; exact hkw.symm
      · simp [Raw.span] at hsp
    subst this
    rcases h with ⟨h1, h2⟩ | h
    · subst h1; subst h2; rfl
    · subst h
      simp only [List.append_nil]
      exact rawText_between inp (tr ++ s) tr s hs rfl
  | some k =>
    have hk2 : k = (pos inp.length s, pos inp.length s0) := by
      unfold rawBetween Raw.withSpan at hsp
      split at hsp
      · simp [Raw.span] at hsp
      · simp [Raw.span] at hsp; exact hsp.symm
    subst hk2
    rcases h with ⟨h1, h2⟩ | h
    · subst h1; subst h2
      simp only [List.nil_append]
      have : takeTrailing (some (pos inp.length s, pos inp.length s0)) = rawBetween inp.length s s0 := rfl
      rw [this]; exact hkw
    · subst h
      have : takeTrailing (some (pos inp.length (tr ++ s), pos inp.length s0)) = rawBetween inp.length (tr ++ s) s0 := rfl
      simp only []
      rw [this]
      exact rawText_between inp (tr ++ s) (tr ++ kw1) s0 hs (by rw [hk]; simp)

theorem noCr_suffix {inp x : Bytes} (hcr : ∀ b ∈ inp, b ≠ 0x0D) (h : x <:+ inp) : ∀ b ∈ x, b ≠ 0x0D :=
  fun b hb => hcr b (h.subset hb)

theorem keyval_step (f : Bytes → Bytes) (inp base : Bytes) (hf : FixOn f inp) (hcr : ∀ b ∈ inp, b ≠ 0x0D)
    (st st' : CState) (s r3 : Bytes)
    (h : ckeyvalLine inp.length st s = some (st', r3)) (hI : Inv f inp base st s) :
    Inv f inp base st' r3 := by
  unfold ckeyvalLine at h
  split at h
  · rename_i ks r hk
    split at h
    · cases h
    · split at h
      · rename_i r1
        simp only [] at h
        split at h
        · rename_i v r2 hv
          split at h
          · rename_i r3' hlt
            generalize hv' : v.setDecor (Decor.new (rawBetween inp.length r1 (dropWs r1)) (rawBetween inp.length r2 (trailEnd r2))) = v' at h
            split at h
            · rename_i path key hsl
              cases hok : onKeyval st path key v' with
              | none => rw [hok] at h; simp at h
              | some st1 =>
                rw [hok] at h
                simp only [Option.map_some, Option.some.injEq, Prod.mk.injEq] at h
                obtain ⟨e1, e2⟩ := h
                subst e1; subst e2
                rw [onKeyval_eq] at hok
                generalize hcur : kvCur st v' = cur at hok
                generalize hkey' : kvKey st key = key' at hok
                have hcuritems : cur.items = st.current.items ∧ cur.dotted = st.current.dotted ∧
                    cur.implicit = st.current.implicit ∧ cur.pos = st.current.pos ∧ cur.decor = st.current.decor := by
                  rw [← hcur]
                  unfold kvCur
                  split <;> simp [CTbl.setSpan, CTbl.items, CTbl.dotted, CTbl.implicit, CTbl.pos, CTbl.decor]
                cases hd : descend cur path true (kvFn path key' v') with
                | none => rw [hd] at hok; simp at hok
                | some c =>
                  rw [hd] at hok
                  simp only [Option.map_some, Option.some.injEq] at hok
                  subst hok
                  -- the bad case
                  have hbad : simpleBody st.current.items = false ∨ path ≠ [] ∨ simpleVal v' = false →
                      simpleBody c.items = false := by
                    intro hb
                    cases path with
                    | cons k ks' => exact descend_cons_notSimple _ _ _ _ _ _ hd
                    | nil =>
                      unfold descend kvFn at hd
                      split at hd
                      · cases hd
                      · split at hd
                        · cases hd
                        · injection hd with hd; subst hd
                          rw [setItems_items, simpleBody_append, hcuritems.1]
                          rcases hb with hb | hb | hb
                          · simp [hb]
                          · exact absurd rfl hb
                          · simp [simpleBody, hb]
                  rcases hI with hG | hB
                  · obtain ⟨h1, h2, items, imp, p, sp, body, tr, eol, h3, h4, h5, h6, h7, h8⟩ := hG
                    by_cases hsimple : path = [] ∧ simpleVal v' = true
                    · obtain ⟨hp, hsv⟩ := hsimple
                      subst hp
                      left
                      have hs : s <:+ inp := ⟨base ++ body ++ tr, h6.symm⟩
                      have htrs : tr ++ s <:+ inp := ⟨base ++ body, by rw [h6]; simp [List.append_assoc]⟩
                      -- text facts
                      obtain ⟨kt, kw2, hks, hsplit, hktne, _, hrepr, hleaf, hw2t⟩ := ckeyPath_single inp s _ ks key hs hk hsl
                      obtain ⟨kw1, hkw1⟩ := Cst03.dropWs_suffix s
                      have hr1 : r1 <:+ inp := ((List.suffix_cons _ r1).trans (ckeyPath_suffix _ _ _ _ hk).1).trans hs
                      obtain ⟨w1, hw1⟩ := Cst03.dropWs_suffix r1
                      have hr1' : dropWs r1 <:+ inp := (Cst03.dropWs_suffix r1).trans hr1
                      obtain ⟨tv, htv, _, hdec, hvt⟩ := cvalue_tiling_simple f inp hf _ _ _ _ _ hr1' hv
                      have hr2 : r2 <:+ inp := (htv ▸ suffix_of_append tv r2).trans hr1'
                      obtain ⟨te, hte⟩ := trailEnd_suffix r2
                      have hsv0 : simpleVal v = true := by rw [← hv', simpleVal_setDecor] at hsv; exact hsv
                      have hval : encodeValue f inp v' [0x20] [] = w1 ++ tv ++ te := by
                        rw [← hv', encodeValue_setDecor f hf.nil inp v _ _ hdec [0x20] [] [] [], hvt hsv0 [] [],
                          encRaw_fix hf, encRaw_fix hf,
                          rawText_between inp r1 w1 (dropWs r1) hr1 hw1.symm,
                          rawText_between inp r2 te (trailEnd r2) hr2 hte.symm]
                      have hstext : s = kw1 ++ kt ++ kw2 ++ [0x3D] ++ w1 ++ tv ++ te ++ trailEnd r2 := by
                        rw [← hkw1, hsplit]
                        simp only [List.append_assoc, List.cons_append, List.nil_append]
                        rw [hte, ← htv, hw1]
                      -- the state
                      unfold descend kvFn at hd
                      have hcd : cur.dotted = false := by rw [hcuritems.2.1, h3]; rfl
                      split at hd
                      · rename_i hc; rw [hcd] at hc; simp at hc
                      · split at hd
                        · cases hd
                        · injection hd with hd
                          have hkp : encodeKeyPath f inp [key'] [] [0x20] = tr ++ kw1 ++ kt ++ kw2 := by
                            have hl' : key'.leaf = Decor.new (takeTrailing (mergeSpan st.trailing (rawBetween inp.length s (dropWs s)).span)) (rawBetween inp.length (kw2 ++ 0x3D :: r1) (0x3D :: r1)) := by
                              rw [← hkey']; unfold kvKey; rw [hleaf]; rfl
                            have hr' : key'.repr = key.repr := by rw [← hkey']; rfl
                            rw [encodeKeyPath_single f inp key' _ _ hl', encRaw_fix hf, encRaw_fix hf, hr', hrepr, hw2t,
                              mergePre_text inp st.trailing tr s kw1 (dropWs s) h5 htrs hkw1.symm]
                          have hcs : c = .mk (items ++ [(key', .value v')]) imp false p {} cur.span := by
                            rw [← hd]
                            have : cur = .mk items imp false p {} cur.span := by
                              obtain ⟨a1, a2, a3, a4, a5⟩ := hcuritems
                              rw [h3] at a1 a2 a3 a4 a5
                              cases cur
                              simp [CTbl.items, CTbl.dotted, CTbl.implicit, CTbl.pos, CTbl.decor, CTbl.span] at *
                              exact ⟨a1, a3, a2, a4, a5⟩
                            rw [this]
                            simp [CTbl.setItems, CTbl.items, CTbl.dotted, CTbl.implicit, CTbl.pos, CTbl.decor, CTbl.span]
                          have heol : eol = [] := by
                            rcases h8 with h8 | ⟨_, e2, _, _⟩
                            · exact h8
                            · exfalso
                              rw [e2] at hstext
                              have hl := congrArg List.length hstext
                              simp at hl
                          subst heol
                          have hbody : encodeBody f inp (valuesTbl (items ++ [(key', .value v')]) [])
                              = body ++ tr ++ kw1 ++ kt ++ kw2 ++ [0x3D] ++ w1 ++ tv ++ te ++ [0x0A] := by
                            rw [valuesTbl_append, encodeBody_append, h7, valuesTbl_single key' v' hsv]
                            simp only [encodeBody, hkp, hval]
                            simp [List.append_assoc]
                          rcases lineTrailing_cases r2 _ hlt with ⟨hte0, hr30⟩ | hnl
                          · -- the line ends the input
                            subst hr30
                            rw [hte0, List.append_nil] at hstext
                            refine ⟨h1, h2, _, imp, p, cur.span, body ++ tr ++ kw1 ++ kt ++ kw2 ++ [0x3D] ++ w1 ++ tv ++ te, [], [0x0A], hcs,
                              by rw [simpleBody_append, h4]; simp [simpleBody, hsv], Or.inl ⟨rfl, rfl⟩, ?_, hbody, ?_⟩
                            · rw [h6, hstext]; simp [List.append_assoc]
                            · right
                              refine ⟨rfl, rfl, rfl, ?_⟩
                              have l1 : LastNe r2 (dropWs r1) := cvalue_lastNe inp _ _ _ _ _ hr1' hv
                              have l2 : LastNe (trailEnd r2) (dropWs r1) := (trailEnd_orEq r2).trans_lastNe l1
                              rw [hte0] at l2
                              have hsuf : dropWs r1 <:+ body ++ tr ++ kw1 ++ kt ++ kw2 ++ [0x3D] ++ w1 ++ tv ++ te := by
                                refine ⟨body ++ tr ++ kw1 ++ kt ++ kw2 ++ [0x3D] ++ w1, ?_⟩
                                rw [htv, ← hte, hte0]; simp [List.append_assoc]
                              exact (l2.trans_suffix hsuf).getLast (by simp)
                          · -- the line ends with LF
                            have hx : trailEnd r2 = 0x0A :: r3' :=
                              newline?_noCr _ _ hnl (noCr_suffix hcr ((trailEnd_suffix r2).trans hr2))
                            rw [hx] at hstext
                            refine ⟨h1, h2, _, imp, p, cur.span, body ++ tr ++ kw1 ++ kt ++ kw2 ++ [0x3D] ++ w1 ++ tv ++ te ++ [0x0A], [], [], hcs,
                              by rw [simpleBody_append, h4]; simp [simpleBody, hsv], Or.inl ⟨rfl, rfl⟩, ?_, by rw [hbody]; simp, Or.inl rfl⟩
                            rw [h6, hstext]; simp [List.append_assoc]
                    · right
                      unfold Bad
                      have : simpleBody c.items = false := by
                        apply hbad
                        by_cases hp : path = []
                        · right; right
                          cases hsv : simpleVal v' with
                          | false => rfl
                          | true => exact absurd ⟨hp, hsv⟩ hsimple
                        · exact Or.inr (Or.inl hp)
                      simp [this]
                  · right
                    unfold Bad at hB ⊢
                    simp only [Bool.and_eq_false_iff] at hB ⊢
                    rcases hB with (hB | hB) | hB
                    · exact Or.inl (Or.inl hB)
                    · exact Or.inl (Or.inr hB)
                    · exact Or.inr (hbad (Or.inl hB))
            · cases h
          · cases h
        · cases h
      · cases h
  · cases h

end TomlVerif.Lemmas.Tiling03
