import TomlVerif.Lemmas.Tiling03MoreSemDefs
/-! C03, same data — tree lemmas without spelling: the tree invariant `gkItems` (every key of a
    table or array of tables reachable by headers is grammatical, `GKey`), the path predicate
    `SpineA` carrying the STORED key path, and the two `descend` runs of a header on the summary
    `nsItems` (`start_spineA`, `fin_spineA`: `start_spineO`/`fin_spineO` with the stored path
    instead of the source spelling). -/
namespace TomlVerif.Lemmas.Tiling03More
open TomlVerif TomlVerif.Spec TomlVerif.Model TomlVerif.Model.Strings TomlVerif.Model.Value
open TomlVerif.Model.Cst TomlVerif.Model.Encode TomlVerif.Lemmas.Suffix03 TomlVerif.Lemmas.Cst03
open TomlVerif.Lemmas.LastByte03 TomlVerif.Lemmas.Tiling03 TomlVerif.Lemmas.Tiling03Hdr
open TomlVerif.Lemmas.Tiling03Nest TomlVerif.Lemmas.Tiling03More.VS

/-! ### the key invariant of the root -/

mutual
/-- the keys of the non-dotted tables and arrays of tables below a table -/
def hkTbl : CTbl → List CKey
  | .mk items _ _ _ _ _ => hkItems items
/-- … of a sub-table under key `k`: nothing for a dotted-key table -/
def hkSub : CKey → CTbl → List CKey
  | k, .mk items _ dot _ _ _ => if dot then [] else k :: hkItems items
def hkItems : List (CKey × CItem) → List CKey
  | [] => []
  | (k, it) :: r =>
    match it with
    | .table t => hkSub k t ++ hkItems r
    | .aot ts _ => k :: hkAot ts ++ hkItems r
    | .value _ => hkItems r
def hkAot : List CTbl → List CKey
  | [] => []
  | t :: r => hkTbl t ++ hkAot r
end

theorem hkTbl_eq (t : CTbl) : hkTbl t = hkItems t.items := by
  cases t; rw [hkTbl]; rfl

theorem hkSub_eq (k : CKey) (t : CTbl) : hkSub k t = if t.dotted then [] else k :: hkItems t.items := by
  cases t; rw [hkSub]; rfl

theorem hkItems_append : ∀ (x y : Items), hkItems (x ++ y) = hkItems x ++ hkItems y
  | [], y => by simp [hkItems]
  | (k, .table t) :: r, y => by
    simp only [List.cons_append, hkItems, hkItems_append r y, List.append_assoc]
  | (k, .aot ts sp) :: r, y => by
    simp only [List.cons_append, hkItems, hkItems_append r y, List.append_assoc]
  | (k, .value v) :: r, y => by
    simp only [List.cons_append, hkItems, hkItems_append r y]

theorem hkAot_append : ∀ (x y : List CTbl), hkAot (x ++ y) = hkAot x ++ hkAot y
  | [], y => by simp [hkAot]
  | t :: r, y => by simp only [List.cons_append, hkAot, hkAot_append r y, List.append_assoc]

/-- the keys of the non-dotted tables and arrays of tables below an item list are `GKey` -/
def gkItems (inp : Bytes) (items : Items) : Prop := ∀ k ∈ hkItems items, GKey inp k
def gkAot (inp : Bytes) (ts : List CTbl) : Prop := ∀ k ∈ hkAot ts, GKey inp k

theorem gk_nil (inp : Bytes) : gkItems inp [] := by intro k hk; cases hk
theorem gkAot_nil (inp : Bytes) : gkAot inp [] := by intro k hk; cases hk
theorem gk_newImplicit (inp : Bytes) (d : Bool) : gkItems inp (newImplicit d).items := gk_nil inp

theorem gkItems_append (inp : Bytes) (x y : Items) : gkItems inp (x ++ y) ↔ gkItems inp x ∧ gkItems inp y := by
  unfold gkItems
  rw [hkItems_append]
  constructor
  · intro h; exact ⟨fun k hk => h k (List.mem_append_left _ hk), fun k hk => h k (List.mem_append_right _ hk)⟩
  · intro h k hk
    rcases List.mem_append.1 hk with hk | hk
    · exact h.1 k hk
    · exact h.2 k hk

theorem gk_mid_table (inp : Bytes) (A B : Items) (k : CKey) (t : CTbl) :
    gkItems inp (A ++ (k, .table t) :: B) ↔
      gkItems inp A ∧ (t.dotted = true ∨ (GKey inp k ∧ gkItems inp t.items)) ∧ gkItems inp B := by
  have hc : (k, CItem.table t) :: B = [(k, CItem.table t)] ++ B := rfl
  rw [hc, gkItems_append, gkItems_append]
  have : gkItems inp [(k, CItem.table t)] ↔ (t.dotted = true ∨ (GKey inp k ∧ gkItems inp t.items)) := by
    unfold gkItems
    simp only [hkItems, List.append_nil, hkSub_eq]
    cases hd : t.dotted with
    | true => simp
    | false =>
      simp only [Bool.false_eq_true, if_false, List.mem_cons, false_or]
      constructor
      · intro h; exact ⟨h k (Or.inl rfl), fun x hx => h x (Or.inr hx)⟩
      · rintro ⟨h1, h2⟩ x (hx | hx)
        · subst hx; exact h1
        · exact h2 x hx
  rw [this]

theorem gk_mid_aot (inp : Bytes) (A B : Items) (k : CKey) (ts : List CTbl) (asp : Option Span) :
    gkItems inp (A ++ (k, .aot ts asp) :: B) ↔ gkItems inp A ∧ (GKey inp k ∧ gkAot inp ts) ∧ gkItems inp B := by
  have hc : (k, CItem.aot ts asp) :: B = [(k, CItem.aot ts asp)] ++ B := rfl
  rw [hc, gkItems_append, gkItems_append]
  have : gkItems inp [(k, CItem.aot ts asp)] ↔ (GKey inp k ∧ gkAot inp ts) := by
    unfold gkItems gkAot
    simp only [hkItems, List.append_nil, List.mem_cons]
    constructor
    · intro h; exact ⟨h k (Or.inl rfl), fun x hx => h x (Or.inr hx)⟩
    · rintro ⟨h1, h2⟩ x (hx | hx)
      · subst hx; exact h1
      · exact h2 x hx
  rw [this]

theorem gkAot_snoc (inp : Bytes) (ts : List CTbl) (t : CTbl) :
    gkAot inp (ts ++ [t]) ↔ gkAot inp ts ∧ gkItems inp t.items := by
  unfold gkAot gkItems
  rw [hkAot_append]
  simp only [hkAot, List.append_nil, hkTbl_eq]
  constructor
  · intro h; exact ⟨fun k hk => h k (List.mem_append_left _ hk), fun k hk => h k (List.mem_append_right _ hk)⟩
  · intro h k hk
    rcases List.mem_append.1 hk with hk | hk
    · exact h.1 k hk
    · exact h.2 k hk

theorem bodyOkU_hk : ∀ (items : Items), bodyOkU items = true → hkItems items = []
  | [], _ => rfl
  | (k, .value v) :: r, h => by
    simp only [bodyOkU, Bool.and_eq_true] at h
    simp only [hkItems]; exact bodyOkU_hk r h.2
  | (k, .table t) :: r, h => by
    simp only [bodyOkU, Bool.and_eq_true] at h
    have := h.1; rw [bodyTblU_eq] at this
    simp only [Bool.and_eq_true] at this
    simp only [hkItems, hkSub_eq, this.1, if_true, List.nil_append]; exact bodyOkU_hk r h.2
  | (k, .aot _ _) :: r, h => by simp [bodyOkU] at h

/-- a body (values and dotted-key tables) has nothing to check -/
theorem bodyOkU_gk (inp : Bytes) (items : Items) (h : bodyOkU items = true) : gkItems inp items := by
  unfold gkItems; rw [bodyOkU_hk items h]; intro k hk; cases hk

/-! ### the path of a header in the root, with the stored keys -/

/-- `SpineO` without spelling conditions; `SP` is the key path as the tree stores it (the stored
    keys of existing entries, the header's own keys for new ones), all `GKey` -/
def SpineA (inp : Bytes) (a : Bool) (key : CKey) : CTbl → List CKey → List CKey → Prop
  | t, [], SP => t.dotted = false ∧
      (if a then ∃ A k' ts asp B, t.items = A ++ (k', .aot ts asp) :: B ∧ (k'.key == key.key) = true ∧
          clookup key.key A = none ∧ SP = [k'] ∧ GKey inp k'
       else clookup key.key t.items = none ∧ SP = [key] ∧ GKey inp key)
  | t, k :: ks, SP => t.dotted = false ∧ ∃ A k' B SP', clookup k.key A = none ∧ (k'.key == k.key) = true ∧
      GKey inp k' ∧ SP = k' :: SP' ∧
      ((∃ sub, t.items = A ++ (k', .table sub) :: B ∧ SpineA inp a key sub ks SP') ∨
       (∃ tsI l asp, t.items = A ++ (k', .aot (tsI ++ [l]) asp) :: B ∧ SpineA inp a key l ks SP'))

theorem spineA_dotted {inp : Bytes} {a : Bool} {key : CKey} {t : CTbl} {pp SP : List CKey}
    (h : SpineA inp a key t pp SP) : t.dotted = false := by
  cases pp with
  | nil => exact h.1
  | cons k ks => exact h.1

theorem beq_key_eq {a b : Bytes} (h : (a == b) = true) : a = b := by simpa using h

theorem spineA_facts (inp : Bytes) (a : Bool) (key : CKey) : ∀ (pp : List CKey) (t : CTbl) (SP : List CKey),
    SpineA inp a key t pp SP → keysOf SP = keysOf (pp ++ [key]) ∧ (∀ k ∈ SP, GKey inp k) ∧ SP ≠ []
  | [], t, SP, h => by
    obtain ⟨_, h⟩ := h
    cases a with
    | true =>
      simp only [if_true] at h
      obtain ⟨A, k', ts, asp, B, _, e2, _, e4, e5⟩ := h
      subst e4
      refine ⟨by simp [keysOf, beq_key_eq e2], ?_, by simp⟩
      intro k hk; simp only [List.mem_singleton] at hk; subst hk; exact e5
    | false =>
      simp only [Bool.false_eq_true, if_false] at h
      obtain ⟨_, e4, e5⟩ := h
      subst e4
      refine ⟨rfl, ?_, by simp⟩
      intro k hk; simp only [List.mem_singleton] at hk; subst hk; exact e5
  | k :: ks, t, SP, h => by
    obtain ⟨_, A, k', B, SP', _, e2, e3, e4, h⟩ := h
    subst e4
    have ih : keysOf SP' = keysOf (ks ++ [key]) ∧ (∀ k ∈ SP', GKey inp k) ∧ SP' ≠ [] := by
      rcases h with ⟨sub, _, hs⟩ | ⟨tsI, l, asp, _, hs⟩
      · exact spineA_facts inp a key ks sub SP' hs
      · exact spineA_facts inp a key ks l SP' hs
    refine ⟨?_, ?_, by simp⟩
    · simp only [keysOf, List.map_cons, List.cons_append] at ih ⊢
      rw [ih.1, beq_key_eq e2]
    · intro x hx
      rcases List.mem_cons.1 hx with hx | hx
      · subst hx; exact e3
      · exact ih.2.1 x hx

theorem pathOkA_dotted {a : Bool} {key : CKey} {t : CTbl} {pp : List CKey}
    (h : pathOkA a key t pp = true) : t.dotted = false := by
  cases pp <;> simp only [pathOkA, Bool.and_eq_true, Bool.not_eq_true'] at h <;> exact h.1

theorem pathOkA_empty (a : Bool) (key : CKey) (t : CTbl) (hi : t.items = []) (hd : t.dotted = false) :
    ∀ pp, pathOkA a key t pp = true
  | [] => by simp [pathOkA, hi, hd, clookup]
  | k :: ks => by simp [pathOkA, hi, hd, clookup]

/-- the stored key found by `clookup` in a `gkItems` list, when the item is a non-dotted table or
    an array of tables, is `GKey` -/
theorem gk_lookup_table (inp : Bytes) (A B : Items) (k' : CKey) (sub : CTbl) (hd : sub.dotted = false)
    (h : gkItems inp (A ++ (k', .table sub) :: B)) : GKey inp k' ∧ gkItems inp sub.items := by
  obtain ⟨_, h2, _⟩ := (gk_mid_table inp A B k' sub).1 h
  rcases h2 with h2 | h2
  · rw [hd] at h2; cases h2
  · exact h2

/-- `start_table` / `start_array_table` on a root that passes the header check -/
theorem start_spineA (inp : Bytes) (a : Bool) (key : CKey) (hkey : GKey inp key) :
    ∀ (pp : List CKey) (t t' : CTbl), (∀ k ∈ pp, GKey inp k) → pathOkA a key t pp = true →
      gkItems inp t.items →
      descend t pp false (if a then arrFn key else eraseFn key) = some t' →
      (∃ SP, SpineA inp a key t' pp SP) ∧ valuesTbl t'.items [] = valuesTbl t.items [] ∧
      (∀ f P, nsItems f inp t'.items P = nsItems f inp t.items P) ∧ gkItems inp t'.items ∧
      (a = false → findTable key.key t pp = none) := by
  intro pp
  induction pp with
  | nil =>
    intro t t' _ hok hg hd
    rw [descend_nil] at hd
    simp only [pathOkA, Bool.and_eq_true, Bool.not_eq_true'] at hok
    obtain ⟨hdot, hok⟩ := hok
    cases hl : clookup key.key t.items with
    | none =>
      cases a with
      | false =>
        simp only [Bool.false_eq_true, if_false] at hd
        unfold eraseFn at hd
        injection hd with hd
        rw [cerase_of_none _ _ hl, setItems_self] at hd
        subst hd
        refine ⟨⟨[key], hdot, by simpa using ⟨hl, hkey⟩⟩, rfl, fun _ _ => rfl, hg, ?_⟩
        intro _
        simp [findTable, hl]
      | true =>
        simp only [if_true] at hd
        unfold arrFn at hd
        rw [hl] at hd
        simp only [] at hd
        injection hd with hd
        subst hd
        refine ⟨⟨[key], by simpa using hdot, ?_⟩, ?_, ?_, ?_, ?_⟩
        · simp only [if_true, setItems_items]
          exact ⟨t.items, key, [], none, [], rfl, by simp, hl, rfl, hkey⟩
        · rw [setItems_items]; exact valuesTbl_snoc_aot _ _ _ _ _
        · intro f P
          rw [setItems_items, nsItems_append]
          simp [nsItems, nsAot]
        · rw [setItems_items]
          exact (gk_mid_aot inp t.items [] key [] none).2 ⟨hg, ⟨hkey, gkAot_nil inp⟩, gk_nil inp⟩
        · intro h; cases h
    | some y =>
      rw [hl] at hok
      cases y with
      | value v => simp at hok
      | table sub => simp at hok
      | aot ts asp =>
        simp only [] at hok
        subst hok
        simp only [if_true] at hd
        obtain ⟨A, k', B, e1, e2, e3, e4⟩ := clookup_split _ _ _ hl
        unfold arrFn at hd
        rw [hl] at hd
        simp only [] at hd
        injection hd with hd
        subst hd
        have hk' : GKey inp k' := by
          rw [e1] at hg
          exact ((gk_mid_aot inp A B k' ts asp).1 hg).2.1.1
        refine ⟨⟨[k'], hdot, ?_⟩, rfl, fun _ _ => rfl, hg, ?_⟩
        · simp only [if_true]
          exact ⟨A, k', ts, asp, B, e1, e3, e2, rfl, hk'⟩
        · intro h; cases h
  | cons k ks ih =>
    intro t t' hpp hok hg hd
    have hk : GKey inp k := hpp k (by simp)
    have hks : ∀ x ∈ ks, GKey inp x := fun x hx => hpp x (List.mem_cons_of_mem _ hx)
    simp only [pathOkA, Bool.and_eq_true, Bool.not_eq_true'] at hok
    obtain ⟨hdot, hok⟩ := hok
    obtain ⟨x, et', hx⟩ := descend_cons_shape _ _ _ _ _ _ hd
    cases hl : clookup k.key t.items with
    | none =>
      rw [hl] at hx
      simp only [Option.getD_none] at hx
      rcases hx with ⟨sub, sub', e1, hd', e2⟩ | ⟨_, _, _, _, e1, _⟩
      · injection e1 with e1
        subst e1; subst e2
        obtain ⟨⟨SP', i1⟩, i2, i3, i4, i5⟩ := ih _ _ hks (pathOkA_empty a key _ rfl rfl ks) (gk_newImplicit inp false) hd'
        have hs := descend_setItems _ (startFn_setItems a key) ks _ _ _ hd'
        rw [cset_none _ _ _ hl] at et'
        subst et'
        have hsd : sub'.dotted = false := spineA_dotted i1
        refine ⟨⟨k :: SP', by simpa using hdot, t.items, k, [], SP', hl, by simp, hk, rfl,
          Or.inl ⟨sub', by simp, i1⟩⟩, ?_, ?_, ?_, ?_⟩
        · rw [setItems_items]; exact valuesTbl_snoc_table _ _ _ hsd _
        · intro f P
          rw [setItems_items, nsItems_append]
          simp only [nsItems, List.append_nil]
          rw [nsTbl_setItems f inp _ _ _ _ hs i2, hdN_newImplicit, i3 f]
          simp [newImplicit, CTbl.items, nsItems]
        · rw [setItems_items]
          exact (gk_mid_table inp t.items [] k sub').2 ⟨hg, Or.inr ⟨hk, i4⟩, gk_nil inp⟩
        · intro _
          simp [findTable, hl]
      · cases e1
    | some y =>
      rw [hl] at hok hx
      simp only [Option.getD_some] at hx
      obtain ⟨A, k', B, e1, e2, e3, e4⟩ := clookup_split _ _ _ hl
      have e3' : (k'.key == k.key) = true := e3
      cases y with
      | value v => simp at hok
      | table sub =>
        simp only [] at hok
        rcases hx with ⟨sub0, sub', e5, hd', e6⟩ | ⟨_, _, _, _, e5, _⟩
        · injection e5 with e5
          subst e5; subst e6
          have hsd0 : sub.dotted = false := pathOkA_dotted hok
          obtain ⟨hk', hgs⟩ := gk_lookup_table inp A B k' sub hsd0 (e1 ▸ hg)
          obtain ⟨⟨SP', i1⟩, i2, i3, i4, i5⟩ := ih _ _ hks hok hgs hd'
          have hs := descend_setItems _ (startFn_setItems a key) ks _ _ _ hd'
          have hsd : sub'.dotted = false := spineA_dotted i1
          have hcs : cset k (.table sub') t.items = A ++ (k', .table sub') :: B := by
            rw [e1]; exact cset_mid _ _ _ _ _ _ e3' e2
          rw [hcs] at et'
          subst et'
          refine ⟨⟨k' :: SP', by simpa using hdot, A, k', B, SP', e2, e3', hk', rfl, Or.inl ⟨sub', by simp, i1⟩⟩, ?_, ?_, ?_, ?_⟩
          · rw [setItems_items, e1, valuesTbl_mid_table _ _ _ _ hsd, valuesTbl_mid_table _ _ _ _ hsd0]
          · intro f P
            rw [setItems_items, e1, nsItems_append, nsItems_append]
            simp only [nsItems]
            rw [nsTbl_setItems f inp _ _ _ _ hs i2, i3 f, nsTbl_eq f inp sub]
          · rw [setItems_items]
            rw [e1] at hg
            obtain ⟨g1, _, g3⟩ := (gk_mid_table inp A B k' sub).1 hg
            exact (gk_mid_table inp A B k' sub').2 ⟨g1, Or.inr ⟨hk', i4⟩, g3⟩
          · intro ha
            simp only [findTable, hl]
            exact i5 ha
        · cases e5
      | aot ts asp =>
        simp only [] at hok
        rcases hx with ⟨_, _, e5, _, _⟩ | ⟨tsI, l, l', asp', e5, hd', e6⟩
        · cases e5
        · injection e5 with e5 e5'
          subst e5; subst e5'; subst e6
          have hrev : (tsI ++ [l]).reverse = l :: tsI.reverse := by simp
          rw [hrev] at hok
          simp only [] at hok
          rw [e1] at hg
          obtain ⟨g1, ⟨hk', g2⟩, g3⟩ := (gk_mid_aot inp A B k' _ asp).1 hg
          obtain ⟨g2a, g2b⟩ := (gkAot_snoc inp tsI l).1 g2
          obtain ⟨⟨SP', i1⟩, i2, i3, i4, i5⟩ := ih _ _ hks hok g2b hd'
          have hs := descend_setItems _ (startFn_setItems a key) ks _ _ _ hd'
          have hcs : cset k (.aot (tsI ++ [l']) asp) t.items = A ++ (k', .aot (tsI ++ [l']) asp) :: B := by
            rw [e1]; exact cset_mid _ _ _ _ _ _ e3' e2
          rw [hcs] at et'
          subst et'
          refine ⟨⟨k' :: SP', by simpa using hdot, A, k', B, SP', e2, e3', hk', rfl, Or.inr ⟨tsI, l', asp, by simp, i1⟩⟩, ?_, ?_, ?_, ?_⟩
          · rw [setItems_items, e1, valuesTbl_mid_aot, valuesTbl_mid_aot]
          · intro f P
            rw [setItems_items, e1, nsItems_append, nsItems_append]
            simp only [nsItems]
            rw [nsAot_append, nsAot_append]
            simp only [nsAot, List.append_nil]
            rw [nsTbl_setItems f inp _ _ _ _ hs i2, i3 f, nsTbl_eq f inp l]
          · rw [setItems_items]
            exact (gk_mid_aot inp A B k' _ asp).2 ⟨g1, ⟨hk', (gkAot_snoc inp tsI l').2 ⟨g2a, i4⟩⟩, g3⟩
          · intro ha
            simp only [findTable, hl, hrev]
            exact i5 ha

/-- `finalize_table` along the path: the triple of the finished table is inserted into the
    summary, under the STORED key path -/
theorem fin_spineA (f : Bytes → Bytes) (inp : Bytes) (a : Bool) (key : CKey) (cur : CTbl) (q : Nat)
    (hcd : cur.dotted = false) (hq : cur.pos = some q) (hbody : ∀ X, nsItems f inp cur.items X = [])
    (hgc : gkItems inp cur.items) :
    ∀ (pp : List CKey) (t t' : CTbl) (P SP : List CKey), SpineA inp a key t pp SP → gkItems inp t.items →
      descend t pp false (if a then finArr key cur else finStd key cur) = some t' →
      (∃ l1 l2, nsItems f inp t.items P = l1 ++ l2 ∧
        nsItems f inp t'.items P = l1 ++ [(q, cur.decor.pre.isSome, entText f inp cur (P ++ SP) a)] ++ l2) ∧
      valuesTbl t'.items [] = valuesTbl t.items [] ∧ gkItems inp t'.items := by
  have hcur : ∀ X b, nsTbl f inp cur X b = [(q, cur.decor.pre.isSome, entText f inp cur X b)] := by
    intro X b
    rw [nsTbl_eq, hbody, hdN_some f inp cur X b q hcd hq]; simp
  intro pp
  induction pp with
  | nil =>
    intro t t' P SP hsp hg hd
    rw [descend_nil] at hd
    obtain ⟨hdot, hsp⟩ := hsp
    cases a with
    | false =>
      simp only [Bool.false_eq_true, if_false] at hd hsp
      obtain ⟨hsp, eSP, hkey⟩ := hsp
      subst eSP
      unfold finStd at hd
      rw [hsp] at hd
      simp only [] at hd
      injection hd with hd
      subst hd
      refine ⟨⟨nsItems f inp t.items P, [], by simp, ?_⟩, ?_, ?_⟩
      · rw [setItems_items, nsItems_append]
        simp only [nsItems, List.append_nil, hcur]
      · rw [setItems_items]; exact valuesTbl_snoc_table _ _ _ hcd _
      · rw [setItems_items]
        exact (gk_mid_table inp t.items [] key cur).2 ⟨hg, Or.inr ⟨hkey, hgc⟩, gk_nil inp⟩
    | true =>
      simp only [if_true] at hd hsp
      obtain ⟨A, k', ts, asp, B, e1, e2, e3, eSP, hk'⟩ := hsp
      subst eSP
      have hl : clookup key.key t.items = some (.aot ts asp) := by
        rw [e1]; exact clookup_mid _ _ _ _ _ e2 e3
      unfold finArr at hd
      rw [hl] at hd
      simp only [Option.getD_some] at hd
      injection hd with hd
      rw [e1, cset_mid _ _ _ _ _ _ e2 e3] at hd
      subst hd
      rw [e1] at hg
      obtain ⟨g1, ⟨_, g2⟩, g3⟩ := (gk_mid_aot inp A B k' ts asp).1 hg
      refine ⟨⟨nsItems f inp A P ++ nsAot f inp ts (P ++ [k']), nsItems f inp B P, ?_, ?_⟩, ?_, ?_⟩
      · rw [e1, nsItems_append]
        simp only [nsItems, List.append_assoc]
      · rw [setItems_items, nsItems_append]
        simp only [nsItems]
        rw [nsAot_append]
        simp only [nsAot, List.append_nil, hcur, List.append_assoc]
      · rw [setItems_items, e1, valuesTbl_mid_aot, valuesTbl_mid_aot]
      · rw [setItems_items]
        exact (gk_mid_aot inp A B k' _ _).2 ⟨g1, ⟨hk', (gkAot_snoc inp ts cur).2 ⟨g2, hgc⟩⟩, g3⟩
  | cons k ks ih =>
    intro t t' P SP hsp hg hd
    obtain ⟨hdot, A, k', B, SP', e3, e2, hk', eSP, hsp⟩ := hsp
    subst eSP
    obtain ⟨x, et', hx⟩ := descend_cons_shape _ _ _ _ _ _ hd
    have hlist : P ++ [k'] ++ SP' = P ++ k' :: SP' := by simp
    rcases hsp with ⟨sub, e1, hsub⟩ | ⟨tsI, l, asp, e1, hsub⟩
    · have hl : clookup k.key t.items = some (.table sub) := by
        rw [e1]; exact clookup_mid _ _ _ _ _ e2 e3
      rw [hl] at hx
      simp only [Option.getD_some] at hx
      rcases hx with ⟨sub0, sub', e5, hd', e6⟩ | ⟨_, _, _, _, e5, _⟩
      · injection e5 with e5
        subst e5; subst e6
        have hsd : sub.dotted = false := spineA_dotted hsub
        rw [e1] at hg
        obtain ⟨g1, g2, g3⟩ := (gk_mid_table inp A B k' sub).1 hg
        have g2' : gkItems inp sub.items := by
          rcases g2 with g2 | g2
          · rw [hsd] at g2; cases g2
          · exact g2.2
        obtain ⟨⟨l1, l2, i1, i2⟩, i3, i4⟩ := ih _ _ (P ++ [k']) SP' hsub g2' hd'
        have hs := descend_setItems _ (finFn_setItems a key cur) ks _ _ _ hd'
        have hsd' : sub'.dotted = false := by rw [hs]; simpa using hsd
        rw [e1, cset_mid _ _ _ _ _ _ e2 e3] at et'
        subst et'
        refine ⟨⟨nsItems f inp A P ++ hdN f inp sub (P ++ [k']) false ++ l1, l2 ++ nsItems f inp B P, ?_, ?_⟩, ?_, ?_⟩
        · rw [e1, nsItems_append]
          simp only [nsItems]
          rw [nsTbl_eq, i1]
          simp only [List.append_assoc]
        · rw [setItems_items, nsItems_append]
          simp only [nsItems]
          rw [nsTbl_setItems f inp _ _ _ _ hs i3, i2, hlist]
          simp only [List.append_assoc]
        · rw [setItems_items, e1, valuesTbl_mid_table _ _ _ _ hsd', valuesTbl_mid_table _ _ _ _ hsd]
        · rw [setItems_items]
          exact (gk_mid_table inp A B k' sub').2 ⟨g1, Or.inr ⟨hk', i4⟩, g3⟩
      · cases e5
    · have hl : clookup k.key t.items = some (.aot (tsI ++ [l]) asp) := by
        rw [e1]; exact clookup_mid _ _ _ _ _ e2 e3
      rw [hl] at hx
      simp only [Option.getD_some] at hx
      rcases hx with ⟨_, _, e5, _, _⟩ | ⟨tsI0, l0, l', asp', e5, hd', e6⟩
      · cases e5
      · injection e5 with e5 e5'
        obtain ⟨e7, e8⟩ := snoc_inj e5
        subst e7; subst e8; subst e5'; subst e6
        rw [e1] at hg
        obtain ⟨g1, ⟨_, g2⟩, g3⟩ := (gk_mid_aot inp A B k' _ asp).1 hg
        obtain ⟨g2a, g2b⟩ := (gkAot_snoc inp tsI l).1 g2
        obtain ⟨⟨l1, l2, i1, i2⟩, i3, i4⟩ := ih _ _ (P ++ [k']) SP' hsub g2b hd'
        have hs := descend_setItems _ (finFn_setItems a key cur) ks _ _ _ hd'
        rw [e1, cset_mid _ _ _ _ _ _ e2 e3] at et'
        subst et'
        refine ⟨⟨nsItems f inp A P ++ nsAot f inp tsI (P ++ [k']) ++ hdN f inp l (P ++ [k']) true ++ l1,
          l2 ++ nsItems f inp B P, ?_, ?_⟩, ?_, ?_⟩
        · rw [e1, nsItems_append]
          simp only [nsItems]
          rw [nsAot_append]
          simp only [nsAot, List.append_nil]
          rw [nsTbl_eq, i1]
          simp only [List.append_assoc]
        · rw [setItems_items, nsItems_append]
          simp only [nsItems]
          rw [nsAot_append]
          simp only [nsAot, List.append_nil]
          rw [nsTbl_setItems f inp _ _ _ _ hs i3, i2, hlist]
          simp only [List.append_assoc]
        · rw [setItems_items, e1, valuesTbl_mid_aot, valuesTbl_mid_aot]
        · rw [setItems_items]
          exact (gk_mid_aot inp A B k' _ asp).2 ⟨g1, ⟨hk', (gkAot_snoc inp tsI l').2 ⟨g2a, i4⟩⟩, g3⟩

end TomlVerif.Lemmas.Tiling03More
