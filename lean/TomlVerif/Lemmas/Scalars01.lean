import TomlVerif.Lemmas.Value01
import TomlVerif.Props.C10
import TomlVerif.Props.C11
import TomlVerif.Props.C12
/-! The concrete scalar tokens are `ScalarOK` (Spec/AstValue.lean): strings the writer produces,
    decimal integer literals, the writer's float tokens, printed date-times. Each is a dispatch
    lemma on the first byte of the token in `value`. -/
namespace TomlVerif.Lemmas.Scalars01
open TomlVerif TomlVerif.Spec TomlVerif.Model TomlVerif.Model.Strings TomlVerif.Model.Value
open TomlVerif.Spec.AstValue TomlVerif.Lemmas.Value01
open TomlVerif.Model.Datetime TomlVerif.Model.Numbers TomlVerif.Lemmas.Numbers11
open TomlVerif.Lemmas.Datetime12 TomlVerif.Props.C12

/-! ## dispatch -/

theorem numStart_facts : ∀ b : UInt8, (b == 0x2B || b == 0x2D || isDigit b) = true →
    (b == 0x22 || b == 0x27) = false ∧ (b == 0x5B) = false ∧ (b == 0x7B) = false ∧ isFollowByte b = false ∧
    b ≠ 0x5B ∧ b ≠ 0x7B :=
  forall_byte (by decide +kernel)

theorem value_dt (f d : Nat) (b : UInt8) (r r1 : Bytes) (dtv : Datetime.Datetime)
    (hb : (b == 0x2B || b == 0x2D || isDigit b) = true)
    (h : Datetime.Doc.dateTime (b :: r) = .ok dtv r1) : value (f + 1) d (b :: r) = .ok (.dt dtv) r1 := by
  obtain ⟨h1, h2, h3, _⟩ := numStart_facts b hb
  conv => lhs; unfold value
  simp only [h1, h2, h3, hb, h]
  simp

theorem value_float (f d : Nat) (b : UInt8) (r r1 : Bytes) (bits : Nat)
    (hb : (b == 0x2B || b == 0x2D || isDigit b) = true)
    (h : Datetime.Doc.dateTime (b :: r) = .bt) (h' : Numbers.float (b :: r) = .ok bits r1) :
    value (f + 1) d (b :: r) = .ok (.float bits) r1 := by
  obtain ⟨h1, h2, h3, _⟩ := numStart_facts b hb
  conv => lhs; unfold value
  simp only [h1, h2, h3, hb, h, h']
  simp

theorem value_int (f d : Nat) (b : UInt8) (r r1 : Bytes) (n : Int)
    (hb : (b == 0x2B || b == 0x2D || isDigit b) = true)
    (h : Datetime.Doc.dateTime (b :: r) = .bt) (h' : Numbers.float (b :: r) = .bt)
    (h'' : Numbers.integer (b :: r) = .ok n r1) :
    value (f + 1) d (b :: r) = .ok (.int n) r1 := by
  obtain ⟨h1, h2, h3, _⟩ := numStart_facts b hb
  conv => lhs; unfold value
  simp only [h1, h2, h3, hb, h, h', h'']
  simp [Res.map]

theorem value_str (f d : Nat) (b : UInt8) (r : Bytes) (hb : b = 0x22 ∨ b = 0x27) :
    value (f + 1) d (b :: r) = (Strings.string (b :: r)).map Val.str := by
  conv => lhs; unfold value
  rcases hb with rfl | rfl <;> simp

/-! ## strings -/

theorem string_ok_head (s v r : Bytes) (h : Strings.string s = .ok v r) : ∃ b t, s = b :: t ∧ (b = 0x22 ∨ b = 0x27) := by
  cases s with
  | nil => simp [Strings.string, mlBasicString, basicString, mlLiteralString, literalString] at h
  | cons b t =>
    refine ⟨b, t, rfl, ?_⟩
    by_cases h1 : b = 0x22
    · exact Or.inl h1
    by_cases h2 : b = 0x27
    · exact Or.inr h2
    exfalso
    have e1 : mlBasicString (b :: t) = .bt := by
      unfold mlBasicString; split
      · rename_i heq; injection heq with hb _; exact absurd hb h1
      · rfl
    have e2 : basicString (b :: t) = .bt := by
      unfold basicString; split
      · rename_i heq; injection heq with hb _; exact absurd hb h1
      · rfl
    have e3 : mlLiteralString (b :: t) = .bt := by
      unfold mlLiteralString; split
      · rename_i heq; injection heq with hb _; exact absurd hb h2
      · rfl
    have e4 : literalString (b :: t) = .bt := by
      unfold literalString; split
      · rename_i heq; injection heq with hb _; exact absurd hb h2
      · rfl
    simp [Strings.string, e1, e2, e3, e4] at h

theorem follow_not_quote : ∀ b : UInt8, isFollowByte b = true → b ≠ 0x22 ∧ b ≠ 0x27 := forall_byte (by decide +kernel)

theorem valueFollow_of_follow (rest : Bytes) (h : ValFollow rest) : TomlVerif.Props.C10.ValueFollow rest := by
  cases rest with
  | nil => simp [TomlVerif.Props.C10.ValueFollow]
  | cons b r =>
    have := follow_not_quote b h
    simp [TomlVerif.Props.C10.ValueFollow, this.1, this.2]

/-- (e) every string token the writer produces (any style) is a scalar token for that string -/
theorem scalarOK_string (st : Write.VStyle) (s tok : Bytes) (h : Write.writeValue st s = some tok) :
    ScalarOK ⟨tok, .str s⟩ := by
  have h0 := TomlVerif.Props.C10.T10_value st s tok [] h (by simp [TomlVerif.Props.C10.ValueFollow])
  rw [List.append_nil] at h0
  obtain ⟨b, t, e, hb⟩ := string_ok_head tok s [] h0
  refine ⟨⟨b, t, e, ?_⟩, ?_⟩
  · rcases hb with rfl | rfl <;> decide
  · intro fuel d rest hf hr
    obtain ⟨f, rfl⟩ : ∃ f, fuel = f + 1 := ⟨fuel - 1, by omega⟩
    have h1 := TomlVerif.Props.C10.T10_value st s tok rest h (valueFollow_of_follow rest hr.1)
    simp only [e, List.cons_append] at h1 ⊢
    rw [value_str f d b _ hb, h1]; rfl

/-! ## a number token is not a date-time -/

/-- the bytes after the first are not `-` or `:` (digits, `_`, `.`), and what follows is no digit, `-` or `:` -/
def NumTail (body rest : Bytes) : Prop :=
  (∀ b ∈ body, b ≠ 0x2D ∧ b ≠ 0x3A) ∧ (∀ b r, rest = b :: r → isDigit b = false ∧ b ≠ 0x2D ∧ b ≠ 0x3A)

theorem numTail_head (body rest : Bytes) (h : NumTail body rest) : ∀ b r, body ++ rest = b :: r → b ≠ 0x2D ∧ b ≠ 0x3A := by
  intro b r he
  cases body with
  | nil => exact (h.2 b r he).2
  | cons c t => simp at he; rw [← he.1]; exact h.1 c (by simp)

theorem numTail_tail (c : UInt8) (body rest : Bytes) (h : NumTail (c :: body) rest) : NumTail body rest :=
  ⟨fun b hb => h.1 b (by simp [hb]), h.2⟩

theorem digits2_nodigit (a b : UInt8) (r : Bytes) (h : isDigit b = false) : digits2 (a :: b :: r) = none := by
  simp [digits2, h]

theorem fullDate_bt_of (h0 : UInt8) (body rest : Bytes) (h : NumTail body rest) :
    Doc.fullDate (h0 :: (body ++ rest)) = .bt := by
  have hnd : ∀ b r, rest = b :: r → isDigit b = false := fun b r e => (h.2 b r e).1
  unfold Doc.fullDate
  cases body with
  | nil =>
    cases rest with
    | nil => simp [digits4]
    | cons f r =>
      have := hnd f r rfl
      cases r with
      | nil => simp [digits4]
      | cons x r => cases r <;> simp [digits4, this]
  | cons b0 body =>
    cases body with
    | nil =>
      cases rest with
      | nil => simp [digits4]
      | cons f r =>
        have := hnd f r rfl
        cases r <;> simp [digits4, this]
    | cons b1 body =>
      cases body with
      | nil =>
        cases rest with
        | nil => simp [digits4]
        | cons f r =>
          have := hnd f r rfl
          simp [digits4, this]
      | cons b2 body =>
        have ht : NumTail body rest := numTail_tail _ _ _ (numTail_tail _ _ _ (numTail_tail _ _ _ h))
        have hh := numTail_head body rest ht
        simp only [List.cons_append, digits4]
        split
        · rfl
        · rename_i year r heq
          split at heq
          · injection heq with heq
            injection heq with _ hr
            subst hr
            split
            · rename_i r' he
              exact absurd rfl (hh _ _ he).1
            · rfl
          · cases heq

theorem partialTime_bt_of (h0 : UInt8) (body rest : Bytes) (h : NumTail body rest) :
    Doc.partialTime (h0 :: (body ++ rest)) = .bt := by
  have hnd : ∀ b r, rest = b :: r → isDigit b = false := fun b r e => (h.2 b r e).1
  unfold Doc.partialTime
  cases body with
  | nil =>
    cases rest with
    | nil => simp [digits2]
    | cons f r => simp [digits2, hnd f r rfl]
  | cons b0 body =>
    have ht : NumTail body rest := numTail_tail _ _ _ h
    have hh := numTail_head body rest ht
    simp only [List.cons_append, digits2]
    split
    · rfl
    · rename_i hour r heq
      split at heq
      · injection heq with heq
        injection heq with _ hr
        subst hr
        split
        · rfl
        · split
          · rename_i r' he
            exact absurd rfl (hh _ _ he).2
          · rfl
      · cases heq

theorem dateTime_bt_of (h0 : UInt8) (body rest : Bytes) (h : NumTail body rest) :
    Doc.dateTime (h0 :: (body ++ rest)) = .bt := by
  unfold Doc.dateTime
  rw [fullDate_bt_of h0 body rest h]
  simp only [partialTime_bt_of h0 body rest h]

/-! ## decimal integers -/

theorem follow_num_facts : ∀ b : UInt8, isFollowByte b = true →
    isDigit b = false ∧ b ≠ 0x2D ∧ b ≠ 0x3A ∧ b ≠ 0x5F ∧ b ≠ 0x65 ∧ b ≠ 0x45 ∧ b ≠ 0x2E ∧ b ≠ 0x78 ∧ b ≠ 0x6F ∧ b ≠ 0x62 :=
  forall_byte (by decide +kernel)

theorem digit_tail_facts : ∀ b : UInt8, isDigit b = true ∨ b = 0x5F ∨ b = 0x2E → b ≠ 0x2D ∧ b ≠ 0x3A :=
  forall_byte (by decide +kernel)

theorem digit_start_facts : ∀ b : UInt8, isDigit b = true →
    (b == 0x2B || b == 0x2D || isDigit b) = true ∧ b ≠ 0x69 ∧ b ≠ 0x6E ∧ b ≠ 0x2B ∧ b ≠ 0x2D :=
  forall_byte (by decide +kernel)

theorem tailGroups_bytes (gs : List Bytes) (h : ∀ g ∈ gs, AllB isDigit g) :
    ∀ b ∈ tailGroups gs, isDigit b = true ∨ b = 0x5F ∨ b = 0x2E := by
  induction gs with
  | nil => intro b hb; simp [tailGroups] at hb
  | cons g gs ih =>
    intro b hb
    simp only [tailGroups, List.mem_cons, List.mem_append] at hb
    rcases hb with hb | hb | hb
    · exact Or.inr (Or.inl hb)
    · exact Or.inl (h g (by simp) b hb)
    · exact ih (fun g' hg' => h g' (by simp [hg'])) b hb

/-- `joinU groups` is a digit followed by digits and underscores -/
theorem joinU_shape (groups : List Bytes) (hg : GoodGroups isDigit groups) :
    ∃ d t, joinU groups = d :: t ∧ isDigit d = true ∧ ∀ b ∈ t, isDigit b = true ∨ b = 0x5F ∨ b = 0x2E := by
  obtain ⟨hne, hall⟩ := hg
  cases groups with
  | nil => exact absurd rfl hne
  | cons g gs =>
    cases g with
    | nil => exact absurd rfl (hall _ (List.mem_cons_self ..)).1
    | cons d g0 =>
      have hd := AllB_cons.1 (hall _ (List.mem_cons_self ..)).2
      refine ⟨d, g0 ++ tailGroups gs, by simp [joinU], hd.1, ?_⟩
      intro b hb
      rcases List.mem_append.1 hb with hb | hb
      · exact Or.inl (hd.2 b hb)
      · exact tailGroups_bytes gs (fun g' hg' => (hall g' (by simp [hg'])).2) b hb

theorem numTail_of (t rest : Bytes) (ht : ∀ b ∈ t, isDigit b = true ∨ b = 0x5F ∨ b = 0x2E) (hr : ValFollow rest) :
    NumTail t rest := by
  refine ⟨fun b hb => digit_tail_facts b (ht b hb), ?_⟩
  intro b r e
  subst e
  have := follow_num_facts b hr
  exact ⟨this.1, this.2.1, this.2.2.1⟩

theorem floatStops_of_follow (rest : Bytes) (hr : ValFollow rest) : FloatStops rest := by
  cases rest with
  | nil => trivial
  | cons b r =>
    have := follow_num_facts b hr
    exact ⟨this.1, this.2.2.2.1, this.2.2.2.2.1, this.2.2.2.2.2.1⟩

theorem intFollow_of_follow (rest : Bytes) (hr : ValFollow rest) : TomlVerif.Props.C11.IntFollow rest := by
  cases rest with
  | nil => trivial
  | cons b r =>
    have := follow_num_facts b hr
    exact ⟨this.1, this.2.2.2.1, this.2.2.2.2.2.2.2.1, this.2.2.2.2.2.2.2.2.1, this.2.2.2.2.2.2.2.2.2⟩

theorem specialBody_bt (sgn : Nat) (c : UInt8) (r : Bytes) (h1 : c ≠ 0x69) (h2 : c ≠ 0x6E) :
    specialBody sgn (c :: r) = .bt := by
  simp [specialBody, startsWith, h1, h2]

/-- `sign? digit …` is not a special float -/
theorem specialFloat_bt_num (sign : Option Bool) (d : UInt8) (t : Bytes) (hd : isDigit d = true) :
    specialFloat (signBytes sign ++ d :: t) = .bt := by
  have hf := digit_start_facts d hd
  match sign with
  | some true => simp only [signBytes, List.cons_append, List.nil_append, specialFloat_minus]; exact specialBody_bt _ _ _ hf.2.1 hf.2.2.1
  | some false => simp only [signBytes, List.cons_append, List.nil_append, specialFloat_plus]; exact specialBody_bt _ _ _ hf.2.1 hf.2.2.1
  | none =>
    simp only [signBytes, List.nil_append]
    rw [specialFloat_nosign d t hf.2.2.2.1 hf.2.2.2.2]
    exact specialBody_bt _ _ _ hf.2.1 hf.2.2.1

/-- a decimal integer literal followed by a follow byte is not a float -/
theorem float_bt_dec (sign : Option Bool) (groups : List Bytes) (rest : Bytes) (hg : GoodGroups isDigit groups)
    (hz : NoLeadingZero groups) (hr : ValFollow rest) :
    float (signBytes sign ++ joinU groups ++ rest) = .bt := by
  have hfs := floatStops_of_follow rest hr
  have hdec := decInt_lit sign groups rest hg hz hfs.stops
  have hl : floatLit (signBytes sign ++ joinU groups ++ rest) = .bt := by
    unfold floatLit
    rw [hdec]
    simp only
    cases rest with
    | nil => simp [expPart]
    | cons b r =>
      have hb := follow_num_facts b hr
      have he := expPart_bt (b :: r) hfs
      split
      · rename_i heq; injection heq with heq _; exact absurd heq hb.2.2.2.2.2.2.1
      · simp only [he]
  obtain ⟨d, t, e, hd, _⟩ := joinU_shape groups hg
  unfold float
  rw [hl]
  simp only
  rw [e, List.append_assoc]
  exact specialFloat_bt_num sign d (t ++ rest) hd

/-- the whole token is `first byte :: tail` with a sign-or-digit first byte and a digits/underscores tail -/
theorem dec_tok_shape (sign : Option Bool) (groups : List Bytes) (hg : GoodGroups isDigit groups) :
    ∃ b t, signBytes sign ++ joinU groups = b :: t ∧ (b == 0x2B || b == 0x2D || isDigit b) = true ∧
      ∀ c ∈ t, isDigit c = true ∨ c = 0x5F ∨ c = 0x2E := by
  obtain ⟨d, t, e, hd, ht⟩ := joinU_shape groups hg
  have hf := digit_start_facts d hd
  match sign with
  | none => exact ⟨d, t, by simp [signBytes, e], hf.1, ht⟩
  | some false =>
    refine ⟨0x2B, d :: t, by simp [signBytes, e], by decide, ?_⟩
    intro c hc
    rcases List.mem_cons.1 hc with rfl | hc
    · exact Or.inl hd
    · exact ht c hc
  | some true =>
    refine ⟨0x2D, d :: t, by simp [signBytes, e], by decide, ?_⟩
    intro c hc
    rcases List.mem_cons.1 hc with rfl | hc
    · exact Or.inl hd
    · exact ht c hc

/-- (b) a decimal integer literal `[+-]? g0 _ g1 …` in the i64 range is a scalar token for its value -/
theorem scalarOK_dec (sign : Option Bool) (groups : List Bytes) (hg : GoodGroups isDigit groups)
    (hz : NoLeadingZero groups) (hin : inI64 (decValue sign groups) = true) :
    ScalarOK ⟨signBytes sign ++ joinU groups, .int (decValue sign groups)⟩ := by
  obtain ⟨b, t, e, hb, ht⟩ := dec_tok_shape sign groups hg
  have hs := numStart_facts b hb
  refine ⟨⟨b, t, e, hs.2.2.2.1, hs.2.2.2.2.1, hs.2.2.2.2.2⟩, ?_⟩
  intro fuel d rest hf hr
  obtain ⟨f, rfl⟩ : ∃ f, fuel = f + 1 := ⟨fuel - 1, by omega⟩
  have h1 : Doc.dateTime (b :: (t ++ rest)) = .bt := dateTime_bt_of b t rest (numTail_of t rest ht hr.1)
  have h2 := float_bt_dec sign groups rest hg hz hr.1
  have h3 := TomlVerif.Props.C11.T11_dec_literal sign groups rest hg hz (intFollow_of_follow rest hr.1)
  rw [hin] at h3
  simp only [e, List.cons_append, if_true] at h2 h3 ⊢
  exact value_int f d b _ rest _ hb h1 h2 h3

/-! ## the writer's float tokens -/

/-- the float writer's token for a finite non-zero value whose `Display` text is `-? intDs (. frac)?` -/
def floatTok (neg negD : Bool) (intDs : Bytes) (frac : Option Bytes) : Bytes :=
  writeFloat neg false false (!(dispBytes negD intDs frac).contains 0x2E) (dispBytes negD intDs frac)

theorem floatTok_shape (neg negD : Bool) (intDs : Bytes) (frac : Option Bytes)
    (hne : intDs ≠ []) (hi : AllB isDigit intDs) (hf : ∀ f, frac = some f → f ≠ [] ∧ AllB isDigit f) :
    ∃ b t, floatTok neg negD intDs frac = b :: t ∧ (b == 0x2B || b == 0x2D || isDigit b) = true ∧
      ∀ c ∈ t, isDigit c = true ∨ c = 0x5F ∨ c = 0x2E := by
  cases intDs with
  | nil => exact absurd rfl hne
  | cons d ds =>
    have hd := AllB_cons.1 hi
    have hs := digit_start_facts d hd.1
    -- the part after the optional sign
    have hX : ∃ X, floatTok neg negD (d :: ds) frac = (if negD then [0x2D] else []) ++ d :: X ∧
        ∀ c ∈ X, isDigit c = true ∨ c = 0x5F ∨ c = 0x2E := by
      unfold floatTok
      rw [dispBytes_contains_dot negD (d :: ds) frac hi]
      cases frac with
      | none =>
        refine ⟨ds ++ [0x2E, 0x30], by cases negD <;> simp [writeFloat, dispBytes], ?_⟩
        intro c hc
        rcases List.mem_append.1 hc with hc | hc
        · exact Or.inl (hd.2 c hc)
        · simp at hc; rcases hc with rfl | rfl
          · exact Or.inr (Or.inr rfl)
          · exact Or.inl (by decide)
      | some f =>
        refine ⟨ds ++ 0x2E :: f, by cases negD <;> simp [writeFloat, dispBytes], ?_⟩
        intro c hc
        rcases List.mem_append.1 hc with hc | hc
        · exact Or.inl (hd.2 c hc)
        · rcases List.mem_cons.1 hc with rfl | hc
          · exact Or.inr (Or.inr rfl)
          · exact Or.inl ((hf f rfl).2 c hc)
    obtain ⟨X, e, hXb⟩ := hX
    cases negD with
    | false => exact ⟨d, X, by simpa using e, hs.1, hXb⟩
    | true =>
      refine ⟨0x2D, d :: X, by simpa using e, by decide, ?_⟩
      intro c hc
      rcases List.mem_cons.1 hc with rfl | hc
      · exact Or.inl hd.1
      · exact hXb c hc

/-- (c) the float writer's token is a scalar token for the correctly rounded value of its digits
    (when that is finite) -/
theorem scalarOK_float (neg negD : Bool) (intDs : Bytes) (frac : Option Bytes)
    (hne : intDs ≠ []) (hi : AllB isDigit intDs) (hz : ∀ t, intDs = 0x30 :: t → t = [])
    (hf : ∀ f, frac = some f → f ≠ [] ∧ AllB isDigit f)
    (hfin : Ieee.isInfBits (FloatLit.bits ⟨negD, intDs, frac.getD [0x30], false, []⟩) = false) :
    ScalarOK ⟨floatTok neg negD intDs frac, .float (FloatLit.bits ⟨negD, intDs, frac.getD [0x30], false, []⟩)⟩ := by
  obtain ⟨b, t, e, hb, ht⟩ := floatTok_shape neg negD intDs frac hne hi hf
  have hs := numStart_facts b hb
  refine ⟨⟨b, t, e, hs.2.2.2.1, hs.2.2.2.2.1, hs.2.2.2.2.2⟩, ?_⟩
  intro fuel d rest hfu hr
  obtain ⟨f, rfl⟩ : ∃ f, fuel = f + 1 := ⟨fuel - 1, by omega⟩
  have h1 : Doc.dateTime (b :: (t ++ rest)) = .bt := dateTime_bt_of b t rest (numTail_of t rest ht hr.1)
  have h2 := floatLit_writeFloat neg negD intDs frac rest hne hi hz hf (floatStops_of_follow rest hr.1)
  have h3 : float (floatTok neg negD intDs frac ++ rest) =
      .ok (FloatLit.bits ⟨negD, intDs, frac.getD [0x30], false, []⟩) rest := by
    unfold float floatTok
    rw [h2]
    simp only [hfin]
    simp
  simp only [e, List.cons_append] at h3 ⊢
  exact value_float f d b _ rest _ hb h1 h3

/-! ## printed date-times -/

theorem follow_dt_facts : ∀ b : UInt8, isFollowByte b = true →
    isDigit b = false ∧ b ≠ 0x2E ∧ (b == 0x5A || b == 0x7A) = false ∧ (b == 0x2B || b == 0x2D) = false ∧
    (Doc.isTimeDelim b = true → b = 0x20) :=
  forall_byte (by decide +kernel)

theorem timeFollow_of_follow (rest : Bytes) (hr : ValFollow rest) : TimeFollow rest := by
  intro b r e
  subst e
  have := follow_dt_facts b hr
  exact ⟨this.1, this.2.1⟩

theorem timeOffset_bt_follow (rest : Bytes) (hr : ValFollow rest) : Doc.timeOffset rest = .bt := by
  cases rest with
  | nil => rfl
  | cons b r =>
    have := follow_dt_facts b hr
    simp [Doc.timeOffset, this.2.2.1, this.2.2.2.1]

theorem partialTime_bt_nodigit (r' : Bytes) (h : ∀ b r, r' = b :: r → isDigit b = false) : Doc.partialTime r' = .bt := by
  cases r' with
  | nil => simp [Doc.partialTime, digits2]
  | cons b r =>
    have := h b r rfl
    cases r with
    | nil => simp [Doc.partialTime, digits2]
    | cons b2 r => simp [Doc.partialTime, digits2, this]

/-- the printed date-time followed by anything a value may end before is read back exactly -/
theorem dateTime_display_follow (dt : Datetime) (h : FieldsInRange dt)
    (hy : ∀ d, dt.date = some d → d.year ≤ 9999) (rest : Bytes) (hr : ValFollowS rest) :
    Doc.dateTime (Std.display dt ++ rest) = .ok dt rest := by
  obtain ⟨date, time, offset⟩ := dt
  obtain ⟨hd, ht, ho, hs1, hs2⟩ := h
  simp only at hd ht ho hs1 hs2 hy
  have htf := timeFollow_of_follow rest hr.1
  cases date with
  | none =>
    obtain ⟨h1, h2⟩ := hs2 rfl
    subst h2
    cases time with
    | none => exact absurd rfl h1
    | some t =>
      obtain ⟨⟨a, b, c⟩, n⟩ := ht t rfl
      have e : Std.display ⟨none, some t, none⟩ = Std.displayTime t := by simp [Std.display]
      have f1 := fullDate_displayTime t rest a
      have f2 := partialTime_display t rest a b c n htf
      rw [e]
      simp [Doc.dateTime, f1, f2]
  | some d =>
    obtain ⟨m1, m2, d1, d2⟩ := hd d rfl
    have hyy := hy d rfl
    cases time with
    | none =>
      cases offset with
      | some o => exact absurd rfl (hs1 (by simp)).2
      | none =>
        have e : Std.display ⟨some d, none, none⟩ = Std.displayDate d := by simp [Std.display]
        have f1 := fullDate_display d rest hyy m1 m2 d1 d2
        rw [e]
        simp only [Doc.dateTime, f1]
        cases rest with
        | nil => rfl
        | cons c r' =>
          simp only
          by_cases hdelim : Doc.isTimeDelim c = true
          · have hc := (follow_dt_facts c hr.1).2.2.2.2 hdelim
            subst hc
            have hpt := partialTime_bt_nodigit r' (fun b r e => hr.2 b r (by rw [e]))
            simp [hdelim, hpt]
          · simp [hdelim]
    | some t =>
      obtain ⟨⟨a, b, c⟩, n⟩ := ht t rfl
      cases offset with
      | none =>
        have e : Std.display ⟨some d, some t, none⟩ ++ rest =
            Std.displayDate d ++ (0x54 :: (Std.displayTime t ++ rest)) := by
          simp [Std.display]
        have f2 := partialTime_display t rest a b c n htf
        rw [e]
        simp [Doc.dateTime, fullDate_display d _ hyy m1 m2 d1 d2, Doc.isTimeDelim,
          f2, timeOffset_bt_follow rest hr.1]
      | some o =>
        have hor := ho o rfl
        have hor' : ∀ m, o = .custom m → -1439 ≤ m ∧ m ≤ 1439 := by
          intro m hm; subst hm; exact hor
        have e : Std.display ⟨some d, some t, some o⟩ ++ rest =
            Std.displayDate d ++ (0x54 :: (Std.displayTime t ++ (Std.displayOffset o ++ rest))) := by
          simp [Std.display]
        have f2 := partialTime_display t _ a b c n (timeFollow_offset o rest)
        have f3 := timeOffset_display o rest hor'
        rw [e]
        simp [Doc.dateTime, fullDate_display d _ hyy m1 m2 d1 d2, Doc.isTimeDelim,
          f2, f3]

theorem head_of_all (L : Bytes) (hl : 0 < L.length) (ha : ∀ b ∈ L, isDigit b = true) :
    ∃ b r, L = b :: r ∧ isDigit b = true := by
  cases L with
  | nil => simp at hl
  | cons b r => exact ⟨b, r, rfl, ha b (by simp)⟩

theorem pad_head (w y : Nat) (hw : 1 ≤ w) (h : y < 10 ^ w) : ∃ b r, Std.pad w y = b :: r ∧ isDigit b = true := by
  rw [pad_eq_digitsW w y hw h]
  exact head_of_all _ (by rw [digitsW_length]; omega) (digitsW_all w y)

theorem head_append (L X : Bytes) (h : ∃ b r, L = b :: r ∧ isDigit b = true) :
    ∃ b r, L ++ X = b :: r ∧ isDigit b = true := by
  obtain ⟨b, r, e, hb⟩ := h
  exact ⟨b, r ++ X, by simp [e], hb⟩

theorem display_head (dt : Datetime) (h : FieldsInRange dt) (hy : ∀ d, dt.date = some d → d.year ≤ 9999) :
    ∃ b r, Std.display dt = b :: r ∧ isDigit b = true := by
  obtain ⟨date, time, offset⟩ := dt
  obtain ⟨hd, ht, ho, hs1, hs2⟩ := h
  simp only at hd ht ho hs1 hs2 hy
  cases date with
  | some d =>
    have := hy d rfl
    simp only [Std.display, Std.displayDate, List.append_assoc]
    exact head_append _ _ (pad_head 4 d.year (by omega) (by omega))
  | none =>
    obtain ⟨h1, h2⟩ := hs2 rfl
    cases time with
    | none => exact absurd rfl h1
    | some t =>
      obtain ⟨⟨a, _, _⟩, _⟩ := ht t rfl
      simp only [Std.display, Std.displayTime, List.append_assoc, List.nil_append, Option.isSome_none,
        Bool.false_eq_true, if_false]
      exact head_append _ _ (pad_head 2 t.hour (by omega) (by omega))

/-- (d) a printed date-time (fields in range, one of the four kinds, year ≤ 9999) is a scalar token for its value -/
theorem scalarOK_datetime (dt : Datetime) (h : FieldsInRange dt) (hy : ∀ d, dt.date = some d → d.year ≤ 9999) :
    ScalarOK ⟨Std.display dt, .dt dt⟩ := by
  obtain ⟨b, t, e, hd⟩ := display_head dt h hy
  have hb := (digit_start_facts b hd).1
  have hs := numStart_facts b hb
  refine ⟨⟨b, t, e, hs.2.2.2.1, hs.2.2.2.2.1, hs.2.2.2.2.2⟩, ?_⟩
  intro fuel d rest hf hr
  obtain ⟨f, rfl⟩ : ∃ f, fuel = f + 1 := ⟨fuel - 1, by omega⟩
  have h1 := dateTime_display_follow dt h hy rest hr
  simp only [e, List.cons_append] at h1 ⊢
  exact value_dt f d b _ rest dt hb h1

/-- the follow condition cannot be weakened to `ValFollow`: a local date followed by ` 07:32:00` reads on -/
theorem date_then_time :
    Doc.dateTime (Std.display ⟨some ⟨1979, 5, 27⟩, none, none⟩ ++ [0x20, 0x30, 0x37, 0x3A, 0x33, 0x32, 0x3A, 0x30, 0x30]) =
      .ok ⟨some ⟨1979, 5, 27⟩, some ⟨7, 32, 0, 0⟩, none⟩ [] ∧
    ValFollow [0x20, 0x30, 0x37, 0x3A, 0x33, 0x32, 0x3A, 0x30, 0x30] :=
  ⟨by decide +kernel, (by decide : isFollowByte 0x20 = true)⟩

end TomlVerif.Lemmas.Scalars01
