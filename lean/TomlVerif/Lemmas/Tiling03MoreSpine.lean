import TomlVerif.Lemmas.Tiling03MorePos
/-! C03, nested documents — the summary versions of the two spine lemmas: `start_table` /
    `start_array_table` append implicit empty tables only; `finalize_table` appends the finished
    table. -/
namespace TomlVerif.Lemmas.Tiling03More
open TomlVerif TomlVerif.Spec TomlVerif.Model TomlVerif.Model.Strings TomlVerif.Model.Value
open TomlVerif.Model.Cst TomlVerif.Model.Encode TomlVerif.Lemmas.Suffix03 TomlVerif.Lemmas.Cst03
open TomlVerif.Lemmas.LastByte03 TomlVerif.Lemmas.Tiling03 TomlVerif.Lemmas.Tiling03Hdr
open TomlVerif.Lemmas.Tiling03Nest

theorem hdSum_newImplicit : hdSum (newImplicit false) false false = [(none, true)] := by
  simp [hdSum, okFlag, newImplicit, CTbl.dotted, CTbl.pos, CTbl.implicit, CTbl.items, valuesTbl]

theorem replicate_cons_nones (n : Nat) :
    (none, true) :: List.replicate n ((none : Option Nat), true) = List.replicate (n + 1) (none, true) := by
  rw [List.replicate_succ]

/-- `start_table` / `start_array_table` on a root that passes the header check: the summary of
    the new root is that of the old one followed by implicit empty tables -/
theorem start_spine_sum (inp : Bytes) (a : Bool) (key : CKey) :
    ∀ (pp : List CKey) (t t' : CTbl), pathOk inp a key t pp = true →
      descend t pp false (if a then arrFn key else eraseFn key) = some t' →
      ∃ n, sumItems t'.items = sumItems t.items ++ List.replicate n (none, true) := by
  intro pp
  induction pp with
  | nil =>
    intro t t' hok hd
    rw [descend_nil] at hd
    simp only [pathOk, Bool.and_eq_true, Bool.not_eq_true'] at hok
    obtain ⟨_, hok⟩ := hok
    cases a with
    | false =>
      simp only [Bool.false_eq_true, if_false] at hd
      cases hl : clookup key.key t.items with
      | none =>
        unfold eraseFn at hd
        injection hd with hd
        rw [cerase_of_none _ _ hl, setItems_self] at hd
        subst hd
        exact ⟨0, by simp⟩
      | some y => rw [hl] at hok; simp at hok
    | true =>
      simp only [if_true] at hd
      unfold arrFn at hd
      split at hd
      · injection hd with hd; subst hd; exact ⟨0, by simp⟩
      · cases hd
      · injection hd with hd; subst hd
        refine ⟨0, ?_⟩
        rw [setItems_items, sumItems_append]
        simp [sumItems, sumAot]
  | cons k ks ih =>
    intro t t' hok hd
    have hfacts := start_spine inp a key (k :: ks) t t' hok hd
    simp only [pathOk, Bool.and_eq_true, Bool.not_eq_true'] at hok
    obtain ⟨hdot, hok⟩ := hok
    obtain ⟨x, et', hx⟩ := descend_cons_shape _ _ _ _ _ _ hd
    cases hl : clookup k.key t.items with
    | none =>
      rw [hl] at hx
      simp only [Option.getD_none] at hx
      rcases hx with ⟨sub, sub', e1, hd', e2⟩ | ⟨_, _, _, _, e1, _⟩
      · injection e1 with e1
        subst e1; subst e2
        have hpo := pathOk_empty inp a key (newImplicit false) rfl rfl ks
        obtain ⟨n, hn⟩ := ih _ _ hpo hd'
        obtain ⟨_, _, _, i4, _, _⟩ := start_spine inp a key ks _ _ hpo hd'
        have hs := descend_setItems _ (startFn_setItems a key) ks _ _ _ hd'
        rw [cset_none _ _ _ hl] at et'
        subst et'
        refine ⟨n + 1, ?_⟩
        rw [setItems_items, sumItems_append]
        simp only [sumItems, List.append_nil]
        rw [sumTbl_setItems _ _ _ _ hs i4, hdSum_newImplicit, hn]
        simp [newImplicit, CTbl.items, sumItems, List.replicate_succ]
      · cases e1
    | some y =>
      rw [hl] at hok hx
      simp only [Option.getD_some] at hx hok
      split at hok
      · rename_i init k' sub hle
        obtain ⟨e1, e2, e3, e4⟩ := lastEntry_some _ _ _ _ _ hle
        simp only [Bool.and_eq_true] at hok
        rw [hl] at e4
        injection e4 with e4
        subst e4
        rcases hx with ⟨sub0, sub', e5, hd', e6⟩ | ⟨_, _, _, _, e5, _⟩
        · injection e5 with e5
          subst e5; subst e6
          obtain ⟨n, hn⟩ := ih _ _ hok.2 hd'
          obtain ⟨_, _, _, i4, _, _⟩ := start_spine inp a key ks _ _ hok.2 hd'
          have hs := descend_setItems _ (startFn_setItems a key) ks _ _ _ hd'
          have hcs : cset k (.table sub') t.items = init ++ [(k', .table sub')] := by
            rw [e1]; exact cset_last _ _ _ _ _ e2 e3
          rw [hcs] at et'
          subst et'
          refine ⟨n, ?_⟩
          rw [setItems_items, e1, sumItems_append, sumItems_append]
          simp only [sumItems, List.append_nil]
          rw [sumTbl_setItems _ _ _ _ hs i4, hn, sumTbl_eq sub]
          simp only [List.append_assoc]
        · cases e5
      · rename_i init k' ts asp hle
        obtain ⟨e1, e2, e3, e4⟩ := lastEntry_some _ _ _ _ _ hle
        simp only [Bool.and_eq_true] at hok
        rw [hl] at e4
        injection e4 with e4
        subst e4
        rcases hx with ⟨_, _, e5, _, _⟩ | ⟨tsI, l, l', asp', e5, hd', e6⟩
        · cases e5
        · injection e5 with e5 e5'
          subst e5; subst e5'; subst e6
          have hrev : (tsI ++ [l]).reverse = l :: tsI.reverse := by simp
          obtain ⟨_, hok2⟩ := hok
          rw [hrev] at hok2
          simp only [] at hok2
          obtain ⟨n, hn⟩ := ih _ _ hok2 hd'
          obtain ⟨_, _, _, i4, _, _⟩ := start_spine inp a key ks _ _ hok2 hd'
          have hs := descend_setItems _ (startFn_setItems a key) ks _ _ _ hd'
          have hcs : cset k (.aot (tsI ++ [l']) asp) t.items = init ++ [(k', .aot (tsI ++ [l']) asp)] := by
            rw [e1]; exact cset_last _ _ _ _ _ e2 e3
          rw [hcs] at et'
          subst et'
          refine ⟨n, ?_⟩
          rw [setItems_items, e1, sumItems_append, sumItems_append]
          simp only [sumItems, List.append_nil]
          rw [sumAot_append, sumAot_append]
          simp only [sumAot, List.append_nil]
          rw [sumTbl_setItems _ _ _ _ hs i4, hn, sumTbl_eq l]
          simp only [List.append_assoc]
      · cases hok

/-- the whole table after `start_table` / `start_array_table` -/
theorem start_sum (inp : Bytes) (a : Bool) (key : CKey) (pp : List CKey) (t t' : CTbl)
    (hok : pathOk inp a key t pp = true)
    (hd : descend t pp false (if a then arrFn key else eraseFn key) = some t') (r a0 : Bool) :
    (∃ n, sumTbl t' r a0 = sumTbl t r a0 ++ List.replicate n (none, true)) ∧ t'.decor = t.decor := by
  obtain ⟨n, hn⟩ := start_spine_sum inp a key pp t t' hok hd
  obtain ⟨_, _, i3, i4, _, _⟩ := start_spine inp a key pp t t' hok hd
  have hs := descend_setItems _ (startFn_setItems a key) pp _ _ _ hd
  refine ⟨⟨n, ?_⟩, i3⟩
  rw [sumTbl_setItems _ _ _ _ hs i4, hn, sumTbl_eq t, List.append_assoc]

/-- `finalize_table` along the spine: the finished table's summary is appended -/
theorem fin_spine_sum (inp : Bytes) (a : Bool) (key : CKey) (cur : CTbl) (hcd : cur.dotted = false) :
    ∀ (pp : List CKey) (t t' : CTbl), SpineP inp a key t pp →
      descend t pp false (if a then finArr key cur else finStd key cur) = some t' →
      sumItems t'.items = sumItems t.items ++ sumTbl cur false a ∧
      valuesTbl t'.items [] = valuesTbl t.items [] := by
  intro pp
  induction pp with
  | nil =>
    intro t t' hsp hd
    rw [descend_nil] at hd
    obtain ⟨hdot, hsp⟩ := hsp
    cases a with
    | false =>
      simp only [Bool.false_eq_true, if_false] at hd hsp
      unfold finStd at hd
      rw [hsp] at hd
      simp only [] at hd
      injection hd with hd
      subst hd
      refine ⟨?_, ?_⟩
      · rw [setItems_items, sumItems_append]; simp [sumItems]
      · rw [setItems_items]; exact valuesTbl_snoc_table _ _ _ hcd _
    | true =>
      simp only [if_true] at hd hsp
      obtain ⟨init, k', ts, asp, e1, e2, e3, e4⟩ := hsp
      have hl : clookup key.key t.items = some (.aot ts asp) := by
        rw [e1, clookup_append_none _ _ _ e3, clookup_single, e2]; rfl
      unfold finArr at hd
      rw [hl] at hd
      simp only [Option.getD_some] at hd
      injection hd with hd
      rw [e1, cset_last _ _ _ _ _ e2 e3] at hd
      subst hd
      refine ⟨?_, ?_⟩
      · rw [setItems_items, e1, sumItems_append, sumItems_append]
        simp only [sumItems, List.append_nil]
        rw [sumAot_append]
        simp [sumAot, List.append_assoc]
      · rw [setItems_items, e1, valuesTbl_snoc_aot, valuesTbl_snoc_aot]
  | cons k ks ih =>
    intro t t' hsp hd
    obtain ⟨hdot, init, k', e3, e2, hseg, hsp⟩ := hsp
    obtain ⟨x, et', hx⟩ := descend_cons_shape _ _ _ _ _ _ hd
    rcases hsp with ⟨sub, e1, hsub⟩ | ⟨tsI, l, asp, e1, hsub⟩
    · have hl : clookup k.key t.items = some (.table sub) := by
        rw [e1, clookup_append_none _ _ _ e3, clookup_single, e2]; rfl
      rw [hl] at hx
      simp only [Option.getD_some] at hx
      rcases hx with ⟨sub0, sub', e5, hd', e6⟩ | ⟨_, _, _, _, e5, _⟩
      · injection e5 with e5
        subst e5; subst e6
        obtain ⟨i1, i2⟩ := ih _ _ hsub hd'
        have hs := descend_setItems _ (finFn_setItems a key cur) ks _ _ _ hd'
        have hsd : sub.dotted = false := spineP_dotted hsub
        have hsd' : sub'.dotted = false := by rw [hs]; simpa using hsd
        rw [e1, cset_last _ _ _ _ _ e2 e3] at et'
        subst et'
        refine ⟨?_, ?_⟩
        · rw [setItems_items, e1, sumItems_append, sumItems_append]
          simp only [sumItems, List.append_nil]
          rw [sumTbl_setItems _ _ _ _ hs i2, i1, sumTbl_eq sub]
          simp only [List.append_assoc]
        · rw [setItems_items, e1, valuesTbl_snoc_table _ _ _ hsd', valuesTbl_snoc_table _ _ _ hsd]
      · cases e5
    · have hl : clookup k.key t.items = some (.aot (tsI ++ [l]) asp) := by
        rw [e1, clookup_append_none _ _ _ e3, clookup_single, e2]; rfl
      rw [hl] at hx
      simp only [Option.getD_some] at hx
      rcases hx with ⟨_, _, e5, _, _⟩ | ⟨tsI0, l0, l', asp', e5, hd', e6⟩
      · cases e5
      · injection e5 with e5 e5'
        obtain ⟨e7, e8⟩ := snoc_inj e5
        subst e7; subst e8; subst e5'; subst e6
        obtain ⟨i1, i2⟩ := ih _ _ hsub hd'
        have hs := descend_setItems _ (finFn_setItems a key cur) ks _ _ _ hd'
        rw [e1, cset_last _ _ _ _ _ e2 e3] at et'
        subst et'
        refine ⟨?_, ?_⟩
        · rw [setItems_items, e1, sumItems_append, sumItems_append]
          simp only [sumItems, List.append_nil]
          rw [sumAot_append, sumAot_append]
          simp only [sumAot, List.append_nil]
          rw [sumTbl_setItems _ _ _ _ hs i2, i1, sumTbl_eq l]
          simp only [List.append_assoc]
        · rw [setItems_items, e1, valuesTbl_snoc_aot, valuesTbl_snoc_aot]

/-- the whole table after `finalize_table` -/
theorem fin_sum (inp : Bytes) (a : Bool) (key : CKey) (cur : CTbl) (hcd : cur.dotted = false)
    (pp : List CKey) (t t' : CTbl) (hsp : SpineP inp a key t pp)
    (hd : descend t pp false (if a then finArr key cur else finStd key cur) = some t') (r a0 : Bool) :
    sumTbl t' r a0 = sumTbl t r a0 ++ sumTbl cur false a ∧ t'.decor = t.decor := by
  obtain ⟨i1, i2⟩ := fin_spine_sum inp a key cur hcd pp t t' hsp hd
  have hs := descend_setItems _ (finFn_setItems a key cur) pp _ _ _ hd
  refine ⟨?_, by rw [hs]; simp⟩
  rw [sumTbl_setItems _ _ _ _ hs i2, i1, sumTbl_eq t, List.append_assoc]

end TomlVerif.Lemmas.Tiling03More
