import TomlVerif.Lemmas.TypedGapsParsedA
/-! Lemmas for Props/C13TypedParsed, part B: the value level. What `value` returns for a scalar token, `inlInsert`,
    `tableFromPairs`, and `semQ` of a well-formed value of the grammar all satisfy `GV`. -/
namespace TomlVerif.Lemmas.TypedGapsParsed
open TomlVerif TomlVerif.Spec TomlVerif.Model TomlVerif.Model.TomlValue TomlVerif.Model.DeRoutes
open TomlVerif.Model.Value TomlVerif.Model.Datetime
open TomlVerif.Lemmas.DeTyped13 TomlVerif.Lemmas.State09
open TomlVerif.Spec.AstValue TomlVerif.Spec.AstValueQ

/-! ## the year the document parser reads has four digits -/

theorem digits4_le (s r : Bytes) (y : Nat) (h : digits4 s = some (y, r)) : y ≤ 9999 := by
  unfold digits4 at h
  split at h
  · rename_i a b c d r'
    split at h
    · rename_i hc
      simp only [Bool.and_eq_true] at hc
      obtain ⟨⟨⟨ha, hb⟩, hc⟩, hd⟩ := hc
      have h1 := TomlVerif.Lemmas.Datetime12.dval_le_of_isDigit a ha
      have h2 := TomlVerif.Lemmas.Datetime12.dval_le_of_isDigit b hb
      have h3 := TomlVerif.Lemmas.Datetime12.dval_le_of_isDigit c hc
      have h4 := TomlVerif.Lemmas.Datetime12.dval_le_of_isDigit d hd
      simp only [Option.some.injEq, Prod.mk.injEq] at h
      obtain ⟨e, _⟩ := h
      omega
    · simp at h
  · simp at h

theorem fullDate_year (s rest : Bytes) (d : Date) (h : Doc.fullDate s = .ok d rest) : d.year ≤ 9999 := by
  unfold Doc.fullDate at h
  split at h
  · simp at h
  · rename_i year r hd
    have hy := digits4_le _ _ _ hd
    repeat (split at h <;> try (first | contradiction | (simp at h; done)))
    all_goals (injection h with h1 _; subst h1; exact hy)

theorem dateTime_year (s rest : Bytes) (dt : Datetime) (h : Doc.dateTime s = .ok dt rest) :
    ∀ x, dt.date = some x → x.year ≤ 9999 := by
  unfold Doc.dateTime at h
  split at h
  · rename_i d r hd
    have hy := fullDate_year _ _ _ hd
    have fin : ∀ t o r', Res.ok (⟨some d, t, o⟩ : Datetime) r' = .ok dt rest → ∀ x, dt.date = some x → x.year ≤ 9999 := by
      intro t o r' e x hx
      injection e with e1 _
      subst e1
      simp only [Option.some.injEq] at hx
      subst hx; exact hy
    repeat (split at h <;> try (first | contradiction | exact fin _ _ _ h))
  · contradiction
  · split at h
    · injection h with h1 _; subst h1
      intro x hx; simp at hx
    · contradiction
    · contradiction

/-- a date-time the document parser read prints and re-reads -/
theorem dateTime_roundtrip (s rest : Bytes) (dt : Datetime) (h : Doc.dateTime s = .ok dt rest) :
    Std.fromStr (Std.display dt) = some dt :=
  (Props.C12.T12_roundtrip dt (Props.C12.doc_dateTime_ranges s rest dt h) (dateTime_year s rest dt h)).1

/-! ## scalars -/

theorem gv_str (s : Bytes) : GV (.str s) := by simp [GV, plainVal, WfTV']
theorem gv_int (n : Int) : GV (.int n) := by simp [GV, plainVal, WfTV']
theorem gv_float (n : Nat) : GV (.float n) := by simp [GV, plainVal, WfTV']
theorem gv_bool (b : Bool) : GV (.bool b) := by simp [GV, plainVal, WfTV']
theorem gv_dt (d : Datetime) (h : Std.fromStr (Std.display d) = some d) : GV (.dt d) := by
  simp [GV, plainVal, WfTV', h]

/-- with one unit of fuel `value` can only return a scalar, and its date-times come from `Doc.dateTime` -/
theorem value_one_good (d : Nat) (s : Bytes) (v : Val) (rest : Bytes) (h : value 1 d s = .ok v rest) : GV v := by
  unfold value at h
  have fin1 : ∀ {α} (x : Res α) (g : α → Val), (∀ a, GV (g a)) → x.map g = .ok v rest → GV v := by
    intro α x g hg hm
    obtain ⟨a, e⟩ := TomlVerif.Lemmas.InlineKeys01.map_ok' _ _ _ _ hm
    rw [e]; exact hg a
  simp only [arrayValues, inlineKeyvals] at h
  repeat' split at h
  all_goals first
    | (simp at h; done)
    | exact fin1 _ _ gv_str h
    | exact fin1 _ _ gv_int h
    | exact fin1 _ _ gv_float h
    | exact fin1 _ _ (fun _ => gv_bool _) h
    | (injection h with h1 _; subst h1; exact gv_float _)
    | (injection h with h1 _; subst h1; exact gv_dt _ (dateTime_roundtrip _ _ _ ‹_›))

/-! ## inline tables -/

/-- distinct keys and good values -/
def GL (items : List (Bytes × Val)) : Prop := (items.map Prod.fst).Nodup ∧ ∀ p ∈ items, GV p.2

theorem gl_nil : GL [] := ⟨by simp, by simp⟩

theorem gl_append (items : List (Bytes × Val)) (k : Bytes) (v : Val) (h : GL items) (hn : alookup k items = none)
    (hv : GV v) : GL (items ++ [(k, v)]) := by
  refine ⟨append_nodup k v items h.1 hn, ?_⟩
  intro p hp
  rcases List.mem_append.1 hp with hp | hp
  · exact h.2 p hp
  · simp at hp; rw [hp]; exact hv

theorem gl_areplace (items : List (Bytes × Val)) (k : Bytes) (v : Val) (h : GL items) (hv : GV v) :
    GL (areplace k v items) := by
  refine ⟨areplace_nodup k v items h.1, ?_⟩
  intro p hp
  rcases mem_areplace k v items p hp with hp | hp
  · exact h.2 p hp
  · rw [hp]; exact hv

theorem inlInsert_good : ∀ (path : List Bytes) (items : List (Bytes × Val)) (dot pe : Bool) (key : Bytes) (v : Val)
    (items' : List (Bytes × Val)), inlInsert items dot path pe key v = some items' → GL items → GV v → GL items' := by
  intro path
  induction path with
  | nil =>
    intro items dot pe key v items' h hg hv
    unfold inlInsert at h
    split at h
    · simp at h
    · split at h
      · simp at h
      · rename_i hn
        simp at h; subst h
        exact gl_append items key v hg hn hv
  | cons k ks ih =>
    intro items dot pe key v items' h hg hv
    unfold inlInsert at h
    split at h
    · rename_i hn
      split at h
      · rename_i sub hs
        simp at h; subst h
        have hsub := ih [] true pe key v sub hs gl_nil hv
        exact gl_append items k _ hg hn ((gv_inl sub true true).2 hsub)
      · simp at h
    · rename_i sub imp dot' ha
      split at h
      · simp at h
      · split at h
        · rename_i sub' hs
          simp at h; subst h
          have hold : GV (.inl sub imp dot') := hg.2 _ (mem_of_alookup k _ items ha)
          have hsub := ih sub dot' pe key v sub' hs ((gv_inl sub imp dot').1 hold) hv
          exact gl_areplace items k _ hg ((gv_inl sub' imp dot').2 hsub)
        · simp at h
    · simp at h

theorem tableFromPairs_good : ∀ (l : List (List Bytes × Bytes × Val)) (acc items : List (Bytes × Val)),
    tableFromPairs l acc = some items → GL acc → (∀ e ∈ l, GV e.2.2) → GL items := by
  intro l
  induction l with
  | nil =>
    intro acc items h hg _
    simp [tableFromPairs] at h; subst h; exact hg
  | cons e r ih =>
    intro acc items h hg hv
    obtain ⟨path, key, v⟩ := e
    unfold tableFromPairs at h
    split at h
    · rename_i acc' hi
      exact ih acc' items h (inlInsert_good path acc false _ key v acc' hi hg (hv (path, key, v) List.mem_cons_self))
        (fun e he => hv e (List.mem_cons_of_mem _ he))
    · simp at h

/-! ## values of the grammar -/

mutual
theorem semQ_good : ∀ v : QVal, WFQ v → GV (semQ v)
  | .scalar t, h => by
    rw [WFQ] at h
    rw [semQ]
    have := h.2 1 0 [] (by decide) ⟨trivial, by intro b r e; cases e⟩
    exact value_one_good _ _ _ _ this
  | .arr items tc tail, h => by
    rw [WFQ] at h
    rw [semQ, gv_arr]
    exact semItemsQ_good items h.1
  | .inl items tail, h => by
    rw [WFQ] at h
    rw [semQ]
    cases ht : tableFromPairs (flatPairsQ items) [] with
    | none => rw [ht] at h; simp at h
    | some its =>
      simp only [Option.getD_some]
      rw [gv_inl]
      exact tableFromPairs_good _ _ _ ht gl_nil (flatPairsQ_good items h.1)
theorem semItemsQ_good : ∀ l : List (Wcn × QVal × Wcn), WFItemsQ l → ∀ v ∈ semItemsQ l, GV v
  | [], _ => by intro v hv; simp [semItemsQ] at hv
  | (pre, x, post) :: r, h => by
    rw [WFItemsQ] at h
    intro v hv
    simp only [semItemsQ, List.mem_cons] at hv
    rcases hv with rfl | hv
    · exact semQ_good x h.2.1
    · exact semItemsQ_good r h.2.2.2 v hv
theorem flatPairsQ_good : ∀ l : List (QDKey × Bytes × QVal × Bytes), WFPairsQ l → ∀ e ∈ flatPairsQ l, GV e.2.2
  | [], _ => by intro e he; simp [flatPairsQ] at he
  | (k, w1, x, w2) :: r, h => by
    rw [WFPairsQ] at h
    intro e he
    simp only [flatPairsQ, List.mem_cons] at he
    rcases he with rfl | he
    · exact semQ_good x h.2.2.1
    · exact flatPairsQ_good r h.2.2.2.2 e he
end

end TomlVerif.Lemmas.TypedGapsParsed
