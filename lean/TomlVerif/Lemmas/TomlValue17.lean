import TomlVerif.Model.TomlValue
/-! Helper lemmas for Props/C17: the shape of the statement list `emitDoc` produces. -/
namespace TomlVerif.Lemmas.TomlValue17
open TomlVerif TomlVerif.Model TomlVerif.Model.TomlValue

/-- empty, or beginning with a `[header]` / `[[header]]` line -/
def headerFirst : List Stmt → Prop
  | [] => True
  | s :: _ => s.isHeader = true

/-- The printed form of one table: at most one header line, then key/value lines only, then the printed
forms of sub-tables, each of which is again a `Block` and (unless empty) begins with its own header. So no
key/value line of the table comes after a header of anything below it. -/
inductive Block : List Stmt → Prop where
  | mk (hdr kvs : List Stmt) (subs : List (List Stmt)) :
      hdr.length ≤ 1 → (∀ s ∈ hdr, s.isHeader = true) → (∀ s ∈ kvs, s.isKv = true) →
      (∀ b ∈ subs, Block b) → (∀ b ∈ subs, headerFirst b) → Block (hdr ++ kvs ++ subs.flatten)

/-- a concatenation of table blocks each beginning with a header -/
def Blocks (l : List Stmt) : Prop :=
  ∃ subs : List (List Stmt), l = subs.flatten ∧ (∀ b ∈ subs, Block b) ∧ (∀ b ∈ subs, headerFirst b)

theorem blocks_nil : Blocks [] := ⟨[], rfl, by simp, by simp⟩

theorem blocks_append {a b : List Stmt} (ha : Blocks a) (hb : Blocks b) : Blocks (a ++ b) := by
  obtain ⟨sa, rfl, ha1, ha2⟩ := ha
  obtain ⟨sb, rfl, hb1, hb2⟩ := hb
  refine ⟨sa ++ sb, by simp, ?_, ?_⟩
  · intro x hx
    rcases List.mem_append.mp hx with h | h
    · exact ha1 x h
    · exact hb1 x h
  · intro x hx
    rcases List.mem_append.mp hx with h | h
    · exact ha2 x h
    · exact hb2 x h

theorem blocks_single {b : List Stmt} (h1 : Block b) (h2 : headerFirst b) : Blocks b :=
  ⟨[b], by simp, by simpa using h1, by simpa using h2⟩

theorem headerFirst_flatten : ∀ (subs : List (List Stmt)), (∀ b ∈ subs, headerFirst b) → headerFirst subs.flatten
  | [], _ => trivial
  | [] :: r, h => by
    simp only [List.flatten_cons, List.nil_append]
    exact headerFirst_flatten r fun b hb => h b (List.mem_cons_of_mem _ hb)
  | (s :: t) :: r, h => by
    have := h (s :: t) (List.mem_cons_self ..)
    simpa [headerFirst] using this

theorem blocks_headerFirst {l : List Stmt} (h : Blocks l) : headerFirst l := by
  obtain ⟨subs, rfl, _, h2⟩ := h
  exact headerFirst_flatten subs h2

theorem ownKvs_isKv (items : List (Bytes × TV)) : ∀ s ∈ ownKvs items, s.isKv = true := by
  intro s hs
  unfold ownKvs at hs
  obtain ⟨e, _, rfl⟩ := List.mem_map.mp hs
  rfl

theorem ownKvs_eq_nil {items : List (Bytes × TV)} (h : (ownValues items).isEmpty = true) : ownKvs items = [] := by
  unfold ownKvs
  have : ownValues items = [] := by simpa using h
  rw [this]; rfl

theorem headerOf_length (path : List Bytes) (isAot : Bool) (items : List (Bytes × TV)) :
    (headerOf path isAot items).length ≤ 1 := by
  unfold headerOf
  repeat' split
  all_goals simp

theorem headerOf_isHeader (path : List Bytes) (isAot : Bool) (items : List (Bytes × TV)) :
    ∀ s ∈ headerOf path isAot items, s.isHeader = true := by
  intro s hs
  unfold headerOf at hs
  split at hs
  · simp at hs
  · split at hs
    · simp at hs; subst hs; rfl
    · split at hs
      · simp at hs
      · simp at hs; subst hs; rfl

/-- one table with well-formed sub-blocks is a block -/
theorem tableStmts_block (path : List Bytes) (isAot : Bool) (items : List (Bytes × TV)) {subs : List Stmt}
    (h : Blocks subs) : Block (tableStmts path isAot items subs) := by
  obtain ⟨ss, rfl, h1, h2⟩ := h
  unfold tableStmts
  exact Block.mk _ _ ss (headerOf_length path isAot items) (headerOf_isHeader path isAot items) (ownKvs_isKv items) h1 h2

/-- below the root the block begins with its header, or — for a hidden implicit table — with the header of
the first thing below it -/
theorem tableStmts_headerFirst (path : List Bytes) (hp : path ≠ []) (isAot : Bool) (items : List (Bytes × TV))
    {subs : List Stmt} (h : Blocks subs) : headerFirst (tableStmts path isAot items subs) := by
  unfold tableStmts headerOf
  have hpe : path.isEmpty = false := by cases path <;> simp_all
  simp only [hpe]
  cases isAot with
  | true => simp [headerFirst, Stmt.isHeader]
  | false =>
    simp only [Bool.false_eq_true, if_false]
    split
    · rename_i hc
      have hv : (ownValues items).isEmpty = true := by simp_all
      rw [ownKvs_eq_nil hv]
      simpa using blocks_headerFirst h
    · simp [headerFirst, Stmt.isHeader]

mutual
theorem emitSubs_blocks (path : List Bytes) : ∀ items : List (Bytes × TV), Blocks (emitSubs path items)
  | [] => by rw [emitSubs]; exact blocks_nil
  | (k, v) :: r => by
    rw [emitSubs]
    exact blocks_append (emitItem_blocks (path ++ [k]) (by simp) v) (emitSubs_blocks path r)
theorem emitItem_blocks (path : List Bytes) (hp : path ≠ []) : ∀ v : TV, Blocks (emitItem path v)
  | .tbl items => by
    rw [emitItem]
    have hs := emitSubs_blocks path items
    exact blocks_single (tableStmts_block path false items hs) (tableStmts_headerFirst path hp false items hs)
  | .arr l => by
    rw [emitItem]
    split
    · exact emitAot_blocks path hp l
    · exact blocks_nil
  | .str _ => by simp only [emitItem]; exact blocks_nil
  | .int _ => by simp only [emitItem]; exact blocks_nil
  | .float _ => by simp only [emitItem]; exact blocks_nil
  | .bool _ => by simp only [emitItem]; exact blocks_nil
  | .dt _ => by simp only [emitItem]; exact blocks_nil
theorem emitAot_blocks (path : List Bytes) (hp : path ≠ []) : ∀ l : List TV, Blocks (emitAot path l)
  | [] => by rw [emitAot]; exact blocks_nil
  | .tbl items :: r => by
    rw [emitAot]
    have hs := emitSubs_blocks path items
    exact blocks_append
      (blocks_single (tableStmts_block path true items hs) (tableStmts_headerFirst path hp true items hs))
      (emitAot_blocks path hp r)
  | .arr _ :: r => by simp only [emitAot]; exact emitAot_blocks path hp r
  | .str _ :: r => by simp only [emitAot]; exact emitAot_blocks path hp r
  | .int _ :: r => by simp only [emitAot]; exact emitAot_blocks path hp r
  | .float _ :: r => by simp only [emitAot]; exact emitAot_blocks path hp r
  | .bool _ :: r => by simp only [emitAot]; exact emitAot_blocks path hp r
  | .dt _ :: r => by simp only [emitAot]; exact emitAot_blocks path hp r
end

/-! ### the three passes -/

theorem pass_exactly_one (v : TV) :
    (pass1 v = true ∧ pass2 v = false ∧ pass3 v = false) ∨
    (pass1 v = false ∧ pass2 v = true ∧ pass3 v = false) ∨
    (pass1 v = false ∧ pass2 v = false ∧ pass3 v = true) := by
  cases v with
  | arr l => cases h : l.any TV.isTable <;> simp [pass1, pass2, pass3, TV.isTable, TV.isArray, TV.arrayHasTable, h]
  | _ => simp [pass1, pass2, pass3, TV.isTable, TV.isArray, TV.arrayHasTable]

theorem filter3_perm {α} (p1 p2 p3 : α → Bool)
    (h : ∀ a, (p1 a = true ∧ p2 a = false ∧ p3 a = false) ∨ (p1 a = false ∧ p2 a = true ∧ p3 a = false) ∨
      (p1 a = false ∧ p2 a = false ∧ p3 a = true)) :
    ∀ l : List α, (l.filter p1 ++ l.filter p2 ++ l.filter p3).Perm l
  | [] => by simp
  | a :: r => by
    have ih := filter3_perm p1 p2 p3 h r
    rcases h a with ⟨h1, h2, h3⟩ | ⟨h1, h2, h3⟩ | ⟨h1, h2, h3⟩
    · simp only [List.filter_cons, h1, h2, h3, if_true, Bool.false_eq_true, if_false, List.cons_append]
      exact List.Perm.cons a ih
    · simp only [List.filter_cons, h1, h2, h3, if_true, Bool.false_eq_true, if_false]
      refine List.Perm.trans ?_ (List.Perm.cons a ih)
      simp only [List.append_assoc]
      exact List.perm_middle
    · simp only [List.filter_cons, h1, h2, h3, if_true, Bool.false_eq_true, if_false]
      refine List.Perm.trans ?_ (List.Perm.cons a ih)
      exact List.perm_middle

end TomlVerif.Lemmas.TomlValue17
