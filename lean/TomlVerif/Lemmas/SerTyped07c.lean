import TomlVerif.Lemmas.SerTyped07b
import TomlVerif.Lemmas.Order18
import TomlVerif.Lemmas.RoundTrip17f
/-! C07, reading back, part 3: the relation `Sim` between the serializer's table and the data a deserializer is handed
    (same data up to what the transport does to a double, `cf`, and up to the ORDER of the entries of every table);
    association lists under permutation; what `serFields` / `serMap` / `serSeq` return, entry by entry. -/
namespace TomlVerif.Lemmas.SerTyped07
open TomlVerif TomlVerif.Model TomlVerif.Model.TomlValue TomlVerif.Model.DeRoutes TomlVerif.Model.DeTyped
open TomlVerif.Model.SerTyped TomlVerif.Model.Ser TomlVerif.Spec TomlVerif.Spec.Serde
open TomlVerif.Spec.OrderedPlain (KeysDistinct)
open TomlVerif.Lemmas.Order18 (alookup_perm keysDistinct_perm)
open TomlVerif.Lemmas.RoundTrip17 (KSorted ksorted_nodup ksorted_perm_eq sortedInsert_new)

/-! ## the data a deserializer is handed, against the serializer's tree -/

mutual
/-- `w` holds the data `x`: leaves equal (a double after `cf`), arrays element by element, tables entry by entry in ANY
order -/
def Sim (cf : Nat → Nat) : V → TV → Prop
  | .sc (.float b), w => w = .float (cf b)
  | .sc (.str s), w => w = .str s
  | .sc (.int n), w => w = .int n
  | .sc (.bool b), w => w = .bool b
  | .sc (.dt d), w => w = .dt d
  | .arr xs, w => ∃ ws, w = .arr ws ∧ SimList cf xs ws
  | .inl kvs, w => ∃ es es0, w = .tbl es ∧ es.Perm es0 ∧ SimKVs cf kvs es0
def SimList (cf : Nat → Nat) : List V → List TV → Prop
  | [], ws => ws = []
  | x :: r, ws => ∃ y ws', ws = y :: ws' ∧ Sim cf x y ∧ SimList cf r ws'
def SimKVs (cf : Nat → Nat) : List (Bytes × V) → List (Bytes × TV) → Prop
  | [], es => es = []
  | (k, x) :: r, es => ∃ y es', es = (k, y) :: es' ∧ Sim cf x y ∧ SimKVs cf r es'
end

theorem simKVs_keys (cf : Nat → Nat) : ∀ (kvs : List (Bytes × V)) (es : List (Bytes × TV)),
    SimKVs cf kvs es → es.map Prod.fst = kvs.map Prod.fst
  | [], es, h => by simp only [SimKVs] at h; subst h; rfl
  | (k, x) :: r, es, h => by
    simp only [SimKVs] at h
    obtain ⟨y, es', he, _, hr⟩ := h
    subst he
    simp [simKVs_keys cf r es' hr]

theorem simKVs_mem (cf : Nat → Nat) : ∀ (kvs : List (Bytes × V)) (es : List (Bytes × TV)),
    SimKVs cf kvs es → ∀ k x, (k, x) ∈ kvs → ∃ y, (k, y) ∈ es ∧ Sim cf x y
  | [], _, _, k, x, hm => by simp at hm
  | (k', x') :: r, es, h, k, x, hm => by
    simp only [SimKVs] at h
    obtain ⟨y, es', he, hs, hr⟩ := h
    subst he
    rcases List.mem_cons.1 hm with hm | hm
    · injection hm with h1 h2; subst h1 h2; exact ⟨y, by simp, hs⟩
    · obtain ⟨y', hy, hs'⟩ := simKVs_mem cf r es' hr k x hm
      exact ⟨y', by simp [hy], hs'⟩

/-! ## association lists -/

theorem keysDistinct_iff {α} (l : List (Bytes × α)) : KeysDistinct l ↔ (l.map Prod.fst).Nodup := by
  unfold KeysDistinct List.Nodup
  rw [List.pairwise_map]

theorem alookup_of_mem {α} : ∀ (l : List (Bytes × α)) (k : Bytes) (y : α), (l.map Prod.fst).Nodup → (k, y) ∈ l →
    alookup k l = some y
  | [], _, _, _, hm => by simp at hm
  | (k', y') :: r, k, y, hn, hm => by
    simp only [List.map_cons, List.nodup_cons] at hn
    rcases List.mem_cons.1 hm with hm | hm
    · injection hm with h1 h2; subst h1 h2; simp [alookup]
    · have hne : (k' == k) = false := by
        simp only [beq_eq_false_iff_ne, ne_eq]
        intro e; subst e
        exact hn.1 (List.mem_map.2 ⟨(k', y), hm, rfl⟩)
      simp only [alookup, hne, Bool.false_eq_true, if_false]
      exact alookup_of_mem r k y hn.2 hm

theorem alookup_none_of_not_mem {α} : ∀ (l : List (Bytes × α)) (k : Bytes), k ∉ l.map Prod.fst → alookup k l = none
  | [], _, _ => rfl
  | (k', y') :: r, k, h => by
    simp only [List.map_cons, List.mem_cons, not_or] at h
    have hne : (k' == k) = false := by
      simp only [beq_eq_false_iff_ne, ne_eq]; exact fun e => h.1 e.symm
    simp only [alookup, hne, Bool.false_eq_true, if_false]
    exact alookup_none_of_not_mem r k h.2

theorem aset_new {α} (k : Bytes) (x : α) (acc : List (Bytes × α)) (h : k ∉ acc.map Prod.fst) :
    aset k x acc = acc ++ [(k, x)] := by
  unfold aset
  rw [alookup_none_of_not_mem acc k h]

theorem distinct_nodup : ∀ l : List Bytes, distinct l = true → l.Nodup
  | [], _ => List.nodup_nil
  | k :: r, h => by
    simp only [distinct, Bool.and_eq_true, Bool.not_eq_true', List.contains_eq_mem, decide_eq_false_iff_not] at h
    exact List.nodup_cons.2 ⟨h.1, distinct_nodup r h.2⟩

theorem hasName_iff (k : Bytes) : ∀ fs : Fields, fs.hasName k = true ↔ k ∈ Fields.names fs
  | .nil => by simp [Fields.hasName, Fields.names]
  | .cons n t d r => by
    simp only [Fields.hasName, Fields.names, Bool.or_eq_true, beq_iff_eq, List.mem_cons, hasName_iff k r]
    constructor
    · rintro (h | h)
      · exact .inl h.symm
      · exact .inr h
    · rintro (h | h)
      · exact .inl h.symm
      · exact .inr h

/-! ## `BTreeMap` collection -/

theorem collectSorted_spec {α : Type} : ∀ (l acc : List (Bytes × α)), (l.map Prod.fst).Nodup →
    (∀ k ∈ l.map Prod.fst, k ∉ acc.map Prod.fst) → KSorted acc →
    KSorted (collectSorted acc l) ∧ (collectSorted acc l).Perm (acc ++ l)
  | [], acc, _, _, hs => by simp [collectSorted, hs]
  | (k, v) :: r, acc, hn, ha, hs => by
    simp only [List.map_cons, List.nodup_cons] at hn
    obtain ⟨h1, h2⟩ := sortedInsert_new k v acc hs (ha k (by simp))
    rw [collectSorted]
    have := collectSorted_spec r (sortedInsert k v acc) hn.2
      (by intro k' hk' hm
          rw [RoundTrip17.sortedInsert_keys] at hm
          rcases hm with hm | hm
          · subst hm; exact hn.1 hk'
          · exact ha k' (by simp [hk']) hm) h1
    refine ⟨this.1, this.2.trans ?_⟩
    refine (List.Perm.append_right r h2).trans ?_
    simp only [List.cons_append]
    exact List.perm_middle.symm

/-- collecting (any permutation of) a strictly key-sorted list into a `BTreeMap` gives that list -/
theorem collectSorted_of_sorted {α : Type} (l l' : List (Bytes × α)) (hs : KSorted l) (hp : l'.Perm l) :
    collectSorted [] l' = l := by
  have hn' : (l'.map Prod.fst).Nodup := ((hp.map Prod.fst).nodup_iff).2 (ksorted_nodup l hs)
  obtain ⟨b1, b2⟩ := collectSorted_spec l' [] hn' (by simp) (by simp [KSorted])
  exact ksorted_perm_eq _ _ b1 hs ((by simpa using b2 : (collectSorted [] l').Perm l').trans hp)

theorem ascending_ksorted {α : Type} : ∀ l : List (Bytes × α), ascending (l.map Prod.fst) = true → KSorted l
  | [], _ => by simp [KSorted]
  | [a], _ => by simp [KSorted]
  | a :: b :: r, h => by
    simp only [List.map_cons, ascending, Bool.and_eq_true] at h
    have ih := ascending_ksorted (b :: r) (by simpa using h.2)
    rw [KSorted, List.pairwise_cons] at ih ⊢
    refine ⟨?_, List.pairwise_cons.2 ih⟩
    intro e he
    rcases List.mem_cons.1 he with he | he
    · subst he; exact h.1
    · exact RoundTrip17.bytesLt_trans _ _ _ h.1 (ih.1 e he)

/-! ## `Good` entry lists under permutation -/

theorem goodPairs_keys (fl : Flavour) (t : Ty) : ∀ (es : List (Bytes × TV)) (nds : List (Bytes × Dec)),
    GoodPairs fl t es nds → nds.map Prod.fst = es.map Prod.fst
  | [], [], _ => rfl
  | [], _ :: _, h => by simp [GoodPairs] at h
  | _ :: _, [], h => by simp [GoodPairs] at h
  | (k, w) :: es, (k', d) :: ds, h => by
    simp only [GoodPairs] at h
    simp [h.1, goodPairs_keys fl t es ds h.2.2]

theorem goodPairs_perm (fl : Flavour) (t : Ty) {es es0 : List (Bytes × TV)} (hp : es.Perm es0) :
    ∀ nds0, GoodPairs fl t es0 nds0 → ∃ nds, nds.Perm nds0 ∧ GoodPairs fl t es nds := by
  induction hp with
  | nil => intro nds0 h; exact ⟨nds0, List.Perm.refl _, h⟩
  | cons x _ ih =>
    intro nds0 h
    obtain ⟨k, w⟩ := x
    match nds0, h with
    | (k', d) :: ds, h =>
      simp only [GoodPairs] at h
      obtain ⟨nds, hp', hg⟩ := ih ds h.2.2
      exact ⟨(k', d) :: nds, List.Perm.cons _ hp', by simp only [GoodPairs]; exact ⟨h.1, h.2.1, hg⟩⟩
    | [], h => simp [GoodPairs] at h
  | swap x y l =>
    intro nds0 h
    obtain ⟨kx, wx⟩ := x
    obtain ⟨ky, wy⟩ := y
    match nds0, h with
    | (k1, d1) :: (k2, d2) :: ds, h =>
      simp only [GoodPairs] at h
      refine ⟨(k2, d2) :: (k1, d1) :: ds, List.Perm.swap _ _ _, ?_⟩
      simp only [GoodPairs]
      exact ⟨h.2.2.1, h.2.2.2.1, h.1, h.2.1, h.2.2.2.2⟩
    | [_], h => obtain ⟨_, _⟩ := ‹Bytes × Dec›; simp [GoodPairs] at h
    | [], h => simp [GoodPairs] at h
  | trans _ _ ih1 ih2 =>
    intro nds0 h
    obtain ⟨nds1, hp1, hg1⟩ := ih2 nds0 h
    obtain ⟨nds2, hp2, hg2⟩ := ih1 nds1 hg1
    exact ⟨nds2, hp2.trans hp1, hg2⟩

/-! ## what the serializers return, entry by entry -/

def isNoneS : SVal → Bool
  | .none => true
  | _ => false

/-- the entries `serialize_field` adds: none for a `None`, else the name with the serialized value -/
def FieldsImg : List (Bytes × SVal) → List (Bytes × V) → Prop
  | [], img => img = []
  | (k, v) :: r, img =>
    if isNoneS v then FieldsImg r img
    else ∃ x img', img = (k, x) :: img' ∧ serValue v = .ok x ∧ FieldsImg r img'

theorem fieldsImg_keys : ∀ (fields : List (Bytes × SVal)) (img : List (Bytes × V)), FieldsImg fields img →
    ∀ k ∈ img.map Prod.fst, k ∈ fields.map Prod.fst
  | [], img, h, k, hk => by simp only [FieldsImg] at h; subst h; simp at hk
  | (k', v) :: r, img, h, k, hk => by
    simp only [FieldsImg] at h
    split at h
    · simp only [List.map_cons, List.mem_cons]; exact .inr (fieldsImg_keys r img h k hk)
    · obtain ⟨x, img', hi, _, hr⟩ := h
      subst hi
      simp only [List.map_cons, List.mem_cons] at hk ⊢
      rcases hk with hk | hk
      · exact .inl hk
      · exact .inr (fieldsImg_keys r img' hr k hk)

theorem fieldsImg_nodup : ∀ (fields : List (Bytes × SVal)) (img : List (Bytes × V)), FieldsImg fields img →
    (fields.map Prod.fst).Nodup → (img.map Prod.fst).Nodup
  | [], img, h, _ => by simp only [FieldsImg] at h; subst h; simp
  | (k', v) :: r, img, h, hn => by
    simp only [List.map_cons, List.nodup_cons] at hn
    simp only [FieldsImg] at h
    split at h
    · exact fieldsImg_nodup r img h hn.2
    · obtain ⟨x, img', hi, _, hr⟩ := h
      subst hi
      simp only [List.map_cons, List.nodup_cons]
      exact ⟨fun hm => hn.1 (fieldsImg_keys r img' hr k' hm), fieldsImg_nodup r img' hr hn.2⟩

theorem serFields_spec : ∀ (fields : List (Bytes × SVal)) (acc out : List (Bytes × V)),
    (fields.map Prod.fst).Nodup → (∀ k ∈ fields.map Prod.fst, k ∉ acc.map Prod.fst) →
    serFields fields acc = .ok out → ∃ img, out = acc ++ img ∧ FieldsImg fields img
  | [], acc, out, _, _, h => by
    simp only [serFields, Except.ok.injEq] at h
    exact ⟨[], by simp [h], by simp [FieldsImg]⟩
  | (k, v) :: r, acc, out, hn, hd, h => by
    simp only [List.map_cons, List.nodup_cons] at hn
    unfold serFields at h
    split at h
    · obtain ⟨img, ho, hi⟩ := serFields_spec r acc out hn.2 (fun k' hk' => hd k' (by simp [hk'])) h
      exact ⟨img, ho, by simp only [FieldsImg, isNoneS, if_true]; exact hi⟩
    · rename_i hnone
      have hns : isNoneS v = false := by
        cases v <;> first | rfl | exact absurd rfl (hnone)
      split at h
      · cases h
      · rename_i x hx
        rw [aset_new k x acc (hd k (by simp))] at h
        obtain ⟨img, ho, hi⟩ := serFields_spec r (acc ++ [(k, x)]) out hn.2
          (by intro k' hk' hm
              simp only [List.map_append, List.map_cons, List.map_nil, List.mem_append, List.mem_singleton] at hm
              rcases hm with hm | hm
              · exact hd k' (by simp [hk']) hm
              · subst hm; exact hn.1 hk') h
        refine ⟨(k, x) :: img, by simp [ho], ?_⟩
        simp only [FieldsImg, hns, Bool.false_eq_true, if_false]
        exact ⟨x, img, rfl, hx, hi⟩

end TomlVerif.Lemmas.SerTyped07
