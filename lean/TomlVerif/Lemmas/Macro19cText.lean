import TomlVerif.Lemmas.Macro19cLex
import TomlVerif.Lemmas.Macro19bAgree
import TomlVerif.Spec.AstString
/-! C19 (text): the canonical text of the modelled macro syntax and the syntactic side conditions.

    * `textOf ds` — one statement per line (`LF` after each), `key = value`, `[key]`, `[[key]]`; keys without blanks
      (`a.b-c."d e"`), arrays `[v, v,]`, inline tables `{k = v, k = v}`, signs directly before the number, date-times
      with `-`/`:` directly between the fields and one blank between date and time in the `…Sp` shapes.
    * `synOk ds` — the decidable condition under which that text is read back by rustc's lexer as `spellDoc ds`
      and by the TOML parser as the statements `stmtsOf ds`. -/
namespace TomlVerif.Lemmas.Macro19c
open TomlVerif TomlVerif.Spec TomlVerif.Model TomlVerif.Model.Macro TomlVerif.Lemmas.Macro19 TomlVerif.Lemmas.Macro19b
open TomlVerif.Spec.AstString (BasicChar renderBasic semBasic wfBasic)

/-! ## strings: the escapes Rust and TOML share -/

/-- `\n \r \t \\ \"` — the one-letter escapes with the same meaning in a Rust string literal and a TOML basic string -/
def comEsc (c : Byte) : Bool := c == 0x6E || c == 0x72 || c == 0x74 || c == 0x5C || c == 0x22

/-- reads the body of a string literal (after the opening quote, up to and including the closing quote at the very
    end) as `basic-char`s of the common subset: a `basic-unescaped` byte, or one of the five shared escapes -/
def comParse : Nat → Bytes → Option (List BasicChar)
  | 0, _ => none
  | _ + 1, [] => none
  | fuel + 1, b :: r =>
    if b == 0x22 then (if r.isEmpty then some [] else none)
    else if b == 0x5C then
      match r with
      | c :: r' => if comEsc c then (comParse fuel r').map (BasicChar.escaped (.simple c) :: ·) else none
      | [] => none
    else if isBasicUnescaped b then (comParse fuel r).map (BasicChar.raw b :: ·)
    else none

/-- the literal `raw` with value `val` is a string both languages read the same way -/
def strOk (raw val : Bytes) : Bool :=
  match raw with
  | b :: body =>
    b == 0x22 &&
      match comParse (body.length + 1) body with
      | some cs => semBasic cs == val
      | none => false
  | [] => false

def comChar : BasicChar → Bool
  | .raw b => isBasicUnescaped b
  | .escaped (.simple c) => comEsc c
  | .escaped _ => false

theorem comParse_spec : ∀ (fuel : Nat) (body : Bytes) (cs : List BasicChar), comParse fuel body = some cs →
    body = cs.flatMap BasicChar.render ++ [0x22] ∧ cs.all comChar = true := by
  intro fuel
  induction fuel with
  | zero => intro body cs h; simp [comParse] at h
  | succ f ih =>
    intro body cs h
    cases body with
    | nil => simp [comParse] at h
    | cons b r =>
      simp only [comParse] at h
      by_cases h1 : (b == 0x22) = true
      · simp only [h1, if_true] at h
        have hb : b = 0x22 := by simpa using h1
        cases r with
        | nil => simp at h; subst h; subst hb; simp
        | cons x y => simp at h
      · simp only [h1, Bool.false_eq_true, if_false] at h
        by_cases h2 : (b == 0x5C) = true
        · simp only [h2, if_true] at h
          have hb : b = 0x5C := by simpa using h2
          cases r with
          | nil => simp at h
          | cons c r' =>
            simp only [] at h
            by_cases hc : comEsc c = true
            · simp only [hc, if_true] at h
              cases hp : comParse f r' with
              | none => simp [hp] at h
              | some cs' =>
                simp [hp] at h; subst h
                obtain ⟨e, ha⟩ := ih r' cs' hp
                subst hb
                refine ⟨by rw [e]; simp [BasicChar.render, AstString.Escaped.render, AstString.Escaped.tail], ?_⟩
                simp [comChar, hc, ha]
            · simp [hc] at h
        · simp only [h2, Bool.false_eq_true, if_false] at h
          by_cases h3 : isBasicUnescaped b = true
          · simp only [h3, if_true] at h
            cases hp : comParse f r with
            | none => simp [hp] at h
            | some cs' =>
              simp [hp] at h; subst h
              obtain ⟨e, ha⟩ := ih r cs' hp
              refine ⟨by rw [e]; simp [BasicChar.render], ?_⟩
              simp [comChar, h3, ha]
          · simp [h3] at h

theorem comChar_wf (cs : List BasicChar) (h : cs.all comChar = true) : wfBasic cs = true := by
  unfold wfBasic
  rw [List.all_eq_true] at h ⊢
  intro c hc
  have := h c hc
  cases c with
  | raw b => simpa [comChar, BasicChar.wf] using this
  | escaped e =>
    cases e with
    | simple x =>
      simp only [comChar, comEsc, Bool.or_eq_true, beq_iff_eq] at this
      rcases this with (((h | h) | h) | h) | h <;> subst h <;> decide
    | u4 a b c d => simp [comChar] at this
    | u8 a b c d e f g h => simp [comChar] at this

theorem strOk_spec (raw val : Bytes) (h : strOk raw val = true) :
    ∃ cs, raw = renderBasic cs ∧ val = semBasic cs ∧ cs.all comChar = true ∧ wfBasic cs = true := by
  cases raw with
  | nil => simp [strOk] at h
  | cons b body =>
    simp only [strOk, Bool.and_eq_true, beq_iff_eq] at h
    obtain ⟨hb, h⟩ := h
    cases hp : comParse (body.length + 1) body with
    | none => simp [hp] at h
    | some cs =>
      simp [hp] at h
      obtain ⟨e, ha⟩ := comParse_spec _ _ _ hp
      exact ⟨cs, by rw [hb, e]; rfl, h.symm, ha, comChar_wf cs ha⟩

/-! ### the Rust lexer on such a body -/

theorem lexStr_quote (r raw val : Bytes) : lexStrBody (0x22 :: r) raw val = some (raw, val, r) := by
  simp [lexStrBody]

theorem basicUnescaped_facts : ∀ b : Byte, isBasicUnescaped b = true → b ≠ 0x22 ∧ b ≠ 0x5C ∧ (b == 0x0D) = false :=
  forall_byte (by decide +kernel)

theorem lexStr_raw (b : Byte) (r raw val : Bytes) (hb : isBasicUnescaped b = true) :
    lexStrBody (b :: r) raw val = lexStrBody r (raw ++ [b]) (val ++ [b]) := by
  obtain ⟨n1, n2, n3⟩ := basicUnescaped_facts b hb
  conv => lhs; unfold lexStrBody
  split
  · rename_i heq; cases heq
  · rename_i heq; injection heq with h _; exact absurd h n1
  · rename_i heq; injection heq with h _; exact absurd h n2
  · rename_i heq; injection heq with h _; exact absurd h n2
  · rename_i heq; injection heq with h1 h2; subst h1 h2; simp [n3]

theorem lexStr_esc (c : Byte) (r raw val : Bytes) (hc : comEsc c = true) :
    lexStrBody (0x5C :: c :: r) raw val =
      lexStrBody r (raw ++ [0x5C, c]) (val ++ (BasicChar.escaped (.simple c)).sem) := by
  simp only [comEsc, Bool.or_eq_true, beq_iff_eq] at hc
  rcases hc with (((h | h) | h) | h) | h <;> subst h <;>
    simp [lexStrBody, BasicChar.sem, AstString.Escaped.sem, AstString.escMeaning]

theorem lexStr_com (cs : List BasicChar) (h : cs.all comChar = true) : ∀ (rest raw val : Bytes),
    lexStrBody (cs.flatMap BasicChar.render ++ 0x22 :: rest) raw val =
      some (raw ++ cs.flatMap BasicChar.render, val ++ semBasic cs, rest) := by
  induction cs with
  | nil => intro rest raw val; simp [lexStr_quote, semBasic]
  | cons c cs ih =>
    intro rest raw val
    simp only [List.all_cons, Bool.and_eq_true] at h
    cases c with
    | raw b =>
      have hb : isBasicUnescaped b = true := by simpa [comChar] using h.1
      simp only [List.flatMap_cons, BasicChar.render, List.cons_append, List.nil_append]
      rw [lexStr_raw b _ raw val hb, ih h.2]
      simp [semBasic, BasicChar.sem]
    | escaped e =>
      cases e with
      | simple x =>
        have hx : comEsc x = true := by simpa [comChar] using h.1
        simp only [List.flatMap_cons, BasicChar.render, AstString.Escaped.render, AstString.Escaped.tail,
          List.cons_append, List.nil_append]
        rw [lexStr_esc x _ raw val hx, ih h.2]
        simp [semBasic]
      | u4 a b c d => simp [comChar] at h
      | u8 a b c d e f g h' => simp [comChar] at h

/-- a string token of the common subset -/
theorem strTok_step (raw val : Bytes) (h : strOk raw val = true) :
    LexStep (Hd strFol) raw [.t (.str raw val)] ∧ HdIn (fun c => c == 0x22) raw := by
  obtain ⟨cs, rfl, rfl, ha, _⟩ := strOk_spec raw val h
  refine ⟨?_, ⟨0x22, _, rfl, rfl⟩⟩
  have := str_step (cs.flatMap BasicChar.render ++ [0x22]) (cs.flatMap BasicChar.render) (semBasic cs) (by
    intro rest
    have := lexStr_com cs ha rest [] []
    simpa using this)
  simpa [renderBasic] using this

/-! ## token texts -/

def tokText : Tok → Bytes
  | .ident s => s
  | .num b s _ => b ++ s
  | .str raw _ => raw
  | .chr raw _ => raw
  | .punct c => [c]

def atomText (a : KAtom) : Bytes := tokText a.tok

def dashedText : List KAtom → Bytes
  | [] => []
  | a :: r => 0x2D :: (atomText a ++ dashedText r)

def segText (s : Seg) : Bytes := atomText s.head ++ dashedText s.tail

def dottedText : List Seg → Bytes
  | [] => []
  | s :: r => 0x2E :: (segText s ++ dottedText r)

/-- `a.b-c."d e"` -/
def keyText (k : MKey) : Bytes := segText k.head ++ dottedText k.tail

/-! ## keys -/

def identAtom : KAtom → Bool
  | .ident w => identOk w
  | _ => false

/-- a segment: one quoted key of the common subset, or identifiers joined by `-` -/
def segOk (s : Seg) : Bool :=
  match s.head with
  | .str raw val => strOk raw val && s.tail.isEmpty
  | .ident w => identOk w && s.tail.all identAtom
  | _ => false

def keyOk (k : MKey) : Bool := segOk k.head && k.tail.all segOk && decide (k.tail.length + 1 < Value.LIMIT)

/-- what may follow an atom of a key: a blank, `]`, `-`, `.` -/
def keyFol (c : Byte) : Bool := c == 0x20 || c == 0x5D || c == 0x2D || c == 0x2E
/-- the first byte of an atom -/
def atomHd (c : Byte) : Bool := isIdStart c || c == 0x22

theorem keyFol_facts : ∀ c : Byte, keyFol c = true → identFol c = true ∧ strFol c = true :=
  forall_byte (by decide +kernel)
theorem atomHd_facts : ∀ c : Byte, atomHd c = true → punctFol 0x2D c = true ∧ punctFol 0x2E c = true :=
  forall_byte (by decide +kernel)

theorem identOk_hd (w : Bytes) (h : identOk w = true) : HdIn atomHd w := by
  cases w with
  | nil => simp [identOk] at h
  | cons b t =>
    simp only [identOk, Bool.and_eq_true] at h
    exact ⟨b, t, rfl, by simp [atomHd, h.1.1]⟩

theorem identAtom_step (a : KAtom) (h : identAtom a = true) :
    LexStep (Hd keyFol) (atomText a) (flatTTs [a.tt]) ∧ HdIn atomHd (atomText a) := by
  cases a with
  | ident w =>
    simp only [identAtom] at h
    refine ⟨?_, identOk_hd w h⟩
    have := (ident_step w h).weaken (B' := Hd keyFol) (fun r hr => Hd_mono hr (fun c hc => (keyFol_facts c hc).1))
    simpa [atomText, KAtom.tok, tokText, KAtom.tt, flatTTs_tok] using this
  | num b s f => simp [identAtom] at h
  | str r v => simp [identAtom] at h
  | chr r v => simp [identAtom] at h

theorem Hd_keyFol_dashed (l : List KAtom) (rest : Bytes) (h : Hd keyFol rest) : Hd keyFol (dashedText l ++ rest) := by
  cases l with
  | nil => exact h
  | cons a r => simp [dashedText, Hd, keyFol]

theorem dashed_step (l : List KAtom) (h : l.all identAtom = true) :
    LexStep (Hd keyFol) (dashedText l) (flatTTs (dashed l)) := by
  induction l with
  | nil => exact LexStep.nil _
  | cons a r ih =>
    simp only [List.all_cons, Bool.and_eq_true] at h
    obtain ⟨ha, hh⟩ := identAtom_step a h.1
    have h1 : LexStep (Hd (punctFol 0x2D)) [0x2D] [.t (.punct 0x2D)] := punct_step 0x2D (by decide)
    have h2 := LexStep.comp ha (ih h.2) (Hd_keyFol_dashed r)
    have h3 := LexStep.seq h1 h2 (HdIn_append (HdIn_mono hh (fun c hc => (atomHd_facts c hc).1)) _)
    simpa [dashedText, dashed, flatTTs, flatTT, dash, pc] using h3

theorem seg_step (s : Seg) (h : segOk s = true) :
    LexStep (Hd keyFol) (segText s) (flatTTs s.toks) ∧ HdIn atomHd (segText s) := by
  obtain ⟨hd, tl⟩ := s
  cases hd with
  | ident w =>
    simp only [segOk, Bool.and_eq_true] at h
    obtain ⟨ha, hh⟩ := identAtom_step (.ident w) (by simpa [identAtom] using h.1)
    refine ⟨?_, HdIn_append hh _⟩
    have := LexStep.comp ha (dashed_step tl h.2) (Hd_keyFol_dashed tl)
    simpa [segText, Seg.toks, flatTTs, flatTT, KAtom.tt] using this
  | str raw val =>
    simp only [segOk, Bool.and_eq_true, List.isEmpty_iff] at h
    obtain ⟨h1, h2⟩ := h
    subst h2
    obtain ⟨hs, hh⟩ := strTok_step raw val h1
    refine ⟨?_, ?_⟩
    · have := hs.weaken (B' := Hd keyFol) (fun r hr => Hd_mono hr (fun c hc => (keyFol_facts c hc).2))
      simpa [segText, Seg.toks, dashed, dashedText, atomText, KAtom.tok, tokText, KAtom.tt, flatTTs, flatTT] using this
    · simp only [segText, dashedText, atomText, KAtom.tok, tokText, List.append_nil]
      exact HdIn_mono hh (by intro c hc; simp only [beq_iff_eq] at hc; subst hc; decide)
  | num b sf f => simp [segOk] at h
  | chr r v => simp [segOk] at h

theorem Hd_keyFol_dotted (l : List Seg) (rest : Bytes) (h : Hd keyFol rest) : Hd keyFol (dottedText l ++ rest) := by
  cases l with
  | nil => exact h
  | cons a r => simp [dottedText, Hd, keyFol]

theorem dotted_step (l : List Seg) (h : l.all segOk = true) :
    LexStep (Hd keyFol) (dottedText l) (flatTTs (dotted l)) := by
  induction l with
  | nil => exact LexStep.nil _
  | cons s r ih =>
    simp only [List.all_cons, Bool.and_eq_true] at h
    obtain ⟨hs, hh⟩ := seg_step s h.1
    have h1 : LexStep (Hd (punctFol 0x2E)) [0x2E] [.t (.punct 0x2E)] := punct_step 0x2E (by decide)
    have h2 := LexStep.comp hs (ih h.2) (Hd_keyFol_dotted r)
    have h3 := LexStep.seq h1 h2 (HdIn_append (HdIn_mono hh (fun c hc => (atomHd_facts c hc).2)) _)
    simpa [dottedText, dotted, flatTTs, flatTT, flatTTs_append, dot, pc] using h3

/-- **keys**: the lexer reads the text of a key as its tokens (before a blank or `]`) -/
theorem key_step (k : MKey) (h : keyOk k = true) :
    LexStep (Hd keyFol) (keyText k) (flatTTs k.toks) ∧ HdIn atomHd (keyText k) := by
  simp only [keyOk, Bool.and_eq_true] at h
  obtain ⟨hs, hh⟩ := seg_step k.head h.1.1
  refine ⟨?_, HdIn_append hh _⟩
  have := LexStep.comp hs (dotted_step k.tail h.1.2) (Hd_keyFol_dotted k.tail)
  simpa [keyText, MKey.toks, flatTTs_append] using this

/-! ## scalar values -/

def signText : Sign → Bytes
  | .none => []
  | .plus => [0x2B]
  | .minus => [0x2D]

def numText (n : Num) : Bytes := n.body ++ n.suffix

/-- non-empty decimal digits without a leading zero (`0` itself is fine): an integer in both languages -/
def decOk (ds : Bytes) : Bool :=
  !ds.isEmpty && ds.all isDigit && (match ds with | 0x30 :: t => t.isEmpty | _ => true)

/-- `int.frac` with a canonical integer part and a non-empty fraction: a float in both languages -/
def fracOk (body : Bytes) : Bool :=
  match spanP isDigit body with
  | (ip, 0x2E :: fp) => decOk ip && !fp.isEmpty && fp.all isDigit
  | _ => false

/-- a number token inside a date-time: digits, or `digits.digits` (seconds with a fraction), with no suffix or a
    suffix `T07` / `t07` / `Z` / `z` -/
def numOk (n : Num) : Bool :=
  (n.suffix.isEmpty || sfxOk n.suffix) &&
  (if n.fl then
    (match spanP isDigit n.body with
     | (ip, 0x2E :: fp) => !ip.isEmpty && !fp.isEmpty && fp.all isDigit
     | _ => false)
   else !n.body.isEmpty && n.body.all isDigit)

/-- the date-time shapes that arise from TOML text: the six without a separate fraction token -/
def dtText : DtForm → Bytes
  | .odt yr mo dhr mi sec tzh tzm =>
    numText yr ++ 0x2D :: (numText mo ++ 0x2D :: (numText dhr ++ 0x3A :: (numText mi ++ 0x3A :: (numText sec ++
      0x2D :: (numText tzh ++ 0x3A :: numText tzm)))))
  | .ldt yr mo dhr mi sec =>
    numText yr ++ 0x2D :: (numText mo ++ 0x2D :: (numText dhr ++ 0x3A :: (numText mi ++ 0x3A :: numText sec)))
  | .date yr mo day => numText yr ++ 0x2D :: (numText mo ++ 0x2D :: numText day)
  | .time hr mi sec => numText hr ++ 0x3A :: (numText mi ++ 0x3A :: numText sec)
  | .odtSp yr mo day hr mi sec tzh tzm =>
    numText yr ++ 0x2D :: (numText mo ++ 0x2D :: (numText day ++ 0x20 :: (numText hr ++ 0x3A :: (numText mi ++ 0x3A ::
      (numText sec ++ 0x2D :: (numText tzh ++ 0x3A :: numText tzm))))))
  | .ldtSp yr mo day hr mi sec =>
    numText yr ++ 0x2D :: (numText mo ++ 0x2D :: (numText day ++ 0x20 :: (numText hr ++ 0x3A :: (numText mi ++ 0x3A ::
      numText sec))))
  | _ => []

/-- exactly `k` digits, no suffix: the year, month and day of the shapes with a blank between date and time -/
def plainN (k : Nat) (n : Num) : Bool := n.body.length == k && n.body.all isDigit && n.suffix.isEmpty && !n.fl

def dtOk : DtForm → Bool
  | .odt yr mo dhr mi sec tzh tzm => numOk yr && numOk mo && numOk dhr && numOk mi && numOk sec && numOk tzh && numOk tzm
  | .ldt yr mo dhr mi sec => numOk yr && numOk mo && numOk dhr && numOk mi && numOk sec
  | .date yr mo day => numOk yr && numOk mo && numOk day
  | .time hr mi sec => numOk hr && numOk mi && numOk sec
  | .odtSp yr mo day hr mi sec tzh tzm =>
    plainN 4 yr && plainN 2 mo && plainN 2 day && numOk hr && numOk mi && numOk sec && numOk tzh && numOk tzm
  | .ldtSp yr mo day hr mi sec => plainN 4 yr && plainN 2 mo && plainN 2 day && numOk hr && numOk mi && numOk sec
  | _ => false

def leafText : MacroVal → Bytes
  | .int s body => signText s ++ body
  | .float s body => signText s ++ body
  | .special s nan => signText s ++ (if nan then bNan else bInf)
  | .bool b => if b then bTrue else bFalse
  | .str raw _ => raw
  | .chr raw _ => raw
  | .dt f => dtText f
  | .arr _ _ => []

def leafOk : MacroVal → Bool
  | .int _ body => decOk body
  | .float _ body => fracOk body
  | .special _ _ => true
  | .bool _ => true
  | .str raw val => strOk raw val
  | .chr _ _ => false
  | .dt f => dtOk f
  | .arr _ _ => false

/-- what may follow a value: `,` `]` `}` line feed, blank -/
def valFol (c : Byte) : Bool := c == 0x2C || c == 0x5D || c == 0x7D || c == 0x0A || c == 0x20
/-- what may follow a number token of a date-time -/
def numFol (c : Byte) : Bool := !isIdCont c && !(c == 0x2E)

theorem valFol_facts : ∀ c : Byte, valFol c = true →
    numFol c = true ∧ identFol c = true ∧ strFol c = true ∧ intFol c = true ∧ floatFol c = true :=
  forall_byte (by decide +kernel)
theorem numFol_facts : ∀ c : Byte, numFol c = true →
    intFol c = true ∧ floatFol c = true ∧ (!isIdCont c) = true :=
  forall_byte (by decide +kernel)
theorem dtSep_facts : numFol 0x2D = true ∧ numFol 0x3A = true ∧ numFol 0x20 = true := by decide
theorem digit_punctFol : ∀ c : Byte, (isDigit c = true ∨ isIdStart c = true) →
    punctFol 0x2D c = true ∧ punctFol 0x3A c = true ∧ punctFol 0x2B c = true :=
  forall_byte (by decide +kernel)

theorem spanP_spec (p : Byte → Bool) : ∀ (s a t : Bytes), spanP p s = (a, t) → s = a ++ t ∧ a.all p = true := by
  intro s
  induction s with
  | nil => intro a t h; simp [spanP] at h; obtain ⟨rfl, rfl⟩ := h; simp
  | cons b r ih =>
    intro a t h
    simp only [spanP] at h
    by_cases hb : p b = true
    · simp only [hb, if_true] at h
      cases hs : spanP p r with
      | mk a' t' =>
        rw [hs] at h
        simp only [Prod.mk.injEq] at h
        obtain ⟨rfl, rfl⟩ := h
        obtain ⟨e, ha⟩ := ih a' t' hs
        exact ⟨by rw [e]; rfl, by simp [hb, ha]⟩
    · simp only [hb, Bool.false_eq_true, if_false, Prod.mk.injEq] at h
      obtain ⟨rfl, rfl⟩ := h
      simp

theorem all_hd (ds : Bytes) (hne : ds.isEmpty = false) (h : ds.all isDigit = true) : HdIn isDigit ds := by
  cases ds with
  | nil => simp at hne
  | cons b t => simp at h; exact ⟨b, t, rfl, h.1⟩

/-- a number token of a date-time -/
theorem numTok_step (n : Num) (h : numOk n = true) :
    LexStep (Hd numFol) (numText n) [.t (.num n.body n.suffix n.fl)] ∧ HdIn isDigit (numText n) := by
  obtain ⟨body, sf, fl⟩ := n
  simp only [numOk, Bool.and_eq_true, Bool.or_eq_true, List.isEmpty_iff] at h
  obtain ⟨hsf, hb⟩ := h
  cases fl with
  | false =>
    simp only [Bool.false_eq_true, if_false, Bool.and_eq_true, Bool.not_eq_true'] at hb
    have hne : body ≠ [] := by intro e; rw [e] at hb; simp at hb
    have hh : HdIn isDigit body := all_hd body hb.1 hb.2
    refine ⟨?_, HdIn_append hh _⟩
    rcases hsf with rfl | hs
    · simp only [numText, List.append_nil]
      exact num_step body body [] false hh (fun rest hr =>
        lexNumber_int body rest hne hb.2 (Hd_mono hr (fun c hc => (numFol_facts c hc).1)))
    · exact num_step (body ++ sf) body sf false (HdIn_append hh _) (fun rest hr => by
        rw [List.append_assoc]
        exact lexNumber_int_sfx body sf rest hne hb.2 hs (Hd_mono hr (fun c hc => (numFol_facts c hc).2.2)))
  | true =>
    simp only [if_true] at hb
    cases hsp : spanP isDigit body with
    | mk ip r =>
      rw [hsp] at hb
      obtain ⟨e, hi⟩ := spanP_spec isDigit body ip r hsp
      cases r with
      | nil => simp at hb
      | cons c fp =>
        by_cases hc : c = 0x2E
        · subst hc
          simp only [Bool.and_eq_true, Bool.not_eq_true', List.isEmpty_eq_false_iff] at hb
          obtain ⟨⟨h1, h2⟩, h3⟩ := hb
          have hh : HdIn isDigit body := by rw [e]; exact HdIn_append (all_hd ip (by simpa using h1) hi) _
          have eb : body = ip ++ [0x2E] ++ fp := by rw [e]; simp
          refine ⟨?_, HdIn_append hh _⟩
          rcases hsf with rfl | hs
          · simp only [numText, List.append_nil]
            refine num_step body body [] true hh (fun rest hr => ?_)
            have := lexNumber_frac ip fp rest h1 hi h3 h2 (Hd_mono hr (fun c hc => (numFol_facts c hc).2.1))
            simpa [e, List.append_assoc] using this
          · refine num_step (body ++ sf) body sf true (HdIn_append hh _) (fun rest hr => ?_)
            have := lexNumber_frac_sfx ip fp sf rest h1 hi h3 h2 hs (Hd_mono hr (fun c hc => (numFol_facts c hc).2.2))
            simpa [e, List.append_assoc] using this
        · exfalso
          revert hb
          split
          · rename_i heq; injection heq with _ h2; injection h2 with h2 _; exact absurd h2 hc
          · simp

theorem colon_step : LexStep (Hd (punctFol 0x3A)) [0x3A] [.t (.punct 0x3A)] := punct_step _ (by decide)
theorem dashp_step : LexStep (Hd (punctFol 0x2D)) [0x2D] [.t (.punct 0x2D)] := punct_step _ (by decide)
theorem plus_step : LexStep (Hd (punctFol 0x2B)) [0x2B] [.t (.punct 0x2B)] := punct_step _ (by decide)

/-- `num sep rest…`: a number token, a `-` or `:`, and what follows (which starts with a digit) -/
theorem num_sep_step {B : Bytes → Prop} (n : Num) (hn : numOk n = true) (sep : Byte) (hsep : sep = 0x2D ∨ sep = 0x3A)
    {t : Bytes} {o : List FTok} (ht : LexStep B t o) (hd : HdIn isDigit t) :
    LexStep B (numText n ++ sep :: t) (.t (.num n.body n.suffix n.fl) :: .t (.punct sep) :: o) ∧
      HdIn isDigit (numText n ++ sep :: t) := by
  obtain ⟨h1, h2⟩ := numTok_step n hn
  refine ⟨?_, HdIn_append h2 _⟩
  rcases hsep with rfl | rfl
  · have := LexStep.seq h1 (LexStep.seq dashp_step ht (HdIn_mono hd (fun c hc => (digit_punctFol c (Or.inl hc)).1)))
      ⟨0x2D, _, rfl, dtSep_facts.1⟩
    simpa using this
  · have := LexStep.seq h1 (LexStep.seq colon_step ht (HdIn_mono hd (fun c hc => (digit_punctFol c (Or.inl hc)).2.1)))
      ⟨0x3A, _, rfl, dtSep_facts.2.1⟩
    simpa using this

theorem plainN_numOk (k : Nat) (n : Num) (hk : 0 < k) (h : plainN k n = true) : numOk n = true := by
  obtain ⟨body, sf, fl⟩ := n
  simp only [plainN, Bool.and_eq_true, beq_iff_eq, Bool.not_eq_true', List.isEmpty_iff] at h
  obtain ⟨⟨⟨h1, h2⟩, h3⟩, h4⟩ := h
  subst h3 h4
  have : body.isEmpty = false := by cases body with
    | nil => simp at h1; omega
    | cons x y => rfl
  simp [numOk, h2, this]

/-- `num rest…` with one blank in between -/
theorem num_sp_step {B : Bytes → Prop} (n : Num) (hn : numOk n = true) {t : Bytes} {o : List FTok} (ht : LexStep B t o) :
    LexStep B (numText n ++ 0x20 :: t) (.t (.num n.body n.suffix n.fl) :: o) ∧ HdIn isDigit (numText n ++ 0x20 :: t) := by
  obtain ⟨h1, h2⟩ := numTok_step n hn
  refine ⟨?_, HdIn_append h2 _⟩
  have := LexStep.seq h1 (LexStep.seqT sp_step ht) ⟨0x20, _, rfl, dtSep_facts.2.2⟩
  simpa using this

theorem dt_step (f : DtForm) (h : dtOk f = true) :
    LexStep (Hd numFol) (dtText f) (flatTTs f.toks) ∧ HdIn isDigit (dtText f) := by
  cases f with
  | odt yr mo dhr mi sec tzh tzm =>
    simp only [dtOk, Bool.and_eq_true] at h
    obtain ⟨⟨⟨⟨⟨⟨h1, h2⟩, h3⟩, h4⟩, h5⟩, h6⟩, h7⟩ := h
    obtain ⟨s7, d7⟩ := numTok_step tzm h7
    obtain ⟨s6, d6⟩ := num_sep_step tzh h6 0x3A (Or.inr rfl) s7 d7
    obtain ⟨s5, d5⟩ := num_sep_step sec h5 0x2D (Or.inl rfl) s6 d6
    obtain ⟨s4, d4⟩ := num_sep_step mi h4 0x3A (Or.inr rfl) s5 d5
    obtain ⟨s3, d3⟩ := num_sep_step dhr h3 0x3A (Or.inr rfl) s4 d4
    obtain ⟨s2, d2⟩ := num_sep_step mo h2 0x2D (Or.inl rfl) s3 d3
    obtain ⟨s1, d1⟩ := num_sep_step yr h1 0x2D (Or.inl rfl) s2 d2
    exact ⟨by simpa [dtText, DtForm.toks, flatTTs, flatTT, Num.tt, dash, colon, pc] using s1, d1⟩
  | ldt yr mo dhr mi sec =>
    simp only [dtOk, Bool.and_eq_true] at h
    obtain ⟨⟨⟨⟨h1, h2⟩, h3⟩, h4⟩, h5⟩ := h
    obtain ⟨s5, d5⟩ := numTok_step sec h5
    obtain ⟨s4, d4⟩ := num_sep_step mi h4 0x3A (Or.inr rfl) s5 d5
    obtain ⟨s3, d3⟩ := num_sep_step dhr h3 0x3A (Or.inr rfl) s4 d4
    obtain ⟨s2, d2⟩ := num_sep_step mo h2 0x2D (Or.inl rfl) s3 d3
    obtain ⟨s1, d1⟩ := num_sep_step yr h1 0x2D (Or.inl rfl) s2 d2
    exact ⟨by simpa [dtText, DtForm.toks, flatTTs, flatTT, Num.tt, dash, colon, pc] using s1, d1⟩
  | date yr mo day =>
    simp only [dtOk, Bool.and_eq_true] at h
    obtain ⟨⟨h1, h2⟩, h3⟩ := h
    obtain ⟨s3, d3⟩ := numTok_step day h3
    obtain ⟨s2, d2⟩ := num_sep_step mo h2 0x2D (Or.inl rfl) s3 d3
    obtain ⟨s1, d1⟩ := num_sep_step yr h1 0x2D (Or.inl rfl) s2 d2
    exact ⟨by simpa [dtText, DtForm.toks, flatTTs, flatTT, Num.tt, dash, colon, pc] using s1, d1⟩
  | time hr mi sec =>
    simp only [dtOk, Bool.and_eq_true] at h
    obtain ⟨⟨h1, h2⟩, h3⟩ := h
    obtain ⟨s3, d3⟩ := numTok_step sec h3
    obtain ⟨s2, d2⟩ := num_sep_step mi h2 0x3A (Or.inr rfl) s3 d3
    obtain ⟨s1, d1⟩ := num_sep_step hr h1 0x3A (Or.inr rfl) s2 d2
    exact ⟨by simpa [dtText, DtForm.toks, flatTTs, flatTT, Num.tt, dash, colon, pc] using s1, d1⟩
  | odtSp yr mo day hr mi sec tzh tzm =>
    simp only [dtOk, Bool.and_eq_true] at h
    obtain ⟨⟨⟨⟨⟨⟨⟨h1, h2⟩, h3⟩, h4⟩, h5⟩, h6⟩, h7⟩, h8⟩ := h
    obtain ⟨s8, d8⟩ := numTok_step tzm h8
    obtain ⟨s7, d7⟩ := num_sep_step tzh h7 0x3A (Or.inr rfl) s8 d8
    obtain ⟨s6, d6⟩ := num_sep_step sec h6 0x2D (Or.inl rfl) s7 d7
    obtain ⟨s5, d5⟩ := num_sep_step mi h5 0x3A (Or.inr rfl) s6 d6
    obtain ⟨s4, d4⟩ := num_sep_step hr h4 0x3A (Or.inr rfl) s5 d5
    obtain ⟨s3, d3⟩ := num_sp_step day (plainN_numOk 2 day (by decide) h3) s4
    obtain ⟨s2, d2⟩ := num_sep_step mo (plainN_numOk 2 mo (by decide) h2) 0x2D (Or.inl rfl) s3 d3
    obtain ⟨s1, d1⟩ := num_sep_step yr (plainN_numOk 4 yr (by decide) h1) 0x2D (Or.inl rfl) s2 d2
    exact ⟨by simpa [dtText, DtForm.toks, flatTTs, flatTT, Num.tt, dash, colon, pc] using s1, d1⟩
  | ldtSp yr mo day hr mi sec =>
    simp only [dtOk, Bool.and_eq_true] at h
    obtain ⟨⟨⟨⟨⟨h1, h2⟩, h3⟩, h4⟩, h5⟩, h6⟩ := h
    obtain ⟨s6, d6⟩ := numTok_step sec h6
    obtain ⟨s5, d5⟩ := num_sep_step mi h5 0x3A (Or.inr rfl) s6 d6
    obtain ⟨s4, d4⟩ := num_sep_step hr h4 0x3A (Or.inr rfl) s5 d5
    obtain ⟨s3, d3⟩ := num_sp_step day (plainN_numOk 2 day (by decide) h3) s4
    obtain ⟨s2, d2⟩ := num_sep_step mo (plainN_numOk 2 mo (by decide) h2) 0x2D (Or.inl rfl) s3 d3
    obtain ⟨s1, d1⟩ := num_sep_step yr (plainN_numOk 4 yr (by decide) h1) 0x2D (Or.inl rfl) s2 d2
    exact ⟨by simpa [dtText, DtForm.toks, flatTTs, flatTT, Num.tt, dash, colon, pc] using s1, d1⟩
  | odtFrac _ _ _ _ _ _ _ _ => simp [dtOk] at h
  | odtFracSp _ _ _ _ _ _ _ _ _ => simp [dtOk] at h
  | ldtFrac _ _ _ _ _ _ => simp [dtOk] at h
  | ldtFracSp _ _ _ _ _ _ _ => simp [dtOk] at h
  | timeFrac _ _ _ _ => simp [dtOk] at h

/-- an optional sign in front of a token that starts with a digit or a letter -/
theorem sign_step {B : Bytes → Prop} (s : Sign) {t : Bytes} {o : List FTok} (ht : LexStep B t o)
    (hd : HdIn (fun c => isDigit c || isIdStart c) t) :
    LexStep B (signText s ++ t) (flatTTs s.toks ++ o) := by
  have hd' : ∀ c, (isDigit c || isIdStart c) = true → isDigit c = true ∨ isIdStart c = true := by
    intro c hc; simpa using hc
  cases s with
  | none => simpa [signText, Sign.toks, flatTTs] using ht
  | plus =>
    have := LexStep.seq plus_step ht (HdIn_mono hd (fun c hc => (digit_punctFol c (hd' c hc)).2.2))
    simpa [signText, Sign.toks, flatTTs, flatTT, pc] using this
  | minus =>
    have := LexStep.seq dashp_step ht (HdIn_mono hd (fun c hc => (digit_punctFol c (hd' c hc)).1))
    simpa [signText, Sign.toks, flatTTs, flatTT, pc, dash] using this

theorem decOk_facts (ds : Bytes) (h : decOk ds = true) : ds ≠ [] ∧ ds.all isDigit = true ∧ HdIn isDigit ds := by
  simp only [decOk, Bool.and_eq_true, Bool.not_eq_true', List.isEmpty_eq_false_iff] at h
  exact ⟨h.1.1, h.1.2, all_hd ds (by simpa using h.1.1) h.1.2⟩

theorem fracOk_facts (body : Bytes) (h : fracOk body = true) :
    ∃ ip fp, body = ip ++ 0x2E :: fp ∧ decOk ip = true ∧ fp ≠ [] ∧ fp.all isDigit = true := by
  unfold fracOk at h
  cases hsp : spanP isDigit body with
  | mk ip r =>
    rw [hsp] at h
    obtain ⟨e, _⟩ := spanP_spec isDigit body ip r hsp
    cases r with
    | nil => simp at h
    | cons c fp =>
      by_cases hc : c = 0x2E
      · subst hc
        simp only [Bool.and_eq_true, Bool.not_eq_true', List.isEmpty_eq_false_iff] at h
        exact ⟨ip, fp, e, h.1.1, h.1.2, h.2⟩
      · exfalso
        revert h
        split
        · rename_i heq; injection heq with _ h2; injection h2 with h2 _; exact absurd h2 hc
        · simp

/-- **scalar values**: the lexer reads the text of a leaf as its tokens (before anything that may follow a value) -/
theorem leaf_step (a : MacroVal) (h : leafOk a = true) : LexStep (Hd valFol) (leafText a) (flatTTs a.toks) := by
  have wk : ∀ {q : Byte → Bool} {t : Bytes} {o : List FTok}, LexStep (Hd q) t o → (∀ c, valFol c = true → q c = true) →
      LexStep (Hd valFol) t o := fun hs hq => hs.weaken (fun r hr => Hd_mono hr hq)
  cases a with
  | int s body =>
    obtain ⟨hne, hd, hh⟩ := decOk_facts body h
    have h1 : LexStep (Hd valFol) body [.t (.num body [] false)] :=
      wk (num_step body body [] false hh (fun rest hr => lexNumber_int body rest hne hd hr)) (fun c hc => (valFol_facts c hc).2.2.2.1)
    have := sign_step s h1 (HdIn_mono hh (by intro c hc; simp [hc]))
    simpa [leafText, MacroVal.toks, flatTTs_append, flatTTs_tok] using this
  | float s body =>
    obtain ⟨ip, fp, e, hip, hfne, hf⟩ := fracOk_facts body h
    obtain ⟨hne, hd, hh⟩ := decOk_facts ip hip
    have hh' : HdIn isDigit body := by rw [e]; exact HdIn_append hh _
    have eb : body = ip ++ [0x2E] ++ fp := by rw [e]; simp
    have h1 : LexStep (Hd valFol) body [.t (.num body [] true)] :=
      wk (num_step body body [] true hh' (fun rest hr => by
        have := lexNumber_frac ip fp rest hne hd hf hfne hr
        simpa [e, List.append_assoc] using this)) (fun c hc => (valFol_facts c hc).2.2.2.2)
    have := sign_step s h1 (HdIn_mono hh' (by intro c hc; simp [hc]))
    simpa [leafText, MacroVal.toks, flatTTs_append, flatTTs_tok] using this
  | special s nan =>
    have h1 : LexStep (Hd valFol) (if nan then bNan else bInf) [.t (.ident (if nan then bNan else bInf))] :=
      wk (ident_step _ (by cases nan <;> decide)) (fun c hc => (valFol_facts c hc).2.1)
    have := sign_step s h1 (by cases nan <;> exact ⟨_, _, rfl, by decide⟩)
    simpa [leafText, MacroVal.toks, flatTTs_append, flatTTs_tok] using this
  | bool b =>
    have h1 : LexStep (Hd valFol) (if b then bTrue else bFalse) [.t (.ident (if b then bTrue else bFalse))] :=
      wk (ident_step _ (by cases b <;> decide)) (fun c hc => (valFol_facts c hc).2.1)
    simpa [leafText, MacroVal.toks, flatTTs_tok] using h1
  | str raw val =>
    have := wk (strTok_step raw val h).1 (fun c hc => (valFol_facts c hc).2.2.1)
    simpa [leafText, MacroVal.toks, flatTTs_tok] using this
  | chr raw val => simp [leafOk] at h
  | dt f =>
    have := wk (dt_step f h).1 (fun c hc => (valFol_facts c hc).1)
    simpa [leafText, MacroVal.toks] using this
  | arr items tr => simp [leafOk] at h

/-! ## arrays, inline tables, statements, documents -/

mutual
def valText : MTree → Bytes
  | .leaf a => leafText a
  | .arr items tr => 0x5B :: (itemsText items ++ ((if tr && !items.isEmpty then [0x2C] else []) ++ [0x5D]))
  | .tbl es _ => 0x7B :: (entriesText es ++ [0x7D])
/-- `v, v, v` -/
def itemsText : List MTree → Bytes
  | [] => []
  | a :: r => valText a ++ itemsSepText r
def itemsSepText : List MTree → Bytes
  | [] => []
  | a :: r => 0x2C :: 0x20 :: (valText a ++ itemsSepText r)
/-- `k = v, k = v` -/
def entriesText : List (MKey × MTree) → Bytes
  | [] => []
  | (k, a) :: r => keyText k ++ 0x20 :: 0x3D :: 0x20 :: (valText a ++ entriesSepText r)
def entriesSepText : List (MKey × MTree) → Bytes
  | [] => []
  | (k, a) :: r => 0x2C :: 0x20 :: (keyText k ++ 0x20 :: 0x3D :: 0x20 :: (valText a ++ entriesSepText r))
end

mutual
/-- lexical side conditions on a value: every leaf is one of the shared scalar spellings, every key of an inline
    table is a shared key, and an inline table has no trailing comma (TOML 1.0 forbids it, the macro accepts it) -/
def valOk : MTree → Bool
  | .leaf a => leafOk a
  | .arr items _ => itemsOk items
  | .tbl es tr => entriesOk es && (!tr || es.isEmpty)
def itemsOk : List MTree → Bool
  | [] => true
  | a :: r => valOk a && itemsOk r
def entriesOk : List (MKey × MTree) → Bool
  | [] => true
  | (k, a) :: r => keyOk k && valOk a && entriesOk r
end

mutual
/-- nesting depth as the parser counts it (each component of a dotted key but the last is one more table) -/
def mdepth : MTree → Nat
  | .leaf _ => 0
  | .arr items _ => 1 + mdepthL items
  | .tbl es _ => 1 + mdepthE es
def mdepthL : List MTree → Nat
  | [] => 0
  | a :: r => max (mdepth a) (mdepthL r)
def mdepthE : List (MKey × MTree) → Nat
  | [] => 0
  | (k, a) :: r => max (k.tail.length + mdepth a) (mdepthE r)
end

def stmtText : DStmt → Bytes
  | .kv k v => keyText k ++ 0x20 :: 0x3D :: 0x20 :: valText v
  | .std k => 0x5B :: (keyText k ++ [0x5D])
  | .arr k => 0x5B :: 0x5B :: (keyText k ++ [0x5D, 0x5D])

/-- **the canonical text** of a document of the modelled macro syntax: one statement per line -/
def textOf : List DStmt → Bytes
  | [] => []
  | s :: r => stmtText s ++ 0x0A :: textOf r

def stmtOk : DStmt → Bool
  | .kv k v => keyOk k && valOk v && decide (k.tail.length + mdepth v < Value.LIMIT)
  | .std k => keyOk k
  | .arr k => keyOk k

/-- the syntactic part of `TextOk` -/
def synOk (ds : List DStmt) : Bool := ds.all stmtOk

theorem itemsSepText_cons (b : MTree) (r : List MTree) : itemsSepText (b :: r) = 0x2C :: 0x20 :: itemsText (b :: r) := by
  simp [itemsSepText, itemsText]
theorem entriesSepText_cons (e : MKey × MTree) (r : List (MKey × MTree)) :
    entriesSepText (e :: r) = 0x2C :: 0x20 :: entriesText (e :: r) := by
  obtain ⟨k, a⟩ := e
  simp [entriesSepText, entriesText]

/-- ` = ` -/
theorem eq_step : LexStep (fun _ => True) [0x20, 0x3D, 0x20] [.t (.punct 0x3D)] := by
  have := LexStep.seqT sp_step (LexStep.seq (punct_step 0x3D (by decide)) sp_step ⟨0x20, [], rfl, by decide⟩)
  simpa using this

/-- `, ` -/
theorem commaSp_step : LexStep (fun _ => True) [0x2C, 0x20] [.t (.punct 0x2C)] := by
  have := LexStep.seqT comma_step sp_step
  simpa using this

/-- `key = value` -/
theorem entry_step (k : MKey) {t : Bytes} {o : List FTok} (hk : keyOk k = true) (ht : LexStep (Hd valFol) t o) :
    LexStep (Hd valFol) (keyText k ++ 0x20 :: 0x3D :: 0x20 :: t) (flatTTs k.toks ++ .t (.punct 0x3D) :: o) := by
  have h1 := (key_step k hk).1
  have h2 := LexStep.seqT eq_step ht
  have := LexStep.seq h1 h2 ⟨0x20, _, rfl, by decide⟩
  simpa using this

mutual
theorem val_step : ∀ v : MTree, valOk v = true → LexStep (Hd valFol) (valText v) (flatTTs v.toks)
  | .leaf a, h => by
    simp only [valOk] at h
    simpa [valText, MTree.toks] using leaf_step a h
  | .arr items tr, h => by
    simp only [valOk] at h
    have := group_step (B := Hd valFol) .bracket (items_step items h tr) (by decide)
    simpa [valText, MTree.toks, flatTTs_group, openByte, closeByte] using this
  | .tbl es tr, h => by
    simp only [valOk, Bool.and_eq_true, Bool.or_eq_true, Bool.not_eq_true', List.isEmpty_iff] at h
    have hj : joinC (chunksE es) tr = joinC (chunksE es) false := by
      rcases h.2 with rfl | rfl
      · rfl
      · simp [chunksE, joinC]
    have := group_step (B := Hd valFol) .brace (entries_step es h.1) (by decide)
    simpa [valText, MTree.toks, flatTTs_group, openByte, closeByte, hj] using this
theorem items_step : ∀ items : List MTree, itemsOk items = true → ∀ tr : Bool,
    LexStep (Hd valFol) (itemsText items ++ (if tr && !items.isEmpty then [0x2C] else []))
      (flatTTs (joinC (chunksT items) tr))
  | [], _, tr => by simpa [itemsText, chunksT, joinC, flatTTs] using LexStep.nil (Hd valFol)
  | [a], h, tr => by
    simp only [itemsOk, Bool.and_eq_true] at h
    have h1 := val_step a h.1
    cases tr with
    | false => simpa [itemsText, itemsSepText, chunksT, joinC] using h1
    | true =>
      have := LexStep.seq h1 (comma_step.anyB (B := Hd valFol)) ⟨0x2C, [], rfl, by decide⟩
      simpa [itemsText, itemsSepText, chunksT, joinC, flatTTs_append, flatTTs_tok, commaT, pc] using this
  | a :: b :: r, h, tr => by
    have h' : valOk a = true ∧ itemsOk (b :: r) = true := by
      have := h; simp only [itemsOk, Bool.and_eq_true] at this ⊢; exact ⟨this.1, this.2⟩
    have h1 := val_step a h'.1
    have h2 := items_step (b :: r) h'.2 tr
    have := LexStep.seq h1 (LexStep.seqT commaSp_step h2) ⟨0x2C, _, rfl, by decide⟩
    have e : itemsText (a :: b :: r) = valText a ++ 0x2C :: 0x20 :: itemsText (b :: r) := by
      rw [itemsText, itemsSepText_cons]
    rw [e]
    simpa [chunksT, joinC, flatTTs_append, flatTTs, flatTT, commaT, pc] using this
theorem entries_step : ∀ es : List (MKey × MTree), entriesOk es = true →
    LexStep (Hd valFol) (entriesText es) (flatTTs (joinC (chunksE es) false))
  | [], _ => by simpa [entriesText, chunksE, joinC, flatTTs] using LexStep.nil (Hd valFol)
  | [(k, a)], h => by
    simp only [entriesOk, Bool.and_eq_true] at h
    have := entry_step k h.1.1 (val_step a h.1.2)
    simpa [entriesText, entriesSepText, chunksE, joinC, flatTTs_append, flatTTs, flatTT, eqT, pc] using this
  | (k, a) :: e2 :: r, h => by
    have h' : (keyOk k = true ∧ valOk a = true) ∧ entriesOk (e2 :: r) = true := by
      have := h; simp only [entriesOk, Bool.and_eq_true] at this ⊢; exact this
    have h1 := val_step a h'.1.2
    have h2 := entries_step (e2 :: r) h'.2
    have h3 := LexStep.seq h1 (LexStep.seqT commaSp_step h2) ⟨0x2C, _, rfl, by decide⟩
    have := entry_step k h'.1.1 h3
    have e : entriesText ((k, a) :: e2 :: r) =
        keyText k ++ 0x20 :: 0x3D :: 0x20 :: (valText a ++ 0x2C :: 0x20 :: entriesText (e2 :: r)) := by
      rw [entriesText, entriesSepText_cons]
    rw [e]
    obtain ⟨k2, a2⟩ := e2
    simpa [chunksE, joinC, flatTTs_append, flatTTs, flatTT, commaT, eqT, pc] using this
end

theorem stmt_step (s : DStmt) (h : stmtOk s = true) : LexStep (Hd valFol) (stmtText s) (flatTTs s.toks) := by
  cases s with
  | kv k v =>
    simp only [stmtOk, Bool.and_eq_true] at h
    have := entry_step k h.1.1 (val_step v h.1.2)
    simpa [stmtText, DStmt.toks, flatTTs_append, flatTTs, flatTT, eqT, pc] using this
  | std k =>
    simp only [stmtOk] at h
    have := group_step (B := Hd valFol) .bracket (key_step k h).1 (by decide)
    simpa [stmtText, DStmt.toks, flatTTs_group, openByte, closeByte] using this
  | arr k =>
    simp only [stmtOk] at h
    have h1 := group_step (B := Hd (fun c => c == 0x5D)) .bracket (key_step k h).1 (by decide)
    have := group_step (B := Hd valFol) .bracket h1 (by decide)
    simpa [stmtText, DStmt.toks, flatTTs_group, openByte, closeByte] using this

theorem doc_step (ds : List DStmt) (h : synOk ds = true) :
    LexStep (fun _ => True) (textOf ds) (flatTTs (spellDoc ds)) := by
  induction ds with
  | nil => exact LexStep.nil _
  | cons s r ih =>
    simp only [synOk, List.all_cons, Bool.and_eq_true] at h
    have := LexStep.seq (stmt_step s h.1) (LexStep.seqT nl_step (ih h.2)) ⟨0x0A, _, rfl, by decide⟩
    simpa [textOf, spellDoc, flatTTs_append] using this

/-- **the lexer reads the canonical text as the spelling of the document** -/
theorem tokens_textOf (ds : List DStmt) (h : synOk ds = true) : tokens (textOf ds) = some (spellDoc ds) :=
  tokens_of_lex _ _ (lex_of_step (doc_step ds h) trivial)

end TomlVerif.Lemmas.Macro19c
