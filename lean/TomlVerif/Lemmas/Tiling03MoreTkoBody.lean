import TomlVerif.Lemmas.Tiling03MoreTkoTree
/-! C03, same data with `[t]` taking over an implicit table — the current table may hold
    sub-tables besides its body: `MixOk`, and a key/value line on such a table (`kv_descendM`). -/
namespace TomlVerif.Lemmas.Tiling03More.Tko
open TomlVerif TomlVerif.Spec TomlVerif.Model TomlVerif.Model.Strings TomlVerif.Model.Value
open TomlVerif.Model.Cst TomlVerif.Model.Encode TomlVerif.Lemmas.Suffix03 TomlVerif.Lemmas.Cst03
open TomlVerif.Lemmas.LastByte03 TomlVerif.Lemmas.Tiling03 TomlVerif.Lemmas.Tiling03Hdr
open TomlVerif.Lemmas.Tiling03Nest TomlVerif.Lemmas.Tiling03More.VS

/-- the items of a current table: values that are not dotted inline tables; every dotted-key table
    is a body with grammatical keys; non-dotted sub-tables and arrays of tables are unrestricted -/
def MixOk (inp : Bytes) (items : Items) : Prop :=
  (∀ k v, (k, CItem.value v) ∈ items → undotted v = true) ∧
  (∀ k t, (k, CItem.table t) ∈ items → t.dotted = true → GKey inp k ∧ bodyOkU t.items = true ∧ bodyG inp t.items)

theorem mixOk_nil (inp : Bytes) : MixOk inp [] := ⟨fun _ _ h => by simp at h, fun _ _ h => by simp at h⟩

theorem mixOk_onlySubs (inp : Bytes) (items : Items) (h : onlySubs items = true) : MixOk inp items := by
  unfold onlySubs at h
  rw [List.all_eq_true] at h
  refine ⟨fun k v hm => ?_, fun k t hm hd => ?_⟩
  · have := h _ hm; simp at this
  · have := h _ hm; simp only [Bool.not_eq_true'] at this; rw [hd] at this; cases this

theorem valuesTbl_onlySubs : ∀ (items : Items) (P : List CKey), onlySubs items = true → valuesTbl items P = []
  | [], _, _ => rfl
  | (k, .value v) :: r, P, h => by simp [onlySubs] at h
  | (k, .aot ts sp) :: r, P, h => by
    have hr : onlySubs r = true := by simp only [onlySubs, List.all_cons, Bool.and_eq_true] at h ⊢; exact h.2
    have := valuesTbl_append [(k, CItem.aot ts sp)] r P
    simp only [List.singleton_append] at this
    rw [this, valuesTbl_onlySubs r P hr]; simp [valuesTbl]
  | (k, .table t) :: r, P, h => by
    have hr : onlySubs r = true := by simp only [onlySubs, List.all_cons, Bool.and_eq_true] at h ⊢; exact h.2
    have ht : t.dotted = false := by simp only [onlySubs, List.all_cons, Bool.and_eq_true, Bool.not_eq_true'] at h; exact h.1
    have := valuesTbl_mid_table [] r k t ht P
    simp only [List.nil_append] at this
    rw [this, valuesTbl_onlySubs r P hr]; simp [valuesTbl]

theorem mixOk_snoc_value (inp : Bytes) (items : Items) (k : CKey) (v : CVal) (h : MixOk inp items) (hv : undotted v = true) :
    MixOk inp (items ++ [(k, .value v)]) := by
  refine ⟨fun k' v' hm => ?_, fun k' t hm hd => ?_⟩
  · rcases List.mem_append.1 hm with hm | hm
    · exact h.1 k' v' hm
    · simp only [List.mem_singleton, Prod.mk.injEq, CItem.value.injEq] at hm; rw [hm.2]; exact hv
  · rcases List.mem_append.1 hm with hm | hm
    · exact h.2 k' t hm hd
    · simp at hm

theorem mixOk_snoc_table (inp : Bytes) (init : Items) (k : CKey) (c : CTbl)
    (hi : MixOk inp init) (hc : GKey inp k ∧ bodyOkU c.items = true ∧ bodyG inp c.items) :
    MixOk inp (init ++ [(k, .table c)]) := by
  refine ⟨fun k' v' hm => ?_, fun k' t hm hd => ?_⟩
  · rcases List.mem_append.1 hm with hm | hm
    · exact hi.1 k' v' hm
    · simp at hm
  · rcases List.mem_append.1 hm with hm | hm
    · exact hi.2 k' t hm hd
    · simp only [List.mem_singleton, Prod.mk.injEq, CItem.table.injEq] at hm
      rw [hm.1, hm.2]; exact hc

theorem mixOk_init (inp : Bytes) (init : Items) (x : CKey × CItem) (h : MixOk inp (init ++ [x])) : MixOk inp init :=
  ⟨fun k v hm => h.1 k v (List.mem_append_left _ hm), fun k t hm hd => h.2 k t (List.mem_append_left _ hm) hd⟩

theorem gk_single_value (inp : Bytes) (k : CKey) (v : CVal) : gkItems inp [(k, .value v)] := by
  intro x hx; simp [hkItems] at hx

theorem nsTbl_body (f : Bytes → Bytes) (inp : Bytes) (c : CTbl) (hd : c.dotted = true) (hb : bodyOkU c.items = true)
    (X : List CKey) (a : Bool) : nsTbl f inp c X a = [] :=
  bodyTblU_ns f inp c (by rw [bodyTblU_eq, hd, hb]; rfl) X a

/-- a key/value line on a current table that may hold sub-tables -/
theorem kv_descendM (inp : Bytes) (g : CTbl → Option CTbl) (key' : CKey) (v : CVal)
    (hv : undotted v = true)
    (hg : ∀ p p', g p = some p' → p' = p.setItems (p.items ++ [(key', .value v)]))
    (path : List CKey) (t c : CTbl) (hok : dottedOkA t path = true) (hm : MixOk inp t.items)
    (hpath : ∀ k ∈ path, GKey inp k) (hd : descend t path true g = some c) :
    c = t.setItems c.items ∧ MixOk inp c.items ∧ (∀ f X, nsItems f inp c.items X = nsItems f inp t.items X) ∧
    (gkItems inp t.items → gkItems inp c.items) ∧
    ∃ X, valuesTbl c.items [] = valuesTbl t.items [] ++ [(X ++ [key'], v)] ∧
      keysOf X = keysOf path ∧ ∀ k ∈ X, GKey inp k := by
  cases path with
  | nil =>
    rw [descend_nil] at hd
    have e := hg _ _ hd
    subst e
    refine ⟨by simp, ?_, ?_, ?_, [], ?_, rfl, fun k hk => by cases hk⟩
    · rw [setItems_items]; exact mixOk_snoc_value inp _ _ _ hm hv
    · intro f X; rw [setItems_items, nsItems_append]; simp [nsItems]
    · intro hgk; rw [setItems_items]; exact (gkItems_append inp _ _).2 ⟨hgk, gk_single_value inp _ _⟩
    · rw [setItems_items, valuesTbl_append, valuesTbl_value_atU key' v hv]
  | cons k ks =>
    have hk : GKey inp k := hpath k (by simp)
    have hks : ∀ x ∈ ks, GKey inp x := fun x hx => hpath x (List.mem_cons_of_mem _ hx)
    obtain ⟨x, ec, hx⟩ := descend_cons_shape _ _ _ _ _ _ hd
    simp only [dottedOkA] at hok
    cases hl : clookup k.key t.items with
    | none =>
      rw [hl] at hx
      simp only [Option.getD_none] at hx
      rcases hx with ⟨sub, sub', e1, hd', e2⟩ | ⟨_, _, _, _, e1, _⟩
      · injection e1 with e1
        subst e1; subst e2
        obtain ⟨i1, i2, i2g, X, i3, i4, i5⟩ := kv_descendA inp g key' v hv hg ks (newImplicit true) _ [k]
          (dottedOkA_empty _ rfl ks) rfl (bodyG_nil inp) hks hd'
        have hsd : sub'.dotted = true := by rw [setItems_eq_dotted _ _ i1]; rfl
        rw [cset_none _ _ _ hl] at ec
        subst ec
        refine ⟨by simp, ?_, ?_, ?_, k :: X, ?_, ?_, ?_⟩
        · rw [setItems_items]; exact mixOk_snoc_table inp _ _ _ hm ⟨hk, i2, i2g⟩
        · intro f Y; rw [setItems_items, nsItems_append]
          simp only [nsItems, List.append_nil]
          rw [nsTbl_body f inp sub' hsd i2]; simp
        · intro hgk; rw [setItems_items]
          exact (gk_mid_table inp t.items [] k sub').2 ⟨hgk, Or.inl hsd, gk_nil inp⟩
        · rw [setItems_items, valuesTbl_snoc_dotted _ _ _ hsd, List.nil_append, i3]
          simp [newImplicit, CTbl.items, valuesTbl]
        · simp only [keysOf, List.map_cons] at i4 ⊢; rw [i4]
        · intro y hy
          rcases List.mem_cons.1 hy with hy | hy
          · subst hy; exact hk
          · exact i5 y hy
      · cases e1
    | some y =>
      rw [hl] at hok hx
      simp only [Option.getD_some] at hx hok
      split at hok
      · rename_i init k' sub hle
        obtain ⟨e1, e2, e3, e4⟩ := lastEntry_some _ _ _ _ _ hle
        simp only [Bool.and_eq_true] at hok
        obtain ⟨hsubd, hok2⟩ := hok
        rw [hl] at e4
        injection e4 with e4
        subst e4
        rcases hx with ⟨sub0, sub', e5, hd', e6⟩ | ⟨_, _, _, _, e5, _⟩
        · injection e5 with e5
          subst e5; subst e6
          obtain ⟨g2, hbs, g3⟩ := hm.2 k' sub (by rw [e1]; simp) hsubd
          obtain ⟨i1, i2, i2g, X, i3, i4, i5⟩ := kv_descendA inp g key' v hv hg ks sub _ [k'] hok2 hbs g3 hks hd'
          have hsd : sub'.dotted = true := by rw [setItems_eq_dotted _ _ i1]; exact hsubd
          have hcs : cset k (.table sub') t.items = init ++ [(k', .table sub')] := by
            rw [e1]; exact cset_last _ _ _ _ _ e2 e3
          rw [hcs] at ec
          subst ec
          have hmi : MixOk inp init := mixOk_init inp init _ (e1 ▸ hm)
          refine ⟨by simp, ?_, ?_, ?_, k' :: X, ?_, ?_, ?_⟩
          · rw [setItems_items]; exact mixOk_snoc_table inp _ _ _ hmi ⟨g2, i2, i2g⟩
          · intro f Y; rw [setItems_items, e1, nsItems_append, nsItems_append]
            simp only [nsItems, List.append_nil]
            rw [nsTbl_body f inp sub' hsd i2, nsTbl_body f inp sub hsubd hbs]
          · intro hgk; rw [setItems_items]
            rw [e1] at hgk
            obtain ⟨q1, _, _⟩ := (gk_mid_table inp init [] k' sub).1 hgk
            exact (gk_mid_table inp init [] k' sub').2 ⟨q1, Or.inl hsd, gk_nil inp⟩
          · rw [setItems_items, valuesTbl_snoc_dotted _ _ _ hsd, List.nil_append, i3, e1, valuesTbl_snoc_dotted _ _ _ hsubd, List.nil_append]
            simp [List.append_assoc]
          · simp only [keysOf, List.map_cons] at i4 ⊢; rw [i4, beq_key_eq e2]
          · intro y hy
            rcases List.mem_cons.1 hy with hy | hy
            · subst hy; exact g2
            · exact i5 y hy
        · cases e5
      · cases hok

end TomlVerif.Lemmas.Tiling03More.Tko
