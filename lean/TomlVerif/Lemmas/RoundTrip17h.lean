import TomlVerif.Lemmas.RoundTrip17g
/-! C17, fixed point for `preserve_order`: serializing the tree in document order (`docTbl` of the normalised tree)
    lists the same statements as serializing the tree.

    `normTV` is idempotent (`nrm_normTV`, `normTV_of_nrm`); on a normalised table `s` the three passes applied to
    its document order, `W s = serOrder (normTVPs (docTbl s))`, keep the own values (`ownValues_W`) and the
    sequence of sections (`subsOf_W`) — only arrays of tables move in front of / behind mixed arrays inside the
    second pass, and those are printed in different places anyway —, so `emitDoc (W s) = emitDoc s` (`emitDoc_fix`). -/
namespace TomlVerif.Lemmas.RoundTrip17
open TomlVerif TomlVerif.Model TomlVerif.Model.TomlValue TomlVerif.Model.DeRoutes
open TomlVerif.Lemmas.TomlValue17 (pass_exactly_one)

/-! ## the three passes as list algebra -/

theorem filter_serOrder (q : Bytes × TV → Bool) (l : List (Bytes × TV)) :
    (serOrder l).filter q = serOrder (l.filter q) := by
  simp only [serOrder, List.filter_append, List.filter_filter, Bool.and_comm]

theorem filter_excl {α : Type} (p q : α → Bool) (h : ∀ a, p a = true → q a = false) (l : List α) :
    (l.filter p).filter q = [] := by
  rw [List.filter_filter, List.filter_eq_nil_iff]
  intro a _
  cases hp : p a
  · simp
  · simp [h a hp]

theorem filter_idem {α : Type} (p : α → Bool) (l : List α) : (l.filter p).filter p = l.filter p := by
  rw [List.filter_filter]; simp

theorem serOrder_idem (l : List (Bytes × TV)) : serOrder (serOrder l) = serOrder l := by
  have e12 : ∀ a : Bytes × TV, pass1 a.2 = true → pass2 a.2 = false := fun a h => by
    rcases pass_exactly_one a.2 with ⟨_, c, _⟩ | ⟨c, _, _⟩ | ⟨c, _, _⟩ <;> simp_all
  have e13 : ∀ a : Bytes × TV, pass1 a.2 = true → pass3 a.2 = false := fun a h => by
    rcases pass_exactly_one a.2 with ⟨_, _, c⟩ | ⟨c, _, _⟩ | ⟨c, _, _⟩ <;> simp_all
  have e21 : ∀ a : Bytes × TV, pass2 a.2 = true → pass1 a.2 = false := fun a h => by
    rcases pass_exactly_one a.2 with ⟨_, c, _⟩ | ⟨c, _, _⟩ | ⟨_, c, _⟩ <;> simp_all
  have e23 : ∀ a : Bytes × TV, pass2 a.2 = true → pass3 a.2 = false := fun a h => by
    rcases pass_exactly_one a.2 with ⟨_, c, _⟩ | ⟨_, _, c⟩ | ⟨_, c, _⟩ <;> simp_all
  have e31 : ∀ a : Bytes × TV, pass3 a.2 = true → pass1 a.2 = false := fun a h => by
    rcases pass_exactly_one a.2 with ⟨_, _, c⟩ | ⟨c, _, _⟩ | ⟨c, _, _⟩ <;> simp_all
  have e32 : ∀ a : Bytes × TV, pass3 a.2 = true → pass2 a.2 = false := fun a h => by
    rcases pass_exactly_one a.2 with ⟨_, _, c⟩ | ⟨_, _, c⟩ | ⟨_, c, _⟩ <;> simp_all
  conv => lhs; unfold serOrder
  simp only [serOrder, List.filter_append, filter_idem,
    filter_excl _ _ e12, filter_excl _ _ e13, filter_excl _ _ e21, filter_excl _ _ e23, filter_excl _ _ e31,
    filter_excl _ _ e32, List.append_nil, List.nil_append]

/-- a map on the values that keeps the pass of every value commutes with `serOrder` -/
theorem serOrder_map (g : TV → TV) (h1 : ∀ v, pass1 (g v) = pass1 v) (h2 : ∀ v, pass2 (g v) = pass2 v)
    (h3 : ∀ v, pass3 (g v) = pass3 v) (l : List (Bytes × TV)) :
    serOrder (l.map fun e => (e.1, g e.2)) = (serOrder l).map fun e => (e.1, g e.2) := by
  have c1 : ((fun e : Bytes × TV => pass1 e.2) ∘ fun e : Bytes × TV => (e.1, g e.2)) = fun e => pass1 e.2 := by
    funext e; simp [h1]
  have c2 : ((fun e : Bytes × TV => pass2 e.2) ∘ fun e : Bytes × TV => (e.1, g e.2)) = fun e => pass2 e.2 := by
    funext e; simp [h2]
  have c3 : ((fun e : Bytes × TV => pass3 e.2) ∘ fun e : Bytes × TV => (e.1, g e.2)) = fun e => pass3 e.2 := by
    funext e; simp [h3]
  simp only [serOrder, List.filter_map, List.map_append, c1, c2, c3]

theorem serOrder_length (l : List (Bytes × TV)) : (serOrder l).length = l.length :=
  (TomlVerif.Lemmas.TomlValue17.filter3_perm _ _ _ (fun e => pass_exactly_one e.2) l).length_eq

/-- a map on the values that keeps the kind of every value commutes with the selection by kind -/
theorem filter_kind_map (g : TV → TV) (hg : ∀ v, kindOf (g v) = kindOf v) (q : Kind → Bool) (l : List (Bytes × TV)) :
    (l.map fun e => (e.1, g e.2)).filter (fun e => q (kindOf e.2)) =
      (l.filter fun e => q (kindOf e.2)).map fun e => (e.1, g e.2) := by
  rw [List.filter_map]
  congr 1
  apply List.filter_congr
  intro e _
  simp [hg]

/-! ## `normTV` keeps kinds and passes -/

theorem isTable_normTV (v : TV) : (normTV v).isTable = v.isTable := by
  cases v <;> simp [normTV, TV.isTable]

theorem normTVs_eq_map (l : List TV) : normTVs l = l.map normTV := by
  induction l with
  | nil => rfl
  | cons x r ih => simp [normTVs, ih]

theorem normTVPs_eq_map (l : List (Bytes × TV)) : normTVPs l = l.map fun e => (e.1, normTV e.2) := by
  induction l with
  | nil => rfl
  | cons x r ih => obtain ⟨k, v⟩ := x; simp [normTVPs, ih]

theorem any_normTVs (l : List TV) : (normTVs l).any TV.isTable = l.any TV.isTable := by
  induction l with
  | nil => rfl
  | cons x r ih => simp [normTVs, isTable_normTV, ih]

theorem all_normTVs (l : List TV) : (normTVs l).all TV.isTable = l.all TV.isTable := by
  induction l with
  | nil => rfl
  | cons x r ih => simp [normTVs, isTable_normTV, ih]

theorem isAotList_normTVs (l : List TV) : isAotList (normTVs l) = isAotList l := by
  unfold isAotList
  rw [all_normTVs]
  cases l <;> simp [normTVs]

theorem kindOf_normTV (v : TV) : kindOf (normTV v) = kindOf v := by
  cases v <;> simp [normTV, kindOf, isAotList_normTVs]

theorem pass1_normTV (v : TV) : pass1 (normTV v) = pass1 v := by
  cases v <;> simp [normTV, pass1, TV.isTable, TV.isArray, TV.arrayHasTable, any_normTVs]

theorem pass2_normTV (v : TV) : pass2 (normTV v) = pass2 v := by
  cases v <;> simp [normTV, pass2, TV.arrayHasTable, any_normTVs]

theorem pass3_normTV (v : TV) : pass3 (normTV v) = pass3 v := by
  cases v <;> simp [normTV, pass3, TV.isTable]

theorem serOrder_normTVPs (l : List (Bytes × TV)) : serOrder (normTVPs l) = normTVPs (serOrder l) := by
  rw [normTVPs_eq_map, normTVPs_eq_map]
  exact serOrder_map normTV pass1_normTV pass2_normTV pass3_normTV l

/-! ## normalised trees: the fixed points of `normTV` -/

mutual
/-- every table of the tree is in the order of the three passes -/
def NrmV : TV → Prop
  | .arr l => NrmVs l
  | .tbl items => NrmPs items ∧ serOrder items = items
  | _ => True
def NrmVs : List TV → Prop
  | [] => True
  | v :: r => NrmV v ∧ NrmVs r
def NrmPs : List (Bytes × TV) → Prop
  | [] => True
  | (_, v) :: r => NrmV v ∧ NrmPs r
end

theorem nrmPs_iff (l : List (Bytes × TV)) : NrmPs l ↔ ∀ e ∈ l, NrmV e.2 := by
  induction l with
  | nil => simp [NrmPs]
  | cons x r ih => obtain ⟨k, v⟩ := x; simp [NrmPs, ih]

mutual
theorem nrm_normTV : ∀ v : TV, NrmV (normTV v)
  | .str _ => by simp [normTV, NrmV]
  | .int _ => by simp [normTV, NrmV]
  | .float _ => by simp [normTV, NrmV]
  | .bool _ => by simp [normTV, NrmV]
  | .dt _ => by simp [normTV, NrmV]
  | .arr l => by rw [normTV, NrmV]; exact nrm_normTVs l
  | .tbl items => by
    rw [normTV, NrmV]
    refine ⟨?_, serOrder_idem _⟩
    rw [nrmPs_iff]
    intro e he
    exact (nrmPs_iff _).1 (nrm_normTVPs items) e ((mem_serOrder _ e).1 he)
theorem nrm_normTVs : ∀ l : List TV, NrmVs (normTVs l)
  | [] => by simp [normTVs, NrmVs]
  | v :: r => by rw [normTVs, NrmVs]; exact ⟨nrm_normTV v, nrm_normTVs r⟩
theorem nrm_normTVPs : ∀ l : List (Bytes × TV), NrmPs (normTVPs l)
  | [] => by simp [normTVPs, NrmPs]
  | (k, v) :: r => by rw [normTVPs, NrmPs]; exact ⟨nrm_normTV v, nrm_normTVPs r⟩
end

mutual
theorem normTV_of_nrm : ∀ v : TV, NrmV v → normTV v = v
  | .str _, _ => by simp [normTV]
  | .int _, _ => by simp [normTV]
  | .float _, _ => by simp [normTV]
  | .bool _, _ => by simp [normTV]
  | .dt _, _ => by simp [normTV]
  | .arr l, h => by rw [NrmV] at h; rw [normTV, normTVs_of_nrm l h]
  | .tbl items, h => by rw [NrmV] at h; rw [normTV, normTVPs_of_nrm items h.1, h.2]
theorem normTVs_of_nrm : ∀ l : List TV, NrmVs l → normTVs l = l
  | [], _ => by simp [normTVs]
  | v :: r, h => by rw [NrmVs] at h; rw [normTVs, normTV_of_nrm v h.1, normTVs_of_nrm r h.2]
theorem normTVPs_of_nrm : ∀ l : List (Bytes × TV), NrmPs l → normTVPs l = l
  | [], _ => by simp [normTVPs]
  | (k, v) :: r, h => by rw [NrmPs] at h; rw [normTVPs, normTV_of_nrm v h.1, normTVPs_of_nrm r h.2]
end

/-- **`normTV` is idempotent** -/
theorem normTV_idem (v : TV) : normTV (normTV v) = normTV v := normTV_of_nrm _ (nrm_normTV v)

/-! ## the document order, entry by entry -/

/-- what the document order makes of one entry of a table -/
def docV : TV → TV
  | .tbl s => .tbl (docTbl s)
  | .arr l => if isAotList l then .arr (docAot l) else .arr l
  | v => v

theorem docAot_tables : ∀ l : List TV, (∀ v ∈ l, v.isTable = true) →
    (∀ v ∈ docAot l, v.isTable = true) ∧ (docAot l).length = l.length
  | [], _ => by simp [docAot]
  | .tbl items :: r, h => by
    obtain ⟨h1, h2⟩ := docAot_tables r fun v hv => h v (List.mem_cons_of_mem _ hv)
    rw [docAot]
    refine ⟨?_, by simp [h2]⟩
    intro v hv
    rcases List.mem_cons.1 hv with hv | hv
    · subst hv; rfl
    · exact h1 v hv
  | .str _ :: r, h => by have := h _ (List.mem_cons_self ..); simp [TV.isTable] at this
  | .int _ :: r, h => by have := h _ (List.mem_cons_self ..); simp [TV.isTable] at this
  | .float _ :: r, h => by have := h _ (List.mem_cons_self ..); simp [TV.isTable] at this
  | .bool _ :: r, h => by have := h _ (List.mem_cons_self ..); simp [TV.isTable] at this
  | .dt _ :: r, h => by have := h _ (List.mem_cons_self ..); simp [TV.isTable] at this
  | .arr _ :: r, h => by have := h _ (List.mem_cons_self ..); simp [TV.isTable] at this

theorem isAotList_iff (l : List TV) : isAotList l = true ↔ l ≠ [] ∧ ∀ v ∈ l, v.isTable = true := by
  unfold isAotList
  cases l <;> simp

theorem isAotList_docAot (l : List TV) (h : isAotList l = true) : isAotList (docAot l) = true := by
  rw [isAotList_iff] at h ⊢
  obtain ⟨h1, h2⟩ := docAot_tables l h.2
  refine ⟨?_, h1⟩
  intro e
  rw [e] at h2
  cases l with
  | nil => exact h.1 rfl
  | cons _ _ => simp at h2

theorem isAotList_any (l : List TV) (h : isAotList l = true) : l.any TV.isTable = true := by
  rw [isAotList_iff] at h
  cases l with
  | nil => exact absurd rfl h.1
  | cons x r => simp [h.2 x (List.mem_cons_self ..)]

theorem kindOf_docV (v : TV) : kindOf (docV v) = kindOf v := by
  cases v with
  | arr l =>
    cases h : isAotList l
    · simp [docV, kindOf, h]
    · simp [docV, kindOf, h, isAotList_docAot l h]
  | _ => simp [docV, kindOf]

theorem any_docV (l : List TV) (h : isAotList l = true) : (docAot l).any TV.isTable = l.any TV.isTable := by
  rw [isAotList_any l h, isAotList_any _ (isAotList_docAot l h)]

theorem pass1_docV (v : TV) : pass1 (docV v) = pass1 v := by
  cases v with
  | arr l =>
    cases h : isAotList l
    · simp [docV, h]
    · simp [docV, h, pass1, TV.isTable, TV.isArray, TV.arrayHasTable, any_docV l h]
  | _ => simp [docV, pass1, TV.isTable, TV.isArray, TV.arrayHasTable]

theorem pass2_docV (v : TV) : pass2 (docV v) = pass2 v := by
  cases v with
  | arr l =>
    cases h : isAotList l
    · simp [docV, h]
    · simp [docV, h, pass2, TV.arrayHasTable, any_docV l h]
  | _ => simp [docV, pass2, TV.arrayHasTable]

theorem pass3_docV (v : TV) : pass3 (docV v) = pass3 v := by
  cases v with
  | arr l => cases h : isAotList l <;> simp [docV, h, pass3, TV.isTable]
  | _ => simp [docV, pass3, TV.isTable]

theorem docSubs_eq_map : ∀ items : List (Bytes × TV),
    docSubs items = (subsOf items).map fun e => (e.1, docV e.2)
  | [] => by simp [docSubs, subsOf]
  | (k, v) :: r => by
    rw [docSubs, docSubs_eq_map r]
    cases hv : kindOf v == .value
    · have e : subsOf ((k, v) :: r) = (k, v) :: subsOf r := by simp [subsOf, hv]
      rw [e]
      cases v with
      | tbl s => simp [docItem, docV, docTbl]
      | arr l =>
        have ha : isAotList l = true := by
          cases ha : isAotList l
          · simp [kindOf, ha] at hv
          · rfl
        simp [docItem, docV, ha]
      | _ => simp [kindOf] at hv
    · have e : subsOf ((k, v) :: r) = subsOf r := by simp [subsOf, hv]
      rw [e, docItem_value k v hv]
      rfl

/-- the entry after the document order and the three passes -/
def reV (v : TV) : TV := normTV (docV v)

theorem kindOf_reV (v : TV) : kindOf (reV v) = kindOf v := by rw [reV, kindOf_normTV, kindOf_docV]
theorem pass1_reV (v : TV) : pass1 (reV v) = pass1 v := by rw [reV, pass1_normTV, pass1_docV]
theorem pass2_reV (v : TV) : pass2 (reV v) = pass2 v := by rw [reV, pass2_normTV, pass2_docV]
theorem pass3_reV (v : TV) : pass3 (reV v) = pass3 v := by rw [reV, pass3_normTV, pass3_docV]

/-- a table's entries after the document order and the three passes -/
def reTbl (s : List (Bytes × TV)) : List (Bytes × TV) := serOrder (normTVPs (docTbl s))

theorem ownValues_map (g : TV → TV) (hg : ∀ v, kindOf (g v) = kindOf v) (l : List (Bytes × TV)) :
    ownValues (l.map fun e => (e.1, g e.2)) = (ownValues l).map fun e => (e.1, g e.2) :=
  filter_kind_map g hg (fun k => k == Kind.value) l

theorem subsOf_map (g : TV → TV) (hg : ∀ v, kindOf (g v) = kindOf v) (l : List (Bytes × TV)) :
    subsOf (l.map fun e => (e.1, g e.2)) = (subsOf l).map fun e => (e.1, g e.2) :=
  filter_kind_map g hg (fun k => !(k == Kind.value)) l

theorem ownValues_serOrder (l : List (Bytes × TV)) : ownValues (serOrder l) = serOrder (ownValues l) :=
  filter_serOrder _ l

theorem subsOf_serOrder (l : List (Bytes × TV)) : subsOf (serOrder l) = serOrder (subsOf l) :=
  filter_serOrder _ l

theorem ownValues_append (a b : List (Bytes × TV)) : ownValues (a ++ b) = ownValues a ++ ownValues b :=
  List.filter_append a b

theorem subsOf_append (a b : List (Bytes × TV)) : subsOf (a ++ b) = subsOf a ++ subsOf b :=
  List.filter_append a b

theorem ownValues_subsOf (l : List (Bytes × TV)) : ownValues (subsOf l) = [] := by
  unfold ownValues subsOf
  apply filter_excl
  intro a h
  simpa using h

theorem subsOf_ownValues (l : List (Bytes × TV)) : subsOf (ownValues l) = [] := by
  unfold ownValues subsOf
  apply filter_excl
  intro a h
  simpa using h

theorem ownValues_ownValues (l : List (Bytes × TV)) : ownValues (ownValues l) = ownValues l := filter_idem _ l
theorem subsOf_subsOf (l : List (Bytes × TV)) : subsOf (subsOf l) = subsOf l := filter_idem _ l

theorem ownValues_docTbl (s : List (Bytes × TV)) : ownValues (docTbl s) = ownValues s := by
  rw [docTbl, docSubs_eq_map, ownValues_append, ownValues_map docV kindOf_docV, ownValues_subsOf, ownValues_ownValues]
  simp

theorem subsOf_docTbl (s : List (Bytes × TV)) : subsOf (docTbl s) = docSubs s := by
  rw [docTbl, docSubs_eq_map, subsOf_append, subsOf_map docV kindOf_docV, subsOf_ownValues, subsOf_subsOf]
  simp

theorem ownValues_reTbl (s : List (Bytes × TV)) (hn : NrmPs s) (hs : serOrder s = s) :
    ownValues (reTbl s) = ownValues s := by
  have h1 : ownValues (reTbl s) = serOrder (normTVPs (ownValues (docTbl s))) := by
    unfold reTbl
    rw [ownValues_serOrder, normTVPs_eq_map, ownValues_map normTV kindOf_normTV, ← normTVPs_eq_map]
  rw [h1, ownValues_docTbl]
  have h2 : normTVPs (ownValues s) = ownValues s := by
    apply normTVPs_of_nrm
    rw [nrmPs_iff]
    intro e he
    exact (nrmPs_iff s).1 hn e (mem_ownValues s e he)
  rw [h2, ← ownValues_serOrder, hs]

theorem subsOf_reTbl (s : List (Bytes × TV)) (hs : serOrder s = s) :
    subsOf (reTbl s) = (subsOf s).map fun e => (e.1, reV e.2) := by
  have h1 : subsOf (reTbl s) = serOrder (normTVPs (subsOf (docTbl s))) := by
    unfold reTbl
    rw [subsOf_serOrder, normTVPs_eq_map, subsOf_map normTV kindOf_normTV, ← normTVPs_eq_map]
  rw [h1, subsOf_docTbl, docSubs_eq_map, normTVPs_eq_map, List.map_map]
  have h2 : ((fun e : Bytes × TV => (e.1, normTV e.2)) ∘ fun e : Bytes × TV => (e.1, docV e.2)) =
      fun e => (e.1, reV e.2) := by funext e; rfl
  rw [h2, serOrder_map reV pass1_reV pass2_reV pass3_reV, ← subsOf_serOrder, hs]

theorem length_reTbl (s : List (Bytes × TV)) : (reTbl s).length = s.length := by
  unfold reTbl
  rw [serOrder_length, normTVPs_eq_map, List.length_map, docTbl, docSubs_eq_map, List.length_append, List.length_map,
    ← List.length_append, (own_subs_perm s).length_eq]

theorem isEmpty_reTbl (s : List (Bytes × TV)) : (reTbl s).isEmpty = s.isEmpty := by
  have := length_reTbl s
  cases h1 : reTbl s <;> cases s <;> simp_all

/-! ## the statements -/

theorem emitSubs_subsOf (path : List Bytes) : ∀ l : List (Bytes × TV), emitSubs path (subsOf l) = emitSubs path l
  | [] => rfl
  | (k, v) :: r => by
    cases hv : kindOf v == .value
    · have e : subsOf ((k, v) :: r) = (k, v) :: subsOf r := by simp [subsOf, hv]
      rw [e, emitSubs, emitSubs, emitSubs_subsOf path r]
    · have e : subsOf ((k, v) :: r) = subsOf r := by simp [subsOf, hv]
      rw [e, emitSubs, emitItem_value _ v hv, emitSubs_subsOf path r]
      rfl

theorem subsOf_map_reV (l : List (Bytes × TV)) :
    subsOf (l.map fun e => (e.1, reV e.2)) = (subsOf l).map fun e => (e.1, reV e.2) :=
  subsOf_map reV kindOf_reV l

theorem tableStmts_congr (path : List Bytes) (a : Bool) (X Y : List (Bytes × TV)) (subs : List TomlValue.Stmt)
    (h1 : X.isEmpty = Y.isEmpty) (h2 : ownValues X = ownValues Y) :
    tableStmts path a X subs = tableStmts path a Y subs := by
  simp only [tableStmts, headerOf, ownKvs, h1, h2]

/-- one normalised table: the same header, own lines and sections after the document order and the passes -/
theorem table_fix (path : List Bytes) (a : Bool) (s : List (Bytes × TV)) (hn : NrmPs s) (hs : serOrder s = s)
    (hsub : emitSubs path (s.map fun e => (e.1, reV e.2)) = emitSubs path s) :
    tableStmts path a (reTbl s) (emitSubs path (reTbl s)) = tableStmts path a s (emitSubs path s) := by
  have : emitSubs path (reTbl s) = emitSubs path s := by
    rw [← emitSubs_subsOf, subsOf_reTbl s hs, ← subsOf_map_reV, emitSubs_subsOf, hsub]
  rw [this]
  exact tableStmts_congr path a _ _ _ (isEmpty_reTbl s) (ownValues_reTbl s hn hs)

theorem reV_tbl (s : List (Bytes × TV)) : reV (.tbl s) = .tbl (reTbl s) := by
  simp [reV, docV, normTV, reTbl]

mutual
theorem fix_item : ∀ (v : TV), NrmV v → ∀ path : List Bytes, emitItem path (reV v) = emitItem path v
  | .tbl s, h, path => by
    rw [NrmV] at h
    rw [reV_tbl, emitItem, emitItem]
    exact table_fix path false s h.1 h.2 (fix_subs s h.1 path)
  | .arr l, h, path => by
    rw [NrmV] at h
    cases ha : isAotList l
    · have : reV (.arr l) = .arr (normTVs l) := by simp [reV, docV, ha, normTV]
      rw [this, emitItem, emitItem]
      simp [isAotList_normTVs, ha]
    · have : reV (.arr l) = .arr (normTVs (docAot l)) := by simp [reV, docV, ha, normTV]
      rw [this, emitItem, emitItem]
      simp only [isAotList_normTVs, isAotList_docAot l ha, ha, if_true]
      exact fix_aot l h path
  | .str _, _, _ => by simp [reV, docV, normTV]
  | .int _, _, _ => by simp [reV, docV, normTV]
  | .float _, _, _ => by simp [reV, docV, normTV]
  | .bool _, _, _ => by simp [reV, docV, normTV]
  | .dt _, _, _ => by simp [reV, docV, normTV]
theorem fix_aot : ∀ (l : List TV), NrmVs l → ∀ path : List Bytes, emitAot path (normTVs (docAot l)) = emitAot path l
  | [], _, _ => by simp [docAot, normTVs]
  | .tbl s :: r, h, path => by
    rw [NrmVs, NrmV] at h
    have e : normTVs (docAot (.tbl s :: r)) = .tbl (reTbl s) :: normTVs (docAot r) := by
      simp [docAot, normTVs, normTV, reTbl, docTbl]
    rw [e, emitAot, emitAot, fix_aot r h.2 path, table_fix path true s h.1.1 h.1.2 (fix_subs s h.1.1 path)]
  | .str _ :: r, h, path => by rw [NrmVs] at h; simp only [docAot, emitAot]; exact fix_aot r h.2 path
  | .int _ :: r, h, path => by rw [NrmVs] at h; simp only [docAot, emitAot]; exact fix_aot r h.2 path
  | .float _ :: r, h, path => by rw [NrmVs] at h; simp only [docAot, emitAot]; exact fix_aot r h.2 path
  | .bool _ :: r, h, path => by rw [NrmVs] at h; simp only [docAot, emitAot]; exact fix_aot r h.2 path
  | .dt _ :: r, h, path => by rw [NrmVs] at h; simp only [docAot, emitAot]; exact fix_aot r h.2 path
  | .arr _ :: r, h, path => by rw [NrmVs] at h; simp only [docAot, emitAot]; exact fix_aot r h.2 path
theorem fix_subs : ∀ (s : List (Bytes × TV)), NrmPs s → ∀ path : List Bytes,
    emitSubs path (s.map fun e => (e.1, reV e.2)) = emitSubs path s
  | [], _, _ => rfl
  | (k, v) :: r, h, path => by
    rw [NrmPs] at h
    simp only [List.map_cons, emitSubs]
    rw [fix_item v h.1 (path ++ [k]), fix_subs r h.2 path]
end

/-- **the statements of the document are those of the document in document order** -/
theorem emitDoc_fix (items : List (Bytes × TV)) (h : NrmV (.tbl items)) :
    emitDoc (reTbl items) = emitDoc items ∧ ownValues (reTbl items) = ownValues items := by
  rw [NrmV] at h
  exact ⟨table_fix [] false items h.1 h.2 (fix_subs items h.1 []), ownValues_reTbl items h.1 h.2⟩

end TomlVerif.Lemmas.RoundTrip17
