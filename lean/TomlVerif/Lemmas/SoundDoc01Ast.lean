import TomlVerif.Lemmas.Sound01Ast
import TomlVerif.Lemmas.Sound01Trivia
import TomlVerif.Lemmas.Sound01Complete
import TomlVerif.Spec.AstDoc
/-! Abstract syntax of TOML documents over the value syntax **with quoted keys** (`QVal`,
    `Lemmas/Sound01Ast.lean`) and with *grammatical* keys (`QDKey`: every component is spelled as an
    `unquoted-key`, a `basic-string` or a `literal-string`, `KeyText`).

    `Spec/AstDoc.lean` (`Doc`) carries an `AVal` on its `key = value` lines (bare keys only inside inline
    tables), so `a={"a"=true}` — valid TOML 1.0.0 and accepted — is the rendering of no well-formed `Doc`
    (`Props/C01DocSound.lean`, `T01_Doc_misses_quoted_keys`).
    Its dotted keys (`KeyPath`) do allow quoted keys, but through a *semantic* condition (`KeySegOK`:
    "`simple_key` reads the token back"); here the condition is the grammar itself, and
    `keySegOK_iff` shows the two coincide.  `ofDoc` embeds `Doc`. -/
namespace TomlVerif.Spec.AstDocQ
open TomlVerif TomlVerif.Spec TomlVerif.Model TomlVerif.Model.Value TomlVerif.Spec.AstValue
open TomlVerif.Spec.AstValueQ TomlVerif.Spec.AstDoc
open TomlVerif.Lemmas.Value01 (commentBytes)
open TomlVerif.Lemmas.State09 (Stmt)

/-- one line of a document, without its line end -/
inductive QLine where
  /-- `ws` -/
  | blank (ws : Bytes)
  /-- `ws # body` -/
  | comment (ws body : Bytes)
  /-- `key = w1 v w2 [# cm]` (the blanks before the key are the `pre` of its first component) -/
  | keyval (k : QDKey) (w1 : Bytes) (v : QVal) (w2 : Bytes) (cm : Option Bytes)
  /-- `ws [ key ] w2 [# cm]` -/
  | std (ws : Bytes) (k : QDKey) (w2 : Bytes) (cm : Option Bytes)
  /-- `ws [[ key ]] w2 [# cm]` -/
  | aot (ws : Bytes) (k : QDKey) (w2 : Bytes) (cm : Option Bytes)

def QLine.render : QLine → Bytes
  | .blank ws => ws
  | .comment ws body => ws ++ 0x23 :: body
  | .keyval k w1 v w2 cm => k.render ++ 0x3D :: (w1 ++ (renderQ v ++ (w2 ++ commentBytes cm)))
  | .std ws k w2 cm => ws ++ 0x5B :: (k.render ++ 0x5D :: (w2 ++ commentBytes cm))
  | .aot ws k w2 cm => ws ++ 0x5B :: 0x5B :: (k.render ++ 0x5D :: 0x5D :: (w2 ++ commentBytes cm))

/-- well-formed line: blanks are blanks, comment text is `non-eol`, keys are dotted keys of the grammar with
    fewer than `LIMIT` components, the value is well formed, and the tables of the dotted key plus the
    nesting of the value stay below the limit -/
def QLine.WF : QLine → Prop
  | .blank ws => AllWs ws
  | .comment ws body => AllWs ws ∧ ∀ b ∈ body, isNonEol b = true
  | .keyval k w1 v w2 cm => k.WF ∧ AllWs w1 ∧ WFQ v ∧ k.more.length + depthQ v < LIMIT ∧ AllWs w2 ∧ CommentOK cm
  | .std ws k w2 cm => AllWs ws ∧ k.WF ∧ AllWs w2 ∧ CommentOK cm
  | .aot ws k w2 cm => AllWs ws ∧ k.WF ∧ AllWs w2 ∧ CommentOK cm

/-- the statement a line denotes, if any -/
def QLine.stmt : QLine → Option Stmt
  | .blank _ => none
  | .comment _ _ => none
  | .keyval k _ v _ _ => some (.kv k.path k.last (semQ v))
  | .std _ k _ _ => some (.std k.keys)
  | .aot _ k _ _ => some (.arr k.keys)

/-- a document: optional byte-order mark, lines each ended by LF (`false`) or CRLF (`true`), and
    optionally a last line without line end -/
structure QDoc where
  bom : Bool
  lines : List (QLine × Bool)
  last : Option QLine

def renderLinesQ : List (QLine × Bool) → Bytes
  | [] => []
  | (l, c) :: r => l.render ++ (nlBytes c ++ renderLinesQ r)

def renderLastQ : Option QLine → Bytes
  | none => []
  | some l => l.render

def QDoc.render (d : QDoc) : Bytes := bomBytes d.bom ++ (renderLinesQ d.lines ++ renderLastQ d.last)

def stmtsLinesQ : List (QLine × Bool) → List Stmt
  | [] => []
  | (l, _) :: r => match l.stmt with
    | some s => s :: stmtsLinesQ r
    | none => stmtsLinesQ r

def stmtsLastQ : Option QLine → List Stmt
  | none => []
  | some l => match l.stmt with
    | some s => [s]
    | none => []

/-- the statement sequence of a document -/
def QDoc.stmts (d : QDoc) : List Stmt := stmtsLinesQ d.lines ++ stmtsLastQ d.last

def QDoc.WF (d : QDoc) : Prop := (∀ p ∈ d.lines, p.1.WF) ∧ ∀ l, d.last = some l → l.WF

/-! ## keys: `KeySeg`/`KeyPath` of `Spec/AstDoc.lean` and `QKey`/`QDKey` are the same thing -/

def toKeySeg (k : QKey) : KeySeg := ⟨k.pre, k.raw, k.key, k.post⟩
def toKeyPath (k : QDKey) : KeyPath := ⟨toKeySeg k.first, k.more.map toKeySeg⟩
def ofKeySeg (k : KeySeg) : QKey := ⟨k.pre, k.tok, k.name, k.post⟩
def ofKeyPath (p : KeyPath) : QDKey := ⟨ofKeySeg p.first, p.more.map ofKeySeg⟩

theorem toKeySeg_render (k : QKey) : (toKeySeg k).render = k.render := by
  simp [toKeySeg, KeySeg.render, QKey.render]
theorem ofKeySeg_render (k : KeySeg) : (ofKeySeg k).render = k.render := by
  simp [ofKeySeg, KeySeg.render, QKey.render]

theorem renderSep_to (l : List QKey) : renderSep (l.map toKeySeg) = renderQKeySep l := by
  induction l with
  | nil => rfl
  | cons k l ih => simp [renderSep, renderQKeySep, ih, toKeySeg_render]
theorem renderSep_of (l : List KeySeg) : renderQKeySep (l.map ofKeySeg) = renderSep l := by
  induction l with
  | nil => rfl
  | cons k l ih => simp [renderSep, renderQKeySep, ih, ofKeySeg_render]

theorem toKeyPath_render (k : QDKey) : (toKeyPath k).render = k.render := by
  simp [toKeyPath, KeyPath.render, QDKey.render, renderSep_to, toKeySeg_render]
theorem ofKeyPath_render (p : KeyPath) : (ofKeyPath p).render = p.render := by
  simp [ofKeyPath, KeyPath.render, QDKey.render, renderSep_of, ofKeySeg_render]

theorem map_name_to (l : List QKey) : (l.map toKeySeg).map KeySeg.name = l.map QKey.key := by
  induction l with
  | nil => rfl
  | cons k l ih => simp [toKeySeg]
theorem map_key_ofSeg (l : List KeySeg) : (l.map ofKeySeg).map QKey.key = l.map KeySeg.name := by
  induction l with
  | nil => rfl
  | cons k l ih => simp [ofKeySeg]

theorem toKeyPath_names (k : QDKey) : (toKeyPath k).names = k.keys := by
  show (toKeySeg k.first).name :: (k.more.map toKeySeg).map KeySeg.name = _
  rw [map_name_to]; rfl
theorem toKeyPath_path (k : QDKey) : (toKeyPath k).path = k.path := by
  show (splitKeys k.first.key ((k.more.map toKeySeg).map KeySeg.name)).1 = _
  rw [map_name_to]; rfl
theorem toKeyPath_last (k : QDKey) : (toKeyPath k).last = k.last := by
  show (splitKeys k.first.key ((k.more.map toKeySeg).map KeySeg.name)).2 = _
  rw [map_name_to]; rfl
theorem toKeyPath_more_length (k : QDKey) : (toKeyPath k).more.length = k.more.length := by simp [toKeyPath]

theorem ofKeyPath_keys (p : KeyPath) : (ofKeyPath p).keys = p.names := by
  show (ofKeySeg p.first).key :: (p.more.map ofKeySeg).map QKey.key = _
  rw [map_key_ofSeg]; rfl
theorem ofKeyPath_path (p : KeyPath) : (ofKeyPath p).path = p.path := by
  show (splitKeys p.first.name ((p.more.map ofKeySeg).map QKey.key)).1 = _
  rw [map_key_ofSeg]; rfl
theorem ofKeyPath_last (p : KeyPath) : (ofKeyPath p).last = p.last := by
  show (splitKeys p.first.name ((p.more.map ofKeySeg).map QKey.key)).2 = _
  rw [map_key_ofSeg]; rfl
theorem ofKeyPath_more_length (p : KeyPath) : (ofKeyPath p).more.length = p.more.length := by simp [ofKeyPath]

/-- **the abstract key segments of `Spec/AstDoc.lean` are exactly the keys of the grammar**: "`simple_key` reads
    the token back as `name` whenever no bare-key character follows" holds exactly when the token is an
    `unquoted-key`, a `basic-string` or a `literal-string` spelling `name` -/
theorem keySegOK_iff (k : KeySeg) : KeySegOK k ↔ (ofKeySeg k).WF := by
  constructor
  · rintro ⟨h1, h2, h3⟩
    refine ⟨h1, h2, ?_⟩
    have h := h3 [] (by intro x r e; cases e)
    rw [List.append_nil] at h
    obtain ⟨raw, e, ht⟩ := TomlVerif.Lemmas.Sound01.simpleKey_sound _ _ _ h
    rw [List.append_nil] at e
    show KeyText k.tok k.name
    rw [e]; exact ht
  · rintro ⟨h1, h2, h3⟩
    exact ⟨h1, h2, fun rest hr => (TomlVerif.Lemmas.Sound01C.simpleKey_text k.tok k.name rest h3 hr).1⟩

theorem toKeySeg_ok (k : QKey) (h : k.WF) : KeySegOK (toKeySeg k) :=
  (keySegOK_iff (toKeySeg k)).2 h

theorem toKeyPath_ok (k : QDKey) (h : k.WF) : (toKeyPath k).OK := by
  refine ⟨toKeySeg_ok _ h.1, ?_, by simpa [toKeyPath] using h.2.2⟩
  intro x hx
  simp only [toKeyPath, List.mem_map] at hx
  obtain ⟨y, hy, rfl⟩ := hx
  exact toKeySeg_ok y (h.2.1 y hy)

theorem ofKeyPath_wf (p : KeyPath) (h : p.OK) : (ofKeyPath p).WF := by
  refine ⟨(keySegOK_iff _).1 h.1, ?_, by simpa [ofKeyPath] using h.2.2⟩
  intro x hx
  simp only [ofKeyPath, List.mem_map] at hx
  obtain ⟨y, hy, rfl⟩ := hx
  exact (keySegOK_iff _).1 (h.2.1 y hy)

/-! ## `Doc` is the fragment with bare keys inside inline tables -/

def ofLine : Line → QLine
  | .blank ws => .blank ws
  | .comment ws body => .comment ws body
  | .keyval p w1 v w2 cm => .keyval (ofKeyPath p) w1 (ofAVal v) w2 cm
  | .std ws p w2 cm => .std ws (ofKeyPath p) w2 cm
  | .aot ws p w2 cm => .aot ws (ofKeyPath p) w2 cm

def ofDoc (d : Doc) : QDoc :=
  ⟨d.bom, d.lines.map fun p => (ofLine p.1, p.2), d.last.map ofLine⟩

theorem ofLine_render (l : Line) : (ofLine l).render = l.render := by
  cases l <;> simp [ofLine, QLine.render, Line.render, ofKeyPath_render, ofAVal_render]

theorem ofLine_wf (l : Line) (h : l.WF) : (ofLine l).WF := by
  cases l with
  | blank ws => exact h
  | comment ws body => exact h
  | keyval p w1 v w2 cm =>
    obtain ⟨h1, h2, h3, h4, h5, h6⟩ := h
    exact ⟨ofKeyPath_wf p h1, h2, ofAVal_wf v h3, by rw [ofKeyPath_more_length, ofAVal_depth]; exact h4, h5, h6⟩
  | std ws p w2 cm => exact ⟨h.1, ofKeyPath_wf p h.2.1, h.2.2⟩
  | aot ws p w2 cm => exact ⟨h.1, ofKeyPath_wf p h.2.1, h.2.2⟩

theorem ofLine_stmt (l : Line) : (ofLine l).stmt = l.stmt := by
  cases l <;> simp [ofLine, QLine.stmt, Line.stmt, ofKeyPath_path, ofKeyPath_last, ofKeyPath_keys, ofAVal_sem]

theorem renderLinesQ_of (ls : List (Line × Bool)) :
    renderLinesQ (ls.map fun p => (ofLine p.1, p.2)) = renderLines ls := by
  induction ls with
  | nil => rfl
  | cons p ls ih => obtain ⟨l, c⟩ := p; simp [renderLinesQ, renderLines, ih, ofLine_render]

theorem stmtsLinesQ_of (ls : List (Line × Bool)) :
    stmtsLinesQ (ls.map fun p => (ofLine p.1, p.2)) = stmtsLines ls := by
  induction ls with
  | nil => rfl
  | cons p ls ih =>
    obtain ⟨l, c⟩ := p
    simp only [List.map_cons, stmtsLinesQ, stmtsLines, ofLine_stmt, ih]
    cases l.stmt <;> rfl

theorem ofDoc_render (d : Doc) : (ofDoc d).render = d.render := by
  unfold ofDoc QDoc.render Doc.render
  simp only [renderLinesQ_of]
  cases d.last with
  | none => rfl
  | some l => simp [renderLastQ, renderLast, ofLine_render]

theorem ofDoc_stmts (d : Doc) : (ofDoc d).stmts = d.stmts := by
  unfold ofDoc QDoc.stmts Doc.stmts
  simp only [stmtsLinesQ_of]
  cases d.last with
  | none => rfl
  | some l =>
    simp only [Option.map_some, stmtsLastQ, stmtsLast, ofLine_stmt]
    cases l.stmt <;> rfl

theorem ofDoc_wf (d : Doc) (h : d.WF) : (ofDoc d).WF := by
  refine ⟨?_, ?_⟩
  · intro p hp
    simp only [ofDoc, List.mem_map] at hp
    obtain ⟨q, hq, rfl⟩ := hp
    exact ofLine_wf q.1 (h.1 q hq)
  · intro l hl
    simp only [ofDoc, Option.map_eq_some_iff] at hl
    obtain ⟨l', hl', rfl⟩ := hl
    exact ofLine_wf l' (h.2 l' hl')

end TomlVerif.Spec.AstDocQ
