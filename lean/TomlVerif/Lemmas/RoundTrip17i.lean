import TomlVerif.Lemmas.RoundTrip17h
/-! C17 at text level: the printed document is the concatenation of one piece of text per statement
    (`stmtTexts`, `renderStmts_flatten`); a piece begins with `[` or with a blank line and `[` exactly when its
    statement is a header (`startsHeader_stmtText`); so the block structure of the statement list (`Block`,
    Lemmas/TomlValue17.lean) is a block structure of the text (`SegBlock`, `segBlock_of_block`). -/
namespace TomlVerif.Lemmas.RoundTrip17
open TomlVerif TomlVerif.Model TomlVerif.Model.TomlValue
open TomlVerif.Lemmas.TomlValue17 (Block headerFirst)
open TomlVerif.Lemmas.Encode06c (reprKey_head)
open TomlVerif.Lemmas.Doc01 (keyhead_facts)

/-- the text of one statement; `lead`: a blank line separates a header from what precedes it -/
def stmtText (fl : FloatText) (p : Bool) (lead : Bool) : TomlValue.Stmt → Bytes
  | .header path => (if lead then [0x0A] else []) ++ [0x5B] ++ renderPath path ++ [0x5D, 0x0A]
  | .aotHeader path => (if lead then [0x0A] else []) ++ [0x5B, 0x5B] ++ renderPath path ++ [0x5D, 0x5D, 0x0A]
  | .kv k v => renderKey k ++ sp ++ [0x3D] ++ sp ++ renderVal fl p v ++ [0x0A]

/-- the pieces of the printed document, one per statement: a header is preceded by a blank line unless it is the
    very first line (`first`, which is cleared by the first header) -/
def stmtTexts (fl : FloatText) (p : Bool) : Bool → List TomlValue.Stmt → List Bytes
  | _, [] => []
  | first, .header path :: r => stmtText fl p (!first) (.header path) :: stmtTexts fl p false r
  | first, .aotHeader path :: r => stmtText fl p (!first) (.aotHeader path) :: stmtTexts fl p false r
  | first, .kv k v :: r => stmtText fl p false (.kv k v) :: stmtTexts fl p first r

theorem renderStmts_flatten (fl : FloatText) (p : Bool) : ∀ (l : List TomlValue.Stmt) (first : Bool),
    renderStmts fl p first l = (stmtTexts fl p first l).flatten
  | [], _ => by simp [renderStmts, stmtTexts]
  | .header path :: r, first => by
    rw [renderStmts, stmtTexts, List.flatten_cons, ← renderStmts_flatten fl p r false]
    cases first <;> simp [stmtText]
  | .aotHeader path :: r, first => by
    rw [renderStmts, stmtTexts, List.flatten_cons, ← renderStmts_flatten fl p r false]
    cases first <;> simp [stmtText]
  | .kv k v :: r, first => by
    rw [renderStmts, stmtTexts, List.flatten_cons, ← renderStmts_flatten fl p r first]
    simp [stmtText]

theorem stmtTexts_length (fl : FloatText) (p : Bool) : ∀ (l : List TomlValue.Stmt) (first : Bool),
    (stmtTexts fl p first l).length = l.length
  | [], _ => rfl
  | .header _ :: r, first => by simp [stmtTexts, stmtTexts_length fl p r]
  | .aotHeader _ :: r, first => by simp [stmtTexts, stmtTexts_length fl p r]
  | .kv _ _ :: r, first => by simp [stmtTexts, stmtTexts_length fl p r]

/-- a piece of text that begins like a header line: `[`, possibly after one blank line -/
def startsHeader : Bytes → Bool
  | 0x5B :: _ => true
  | 0x0A :: 0x5B :: _ => true
  | _ => false

/-- **headers and key/value lines are told apart by their first bytes** -/
theorem startsHeader_stmtText (fl : FloatText) (p lead : Bool) (s : TomlValue.Stmt) :
    startsHeader (stmtText fl p lead s) = s.isHeader := by
  cases s with
  | header path => cases lead <;> simp [stmtText, startsHeader, TomlValue.Stmt.isHeader]
  | aotHeader path => cases lead <;> simp [stmtText, startsHeader, TomlValue.Stmt.isHeader]
  | kv k v =>
    obtain ⟨b, t, e, hb⟩ := reprKey_head k
    have e' : renderKey k = b :: t := e
    obtain ⟨_, _, h5b, h0a, _, _⟩ := keyhead_facts b hb
    simp only [stmtText, e', List.cons_append, TomlValue.Stmt.isHeader]
    unfold startsHeader
    split
    · rename_i h; injection h with h _; exact absurd h h5b
    · rename_i h; injection h with h _; exact absurd h h0a
    · rfl

/-- every piece ends with a line feed -/
theorem stmtText_ends (fl : FloatText) (p lead : Bool) (s : TomlValue.Stmt) :
    ∃ a, stmtText fl p lead s = a ++ [0x0A] := by
  cases s with
  | header path => exact ⟨(if lead then [0x0A] else []) ++ [0x5B] ++ renderPath path ++ [0x5D], by simp [stmtText]⟩
  | aotHeader path =>
    exact ⟨(if lead then [0x0A] else []) ++ [0x5B, 0x5B] ++ renderPath path ++ [0x5D, 0x5D], by simp [stmtText]⟩
  | kv k v => exact ⟨_, rfl⟩

theorem stmtTexts_class (fl : FloatText) (p : Bool) : ∀ (l : List TomlValue.Stmt) (first : Bool),
    (stmtTexts fl p first l).map startsHeader = l.map TomlValue.Stmt.isHeader
  | [], _ => rfl
  | .header path :: r, first => by
    simp only [stmtTexts, List.map_cons, startsHeader_stmtText, stmtTexts_class fl p r]
  | .aotHeader path :: r, first => by
    simp only [stmtTexts, List.map_cons, startsHeader_stmtText, stmtTexts_class fl p r]
  | .kv k v :: r, first => by
    simp only [stmtTexts, List.map_cons, startsHeader_stmtText, stmtTexts_class fl p r]

/-- `first` after a stretch of statements: still set when none of them was a header -/
def firstAfter (first : Bool) (l : List TomlValue.Stmt) : Bool := first && l.all fun s => !s.isHeader

theorem stmtTexts_append (fl : FloatText) (p : Bool) : ∀ (a b : List TomlValue.Stmt) (first : Bool),
    stmtTexts fl p first (a ++ b) = stmtTexts fl p first a ++ stmtTexts fl p (firstAfter first a) b
  | [], b, first => by simp [stmtTexts, firstAfter]
  | .header path :: r, b, first => by
    simp only [List.cons_append, stmtTexts, stmtTexts_append fl p r b false]
    simp [firstAfter, TomlValue.Stmt.isHeader]
  | .aotHeader path :: r, b, first => by
    simp only [List.cons_append, stmtTexts, stmtTexts_append fl p r b false]
    simp [firstAfter, TomlValue.Stmt.isHeader]
  | .kv k v :: r, b, first => by
    simp only [List.cons_append, stmtTexts, stmtTexts_append fl p r b first]
    simp [firstAfter, TomlValue.Stmt.isHeader]

/-- empty, or beginning with a header piece -/
def segHeaderFirst : List Bytes → Prop
  | [] => True
  | s :: _ => startsHeader s = true

/-- `Block` on the pieces of text: at most one header piece (`[…]` / `[[…]]`, possibly after a blank line), then
    pieces that do not begin like a header (the table's own key/value lines), then the blocks of the sub-tables,
    each beginning with a header piece and again such a block. So within a section every key/value line comes
    before the first header of anything below it. -/
inductive SegBlock : List Bytes → Prop where
  | mk (hdr kvs : List Bytes) (subs : List (List Bytes)) :
      hdr.length ≤ 1 → (∀ s ∈ hdr, startsHeader s = true) → (∀ s ∈ kvs, startsHeader s = false) →
      (∀ b ∈ subs, SegBlock b) → (∀ b ∈ subs, segHeaderFirst b) → SegBlock (hdr ++ kvs ++ subs.flatten)

theorem segHeaderFirst_of (fl : FloatText) (p : Bool) (l : List TomlValue.Stmt) (first : Bool) (h : headerFirst l) :
    segHeaderFirst (stmtTexts fl p first l) := by
  cases l with
  | nil => trivial
  | cons s r =>
    have hs : s.isHeader = true := h
    cases s with
    | header path => simp only [stmtTexts, segHeaderFirst, startsHeader_stmtText]; rfl
    | aotHeader path => simp only [stmtTexts, segHeaderFirst, startsHeader_stmtText]; rfl
    | kv k v => simp [TomlValue.Stmt.isHeader] at hs

theorem mem_stmtTexts (fl : FloatText) (p : Bool) : ∀ (l : List TomlValue.Stmt) (first : Bool) (x : Bytes),
    x ∈ stmtTexts fl p first l → ∃ s ∈ l, ∃ lead, x = stmtText fl p lead s
  | [], _, x, h => by simp [stmtTexts] at h
  | .header path :: r, first, x, h => by
    simp only [stmtTexts, List.mem_cons] at h
    rcases h with h | h
    · exact ⟨_, List.mem_cons_self .., _, h⟩
    · obtain ⟨s, hs, lead, e⟩ := mem_stmtTexts fl p r false x h
      exact ⟨s, List.mem_cons_of_mem _ hs, lead, e⟩
  | .aotHeader path :: r, first, x, h => by
    simp only [stmtTexts, List.mem_cons] at h
    rcases h with h | h
    · exact ⟨_, List.mem_cons_self .., _, h⟩
    · obtain ⟨s, hs, lead, e⟩ := mem_stmtTexts fl p r false x h
      exact ⟨s, List.mem_cons_of_mem _ hs, lead, e⟩
  | .kv k v :: r, first, x, h => by
    simp only [stmtTexts, List.mem_cons] at h
    rcases h with h | h
    · exact ⟨_, List.mem_cons_self .., _, h⟩
    · obtain ⟨s, hs, lead, e⟩ := mem_stmtTexts fl p r first x h
      exact ⟨s, List.mem_cons_of_mem _ hs, lead, e⟩

/-- the pieces of a concatenation of blocks are a concatenation of the blocks' pieces -/
theorem stmtTexts_flatten (fl : FloatText) (p : Bool) (P : List Bytes → Prop) :
    ∀ (subs : List (List TomlValue.Stmt)) (first : Bool),
      (∀ b ∈ subs, ∀ f, P (stmtTexts fl p f b)) →
      ∃ segs : List (List Bytes), stmtTexts fl p first subs.flatten = segs.flatten ∧ ∀ b ∈ segs, P b
  | [], _, _ => ⟨[], by simp [stmtTexts], by simp⟩
  | b :: r, first, h => by
    obtain ⟨segs, e, hs⟩ := stmtTexts_flatten fl p P r (firstAfter first b)
      fun b' hb' => h b' (List.mem_cons_of_mem _ hb')
    refine ⟨stmtTexts fl p first b :: segs, ?_, ?_⟩
    · rw [List.flatten_cons, stmtTexts_append, e, List.flatten_cons]
    · intro x hx
      rcases List.mem_cons.1 hx with hx | hx
      · subst hx; exact h b (List.mem_cons_self ..) first
      · exact hs x hx

/-- **the block structure of the statements is a block structure of the text** -/
theorem segBlock_of_block (fl : FloatText) (p : Bool) {l : List TomlValue.Stmt} (h : Block l) :
    ∀ first : Bool, SegBlock (stmtTexts fl p first l) := by
  induction h with
  | mk hdr kvs subs h1 h2 h3 h4 h5 ih =>
    intro first
    obtain ⟨segs, e, hs⟩ := stmtTexts_flatten fl p (fun b => SegBlock b ∧ segHeaderFirst b) subs
      (firstAfter first (hdr ++ kvs))
      (fun b hb f => ⟨ih b hb f, segHeaderFirst_of fl p b f (h5 b hb)⟩)
    rw [stmtTexts_append, stmtTexts_append, e]
    refine SegBlock.mk _ _ segs ?_ ?_ ?_ (fun b hb => (hs b hb).1) (fun b hb => (hs b hb).2)
    · rw [stmtTexts_length]; exact h1
    · intro x hx
      obtain ⟨s, hs', lead, e'⟩ := mem_stmtTexts fl p _ _ x hx
      rw [e', startsHeader_stmtText]
      exact h2 s hs'
    · intro x hx
      obtain ⟨s, hs', lead, e'⟩ := mem_stmtTexts fl p _ _ x hx
      rw [e', startsHeader_stmtText]
      have := h3 s hs'
      cases s <;> simp_all [TomlValue.Stmt.isHeader, TomlValue.Stmt.isKv]

end TomlVerif.Lemmas.RoundTrip17
