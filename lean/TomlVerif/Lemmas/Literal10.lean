import TomlVerif.Lemmas.Metrics10
import TomlVerif.Lemmas.MlBasic10
/-! Literal and multi-line literal strings, bare keys: the parser reads back exactly the bytes written. -/
namespace TomlVerif.Lemmas
open TomlVerif TomlVerif.Spec TomlVerif.Model.Write TomlVerif.Model.Strings TomlVerif.Model.Key

theorem takeLiteral_all (s t : Bytes) (hs : s.all isLiteralChar = true) (ht : ∀ x r, t = x :: r → isLiteralChar x = false) :
    takeLiteral (s ++ t) = (s, t) := by
  induction s with
  | nil =>
    cases t with
    | nil => simp [takeLiteral]
    | cons x r => simp [takeLiteral, ht x r rfl]
  | cons b s ih =>
    simp only [List.all_cons, Bool.and_eq_true] at hs
    simp [takeLiteral, hs.1, ih hs.2]

theorem literal_rt (s rest : Bytes) (hs : s.all isLiteralChar = true) :
    literalString (0x27 :: (s ++ 0x27 :: rest)) = .ok s rest := by
  have := takeLiteral_all s (0x27 :: rest) hs (by intro x r h; injection h with h1 _; subst h1; decide)
  simp [literalString, this]

theorem takeUnquoted_all (s t : Bytes) (hs : s.all isUnquotedChar = true) (ht : ∀ x r, t = x :: r → isUnquotedChar x = false) :
    takeUnquoted (s ++ t) = (s, t) := by
  induction s with
  | nil =>
    cases t with
    | nil => simp [takeUnquoted]
    | cons x r => simp [takeUnquoted, ht x r rfl]
  | cons b s ih =>
    simp only [List.all_cons, Bool.and_eq_true] at hs
    simp [takeUnquoted, hs.1, ih hs.2]

/-- bytes allowed raw inside a multi-line literal body -/
def mllOK (b : UInt8) : Bool := isMllChar b || b == 0x27 || b == 0x0A

theorem mll_quotes (fuel k : Nat) (x : UInt8) (t acc : Bytes) (hk : k ≤ 2) (hx : x ≠ 0x27) :
    mlLiteralBody (fuel + k) (List.replicate k 0x27 ++ x :: t) acc =
      mlLiteralBody fuel (x :: t) (acc ++ List.replicate k 0x27) := by
  match k, hk with
  | 0, _ => simp
  | 1, _ => simp [List.replicate, mlLiteralBody, isMllChar, isLiteralChar, inR, isNonAscii, countLeading, hx]
  | 2, _ => simp [List.replicate, mlLiteralBody, isMllChar, isLiteralChar, inR, isNonAscii, countLeading, hx]

theorem mll_close (fuel k : Nat) (rest acc : Bytes) (hk : k ≤ 2) (hr : rest.head? ≠ some 0x27) :
    mlLiteralBody (fuel + 1) (List.replicate k 0x27 ++ 0x27 :: 0x27 :: 0x27 :: rest) acc =
      .ok (acc ++ List.replicate k 0x27) rest := by
  have h0 := countLeading_zero 0x27 rest hr
  match k, hk with
  | 0, _ => simp [mlLiteralBody, isMllChar, isLiteralChar, inR, isNonAscii, countLeading, h0]
  | 1, _ => simp [List.replicate, mlLiteralBody, isMllChar, isLiteralChar, inR, isNonAscii, countLeading, h0]
  | 2, _ => simp [List.replicate, mlLiteralBody, isMllChar, isLiteralChar, inR, isNonAscii, countLeading, h0]

theorem mll_step (fuel : Nat) (b : UInt8) (t acc : Bytes) (hb : mllOK b = true) (hq : b ≠ 0x27) :
    mlLiteralBody (fuel + 1) (b :: t) acc = mlLiteralBody fuel t (acc ++ [b]) := by
  by_cases hm : isMllChar b = true
  · simp [mlLiteralBody, hm]
  · have : b = 0x0A := by
      unfold mllOK at hb; simp [hm, hq] at hb; exact hb
    subst this
    simp [mlLiteralBody, isMllChar, isLiteralChar, inR, isNonAscii, newline?]

theorem mll_body_rt (s : Bytes) : ∀ (k fuel : Nat) (rest acc : Bytes), k ≤ 2 → rest.head? ≠ some 0x27 →
    noTriple 0x27 k s = true → s.all mllOK = true →
    (List.replicate k 0x27 ++ (s ++ 0x27 :: 0x27 :: 0x27 :: rest)).length < fuel →
    mlLiteralBody fuel (List.replicate k 0x27 ++ (s ++ 0x27 :: 0x27 :: 0x27 :: rest)) acc =
      .ok (acc ++ List.replicate k 0x27 ++ s) rest := by
  induction s with
  | nil =>
    intro k fuel rest acc hk hr _ _ hf
    cases fuel with
    | zero => simp at hf
    | succ f => simp only [List.nil_append, List.append_nil]; exact mll_close f k rest acc hk hr
  | cons b s ih =>
    intro k fuel rest acc hk hr hn ha hf
    simp only [List.all_cons, Bool.and_eq_true] at ha
    by_cases hq : b = 0x27
    · subst hq
      simp [noTriple] at hn
      have e2 : List.replicate k (0x27 : UInt8) ++ (0x27 :: s ++ 0x27 :: 0x27 :: 0x27 :: rest)
          = List.replicate (k + 1) 0x27 ++ (s ++ 0x27 :: 0x27 :: 0x27 :: rest) := by
        simp [List.replicate_succ']
      rw [e2] at hf ⊢
      rw [ih (k + 1) fuel rest acc (by omega) hr hn.2 ha.2 hf]
      simp [List.replicate_succ']
    · simp [noTriple, hq] at hn
      have hlen : k + 1 < fuel := by simp at hf; omega
      obtain ⟨f, rfl⟩ : ∃ f, fuel = (f + 1) + k := ⟨fuel - 1 - k, by omega⟩
      simp only [List.cons_append]
      rw [mll_quotes (f + 1) k b _ acc hk hq, mll_step f b _ _ ha.1 hq]
      have := ih 0 f rest (acc ++ List.replicate k 0x27 ++ [b]) (by omega) hr hn ha.2
        (by simp at hf ⊢; omega)
      simpa using this

end TomlVerif.Lemmas
