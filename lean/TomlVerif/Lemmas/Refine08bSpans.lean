import TomlVerif.Lemmas.Refine08bFrame
import TomlVerif.Lemmas.Refine08bPrint
/-! The spans of an entry reached by a path are among the spans of the tree: a bound on the spans of
    the document (`T14_bounds_statement`) gives the bound `T08_print_untouched` asks of the entry.
    Also a decidable test for `Diverge`. -/
namespace TomlVerif.Lemmas.Refine08bSpans
open TomlVerif TomlVerif.Model TomlVerif.Model.Cst TomlVerif.Model.Edit TomlVerif.Model.Encode
open TomlVerif.Lemmas.Edit08 TomlVerif.Lemmas.Cst03 TomlVerif.Lemmas.Refine08bFrame TomlVerif.Lemmas.Refine08bPrint

def okeySpans : Option CKey → List Span
  | none => []
  | some k => keySpans k

def nodeSpans : Node → List Span
  | .tbl t => tblSpans t
  | .val v => valSpans v
  | .aot ts sp => tblsSpans ts ++ optSp sp

def knodeSpans (r : KNode) : List Span := okeySpans r.1 ++ nodeSpans r.2

/-- the spans of an item (the `match` in `itemsSpans`) -/
def itemSpans : CItem → List Span
  | .value v => valSpans v
  | .table t => tblSpans t
  | .aot ts sp => tblsSpans ts ++ optSp sp

theorem itemsSpans_cons (k : CKey) (it : CItem) (r : List (CKey × CItem)) :
    itemsSpans ((k, it) :: r) = keySpans k ++ itemSpans it ++ itemsSpans r := by
  cases it <;> rw [itemsSpans] <;> rfl

variable {n : Nat}

mutual
theorem spansK_val : ∀ (ck : Option CKey) (p : List Seg) (v : CVal) (r : KNode),
    lookupKVal ck p v = some r → EndsIn n (okeySpans ck) → EndsIn n (valSpans v) → EndsIn n (knodeSpans r)
  | ck, [], v, r, h, hk, hv => by
    simp only [lookupKVal, Option.some.injEq] at h; subst h
    simp [knodeSpans, nodeSpans, hk, hv]
  | _, _ :: _, .scalar _ _ _, _, h, _, _ => by simp [lookupKVal] at h
  | _, s :: q, .arr items _ _ _ _, r, h, _, hv => by
    simp only [lookupKVal] at h
    simp only [valSpans, endsIn_append] at hv
    cases hi : s.idx with
    | none => simp [hi] at h
    | some i =>
      simp only [hi] at h
      exact spansK_elems i q items r h hv.1.1.1
  | _, s :: q, .inl items _ _ _ _ _, r, h, _, hv => by
    simp only [lookupKVal] at h
    simp only [valSpans, endsIn_append] at hv
    cases hi : s.key with
    | none => simp [hi] at h
    | some k =>
      simp only [hi] at h
      exact spansK_kvs k q items r h hv.1.1.1
theorem spansK_elems : ∀ (i : Nat) (q : List Seg) (items : List CVal) (r : KNode),
    lookupKElems i q items = some r → EndsIn n (elemsSpans items) → EndsIn n (knodeSpans r)
  | _, _, [], _, h, _ => by simp [lookupKElems] at h
  | 0, q, v :: _, r, h, hv => by
    simp only [lookupKElems] at h
    simp only [elemsSpans, endsIn_append] at hv
    exact spansK_val none q v r h (by simp [okeySpans]) hv.1
  | i + 1, q, _ :: rest, r, h, hv => by
    simp only [lookupKElems] at h
    simp only [elemsSpans, endsIn_append] at hv
    exact spansK_elems i q rest r h hv.2
theorem spansK_kvs (k : Bytes) : ∀ (q : List Seg) (items : List (CKey × CVal)) (r : KNode),
    lookupKKvs k q items = some r → EndsIn n (kvsSpans items) → EndsIn n (knodeSpans r)
  | _, [], _, h, _ => by simp [lookupKKvs] at h
  | q, (k', v) :: rest, r, h, hv => by
    simp only [lookupKKvs] at h
    simp only [kvsSpans, endsIn_append] at hv
    split at h
    · exact spansK_val (some k') q v r h (by simpa [okeySpans] using hv.1.1) hv.1.2
    · exact spansK_kvs k q rest r h hv.2
end

mutual
theorem spansK_tbl : ∀ (ck : Option CKey) (p : List Seg) (t : CTbl) (r : KNode),
    lookupKTbl ck p t = some r → EndsIn n (okeySpans ck) → EndsIn n (tblSpans t) → EndsIn n (knodeSpans r)
  | ck, [], t, r, h, hk, hv => by
    simp only [lookupKTbl, Option.some.injEq] at h; subst h
    simp [knodeSpans, nodeSpans, hk, hv]
  | _, s :: q, .mk items _ _ _ _ _, r, h, _, hv => by
    simp only [lookupKTbl] at h
    simp only [tblSpans, endsIn_append] at hv
    cases hi : s.key with
    | none => simp [hi] at h
    | some k =>
      simp only [hi] at h
      exact spansK_items k q items r h hv.1.1
theorem spansK_items (k : Bytes) : ∀ (q : List Seg) (items : List (CKey × CItem)) (r : KNode),
    lookupKItems k q items = some r → EndsIn n (itemsSpans items) → EndsIn n (knodeSpans r)
  | _, [], _, h, _ => by simp [lookupKItems] at h
  | q, (k', it) :: rest, r, h, hv => by
    simp only [lookupKItems] at h
    rw [itemsSpans_cons] at hv
    simp only [endsIn_append] at hv
    split at h
    · exact spansK_item (some k') q it r h (by simpa [okeySpans] using hv.1.1) hv.1.2
    · exact spansK_items k q rest r h hv.2
theorem spansK_item : ∀ (ck : Option CKey) (q : List Seg) (it : CItem) (r : KNode),
    lookupKItem ck q it = some r → EndsIn n (okeySpans ck) →
    EndsIn n (itemSpans it) → EndsIn n (knodeSpans r)
  | ck, q, .value v, r, h, hk, hv => by
    simp only [lookupKItem] at h
    exact spansK_val ck q v r h hk hv
  | ck, q, .table t, r, h, hk, hv => by
    simp only [lookupKItem] at h
    exact spansK_tbl ck q t r h hk hv
  | ck, [], .aot ts sp, r, h, hk, hv => by
    simp only [lookupKItem, Option.some.injEq] at h; subst h
    simp only [itemSpans, endsIn_append] at hv
    simp [knodeSpans, nodeSpans, hk, hv.1, hv.2]
  | _, s :: q, .aot ts _, r, h, _, hv => by
    simp only [lookupKItem] at h
    simp only [itemSpans, endsIn_append] at hv
    cases hi : s.idx with
    | none => simp [hi] at h
    | some i =>
      simp only [hi] at h
      exact spansK_nth i q ts r h hv.1
theorem spansK_nth : ∀ (i : Nat) (q : List Seg) (ts : List CTbl) (r : KNode),
    lookupKNth i q ts = some r → EndsIn n (tblsSpans ts) → EndsIn n (knodeSpans r)
  | _, _, [], _, h, _ => by simp [lookupKNth] at h
  | 0, q, t :: _, r, h, hv => by
    simp only [lookupKNth] at h
    simp only [tblsSpans, endsIn_append] at hv
    exact spansK_tbl none q t r h (by simp [okeySpans]) hv.1
  | i + 1, q, _ :: rest, r, h, hv => by
    simp only [lookupKNth] at h
    simp only [tblsSpans, endsIn_append] at hv
    exact spansK_nth i q rest r h hv.2
end

/-! ### a decidable test for `Diverge` -/

def segDifferB (a b : Seg) : Bool :=
  (a.key.isNone || a.key != b.key) && (a.idx.isNone || a.idx != b.idx)

def divergeB : List Seg → List Seg → Bool
  | a :: p, b :: q => segDifferB a b || (a == b && divergeB p q)
  | _, _ => false

theorem segDifferB_sound (a b : Seg) (h : segDifferB a b = true) : SegDiffer a b := by
  simp only [segDifferB, Bool.and_eq_true, Bool.or_eq_true, Option.isNone_iff_eq_none, bne_iff_ne, ne_eq] at h
  exact h

theorem divergeB_sound : ∀ (p q : List Seg), divergeB p q = true → Diverge p q
  | [], _, h => by simp [divergeB] at h
  | _ :: _, [], h => by simp [divergeB] at h
  | a :: p, b :: q, h => by
    simp only [divergeB, Bool.or_eq_true, Bool.and_eq_true, beq_iff_eq] at h
    rcases h with h | ⟨rfl, h⟩
    · exact .here (segDifferB_sound a b h)
    · exact .step (divergeB_sound p q h)

end TomlVerif.Lemmas.Refine08bSpans
