import TomlVerif.Lemmas.Sound01Cont
import TomlVerif.Lemmas.Scalars01
/-! Locality of the number parsers: what `integer` / `float` return depends only on the bytes they consume,
    as long as what follows cannot continue the literal.  This is what makes the consumed text a scalar
    token (`ScalarOK`). -/
namespace TomlVerif.Lemmas.Sound01
open TomlVerif TomlVerif.Spec TomlVerif.Model TomlVerif.Model.Strings TomlVerif.Model.Value
open TomlVerif.Spec.AstValue TomlVerif.Lemmas.Value01 TomlVerif.Lemmas.Scalars01
open TomlVerif.Model.Numbers TomlVerif.Lemmas.Numbers11

/-- digits of class `isD` and underscores -/
def DU (isD : Byte → Bool) (m : Bytes) : Prop := ∀ b ∈ m, isD b = true ∨ b = 0x5F

theorem DU_nil (isD : Byte → Bool) : DU isD [] := fun b hb => by cases hb

theorem runTail_local (isD : Byte → Bool) : ∀ (n : Nat) (s acc ds rest : Bytes), s.length ≤ n →
    runTail isD s acc = .ok ds rest →
    ∃ m, s = m ++ rest ∧ DU isD m ∧ ∀ rest', Stops isD rest' → runTail isD (m ++ rest') acc = .ok ds rest' := by
  intro n
  induction n with
  | zero =>
    intro s acc ds rest hl h
    cases s with
    | nil =>
      simp [runTail] at h
      refine ⟨[], by simp [h.2], DU_nil _, ?_⟩
      intro rest' hs; rw [← h.1]; simpa using runTail_stop isD rest' acc hs
    | cons b r => simp at hl
  | succ n ih =>
    intro s acc ds rest hl h
    cases s with
    | nil =>
      simp [runTail] at h
      refine ⟨[], by simp [h.2], DU_nil _, ?_⟩
      intro rest' hs; rw [← h.1]; simpa using runTail_stop isD rest' acc hs
    | cons b r =>
      simp only [List.length_cons] at hl
      by_cases hb : isD b = true
      · rw [runTail_cons_digit isD b r acc hb] at h
        obtain ⟨m, e, hm, hloc⟩ := ih r (acc ++ [b]) ds rest (by omega) h
        refine ⟨b :: m, by simp [e], ?_, ?_⟩
        · intro c hc
          rcases List.mem_cons.1 hc with rfl | hc
          · exact Or.inl hb
          · exact hm c hc
        · intro rest' hs
          rw [List.cons_append, runTail_cons_digit isD b _ acc hb]
          exact hloc rest' hs
      · have hb' : isD b = false := by simpa using hb
        by_cases hu : b = 0x5F
        · subst hu
          cases r with
          | nil => rw [runTail.eq_def] at h; simp [hb'] at h
          | cons d r' =>
            by_cases hd : isD d = true
            · rw [runTail_under isD d r' acc hb' hd] at h
              simp only [List.length_cons] at hl
              obtain ⟨m, e, hm, hloc⟩ := ih r' (acc ++ [d]) ds rest (by omega) h
              refine ⟨0x5F :: d :: m, by simp [e], ?_, ?_⟩
              · intro c hc
                simp only [List.mem_cons] at hc
                rcases hc with rfl | rfl | hc
                · exact Or.inr rfl
                · exact Or.inl hd
                · exact hm c hc
              · intro rest' hs
                rw [List.cons_append, List.cons_append, runTail_under isD d _ acc hb' hd]
                exact hloc rest' hs
            · rw [runTail.eq_def] at h; simp [hb', hd] at h
        · rw [runTail_cons_stop isD b r acc hb' hu] at h
          injection h with h1 h2
          refine ⟨[], by simp [h2], DU_nil _, ?_⟩
          intro rest' hs; rw [← h1]; simpa using runTail_stop isD rest' acc hs

theorem zpi_local (s ds rest : Bytes) (h : zeroPrefixableInt s = .ok ds rest) :
    ∃ d m, s = d :: (m ++ rest) ∧ isDigit d = true ∧ DU isDigit m ∧
      ∀ rest', Stops isDigit rest' → zeroPrefixableInt (d :: (m ++ rest')) = .ok ds rest' := by
  cases s with
  | nil => simp [zeroPrefixableInt] at h
  | cons b r =>
    simp only [zeroPrefixableInt] at h
    split at h
    · rename_i hb
      obtain ⟨m, e, hm, hloc⟩ := runTail_local isDigit _ r [b] ds rest (Nat.le_refl _) h
      exact ⟨b, m, by rw [e], hb, hm, fun rest' hs => by
        simp only [zeroPrefixableInt, hb, if_true]; exact hloc rest' hs⟩
    · contradiction

theorem decBody_local (neg sg : Bool) (s : Bytes) (x : Bool × Bool × Bytes) (rest : Bytes)
    (h : decBody neg sg s = .ok x rest) :
    ∃ d m, s = d :: (m ++ rest) ∧ isDigit d = true ∧ DU isDigit m ∧
      ∀ rest', Stops isDigit rest' → decBody neg sg (d :: (m ++ rest')) = .ok x rest' := by
  cases s with
  | nil => simp [decBody] at h
  | cons b r =>
    simp only [decBody] at h
    split at h
    · rename_i hb
      cases hrt : runTail isDigit r [b] with
      | ok ds rest0 =>
        rw [hrt] at h
        simp only [Res.map] at h
        injection h with h1 h2
        subst h1 h2
        obtain ⟨m, e, hm, hloc⟩ := runTail_local isDigit _ r [b] ds rest0 (Nat.le_refl _) hrt
        exact ⟨b, m, by rw [e], digit19_digit b hb, hm, fun rest' hs => by
          simp only [decBody, hb, if_true, hloc rest' hs, Res.map]⟩
      | bt => rw [hrt] at h; simp [Res.map] at h
      | cut => rw [hrt] at h; simp [Res.map] at h
    · split at h
      · rename_i hb1 hb
        injection h with h1 h2
        subst h1 h2
        exact ⟨b, [], by simp, hb, DU_nil _, fun rest' _ => by simp [decBody, hb1, hb]⟩
      · contradiction

theorem decInt_local (s : Bytes) (x : Bool × Bool × Bytes) (rest : Bytes) (h : decInt s = .ok x rest) :
    ∃ (sign : Option Bool) (d : Byte) (m : Bytes), s = signBytes sign ++ d :: (m ++ rest) ∧ isDigit d = true ∧
      DU isDigit m ∧
      ∀ rest', Stops isDigit rest' → decInt (signBytes sign ++ d :: (m ++ rest')) = .ok x rest' := by
  cases s with
  | nil => rw [decInt_nil] at h; contradiction
  | cons b r =>
    by_cases h1 : b = 0x2B
    · subst h1
      rw [decInt_plus] at h
      obtain ⟨d, m, e, hd, hm, hloc⟩ := decBody_local _ _ _ _ _ h
      exact ⟨some false, d, m, by simp [signBytes, e], hd, hm, fun rest' hs => by
        simp only [signBytes, List.cons_append, List.nil_append, decInt_plus]; exact hloc rest' hs⟩
    · by_cases h2 : b = 0x2D
      · subst h2
        rw [decInt_minus] at h
        obtain ⟨d, m, e, hd, hm, hloc⟩ := decBody_local _ _ _ _ _ h
        exact ⟨some true, d, m, by simp [signBytes, e], hd, hm, fun rest' hs => by
          simp only [signBytes, List.cons_append, List.nil_append, decInt_minus]; exact hloc rest' hs⟩
      · rw [decInt_nosign b r h1 h2] at h
        obtain ⟨d, m, e, hd, hm, hloc⟩ := decBody_local _ _ _ _ _ h
        have hf := digit_facts d hd
        exact ⟨none, d, m, by simp [signBytes, e], hd, hm, fun rest' hs => by
          simp only [signBytes, List.nil_append]
          rw [decInt_nosign d _ hf.1 hf.2.1]; exact hloc rest' hs⟩

/-! ## integers -/

theorem prefixedInt_local (isD : Byte → Bool) (base : Nat) (s rest : Bytes) (n : Int)
    (h : prefixedInt isD base s = .ok n rest) :
    ∃ m, s = m ++ rest ∧ ∀ rest', Stops isD rest' → prefixedInt isD base (m ++ rest') = .ok n rest' := by
  cases s with
  | nil => simp [prefixedInt] at h
  | cons b r =>
    simp only [prefixedInt] at h
    split at h
    · rename_i hb
      cases hrt : runTail isD r [b] with
      | ok ds rest0 =>
        rw [hrt] at h
        simp only [] at h
        split at h
        · rename_i hin
          injection h with h1 h2
          subst h1 h2
          obtain ⟨m, e, hm, hloc⟩ := runTail_local isD _ r [b] ds rest0 (Nat.le_refl _) hrt
          exact ⟨b :: m, by simp [e], fun rest' hs => by
            simp only [List.cons_append, prefixedInt, hb, if_true, hloc rest' hs, hin]⟩
        · cases h
      | bt => rw [hrt] at h; cases h
      | cut => rw [hrt] at h; cases h
    · cases h

theorem follow_int_facts : ∀ b : UInt8, isFollowByte b = true →
    isHexdig b = false ∧ isDigit0_7 b = false ∧ isDigit0_1 b = false ∧ isDigit b = false ∧ b ≠ 0x5F ∧
    b ≠ 0x2E ∧ b ≠ 0x78 ∧ b ≠ 0x6F ∧ b ≠ 0x62 ∧ b ≠ 0x65 ∧ b ≠ 0x45 :=
  forall_byte (by decide +kernel)

theorem stops_of_follow (isD : Byte → Bool) (rest : Bytes) (hr : ValFollow rest)
    (hD : ∀ b, isFollowByte b = true → isD b = false) : Stops isD rest := by
  cases rest with
  | nil => trivial
  | cons b r => exact ⟨hD b hr, (follow_int_facts b hr).2.2.2.2.1⟩

theorem du_not_radix : ∀ b : UInt8, isDigit b = true ∨ b = 0x5F → b ≠ 0x78 ∧ b ≠ 0x6F ∧ b ≠ 0x62 ∧ b ≠ 0x2E ∧ b ≠ 0x65 ∧ b ≠ 0x45 :=
  forall_byte (by decide +kernel)

/-- what follows the first digit of a decimal token (before a follow byte) is none of `x o b . e E` -/
theorem du_follow_head (m rest' : Bytes) (hm : DU isDigit m) (hr : ValFollow rest') :
    ∀ c t, m ++ rest' = c :: t → c ≠ 0x78 ∧ c ≠ 0x6F ∧ c ≠ 0x62 ∧ c ≠ 0x2E ∧ c ≠ 0x65 ∧ c ≠ 0x45 := by
  intro c t e
  cases m with
  | nil =>
    simp only [List.nil_append] at e
    subst e
    have := follow_int_facts c hr
    exact ⟨this.2.2.2.2.2.2.1, this.2.2.2.2.2.2.2.1, this.2.2.2.2.2.2.2.2.1, this.2.2.2.2.2.1,
      this.2.2.2.2.2.2.2.2.2.1, this.2.2.2.2.2.2.2.2.2.2⟩
  | cons x m' =>
    simp only [List.cons_append] at e
    injection e with e1 _
    subst e1
    exact du_not_radix x (hm x (by simp))

theorem intOfDec_transfer (s s' rest rest0 rest' : Bytes) (n : Int) (x : Bool × Bool × Bytes)
    (hd : decInt s = .ok x rest) (h : intOfDec s = .ok n rest0) (hd' : decInt s' = .ok x rest') :
    rest0 = rest ∧ intOfDec s' = .ok n rest' := by
  obtain ⟨neg, sg, ds⟩ := x
  unfold intOfDec at h ⊢
  rw [hd] at h
  rw [hd']
  simp only [] at h ⊢
  cases neg
  · simp only [Bool.false_eq_true, if_false] at h ⊢
    by_cases hin : inI64 (natOfDigitsBase 10 ds : Int) = true
    · simp only [hin, if_true] at h ⊢
      injection h with h1 h2
      exact ⟨h2.symm, by rw [h1]⟩
    · simp only [hin] at h
      cases h
  · simp only [if_true] at h ⊢
    by_cases hin : inI64 (-(natOfDigitsBase 10 ds : Int)) = true
    · simp only [hin, if_true] at h ⊢
      injection h with h1 h2
      exact ⟨h2.symm, by rw [h1]⟩
    · simp only [hin] at h
      cases h

/-- **integers**: the consumed text is `sign? digit …`, and before any follow byte it is read back as the same
    integer and is not a float -/
theorem integer_local (s rest : Bytes) (n : Int) (h : integer s = .ok n rest) :
    ∃ tok, s = tok ++ rest ∧ (∃ sign d X, tok = signBytes sign ++ d :: X ∧ isDigit d = true) ∧
      ∀ rest', ValFollow rest' → integer (tok ++ rest') = .ok n rest' ∧ float (tok ++ rest') = .bt := by
  rcases integer_cases s with ⟨c, t, e, hc⟩ | hdec
  · subst e
    have key : ∀ (isD : Byte → Bool) (base : Nat), (∀ b, isFollowByte b = true → isD b = false) →
        integer (0x30 :: c :: t) = prefixedInt isD base t →
        (∀ u, integer (0x30 :: c :: u) = prefixedInt isD base u) →
        ∃ tok, 0x30 :: c :: t = tok ++ rest ∧ (∃ sign d X, tok = signBytes sign ++ d :: X ∧ isDigit d = true) ∧
          ∀ rest', ValFollow rest' → integer (tok ++ rest') = .ok n rest' ∧ float (tok ++ rest') = .bt := by
      intro isD base hD e1 e2
      rw [e1] at h
      obtain ⟨m, em, hloc⟩ := prefixedInt_local isD base t rest n h
      refine ⟨0x30 :: c :: m, by simp [em], ⟨none, 0x30, c :: m, by simp [signBytes], by decide⟩, ?_⟩
      intro rest' hr
      refine ⟨?_, float_radix c _ hc⟩
      simp only [List.cons_append]
      rw [e2]
      exact hloc rest' (stops_of_follow isD rest' hr hD)
    rcases hc with hc | hc | hc
    · subst hc
      exact key isHexdig 16 (fun b hb => (follow_int_facts b hb).1) (integer_hex t) integer_hex
    · subst hc
      exact key isDigit0_7 8 (fun b hb => (follow_int_facts b hb).2.1) (integer_oct t) integer_oct
    · subst hc
      exact key isDigit0_1 2 (fun b hb => (follow_int_facts b hb).2.2.1) (integer_bin t) integer_bin
  · rw [hdec] at h
    obtain ⟨x, hd0⟩ := intOfDec_rest s rest n h
    obtain ⟨sign, d, m, e, hdg, hm, hloc⟩ := decInt_local _ _ _ hd0
    refine ⟨signBytes sign ++ d :: m, by simp [e], ⟨sign, d, m, rfl, hdg⟩, ?_⟩
    intro rest' hr
    have hst : Stops isDigit rest' := stops_of_follow isDigit rest' hr (fun b hb => (follow_int_facts b hb).2.2.2.1)
    have hd' := hloc rest' hst
    have hhead := du_follow_head m rest' hm hr
    have happ : (signBytes sign ++ d :: m) ++ rest' = signBytes sign ++ d :: (m ++ rest') := by simp
    rw [happ]
    constructor
    · rcases integer_cases (signBytes sign ++ d :: (m ++ rest')) with ⟨c, t, e', hc⟩ | hdec'
      · exfalso
        match sign, e' with
        | some true, e' => simp [signBytes] at e'
        | some false, e' => simp [signBytes] at e'
        | none, e' =>
          simp only [signBytes, List.nil_append] at e'
          injection e' with _ e''
          have := hhead c t e''
          rcases hc with hc | hc | hc
          · exact this.1 hc
          · exact this.2.1 hc
          · exact this.2.2.1 hc
      · rw [hdec']
        exact (intOfDec_transfer _ _ _ _ _ _ _ hd0 h hd').2
    · have hl : floatLit (signBytes sign ++ d :: (m ++ rest')) = .bt := by
        unfold floatLit
        rw [hd']
        simp only
        have he := expPart_bt rest' (floatStops_of_follow rest' hr)
        cases rest' with
        | nil => simp [expPart]
        | cons b r =>
          have hb := follow_int_facts b hr
          split
          · rename_i heq; injection heq with heq _; exact absurd heq hb.2.2.2.2.2.1
          · simp only [he]
      unfold float
      rw [hl]
      simp only
      exact specialFloat_bt_num sign d (m ++ rest') hdg

/-! ## floats -/

theorem expSignSplit_cases (r : Bytes) :
    (∃ t, r = 0x2B :: t ∧ expSignSplit r = (false, t)) ∨ (∃ t, r = 0x2D :: t ∧ expSignSplit r = (true, t)) ∨
      expSignSplit r = (false, r) := by
  unfold expSignSplit
  split
  · exact Or.inl ⟨_, rfl, rfl⟩
  · exact Or.inr (Or.inl ⟨_, rfl, rfl⟩)
  · exact Or.inr (Or.inr rfl)

theorem expPart_local (s : Bytes) (x : Bool × Bytes) (rest : Bytes) (h : expPart s = .ok x rest) :
    ∃ c m, s = c :: (m ++ rest) ∧ (c = 0x65 ∨ c = 0x45) ∧
      ∀ rest', Stops isDigit rest' → expPart (c :: (m ++ rest')) = .ok x rest' := by
  cases s with
  | nil => simp [expPart] at h
  | cons c r =>
    by_cases hc : c = 0x65 ∨ c = 0x45
    · rw [expPart_cons c r hc] at h
      cases hz : zeroPrefixableInt (expSignSplit r).2 with
      | ok ds rest0 =>
        rw [hz] at h
        simp only [] at h
        injection h with h1 h2
        subst h1 h2
        obtain ⟨d, m, e, hd, hm, hloc⟩ := zpi_local _ _ _ hz
        rcases expSignSplit_cases r with ⟨t, er, es⟩ | ⟨t, er, es⟩ | es
        · rw [es] at e
          simp only at e
          refine ⟨c, 0x2B :: d :: m, by rw [er, e]; simp, hc, ?_⟩
          intro rest' hs
          rw [List.cons_append, List.cons_append, expPart_cons c _ hc]
          have : expSignSplit (0x2B :: d :: (m ++ rest')) = (false, d :: (m ++ rest')) := rfl
          rw [this, es]
          simp only [hloc rest' hs]
        · rw [es] at e
          simp only at e
          refine ⟨c, 0x2D :: d :: m, by rw [er, e]; simp, hc, ?_⟩
          intro rest' hs
          rw [List.cons_append, List.cons_append, expPart_cons c _ hc]
          have : expSignSplit (0x2D :: d :: (m ++ rest')) = (true, d :: (m ++ rest')) := rfl
          rw [this, es]
          simp only [hloc rest' hs]
        · rw [es] at e
          simp only at e
          refine ⟨c, d :: m, by rw [e]; simp, hc, ?_⟩
          intro rest' hs
          have hf := digit_facts d hd
          rw [List.cons_append, expPart_cons c _ hc, expSignSplit_nosign d _ hf.1 hf.2.1, es]
          simp only [hloc rest' hs]
      | bt => rw [hz] at h; cases h
      | cut => rw [hz] at h; cases h
    · have h1 : c ≠ 0x65 := fun e => hc (Or.inl e)
      have h2 : c ≠ 0x45 := fun e => hc (Or.inr e)
      simp [expPart, h1, h2] at h

theorem floatLit_frac_exp (s r1 r2 r3 ids fds eds : Bytes) (neg sg en : Bool)
    (h1 : decInt s = .ok (neg, sg, ids) (0x2E :: r1)) (h2 : zeroPrefixableInt r1 = .ok fds r2)
    (h3 : expPart r2 = .ok (en, eds) r3) : floatLit s = .ok ⟨neg, ids, fds, en, eds⟩ r3 := by
  unfold floatLit
  rw [h1]
  simp only [h2, h3]

theorem floatLit_frac_noexp (s r1 r2 ids fds : Bytes) (neg sg : Bool)
    (h1 : decInt s = .ok (neg, sg, ids) (0x2E :: r1)) (h2 : zeroPrefixableInt r1 = .ok fds r2)
    (h3 : expPart r2 = .bt) : floatLit s = .ok ⟨neg, ids, fds, false, []⟩ r2 := by
  unfold floatLit
  rw [h1]
  simp only [h2, h3]

theorem floatLit_exp_only (s r r3 ids eds : Bytes) (neg sg en : Bool)
    (h1 : decInt s = .ok (neg, sg, ids) r) (hr : ∀ t, r ≠ 0x2E :: t)
    (h3 : expPart r = .ok (en, eds) r3) : floatLit s = .ok ⟨neg, ids, [], en, eds⟩ r3 := by
  unfold floatLit
  rw [h1]
  simp only [h3]

theorem stops_exp (c : Byte) (X : Bytes) (hc : c = 0x65 ∨ c = 0x45) : Stops isDigit (c :: X) := by
  rcases hc with rfl | rfl <;> exact ⟨by decide, by decide⟩

/-- **float literals**: the consumed text is `sign? digit …`, and before anything that cannot continue it
    (`FloatStops`: no digit, `_`, `e`, `E`) it lexes the same way -/
theorem floatLit_local (s rest : Bytes) (l : FloatLit) (h : floatLit s = .ok l rest) :
    ∃ tok, s = tok ++ rest ∧ (∃ sign d X, tok = signBytes sign ++ d :: X ∧ isDigit d = true) ∧
      ∀ rest', FloatStops rest' → floatLit (tok ++ rest') = .ok l rest' := by
  cases hd : decInt s with
  | bt => unfold floatLit at h; rw [hd] at h; cases h
  | cut => unfold floatLit at h; rw [hd] at h; cases h
  | ok x r =>
    obtain ⟨neg, sg, ids⟩ := x
    obtain ⟨sign, d, m, e, hdg, hm, hloc⟩ := decInt_local _ _ _ hd
    unfold floatLit at h
    rw [hd] at h
    simp only [] at h
    split at h
    · rename_i r1
      cases hz : zeroPrefixableInt r1 with
      | bt => rw [hz] at h; cases h
      | cut => rw [hz] at h; cases h
      | ok fds r2 =>
        rw [hz] at h
        simp only [] at h
        obtain ⟨d2, m2, e2, hd2, hm2, hloc2⟩ := zpi_local _ _ _ hz
        have hdot : ∀ X : Bytes, Stops isDigit (0x2E :: X) := fun X => ⟨by decide, by decide⟩
        cases he : expPart r2 with
        | cut => rw [he] at h; cases h
        | bt =>
          rw [he] at h
          simp only [] at h
          injection h with h1 h2
          subst h1 h2
          refine ⟨signBytes sign ++ d :: (m ++ 0x2E :: d2 :: m2), by rw [e, e2]; simp, ⟨sign, d, _, rfl, hdg⟩, ?_⟩
          intro rest' hs
          have happ : (signBytes sign ++ d :: (m ++ 0x2E :: d2 :: m2)) ++ rest' =
              signBytes sign ++ d :: (m ++ 0x2E :: (d2 :: (m2 ++ rest'))) := by simp
          rw [happ]
          exact floatLit_frac_noexp _ _ _ _ _ _ _ (hloc _ (hdot _)) (hloc2 rest' hs.stops) (expPart_bt rest' hs)
        | ok y r3 =>
          obtain ⟨en, eds⟩ := y
          rw [he] at h
          simp only [] at h
          injection h with h1 h2
          subst h1 h2
          obtain ⟨c, m3, e3, hc, hloc3⟩ := expPart_local _ _ _ he
          refine ⟨signBytes sign ++ d :: (m ++ 0x2E :: d2 :: (m2 ++ c :: m3)), by rw [e, e2, e3]; simp,
            ⟨sign, d, _, rfl, hdg⟩, ?_⟩
          intro rest' hs
          have happ : (signBytes sign ++ d :: (m ++ 0x2E :: d2 :: (m2 ++ c :: m3))) ++ rest' =
              signBytes sign ++ d :: (m ++ 0x2E :: (d2 :: (m2 ++ c :: (m3 ++ rest')))) := by simp
          rw [happ]
          exact floatLit_frac_exp _ _ _ _ _ _ _ _ _ _ (hloc _ (hdot _)) (hloc2 _ (stops_exp c _ hc)) (hloc3 rest' hs.stops)
    · rename_i hnd
      cases he : expPart r with
      | cut => rw [he] at h; cases h
      | bt => rw [he] at h; cases h
      | ok y r3 =>
        obtain ⟨en, eds⟩ := y
        rw [he] at h
        simp only [] at h
        injection h with h1 h2
        subst h1 h2
        obtain ⟨c, m3, e3, hc, hloc3⟩ := expPart_local _ _ _ he
        refine ⟨signBytes sign ++ d :: (m ++ c :: m3), by rw [e, e3]; simp, ⟨sign, d, _, rfl, hdg⟩, ?_⟩
        intro rest' hs
        have happ : (signBytes sign ++ d :: (m ++ c :: m3)) ++ rest' =
            signBytes sign ++ d :: (m ++ c :: (m3 ++ rest')) := by simp
        rw [happ]
        refine floatLit_exp_only _ _ _ _ _ _ _ _ (hloc _ (stops_exp c _ hc)) ?_ (hloc3 rest' hs.stops)
        intro t ht
        injection ht with ht _
        rcases hc with hc | hc <;> rw [hc] at ht <;> exact absurd ht (by decide)

theorem startsWith_split (p s t : Bytes) (h : startsWith p s = some t) : s = p ++ t := by
  unfold startsWith at h
  split at h
  · rename_i hp
    injection h with h
    have : s.take p.length = p := by simpa using hp
    rw [← h]
    conv => lhs; rw [← List.take_append_drop p.length s]
    rw [this]
  · cases h

theorem startsWith_self (p t : Bytes) : startsWith p (p ++ t) = some t := by
  simp [startsWith]

theorem specialBody_local (sgn : Nat) (r rest : Bytes) (b : Nat) (h : specialBody sgn r = .ok b rest) :
    ∃ c kw, r = c :: kw ++ rest ∧ (c = 0x69 ∨ c = 0x6E) ∧ ∀ rest', specialBody sgn (c :: kw ++ rest') = .ok b rest' := by
  unfold specialBody at h
  split at h
  · rename_i t ht
    injection h with h1 h2
    subst h1 h2
    refine ⟨0x69, [0x6E, 0x66], startsWith_split _ _ _ ht, Or.inl rfl, ?_⟩
    intro rest'
    unfold specialBody
    have : startsWith [0x69, 0x6E, 0x66] (0x69 :: [0x6E, 0x66] ++ rest') = some rest' := startsWith_self [0x69, 0x6E, 0x66] rest'
    rw [this]
  · split at h
    · rename_i t ht
      injection h with h1 h2
      subst h1 h2
      refine ⟨0x6E, [0x61, 0x6E], startsWith_split _ _ _ ht, Or.inr rfl, ?_⟩
      intro rest'
      unfold specialBody
      have h1 : startsWith [0x69, 0x6E, 0x66] (0x6E :: [0x61, 0x6E] ++ rest') = none := by simp [startsWith]
      have h2 : startsWith [0x6E, 0x61, 0x6E] (0x6E :: [0x61, 0x6E] ++ rest') = some rest' := startsWith_self [0x6E, 0x61, 0x6E] rest'
      rw [h1]
      simp only [h2]
    · cases h

theorem decBody_bt_letter (neg sg : Bool) (c : Byte) (X : Bytes) (hc : c = 0x69 ∨ c = 0x6E) :
    decBody neg sg (c :: X) = .bt := by
  rcases hc with rfl | rfl <;> rfl

theorem floatLit_bt_of_decInt (s : Bytes) (h : decInt s = .bt) : floatLit s = .bt := by
  unfold floatLit; rw [h]

theorem specialFloat_local (s rest : Bytes) (b : Nat) (h : specialFloat s = .ok b rest) :
    ∃ tok, s = tok ++ rest ∧ tok ≠ [] ∧
      ∀ rest', specialFloat (tok ++ rest') = .ok b rest' ∧ floatLit (tok ++ rest') = .bt := by
  cases s with
  | nil => rw [specialFloat_nil] at h; cases h
  | cons c r =>
    by_cases h1 : c = 0x2B
    · subst h1
      rw [specialFloat_plus] at h
      obtain ⟨c2, kw, e, hc2, hloc⟩ := specialBody_local _ _ _ _ h
      refine ⟨0x2B :: c2 :: kw, by rw [e]; simp, by simp, fun rest' => ⟨?_, ?_⟩⟩
      · rw [List.cons_append, specialFloat_plus]; exact hloc rest'
      · apply floatLit_bt_of_decInt
        rw [List.cons_append, decInt_plus]
        exact decBody_bt_letter _ _ _ _ hc2
    · by_cases h2 : c = 0x2D
      · subst h2
        rw [specialFloat_minus] at h
        obtain ⟨c2, kw, e, hc2, hloc⟩ := specialBody_local _ _ _ _ h
        refine ⟨0x2D :: c2 :: kw, by rw [e]; simp, by simp, fun rest' => ⟨?_, ?_⟩⟩
        · rw [List.cons_append, specialFloat_minus]; exact hloc rest'
        · apply floatLit_bt_of_decInt
          rw [List.cons_append, decInt_minus]
          exact decBody_bt_letter _ _ _ _ hc2
      · rw [specialFloat_nosign c r h1 h2] at h
        obtain ⟨c2, kw, e, hc2, hloc⟩ := specialBody_local _ _ _ _ h
        have hc2' : c2 ≠ 0x2B ∧ c2 ≠ 0x2D := by rcases hc2 with rfl | rfl <;> exact ⟨by decide, by decide⟩
        refine ⟨c2 :: kw, e, by simp, fun rest' => ⟨?_, ?_⟩⟩
        · rw [List.cons_append, specialFloat_nosign c2 _ hc2'.1 hc2'.2]; exact hloc rest'
        · apply floatLit_bt_of_decInt
          rw [List.cons_append, decInt_nosign c2 _ hc2'.1 hc2'.2]
          exact decBody_bt_letter _ _ _ _ hc2

/-- **floats**: before any follow byte the consumed text is read back as the same float -/
theorem float_local (s rest : Bytes) (bits : Nat) (h : float s = .ok bits rest) :
    ∃ tok, s = tok ++ rest ∧ tok ≠ [] ∧ ∀ rest', ValFollow rest' → float (tok ++ rest') = .ok bits rest' := by
  cases hl : floatLit s with
  | cut => unfold float at h; rw [hl] at h; cases h
  | ok l r0 =>
    unfold float at h
    rw [hl] at h
    simp only [] at h
    split at h
    · cases h
    · rename_i hfin
      injection h with h1 h2
      subst h1 h2
      obtain ⟨tok, e, ⟨sign, d, X, et, _⟩, hloc⟩ := floatLit_local _ _ _ hl
      refine ⟨tok, e, by rw [et]; cases sign <;> simp [signBytes], ?_⟩
      intro rest' hr
      unfold float
      rw [hloc rest' (floatStops_of_follow rest' hr)]
      simp only [hfin]
      rfl
  | bt =>
    unfold float at h
    rw [hl] at h
    simp only [] at h
    obtain ⟨tok, e, hne, hloc⟩ := specialFloat_local _ _ _ h
    refine ⟨tok, e, hne, ?_⟩
    intro rest' _
    unfold float
    rw [(hloc rest').2]
    exact (hloc rest').1

end TomlVerif.Lemmas.Sound01
