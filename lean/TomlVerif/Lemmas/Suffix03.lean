import TomlVerif.Model.Value
import TomlVerif.Model.Datetime
/-! Every token parser of the model returns a rest that is a strict suffix of its input. -/
namespace TomlVerif.Lemmas.Suffix03
open TomlVerif TomlVerif.Spec TomlVerif.Model

/-- `r` is a strict suffix of `s` -/
def Adv (r s : Bytes) : Prop := r <:+ s ∧ r.length < s.length

theorem Adv.suffix {r s : Bytes} (h : Adv r s) : r <:+ s := h.1

theorem adv_cons {r s : Bytes} (b : UInt8) (h : r <:+ s) : Adv r (b :: s) := by
  refine ⟨h.trans (List.suffix_cons b s), ?_⟩
  have := h.length_le
  simp only [List.length_cons]
  omega

theorem adv_tail (b : UInt8) (s : Bytes) : Adv s (b :: s) := adv_cons b (List.suffix_refl s)

theorem Adv.trans_suffix {a b c : Bytes} (h1 : Adv a b) (h2 : b <:+ c) : Adv a c := by
  refine ⟨h1.1.trans h2, ?_⟩
  have := h2.length_le
  have := h1.2
  omega

theorem suffix_trans_adv {a b c : Bytes} (h1 : a <:+ b) (h2 : Adv b c) : Adv a c := by
  refine ⟨h1.trans h2.1, ?_⟩
  have := h1.length_le
  have := h2.2
  omega

theorem Adv.trans {a b c : Bytes} (h1 : Adv a b) (h2 : Adv b c) : Adv a c :=
  h1.trans_suffix h2.1

/-! ### strings -/

theorem newline?_adv {s r : Bytes} (h : Strings.newline? s = some r) : Adv r s := by
  unfold Strings.newline? at h
  split at h
  · injection h with h; subst h; exact adv_tail _ _
  · injection h with h; subst h; exact (adv_tail _ _).trans (adv_tail _ _)
  · cases h

theorem newline?_suffix {s r : Bytes} (h : Strings.newline? s = some r) : r <:+ s :=
  (newline?_adv h).1

theorem newline?_getD_suffix (s : Bytes) : (Strings.newline? s).getD s <:+ s := by
  cases h : Strings.newline? s with
  | none => exact List.suffix_refl _
  | some r => exact newline?_suffix h

theorem dropWs_suffix (s : Bytes) : Strings.dropWs s <:+ s := by
  induction s with
  | nil => exact List.suffix_refl _
  | cons b r ih =>
    unfold Strings.dropWs
    split
    · exact ih.trans (List.suffix_cons b r)
    · exact List.suffix_refl _

theorem dropWsNewline_suffix (fuel : Nat) (s : Bytes) : Strings.dropWsNewline fuel s <:+ s := by
  induction fuel generalizing s with
  | zero => unfold Strings.dropWsNewline; exact List.suffix_refl _
  | succ n ih =>
    unfold Strings.dropWsNewline
    split
    · exact List.suffix_refl _
    · rename_i b r
      split
      · exact (ih r).trans (List.suffix_cons b r)
      · split
        · rename_i r' hnl
          exact (ih r').trans (newline?_suffix hnl)
        · exact List.suffix_refl _

theorem hexN_suffix (n : Nat) (s : Bytes) (acc v : Nat) (r : Bytes)
    (h : Strings.hexN n s acc = some (v, r)) : r <:+ s := by
  induction n generalizing s acc with
  | zero =>
    unfold Strings.hexN at h
    injection h with h; injection h with h1 h2; subst h2; exact List.suffix_refl _
  | succ n ih =>
    cases s with
    | nil => unfold Strings.hexN at h; cases h
    | cons b t =>
      unfold Strings.hexN at h
      split at h
      · exact (ih _ _ h).trans (List.suffix_cons b t)
      · cases h

theorem hexescape_suffix (n : Nat) (s : Bytes) (c r : Bytes)
    (h : Strings.hexescape n s = .ok c r) : r <:+ s := by
  unfold Strings.hexescape at h
  split at h
  · rename_i cp r' hx
    split at h
    · injection h with h1 h2; subst h2; exact hexN_suffix _ _ _ _ _ hx
    · cases h
  · cases h

theorem escapeSeqChar_adv (s c r : Bytes) (h : Strings.escapeSeqChar s = .ok c r) : Adv r s := by
  unfold Strings.escapeSeqChar at h
  split at h
  · cases h
  · rename_i b t
    repeat' split at h
    all_goals first
      | (injection h with h1 h2; subst h2; exact adv_tail _ _)
      | exact adv_cons _ (hexescape_suffix _ _ _ _ h)
      | cases h

theorem basicBody_adv (fuel : Nat) (s acc v r : Bytes)
    (h : Strings.basicBody fuel s acc = .ok v r) : Adv r s := by
  induction fuel generalizing s acc with
  | zero => unfold Strings.basicBody at h; cases h
  | succ n ih =>
    unfold Strings.basicBody at h
    split at h
    · cases h
    · rename_i b t
      split at h
      · exact (ih _ _ h).trans (adv_tail _ _)
      · split at h
        · split at h
          · rename_i c r' he
            exact ((ih _ _ h).trans (escapeSeqChar_adv _ _ _ he)).trans (adv_tail _ _)
          · cases h
        · split at h
          · injection h with h1 h2; subst h2; exact adv_tail _ _
          · cases h

theorem basicString_adv (s v r : Bytes) (h : Strings.basicString s = .ok v r) : Adv r s := by
  unfold Strings.basicString at h
  split at h
  · exact (basicBody_adv _ _ _ _ _ h).trans (adv_tail _ _)
  · cases h

theorem takeLiteral_suffix (s : Bytes) : (Strings.takeLiteral s).2 <:+ s := by
  induction s with
  | nil => exact List.suffix_refl _
  | cons b t ih =>
    unfold Strings.takeLiteral
    split
    · exact ih.trans (List.suffix_cons b t)
    · exact List.suffix_refl _

theorem literalString_adv (s v r : Bytes) (h : Strings.literalString s = .ok v r) : Adv r s := by
  unfold Strings.literalString at h
  split at h
  · rename_i t
    split at h
    · rename_i body t' ht
      injection h with h1 h2; subst h2
      have := takeLiteral_suffix t
      rw [ht] at this
      exact ((adv_tail _ _).trans_suffix this).trans (adv_tail _ _)
    · cases h
  · cases h

theorem mlbEscapedNl_suffix (fuel : Nat) (s r : Bytes)
    (h : Strings.mlbEscapedNl fuel s = some r) : r <:+ s := by
  unfold Strings.mlbEscapedNl at h
  split at h
  · rename_i r' hn
    injection h with h; subst h
    exact ((dropWsNewline_suffix _ _).trans (newline?_suffix hn)).trans (dropWs_suffix s)
  · cases h

theorem drop_min_adv (b : UInt8) (t : Bytes) (n : Nat) (hn : 3 ≤ n) :
    Adv ((b :: t).drop (min n 5)) (b :: t) := by
  refine ⟨List.drop_suffix _ _, ?_⟩
  simp only [List.length_drop, List.length_cons]
  omega

theorem mlBasicBody_adv (fuel : Nat) (s acc v r : Bytes)
    (h : Strings.mlBasicBody fuel s acc = .ok v r) : Adv r s := by
  induction fuel generalizing s acc with
  | zero => unfold Strings.mlBasicBody at h; cases h
  | succ n ih =>
    unfold Strings.mlBasicBody at h
    split at h
    · cases h
    · rename_i b t
      split at h
      · exact (ih _ _ h).trans (adv_tail _ _)
      · split at h
        · split at h
          · rename_i r' he
            exact (ih _ _ h).trans (adv_cons _ (mlbEscapedNl_suffix _ _ _ he))
          · split at h
            · rename_i c r' he
              exact ((ih _ _ h).trans (escapeSeqChar_adv _ _ _ he)).trans (adv_tail _ _)
            · cases h
        · split at h
          · simp only [] at h
            split at h
            · rename_i h3
              injection h with h1 h2; subst h2
              exact drop_min_adv _ _ _ h3
            · split at h
              · cases h
              · exact (ih _ _ h).trans (adv_tail _ _)
          · split at h
            · rename_i r' hn
              exact (ih _ _ h).trans (newline?_adv hn)
            · cases h

theorem mlBasicString_adv (s v r : Bytes) (h : Strings.mlBasicString s = .ok v r) : Adv r s := by
  unfold Strings.mlBasicString at h
  split at h
  · rename_i t
    simp only [] at h
    have h1 := mlBasicBody_adv _ _ _ _ _ h
    exact (((h1.trans_suffix (newline?_getD_suffix t)).trans (adv_tail _ _)).trans (adv_tail _ _)).trans (adv_tail _ _)
  · cases h

theorem mlLiteralBody_adv (fuel : Nat) (s acc v r : Bytes)
    (h : Strings.mlLiteralBody fuel s acc = .ok v r) : Adv r s := by
  induction fuel generalizing s acc with
  | zero => unfold Strings.mlLiteralBody at h; cases h
  | succ n ih =>
    unfold Strings.mlLiteralBody at h
    split at h
    · cases h
    · rename_i b t
      split at h
      · exact (ih _ _ h).trans (adv_tail _ _)
      · split at h
        · simp only [] at h
          split at h
          · rename_i h3
            injection h with h1 h2; subst h2
            exact drop_min_adv _ _ _ h3
          · split at h
            · cases h
            · exact (ih _ _ h).trans (adv_tail _ _)
        · split at h
          · rename_i r' hn
            exact (ih _ _ h).trans (newline?_adv hn)
          · cases h

theorem mlLiteralString_adv (s v r : Bytes) (h : Strings.mlLiteralString s = .ok v r) : Adv r s := by
  unfold Strings.mlLiteralString at h
  split at h
  · rename_i t
    simp only [] at h
    have h1 := mlLiteralBody_adv _ _ _ _ _ h
    exact (((h1.trans_suffix (newline?_getD_suffix t)).trans (adv_tail _ _)).trans (adv_tail _ _)).trans (adv_tail _ _)
  · cases h

theorem string_adv (s v r : Bytes) (h : Strings.string s = .ok v r) : Adv r s := by
  unfold Strings.string at h
  split at h
  · split at h
    · split at h
      · exact literalString_adv _ _ _ h
      · exact mlLiteralString_adv _ _ _ h
    · exact basicString_adv _ _ _ h
  · exact mlBasicString_adv _ _ _ h

theorem string_suffix (s r : Bytes) (v : Bytes) (h : Strings.string s = .ok v r) :
    r <:+ s ∧ r.length < s.length := string_adv s v r h

/-! ### keys -/

theorem takeUnquoted_suffix (s : Bytes) : (Key.takeUnquoted s).2 <:+ s := by
  induction s with
  | nil => exact List.suffix_refl _
  | cons b t ih =>
    unfold Key.takeUnquoted
    split
    · exact ih.trans (List.suffix_cons b t)
    · exact List.suffix_refl _

theorem takeUnquoted_length (s : Bytes) :
    (Key.takeUnquoted s).1.length + (Key.takeUnquoted s).2.length = s.length := by
  induction s with
  | nil => rfl
  | cons b t ih =>
    unfold Key.takeUnquoted
    split
    · simp only [List.length_cons]; omega
    · simp

theorem unquotedKey_adv (s k r : Bytes) (h : Key.unquotedKey s = .ok k r) : Adv r s := by
  unfold Key.unquotedKey at h
  have h1 := takeUnquoted_suffix s
  have h2 := takeUnquoted_length s
  split at h
  · cases h
  · rename_i k' r' hne ht
    injection h with e1 e2; subst e1; subst e2
    rw [ht] at h1 h2
    refine ⟨h1, ?_⟩
    cases k' with
    | nil => exact absurd rfl hne
    | cons x xs => simp only [List.length_cons] at h2; omega

theorem simpleKey_adv (s k r : Bytes) (h : Key.simpleKey s = .ok k r) : Adv r s := by
  unfold Key.simpleKey at h
  split at h
  · cases h
  · split at h
    · exact basicString_adv _ _ _ h
    · split at h
      · exact literalString_adv _ _ _ h
      · exact unquotedKey_adv _ _ _ h

theorem simpleKey_suffix (s r : Bytes) (k : Bytes) (h : Key.simpleKey s = .ok k r) :
    r <:+ s ∧ r.length < s.length := simpleKey_adv s k r h

/-! ### numbers -/

theorem startsWith_suffix (p s r : Bytes) (h : Numbers.startsWith p s = some r) :
    r <:+ s ∧ r.length + p.length = s.length := by
  unfold Numbers.startsWith at h
  split at h
  · rename_i ht
    injection h with h; subst h
    refine ⟨List.drop_suffix _ _, ?_⟩
    have ht' : s.take p.length = p := by simpa using ht
    have hl : (s.take p.length).length = p.length := by rw [ht']
    simp only [List.length_take] at hl
    simp only [List.length_drop]
    omega
  · cases h

theorem startsWith_adv (p s r : Bytes) (hp : p ≠ []) (h : Numbers.startsWith p s = some r) : Adv r s := by
  obtain ⟨h1, h2⟩ := startsWith_suffix p s r h
  refine ⟨h1, ?_⟩
  cases p with
  | nil => exact absurd rfl hp
  | cons x xs => simp only [List.length_cons] at h2; omega

theorem keyword_adv (kw s r : Bytes) (h : Numbers.keyword kw s = .ok () r) : Adv r s := by
  unfold Numbers.keyword at h
  split at h
  · split at h
    · split at h
      · rename_i r' hs
        injection h with h1 h2; subst h2
        exact startsWith_adv _ _ _ (by simp) hs
      · cases h
    · cases h
  · cases h

theorem keyword_suffix (kw s r : Bytes) (h : Numbers.keyword kw s = .ok () r) :
    r <:+ s ∧ r.length < s.length := keyword_adv kw s r h

theorem runTail_suffix_aux (isD : Byte → Bool) (n : Nat) (s acc v r : Bytes) (hn : s.length ≤ n)
    (h : Numbers.runTail isD s acc = .ok v r) : r <:+ s := by
  induction n generalizing s acc with
  | zero =>
    cases s with
    | nil =>
      unfold Numbers.runTail at h
      injection h with h1 h2; subst h2; exact List.suffix_refl _
    | cons b t => simp at hn
  | succ n ih =>
    cases s with
    | nil =>
      unfold Numbers.runTail at h
      injection h with h1 h2; subst h2; exact List.suffix_refl _
    | cons b t =>
      simp only [List.length_cons] at hn
      unfold Numbers.runTail at h
      split at h
      · exact (ih _ _ (by omega) h).trans (List.suffix_cons b t)
      · split at h
        · split at h
          · rename_i d r'
            simp only [List.length_cons] at hn
            split at h
            · exact ((ih _ _ (by omega) h).trans (List.suffix_cons _ _)).trans (List.suffix_cons _ _)
            · cases h
          · cases h
        · injection h with h1 h2; subst h2; exact List.suffix_refl _

theorem runTail_suffix (isD : Byte → Bool) (s acc v r : Bytes)
    (h : Numbers.runTail isD s acc = .ok v r) : r <:+ s :=
  runTail_suffix_aux isD s.length s acc v r (Nat.le_refl _) h

theorem zeroPrefixableInt_adv (s v r : Bytes) (h : Numbers.zeroPrefixableInt s = .ok v r) : Adv r s := by
  unfold Numbers.zeroPrefixableInt at h
  split at h
  · split at h
    · exact adv_cons _ (runTail_suffix _ _ _ _ _ h)
    · cases h
  · cases h

theorem decInt_adv (s r : Bytes) (v : Bool × Bool × Bytes) (h : Numbers.decInt s = .ok v r) : Adv r s := by
  unfold Numbers.decInt at h
  split at h
  rename_i neg signed s' hs
  have hs' : s' <:+ s := by
    split at hs
    · injection hs with _ hs; injection hs with _ hs; subst hs; exact List.suffix_cons _ _
    · injection hs with _ hs; injection hs with _ hs; subst hs; exact List.suffix_cons _ _
    · injection hs with _ hs; injection hs with _ hs; subst hs; exact List.suffix_refl _
  split at h
  · rename_i b t
    split at h
    · unfold Res.map at h
      split at h
      · rename_i ds r' hr
        injection h with h1 h2; subst h2
        exact (adv_cons _ (runTail_suffix _ _ _ _ _ hr)).trans_suffix hs'
      · cases h
      · cases h
    · split at h
      · injection h with h1 h2; subst h2
        exact (adv_tail _ _).trans_suffix hs'
      · cases h
  · cases h

theorem prefixedInt_suffix (isD : Byte → Bool) (base : Nat) (s r : Bytes) (n : Int)
    (h : Numbers.prefixedInt isD base s = .ok n r) : r <:+ s := by
  unfold Numbers.prefixedInt at h
  split at h
  · split at h
    · split at h
      · rename_i ds rest hr
        simp only [] at h
        split at h
        · injection h with h1 h2; subst h2
          exact (runTail_suffix _ _ _ _ _ hr).trans (List.suffix_cons _ _)
        · cases h
      · cases h
    · cases h
  · cases h

theorem integer_adv (s r : Bytes) (n : Int) (h : Numbers.integer s = .ok n r) : Adv r s := by
  unfold Numbers.integer at h
  split at h
  · exact (adv_cons _ (prefixedInt_suffix _ _ _ _ _ h)).trans (adv_tail _ _)
  · exact (adv_cons _ (prefixedInt_suffix _ _ _ _ _ h)).trans (adv_tail _ _)
  · exact (adv_cons _ (prefixedInt_suffix _ _ _ _ _ h)).trans (adv_tail _ _)
  · split at h
    · rename_i neg sg ds rest hd
      have hd' := decInt_adv _ _ _ hd
      simp only [] at h
      repeat' split at h
      all_goals first
        | (injection h with h1 h2; subst h2; exact hd')
        | cases h
    · cases h
    · cases h

theorem integer_suffix (s r : Bytes) (n : Int) (h : Numbers.integer s = .ok n r) :
    r <:+ s ∧ r.length < s.length := integer_adv s r n h

theorem expPart_adv (s r : Bytes) (v : Bool × Bytes) (h : Numbers.expPart s = .ok v r) : Adv r s := by
  unfold Numbers.expPart at h
  split at h
  · rename_i c t
    split at h
    · split at h
      rename_i neg r' hs
      have hs' : r' <:+ t := by
        split at hs
        · injection hs with _ hs; subst hs; exact List.suffix_cons _ _
        · injection hs with _ hs; subst hs; exact List.suffix_cons _ _
        · injection hs with _ hs; subst hs; exact List.suffix_refl _
      split at h
      · rename_i ds rest hz
        injection h with h1 h2; subst h2
        exact ((zeroPrefixableInt_adv _ _ _ hz).trans_suffix hs').trans (adv_tail _ _)
      · cases h
    · cases h
  · cases h

theorem floatLit_adv (s r : Bytes) (l : Numbers.FloatLit) (h : Numbers.floatLit s = .ok l r) : Adv r s := by
  unfold Numbers.floatLit at h
  split at h
  · rename_i neg sg ids r0 hd
    have hd' := decInt_adv _ _ _ hd
    split at h
    · rename_i r1
      split at h
      · rename_i fds r2 hz
        have hz' := zeroPrefixableInt_adv _ _ _ hz
        split at h
        · rename_i en eds r3 he
          injection h with h1 h2; subst h2
          exact (((expPart_adv _ _ _ he).trans hz').trans (adv_tail _ _)).trans hd'
        · injection h with h1 h2; subst h2
          exact (hz'.trans (adv_tail _ _)).trans hd'
        · cases h
      · cases h
    · split at h
      · rename_i en eds r3 he
        injection h with h1 h2; subst h2
        exact (expPart_adv _ _ _ he).trans hd'
      · cases h
      · cases h
  · cases h
  · cases h

theorem specialFloat_adv (s r : Bytes) (b : Nat) (h : Numbers.specialFloat s = .ok b r) : Adv r s := by
  unfold Numbers.specialFloat at h
  split at h
  rename_i neg t hs
  have hs' : t <:+ s := by
    split at hs
    · injection hs with _ hs; subst hs; exact List.suffix_cons _ _
    · injection hs with _ hs; subst hs; exact List.suffix_cons _ _
    · injection hs with _ hs; subst hs; exact List.suffix_refl _
  simp only [] at h
  split at h
  · rename_i t' hw
    injection h with h1 h2; subst h2
    exact (startsWith_adv _ _ _ (by simp) hw).trans_suffix hs'
  · split at h
    · rename_i t' hw
      injection h with h1 h2; subst h2
      exact (startsWith_adv _ _ _ (by simp) hw).trans_suffix hs'
    · cases h

theorem float_adv (s r : Bytes) (b : Nat) (h : Numbers.float s = .ok b r) : Adv r s := by
  unfold Numbers.float at h
  split at h
  · rename_i l rest hl
    simp only [] at h
    split at h
    · cases h
    · injection h with h1 h2; subst h2
      exact floatLit_adv _ _ _ hl
  · cases h
  · exact specialFloat_adv _ _ _ h

theorem float_suffix (s r : Bytes) (b : Nat) (h : Numbers.float s = .ok b r) :
    r <:+ s ∧ r.length < s.length := float_adv s r b h

/-! ### date-times -/

theorem digits2_adv (s r : Bytes) (v : Nat) (h : Datetime.digits2 s = some (v, r)) : Adv r s := by
  unfold Datetime.digits2 at h
  split at h
  · split at h
    · injection h with h; injection h with h1 h2; subst h2
      exact (adv_tail _ _).trans (adv_tail _ _)
    · cases h
  · cases h

theorem digits4_adv (s r : Bytes) (v : Nat) (h : Datetime.digits4 s = some (v, r)) : Adv r s := by
  unfold Datetime.digits4 at h
  split at h
  · split at h
    · injection h with h; injection h with h1 h2; subst h2
      exact (((adv_tail _ _).trans (adv_tail _ _)).trans (adv_tail _ _)).trans (adv_tail _ _)
    · cases h
  · cases h

theorem takeDigits_suffix (s : Bytes) : (Datetime.takeDigits s).2 <:+ s := by
  induction s with
  | nil => exact List.suffix_refl _
  | cons b t ih =>
    unfold Datetime.takeDigits
    split
    · exact ih.trans (List.suffix_cons b t)
    · exact List.suffix_refl _

theorem secfracOpt_suffix (s : Bytes) : (Datetime.Doc.secfracOpt s).2 <:+ s := by
  unfold Datetime.Doc.secfracOpt
  split
  · rename_i t
    have := takeDigits_suffix t
    split
    · exact List.suffix_refl _
    · rename_i ds t' hne ht
      rw [ht] at this
      exact this.trans (List.suffix_cons _ _)
  · exact List.suffix_refl _

theorem fullDate_adv (s r : Bytes) (d : Datetime.Date) (h : Datetime.Doc.fullDate s = .ok d r) : Adv r s := by
  unfold Datetime.Doc.fullDate at h
  split at h
  · cases h
  · rename_i year r0 h4
    have a4 := digits4_adv _ _ _ h4
    split at h
    · rename_i r1
      split at h
      · cases h
      · rename_i month r2 hm
        have am := digits2_adv _ _ _ hm
        split at h
        · cases h
        · split at h
          · rename_i r3
            split at h
            · cases h
            · rename_i day r4 hd
              have ad := digits2_adv _ _ _ hd
              split at h
              · cases h
              · split at h
                · cases h
                · injection h with h1 h2; subst h2
                  exact (((ad.trans (adv_tail _ _)).trans am).trans (adv_tail _ _)).trans a4
          · cases h
    · cases h

theorem partialTime_adv (s r : Bytes) (t : Datetime.Time) (h : Datetime.Doc.partialTime s = .ok t r) : Adv r s := by
  unfold Datetime.Doc.partialTime at h
  split at h
  · cases h
  · rename_i hour r0 hh
    have ah := digits2_adv _ _ _ hh
    split at h
    · cases h
    · split at h
      · rename_i r1
        split at h
        · cases h
        · rename_i minute r2 hm
          have am := digits2_adv _ _ _ hm
          split at h
          · cases h
          · split at h
            · rename_i r3
              split at h
              · cases h
              · rename_i second r4 hs
                have as := digits2_adv _ _ _ hs
                split at h
                · cases h
                · have hf := secfracOpt_suffix r4
                  split at h
                  rename_i ns r5 hfe
                  rw [hfe] at hf
                  injection h with h1 h2; subst h2
                  exact (((suffix_trans_adv hf (as.trans (adv_tail _ _))).trans am).trans (adv_tail _ _)).trans ah
            · cases h
      · cases h

theorem timeOffset_adv (s r : Bytes) (o : Datetime.Offset) (h : Datetime.Doc.timeOffset s = .ok o r) : Adv r s := by
  unfold Datetime.Doc.timeOffset at h
  split at h
  · cases h
  · rename_i c t
    split at h
    · injection h with h1 h2; subst h2; exact adv_tail _ _
    · split at h
      · split at h
        · cases h
        · rename_i hh r1 hd
          have ah := digits2_adv _ _ _ hd
          split at h
          · cases h
          · split at h
            · rename_i r2
              split at h
              · cases h
              · rename_i m r3 hm
                have am := digits2_adv _ _ _ hm
                split at h
                · cases h
                · have fin := fun (r' : Bytes) (e : r3 = r') =>
                    e ▸ ((am.trans (adv_tail _ _)).trans ah).trans (adv_tail c _)
                  simp only [] at h
                  repeat' split at h
                  all_goals first
                    | (injection h with h1 h2; exact fin _ h2)
                    | cases h
            · cases h
      · cases h

theorem dateTime_adv (s r : Bytes) (d : Datetime.Datetime) (h : Datetime.Doc.dateTime s = .ok d r) : Adv r s := by
  unfold Datetime.Doc.dateTime at h
  split at h
  · rename_i dd r0 hd
    have ad := fullDate_adv _ _ _ hd
    split at h
    · rename_i c r1
      split at h
      · split at h
        · rename_i t r2 ht
          have at' := partialTime_adv _ _ _ ht
          split at h
          · rename_i o r3 ho
            injection h with h1 h2; subst h2
            exact (((timeOffset_adv _ _ _ ho).trans at').trans (adv_tail _ _)).trans ad
          · injection h with h1 h2; subst h2
            exact (at'.trans (adv_tail _ _)).trans ad
          · cases h
        · injection h with h1 h2; subst h2; exact ad
        · cases h
      · injection h with h1 h2; subst h2; exact ad
    · injection h with h1 h2; subst h2; exact ad
  · cases h
  · split at h
    · rename_i t r1 ht
      injection h with h1 h2; subst h2
      exact partialTime_adv _ _ _ ht
    · cases h
    · cases h

theorem dateTime_suffix (s r : Bytes) (d : Datetime.Datetime) (h : Datetime.Doc.dateTime s = .ok d r) :
    r <:+ s ∧ r.length < s.length := dateTime_adv s r d h

/-! ### scalar values -/

theorem map_ok {α β} (f : α → β) (x : Res α) (v : β) (r : Bytes) (h : x.map f = .ok v r) :
    ∃ w, x = .ok w r := by
  cases x with
  | ok w r' => unfold Res.map at h; injection h with h1 h2; subst h2; exact ⟨w, rfl⟩
  | bt => cases h
  | cut => cases h

theorem arrayValues_zero (d : Nat) (s : Bytes) : Value.arrayValues 0 d s = .cut := by
  unfold Value.arrayValues; rfl

theorem inlineKeyvals_zero (d : Nat) (s : Bytes) (acc) : Value.inlineKeyvals 0 d s acc = .cut := by
  unfold Value.inlineKeyvals; rfl

theorem scalar_adv (d : Nat) (s r : Bytes) (v : Val) (h : Value.value 1 d s = .ok v r) : Adv r s := by
  unfold Value.value at h
  split at h
  · cases h
  · rename_i b t
    split at h
    · obtain ⟨w, hw⟩ := map_ok _ _ _ _ h
      exact string_adv _ _ _ hw
    · split at h
      · split at h
        · cases h
        · rw [arrayValues_zero] at h
          cases h
      · split at h
        · split at h
          · cases h
          · rw [inlineKeyvals_zero] at h
            cases h
        · split at h
          · split at h
            · rename_i dtv r1 hd
              injection h with h1 h2; subst h2
              exact dateTime_adv _ _ _ hd
            · cases h
            · split at h
              · rename_i bits r1 hf
                injection h with h1 h2; subst h2
                exact float_adv _ _ _ hf
              · cases h
              · obtain ⟨w, hw⟩ := map_ok _ _ _ _ h
                exact integer_adv _ _ _ hw
          · split at h
            · obtain ⟨w, hw⟩ := map_ok _ _ _ _ h
              exact integer_adv _ _ _ hw
            · split at h
              · obtain ⟨w, hw⟩ := map_ok _ _ _ _ h
                exact float_adv _ _ _ hw
              · split at h
                · obtain ⟨w, hw⟩ := map_ok _ _ _ _ h
                  exact keyword_adv _ _ _ hw
                · split at h
                  · obtain ⟨w, hw⟩ := map_ok _ _ _ _ h
                    exact keyword_adv _ _ _ hw
                  · split at h
                    · split at h
                      · rename_i r1 hs
                        injection h with h1 h2; subst h2
                        exact startsWith_adv _ _ _ (by simp) hs
                      · cases h
                    · split at h
                      · split at h
                        · rename_i r1 hs
                          injection h with h1 h2; subst h2
                          exact startsWith_adv _ _ _ (by simp) hs
                        · cases h
                      · cases h

theorem scalar_suffix (d : Nat) (s r : Bytes) (v : Val) (h : Value.value 1 d s = .ok v r) :
    r <:+ s ∧ r.length < s.length := scalar_adv d s r v h

end TomlVerif.Lemmas.Suffix03
