import TomlVerif.Model.Cst
/-! Erasure simulation, layer 1-3 (C03): keys, association lists and inline-table insertion of the
    format-preserving parser decode the same data as their semantic twins. -/
namespace TomlVerif.Lemmas.Tiling03More
open TomlVerif TomlVerif.Spec TomlVerif.Model TomlVerif.Model.Strings TomlVerif.Model.Value
open TomlVerif.Model.Cst

/-- the decoded texts of a key path -/
def keysOf (l : List CKey) : List Bytes := l.map (·.key)

@[simp] theorem keysOf_nil : keysOf [] = [] := rfl
@[simp] theorem keysOf_cons (k : CKey) (l : List CKey) : keysOf (k :: l) = k.key :: keysOf l := rfl
@[simp] theorem keysOf_append (a b : List CKey) : keysOf (a ++ b) = keysOf a ++ keysOf b := by
  simp [keysOf]
@[simp] theorem keysOf_length (a : List CKey) : (keysOf a).length = a.length := by simp [keysOf]
theorem keysOf_isEmpty (a : List CKey) : (keysOf a).isEmpty = a.isEmpty := by cases a <;> rfl

theorem map_ok {α β} (f : α → β) (v : α) (r : Bytes) : (Res.ok v r).map f = .ok (f v) r := rfl
theorem map_bt {α β} (f : α → β) : (Res.bt : Res α).map f = .bt := rfl
theorem map_cut {α β} (f : α → β) : (Res.cut : Res α).map f = .cut := rfl

/-! ### keys -/

theorem ckeyPathAux_erase (n : Nat) : ∀ (fuel : Nat) (s : Bytes) (acc : List CKey),
    (ckeyPathAux n fuel s acc).map keysOf = keyPathAux fuel s (keysOf acc) := by
  intro fuel
  induction fuel with
  | zero => intro s acc; rfl
  | succ fuel ih =>
    intro s acc
    unfold ckeyPathAux keyPathAux
    simp only []
    cases hk : Key.simpleKey (dropWs s) with
    | bt => rfl
    | cut => rfl
    | ok k r =>
      simp only []
      generalize dropWs r = r1
      split
      · rename_i r2
        simp only []
        have := ih r2 (acc ++ [⟨k, rawBetween n (dropWs s) r, {}, Decor.new (rawBetween n s (dropWs s)) (rawBetween n r (0x2E :: r2))⟩])
        simp only [keysOf_append, keysOf_cons, keysOf_nil] at this
        rw [← this]
        cases ckeyPathAux n fuel r2 (acc ++ [⟨k, rawBetween n (dropWs s) r, {}, Decor.new (rawBetween n s (dropWs s)) (rawBetween n r (0x2E :: r2))⟩]) with
        | bt => simp [Res.map]
        | cut => simp [Res.map]
        | ok v r => simp [Res.map]
      · rename_i hne
        split
        · rename_i r2; exact absurd rfl (hne r2)
        · simp [Res.map]

/-! ### `splitLast` -/

theorem vsplitLast_some {α} : ∀ (l i : List α) (x : α), Value.splitLast l = some (i, x) → l = i ++ [x]
  | [], _, _, h => by simp [Value.splitLast] at h
  | [a], i, x, h => by
    simp only [Value.splitLast, Option.some.injEq, Prod.mk.injEq] at h
    obtain ⟨h1, h2⟩ := h; subst h1; subst h2; rfl
  | a :: b :: r, i, x, h => by
    unfold Value.splitLast at h
    cases hr : Value.splitLast (b :: r) with
    | none => rw [hr] at h; cases h
    | some p =>
      obtain ⟨i', l'⟩ := p
      rw [hr] at h
      simp only [Option.some.injEq, Prod.mk.injEq] at h
      obtain ⟨h1, h2⟩ := h; subst h1; subst h2
      rw [vsplitLast_some (b :: r) i' l' hr]; rfl

theorem vsplitLast_map {α β} (f : α → β) : ∀ (l : List α),
    Value.splitLast (l.map f) = (Value.splitLast l).map (fun p => (p.1.map f, f p.2))
  | [] => rfl
  | [a] => rfl
  | a :: b :: r => by
    have ih := vsplitLast_map f (b :: r)
    simp only [List.map_cons] at ih ⊢
    unfold Value.splitLast
    rw [ih]
    cases Value.splitLast (b :: r) with
    | none => rfl
    | some p => rfl

theorem ssplitLast_eq {α} : ∀ (l : List α), State.splitLast l = Value.splitLast l
  | [] => rfl
  | [a] => rfl
  | a :: b :: r => by
    unfold State.splitLast Value.splitLast
    rw [ssplitLast_eq (b :: r)]
    cases Value.splitLast (b :: r) <;> rfl

theorem vsplitLast_keysOf (l : List CKey) :
    Value.splitLast (keysOf l) = (Value.splitLast l).map (fun p => (keysOf p.1, p.2.key)) :=
  vsplitLast_map _ l

/-! ### `fixLeaf` and `ckeyPath` -/

theorem fixLeaf_keys (ks : List CKey) : keysOf (fixLeaf ks) = keysOf ks := by
  cases ks with
  | nil => rfl
  | cons first rest =>
    unfold fixLeaf
    simp only []
    cases first.dotted.pre <;> simp only [] <;> split
    · simp
    · rename_i init last hs
      have h3 := congrArg keysOf (vsplitLast_some _ _ _ hs)
      simp only [keysOf_cons, keysOf_append, keysOf_nil] at h3 ⊢
      rw [h3]
      cases last.dotted.suf <;> rfl
    · simp
    · rename_i init last hs
      have h3 := congrArg keysOf (vsplitLast_some _ _ _ hs)
      simp only [keysOf_cons, keysOf_append, keysOf_nil] at h3 ⊢
      rw [h3]
      cases last.dotted.suf <;> rfl

theorem fixLeaf_length (ks : List CKey) : (fixLeaf ks).length = ks.length := by
  have := congrArg List.length (fixLeaf_keys ks)
  simpa using this

theorem ckeyPath_erase (n : Nat) (s : Bytes) : (ckeyPath n s).map keysOf = keyPath s := by
  unfold ckeyPath keyPath
  have h0 := ckeyPathAux_erase n (s.length + 1) s []
  simp only [keysOf_nil] at h0
  rw [← h0]
  cases ckeyPathAux n (s.length + 1) s [] with
  | bt => rfl
  | cut => rfl
  | ok ks r =>
    simp only [Res.map, keysOf_length]
    by_cases h : LIMIT ≤ ks.length
    · simp [h]
    · simp [h, fixLeaf_keys]

/-! ### association lists -/

/-- erasing an association list: keys to their decoded text, payloads through `f` -/
def mapKv {α β} (f : α → β) (l : List (CKey × α)) : List (Bytes × β) := l.map (fun p => (p.1.key, f p.2))

@[simp] theorem mapKv_nil {α β} (f : α → β) : mapKv f [] = [] := rfl
@[simp] theorem mapKv_cons {α β} (f : α → β) (k : CKey) (v : α) (l : List (CKey × α)) :
    mapKv f ((k, v) :: l) = (k.key, f v) :: mapKv f l := rfl
@[simp] theorem mapKv_append {α β} (f : α → β) (a b : List (CKey × α)) :
    mapKv f (a ++ b) = mapKv f a ++ mapKv f b := by simp [mapKv]
theorem mapKv_isEmpty {α β} (f : α → β) (a : List (CKey × α)) : (mapKv f a).isEmpty = a.isEmpty := by
  cases a <;> rfl

theorem alookup_mapKv {α β} (f : α → β) (k : Bytes) : ∀ (l : List (CKey × α)),
    alookup k (mapKv f l) = (clookup k l).map f
  | [] => rfl
  | (k', v) :: r => by
    simp only [mapKv_cons, alookup, clookup]
    by_cases h : (k'.key == k) = true
    · simp [h]
    · simp [h, alookup_mapKv f k r]

theorem areplace_mapKv {α β} (f : α → β) (k : Bytes) (v : α) : ∀ (l : List (CKey × α)),
    areplace k (f v) (mapKv f l) = mapKv f (creplace k v l)
  | [] => rfl
  | (k', v') :: r => by
    simp only [mapKv_cons, areplace, creplace]
    by_cases h : (k'.key == k) = true
    · simp [h]
    · simp [h, areplace_mapKv f k v r]

theorem aerase_mapKv {α β} (f : α → β) (k : Bytes) : ∀ (l : List (CKey × α)),
    aerase k (mapKv f l) = mapKv f (cerase k l)
  | [] => rfl
  | (k', v') :: r => by
    simp only [mapKv_cons, aerase, cerase]
    by_cases h : (k'.key == k) = true
    · simp [h]
    · simp [h, aerase_mapKv f k r]

theorem aset_mapKv {α β} (f : α → β) (k : CKey) (v : α) (l : List (CKey × α)) :
    aset k.key (f v) (mapKv f l) = mapKv f (cset k v l) := by
  unfold aset cset
  rw [alookup_mapKv]
  cases clookup k.key l with
  | none => simp
  | some x => simp [areplace_mapKv]

/-! ### the erasures as maps -/

theorem eraseVals_eq : ∀ (l : List CVal), eraseVals l = l.map eraseVal
  | [] => by simp [eraseVals]
  | v :: r => by simp [eraseVals, eraseVals_eq r]

theorem eraseKvs_eq : ∀ (l : List (CKey × CVal)), eraseKvs l = mapKv eraseVal l
  | [] => by simp [eraseKvs]
  | (k, v) :: r => by simp [eraseKvs, eraseKvs_eq r]

theorem eraseTbls_eq : ∀ (l : List CTbl), eraseTbls l = l.map eraseTbl
  | [] => by simp [eraseTbls]
  | v :: r => by simp [eraseTbls, eraseTbls_eq r]

theorem eraseItems_eq : ∀ (l : List (CKey × CItem)), eraseItems l = mapKv eraseItem l
  | [] => by simp [eraseItems]
  | (k, v) :: r => by simp [eraseItems, eraseItems_eq r]
