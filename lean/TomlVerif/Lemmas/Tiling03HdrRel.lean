import TomlVerif.Lemmas.Tiling03Print
/-! Byte-level relations used to state the C03 normalisations without a CR-free hypothesis:
    `EolRel o s` (some CR LF pairs of `s` became LF) and `DropCr o s` (some CRs of `s` deleted). -/
namespace TomlVerif.Lemmas.Tiling03Hdr
open TomlVerif TomlVerif.Model TomlVerif.Model.Cst TomlVerif.Model.Encode TomlVerif.Lemmas.Cst03

/-- `o` is `s` with some `CR LF` pairs replaced by `LF` -/
inductive EolRel : Bytes → Bytes → Prop
  | nil : EolRel [] []
  | keep (b : UInt8) {o s : Bytes} : EolRel o s → EolRel (b :: o) (b :: s)
  | crlf {o s : Bytes} : EolRel o s → EolRel (0x0A :: o) (0x0D :: 0x0A :: s)

/-- `o` is `s` with some CR bytes deleted -/
inductive DropCr : Bytes → Bytes → Prop
  | nil : DropCr [] []
  | keep (b : UInt8) {o s : Bytes} : DropCr o s → DropCr (b :: o) (b :: s)
  | drop {o s : Bytes} : DropCr o s → DropCr o (0x0D :: s)

theorem EolRel.refl : ∀ s : Bytes, EolRel s s
  | [] => .nil
  | b :: r => .keep b (EolRel.refl r)

theorem EolRel.append {o1 s1 o2 s2 : Bytes} (h1 : EolRel o1 s1) (h2 : EolRel o2 s2) :
    EolRel (o1 ++ o2) (s1 ++ s2) := by
  induction h1 with
  | nil => simpa using h2
  | keep b _ ih => exact .keep b ih
  | crlf _ ih => exact .crlf ih

theorem EolRel.nil_right {o : Bytes} (h : EolRel o []) : o = [] := by
  cases h; rfl

theorem EolRel.nil_left {s : Bytes} (h : EolRel [] s) : s = [] := by
  cases h; rfl

theorem EolRel.getLast {o s : Bytes} (h : EolRel o s) : o.getLast? = s.getLast? := by
  induction h with
  | nil => rfl
  | @keep b o s h ih =>
    cases o with
    | nil => have := h.nil_left; subst this; rfl
    | cons x o' =>
      cases s with
      | nil => cases h
      | cons y s' => simpa [List.getLast?_cons_cons] using ih
  | @crlf o s h ih =>
    cases o with
    | nil => have := h.nil_left; subst this; rfl
    | cons x o' =>
      cases s with
      | nil => cases h
      | cons y s' => simpa [List.getLast?_cons_cons] using ih

theorem EolRel.toDropCr {o s : Bytes} (h : EolRel o s) : DropCr o s := by
  induction h with
  | nil => exact .nil
  | keep b _ ih => exact .keep b ih
  | crlf _ ih => exact .drop (.keep _ ih)

theorem DropCr.refl : ∀ s : Bytes, DropCr s s
  | [] => .nil
  | b :: r => .keep b (DropCr.refl r)

theorem DropCr.append {o1 s1 o2 s2 : Bytes} (h1 : DropCr o1 s1) (h2 : DropCr o2 s2) :
    DropCr (o1 ++ o2) (s1 ++ s2) := by
  induction h1 with
  | nil => simpa using h2
  | keep b _ ih => exact .keep b ih
  | drop _ ih => exact .drop ih

theorem DropCr.trans {a b c : Bytes} (h1 : DropCr a b) (h2 : DropCr b c) : DropCr a c := by
  induction h2 generalizing a with
  | nil => exact h1
  | keep x _ ih =>
    cases h1 with
    | keep _ h1' => exact .keep x (ih h1')
    | drop h1' => exact .drop (ih h1')
  | drop _ ih => exact .drop (ih h1)

theorem DropCr.stripCr : ∀ t : Bytes, DropCr (stripCr t) t
  | [] => .nil
  | b :: r => by
    by_cases hb : b = 0x0D
    · subst hb
      have : Encode.stripCr (0x0D :: r) = Encode.stripCr r := by simp [Encode.stripCr]
      rw [this]; exact .drop (DropCr.stripCr r)
    · have : Encode.stripCr (b :: r) = b :: Encode.stripCr r := by simp [Encode.stripCr, hb]
      rw [this]; exact .keep b (DropCr.stripCr r)

theorem DropCr.eq_of_noCr {o s : Bytes} (h : DropCr o s) (hcr : ∀ b ∈ s, b ≠ 0x0D) : o = s := by
  induction h with
  | nil => rfl
  | keep b _ ih => rw [ih (fun x hx => hcr x (List.mem_cons_of_mem _ hx))]
  | drop _ _ => exact absurd rfl (hcr 0x0D (by simp))

theorem DropCr.stripCr_eq {o s : Bytes} (h : DropCr o s) : Encode.stripCr o = Encode.stripCr s := by
  induction h with
  | nil => rfl
  | keep b _ ih => simp only [Encode.stripCr, List.filter_cons] at ih ⊢; rw [ih]
  | drop _ ih => rw [ih]; simp [Encode.stripCr]

theorem EolRel.eq_of_noCr {o s : Bytes} (h : EolRel o s) (hcr : ∀ b ∈ s, b ≠ 0x0D) : o = s :=
  h.toDropCr.eq_of_noCr hcr

end TomlVerif.Lemmas.Tiling03Hdr
