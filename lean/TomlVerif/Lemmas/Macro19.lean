import TomlVerif.Model.Macro
/-! Lemmas for C19: the `@array` muncher consumes one rendered value per step. -/
namespace TomlVerif.Lemmas.Macro19
open TomlVerif TomlVerif.Model TomlVerif.Model.Macro

def R.bind {α β} : R α → (α → R β) → R β
  | .ok a, f => f a
  | .unsupported, _ => .unsupported
  | .panic, _ => .panic

/-- a number token of the source -/
structure Num where
  body : Bytes
  suffix : Bytes
  fl : Bool

def Num.tt (n : Num) : TT := .tok (.num n.body n.suffix n.fl)

def pc (c : Byte) : TT := .tok (.punct c)
def dash : TT := pc 0x2D
def colon : TT := pc 0x3A
def dot : TT := pc 0x2E
def commaT : TT := pc 0x2C
def identT : TT := .tok (.ident [0x54])

/-- the eleven token shapes of a date-time, one per arm of `dtArms` (same order). A trailing `Z`/`z` is a
    suffix of the seconds token, a fraction written without blanks is part of the seconds token (a float literal) -/
inductive DtForm where
  | odtFrac (yr mo dhr mi sec frac tzh tzm : Num)
  | odtFracSp (yr mo day hr mi sec frac tzh tzm : Num)
  | odt (yr mo dhr mi sec tzh tzm : Num)
  | odtSp (yr mo day hr mi sec tzh tzm : Num)
  | ldtFrac (yr mo dhr mi sec frac : Num)
  | ldtFracSp (yr mo day hr mi sec frac : Num)
  | ldt (yr mo dhr mi sec : Num)
  | ldtSp (yr mo day hr mi sec : Num)
  | date (yr mo day : Num)
  | timeFrac (hr mi sec frac : Num)
  | time (hr mi sec : Num)

/-- the tokens as written -/
def DtForm.toks : DtForm → List TT
  | .odtFrac yr mo dhr mi sec frac tzh tzm => [yr.tt, dash, mo.tt, dash, dhr.tt, colon, mi.tt, colon, sec.tt, dot, frac.tt, dash, tzh.tt, colon, tzm.tt]
  | .odtFracSp yr mo day hr mi sec frac tzh tzm => [yr.tt, dash, mo.tt, dash, day.tt, hr.tt, colon, mi.tt, colon, sec.tt, dot, frac.tt, dash, tzh.tt, colon, tzm.tt]
  | .odt yr mo dhr mi sec tzh tzm => [yr.tt, dash, mo.tt, dash, dhr.tt, colon, mi.tt, colon, sec.tt, dash, tzh.tt, colon, tzm.tt]
  | .odtSp yr mo day hr mi sec tzh tzm => [yr.tt, dash, mo.tt, dash, day.tt, hr.tt, colon, mi.tt, colon, sec.tt, dash, tzh.tt, colon, tzm.tt]
  | .ldtFrac yr mo dhr mi sec frac => [yr.tt, dash, mo.tt, dash, dhr.tt, colon, mi.tt, colon, sec.tt, dot, frac.tt]
  | .ldtFracSp yr mo day hr mi sec frac => [yr.tt, dash, mo.tt, dash, day.tt, hr.tt, colon, mi.tt, colon, sec.tt, dot, frac.tt]
  | .ldt yr mo dhr mi sec => [yr.tt, dash, mo.tt, dash, dhr.tt, colon, mi.tt, colon, sec.tt]
  | .ldtSp yr mo day hr mi sec => [yr.tt, dash, mo.tt, dash, day.tt, hr.tt, colon, mi.tt, colon, sec.tt]
  | .date yr mo day => [yr.tt, dash, mo.tt, dash, day.tt]
  | .timeFrac hr mi sec frac => [hr.tt, colon, mi.tt, colon, sec.tt, dot, frac.tt]
  | .time hr mi sec => [hr.tt, colon, mi.tt, colon, sec.tt]

/-- the text TOML reads: the tokens with `T` where the source has a blank between date and time -/
def DtForm.text : DtForm → List TT
  | .odtFracSp yr mo day hr mi sec frac tzh tzm => [yr.tt, dash, mo.tt, dash, day.tt, identT, hr.tt, colon, mi.tt, colon, sec.tt, dot, frac.tt, dash, tzh.tt, colon, tzm.tt]
  | .odtSp yr mo day hr mi sec tzh tzm => [yr.tt, dash, mo.tt, dash, day.tt, identT, hr.tt, colon, mi.tt, colon, sec.tt, dash, tzh.tt, colon, tzm.tt]
  | .ldtFracSp yr mo day hr mi sec frac => [yr.tt, dash, mo.tt, dash, day.tt, identT, hr.tt, colon, mi.tt, colon, sec.tt, dot, frac.tt]
  | .ldtSp yr mo day hr mi sec => [yr.tt, dash, mo.tt, dash, day.tt, identT, hr.tt, colon, mi.tt, colon, sec.tt]
  | f => f.toks

/-- the next value (or nothing) follows: its first token is not a `:` -/
def RestOk (rest : List TT) : Prop := ∀ t r, rest = t :: r → isP 0x3A t = false

theorem firstDt_form (f : DtForm) (rest : List TT) (h : RestOk rest) :
    firstDt comma (f.toks ++ commaT :: rest) dtArms = some (f.text, rest) := by
  cases f <;>
    simp [DtForm.toks, DtForm.text, firstDt, dtArms, matchPat, isP, comma, Num.tt, dash, colon, dot, commaT, pc, identT]
  case date yr mo day =>
    cases rest with
    | nil => simp [matchPat]
    | cons t r =>
      have := h t r rfl
      simp [matchPat, this]


@[simp] theorem isP_punct (c c' : Byte) : isP c (.tok (.punct c')) = (c == c') := rfl
@[simp] theorem isP_num (c : Byte) (b s : Bytes) (f : Bool) : isP c (.tok (.num b s f)) = false := rfl
@[simp] theorem isP_ident (c : Byte) (s : Bytes) : isP c (.tok (.ident s)) = false := rfl
@[simp] theorem isP_str (c : Byte) (r v : Bytes) : isP c (.tok (.str r v)) = false := rfl
@[simp] theorem isP_chr (c : Byte) (r v : Bytes) : isP c (.tok (.chr r v)) = false := rfl
@[simp] theorem isP_group (c : Byte) (d : Delim) (ts : List TT) : isP c (.group d ts) = false := rfl

/-- what follows a `key = value` pair at the top level (a key or a header or nothing): the first token is not
    `:` `.` `-`, the second is not `:` -/
def RestTopOk (rest : List TT) : Prop :=
  (∀ t r, rest = t :: r → isP 0x3A t = false ∧ isP 0x2E t = false ∧ isP 0x2D t = false) ∧
  (∀ t u r, rest = t :: u :: r → isP 0x3A u = false)

theorem firstDt_form_top (f : DtForm) (rest : List TT) (h : RestTopOk rest) :
    firstDt [] (f.toks ++ rest) dtArms = some (f.text, rest) := by
  obtain ⟨h1, h2⟩ := h
  cases rest with
  | nil =>
    cases f <;>
      simp [DtForm.toks, DtForm.text, firstDt, dtArms, matchPat, Num.tt, dash, colon, dot, pc, identT]
  | cons t r =>
    obtain ⟨a1, a2, a3⟩ := h1 t r rfl
    cases r with
    | nil =>
      cases f <;>
        simp [DtForm.toks, DtForm.text, firstDt, dtArms, matchPat, Num.tt, dash, colon, dot, pc, identT, a1, a2, a3]
    | cons u r =>
      have b1 := h2 t u r rfl
      cases f <;>
        simp [DtForm.toks, DtForm.text, firstDt, dtArms, matchPat, Num.tt, dash, colon, dot, pc, identT, a1, a2, a3, b1]


/-! ## values -/

inductive Sign where
  | none | plus | minus
  deriving DecidableEq

/-- a value as the source spells it -/
inductive MacroVal where
  | int (s : Sign) (body : Bytes)
  | float (s : Sign) (body : Bytes)
  | special (s : Sign) (nan : Bool)
  | bool (b : Bool)
  | str (raw val : Bytes)
  | chr (raw val : Bytes)
  | dt (f : DtForm)
  | arr (items : List MacroVal) (trailing : Bool)

def Sign.toks : Sign → List TT
  | .none => []
  | .plus => [pc 0x2B]
  | .minus => [dash]

def Sign.neg : Sign → Bool
  | .minus => true
  | _ => false

mutual
/-- the token trees rustc hands to the macro for a value -/
def MacroVal.toks : MacroVal → List TT
  | .int s body => s.toks ++ [.tok (.num body [] false)]
  | .float s body => s.toks ++ [.tok (.num body [] true)]
  | .special s nan => s.toks ++ [.tok (.ident (if nan then bNan else bInf))]
  | .bool b => [.tok (.ident (if b then bTrue else bFalse))]
  | .str raw val => [.tok (.str raw val)]
  | .chr raw val => [.tok (.chr raw val)]
  | .dt f => f.toks
  | .arr items trailing => [.group .bracket (joinToks items trailing)]
/-- items separated by commas, with an optional trailing comma -/
def joinToks : List MacroVal → Bool → List TT
  | [], _ => []
  | [a], trailing => a.toks ++ (if trailing then [commaT] else [])
  | a :: b :: r, trailing => a.toks ++ commaT :: joinToks (b :: r) trailing
end

mutual
/-- the value TOML assigns to the spelling (literal evaluation and the date-time parser are shared with the model:
    they are rustc's / `toml_datetime`'s, not the muncher's) -/
def MacroVal.sem : MacroVal → R MVal
  | .int s body => litValue s.neg (.num body [] false)
  | .float s body => litValue s.neg (.num body [] true)
  | .special s nan =>
    .ok (.float ((if nan then Spec.Ieee.nanBits else Spec.Ieee.infBits) + (if s.neg then Spec.Ieee.signBit else 0)))
  | .bool b => .ok (.bool b)
  | .str _ val => .ok (.str val)
  | .chr _ val => .ok (.str val)
  | .dt f => dtValue f.text
  | .arr items _ => R.bind (semItems items []) fun vs => .ok (.arr vs)
/-- meanings of the items in order, stopping at the first failure -/
def semItems : List MacroVal → List MVal → R (List MVal)
  | [], acc => .ok acc
  | a :: r, acc => R.bind a.sem fun v => semItems r (acc ++ [v])
end

mutual
/-- fuel the muncher needs -/
def MacroVal.cost : MacroVal → Nat
  | .arr items _ => costs items + 1
  | _ => 0
def costs : List MacroVal → Nat
  | [] => 1
  | a :: r => a.cost + 2 + costs r
end

/-- every item followed by a comma: what `@trailingcomma` hands to `@array` -/
def itemsToks : List MacroVal → List TT
  | [] => []
  | a :: r => a.toks ++ commaT :: itemsToks r


theorem isP_comma_eq {c : TT} (h : isP 0x2C c = true) : c = commaT := by
  cases c with
  | tok t =>
    cases t with
    | punct c' => simp at h; subst h; rfl
    | _ => simp at h
  | group d ts => simp at h

theorem firstDt_none_comma2 (sfx : List Pat) (v : TT) (rest : List TT) :
    firstDt sfx (v :: commaT :: rest) dtArms = none := by
  simp [firstDt, dtArms, matchPat, commaT, pc]

theorem R.bind_ok {α β} (a : α) (f : α → R β) : R.bind (.ok a) f = f a := rfl

theorem rewriteSignComma_nonsign (m : TT) (r : List TT) (h1 : isP 0x2D m = false) (h2 : isP 0x2B m = false) :
    rewriteSignComma (m :: r) = m :: r := by
  unfold rewriteSignComma
  split <;> simp_all

/-- one unsigned item (a single token tree): `@array` pushes its meaning and continues behind the comma -/
theorem array_step_tt (fuel : Nat) (acc : List MVal) (m : TT) (rest : List TT)
    (h1 : isP 0x2D m = false) (h2 : isP 0x2B m = false) :
    array (fuel + 2) acc (m :: commaT :: rest) =
      R.bind (value (fuel + 1) m) fun v => array (fuel + 1) (acc ++ [v]) rest := by
  rw [array]
  simp only [rewriteSignComma_nonsign m _ h1 h2, firstDt_none_comma2]
  simp only [commaT, pc, isP_punct, beq_self_eq_true, if_true]
  · cases value (fuel + 1) m <;> simp [R.bind]
  · intro h; cases h


theorem array_step_neg (fuel : Nat) (acc : List MVal) (v : TT) (rest : List TT) :
    array (fuel + 2) acc (dash :: v :: commaT :: rest) =
      R.bind (value (fuel + 1) (negGroup v)) fun x => array (fuel + 1) (acc ++ [x]) rest := by
  have hr : rewriteSignComma (dash :: v :: commaT :: rest) = negGroup v :: commaT :: rest := by
    simp [rewriteSignComma, dash, commaT, pc]
  rw [array]
  · simp only [hr, firstDt_none_comma2]
    simp only [commaT, pc, isP_punct, beq_self_eq_true, if_true]
    cases value (fuel + 1) (negGroup v) <;> simp [R.bind]
  · intro h; cases h

theorem array_step_pos (fuel : Nat) (acc : List MVal) (v : TT) (rest : List TT) :
    array (fuel + 2) acc (pc 0x2B :: v :: commaT :: rest) =
      R.bind (value (fuel + 1) (posGroup v)) fun x => array (fuel + 1) (acc ++ [x]) rest := by
  have hr : rewriteSignComma (pc 0x2B :: v :: commaT :: rest) = posGroup v :: commaT :: rest := by
    simp [rewriteSignComma, commaT, pc]
  rw [array]
  · simp only [hr, firstDt_none_comma2]
    simp only [commaT, pc, isP_punct, beq_self_eq_true, if_true]
    cases value (fuel + 1) (posGroup v) <;> simp [R.bind]
  · intro h; cases h

theorem dt_toks_head (f : DtForm) : ∃ n : Num, ∃ r, f.toks = n.tt :: r := by
  cases f <;> exact ⟨_, _, rfl⟩

theorem array_step_dt (fuel : Nat) (acc : List MVal) (f : DtForm) (rest : List TT) (h : RestOk rest) :
    array (fuel + 1) acc (f.toks ++ commaT :: rest) =
      R.bind (dtValue f.text) fun x => array fuel (acc ++ [x]) rest := by
  obtain ⟨n, r, hn⟩ := dt_toks_head f
  have hr : rewriteSignComma (f.toks ++ commaT :: rest) = f.toks ++ commaT :: rest := by
    rw [hn]; exact rewriteSignComma_nonsign _ _ (by simp [Num.tt]) (by simp [Num.tt])
  rw [array]
  · simp only [hr, firstDt_form f rest h]
    cases dtValue f.text <;> simp [R.bind]
  · rw [hn]; intro h; cases h


/-! ### `@value` on single scalars -/

theorem value_num (fuel : Nat) (b : Bytes) (fl : Bool) :
    value (fuel + 1) (.tok (.num b [] fl)) = litValue false (.num b [] fl) := by simp [value]
theorem value_neg_num (fuel : Nat) (b : Bytes) (fl : Bool) :
    value (fuel + 1) (negGroup (.tok (.num b [] fl))) = litValue true (.num b [] fl) := by
  simp [value, negGroup, parenValue]
theorem value_pos_num (fuel : Nat) (b : Bytes) (fl : Bool) :
    value (fuel + 1) (posGroup (.tok (.num b [] fl))) = litValue false (.num b [] fl) := by
  simp [value, posGroup, parenValue]
theorem value_special (fuel : Nat) (nan : Bool) :
    value (fuel + 1) (.tok (.ident (if nan then bNan else bInf))) =
      .ok (.float (if nan then Spec.Ieee.nanBits else Spec.Ieee.infBits)) := by
  cases nan <;> simp [value, bNan, bInf]
theorem value_neg_special (fuel : Nat) (nan : Bool) :
    value (fuel + 1) (negGroup (.tok (.ident (if nan then bNan else bInf)))) =
      .ok (.float ((if nan then Spec.Ieee.nanBits else Spec.Ieee.infBits) + Spec.Ieee.signBit)) := by
  cases nan <;> simp [value, negGroup, parenValue, bNan, bInf]
theorem value_pos_special (fuel : Nat) (nan : Bool) :
    value (fuel + 1) (posGroup (.tok (.ident (if nan then bNan else bInf)))) =
      .ok (.float (if nan then Spec.Ieee.nanBits else Spec.Ieee.infBits)) := by
  cases nan <;> simp [value, posGroup, parenValue, bNan, bInf]
theorem value_bool (fuel : Nat) (b : Bool) :
    value (fuel + 1) (.tok (.ident (if b then bTrue else bFalse))) = .ok (.bool b) := by
  cases b <;> simp [value, litValue, bNan, bInf, bTrue, bFalse]
theorem value_str (fuel : Nat) (raw val : Bytes) : value (fuel + 1) (.tok (.str raw val)) = .ok (.str val) := by
  simp [value, litValue]
theorem value_chr (fuel : Nat) (raw val : Bytes) : value (fuel + 1) (.tok (.chr raw val)) = .ok (.str val) := by
  simp [value, litValue]

/-! ### `@trailingcomma` -/

theorem toks_getLast (a : MacroVal) : ∃ t, a.toks.getLast? = some t ∧ isP 0x2C t = false := by
  cases a with
  | int s b => cases s <;> exact ⟨_, rfl, rfl⟩
  | float s b => cases s <;> exact ⟨_, rfl, rfl⟩
  | special s n => cases s <;> exact ⟨_, rfl, rfl⟩
  | bool b => exact ⟨_, rfl, rfl⟩
  | str r v => exact ⟨_, rfl, rfl⟩
  | chr r v => exact ⟨_, rfl, rfl⟩
  | dt f => cases f <;> exact ⟨_, rfl, rfl⟩
  | arr l t => exact ⟨_, rfl, rfl⟩

theorem join_items (l : List MacroVal) (hne : l ≠ []) :
    joinToks l true = itemsToks l ∧ joinToks l false ++ [commaT] = itemsToks l ∧
    ∃ t, (joinToks l false).getLast? = some t ∧ isP 0x2C t = false := by
  induction l with
  | nil => exact absurd rfl hne
  | cons a r ih =>
    cases r with
    | nil =>
      obtain ⟨t, ht, hc⟩ := toks_getLast a
      refine ⟨by simp [joinToks, itemsToks], by simp [joinToks, itemsToks], t, ?_, hc⟩
      simpa [joinToks] using ht
    | cons b r =>
      obtain ⟨h1, h2, t, ht, hc⟩ := ih (by simp)
      refine ⟨?_, ?_, t, ?_, hc⟩
      · rw [joinToks, h1]; simp [itemsToks]
      · rw [joinToks]; simp only [List.append_assoc, List.cons_append]; rw [h2]; simp [itemsToks]
      · rw [joinToks]
        have hne2 : joinToks (b :: r) false ≠ [] := by intro h; rw [h] at ht; simp at ht
        obtain ⟨x, xs, hx⟩ := List.exists_cons_of_ne_nil hne2
        rw [hx] at ht ⊢
        simp [List.getLast?_append, List.getLast?_cons_cons, ht]

theorem withComma_join (l : List MacroVal) (tr : Bool) : withComma (joinToks l tr) = itemsToks l := by
  cases l with
  | nil => simp [joinToks, itemsToks, withComma]
  | cons a r =>
    obtain ⟨h1, h2, t, ht, hc⟩ := join_items (a :: r) (by simp)
    cases tr with
    | true =>
      rw [h1]
      have : (itemsToks (a :: r)).getLast? = some commaT := by rw [← h2]; simp
      simp [withComma, this, commaT, pc]
    | false =>
      simp only [withComma, ht, hc]
      simpa [commaT, pc] using h2


/-! ### the main induction -/

theorem toks_head_ok (a : MacroVal) (x : List TT) : RestOk (a.toks ++ x) := by
  intro t r h
  cases a with
  | int s b => cases s <;> simp [MacroVal.toks, Sign.toks, pc, dash] at h <;> (rw [← h.1]; simp)
  | float s b => cases s <;> simp [MacroVal.toks, Sign.toks, pc, dash] at h <;> (rw [← h.1]; simp)
  | special s n => cases s <;> simp [MacroVal.toks, Sign.toks, pc, dash] at h <;> (rw [← h.1]; simp)
  | bool b => simp [MacroVal.toks] at h; rw [← h.1]; simp
  | str rw v => simp [MacroVal.toks] at h; rw [← h.1]; simp
  | chr rw v => simp [MacroVal.toks] at h; rw [← h.1]; simp
  | dt f =>
    obtain ⟨n, r', hn⟩ := dt_toks_head f
    simp [MacroVal.toks, hn] at h; rw [← h.1]; simp [Num.tt]
  | arr l tr => simp [MacroVal.toks] at h; rw [← h.1]; simp

theorem itemsToks_restOk (l : List MacroVal) : RestOk (itemsToks l) := by
  cases l with
  | nil => intro t r h; simp [itemsToks] at h
  | cons a r => exact toks_head_ok a _

theorem restOk_nil : RestOk [] := by intro t r h; cases h

mutual
/-- `@array` consumes one rendered value and pushes its meaning -/
theorem array_step (a : MacroVal) : ∀ (fuel : Nat) (acc : List MVal) (rest : List TT), a.cost + 1 ≤ fuel → RestOk rest →
    array (fuel + 1) acc (a.toks ++ commaT :: rest) = R.bind a.sem (fun v => array fuel (acc ++ [v]) rest) := by
  intro fuel acc rest hf hr
  obtain ⟨f, rfl⟩ : ∃ f, fuel = f + 1 := ⟨fuel - 1, by omega⟩
  match a with
  | .int s b =>
    cases s
    · simpa [MacroVal.toks, Sign.toks, MacroVal.sem, Sign.neg, value_num] using
        array_step_tt f acc (.tok (.num b [] false)) rest (by simp) (by simp)
    · simpa [MacroVal.toks, Sign.toks, MacroVal.sem, Sign.neg, value_pos_num] using
        array_step_pos f acc (.tok (.num b [] false)) rest
    · simpa [MacroVal.toks, Sign.toks, MacroVal.sem, Sign.neg, value_neg_num] using
        array_step_neg f acc (.tok (.num b [] false)) rest
  | .float s b =>
    cases s
    · simpa [MacroVal.toks, Sign.toks, MacroVal.sem, Sign.neg, value_num] using
        array_step_tt f acc (.tok (.num b [] true)) rest (by simp) (by simp)
    · simpa [MacroVal.toks, Sign.toks, MacroVal.sem, Sign.neg, value_pos_num] using
        array_step_pos f acc (.tok (.num b [] true)) rest
    · simpa [MacroVal.toks, Sign.toks, MacroVal.sem, Sign.neg, value_neg_num] using
        array_step_neg f acc (.tok (.num b [] true)) rest
  | .special s n =>
    cases s
    · simpa [MacroVal.toks, Sign.toks, MacroVal.sem, Sign.neg, value_special] using
        array_step_tt f acc (.tok (.ident (if n then bNan else bInf))) rest (by simp) (by simp)
    · simpa [MacroVal.toks, Sign.toks, MacroVal.sem, Sign.neg, value_pos_special] using
        array_step_pos f acc (.tok (.ident (if n then bNan else bInf))) rest
    · simpa [MacroVal.toks, Sign.toks, MacroVal.sem, Sign.neg, value_neg_special] using
        array_step_neg f acc (.tok (.ident (if n then bNan else bInf))) rest
  | .bool b =>
    simpa [MacroVal.toks, MacroVal.sem, value_bool] using
      array_step_tt f acc (.tok (.ident (if b then bTrue else bFalse))) rest (by simp) (by simp)
  | .str raw v =>
    simpa [MacroVal.toks, MacroVal.sem, value_str] using array_step_tt f acc (.tok (.str raw v)) rest (by simp) (by simp)
  | .chr raw v =>
    simpa [MacroVal.toks, MacroVal.sem, value_chr] using array_step_tt f acc (.tok (.chr raw v)) rest (by simp) (by simp)
  | .dt d =>
    simpa [MacroVal.toks, MacroVal.sem] using array_step_dt (f + 1) acc d rest hr
  | .arr items tr =>
    have hc : costs items ≤ f := by simp [MacroVal.cost] at hf; omega
    have hv : value (f + 1) (.group .bracket (joinToks items tr)) = R.bind (semItems items []) fun vs => .ok (.arr vs) := by
      rw [value, withComma_join, array_items items f [] hc]
      cases semItems items [] <;> simp [R.bind]
    have := array_step_tt f acc (.group .bracket (joinToks items tr)) rest (by simp) (by simp)
    rw [hv] at this
    simpa [MacroVal.toks, MacroVal.sem] using this

/-- `@array` on a comma-terminated item list yields the meanings in order -/
theorem array_items (l : List MacroVal) : ∀ (fuel : Nat) (acc : List MVal), costs l ≤ fuel →
    array fuel acc (itemsToks l) = semItems l acc := by
  intro fuel acc hf
  match l with
  | [] =>
    obtain ⟨f, rfl⟩ : ∃ f, fuel = f + 1 := ⟨fuel - 1, by simp [costs] at hf; omega⟩
    simp [itemsToks, semItems, array]
  | a :: r =>
    have hf' : a.cost + 2 + costs r ≤ fuel := by simpa [costs] using hf
    obtain ⟨f, rfl⟩ : ∃ f, fuel = f + 1 := ⟨fuel - 1, by omega⟩
    rw [itemsToks, array_step a f acc (itemsToks r) (by omega) (itemsToks_restOk r), semItems]
    cases a.sem with
    | ok v => simp only [R.bind]; exact array_items r f (acc ++ [v]) (by omega)
    | unsupported => rfl
    | panic => rfl
end


/-- an inline array through `@value`, any sufficient fuel -/
theorem value_arr (items : List MacroVal) (tr : Bool) (f : Nat) (hc : costs items ≤ f) :
    value (f + 1) (.group .bracket (joinToks items tr)) = (MacroVal.arr items tr).sem := by
  rw [value, withComma_join, array_items items f [] hc]
  cases h : semItems items [] <;> simp [R.bind, MacroVal.sem, h]

/-! ### the fuel `macroValue` supplies is enough -/

theorem sizeTTs_append (x y : List TT) : sizeTTs (x ++ y) = sizeTTs x + sizeTTs y := by
  induction x with
  | nil => simp [sizeTTs]
  | cons t r ih => simp [sizeTTs, ih]; omega

def sumSizes : List MacroVal → Nat
  | [] => 0
  | a :: r => sizeTTs a.toks + sumSizes r

theorem sumSizes_le_join (l : List MacroVal) (tr : Bool) : sumSizes l ≤ sizeTTs (joinToks l tr) := by
  induction l with
  | nil => simp [sumSizes]
  | cons a r ih =>
    cases r with
    | nil => simp [sumSizes, joinToks, sizeTTs_append]
    | cons b r => rw [joinToks, sizeTTs_append, sumSizes, sizeTTs]; omega

mutual
theorem cost_le (a : MacroVal) : a.cost + 2 ≤ 2 * sizeTTs a.toks := by
  match a with
  | .int s b => cases s <;> simp [MacroVal.cost, MacroVal.toks, Sign.toks, sizeTTs, sizeTT, pc, dash]
  | .float s b => cases s <;> simp [MacroVal.cost, MacroVal.toks, Sign.toks, sizeTTs, sizeTT, pc, dash]
  | .special s n => cases s <;> simp [MacroVal.cost, MacroVal.toks, Sign.toks, sizeTTs, sizeTT, pc, dash]
  | .bool b => simp [MacroVal.cost, MacroVal.toks, sizeTTs, sizeTT]
  | .str r v => simp [MacroVal.cost, MacroVal.toks, sizeTTs, sizeTT]
  | .chr r v => simp [MacroVal.cost, MacroVal.toks, sizeTTs, sizeTT]
  | .dt f => cases f <;> simp [MacroVal.cost, MacroVal.toks, DtForm.toks, sizeTTs, sizeTT, Num.tt, dash, colon, dot, pc]
  | .arr items tr =>
    have h1 := costs_le items
    have h2 := sumSizes_le_join items tr
    simp [MacroVal.cost, MacroVal.toks, sizeTTs, sizeTT]; omega
theorem costs_le (l : List MacroVal) : costs l ≤ 1 + 2 * sumSizes l := by
  match l with
  | [] => simp [costs, sumSizes]
  | a :: r =>
    have h1 := cost_le a
    have h2 := costs_le r
    simp [costs, sumSizes]; omega
end

end TomlVerif.Lemmas.Macro19
