import TomlVerif.Lemmas.Tiling03MoreSemTree
/-! C03, same data — table bodies: the keys of the dotted-key tables of a body are grammatical
    (`bodyG`), and `descend` along adjacent dotted keys appends one entry under the STORED key
    path (`kv_descendA`: `kv_descendU` without spelling). -/
namespace TomlVerif.Lemmas.Tiling03More
open TomlVerif TomlVerif.Spec TomlVerif.Model TomlVerif.Model.Strings TomlVerif.Model.Value
open TomlVerif.Model.Cst TomlVerif.Model.Encode TomlVerif.Lemmas.Suffix03 TomlVerif.Lemmas.Cst03
open TomlVerif.Lemmas.LastByte03 TomlVerif.Lemmas.Tiling03 TomlVerif.Lemmas.Tiling03Hdr
open TomlVerif.Lemmas.Tiling03Nest TomlVerif.Lemmas.Tiling03More.VS

mutual
/-- the keys of the tables inside a body -/
def dkTbl : CTbl → List CKey
  | .mk items _ _ _ _ _ => dkItems items
def dkItems : List (CKey × CItem) → List CKey
  | [] => []
  | (k, it) :: r =>
    match it with
    | .table t => k :: dkTbl t ++ dkItems r
    | .aot _ _ => dkItems r
    | .value _ => dkItems r
end

theorem dkTbl_eq (t : CTbl) : dkTbl t = dkItems t.items := by
  cases t; rw [dkTbl]; rfl

theorem dkItems_append : ∀ (x y : Items), dkItems (x ++ y) = dkItems x ++ dkItems y
  | [], y => by simp [dkItems]
  | (k, .table t) :: r, y => by
    simp only [List.cons_append, dkItems, dkItems_append r y, List.append_assoc]
  | (k, .aot ts sp) :: r, y => by
    simp only [List.cons_append, dkItems, dkItems_append r y]
  | (k, .value v) :: r, y => by
    simp only [List.cons_append, dkItems, dkItems_append r y]

/-- the keys of the dotted-key tables of a body are `GKey` -/
def bodyG (inp : Bytes) (items : Items) : Prop := ∀ k ∈ dkItems items, GKey inp k

theorem bodyG_nil (inp : Bytes) : bodyG inp [] := by intro k hk; cases hk

theorem bodyG_snoc_table (inp : Bytes) (init : Items) (k : CKey) (c : CTbl) :
    bodyG inp (init ++ [(k, .table c)]) ↔ bodyG inp init ∧ GKey inp k ∧ bodyG inp c.items := by
  unfold bodyG
  rw [dkItems_append]
  simp only [dkItems, List.append_nil, dkTbl_eq]
  constructor
  · intro h
    exact ⟨fun x hx => h x (List.mem_append_left _ hx), h k (List.mem_append_right _ (by simp)),
      fun x hx => h x (List.mem_append_right _ (List.mem_cons_of_mem _ hx))⟩
  · rintro ⟨h1, h2, h3⟩ x hx
    rcases List.mem_append.1 hx with hx | hx
    · exact h1 x hx
    · rcases List.mem_cons.1 hx with hx | hx
      · subst hx; exact h2
      · exact h3 x hx

theorem bodyG_snoc_value (inp : Bytes) (init : Items) (k : CKey) (v : CVal) :
    bodyG inp (init ++ [(k, .value v)]) ↔ bodyG inp init := by
  unfold bodyG
  rw [dkItems_append]
  simp [dkItems]

theorem dottedOkA_empty (t : CTbl) (h : t.items = []) : ∀ path, dottedOkA t path = true
  | [] => rfl
  | k :: ks => by simp [dottedOkA, h, clookup]

theorem dottedOkA_items (t t' : CTbl) (h : t'.items = t.items) :
    ∀ path, dottedOkA t' path = dottedOkA t path
  | [] => rfl
  | k :: ks => by simp only [dottedOkA, h]

/-- `descend` along adjacent dotted keys: one entry is appended to the flattened body, under the
    stored keys `X` of the dotted path -/
theorem kv_descendA (inp : Bytes) (g : CTbl → Option CTbl) (key' : CKey) (v : CVal)
    (hv : undotted v = true)
    (hg : ∀ p p', g p = some p' → p' = p.setItems (p.items ++ [(key', .value v)])) :
    ∀ (path : List CKey) (t c : CTbl) (P : List CKey), dottedOkA t path = true → bodyOkU t.items = true →
      bodyG inp t.items → (∀ k ∈ path, GKey inp k) → descend t path true g = some c →
      c = t.setItems c.items ∧ bodyOkU c.items = true ∧ bodyG inp c.items ∧
      ∃ X, valuesTbl c.items P = valuesTbl t.items P ++ [(P ++ X ++ [key'], v)] ∧
        keysOf X = keysOf path ∧ ∀ k ∈ X, GKey inp k := by
  intro path
  induction path with
  | nil =>
    intro t c P _ hb hbg _ hd
    rw [descend_nil] at hd
    have e := hg _ _ hd
    subst e
    refine ⟨by simp, ?_, ?_, [], ?_, rfl, fun k hk => by cases hk⟩
    · rw [setItems_items, bodyOkU_append, hb]; simp [bodyOkU, hv]
    · rw [setItems_items]; exact (bodyG_snoc_value inp _ _ _).2 hbg
    · rw [setItems_items, valuesTbl_append, valuesTbl_value_atU key' v hv]; simp
  | cons k ks ih =>
    intro t c P hok hb hbg hpath hd
    have hk : GKey inp k := hpath k (by simp)
    have hks : ∀ x ∈ ks, GKey inp x := fun x hx => hpath x (List.mem_cons_of_mem _ hx)
    obtain ⟨x, ec, hx⟩ := descend_cons_shape _ _ _ _ _ _ hd
    simp only [dottedOkA] at hok
    cases hl : clookup k.key t.items with
    | none =>
      rw [hl] at hx
      simp only [Option.getD_none] at hx
      rcases hx with ⟨sub, sub', e1, hd', e2⟩ | ⟨_, _, _, _, e1, _⟩
      · injection e1 with e1
        subst e1; subst e2
        obtain ⟨i1, i2, i2g, X, i3, i4, i5⟩ := ih (newImplicit true) _ (P ++ [k]) (dottedOkA_empty _ rfl ks) rfl (bodyG_nil inp) hks hd'
        have hsd : sub'.dotted = true := by rw [setItems_eq_dotted _ _ i1]; rfl
        rw [cset_none _ _ _ hl] at ec
        subst ec
        refine ⟨by simp, ?_, ?_, k :: X, ?_, ?_, ?_⟩
        · rw [setItems_items, bodyOkU_snoc_table, hb, hsd, i2]; rfl
        · rw [setItems_items]; exact (bodyG_snoc_table inp _ _ _).2 ⟨hbg, hk, i2g⟩
        · rw [setItems_items, valuesTbl_snoc_dotted _ _ _ hsd, i3]
          simp [newImplicit, CTbl.items, valuesTbl]
        · simp only [keysOf, List.map_cons] at i4 ⊢; rw [i4]
        · intro y hy
          rcases List.mem_cons.1 hy with hy | hy
          · subst hy; exact hk
          · exact i5 y hy
      · cases e1
    | some y =>
      rw [hl] at hok hx
      simp only [Option.getD_some] at hx hok
      split at hok
      · rename_i init k' sub hle
        obtain ⟨e1, e2, e3, e4⟩ := lastEntry_some _ _ _ _ _ hle
        simp only [Bool.and_eq_true] at hok
        obtain ⟨hsubd, hok2⟩ := hok
        rw [hl] at e4
        injection e4 with e4
        subst e4
        rcases hx with ⟨sub0, sub', e5, hd', e6⟩ | ⟨_, _, _, _, e5, _⟩
        · injection e5 with e5
          subst e5; subst e6
          have hbs : bodyOkU sub.items = true := by
            rw [e1, bodyOkU_snoc_table] at hb
            simp only [Bool.and_eq_true] at hb
            exact hb.2.2
          have hbi : bodyOkU init = true := by
            rw [e1, bodyOkU_snoc_table] at hb
            simp only [Bool.and_eq_true] at hb
            exact hb.1
          rw [e1] at hbg
          obtain ⟨g1, g2, g3⟩ := (bodyG_snoc_table inp init k' sub).1 hbg
          obtain ⟨i1, i2, i2g, X, i3, i4, i5⟩ := ih _ _ (P ++ [k']) hok2 hbs g3 hks hd'
          have hsd : sub'.dotted = true := by rw [setItems_eq_dotted _ _ i1]; exact hsubd
          have hcs : cset k (.table sub') t.items = init ++ [(k', .table sub')] := by
            rw [e1]; exact cset_last _ _ _ _ _ e2 e3
          rw [hcs] at ec
          subst ec
          refine ⟨by simp, ?_, ?_, k' :: X, ?_, ?_, ?_⟩
          · rw [setItems_items, bodyOkU_snoc_table, hbi, hsd, i2]; rfl
          · rw [setItems_items]; exact (bodyG_snoc_table inp _ _ _).2 ⟨g1, g2, i2g⟩
          · rw [setItems_items, valuesTbl_snoc_dotted _ _ _ hsd, i3, e1, valuesTbl_snoc_dotted _ _ _ hsubd]
            simp [List.append_assoc]
          · simp only [keysOf, List.map_cons] at i4 ⊢; rw [i4, beq_key_eq e2]
          · intro y hy
            rcases List.mem_cons.1 hy with hy | hy
            · subst hy; exact g2
            · exact i5 y hy
        · cases e5
      · cases hok

end TomlVerif.Lemmas.Tiling03More
