import TomlVerif.Lemmas.SoundDoc01
/-! Completeness of the line driver over the document syntax `QDoc` (`Lemmas/SoundDoc01Ast.lean`): the induction of
    `Lemmas/Doc01.lean` repeated for lines that carry a `QVal`; only `key = value` lines differ, headers, blank and
    comment lines go through the byte-level lemmas of `Lemmas/Doc01.lean` (`toKeyPath`). -/
namespace TomlVerif.Lemmas.SoundDoc01C
open TomlVerif TomlVerif.Spec TomlVerif.Model TomlVerif.Model.Strings TomlVerif.Model.Value
open TomlVerif.Model.State TomlVerif.Model.Doc
open TomlVerif.Spec.AstValue TomlVerif.Spec.AstValueQ TomlVerif.Spec.AstDoc TomlVerif.Spec.AstDocQ
open TomlVerif.Lemmas.Value01 TomlVerif.Lemmas.State09 TomlVerif.Lemmas.Sound01 TomlVerif.Lemmas.Sound01C
open TomlVerif.Lemmas.Doc01 TomlVerif.Lemmas.SoundDoc01
open TomlVerif.Lemmas.Fuel04 (dropWs_len)

/-! ## key/value lines -/

theorem keyvalLine_endQ (st : ParseState) (k : QDKey) (w1 : Bytes) (v : QVal) (w2 : Bytes) (cm : Option Bytes)
    (T more : Bytes) (hwf : (QLine.keyval k w1 v w2 cm).WF) (hT : LineEnd T more) :
    keyvalLine st ((QLine.keyval k w1 v w2 cm).render ++ T) =
      (onKeyval st k.path k.last (semQ v)).map fun st' => (st', more) := by
  obtain ⟨hk, hw1, hv, hd, hw2, hc⟩ := hwf
  have e0 : (QLine.keyval k w1 v w2 cm).render ++ T =
      k.render ++ 0x3D :: (w1 ++ (renderQ v ++ (w2 ++ (commentBytes cm ++ T)))) := by
    simp [QLine.render]
  have e1 := keyPath_dottedQ k (w1 ++ (renderQ v ++ (w2 ++ (commentBytes cm ++ T)))) hk
  have e2 : dropWs (w1 ++ (renderQ v ++ (w2 ++ (commentBytes cm ++ T)))) = renderQ v ++ (w2 ++ (commentBytes cm ++ T)) := by
    rw [dropWs_allws _ _ hw1]; exact dropWs_stop _ (noTrivia_renderQ v hv _)
  have e3 := val_okQ v hv (k.keys.length - 1)
    (3 * (w1 ++ (renderQ v ++ (w2 ++ (commentBytes cm ++ T)))).length + 4) (w2 ++ (commentBytes cm ++ T))
    (by rw [keys_length]; exact hd) (followS_end w2 cm T more hw2 hT) (by simp; omega)
  have e4 := lineTrailing_end w2 cm T more hw2 hc hT
  have e5 : ¬ LIMIT ≤ k.keys.length - 1 := by rw [keys_length]; have := hk.2.2; omega
  rw [e0]
  unfold keyvalLine
  simp only [e1, e5, if_false, e2, e3, e4, splitLast_keysQ]

/-! ## headers -/

theorem stdLine_endQ (st : ParseState) (k : QDKey) (w2 : Bytes) (cm : Option Bytes) (T more : Bytes)
    (hk : k.WF) (hw2 : AllWs w2) (hc : CommentOK cm) (hT : LineEnd T more) :
    tableLine st (0x5B :: (k.render ++ 0x5D :: (w2 ++ (commentBytes cm ++ T)))) =
      (onStdHeader st k.keys).map fun st' => (st', more) := by
  have := stdLine_end st (toKeyPath k) w2 cm T more (toKeyPath_ok k hk) hw2 hc hT
  rwa [toKeyPath_render, toKeyPath_names] at this

theorem aotLine_endQ (st : ParseState) (k : QDKey) (w2 : Bytes) (cm : Option Bytes) (T more : Bytes)
    (hk : k.WF) (hw2 : AllWs w2) (hc : CommentOK cm) (hT : LineEnd T more) :
    tableLine st (0x5B :: 0x5B :: (k.render ++ 0x5D :: 0x5D :: (w2 ++ (commentBytes cm ++ T)))) =
      (onArrayHeader st k.keys).map fun st' => (st', more) := by
  have := aotLine_end st (toKeyPath k) w2 cm T more (toKeyPath_ok k hk) hw2 hc hT
  rwa [toKeyPath_render, toKeyPath_names] at this

/-! ## the statement loop -/

/-- the same dotted key without the blanks before its first component -/
def stripPreQ (k : QDKey) : QDKey := ⟨⟨[], k.first.raw, k.first.key, k.first.post⟩, k.more⟩

theorem stripPreQ_wf (k : QDKey) (hk : k.WF) : (stripPreQ k).WF :=
  ⟨⟨allWs_nil, hk.1.2.1, hk.1.2.2⟩, hk.2.1, hk.2.2⟩

theorem dropWs_pathQ (k : QDKey) (hk : k.WF) (Z : Bytes) : dropWs (k.render ++ Z) = (stripPreQ k).render ++ Z := by
  have := dropWs_path (toKeyPath k) (toKeyPath_ok k hk) Z
  rw [toKeyPath_render] at this
  rw [this, ← toKeyPath_render (stripPreQ k)]
  rfl

theorem raw_head (k : QKey) (hk : k.WF) : ∃ b t, k.raw = b :: t ∧ (b = 0x22 ∨ b = 0x27 ∨ isUnquotedChar b = true) :=
  seg_tok_head (toKeySeg k) (toKeySeg_ok k hk)

theorem lines_keyval_lineQ (f : Nat) (st : ParseState) (k : QDKey) (w1 : Bytes) (v : QVal) (w2 : Bytes)
    (cm : Option Bytes) (T more : Bytes) (hwf : (QLine.keyval k w1 v w2 cm).WF) (hT : LineEnd T more) :
    lines (f + 1) st (dropWs ((QLine.keyval k w1 v w2 cm).render ++ T)) =
      (onKeyval st k.path k.last (semQ v)).bind fun st' => lines f st' (dropWs more) := by
  obtain ⟨hk, hrest⟩ := hwf
  have hwf' : (QLine.keyval (stripPreQ k) w1 v w2 cm).WF := ⟨stripPreQ_wf k hk, hrest⟩
  have e0 : dropWs ((QLine.keyval k w1 v w2 cm).render ++ T) = (QLine.keyval (stripPreQ k) w1 v w2 cm).render ++ T := by
    simp only [QLine.render, List.append_assoc]
    exact dropWs_pathQ k hk _
  have e1 := keyvalLine_endQ st (stripPreQ k) w1 v w2 cm T more hwf' hT
  obtain ⟨b, t, ht, hb⟩ := raw_head k.first hk.1
  have hf := keyhead_facts b hb
  have e2 : ∃ t', (QLine.keyval (stripPreQ k) w1 v w2 cm).render ++ T = b :: t' := by
    simp only [QLine.render, QDKey.render, QKey.render, stripPreQ, ht, List.nil_append, List.cons_append]
    exact ⟨_, rfl⟩
  obtain ⟨t', e2⟩ := e2
  rw [e0]
  rw [e2] at e1 ⊢
  rw [lines_keyval f st b t' hf.2.1 hf.2.2.1 hf.2.2.2.1 hf.2.2.2.2.1, e1]
  have : (stripPreQ k).path = k.path ∧ (stripPreQ k).last = k.last := ⟨rfl, rfl⟩
  rw [this.1, this.2]
  cases onKeyval st k.path k.last (semQ v) <;> rfl

theorem lines_std_lineQ (f : Nat) (st : ParseState) (ws : Bytes) (k : QDKey) (w2 : Bytes)
    (cm : Option Bytes) (T more : Bytes) (hwf : (QLine.std ws k w2 cm).WF) (hT : LineEnd T more) :
    lines (f + 1) st (dropWs ((QLine.std ws k w2 cm).render ++ T)) =
      (onStdHeader st k.keys).bind fun st' => lines f st' (dropWs more) := by
  obtain ⟨hws, hk, hw2, hc⟩ := hwf
  have e0 : dropWs ((QLine.std ws k w2 cm).render ++ T) = 0x5B :: (k.render ++ 0x5D :: (w2 ++ (commentBytes cm ++ T))) := by
    simp only [QLine.render, List.append_assoc, List.cons_append]
    rw [dropWs_allws _ _ hws]
    exact dropWs_head _ _ (by decide)
  rw [e0, lines_table, stdLine_endQ st k w2 cm T more hk hw2 hc hT]
  cases onStdHeader st k.keys <;> rfl

theorem lines_aot_lineQ (f : Nat) (st : ParseState) (ws : Bytes) (k : QDKey) (w2 : Bytes)
    (cm : Option Bytes) (T more : Bytes) (hwf : (QLine.aot ws k w2 cm).WF) (hT : LineEnd T more) :
    lines (f + 1) st (dropWs ((QLine.aot ws k w2 cm).render ++ T)) =
      (onArrayHeader st k.keys).bind fun st' => lines f st' (dropWs more) := by
  obtain ⟨hws, hk, hw2, hc⟩ := hwf
  have e0 : dropWs ((QLine.aot ws k w2 cm).render ++ T) =
      0x5B :: 0x5B :: (k.render ++ 0x5D :: 0x5D :: (w2 ++ (commentBytes cm ++ T))) := by
    simp only [QLine.render, List.append_assoc, List.cons_append]
    rw [dropWs_allws _ _ hws]
    exact dropWs_head _ _ (by decide)
  rw [e0, lines_table, aotLine_endQ st k w2 cm T more hk hw2 hc hT]
  cases onArrayHeader st k.keys <;> rfl

/-- a line followed by a line end: the loop performs the step of the line and goes on after the line end -/
theorem lines_line_nlQ (f : Nat) (st : ParseState) (l : QLine) (c : Bool) (more : Bytes) (hwf : l.WF) :
    lines (f + 1) st (dropWs (l.render ++ (nlBytes c ++ more))) =
      (stepLineQ st l).bind fun st' => lines f st' (dropWs more) := by
  cases l with
  | blank ws => exact lines_blank_nl f st ws c more hwf
  | comment ws body =>
    have := lines_comment_nl f st ws body c more hwf.1 hwf.2
    simpa [QLine.render, stepLineQ, QLine.stmt] using this
  | keyval k w1 v w2 cm => exact lines_keyval_lineQ f st k w1 v w2 cm _ more hwf (.nl c more)
  | std ws k w2 cm => exact lines_std_lineQ f st ws k w2 cm _ more hwf (.nl c more)
  | aot ws k w2 cm => exact lines_aot_lineQ f st ws k w2 cm _ more hwf (.nl c more)

/-- a last line without line end -/
theorem lines_line_eofQ (f : Nat) (st : ParseState) (l : QLine) (hwf : l.WF) (hf : (dropWs l.render).length ≤ f) :
    lines (f + 1) st (dropWs l.render) = stepLineQ st l := by
  cases l with
  | blank ws =>
    have := dropWs_allws ws [] hwf
    simp only [List.append_nil] at this
    simp only [QLine.render, this, dropWs, lines_nil]
    rfl
  | comment ws body => exact lines_comment_eof f st ws body hwf.1 hwf.2
  | keyval k w1 v w2 cm =>
    have h := lines_keyval_lineQ f st k w1 v w2 cm [] [] hwf .eof
    rw [List.append_nil] at h
    rw [h]
    obtain ⟨g, rfl⟩ : ∃ g, f = g + 1 := ⟨f - 1, by
      simp only [QLine.render] at hf
      rw [dropWs_pathQ k hwf.1] at hf
      simp at hf; omega⟩
    simp only [dropWs, lines_nil, stepLineQ, QLine.stmt, step]
    cases onKeyval st k.path k.last (semQ v) <;> rfl
  | std ws k w2 cm =>
    have h := lines_std_lineQ f st ws k w2 cm [] [] hwf .eof
    rw [List.append_nil] at h
    rw [h]
    obtain ⟨g, rfl⟩ : ∃ g, f = g + 1 := ⟨f - 1, by
      simp only [QLine.render] at hf
      rw [dropWs_allws _ _ hwf.1, dropWs_head _ _ (by decide)] at hf
      simp at hf; omega⟩
    simp only [dropWs, lines_nil, stepLineQ, QLine.stmt, step]
    cases onStdHeader st k.keys <;> rfl
  | aot ws k w2 cm =>
    have h := lines_aot_lineQ f st ws k w2 cm [] [] hwf .eof
    rw [List.append_nil] at h
    rw [h]
    obtain ⟨g, rfl⟩ : ∃ g, f = g + 1 := ⟨f - 1, by
      simp only [QLine.render] at hf
      rw [dropWs_allws _ _ hwf.1, dropWs_head _ _ (by decide)] at hf
      simp at hf; omega⟩
    simp only [dropWs, lines_nil, stepLineQ, QLine.stmt, step]
    cases onArrayHeader st k.keys <;> rfl

/-- the loop over a rendered document follows `run` over its statements -/
theorem lines_runQ : ∀ (ls : List (QLine × Bool)) (last : Option QLine) (st : ParseState) (fuel : Nat),
    (∀ p ∈ ls, p.1.WF) → (∀ l, last = some l → l.WF) →
    (dropWs (renderLinesQ ls ++ renderLastQ last)).length < fuel →
    lines fuel st (dropWs (renderLinesQ ls ++ renderLastQ last)) = run st (stmtsLinesQ ls ++ stmtsLastQ last) := by
  intro ls
  induction ls with
  | nil =>
    intro last st fuel _ hl hf
    obtain ⟨f, rfl⟩ : ∃ f, fuel = f + 1 := ⟨fuel - 1, by omega⟩
    cases last with
    | none => simp [renderLinesQ, renderLastQ, stmtsLinesQ, stmtsLastQ, dropWs, lines_nil, run]
    | some l =>
      simp only [renderLinesQ, renderLastQ, List.nil_append, stmtsLinesQ, stmtsLastQ] at hf ⊢
      rw [lines_line_eofQ f st l (hl l rfl) (by omega)]
      unfold stepLineQ
      cases l.stmt with
      | none => rfl
      | some s => simp only [run]; cases step st s <;> rfl
  | cons lc ls ih =>
    intro last st fuel hls hl hf
    obtain ⟨l, c⟩ := lc
    obtain ⟨f, rfl⟩ : ∃ f, fuel = f + 1 := ⟨fuel - 1, by omega⟩
    have hpos := nlBytes_pos c
    simp only [renderLinesQ, List.append_assoc] at hf ⊢
    have h1 := dropWs_append_len l.render (nlBytes c ++ (renderLinesQ ls ++ renderLastQ last)) (nl_head c _)
    have h2 := dropWs_len (renderLinesQ ls ++ renderLastQ last)
    simp only [List.length_append] at h1 h2
    rw [lines_line_nlQ f st l c _ (hls (l, c) (by simp))]
    have ih' := fun st' => ih last st' f (fun p hp => hls p (by simp [hp])) hl (by omega)
    unfold stepLineQ
    simp only [stmtsLinesQ]
    cases hs : l.stmt with
    | none => simp only [Option.bind]; exact ih' st
    | some s =>
      simp only [List.cons_append, run]
      cases step st s with
      | none => rfl
      | some st' => simp only [Option.bind]; exact ih' st'

/-! ## the document -/

theorem keyQ_head (k : QDKey) (hk : k.WF) (Z : Bytes) :
    ∃ b t, k.render ++ Z = b :: t ∧ (isWschar b = true ∨ b = 0x22 ∨ b = 0x27 ∨ isUnquotedChar b = true) := by
  have := path_head (toKeyPath k) (toKeyPath_ok k hk) Z
  rwa [toKeyPath_render] at this

/-- no line starts with the first byte of a byte-order mark -/
theorem line_headQ (l : QLine) (hwf : l.WF) (Z : Bytes) (hZ : ∀ b t, Z = b :: t → b ≠ 0xEF) :
    ∀ b t, l.render ++ Z = b :: t → b ≠ 0xEF := by
  intro b t h
  cases l with
  | blank ws =>
    cases ws with
    | nil => exact hZ b t h
    | cons x r => injection h with h _; rw [← h]; exact ws_not_ef x (hwf x (by simp))
  | comment ws body =>
    simp only [QLine.render, List.append_assoc, List.cons_append] at h
    exact ws_then ws hwf.1 0x23 (by decide) _ b t h
  | keyval k w1 v w2 cm =>
    simp only [QLine.render, List.append_assoc] at h
    obtain ⟨b', t', he, hb⟩ := keyQ_head k hwf.1 (0x3D :: (w1 ++ (renderQ v ++ (w2 ++ commentBytes cm))) ++ Z)
    rw [he] at h
    injection h with h _
    rw [← h]
    exact (pathhead_facts b' hb).2
  | std ws k w2 cm =>
    simp only [QLine.render, List.append_assoc, List.cons_append] at h
    exact ws_then ws hwf.1 0x5B (by decide) _ b t h
  | aot ws k w2 cm =>
    simp only [QLine.render, List.append_assoc, List.cons_append] at h
    exact ws_then ws hwf.1 0x5B (by decide) _ b t h

theorem body_headQ (ls : List (QLine × Bool)) (last : Option QLine) (hls : ∀ p ∈ ls, p.1.WF)
    (hl : ∀ l, last = some l → l.WF) : ∀ b t, renderLinesQ ls ++ renderLastQ last = b :: t → b ≠ 0xEF := by
  cases ls with
  | nil =>
    cases last with
    | none => intro b t h; cases h
    | some l =>
      intro b t h
      have := line_headQ l (hl l rfl) [] (by intro b t h; cases h) b t
      rw [List.append_nil] at this
      exact this h
  | cons lc ls =>
    obtain ⟨l, c⟩ := lc
    intro b t h
    simp only [renderLinesQ, List.append_assoc] at h
    refine line_headQ l (hls (l, c) (by simp)) _ ?_ b t h
    intro b t h
    cases c <;> simp [nlBytes] at h <;> rw [← h.1] <;> decide

theorem stripBom_renderQ (d : QDoc) (hwf : d.WF) : stripBom d.render = renderLinesQ d.lines ++ renderLastQ d.last := by
  unfold QDoc.render bomBytes
  cases d.bom with
  | true =>
    simp only [if_true, List.cons_append, List.nil_append]
    rfl
  | false =>
    simp only [Bool.false_eq_true, if_false, List.nil_append]
    exact stripBom_noop _ (body_headQ d.lines d.last hwf.1 hwf.2)

/-- a rendered document is parsed as the run of its statements from the initial state -/
theorem parseDocument_renderQ (d : QDoc) (hwf : d.WF) :
    parseDocument d.render = (run {} d.stmts).bind intoDocument := by
  unfold parseDocument
  simp only [stripBom_renderQ d hwf]
  rw [lines_runQ d.lines d.last {} _ hwf.1 hwf.2 (by omega)]
  unfold QDoc.stmts
  cases run {} (stmtsLinesQ d.lines ++ stmtsLastQ d.last) <;> rfl

end TomlVerif.Lemmas.SoundDoc01C
