import TomlVerif.Model.Encode
import TomlVerif.Lemmas.Suffix03
/-! Lemmas for C03 / C14: CR stripping, suffix facts of the trivia parsers, slices of the input,
    the spans of a decorated tree, and the value-level induction (bounds + tiling). -/
namespace TomlVerif.Lemmas.Cst03
open TomlVerif TomlVerif.Spec TomlVerif.Model TomlVerif.Model.Strings TomlVerif.Model.Value
open TomlVerif.Model.Cst TomlVerif.Model.Encode TomlVerif.Lemmas.Suffix03

/-! ### CR stripping -/

theorem stripCr_append (a b : Bytes) : stripCr (a ++ b) = stripCr a ++ stripCr b := by
  simp [stripCr]

theorem stripCr_idem (s : Bytes) : stripCr (stripCr s) = stripCr s := by
  simp [stripCr, List.filter_filter]

theorem stripCr_noCr (s : Bytes) : ∀ b ∈ stripCr s, b ≠ 0x0D := by
  intro b hb
  simp [stripCr] at hb
  exact hb.2

theorem stripCr_of_noCr (s : Bytes) (h : ∀ b ∈ s, b ≠ 0x0D) : stripCr s = s := by
  unfold stripCr
  rw [List.filter_eq_self]
  intro b hb
  simpa using h b hb

/-! ### suffix facts of the trivia parsers -/

theorem dropWs_suffix : ∀ s : Bytes, dropWs s <:+ s
  | [] => by simp [dropWs]
  | b :: r => by
    unfold dropWs
    split
    · exact (dropWs_suffix r).trans (List.suffix_cons b r)
    · exact List.suffix_refl _

theorem dropComment_suffix : ∀ s : Bytes, dropComment s <:+ s
  | [] => by simp [dropComment]
  | b :: r => by
    unfold dropComment
    split
    · exact (dropComment_suffix r).trans (List.suffix_cons b r)
    · exact List.suffix_refl _

theorem newline?_suffix (s r : Bytes) (h : newline? s = some r) : r <:+ s ∧ r.length < s.length := by
  unfold newline? at h
  split at h
  · injection h with h; subst h; exact ⟨List.suffix_cons _ _, by simp⟩
  · injection h with h; subst h
    exact ⟨(List.suffix_cons _ _).trans (List.suffix_cons _ _), by simp; omega⟩
  · cases h

theorem wsCommentNewline_suffix : ∀ (fuel : Nat) (s r : Bytes), wsCommentNewline fuel s = some r → r <:+ s
  | 0, s, r, h => by
    unfold wsCommentNewline at h; injection h with h; subst h; exact List.suffix_refl _
  | fuel + 1, s, r, h => by
    unfold wsCommentNewline at h
    simp only [] at h
    have hs1 : dropWs s <:+ s := dropWs_suffix s
    split at h
    · injection h with h; subst h; exact hs1
    · rename_i b r0 heq
      have hs2 : r0 <:+ s := (List.suffix_cons b r0).trans (by rw [← heq]; exact hs1)
      split at h
      · split at h
        · rename_i r' hnl
          have h1 := wsCommentNewline_suffix fuel _ _ h
          have h2 := (newline?_suffix _ _ hnl).1
          exact h1.trans (h2.trans ((dropComment_suffix r0).trans hs2))
        · cases h
      · split at h
        · split at h
          · rename_i r' hnl
            have h1 := wsCommentNewline_suffix fuel _ _ h
            have h2 := (newline?_suffix _ _ hnl).1
            exact h1.trans (h2.trans hs1)
          · cases h
        · injection h with h; subst h; exact hs1

theorem trailEnd_suffix (s : Bytes) : trailEnd s <:+ s := by
  unfold trailEnd
  simp only []
  have hs1 : dropWs s <:+ s := dropWs_suffix s
  generalize dropWs s = s1 at hs1 ⊢
  split
  · rename_i r
    exact (dropComment_suffix r).trans ((List.suffix_cons _ r).trans hs1)
  · exact hs1

theorem lineTrailing_suffix (s r : Bytes) (h : lineTrailing s = .ok () r) : r <:+ trailEnd s := by
  unfold lineTrailing at h
  unfold trailEnd
  simp only [] at h ⊢
  generalize (match dropWs s with | 0x23 :: r => dropComment r | _ => dropWs s) = s2 at h ⊢
  split at h
  · injection h with _ h; subst h; exact List.nil_suffix
  · split at h
    · rename_i r' hnl
      injection h with _ h; subst h
      exact (newline?_suffix _ _ hnl).1
    · cases h

/-! ### the spans of a decorated tree -/

def rawSp : Raw → List Span
  | .empty => []
  | .spanned a b => [(a, b)]

def optRawSp : Option Raw → List Span
  | none => []
  | some r => rawSp r

def decorSp (d : Decor) : List Span := optRawSp d.pre ++ optRawSp d.suf

def optSp : Option Span → List Span
  | none => []
  | some s => [s]

def keySpans (k : CKey) : List Span := rawSp k.repr ++ decorSp k.leaf ++ decorSp k.dotted

def keysSpans : List CKey → List Span
  | [] => []
  | k :: r => keySpans k ++ keysSpans r

mutual
/-- every span a value records: reprs, decor, `trailing`, `preamble`, keys, `span` -/
def valSpans : CVal → List Span
  | .scalar _ r d => rawSp r ++ decorSp d
  | .arr items t _ d sp => elemsSpans items ++ rawSp t ++ decorSp d ++ optSp sp
  | .inl items p _ _ d sp => kvsSpans items ++ rawSp p ++ decorSp d ++ optSp sp
def elemsSpans : List CVal → List Span
  | [] => []
  | v :: r => valSpans v ++ elemsSpans r
def kvsSpans : List (CKey × CVal) → List Span
  | [] => []
  | (k, v) :: r => keySpans k ++ valSpans v ++ kvsSpans r
end

mutual
def tblSpans : CTbl → List Span
  | .mk items _ _ _ d sp => itemsSpans items ++ decorSp d ++ optSp sp
def itemsSpans : List (CKey × CItem) → List Span
  | [] => []
  | (k, it) :: r =>
    keySpans k ++ (match it with
      | .value v => valSpans v
      | .table t => tblSpans t
      | .aot ts sp => tblsSpans ts ++ optSp sp) ++ itemsSpans r
def tblsSpans : List CTbl → List Span
  | [] => []
  | t :: r => tblSpans t ++ tblsSpans r
end

/-- every span recorded in a parsed document -/
def allSpans (d : CDoc) : List Span := tblSpans d.root ++ rawSp d.trailing

/-- a span lies between two offsets -/
def Within (lo hi : Nat) (sp : Span) : Prop := lo ≤ sp.1 ∧ sp.1 ≤ sp.2 ∧ sp.2 ≤ hi

def AllW (lo hi : Nat) (l : List Span) : Prop := ∀ sp ∈ l, Within lo hi sp

theorem AllW.nil (lo hi : Nat) : AllW lo hi [] := by intro sp h; cases h

theorem AllW.append {lo hi : Nat} {a b : List Span} (ha : AllW lo hi a) (hb : AllW lo hi b) : AllW lo hi (a ++ b) := by
  intro sp h
  rcases List.mem_append.1 h with h | h
  · exact ha sp h
  · exact hb sp h

theorem AllW.mono {lo hi lo' hi' : Nat} {l : List Span} (h : AllW lo hi l) (h1 : lo' ≤ lo) (h2 : hi ≤ hi') : AllW lo' hi' l := by
  intro sp hm
  have := h sp hm
  unfold Within at *
  omega

theorem AllW.of_subset {lo hi : Nat} {a b : List Span} (hb : AllW lo hi b) (h : ∀ sp ∈ a, sp ∈ b) : AllW lo hi a :=
  fun sp hm => hb sp (h sp hm)

theorem rawBetween_allW (n lo hi : Nat) (s r : Bytes) (h1 : lo ≤ pos n s) (h2 : pos n s ≤ pos n r) (h3 : pos n r ≤ hi) :
    AllW lo hi (rawSp (rawBetween n s r)) := by
  unfold rawBetween Raw.withSpan
  split
  · exact AllW.nil _ _
  · intro sp hm
    simp [rawSp] at hm
    subst hm
    exact ⟨h1, h2, h3⟩

/-! ### slices of the input -/

theorem pos_of_append (p s : Bytes) : pos (p ++ s).length s = p.length := by
  simp [pos]

theorem slice_mid (p t r : Bytes) : slice (p ++ (t ++ r)) p.length (p.length + t.length) = t := by
  unfold slice
  simp

/-- the text of `rawBetween n s r` is what was consumed between `s` and `r` -/
theorem rawText_between (inp s t r : Bytes) (hs : s <:+ inp) (hr : s = t ++ r) :
    rawText inp (rawBetween inp.length s r) = t := by
  obtain ⟨p, hp⟩ := hs
  subst hr
  subst hp
  unfold rawBetween Raw.withSpan
  have e1 : pos (p ++ (t ++ r)).length (t ++ r) = p.length := pos_of_append p (t ++ r)
  have e2 : pos (p ++ (t ++ r)).length r = p.length + t.length := by
    have := pos_of_append (p ++ t) r
    simpa [List.append_assoc] using this
  rw [e1, e2]
  split
  · rename_i h
    have : t.length = 0 := by
      have := of_decide_eq_true (by simpa using h : decide (p.length = p.length + t.length) = true)
      omega
    simp [rawText, List.length_eq_zero_iff.1 this]
  · simp only [rawText]
    exact slice_mid p t r

/-! ### the printer and `decorate` -/

mutual
/-- scalars and arrays only (no inline tables) -/
def flatVal : CVal → Bool
  | .scalar _ _ _ => true
  | .arr items _ _ _ _ => flatVals items
  | .inl _ _ _ _ _ _ => false
def flatVals : List CVal → Bool
  | [] => true
  | v :: r => flatVal v && flatVals r
end

theorem setDecor_decor (v : CVal) (d : Decor) : (v.setDecor d).decor = d := by
  cases v <;> rfl

theorem flatVal_setDecor (v : CVal) (d : Decor) : flatVal (v.setDecor d) = flatVal v := by
  cases v <;> simp [CVal.setDecor, flatVal]

theorem span_setDecor (v : CVal) (d : Decor) : (v.setDecor d).span = v.span := by
  cases v <;> rfl

theorem valSpans_setDecor (v : CVal) (d : Decor) (h : v.decor = emptyDecor) :
    ∀ sp ∈ valSpans (v.setDecor d), sp ∈ valSpans v ∨ sp ∈ decorSp d := by
  intro sp hm
  cases v <;> simp only [CVal.setDecor, valSpans, List.mem_append] at hm ⊢ <;> simp only [CVal.decor] at h <;> subst h <;> grind

theorem encodeValue_setDecor (f : Bytes → Bytes) (hf : f [] = []) (inp : Bytes) (v : CVal) (a b : Raw)
    (h : v.decor = emptyDecor) (dp ds dp' ds' : Bytes) :
    encodeValue f inp (v.setDecor (Decor.new a b)) dp ds
      = encRaw f inp a ++ encodeValue f inp v dp' ds' ++ encRaw f inp b := by
  cases v <;> simp only [CVal.decor] at h <;> subst h <;>
    simp [CVal.setDecor, encodeValue, prefixEncode, suffixEncode, Decor.new, emptyDecor, encRaw, rawText, hf]

theorem encodeValue_default_irrel (f : Bytes → Bytes) (inp : Bytes) (v : CVal) (a b : Raw)
    (h : v.decor = Decor.new a b) (dp ds dp' ds' : Bytes) :
    encodeValue f inp v dp ds = encodeValue f inp v dp' ds' := by
  cases v <;> simp only [CVal.decor] at h <;> subst h <;>
    simp [encodeValue, prefixEncode, suffixEncode, Decor.new]

theorem encodeElems_false (f : Bytes → Bytes) (inp : Bytes) (l : List CVal)
    (hd : ∀ v ∈ l, ∃ a b, v.decor = Decor.new a b) (hne : l ≠ []) :
    encodeElems f inp l false = [0x2C] ++ encodeElems f inp l true := by
  cases l with
  | nil => exact absurd rfl hne
  | cons v r =>
    obtain ⟨a, b, hv⟩ := hd v (by simp)
    simp only [encodeElems]
    rw [encodeValue_default_irrel f inp v a b hv [0x20] [] [] []]
    simp

/-! ### keys: the rest is a suffix -/

theorem ckeyPathAux_suffix (n : Nat) : ∀ (fuel : Nat) (s : Bytes) (acc ks : List CKey) (r : Bytes),
    ckeyPathAux n fuel s acc = .ok ks r → r <:+ s ∧ r.length < s.length := by
  intro fuel
  induction fuel with
  | zero => intro s acc ks r h; unfold ckeyPathAux at h; cases h
  | succ fuel ih =>
    intro s acc ks r h
    unfold ckeyPathAux at h
    simp only [] at h
    split at h
    · rename_i k r0 hk
      have h0 := simpleKey_suffix _ _ _ hk
      have hws := dropWs_suffix s
      have hws0 := dropWs_suffix r0
      have l1 := hws.length_le
      have l2 := hws0.length_le
      have base : dropWs r0 <:+ s ∧ (dropWs r0).length < s.length :=
        ⟨hws0.trans (h0.1.trans hws), by omega⟩
      split at h
      · rename_i r2 heq
        split at h
        · injection h with h1 h2; subst h2; exact base
        · rename_i other hne
          cases hres : ckeyPathAux n fuel r2 (acc ++ [{ key := k, repr := rawBetween n (dropWs s) r0, dotted := Decor.new (rawBetween n s (dropWs s)) (rawBetween n r0 (dropWs r0)) }]) with
          | bt => exact absurd hres (by simpa using hne)
          | cut => rw [hres] at h; cases h
          | ok ks' r' =>
            rw [hres] at h
            injection h with h1 h2; subst h2
            have hrec := ih _ _ _ _ hres
            have hs2 : r2 <:+ dropWs r0 := by rw [heq]; exact List.suffix_cons _ _
            have l3 := hs2.length_le
            have l4 : (dropWs r0).length = r2.length + 1 := by rw [heq]; simp
            exact ⟨hrec.1.trans (hs2.trans base.1), by omega⟩
      · injection h with h1 h2; subst h2; exact base
    · cases h
    · cases h

theorem ckeyPath_suffix (n : Nat) (s : Bytes) (ks : List CKey) (r : Bytes)
    (h : ckeyPath n s = .ok ks r) : r <:+ s ∧ r.length < s.length := by
  unfold ckeyPath at h
  cases hk : ckeyPathAux n (s.length + 1) s [] with
  | ok ks0 r0 =>
    rw [hk] at h
    simp only [] at h
    split at h
    · cases h
    · injection h with h1 h2; subst h2
      exact ckeyPathAux_suffix n _ _ _ _ _ hk
  | bt => rw [hk] at h; cases h
  | cut => rw [hk] at h; cases h

/-! ### the value-level induction -/

def P1 (inp : Bytes) (fuel : Nat) : Prop :=
  ∀ d s v r, s <:+ inp → cvalue inp.length fuel d s = .ok v r →
    ∃ t, s = t ++ r ∧ t ≠ [] ∧ v.decor = emptyDecor ∧
      (flatVal v = true → AllW (pos inp.length s) (pos inp.length r) (valSpans v) ∧
        ∀ dp ds, encodeValue id inp v dp ds = t)

def P2 (inp : Bytes) (fuel : Nat) : Prop :=
  ∀ d s vs comma tr r, s <:+ inp → carrayValues inp.length fuel d s = .ok (vs, comma, tr) r →
    ∃ t, s = t ++ r ∧
      (flatVals vs = true → AllW (pos inp.length s) (pos inp.length r) (elemsSpans vs ++ rawSp tr) ∧
        encodeElems id inp vs true ++ (if comma && !vs.isEmpty then [0x2C] else []) ++ encRaw id inp tr = t)

def P3 (inp : Bytes) (fuel : Nat) : Prop :=
  ∀ d s acc vs r, s <:+ inp → carrayElems inp.length fuel d s acc = .ok vs r →
    ∃ new t, vs = acc ++ new ∧ s = t ++ r ∧ (∀ v ∈ new, ∃ a b, v.decor = Decor.new a b) ∧
      (flatVals new = true → AllW (pos inp.length s) (pos inp.length r) (elemsSpans new) ∧
        encodeElems id inp new true = t)

def P4 (inp : Bytes) (fuel : Nat) : Prop :=
  ∀ d s acc kvs r, s <:+ inp → cinlineKeyvals inp.length fuel d s acc = .ok kvs r → r <:+ s

theorem suffix_of_append {α} (t r : List α) : r <:+ t ++ r := ⟨t, rfl⟩

theorem step4 (inp : Bytes) (fuel : Nat) (ih1 : P1 inp fuel) (ih4 : P4 inp fuel) : P4 inp (fuel + 1) := by
  intro d s acc kvs r hinp h
  unfold cinlineKeyvals at h
  split at h
  · cases h
  · injection h with h1 h2; subst h2; exact List.suffix_refl _
  · rename_i ks r0 hk
    have hk' := (ckeyPath_suffix _ _ _ _ hk).1
    split at h
    · cases h
    · split at h
      · rename_i r1
        simp only [] at h
        have hr1 : r1 <:+ s := (List.suffix_cons _ _).trans hk'
        split at h
        · rename_i v r2 hv
          obtain ⟨t, ht, _, _, _⟩ := ih1 _ _ _ _ (((dropWs_suffix r1).trans hr1).trans hinp) hv
          have hr2 : r2 <:+ s := (ht ▸ suffix_of_append t r2).trans ((dropWs_suffix r1).trans hr1)
          have hr3 : dropWs r2 <:+ s := (dropWs_suffix r2).trans hr2
          split at h
          · cases h
          · split at h
            · rename_i r4 heq
              have hr4 : r4 <:+ s := (List.suffix_cons _ _).trans (heq ▸ hr3)
              split at h
              · rename_i kvs' r5 hrec
                have h5 := ih4 _ _ _ _ _ (hr4.trans hinp) hrec
                split at h
                · injection h with h1 h2; subst h2; exact hr3
                · injection h with h1 h2; subst h2; exact h5.trans hr4
              · rename_i hne
                exact absurd h (hne _ _)
            · injection h with h1 h2; subst h2; exact hr3
        · cases h
      · cases h

theorem rawText_empty (inp : Bytes) : rawText inp .empty = [] := rfl

theorem length_pos_append (t r : Bytes) (h : r.length < (t ++ r).length) : t ≠ [] := by
  intro e; subst e; simp at h

theorem step1 (inp : Bytes) (fuel : Nat) (ih2 : P2 inp fuel) (ih4 : P4 inp fuel) : P1 inp (fuel + 1) := by
  intro d s v r hinp h
  unfold cvalue at h
  split at h
  · cases h
  · rename_i b r0
    have hr0 : r0 <:+ inp := (List.suffix_cons b r0).trans hinp
    split at h
    · -- array
      rename_i hb
      have hb : b = 0x5B := by simpa using hb
      subst hb
      split at h
      · cases h
      · split at h
        · rename_i vs comma tr r1 hav
          obtain ⟨t, ht, htile⟩ := ih2 _ _ _ _ _ _ hr0 hav
          split at h
          · rename_i r2
            injection h with h1 h2; subst h2; subst h1
            refine ⟨[0x5B] ++ t ++ [0x5D], by simp [ht], by simp, rfl, ?_⟩
            intro hflat
            simp only [flatVal] at hflat
            obtain ⟨hb1, hb2⟩ := htile hflat
            have l0 : r0.length = t.length + (r2.length + 1) := by rw [ht]; simp
            constructor
            · simp only [valSpans]
              refine AllW.append (AllW.append ?_ ?_) ?_
              · refine hb1.mono ?_ ?_ <;> simp [pos] <;> omega
              · simp [decorSp, emptyDecor, Decor.new, optRawSp, rawSp]; exact AllW.nil _ _
              · intro sp hm
                simp [optSp] at hm
                subst hm
                simp [Within, pos]; omega
            · intro dp ds
              simp [encodeValue, prefixEncode, suffixEncode, emptyDecor, Decor.new, encRaw, rawText_empty]
              simp [encRaw] at hb2
              rw [← hb2]; simp
          · cases h
        · cases h
    · split at h
      · -- inline table: no tiling claim
        rename_i hb
        split at h
        · cases h
        · split at h
          · rename_i kvs r1 hkv
            have h1 := ih4 _ _ _ _ _ hr0 hkv
            simp only [] at h
            split at h
            · cases h
            · split at h
              · rename_i r2 heq
                injection h with h1' h2; subst h2; subst h1'
                have hsuf : r2 <:+ b :: r0 :=
                  ((List.suffix_cons _ r2).trans (heq ▸ dropWs_suffix r1)).trans (h1.trans (List.suffix_cons b r0))
                have hlen : r2.length < (b :: r0).length := by
                  have a1 := (heq ▸ dropWs_suffix r1 : (0x7D :: r2) <:+ r1).length_le
                  have a2 := h1.length_le
                  simp at a1 ⊢; omega
                obtain ⟨t, ht⟩ := hsuf
                refine ⟨t, ht.symm, ?_, rfl, ?_⟩
                · rw [← ht] at hlen; exact length_pos_append t r2 hlen
                · intro hf; simp [flatVal] at hf
              · cases h
          · cases h
      · -- scalar
        split at h
        · rename_i v0 r1 hv
          injection h with h1 h2; subst h2; subst h1
          obtain ⟨hsuf, hlen⟩ := scalar_suffix _ _ _ _ hv
          obtain ⟨t, ht⟩ := hsuf
          refine ⟨t, ht.symm, ?_, rfl, ?_⟩
          · rw [← ht] at hlen; exact length_pos_append t r1 hlen
          · intro _
            constructor
            · simp only [valSpans]
              refine AllW.append ?_ ?_
              · refine rawBetween_allW _ _ _ _ _ (Nat.le_refl _) ?_ (Nat.le_refl _)
                have := congrArg List.length ht
                simp at this
                simp [pos]; omega
              · simp [decorSp, emptyDecor, Decor.new, optRawSp, rawSp]; exact AllW.nil _ _
            · intro dp ds
              simp only [encodeValue, prefixEncode, suffixEncode, emptyDecor, Decor.new, encRaw, rawText_empty, id]
              rw [rawText_between inp (b :: r0) t r1 hinp ht.symm]
              simp
        · cases h
        · cases h

theorem step2 (inp : Bytes) (fuel : Nat) (ih3 : P3 inp fuel) : P2 inp (fuel + 1) := by
  intro d s vs comma tr r hinp h
  unfold carrayValues at h
  split at h
  · injection h with h1 h2; subst h2
    injection h1 with h1 h3; injection h3 with h3 h4; subst h1; subst h3; subst h4
    refine ⟨[], by simp, ?_⟩
    intro _
    exact ⟨by simp [elemsSpans, rawSp]; exact AllW.nil _ _, by simp [encodeElems, encRaw, rawText_empty]⟩
  · split at h
    · rename_i vs0 r0 hel
      obtain ⟨new, t, hvs, ht, hdec, htile⟩ := ih3 _ _ _ _ _ hinp hel
      simp only [List.nil_append] at hvs
      subst hvs
      have key : ∀ (comma0 : Bool) (r1 : Bytes),
          (comma0 = true → vs0.isEmpty = false ∧ r0 = 0x2C :: r1) → (comma0 = false → r1 = r0) →
          (match wsCommentNewline (List.length r1 + 1) r1 with
            | some r2 => Res.ok (vs0, comma0, rawBetween (List.length inp) r1 r2) r2
            | none => Res.bt) = Res.ok (vs, comma, tr) r →
          ∃ t, s = t ++ r ∧ (flatVals vs = true →
            AllW (pos (List.length inp) s) (pos (List.length inp) r) (elemsSpans vs ++ rawSp tr) ∧
            (encodeElems id inp vs true ++ if (comma && !vs.isEmpty) = true then [44] else []) ++ encRaw id inp tr = t) := by
        intro comma0 r1 hc1 hc2 h
        split at h
        · rename_i r2 hw
          injection h with h1 h2; subst h2
          injection h1 with h1 h3; injection h3 with h3 h4; subst h1; subst h3; subst h4
          obtain ⟨w, hw2⟩ := wsCommentNewline_suffix _ _ _ hw
          cases comma0 with
          | false =>
            have e := hc2 rfl
            subst e
            refine ⟨t ++ w, by rw [ht, ← hw2]; simp, ?_⟩
            intro hf
            obtain ⟨hb1, hb2⟩ := htile hf
            have hr1 : r1 <:+ inp := (ht ▸ suffix_of_append t r1).trans hinp
            have l1 : s.length = t.length + r1.length := by rw [ht]; simp
            have l2 : r1.length = w.length + r2.length := by rw [← hw2]; simp
            constructor
            · refine AllW.append (hb1.mono (Nat.le_refl _) (by simp [pos]; omega)) ?_
              exact rawBetween_allW _ _ _ _ _ (by simp [pos]; omega) (by simp [pos]; omega) (Nat.le_refl _)
            · simp only [encRaw, id]
              rw [rawText_between inp r1 w r2 hr1 hw2.symm, hb2]
              simp
          | true =>
            obtain ⟨hne, e⟩ := hc1 rfl
            refine ⟨t ++ [0x2C] ++ w, by rw [ht, e, ← hw2]; simp, ?_⟩
            intro hf
            obtain ⟨hb1, hb2⟩ := htile hf
            have hr1 : r1 <:+ inp := ((List.suffix_cons _ r1).trans (e ▸ (ht ▸ suffix_of_append t r0))).trans hinp
            have l1 : s.length = t.length + r0.length := by rw [ht]; simp
            have l0 : r0.length = r1.length + 1 := by rw [e]; simp
            have l2 : r1.length = w.length + r2.length := by rw [← hw2]; simp
            constructor
            · refine AllW.append (hb1.mono (Nat.le_refl _) (by simp [pos]; omega)) ?_
              exact rawBetween_allW _ _ _ _ _ (by simp [pos]; omega) (by simp [pos]; omega) (Nat.le_refl _)
            · simp only [encRaw, id]
              rw [rawText_between inp r1 w r2 hr1 hw2.symm, hb2]
              simp [hne]
        · cases h
      split at h
      rename_i comma0 r1 heq
      split at heq
      · injection heq with e1 e2; subst e1; subst e2
        exact key false r0 (by intro c; cases c) (fun _ => rfl) h
      · rename_i hvs
        have hvs' : vs0.isEmpty = false := by simpa using hvs
        split at heq
        · rename_i t0
          injection heq with e1 e2; subst e1; subst e2
          exact key true _ (fun _ => ⟨hvs', rfl⟩) (by intro c; cases c) h
        · injection heq with e1 e2; subst e1; subst e2
          exact key false r0 (by intro c; cases c) (fun _ => rfl) h
    · cases h
    · cases h

theorem step3 (inp : Bytes) (fuel : Nat) (ih1 : P1 inp fuel) (ih3 : P3 inp fuel) : P3 inp (fuel + 1) := by
  intro d s acc vs r hinp h
  have reset : ∀ {vs r}, (Res.ok acc s : Res (List CVal)) = Res.ok vs r →
      ∃ new t, vs = acc ++ new ∧ s = t ++ r ∧ (∀ v ∈ new, ∃ a b, v.decor = Decor.new a b) ∧
      (flatVals new = true → AllW (pos inp.length s) (pos inp.length r) (elemsSpans new) ∧
        encodeElems id inp new true = t) := by
    intro vs r h
    injection h with h1 h2; subst h1; subst h2
    exact ⟨[], [], by simp, by simp, (by intro v hv; cases hv), fun _ => ⟨(by simp [elemsSpans]; exact AllW.nil _ _), (by simp [encodeElems])⟩⟩
  unfold carrayElems at h
  split at h
  · exact reset h
  · rename_i s1 hw1
    obtain ⟨w1, hs1⟩ := wsCommentNewline_suffix _ _ _ hw1
    have hs1inp : s1 <:+ inp := (hs1 ▸ suffix_of_append w1 s1).trans hinp
    split at h
    · cases h
    · exact reset h
    · rename_i v s2 hv
      obtain ⟨tok, htok, _, hdec, hvt⟩ := ih1 _ _ _ _ hs1inp hv
      split at h
      · exact reset h
      · rename_i s3 hw2
        obtain ⟨w2, hs3⟩ := wsCommentNewline_suffix _ _ _ hw2
        simp only [] at h
        have l1 : s.length = w1.length + s1.length := by rw [← hs1]; simp
        have l2 : s1.length = tok.length + s2.length := by rw [htok]; simp
        have l3 : s2.length = w2.length + s3.length := by rw [← hs3]; simp
        have hs2inp : s2 <:+ inp := (htok ▸ suffix_of_append tok s2).trans hs1inp
        -- facts about the decorated element
        generalize hv' : v.setDecor (Decor.new (rawBetween inp.length s s1) (rawBetween inp.length s2 s3)) = v' at h
        have hd' : ∃ a b, v'.decor = Decor.new a b := ⟨_, _, by rw [← hv', setDecor_decor]⟩
        have hf' : flatVal v' = flatVal v := by rw [← hv', flatVal_setDecor]
        have hel : flatVal v = true → AllW (pos inp.length s) (pos inp.length s3) (valSpans v') ∧
            ∀ dp ds, encodeValue id inp v' dp ds = w1 ++ tok ++ w2 := by
          intro hf
          obtain ⟨hb1, hb2⟩ := hvt hf
          constructor
          · intro sp hm
            rw [← hv'] at hm
            rcases valSpans_setDecor v _ hdec sp hm with hm | hm
            · exact (hb1.mono (by simp [pos]; omega) (by simp [pos]; omega)) sp hm
            · simp only [decorSp, Decor.new, optRawSp, List.mem_append] at hm
              rcases hm with hm | hm
              · exact rawBetween_allW _ _ _ _ _ (Nat.le_refl _) (by simp [pos]; omega) (by simp [pos]; omega) sp hm
              · exact rawBetween_allW _ _ _ _ _ (by simp [pos]; omega) (by simp [pos]; omega) (Nat.le_refl _) sp hm
          · intro dp ds
            rw [← hv', encodeValue_setDecor id rfl inp v _ _ hdec dp ds [] [], hb2 [] []]
            simp only [encRaw, id]
            rw [rawText_between inp s w1 s1 hinp hs1.symm, rawText_between inp s2 w2 s3 hs2inp hs3.symm]
        have single : ∃ new t, acc ++ [v'] = acc ++ new ∧ s = t ++ s3 ∧ (∀ v ∈ new, ∃ a b, v.decor = Decor.new a b) ∧
            (flatVals new = true → AllW (pos inp.length s) (pos inp.length s3) (elemsSpans new) ∧
              encodeElems id inp new true = t) := by
          refine ⟨[v'], w1 ++ tok ++ w2, rfl, by rw [← hs1, htok, ← hs3]; simp, ?_, ?_⟩
          · intro x hx; simp at hx; subst hx; exact hd'
          · intro hf
            simp only [flatVals, Bool.and_true] at hf
            obtain ⟨hb1, hb2⟩ := hel (hf' ▸ hf)
            exact ⟨by simp only [elemsSpans, List.append_nil]; exact hb1, by simp [encodeElems, hb2]⟩
        split at h
        · rename_i s4
          have hs4inp : s4 <:+ inp := (List.suffix_cons _ s4).trans ((hs3 ▸ suffix_of_append w2 _).trans hs2inp)
          split at h
          · rename_i vs' r' hrec
            obtain ⟨new', t', hvs, ht', hdecs, htile⟩ := ih3 _ _ _ _ _ hs4inp hrec
            split at h
            · rename_i hlen
              injection h with h1 h2; subst h1; subst h2
              have : new' = [] := by
                have hl := congrArg List.length hvs
                have : vs'.length = (acc ++ [v']).length := by simpa using hlen
                simp at hl this
                exact List.length_eq_zero_iff.1 (by omega)
              subst this
              rw [hvs, List.append_nil]
              exact single
            · rename_i hlen
              injection h with h1 h2; subst h1; subst h2
              have hne : new' ≠ [] := by
                intro e; subst e
                simp at hvs; subst hvs; simp at hlen
              have l4 : (0x2C :: s4).length = s4.length + 1 := by simp
              have l5 : s4.length = t'.length + r'.length := by rw [ht']; simp
              refine ⟨v' :: new', w1 ++ tok ++ w2 ++ [0x2C] ++ t', by rw [hvs]; simp, ?_, ?_, ?_⟩
              · rw [← hs1, htok, ← hs3, ht']; simp
              · intro x hx
                rcases List.mem_cons.1 hx with hx | hx
                · subst hx; exact hd'
                · exact hdecs x hx
              · intro hf
                simp only [flatVals, Bool.and_eq_true] at hf
                obtain ⟨hb1, hb2⟩ := hel (hf' ▸ hf.1)
                obtain ⟨hc1, hc2⟩ := htile hf.2
                constructor
                · simp only [elemsSpans]
                  exact AllW.append (hb1.mono (Nat.le_refl _) (by simp [pos]; omega))
                    (hc1.mono (by simp [pos]; omega) (Nat.le_refl _))
                · simp only [encodeElems, if_true]
                  rw [hb2, encodeElems_false id inp new' hdecs hne, hc2]
                  simp
          · rename_i hne
            exact absurd h (hne _ _)
        · injection h with h1 h2; subst h1; subst h2
          exact single

theorem value_main (inp : Bytes) : ∀ fuel : Nat, P1 inp fuel ∧ P2 inp fuel ∧ P3 inp fuel ∧ P4 inp fuel := by
  intro fuel
  induction fuel with
  | zero =>
    refine ⟨?_, ?_, ?_, ?_⟩
    · intro d s v r _ h; unfold cvalue at h; cases h
    · intro d s vs comma tr r _ h; unfold carrayValues at h; cases h
    · intro d s acc vs r _ h; unfold carrayElems at h; cases h
    · intro d s acc kvs r _ h; unfold cinlineKeyvals at h; cases h
  | succ fuel ih =>
    obtain ⟨ih1, ih2, ih3, ih4⟩ := ih
    exact ⟨step1 inp fuel ih2 ih4, step2 inp fuel ih3, step3 inp fuel ih1 ih3, step4 inp fuel ih1 ih4⟩

/-- the value-level result: what `cvalue` consumed, the bounds of the recorded spans and (for
    values built from scalars and arrays) the verbatim print -/
theorem cvalue_tiling (inp : Bytes) (fuel d : Nat) (s r : Bytes) (v : CVal) (hs : s <:+ inp)
    (h : cvalue inp.length fuel d s = .ok v r) :
    ∃ t, s = t ++ r ∧ t ≠ [] ∧ v.decor = emptyDecor ∧
      (flatVal v = true → AllW (pos inp.length s) (pos inp.length r) (valSpans v) ∧
        ∀ dp ds, encodeValue id inp v dp ds = t) :=
  (value_main inp fuel).1 d s v r hs h

end TomlVerif.Lemmas.Cst03
