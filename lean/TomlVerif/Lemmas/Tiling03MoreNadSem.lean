import TomlVerif.Lemmas.State09
/-! C03, same data for NON-adjacent dotted keys — the semantic side: replaying a list of key/value
    statements (`replay`) into a table; statements under a common first key segment `k` build the
    sub-table of `k` (`replay_push_some`, `replay_push_new`); a run of key/value statements of
    `State09.run` is a `replay` into the current table (`run_kvs`). -/
namespace TomlVerif.Lemmas.Tiling03More.Nad
open TomlVerif TomlVerif.Model TomlVerif.Model.State TomlVerif.Lemmas.State09

/-- a key/value statement: table path, key, value -/
abbrev KV := List Bytes × Bytes × Val

/-- the callback of `on_keyval` at the table reached; `top` = "the key is not dotted" -/
def kvLeaf (top : Bool) (key : Bytes) (v : Val) : Tbl → Option Tbl := fun table =>
  if table.dotted == top then none
  else match alookup key table.items with
    | some _ => none
    | none => some (table.setItems (table.items ++ [(key, .value v)]))

theorem kvF_eq (path : List Bytes) (key : Bytes) (v : Val) : kvF path key v = kvLeaf path.isEmpty key v := rfl

/-- one key/value statement on a table; `top`: the table is the current table of the state -/
def ins (top : Bool) (t : Tbl) (e : KV) : Option Tbl :=
  descend t e.1 true (kvLeaf (top && e.1.isEmpty) e.2.1 e.2.2)

def replay (top : Bool) : Tbl → List KV → Option Tbl
  | t, [] => some t
  | t, e :: r => match ins top t e with
    | some t' => replay top t' r
    | none => none

def push (k : Bytes) (e : KV) : KV := (k :: e.1, e.2.1, e.2.2)

def kvStmt (e : KV) : Stmt := .kv e.1 e.2.1 e.2.2

theorem replay_append (top : Bool) (t : Tbl) (a b : List KV) :
    replay top t (a ++ b) = (replay top t a).bind (fun t1 => replay top t1 b) := by
  induction a generalizing t with
  | nil => rfl
  | cons e r ih =>
    simp only [List.cons_append, replay]
    cases ins top t e with
    | none => rfl
    | some t1 => exact ih t1

theorem setItems_self (t : Tbl) : t.setItems t.items = t := by cases t; rfl

theorem areplace_self {α : Type} (k : Bytes) (v : α) : ∀ (l : List (Bytes × α)), alookup k l = some v →
    areplace k v l = l
  | [], _ => rfl
  | (k', v') :: r, h => by
    by_cases hk : k' = k
    · subst hk
      simp [alookup] at h
      subst h
      simp [areplace]
    · simp [alookup, hk] at h
      simp [areplace, hk, areplace_self k v r h]

theorem aset_self {α : Type} (k : Bytes) (v : α) (l : List (Bytes × α)) (h : alookup k l = some v) :
    aset k v l = l := by
  rw [aset_of_some k v v l h]; exact areplace_self k v l h

theorem kvLeaf_flags (top : Bool) (key : Bytes) (v : Val) (u u' : Tbl) (h : kvLeaf top key v u = some u') :
    u'.implicit = u.implicit ∧ u'.dotted = u.dotted ∧ u'.pos = u.pos := by
  unfold kvLeaf at h
  split at h
  · cases h
  · split at h
    · cases h
    · injection h with h; subst h; exact ⟨rfl, rfl, rfl⟩

theorem descend_flags (t t' : Tbl) (path : List Bytes) (d : Bool) (f : Tbl → Option Tbl)
    (hf : ∀ u u', f u = some u' → u'.implicit = u.implicit ∧ u'.dotted = u.dotted ∧ u'.pos = u.pos)
    (h : descend t path d f = some t') :
    t'.implicit = t.implicit ∧ t'.dotted = t.dotted ∧ t'.pos = t.pos := by
  cases path with
  | nil => simp only [descend] at h; exact hf _ _ h
  | cons k ks =>
    rcases descend_cons_some t t' k ks d f h with ⟨_, _, _, _, _, ht⟩ | ⟨_, _, _, _, _, _, ht⟩
    · subst ht; exact ⟨rfl, rfl, rfl⟩
    · subst ht; exact ⟨rfl, rfl, rfl⟩

theorem ins_flags (top : Bool) (t t' : Tbl) (e : KV) (h : ins top t e = some t') :
    t'.implicit = t.implicit ∧ t'.dotted = t.dotted ∧ t'.pos = t.pos :=
  descend_flags t t' e.1 true _ (kvLeaf_flags _ _ _) h

theorem ins_push (top : Bool) (t s0 : Tbl) (k : Bytes) (e : KV)
    (he : (alookup k t.items).getD (.table (newImplicit true)) = .table s0) (hi : s0.implicit = true) :
    ins top t (push k e) = (ins false s0 e).map (fun s' => t.setItems (aset k (.table s') t.items)) := by
  unfold ins push
  simp only [List.isEmpty_cons, Bool.and_false, Bool.false_and]
  exact descend_cons_table t s0 k e.1 true _ he (by simp [hi])

/-- statements under the first segment `k`, an existing implicit table: they build that table -/
theorem replay_push_some (top : Bool) (k : Bytes) : ∀ (es : List KV) (t s0 : Tbl),
    alookup k t.items = some (.table s0) → s0.implicit = true →
    replay top t (es.map (push k)) =
      (replay false s0 es).map (fun s' => t.setItems (aset k (.table s') t.items))
  | [], t, s0, hl, _ => by
    simp only [List.map_nil, replay, Option.map_some]
    rw [aset_self k _ _ hl, setItems_self]
  | e :: es, t, s0, hl, hi => by
    simp only [List.map_cons, replay]
    rw [ins_push top t s0 k e (by rw [hl]; rfl) hi]
    cases hs : ins false s0 e with
    | none => rfl
    | some s1 =>
      simp only [Option.map_some]
      have hi1 : s1.implicit = true := by rw [(ins_flags false s0 s1 e hs).1]; exact hi
      rw [replay_push_some top k es (t.setItems (aset k (.table s1) t.items)) s1
        (by simp [alookup_aset_same]) hi1]
      simp only [items_setItems, aset_aset, setItems_setItems]

/-- statements under a new first segment `k`: they create its dotted-key table -/
theorem replay_push_new (top : Bool) (k : Bytes) (e : KV) (es : List KV) (t : Tbl)
    (hl : alookup k t.items = none) :
    replay top t ((e :: es).map (push k)) =
      (replay false (newImplicit true) (e :: es)).map (fun s' => t.setItems (t.items ++ [(k, .table s')])) := by
  simp only [List.map_cons, replay]
  rw [ins_push top t (newImplicit true) k e (by rw [hl]; rfl) rfl]
  cases hs : ins false (newImplicit true) e with
  | none => rfl
  | some s1 =>
    simp only [Option.map_some]
    have hi1 : s1.implicit = true := by rw [(ins_flags false _ s1 e hs).1]; rfl
    rw [replay_push_some top k es (t.setItems (aset k (.table s1) t.items)) s1
      (by simp [alookup_aset_same]) hi1]
    simp only [items_setItems, aset_aset, setItems_setItems]
    cases replay false s1 es with
    | none => rfl
    | some s2 => simp only [Option.map_some]; rw [aset_of_none k _ _ hl]

/-- a run of key/value statements is a replay into the current table -/
theorem run_kvs : ∀ (es : List KV) (st : ParseState),
    run st (es.map kvStmt) = (replay true st.current es).map (fun c => { st with current := c })
  | [], st => rfl
  | e :: es, st => by
    simp only [List.map_cons, run, replay]
    have : step st (kvStmt e) = (ins true st.current e).map (fun c => { st with current := c }) := by
      show onKeyval st e.1 e.2.1 e.2.2 = _
      rw [onKeyval_eq, kvF_eq]
      simp [ins]
    rw [this]
    cases ins true st.current e with
    | none => rfl
    | some c =>
      simp only [Option.map_some]
      rw [run_kvs es]

end TomlVerif.Lemmas.Tiling03More.Nad
