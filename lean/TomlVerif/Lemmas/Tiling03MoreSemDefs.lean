import TomlVerif.Lemmas.Tiling03MoreOrdMain
import TomlVerif.Lemmas.Tiling03MoreEraseDoc
import TomlVerif.Lemmas.Tiling03MoreVSKeys
import TomlVerif.Lemmas.Tiling03MoreVSValue
import TomlVerif.Lemmas.Tiling03MoreNorm
/-! C03, same data for documents with adjacent dotted keys — the class `adjRun`: `ordRunV` with
    all spelling checks (`sameSeg`, `sameLeaf`) and the value check (`okValue`) removed; what
    remains is structure only.  Inclusion `ordRunV ⊆ adjRun`. -/
namespace TomlVerif.Lemmas.Tiling03More
open TomlVerif TomlVerif.Spec TomlVerif.Model TomlVerif.Model.Strings TomlVerif.Model.Value
open TomlVerif.Model.Cst TomlVerif.Model.Encode TomlVerif.Lemmas.Suffix03 TomlVerif.Lemmas.Cst03
open TomlVerif.Lemmas.LastByte03 TomlVerif.Lemmas.Tiling03 TomlVerif.Lemmas.Tiling03Hdr
open TomlVerif.Lemmas.Tiling03Nest

/-- the header check without spelling: no table on the way is a dotted-key table, a segment
    naming an existing entry names a table or a non-empty array of tables, the last key is new or
    (for `[[…]]`) names an array of tables.  (`[t]` on an existing implicit table is excluded.) -/
def pathOkA (a : Bool) (key : CKey) : CTbl → List CKey → Bool
  | t, [] => !t.dotted && (match clookup key.key t.items with
      | none => true
      | some (.aot _ _) => a
      | some _ => false)
  | t, k :: ks => !t.dotted && (match clookup k.key t.items with
      | none => true
      | some (.table sub) => pathOkA a key sub ks
      | some (.aot ts _) =>
          (match ts.reverse with
           | l :: _ => pathOkA a key l ks
           | [] => false)
      | some (.value _) => false)

/-- adjacency of dotted keys: every prefix segment that names an existing entry names the LAST
    item of its table, a dotted-key table -/
def dottedOkA : CTbl → List CKey → Bool
  | _, [] => true
  | t, k :: ks => match clookup k.key t.items with
      | none => true
      | some _ => match lastEntry k.key t.items with
          | some (_, _, .table sub) => sub.dotted && dottedOkA sub ks
          | _ => false

def hdrChkA (inp : Bytes) (a : Bool) (st1 : CState) (r : Bytes) : Bool :=
  match ckeyPath inp.length r with
  | .ok ks _ =>
    (match splitLast ks with
     | some (pp, key) => pathOkA a key st1.root pp
     | none => true)
  | _ => true

def hdrLineOkA (inp : Bytes) (st : CState) (s : Bytes) : Bool :=
  match finalizeTable st with
  | none => true
  | some st1 =>
    (match s with
     | 0x5B :: 0x5B :: r => hdrChkA inp true st1 r
     | _ => true) &&
    (match s with
     | 0x5B :: r => hdrChkA inp false st1 r
     | _ => true)

def kvLineOkA (inp : Bytes) (st : CState) (s : Bytes) : Bool :=
  match ckeyPath inp.length s with
  | .ok ks (0x3D :: r1) =>
    (match cvalue inp.length (3 * r1.length + 4) (ks.length - 1) (dropWs r1) with
     | .ok _ _ =>
       (match splitLast ks with
        | some (path, _) => dottedOkA st.current path
        | none => true)
     | _ => true)
  | _ => true

def runOkA (inp : Bytes) : Nat → CState → Bytes → Bool
  | 0, _, _ => true
  | fuel + 1, st, s =>
    let n := inp.length
    match s with
    | [] => true
    | b :: r =>
      if b == 0x23 then
        let r1 := dropComment r
        match r1 with
        | [] => true
        | _ => match newline? r1 with
          | some r2 =>
            let (st', r3) := parseWs n (onWs st (pos n s) (pos n r2)) r2
            runOkA inp fuel st' r3
          | none => true
      else if b == 0x5B then
        hdrLineOkA inp st s &&
        (match ctableLine n st s with
         | some (st', r1) =>
           let (st'', r2) := parseWs n st' r1
           runOkA inp fuel st'' r2
         | none => true)
      else if b == 0x0A || b == 0x0D then
        match newline? s with
        | some r1 =>
          let (st', r2) := parseWs n (onWs st (pos n s) (pos n r1)) r1
          runOkA inp fuel st' r2
        | none => true
      else
        kvLineOkA inp st s &&
        (match ckeyvalLine n st s with
         | some (st', r1) =>
           let (st'', r2) := parseWs n st' r1
           runOkA inp fuel st'' r2
         | none => true)

/-- the class: the checked run of `parse_document`, structure only -/
def adjRun (s : Bytes) : Bool :=
  let n := s.length
  let s0 := Doc.stripBom s
  let (st0, s1) := parseWs n {} s0
  runOkA s (s1.length + 1) st0 s1

/-! ### `ordRunV ⊆ adjRun` -/

theorem pathOkO_A (inp : Bytes) (a : Bool) (key : CKey) : ∀ (pp : List CKey) (t : CTbl),
    pathOkO inp a key t pp = true → pathOkA a key t pp = true
  | [], t, h => by
    simp only [pathOkO, Bool.and_eq_true] at h
    simp only [pathOkA, Bool.and_eq_true]
    refine ⟨h.1, ?_⟩
    have h2 := h.2
    cases hl : clookup key.key t.items with
    | none => rfl
    | some y =>
      rw [hl] at h2
      cases y with
      | value v => simp at h2
      | table sub => simp at h2
      | aot ts asp =>
        simp only [Bool.and_eq_true] at h2
        exact h2.1
  | k :: ks, t, h => by
    simp only [pathOkO, Bool.and_eq_true] at h
    simp only [pathOkA, Bool.and_eq_true]
    refine ⟨h.1, ?_⟩
    have h2 := h.2
    cases hl : clookup k.key t.items with
    | none => rfl
    | some y =>
      rw [hl] at h2
      cases y with
      | value v => simp at h2
      | table sub =>
        simp only [Bool.and_eq_true] at h2
        exact pathOkO_A inp a key ks sub h2.2
      | aot ts asp =>
        simp only [Bool.and_eq_true] at h2
        have h3 := h2.2
        simp only []
        split at h3
        · rename_i l rest hrev
          simp only [hrev]
          exact pathOkO_A inp a key ks l h3
        · cases h3

theorem dottedOk_A (inp : Bytes) : ∀ (path : List CKey) (t : CTbl), dottedOk inp t path = true → dottedOkA t path = true
  | [], _, _ => rfl
  | k :: ks, t, h => by
    simp only [dottedOk] at h
    simp only [dottedOkA]
    cases hl : clookup k.key t.items with
    | none => rfl
    | some y =>
      rw [hl] at h
      simp only [] at h ⊢
      split at h
      · rename_i init k' sub hle
        rw [hle]
        simp only [Bool.and_eq_true] at h ⊢
        exact ⟨h.1.2, dottedOk_A inp ks sub h.2⟩
      · cases h

theorem hdrChkO_A (inp : Bytes) (a : Bool) (st1 : CState) (r : Bytes) (h : hdrChkO inp a st1 r = true) :
    hdrChkA inp a st1 r = true := by
  unfold hdrChkO at h
  unfold hdrChkA
  split
  · rename_i ks rest hk
    rw [hk] at h
    simp only [] at h ⊢
    split
    · rename_i pp key hsl
      rw [hsl] at h
      exact pathOkO_A inp a key pp _ h
    · rfl
  · rfl

theorem hdrLineOkO_A (inp : Bytes) (st : CState) (s : Bytes) (h : hdrLineOkO inp st s = true) :
    hdrLineOkA inp st s = true := by
  unfold hdrLineOkO at h
  unfold hdrLineOkA
  split
  · rfl
  · rename_i st1 hfin
    rw [hfin] at h
    simp only [Bool.and_eq_true] at h ⊢
    refine ⟨?_, ?_⟩
    · have h1 := h.1
      split
      · rename_i r; exact hdrChkO_A inp true st1 r h1
      · rfl
    · have h2 := h.2
      split
      · rename_i r; exact hdrChkO_A inp false st1 r h2
      · rfl

theorem kvLineOkV_A (inp : Bytes) (st : CState) (s : Bytes) (h : kvLineOkV inp st s = true) :
    kvLineOkA inp st s = true := by
  unfold kvLineOkV at h
  unfold kvLineOkA
  split
  · rename_i ks r1 hk
    rw [hk] at h
    simp only [] at h ⊢
    split
    · rename_i v r2 hv
      rw [hv] at h
      simp only [Bool.and_eq_true] at h
      have h2 := h.2
      split
      · rename_i path key hsl
        rw [hsl] at h2
        exact dottedOk_A inp path _ h2
      · rfl
    · rfl
  · rfl

theorem runOkO_A (inp : Bytes) : ∀ (fuel : Nat) (st : CState) (s : Bytes),
    runOkO inp fuel st s = true → runOkA inp fuel st s = true := by
  intro fuel
  induction fuel with
  | zero => intro st s _; unfold runOkA; rfl
  | succ fuel ih =>
    intro st s h
    unfold runOkO at h
    unfold runOkA
    cases s with
    | nil => rfl
    | cons b r =>
      simp only [] at h ⊢
      by_cases hb1 : (b == 0x23) = true
      · simp only [hb1, if_true] at h ⊢
        cases hdc : dropComment r with
        | nil => simp only []
        | cons c1 r1 =>
          simp only [hdc] at h ⊢
          cases hnl : newline? (c1 :: r1) with
          | none => simp only []
          | some r2 =>
            simp only [hnl] at h ⊢
            exact ih _ _ h
      · simp only [hb1, Bool.false_eq_true, if_false] at h ⊢
        by_cases hb2 : (b == 0x5B) = true
        · simp only [hb2, if_true, Bool.and_eq_true] at h ⊢
          refine ⟨hdrLineOkO_A inp st _ h.1, ?_⟩
          cases hl : ctableLine inp.length st (b :: r) with
          | none => simp only []
          | some pr =>
            obtain ⟨st', r1⟩ := pr
            have h2 := h.2
            simp only [hl] at h2 ⊢
            exact ih _ _ h2
        · simp only [hb2, Bool.false_eq_true, if_false] at h ⊢
          by_cases hb3 : (b == 0x0A || b == 0x0D) = true
          · simp only [hb3, if_true] at h ⊢
            cases hnl : newline? (b :: r) with
            | none => simp only []
            | some r1 =>
              simp only [hnl] at h ⊢
              exact ih _ _ h
          · simp only [hb3, Bool.false_eq_true, if_false, Bool.and_eq_true] at h ⊢
            refine ⟨kvLineOkV_A inp st _ h.1, ?_⟩
            cases hl : ckeyvalLine inp.length st (b :: r) with
            | none => simp only []
            | some pr =>
              obtain ⟨st', r1⟩ := pr
              have h2 := h.2
              simp only [hl] at h2 ⊢
              exact ih _ _ h2

theorem ordRunV_A (s : Bytes) (h : ordRunV s = true) : adjRun s = true := by
  unfold ordRunV at h
  unfold adjRun
  simp only [] at h ⊢
  exact runOkO_A s _ _ _ h

end TomlVerif.Lemmas.Tiling03More
