import TomlVerif.Lemmas.Tiling03NestMain
/-! C03, nested documents — the position half: the tree a checked run (`nestRun`) builds is met by
    `visit_nested_tables` in position order and every entry's text is independent of
    `first_table`, i.e. `preorderDoc d` FOLLOWS from the run.

    The entries of a table are summarised by the list of their recorded positions (`none`: an
    implicit table, which inherits the last position seen) and of their `entOk` flags (`sumTbl`);
    `good lo s` says the summary is sorted from `lo` with all flags set.  The summary is
    compositional like `textTbl`, so the two spine lemmas of `Tiling03NestTree`/`Tiling03NestFin`
    have summary versions: `start_table` appends only implicit empty tables (`none`, flag set) to
    the end of the summary; `finalize_table` appends the finished table, whose position is
    `st.position`, the largest so far. -/
namespace TomlVerif.Lemmas.Tiling03More
open TomlVerif TomlVerif.Spec TomlVerif.Model TomlVerif.Model.Strings TomlVerif.Model.Value
open TomlVerif.Model.Cst TomlVerif.Model.Encode TomlVerif.Lemmas.Suffix03 TomlVerif.Lemmas.Cst03
open TomlVerif.Lemmas.LastByte03 TomlVerif.Lemmas.Tiling03 TomlVerif.Lemmas.Tiling03Hdr
open TomlVerif.Lemmas.Tiling03Nest

/-! ### summaries -/

abbrev Sum := List (Option Nat × Bool)

/-- `entOk` of the entry of table `t` (`isRoot`: its path is empty) -/
def okFlag (t : CTbl) (isRoot isArr : Bool) : Bool :=
  isRoot || t.decor.pre.isSome || (!isArr && t.implicit && (valuesTbl t.items []).isEmpty)

/-- the entry of the table itself: none for a dotted-key table -/
def hdSum (t : CTbl) (isRoot isArr : Bool) : Sum :=
  if t.dotted then [] else [(t.pos, okFlag t isRoot isArr)]

mutual
def sumTbl : CTbl → Bool → Bool → Sum
  | .mk items imp dot p dec sp, isRoot, isArr =>
    hdSum (.mk items imp dot p dec sp) isRoot isArr ++ sumItems items
def sumItems : List (CKey × CItem) → Sum
  | [] => []
  | (_, it) :: r =>
    match it with
    | .table t => sumTbl t false false ++ sumItems r
    | .aot ts _ => sumAot ts ++ sumItems r
    | .value _ => sumItems r
def sumAot : List CTbl → Sum
  | [] => []
  | t :: r => sumTbl t false true ++ sumAot r
end

theorem sumTbl_eq (t : CTbl) (r a : Bool) : sumTbl t r a = hdSum t r a ++ sumItems t.items := by
  cases t; rw [sumTbl]; rfl

theorem sumItems_append : ∀ (x y : Items), sumItems (x ++ y) = sumItems x ++ sumItems y
  | [], y => by simp [sumItems]
  | (k, .table t) :: r, y => by
    simp only [List.cons_append, sumItems, sumItems_append r y, List.append_assoc]
  | (k, .aot ts sp) :: r, y => by
    simp only [List.cons_append, sumItems, sumItems_append r y, List.append_assoc]
  | (k, .value v) :: r, y => by
    simp only [List.cons_append, sumItems, sumItems_append r y]

theorem sumAot_append : ∀ (x y : List CTbl), sumAot (x ++ y) = sumAot x ++ sumAot y
  | [], y => by simp [sumAot]
  | t :: r, y => by simp only [List.cons_append, sumAot, sumAot_append r y, List.append_assoc]

/-- sorted from `lo`, all flags set -/
def good : Nat → Sum → Bool
  | _, [] => true
  | lo, (p, ok) :: r => ok && decide (lo ≤ p.getD lo) && good (p.getD lo) r

/-- the last position seen -/
def lastOf : Nat → Sum → Nat
  | lo, [] => lo
  | lo, (p, _) :: r => lastOf (p.getD lo) r

theorem good_append : ∀ (a b : Sum) (lo : Nat), good lo (a ++ b) = (good lo a && good (lastOf lo a) b)
  | [], b, lo => by simp [good, lastOf]
  | (p, ok) :: r, b, lo => by
    simp only [List.cons_append, good, lastOf, good_append r b, Bool.and_assoc]

theorem lastOf_append : ∀ (a b : Sum) (lo : Nat), lastOf lo (a ++ b) = lastOf (lastOf lo a) b
  | [], b, lo => by simp [lastOf]
  | (p, ok) :: r, b, lo => by simp only [List.cons_append, lastOf, lastOf_append r b]

theorem good_nones : ∀ (n lo : Nat), good lo (List.replicate n (none, true)) = true
  | 0, _ => rfl
  | n + 1, lo => by simp [List.replicate_succ, good, good_nones n lo]

theorem lastOf_nones : ∀ (n lo : Nat), lastOf lo (List.replicate n (none, true)) = lo
  | 0, _ => rfl
  | n + 1, lo => by simp [List.replicate_succ, lastOf, lastOf_nones n lo]

/-! ### the entries of `visit_nested_tables` and their summary -/

def chain (lo : Nat) (l : List Entry) : Bool := sortedFrom lo l && l.all entOk

def endPos : Nat → List Entry → Nat
  | lo, [] => lo
  | _, e :: r => endPos e.pos r

theorem sortedFrom_append : ∀ (a b : List Entry) (lo : Nat),
    sortedFrom lo (a ++ b) = (sortedFrom lo a && sortedFrom (endPos lo a) b)
  | [], b, lo => by simp [sortedFrom, endPos]
  | e :: r, b, lo => by
    simp only [List.cons_append, sortedFrom, endPos, sortedFrom_append r b, Bool.and_assoc]

theorem endPos_append : ∀ (a b : List Entry) (lo : Nat), endPos lo (a ++ b) = endPos (endPos lo a) b
  | [], b, lo => by simp [endPos]
  | e :: r, b, lo => by simp only [List.cons_append, endPos, endPos_append r b]

theorem chain_append (a b : List Entry) (lo : Nat) : chain lo (a ++ b) = (chain lo a && chain (endPos lo a) b) := by
  unfold chain
  rw [sortedFrom_append, List.all_append]
  cases sortedFrom lo a <;> cases a.all entOk <;> simp

/-- one leg of the walk: new entries are appended; their summary is `s` -/
def Step (st r : Nat × List Entry) (s : Sum) : Prop :=
  ∃ new, r.2 = st.2 ++ new ∧ r.1 = lastOf st.1 s ∧ endPos st.1 new = r.1 ∧ chain st.1 new = good st.1 s

theorem Step.refl (st : Nat × List Entry) : Step st st [] :=
  ⟨[], by simp, rfl, rfl, rfl⟩

theorem Step.trans {st r r' : Nat × List Entry} {s1 s2 : Sum} (h1 : Step st r s1) (h2 : Step r r' s2) :
    Step st r' (s1 ++ s2) := by
  obtain ⟨n1, a1, a2, a3, a4⟩ := h1
  obtain ⟨n2, b1, b2, b3, b4⟩ := h2
  refine ⟨n1 ++ n2, by rw [b1, a1, List.append_assoc], ?_, ?_, ?_⟩
  · rw [b2, a2, lastOf_append]
  · rw [endPos_append, a3, b3]
  · rw [chain_append, a3, a4, b4, a2, good_append]

theorem Step.entry (st : Nat × List Entry) (t : CTbl) (path : List CKey) (a : Bool) :
    Step st (t.pos.getD st.1, st.2 ++ [⟨t.pos.getD st.1, t, path, a⟩]) [(t.pos, okFlag t path.isEmpty a)] := by
  refine ⟨[⟨t.pos.getD st.1, t, path, a⟩], rfl, rfl, rfl, ?_⟩
  simp [chain, sortedFrom, good, entOk, okFlag, Bool.and_comm]

mutual
theorem visitTbl_step : ∀ (t : CTbl) (path : List CKey) (a : Bool) (st : Nat × List Entry),
    Step st (visitTbl t path a st) (sumTbl t path.isEmpty a)
  | .mk items imp dot p dec sp, path, a, st => by
    rw [visitTbl, sumTbl]
    cases dot with
    | true =>
      simp only [if_true, hdSum, CTbl.dotted, List.nil_append]
      exact visitItems_step items path st
    | false =>
      simp only [Bool.false_eq_true, if_false, hdSum, CTbl.dotted]
      exact (Step.entry st (.mk items imp false p dec sp) path a).trans (visitItems_step items path _)
theorem visitItems_step : ∀ (items : List (CKey × CItem)) (path : List CKey) (st : Nat × List Entry),
    Step st (visitItems items path st) (sumItems items)
  | [], _, st => by rw [visitItems, sumItems]; exact Step.refl st
  | (k, .table t) :: r, path, st => by
    rw [visitItems, sumItems]
    have h := visitTbl_step t (path ++ [k]) false st
    have hp : (path ++ [k]).isEmpty = false := by cases path <;> rfl
    rw [hp] at h
    exact h.trans (visitItems_step r path _)
  | (k, .aot ts sp) :: r, path, st => by
    rw [visitItems, sumItems]
    have hp : (path ++ [k]).isEmpty = false := by cases path <;> rfl
    exact (visitAot_step ts (path ++ [k]) hp st).trans (visitItems_step r path _)
  | (k, .value v) :: r, path, st => by
    rw [visitItems, sumItems]
    exact visitItems_step r path st
theorem visitAot_step : ∀ (ts : List CTbl) (path : List CKey), path.isEmpty = false → ∀ (st : Nat × List Entry),
    Step st (visitAot ts path st) (sumAot ts)
  | [], _, _, st => by rw [visitAot, sumAot]; exact Step.refl st
  | t :: r, path, hp, st => by
    rw [visitAot, sumAot]
    have h := visitTbl_step t path true st
    rw [hp] at h
    exact h.trans (visitAot_step r path hp _)
end

/-- the tree side of the class, from the summary of the root -/
theorem preorder_of_good (d : CDoc) (h1 : d.root.decor.pre = none) (h2 : d.root.decor.suf = none)
    (hg : good 0 (sumTbl d.root true false) = true) : preorderDoc d = true := by
  obtain ⟨new, e1, _, _, e4⟩ := visitTbl_step d.root [] false (0, [])
  simp only [List.nil_append, List.isEmpty_nil] at e1 e4
  rw [hg] at e4
  simp only [chain, Bool.and_eq_true] at e4
  simp only [preorderDoc, docEntries, Bool.and_eq_true, Option.isNone_iff_eq_none]
  rw [e1]
  exact ⟨⟨⟨h1, h2⟩, e4.1⟩, e4.2⟩

/-! ### bodies have no entries -/

mutual
theorem bodyOk_sum : ∀ (items : Items), bodyOk items = true → sumItems items = []
  | [], _ => rfl
  | (k, .value v) :: r, h => by
    simp only [bodyOk, Bool.and_eq_true] at h
    rw [sumItems]; exact bodyOk_sum r h.2
  | (k, .table t) :: r, h => by
    simp only [bodyOk, Bool.and_eq_true] at h
    rw [sumItems, bodyTbl_sum t h.1, bodyOk_sum r h.2]; rfl
  | (k, .aot _ _) :: r, h => by simp [bodyOk] at h
theorem bodyTbl_sum : ∀ (t : CTbl), bodyTbl t = true → ∀ r a, sumTbl t r a = []
  | .mk items imp dot p dec sp, h, r, a => by
    simp only [bodyTbl, Bool.and_eq_true] at h
    rw [sumTbl, bodyOk_sum items h.2]
    simp [hdSum, CTbl.dotted, h.1]
end

/-! ### `descend` keeps everything of a table but its items -/

theorem descend_setItems (g : CTbl → Option CTbl) (hg : ∀ p p', g p = some p' → p' = p.setItems p'.items) :
    ∀ (pp : List CKey) (t t' : CTbl) (d : Bool), descend t pp d g = some t' → t' = t.setItems t'.items
  | [], t, t', d, h => by rw [descend_nil] at h; exact hg _ _ h
  | k :: ks, t, t', d, h => by
    obtain ⟨x, e, _⟩ := descend_cons_shape _ _ _ _ _ _ h
    rw [e]; simp

theorem hdSum_setItems (t : CTbl) (I : Items) (r a : Bool) (h : valuesTbl I [] = valuesTbl t.items []) :
    hdSum (t.setItems I) r a = hdSum t r a := by
  obtain ⟨items, imp, dot, p, dec, sp⟩ := t
  simp only [CTbl.items] at h
  cases dot <;> simp [hdSum, okFlag, CTbl.setItems, CTbl.dotted, CTbl.pos, CTbl.decor, CTbl.implicit, CTbl.items, h]

theorem sumTbl_setItems (t t' : CTbl) (r a : Bool) (h1 : t' = t.setItems t'.items)
    (h2 : valuesTbl t'.items [] = valuesTbl t.items []) :
    sumTbl t' r a = hdSum t r a ++ sumItems t'.items := by
  rw [sumTbl_eq, h1, hdSum_setItems t _ r a h2]

theorem arrFn_setItems (key : CKey) (p p' : CTbl) (h : arrFn key p = some p') : p' = p.setItems p'.items := by
  unfold arrFn at h
  split at h
  · injection h with h; subst h; exact (setItems_self p).symm
  · cases h
  · injection h with h; subst h; simp

theorem eraseFn_setItems (key : CKey) (p p' : CTbl) (h : eraseFn key p = some p') : p' = p.setItems p'.items := by
  unfold eraseFn at h
  injection h with h; subst h; simp

theorem finStd_setItems (key : CKey) (c p p' : CTbl) (h : finStd key c p = some p') : p' = p.setItems p'.items := by
  unfold finStd at h
  split at h
  · split at h
    · injection h with h; subst h; simp
    · cases h
  · cases h
  · injection h with h; subst h; simp

theorem finArr_setItems (key : CKey) (c p p' : CTbl) (h : finArr key c p = some p') : p' = p.setItems p'.items := by
  unfold finArr at h
  split at h
  · injection h with h; subst h; simp
  · cases h

theorem startFn_setItems (a : Bool) (key : CKey) (p p' : CTbl)
    (h : (if a then arrFn key else eraseFn key) p = some p') : p' = p.setItems p'.items := by
  cases a
  · exact eraseFn_setItems key p p' h
  · exact arrFn_setItems key p p' h

theorem finFn_setItems (a : Bool) (key : CKey) (c p p' : CTbl)
    (h : (if a then finArr key c else finStd key c) p = some p') : p' = p.setItems p'.items := by
  cases a
  · exact finStd_setItems key c p p' h
  · exact finArr_setItems key c p p' h

end TomlVerif.Lemmas.Tiling03More
