import TomlVerif.Model.Value
import TomlVerif.Lemmas.ByteDecide
/-! Nesting depth of decoded values and the recursion limit (C05). -/
namespace TomlVerif.Lemmas.Depth05
open TomlVerif TomlVerif.Spec TomlVerif.Model TomlVerif.Model.Strings TomlVerif.Model.Value

mutual
/-- nesting depth of a value: 0 for scalars, one more than the deepest child for arrays and inline tables -/
def nest : Val → Nat
  | .arr items => 1 + nestList items
  | .inl items _ _ => 1 + nestPairs items
  | .str _ => 0
  | .int _ => 0
  | .float _ => 0
  | .bool _ => 0
  | .dt _ => 0
def nestList : List Val → Nat
  | [] => 0
  | v :: r => max (nest v) (nestList r)
def nestPairs : List (Bytes × Val) → Nat
  | [] => 0
  | (_, v) :: r => max (nest v) (nestPairs r)
end

example : nest (.arr [.arr [], .inl [([1], .arr [.int 3])] false false]) = 3 := by decide

theorem nestList_append (a b : List Val) : nestList (a ++ b) = max (nestList a) (nestList b) := by
  induction a with
  | nil => simp [nestList]
  | cons x a ih => simp [nestList, ih, Nat.max_assoc]

theorem nestPairs_append (a b : List (Bytes × Val)) : nestPairs (a ++ b) = max (nestPairs a) (nestPairs b) := by
  induction a with
  | nil => simp [nestPairs]
  | cons x a ih => obtain ⟨k, v⟩ := x; simp [nestPairs, ih, Nat.max_assoc]

theorem nest_le_of_alookup (k : Bytes) (v : Val) : ∀ items : List (Bytes × Val),
    alookup k items = some v → nest v ≤ nestPairs items := by
  intro items
  induction items with
  | nil => intro h; simp [alookup] at h
  | cons x items ih =>
    obtain ⟨k', v'⟩ := x
    intro h
    unfold alookup at h
    split at h
    · simp at h; subst h; simp [nestPairs]; omega
    · have := ih h; simp [nestPairs]; omega

theorem nestPairs_areplace (k : Bytes) (v : Val) (B : Nat) : ∀ items : List (Bytes × Val),
    nestPairs items ≤ B → nest v ≤ B → nestPairs (areplace k v items) ≤ B := by
  intro items
  induction items with
  | nil => intro h _; simpa [areplace] using h
  | cons x items ih =>
    obtain ⟨k', v'⟩ := x
    intro h hv
    unfold areplace
    simp only [nestPairs] at h
    split
    · simp only [nestPairs]; omega
    · have := ih (by omega) hv
      simp only [nestPairs]; omega

/-- inserting `(key, v)` below `path`: the value ends up under `path.length` more inline tables -/
theorem nestPairs_inlInsert : ∀ (path : List Bytes) (items : List (Bytes × Val)) (td pe : Bool) (key : Bytes)
    (v : Val) (items' : List (Bytes × Val)) (B : Nat),
    inlInsert items td path pe key v = some items' → nestPairs items ≤ B → path.length + nest v ≤ B →
    nestPairs items' ≤ B := by
  intro path
  induction path with
  | nil =>
    intro items td pe key v items' B h hi hv
    unfold inlInsert at h
    split at h
    · simp at h
    · split at h
      · simp at h
      · simp at h; subst h
        simp [nestPairs_append, nestPairs] at hv ⊢
        omega
  | cons k ks ih =>
    intro items td pe key v items' B h hi hv
    unfold inlInsert at h
    simp only [List.length_cons] at hv
    split at h
    · split at h
      · rename_i sub hs
        simp at h; subst h
        have := ih [] true pe key v sub (B - 1) hs (by simp [nestPairs]) (by omega)
        simp [nestPairs_append, nestPairs, nest]
        omega
      · simp at h
    · rename_i sub imp dot hl
      split at h
      · simp at h
      · split at h
        · rename_i sub' hs
          simp at h; subst h
          have h1 := nest_le_of_alookup _ _ _ hl
          simp only [nest] at h1
          have := ih sub dot pe key v sub' (B - 1) hs (by omega) (by omega)
          apply nestPairs_areplace _ _ _ _ hi
          simp only [nest]; omega
        · simp at h
    · simp at h

/-- `table_from_pairs`: if every pair `(path, key, v)` has `path.length + nest v ≤ B`, the assembled table nests at most `B` below its own level -/
theorem nestPairs_tableFromPairs (B : Nat) : ∀ (kvs : List (List Bytes × Bytes × Val)) (acc items : List (Bytes × Val)),
    tableFromPairs kvs acc = some items → nestPairs acc ≤ B →
    (∀ p ∈ kvs, p.1.length + nest p.2.2 ≤ B) → nestPairs items ≤ B := by
  intro kvs
  induction kvs with
  | nil => intro acc items h ha _; simp [tableFromPairs] at h; subst h; exact ha
  | cons p kvs ih =>
    obtain ⟨path, key, v⟩ := p
    intro acc items h ha hp
    unfold tableFromPairs at h
    split at h
    · rename_i acc' hi
      apply ih acc' items h
      · exact nestPairs_inlInsert _ _ _ _ _ _ _ B hi ha (hp (path, key, v) (by simp))
      · intro p hm; exact hp p (by simp [hm])
    · simp at h

theorem keyPathAux_ne_nil : ∀ (fuel : Nat) (s : Bytes) (acc ks : List Bytes) (r : Bytes),
    keyPathAux fuel s acc = .ok ks r → ks ≠ [] := by
  intro fuel
  induction fuel with
  | zero => intro s acc ks r h; simp [keyPathAux] at h
  | succ f ih =>
    intro s acc ks r h
    unfold keyPathAux at h
    split at h
    · simp only [] at h
      split at h
      · split at h
        · simp at h; rw [← h.1]; simp
        · rename_i hne
          cases hx : keyPathAux f _ (acc ++ [_]) with
          | ok ks' r' => rw [hx] at h; simp at h; rw [← h.1]; exact ih _ _ _ _ hx
          | bt => exact absurd hx (hne · |> fun _ => by simp_all)
          | cut => rw [hx] at h; simp at h
      · simp at h; rw [← h.1]; simp
    · simp at h
    · simp at h

theorem keyPath_len (s : Bytes) (ks : List Bytes) (r : Bytes) (h : keyPath s = .ok ks r) :
    ks ≠ [] ∧ ks.length < LIMIT := by
  unfold keyPath at h
  split at h
  · rename_i ks' r' hx
    split at h
    · simp at h
    · simp at h
      obtain ⟨h1, _⟩ := h; subst h1
      exact ⟨keyPathAux_ne_nil _ _ _ _ _ hx, by omega⟩
  · rename_i hne
    exact absurd h (hne _ _)

theorem splitLast_length {α} : ∀ (l i : List α) (x : α), splitLast l = some (i, x) → l.length = i.length + 1 := by
  intro l
  induction l with
  | nil => intro i x h; simp [splitLast] at h
  | cons a l ih =>
    intro i x h
    cases l with
    | nil => simp [splitLast] at h; simp [← h.1]
    | cons b l =>
      unfold splitLast at h
      split at h
      · rename_i i' l' hs
        simp at h
        have := ih _ _ hs
        simp [← h.1] at this ⊢; omega
      · simp at h

theorem map_ok {α β} (f : α → β) (x : Res α) (v : β) (r : Bytes) (h : x.map f = .ok v r) : ∃ a, v = f a := by
  cases x <;> simp [Res.map] at h
  exact ⟨_, h.1.symm⟩

def DepthInv (fuel : Nat) : Prop :=
  (∀ d s v rest, value fuel d s = .ok v rest → d < LIMIT → d + nest v < LIMIT) ∧
  (∀ d s vs r, arrayValues fuel d s = .ok vs r → d < LIMIT → d + nestList vs < LIMIT) ∧
  (∀ d s acc vs r, arrayElems fuel d s acc = .ok vs r → d + nestList acc < LIMIT → d + nestList vs < LIMIT) ∧
  (∀ d s acc kvs r, inlineKeyvals fuel d s acc = .ok kvs r →
    (∀ p ∈ acc, d + p.1.length + nest p.2.2 < LIMIT) → ∀ p ∈ kvs, d + p.1.length + nest p.2.2 < LIMIT)

theorem depthInv : ∀ fuel, DepthInv fuel := by
  intro fuel
  induction fuel with
  | zero =>
    refine ⟨?_, ?_, ?_, ?_⟩
    · intro d s v rest h; simp [value] at h
    · intro d s vs r h; simp [arrayValues] at h
    · intro d s acc vs r h; simp [arrayElems] at h
    · intro d s acc kvs r h; simp [inlineKeyvals] at h
  | succ f ih =>
    obtain ⟨ihV, ihAV, ihAE, ihIK⟩ := ih
    refine ⟨?_, ?_, ?_, ?_⟩
    · intro d s v rest h hd
      unfold value at h
      split at h
      · simp at h
      · split at h
        · obtain ⟨a, rfl⟩ := map_ok _ _ _ _ h; simpa [nest] using hd
        split at h
        · split at h
          · simp at h
          · split at h
            · split at h
              · rename_i _ vs r1 r2 hav
                simp at h; obtain ⟨rfl, _⟩ := h
                have := ihAV _ _ _ _ hav (by omega)
                simp only [nest]; omega
              · simp at h
            · simp at h
        split at h
        · split at h
          · simp at h
          · split at h
            · split at h
              · simp at h
              · split at h
                · rename_i _ kvs r1 hik _ items htp _ r2 _
                  simp at h; obtain ⟨rfl, _⟩ := h
                  have h1 := ihIK _ _ _ _ _ hik (by simp)
                  have := nestPairs_tableFromPairs (LIMIT - 2 - d) kvs [] items htp (by simp [nestPairs])
                    (by intro p hp; have := h1 p hp; omega)
                  simp only [nest]; omega
                · simp at h
            · simp at h
        have fin1 : ∀ {α} (x : Res α) (g : α → Val), (∀ a, nest (g a) = 0) → x.map g = .ok v rest → d + nest v < LIMIT := by
          intro α x g hg hm
          obtain ⟨a, rfl⟩ := map_ok _ _ _ _ hm
          rw [hg]; exact hd
        have fin2 : ∀ (w : Val) (r : Bytes), nest w = 0 → Res.ok w r = Res.ok v rest → d + nest v < LIMIT := by
          intro w r hw he
          simp at he; rw [← he.1, hw]; exact hd
        repeat' split at h
        all_goals first
          | (simp at h; done)
          | exact fin1 _ _ (by intro a; simp [nest]) h
          | exact fin2 _ _ (by simp [nest]) h
    · intro d s vs r h hd
      unfold arrayValues at h
      split at h
      · simp at h; obtain ⟨h1, _⟩ := h; subst h1; simpa [nestList] using hd
      · split at h
        · rename_i vs' r' hae
          simp only [] at h
          split at h
          · simp at h; obtain ⟨h1, _⟩ := h; subst h1
            exact ihAE _ _ _ _ _ hae (by simpa [nestList] using hd)
          · simp at h
        · rename_i hne
          exact ihAE _ _ _ _ _ h (by simpa [nestList] using hd)
    · intro d s acc vs r h hacc
      unfold arrayElems at h
      split at h
      · simp at h; obtain ⟨h1, _⟩ := h; subst h1; exact hacc
      · split at h
        · simp at h
        · simp at h; obtain ⟨h1, _⟩ := h; subst h1; exact hacc
        · rename_i v s2 hv
          have hnv := ihV _ _ _ _ hv (by omega)
          have hacc' : d + nestList (acc ++ [v]) < LIMIT := by
            simp [nestList_append, nestList]; omega
          split at h
          · simp at h; obtain ⟨h1, _⟩ := h; subst h1; exact hacc
          · split at h
            · split at h
              · rename_i vs' r' hae
                have := ihAE _ _ _ _ _ hae hacc'
                split at h <;> (simp at h; obtain ⟨h1, _⟩ := h; subst h1; exact this)
              · rename_i hne
                exact absurd h (by intro h'; exact hne _ _ h')
            · simp at h; obtain ⟨h1, _⟩ := h; subst h1; exact hacc'
    · intro d s acc kvs r h hacc
      unfold inlineKeyvals at h
      split at h
      · simp at h
      · simp at h; obtain ⟨h1, _⟩ := h; subst h1; exact hacc
      · rename_i ks r0 hk
        split at h
        · simp at h
        · rename_i hlim
          split at h
          · split at h
            · rename_i v r2 hv
              simp only [] at h
              have hnv := ihV _ _ _ _ hv (by omega)
              split at h
              · simp at h
              · rename_i path key hsl
                have hlen := splitLast_length _ _ _ hsl
                have hacc' : ∀ p ∈ acc ++ [(path, key, v)], d + p.1.length + nest p.2.2 < LIMIT := by
                  intro p hp
                  simp at hp
                  rcases hp with hp | hp
                  · exact hacc p hp
                  · subst hp; simp; omega
                split at h
                · split at h
                  · rename_i kvs' r5 hik
                    have := ihIK _ _ _ _ _ hik hacc'
                    split at h <;> (simp at h; obtain ⟨h1, _⟩ := h; subst h1; exact this)
                  · rename_i hne
                    exact absurd h (by intro h'; exact hne _ _ h')
                · simp at h; obtain ⟨h1, _⟩ := h; subst h1; exact hacc'
            · simp at h
          · simp at h

/-! ## single constructs at the limit -/

/-- `n + 1` nested empty arrays -/
def nestedArr : Nat → Val
  | 0 => .arr []
  | n + 1 => .arr [nestedArr n]

theorem nest_nestedArr (n : Nat) : nest (nestedArr n) = n + 1 := by
  induction n with
  | zero => simp [nestedArr, nest, nestList]
  | succ n ih => simp [nestedArr, nest, nestList, ih]; omega

theorem wcn_nontrivia (f : Nat) (b : UInt8) (r : Bytes) (h1 : isWschar b = false) (h2 : (b == 0x23) = false)
    (h3 : (b == 0x0A || b == 0x0D) = false) : wsCommentNewline (f + 1) (b :: r) = some (b :: r) := by
  simp [wsCommentNewline, dropWs, h1, h2, h3]

theorem arr_open_ok (g d : Nat) (r s : Bytes) (v : Val) (acc : List Val)
    (h : value g d (0x5B :: r) = .ok v (0x5D :: s)) :
    arrayElems (g + 1) d (0x5B :: r) acc = .ok (acc ++ [v]) (0x5D :: s) := by
  conv => lhs; unfold arrayElems
  rw [wcn_nontrivia _ _ _ (by decide) (by decide) (by decide)]
  simp only [h]
  rw [wcn_nontrivia _ _ _ (by decide) (by decide) (by decide)]
  simp

theorem arr_open_cut (g d : Nat) (r : Bytes) (acc : List Val) (h : value g d (0x5B :: r) = .cut) :
    arrayElems (g + 1) d (0x5B :: r) acc = .cut := by
  conv => lhs; unfold arrayElems
  rw [wcn_nontrivia _ _ _ (by decide) (by decide) (by decide)]
  simp only [h]

/-- `[`ⁿ⁺¹ `]`ⁿ⁺¹ is accepted below the limit -/
theorem arrays_accepted : ∀ (n d fuel : Nat) (rest : Bytes), d + n + 1 < LIMIT → 3 * n + 2 ≤ fuel →
    value fuel d (List.replicate (n + 1) 0x5B ++ (List.replicate (n + 1) 0x5D ++ rest)) = .ok (nestedArr n) rest := by
  intro n
  induction n with
  | zero =>
    intro d fuel rest hd hf
    obtain ⟨f, rfl⟩ : ∃ f, fuel = f + 2 := ⟨fuel - 2, by omega⟩
    have : ¬ LIMIT ≤ d + 1 := by omega
    simp [List.replicate, value, arrayValues, this, nestedArr]
  | succ n ih =>
    intro d fuel rest hd hf
    obtain ⟨f, rfl⟩ : ∃ f, fuel = f + 3 := ⟨fuel - 3, by omega⟩
    have hlim : ¬ LIMIT ≤ d + 1 := by omega
    have e1 : List.replicate (n + 1 + 1) (0x5B : UInt8) = 0x5B :: List.replicate (n + 1) 0x5B := rfl
    have e2 : List.replicate (n + 1 + 1) (0x5D : UInt8) ++ rest = List.replicate (n + 1) 0x5D ++ (0x5D :: rest) := by
      rw [List.replicate_succ']; simp
    rw [e1, e2]
    have h := ih (d + 1) f (0x5D :: rest) (by omega) (by omega)
    have e3 : List.replicate (n + 1) (0x5B : UInt8) = 0x5B :: List.replicate n 0x5B := rfl
    rw [e3] at h ⊢
    simp only [List.cons_append] at h ⊢
    conv => lhs; unfold value
    simp only [hlim]
    conv => lhs; unfold arrayValues
    simp only [arr_open_ok _ _ _ _ _ _ h]
    simp [wcn_nontrivia, isWschar, nestedArr]

theorem value_arr_cut (f d : Nat) (r : Bytes) (h : LIMIT ≤ d + 1 ∨ arrayValues f (d + 1) r = .cut) :
    value (f + 1) d (0x5B :: r) = .cut := by
  conv => lhs; unfold value
  rcases h with h | h
  · simp [h]
  · simp [h]

theorem arrayValues_open_cut (f d : Nat) (r : Bytes) (h : ∀ g, value g d (0x5B :: r) = .cut) :
    arrayValues f d (0x5B :: r) = .cut := by
  cases f with
  | zero => simp [arrayValues]
  | succ f =>
    conv => lhs; unfold arrayValues
    cases f with
    | zero => simp [arrayElems]
    | succ g => simp [arr_open_cut _ _ _ _ (h g)]

/-- `[`ⁿ followed by anything is rejected, with an error that is not recoverable, once `n` reaches the limit (whatever the fuel) -/
theorem arrays_rejected : ∀ (n d fuel : Nat) (rest : Bytes), 1 ≤ n → LIMIT ≤ d + n →
    value fuel d (List.replicate n 0x5B ++ rest) = .cut := by
  intro n
  induction n with
  | zero => intro d fuel rest h; omega
  | succ m ih =>
    intro d fuel rest _ hl
    cases fuel with
    | zero => simp [value]
    | succ f =>
      have e1 : List.replicate (m + 1) (0x5B : UInt8) ++ rest = 0x5B :: (List.replicate m 0x5B ++ rest) := rfl
      rw [e1]
      apply value_arr_cut
      by_cases hd : LIMIT ≤ d + 1
      · left; exact hd
      · right
        obtain ⟨k, rfl⟩ : ∃ k, m = k + 1 := ⟨m - 1, by omega⟩
        have e2 : List.replicate (k + 1) (0x5B : UInt8) ++ rest = 0x5B :: (List.replicate k 0x5B ++ rest) := rfl
        have := fun g => ih (d + 1) g rest (by omega) (by omega)
        rw [e2] at this ⊢
        exact arrayValues_open_cut f (d + 1) _ this

/-- `{a={a=…{}…}}` with `n + 1` tables -/
def inlText : Nat → Bytes
  | 0 => [0x7B, 0x7D]
  | n + 1 => [0x7B, 0x61, 0x3D] ++ inlText n ++ [0x7D]

def nestedInl : Nat → Val
  | 0 => .inl [] false false
  | n + 1 => .inl [([0x61], nestedInl n)] false false

theorem nest_nestedInl (n : Nat) : nest (nestedInl n) = n + 1 := by
  induction n with
  | zero => simp [nestedInl, nest, nestPairs]
  | succ n ih => simp [nestedInl, nest, nestPairs, ih]; omega

theorem keyPath_a (Y : Bytes) : keyPath (0x61 :: 0x3D :: Y) = .ok [[0x61]] (0x3D :: Y) := by
  unfold keyPath
  simp only [List.length_cons]
  conv => lhs; unfold keyPathAux
  simp [dropWs, isWschar, Key.simpleKey, Key.unquotedKey, Key.takeUnquoted, isUnquotedChar, inR, LIMIT]

theorem keyPath_brace (Y : Bytes) : keyPath (0x7D :: Y) = .bt := by
  unfold keyPath
  simp only [List.length_cons]
  conv => lhs; unfold keyPathAux
  simp [dropWs, isWschar, Key.simpleKey, Key.unquotedKey, Key.takeUnquoted, isUnquotedChar, inR]

theorem inlText_head (n : Nat) : ∃ t, inlText n = 0x7B :: t := by
  cases n with
  | zero => exact ⟨_, rfl⟩
  | succ n => exact ⟨_, rfl⟩

theorem inl_a_step (g d : Nat) (Y r2 : Bytes) (v : Val) (hd : d < LIMIT)
    (hv : value g d (0x7B :: Y) = .ok v (0x7D :: r2)) :
    inlineKeyvals (g + 1) d (0x61 :: 0x3D :: 0x7B :: Y) [] = .ok [([], [0x61], v)] (0x7D :: r2) := by
  have : ¬ LIMIT ≤ d := by omega
  conv => lhs; unfold inlineKeyvals
  simp [keyPath_a, this, dropWs, isWschar, hv, splitLast]

theorem inls_accepted : ∀ (n d fuel : Nat) (rest : Bytes), d + n + 1 < LIMIT → 2 * n + 2 ≤ fuel →
    value fuel d (inlText n ++ rest) = .ok (nestedInl n) rest := by
  intro n
  induction n with
  | zero =>
    intro d fuel rest hd hf
    obtain ⟨f, rfl⟩ : ∃ f, fuel = f + 2 := ⟨fuel - 2, by omega⟩
    have : ¬ LIMIT ≤ d + 1 := by omega
    simp [inlText, value, inlineKeyvals, keyPath_brace, tableFromPairs, dropWs, isWschar, this, nestedInl]
  | succ n ih =>
    intro d fuel rest hd hf
    obtain ⟨f, rfl⟩ : ∃ f, fuel = f + 2 := ⟨fuel - 2, by omega⟩
    have hlim : ¬ LIMIT ≤ d + 1 := by omega
    have h := ih (d + 1) f (0x7D :: rest) (by omega) (by omega)
    obtain ⟨t, ht⟩ := inlText_head n
    have e : inlText (n + 1) ++ rest = 0x7B :: 0x61 :: 0x3D :: 0x7B :: (t ++ 0x7D :: rest) := by
      simp [inlText, ht]
    rw [ht] at h
    rw [e]
    have h' := inl_a_step f (d + 1) (t ++ 0x7D :: rest) rest _ (by omega) (by simpa using h)
    conv => lhs; unfold value
    simp [hlim, h', tableFromPairs, inlInsert, alookup, dropWs, isWschar, nestedInl]

/-- `n` unclosed `{a=` -/
def inlOpen : Nat → Bytes
  | 0 => []
  | n + 1 => 0x7B :: 0x61 :: 0x3D :: inlOpen n

theorem inlText_eq (n : Nat) : inlText n = inlOpen n ++ 0x7B :: 0x7D :: List.replicate n 0x7D := by
  induction n with
  | zero => rfl
  | succ n ih => simp [inlText, inlOpen, ih, List.replicate_succ']

theorem inl_a_cut (f d : Nat) (Y : Bytes) (hv : ∀ g, value g d (0x7B :: Y) = .cut) :
    inlineKeyvals f d (0x61 :: 0x3D :: 0x7B :: Y) [] = .cut := by
  cases f with
  | zero => simp [inlineKeyvals]
  | succ g =>
    conv => lhs; unfold inlineKeyvals
    simp only [keyPath_a]
    split
    · rfl
    · simp [dropWs, isWschar, hv]

theorem value_inl_cut (f d : Nat) (r : Bytes) (h : LIMIT ≤ d + 1 ∨ inlineKeyvals f (d + 1) r [] = .cut) :
    value (f + 1) d (0x7B :: r) = .cut := by
  conv => lhs; unfold value
  rcases h with h | h
  · simp [h]
  · simp [h]

/-- `{a=`ⁿ `{` followed by anything is rejected once the `n + 1` tables reach the limit (whatever the fuel) -/
theorem inls_rejected : ∀ (n d fuel : Nat) (rest : Bytes), LIMIT ≤ d + n + 1 →
    value fuel d (inlOpen n ++ 0x7B :: rest) = .cut := by
  intro n
  induction n with
  | zero =>
    intro d fuel rest hl
    cases fuel with
    | zero => simp [value]
    | succ f => exact value_inl_cut f d _ (Or.inl (by omega))
  | succ m ih =>
    intro d fuel rest hl
    cases fuel with
    | zero => simp [value]
    | succ f =>
      have e : inlOpen (m + 1) ++ 0x7B :: rest = 0x7B :: 0x61 :: 0x3D :: (inlOpen m ++ 0x7B :: rest) := rfl
      rw [e]
      apply value_inl_cut
      by_cases hd : LIMIT ≤ d + 1
      · left; exact hd
      · right
        have hh : ∃ t, inlOpen m ++ 0x7B :: rest = 0x7B :: t := by
          cases m with
          | zero => exact ⟨_, rfl⟩
          | succ k => exact ⟨_, rfl⟩
        obtain ⟨t, ht⟩ := hh
        have := fun g => ih (d + 1) g rest (by omega)
        rw [ht] at this ⊢
        exact inl_a_cut f (d + 1) t this

end TomlVerif.Lemmas.Depth05
