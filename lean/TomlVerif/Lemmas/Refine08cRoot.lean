import TomlVerif.Lemmas.Spans14Doc
import TomlVerif.Lemmas.Edit08
/-! The root table of a parsed document is not `dotted` (it is listed by `visit_nested_tables`), and
    no op changes the `dotted` flag of the root. -/
namespace TomlVerif.Lemmas.Refine08c
open TomlVerif TomlVerif.Spec TomlVerif.Model TomlVerif.Model.Strings TomlVerif.Model.Value
open TomlVerif.Model.Cst TomlVerif.Model.Edit TomlVerif.Lemmas.Cst03 TomlVerif.Lemmas.Spans14

theorem dotted_setItems (t : CTbl) (items : List (CKey × CItem)) : (t.setItems items).dotted = t.dotted := by
  cases t; rfl

theorem dotted_setSpan (t : CTbl) (sp : Option Span) : (t.setSpan sp).dotted = t.dotted := by
  cases t; rfl

/-! ### the parser -/

theorem descend_dotted (f : CTbl → Option CTbl) (hf : ∀ u u', f u = some u' → u'.dotted = u.dotted)
    (path : List CKey) (t : CTbl) (dotted : Bool) (t' : CTbl) (h : descend t path dotted f = some t') :
    t'.dotted = t.dotted := by
  cases path with
  | nil => unfold descend at h; exact hf _ _ h
  | cons k ks =>
    unfold descend at h
    simp only [] at h
    generalize (clookup k.key t.items).getD (.table (newImplicit dotted)) = entry at h
    cases entry with
    | value v => cases h
    | aot ts sp =>
      simp only [] at h
      split at h
      · cases h
      · split at h
        · injection h with h; subst h; exact dotted_setItems _ _
        · cases h
    | table sub =>
      simp only [] at h
      split at h
      · cases h
      · split at h
        · injection h with h; subst h; exact dotted_setItems _ _
        · cases h

/-- neither the root nor the current table of the parse state is `dotted` -/
structure DInv (st : CState) : Prop where
  root : st.root.dotted = false
  cur : st.current.dotted = false

theorem DInv.init : DInv {} := ⟨rfl, rfl⟩

theorem onWs_dinv {st : CState} {a b : Nat} (h : DInv st) : DInv (onWs st a b) := by
  unfold onWs
  split <;> exact ⟨h.root, h.cur⟩

theorem onKeyval_dinv {st st' : CState} {path : List CKey} {key : CKey} {v : CVal}
    (hinv : DInv st) (h : onKeyval st path key v = some st') : DInv st' := by
  rw [onKeyval_eq] at h
  obtain ⟨c, hc, rfl⟩ := map_some h
  have hcur : (kvCur st v).dotted = false := by
    unfold kvCur
    split
    · rw [dotted_setSpan]; exact hinv.cur
    · exact hinv.cur
  have hf : ∀ u u', kvF (kvKey st key) v path u = some u' → u'.dotted = u.dotted := by
    intro u u' hfu
    unfold kvF at hfu
    split at hfu
    · cases hfu
    · split at hfu
      · cases hfu
      · injection hfu with hfu; subst hfu
        exact dotted_setItems _ _
  exact ⟨hinv.root, (descend_dotted _ hf path _ true c hc).trans hcur⟩

theorem finalizeTable_dotted {st st' : CState} (hinv : DInv st) (h : finalizeTable st = some st') :
    st'.root.dotted = false ∧ st'.current = CTbl.empty := by
  unfold finalizeTable at h
  simp only [] at h
  split at h
  · split at h
    · injection h with h; subst h
      exact ⟨hinv.cur, rfl⟩
    · cases h
  · rename_i parentPath key hsl
    split at h
    · obtain ⟨root', hd, rfl⟩ := map_some h
      refine ⟨?_, rfl⟩
      refine (descend_dotted _ ?_ parentPath _ false root' hd).trans hinv.root
      intro u u' hfu
      generalize (clookup key.key u.items).getD (.aot [] none) = entry at hfu
      cases entry with
      | value v => cases hfu
      | table t => cases hfu
      | aot ts sp =>
        simp only [] at hfu
        injection hfu with hfu; subst hfu
        exact dotted_setItems _ _
    · obtain ⟨root', hd, rfl⟩ := map_some h
      refine ⟨?_, rfl⟩
      refine (descend_dotted _ ?_ parentPath _ false root' hd).trans hinv.root
      intro u u' hfu
      split at hfu
      · split at hfu
        · injection hfu with hfu; subst hfu
          exact dotted_setItems _ _
        · cases hfu
      · cases hfu
      · injection hfu with hfu; subst hfu
        exact dotted_setItems _ _

theorem startTable_dinv {st st' : CState} {path : List CKey} {decor : Decor} {span : Span}
    (hroot : st.root.dotted = false) (h : startTable st path decor span = some st') : DInv st' := by
  unfold startTable at h
  split at h
  · cases h
  · rename_i parentPath key hsl
    simp only [] at h
    split at h
    · cases h
    · split at h
      · cases h
      · rename_i root' hd
        injection h with h; subst h
        refine ⟨?_, rfl⟩
        refine (descend_dotted _ ?_ parentPath _ false root' hd).trans hroot
        intro u u' hfu
        injection hfu with hfu; subst hfu
        exact dotted_setItems _ _

theorem startArrayTable_dinv {st st' : CState} {path : List CKey} {decor : Decor} {span : Span}
    (hroot : st.root.dotted = false) (h : startArrayTable st path decor span = some st') : DInv st' := by
  unfold startArrayTable at h
  split at h
  · cases h
  · rename_i parentPath key hsl
    simp only [] at h
    split at h
    · cases h
    · rename_i root' hd
      injection h with h; subst h
      refine ⟨?_, rfl⟩
      refine (descend_dotted _ ?_ parentPath _ false root' hd).trans hroot
      intro u u' hfu
      split at hfu
      · injection hfu with hfu; subst hfu; rfl
      · cases hfu
      · injection hfu with hfu; subst hfu
        exact dotted_setItems _ _

theorem onStdHeader_dinv {st st' : CState} {path : List CKey} {trailing : Raw} {span : Span}
    (hinv : DInv st) (h : onStdHeader st path trailing span = some st') : DInv st' := by
  unfold onStdHeader at h
  split at h
  · rename_i st1 hfin
    simp only [] at h
    exact startTable_dinv (st := { st1 with trailing := none }) (finalizeTable_dotted hinv hfin).1 h
  · cases h

theorem onArrayHeader_dinv {st st' : CState} {path : List CKey} {trailing : Raw} {span : Span}
    (hinv : DInv st) (h : onArrayHeader st path trailing span = some st') : DInv st' := by
  unfold onArrayHeader at h
  split at h
  · rename_i st1 hfin
    simp only [] at h
    exact startArrayTable_dinv (st := { st1 with trailing := none }) (finalizeTable_dotted hinv hfin).1 h
  · cases h

theorem ctableLine_dinv {n : Nat} {st st' : CState} {s r : Bytes} (hinv : DInv st)
    (h : ctableLine n st s = some (st', r)) : DInv st' := by
  unfold ctableLine at h
  split at h
  · split at h
    · split at h
      · split at h
        · obtain ⟨st1, hst1, heq⟩ := map_some h
          injection heq with e1 e2; subst e1
          exact onArrayHeader_dinv hinv hst1
        · cases h
      · cases h
    · cases h
  · split at h
    · cases h
    · split at h
      · split at h
        · split at h
          · obtain ⟨st1, hst1, heq⟩ := map_some h
            injection heq with e1 e2; subst e1
            exact onStdHeader_dinv hinv hst1
          · cases h
        · cases h
      · cases h
  · cases h

theorem ckeyvalLine_dinv {n : Nat} {st st' : CState} {s r : Bytes} (hinv : DInv st)
    (h : ckeyvalLine n st s = some (st', r)) : DInv st' := by
  unfold ckeyvalLine at h
  split at h
  · split at h
    · cases h
    · split at h
      · simp only [] at h
        split at h
        · split at h
          · split at h
            · obtain ⟨st1, hst1, heq⟩ := map_some h
              injection heq with e1 e2; subst e1
              exact onKeyval_dinv hinv hst1
            · cases h
          · cases h
        · cases h
      · cases h
  · cases h

theorem parseWs_dinv {n : Nat} {st : CState} {s : Bytes} (hinv : DInv st) : DInv (parseWs n st s).1 :=
  onWs_dinv hinv

theorem clines_dinv (n : Nat) : ∀ (fuel : Nat) (st : CState) (s : Bytes) (st' : CState),
    DInv st → clines n fuel st s = some st' → DInv st' := by
  intro fuel
  induction fuel with
  | zero => intro st s st' _ h; unfold clines at h; cases h
  | succ fuel ih =>
    intro st s st' hinv h
    unfold clines at h
    split at h
    · injection h with h; subst h; exact hinv
    · rename_i b r
      split at h
      · simp only [] at h
        split at h
        · injection h with h; subst h
          exact parseWs_dinv (onWs_dinv hinv)
        · split at h
          · exact ih _ _ _ (parseWs_dinv (onWs_dinv hinv)) h
          · cases h
      · split at h
        · split at h
          · rename_i st1 r1 hline
            exact ih _ _ _ (parseWs_dinv (ctableLine_dinv hinv hline)) h
          · cases h
        · split at h
          · split at h
            · exact ih _ _ _ (parseWs_dinv (onWs_dinv hinv)) h
            · cases h
          · split at h
            · rename_i st1 r1 hline
              exact ih _ _ _ (parseWs_dinv (ckeyvalLine_dinv hinv hline)) h
            · cases h

/-- **the root of a parsed document is not dotted** -/
theorem parseCst_root_not_dotted (s : Bytes) (d : CDoc) (h : parseCst s = some d) : d.root.dotted = false := by
  unfold parseCst at h
  simp only [] at h
  split at h
  · rename_i st hcl
    have h1 : DInv (parseWs s.length {} (Doc.stripBom s)).1 := parseWs_dinv DInv.init
    have h2 := clines_dinv _ _ _ _ _ h1 hcl
    unfold intoDocument at h
    split at h
    · rename_i st1 hfin
      injection h with h; subst h
      exact (finalizeTable_dotted h2 hfin).1
    · cases h
  · cases h

/-! ### the ops -/

/-- the table update keeps the `dotted` flag -/
def TblKeeps (u : Upd) : Prop := ∀ t t', u.tbl t = some t' → t'.dotted = t.dotted

theorem updTbl_dotted {u : Upd} (hu : TblKeeps u) (p : List Seg) (t t' : CTbl) (h : updTbl u p t = some t') :
    t'.dotted = t.dotted := by
  cases p with
  | nil => simp only [updTbl] at h; exact hu t t' h
  | cons s r =>
    cases t with
    | mk items imp dot ps dec sp =>
      simp only [updTbl] at h
      cases hi : s.key with
      | none => simp [hi] at h
      | some k =>
        simp only [hi] at h
        obtain ⟨items', _, rfl⟩ := Option.map_eq_some_iff.mp h
        rfl

theorem noTbl_keeps {v a} : TblKeeps ⟨noTbl, v, a⟩ := fun _ _ h => by simp [noTbl] at h

theorem convAt_keeps {k : Bytes} {f : CItem → Option CItem} {v a} : TblKeeps ⟨convAt k f, v, a⟩ := by
  intro t t' h
  simp only [convAt] at h
  split at h
  · obtain ⟨it', _, rfl⟩ := Option.map_eq_some_iff.mp h
    exact dotted_setItems _ _
  · cases h

theorem tblDel_keeps {k : Bytes} {v a} : TblKeeps ⟨tblDel k, v, a⟩ := by
  intro t t' h
  simp only [tblDel] at h
  split at h
  · simp only [Option.some.injEq] at h; subst h; exact dotted_setItems _ _
  · cases h

theorem tblPut_keeps {k : Bytes} {kr : Raw} {it : CItem} {v a} : TblKeeps ⟨tblPut k kr it, v, a⟩ := by
  intro t t' h
  simp only [tblPut, Option.some.injEq] at h; subst h; exact dotted_setItems _ _

theorem sortTbl_dotted (t : CTbl) : (sortTbl t).dotted = t.dotted := by
  cases t; simp [sortTbl, CTbl.dotted]

theorem opUpd_keeps (op : Op) (rs : List Raw) : TblKeeps (op.upd rs) := by
  cases op with
  | set k v =>
    intro t t' h
    simp only [Op.upd, tblSet, Option.some.injEq] at h; subst h; exact dotted_setItems _ _
  | del k => exact tblDel_keeps
  | newt k =>
    intro t t' h
    simp only [Op.upd, tblNewTable, Option.some.injEq] at h; subst h; exact dotted_setItems _ _
  | viv k1 k2 v =>
    intro t t' h
    simp only [Op.upd, tblViv] at h
    split at h
    · simp only [Option.some.injEq] at h; subst h; exact dotted_setItems _ _
    · simp only [Option.some.injEq] at h; subst h; exact dotted_setItems _ _
    · simp only [Option.some.injEq] at h; subst h; exact dotted_setItems _ _
    · cases h
  | sort =>
    intro t t' h
    simp only [Op.upd, Option.some.injEq] at h; subst h; exact sortTbl_dotted t
  | fmt =>
    intro t t' h
    simp only [Op.upd, tblFmt, Option.some.injEq] at h; subst h; exact dotted_setItems _ _
  | push v => exact noTbl_keeps
  | ains i v => exact noTbl_keeps
  | arepl i v => exact noTbl_keeps
  | adel i => exact noTbl_keeps
  | tpush => exact noTbl_keeps
  | tdel i => exact noTbl_keeps
  | inl k => exact convAt_keeps
  | tbl k => exact convAt_keeps
  | aot2arr k => exact convAt_keeps
  | arr2aot k => exact convAt_keeps
  | mv k p2 => exact noTbl_keeps

/-- no op changes the `dotted` flag of the root -/
theorem applyOp_root_dotted (st st' : St) (op : Op) (p : List Seg) (h : applyOp st op p = some st') :
    st'.doc.root.dotted = st.doc.root.dotted := by
  unfold applyOp at h
  cases op with
  | mv k p2 =>
    obtain ⟨r, hm, rfl⟩ := Option.map_eq_some_iff.mp h
    show r.dotted = _
    unfold mvTree at hm
    split at hm
    · cases hm
    · split at hm
      · cases hm
      · rename_i r1 h1
        exact (updTbl_dotted tblPut_keeps p2 r1 r hm).trans (updTbl_dotted tblDel_keeps p _ r1 h1)
  | tpush =>
    obtain ⟨y, hm, rfl⟩ := Option.map_eq_some_iff.mp h
    unfold tpushUpd at hm
    split at hm
    · obtain ⟨r, hu, rfl⟩ := Option.map_eq_some_iff.mp hm
      exact updTbl_dotted noTbl_keeps p _ r hu
    · cases hm
  | set k v | del k | newt k | viv k1 k2 v | sort | fmt | push v | ains i v | arepl i v | adel i
  | tdel i | inl k | tbl k | aot2arr k | arr2aot k =>
    obtain ⟨r, hm, rfl⟩ := Option.map_eq_some_iff.mp h
    exact updTbl_dotted (opUpd_keeps _ _) p _ r hm

theorem run_root_dotted : ∀ (es : List (Op × List Seg)) (st : St), (run st es).doc.root.dotted = st.doc.root.dotted
  | [], _ => rfl
  | e :: es, st => by
    have h1 : (step st e).doc.root.dotted = st.doc.root.dotted := by
      unfold step
      cases h : applyOp st e.1 e.2 with
      | none => rfl
      | some st' => exact applyOp_root_dotted st st' e.1 e.2 h
    have := run_root_dotted es (step st e)
    simp only [run, List.foldl_cons] at this ⊢
    exact this.trans h1

end TomlVerif.Lemmas.Refine08c
