import TomlVerif.Lemmas.Tiling03MoreVSPairs
import TomlVerif.Lemmas.Spans14Keys
/-! Value-level "same data" (C03): every `Key` the key parser records spells its decoded key
    (`KeyText`), and its decor texts are blanks. -/
namespace TomlVerif.Lemmas.Tiling03More.VS
open TomlVerif TomlVerif.Spec TomlVerif.Model TomlVerif.Model.Strings TomlVerif.Model.Value
open TomlVerif.Model.Cst TomlVerif.Model.Encode TomlVerif.Lemmas.Suffix03 TomlVerif.Lemmas.Cst03
open TomlVerif.Lemmas.Tiling03 TomlVerif.Spec.AstValue TomlVerif.Spec.AstValueQ TomlVerif.Lemmas.Spans14

/-- the blanks `dropWs` skips, as the text of the recorded span -/
theorem dropWs_rawText (inp s : Bytes) (hs : s <:+ inp) :
    AllWs (rawText inp (rawBetween inp.length s (dropWs s))) := by
  obtain ⟨w, hw, e, _⟩ := Sound01.dropWs_split s
  rw [rawText_between inp s w (dropWs s) hs e]
  exact hw

theorem ckeyPathAux_GK (inp : Bytes) : ∀ (fuel : Nat) (s : Bytes) (acc ks : List CKey) (r : Bytes),
    s <:+ inp → ckeyPathAux inp.length fuel s acc = .ok ks r → (∀ k ∈ acc, GKey inp k) → ∀ k ∈ ks, GKey inp k := by
  intro fuel
  induction fuel with
  | zero => intro s acc ks r _ h; unfold ckeyPathAux at h; cases h
  | succ fuel ih =>
    intro s acc ks r hinp h hacc
    unfold ckeyPathAux at h
    simp only [] at h
    split at h
    · rename_i k r0 hk
      have hs0 : dropWs s <:+ inp := (Cst03.dropWs_suffix s).trans hinp
      obtain ⟨raw, eraw, hkt⟩ := Sound01.simpleKey_sound _ _ _ hk
      have hr0 : r0 <:+ inp := (eraw ▸ suffix_of_append raw r0).trans hs0
      generalize hckd : ({ key := k, repr := rawBetween inp.length (dropWs s) r0, dotted := Decor.new (rawBetween inp.length s (dropWs s)) (rawBetween inp.length r0 (dropWs r0)) } : CKey) = ck at h
      have hck : GKey inp ck := by
        subst hckd
        refine ⟨?_, DecWs_new inp _ _ (dropWs_rawText inp s hinp) (dropWs_rawText inp r0 hr0), DecWs_default inp⟩
        simp only []
        rw [rawText_between inp (dropWs s) raw r0 hs0 eraw]
        exact hkt
      have hacc' : ∀ k' ∈ acc ++ [ck], GKey inp k' := by
        intro k' hk'
        rcases List.mem_append.1 hk' with hk' | hk'
        · exact hacc k' hk'
        · simp only [List.mem_singleton] at hk'; subst hk'; exact hck
      split at h
      · rename_i r2 heq
        have hr2 : r2 <:+ inp := ((List.suffix_cons _ r2).trans (heq ▸ Cst03.dropWs_suffix r0)).trans hr0
        split at h
        · injection h with h1 h2; subst h1; exact hacc'
        · rename_i other hne
          cases hres : ckeyPathAux inp.length fuel r2 (acc ++ [ck]) with
          | bt => exact absurd hres (by simpa using hne)
          | cut => rw [hres] at h; cases h
          | ok ks' r' =>
            rw [hres] at h
            injection h with h1 h2; subst h1
            exact ih _ _ _ _ hr2 hres hacc'
      · injection h with h1 h2; subst h1; exact hacc'
    · cases h
    · cases h

theorem rawText_empty_ws (inp : Bytes) : AllWs (rawText inp .empty) := by
  intro b hb; cases hb

theorem takePre_GK (inp : Bytes) (k : CKey) (hk : GKey inp k) :
    GKey inp (takePre k).2 ∧ AllWs (rawText inp (takePre k).1) := by
  unfold takePre
  cases hp : k.dotted.pre with
  | none => exact ⟨hk, rawText_empty_ws inp⟩
  | some p =>
    simp only []
    refine ⟨⟨hk.1, ⟨?_, ?_⟩, hk.2.2⟩, hk.2.1.1 p hp⟩
    · intro r hr; simp only [] at hr; injection hr with hr; subst hr; exact rawText_empty_ws inp
    · intro r hr; exact hk.2.1.2 r hr

theorem takeSuf_GK (inp : Bytes) (k : CKey) (hk : GKey inp k) :
    GKey inp (takeSuf k).2 ∧ AllWs (rawText inp (takeSuf k).1) := by
  unfold takeSuf
  cases hp : k.dotted.suf with
  | none => exact ⟨hk, rawText_empty_ws inp⟩
  | some p =>
    simp only []
    refine ⟨⟨hk.1, ⟨?_, ?_⟩, hk.2.2⟩, hk.2.1.2 p hp⟩
    · intro r hr; exact hk.2.1.1 r hr
    · intro r hr; simp only [] at hr; injection hr with hr; subst hr; exact rawText_empty_ws inp

theorem fixLeaf_GK (inp : Bytes) (ks : List CKey) (h : ∀ k ∈ ks, GKey inp k) : ∀ k ∈ fixLeaf ks, GKey inp k := by
  cases ks with
  | nil => intro k hk; simp [fixLeaf] at hk
  | cons first rest =>
    rw [fixLeaf_cons]
    have hf := takePre_GK inp first (h first (by simp))
    have hall : ∀ k ∈ (takePre first).2 :: rest, GKey inp k := by
      intro x hx
      rcases List.mem_cons.1 hx with hx | hx
      · subst hx; exact hf.1
      · exact h x (List.mem_cons_of_mem _ hx)
    split
    · exact hall
    · rename_i init last hsl
      have e := splitLast_some _ _ _ hsl
      have hl := takeSuf_GK inp last (hall last (by rw [e]; simp))
      intro x hx
      rcases List.mem_append.1 hx with hx | hx
      · exact hall x (by rw [e]; exact List.mem_append_left _ hx)
      · simp only [List.mem_singleton] at hx
        subst hx
        exact ⟨hl.1.1, hl.1.2.1, DecWs_new inp _ _ hf.2 hl.2⟩

/-- **keys**: every key of a parsed key path spells its decoded key, with blank decor -/
theorem ckeyPath_GK (inp s r : Bytes) (ks : List CKey) (hs : s <:+ inp) (h : ckeyPath inp.length s = .ok ks r) :
    ∀ k ∈ ks, GKey inp k := by
  unfold ckeyPath at h
  cases hk : ckeyPathAux inp.length (s.length + 1) s [] with
  | ok ks0 r0 =>
    rw [hk] at h
    simp only [] at h
    split at h
    · cases h
    · injection h with h1 h2; subst h1
      exact fixLeaf_GK inp ks0 (ckeyPathAux_GK inp _ _ _ _ _ hs hk (fun _ hx => by cases hx))
  | bt => rw [hk] at h; cases h
  | cut => rw [hk] at h; cases h

/-- the form requested by the document-level development: a well-formed `QKey` witness per key -/
theorem ckeyPath_qkeys (inp s r : Bytes) (ks : List CKey) (hs : s <:+ inp) (h : ckeyPath inp.length s = .ok ks r) :
    ∀ k ∈ ks, (∃ qk : QKey, qk.WF ∧ qk.raw = rawText inp k.repr ∧ qk.key = k.key) ∧
      (∀ x, k.dotted.pre = some x → AllWs (rawText inp x)) ∧ (∀ x, k.dotted.suf = some x → AllWs (rawText inp x)) ∧
      (∀ x, k.leaf.pre = some x → AllWs (rawText inp x)) ∧ (∀ x, k.leaf.suf = some x → AllWs (rawText inp x)) := by
  intro k hk
  obtain ⟨h1, h2, h3⟩ := ckeyPath_GK inp s r ks hs h k hk
  exact ⟨⟨⟨[], rawText inp k.repr, k.key, []⟩, ⟨allWs_nil, allWs_nil, h1⟩, rfl, rfl⟩, h2.1, h2.2, h3.1, h3.2⟩

end TomlVerif.Lemmas.Tiling03More.VS
