import TomlVerif.Lemmas.DeTyped13
/-! Lemmas for Props/C13Typed, part 2: with the three switches off, `decodeEdit` on a parsed tree and `decodeValue` on
    its data in document order are the same function (`lenient_ty`). -/
namespace TomlVerif.Lemmas.DeTyped13
open TomlVerif TomlVerif.Model TomlVerif.Model.TomlValue TomlVerif.Model.DeRoutes
open TomlVerif.Model.DeText (presOfItem presOfVal presOfTbl presOfVals presOfValPairs presOfTbls presOfItems)
open TomlVerif.Model.DeTyped TomlVerif.Lemmas.DeRoutes13

theorem edit_dt_eq (ty : Ty) (it : Item) :
    (match it with
     | .value (.dt d) => datetimeTarget ty (dtMap d)
     | _ => datetimeTarget ty (presOfItem it)) = datetimeTarget ty (presOfItem it) := by
  cases it with
  | value v => cases v <;> simp [presOfItem, presOfVal]
  | table t => rfl
  | aot ts => rfl

theorem value_dt_lenient {α} (v : TV) (x y : α) :
    (match v with
     | .tbl es => if (valueLenient.trailingCheck && decide (es.length > 1)) = true then y else x
     | _ => x) = x := by
  cases v <;> simp [valueLenient]

theorem plain_strItem (s : Bytes) : plainItem (strItem s) = .str s := rfl

/-- the facts of `item_view`, one kind at a time -/
theorem view_scalar {it : Item} (h : kindOf it = .scalar) :
    itemElems it = none ∧ itemEntries it = none ∧ editMapEntries it = none ∧
      (∀ s, it ≠ .value (.str s)) ∧ (∀ d, it ≠ .value (.dt d)) ∧
      ((∃ n, plainItem it = .int n) ∨ (∃ b, plainItem it = .float b) ∨ (∃ b, plainItem it = .bool b)) := by
  have := item_view it; rw [h] at this; exact this
theorem view_str {it : Item} {s : Bytes} (h : kindOf it = .str s) : it = .value (.str s) := by
  have := item_view it; rw [h] at this; exact this
theorem view_dt {it : Item} {d : Datetime.Datetime} (h : kindOf it = .dt d) : it = .value (.dt d) := by
  have := item_view it; rw [h] at this; exact this
theorem view_elems {it : Item} {l : List Item} (h : kindOf it = .elems l) :
    itemElems it = some l ∧ itemEntries it = none ∧ editMapEntries it = none ∧
      (∀ s, it ≠ .value (.str s)) ∧ (∀ d, it ≠ .value (.dt d)) ∧ plainItem it = .arr (l.map plainItem) := by
  have := item_view it; rw [h] at this; exact this
theorem view_entries {it : Item} {es : List (Bytes × Item)} (h : kindOf it = .entries es) :
    itemElems it = none ∧ itemEntries it = some es ∧
      editMapEntries it = some (es.map fun kv => (kv.1, ESrc.item kv.2)) ∧
      (∀ s, it ≠ .value (.str s)) ∧ (∀ d, it ≠ .value (.dt d)) ∧ plainItem it = .tbl (pairsTV es) := by
  have := item_view it; rw [h] at this; exact this

theorem pairsTV_keys (es : List (Bytes × Item)) : (pairsTV es).map Prod.fst = es.map Prod.fst := by
  simp [pairsTV]

theorem pairsTV_length (es : List (Bytes × Item)) : (pairsTV es).length = es.length := by
  simp [pairsTV]

theorem pairsTV_snd (es : List (Bytes × Item)) : (pairsTV es).map Prod.snd = (es.map Prod.snd).map plainItem := by
  simp [pairsTV]

theorem srcKeys (es : List (Bytes × Item)) :
    (es.map fun kv => (kv.1, ESrc.item kv.2)).map Prod.fst = es.map Prod.fst := by
  simp


theorem mapE_map {α β γ} (f : β → R γ) (h : α → β) (l : List α) : mapE f (l.map h) = mapE (fun a => f (h a)) l := by
  induction l with
  | nil => rfl
  | cons a r ih => simp only [List.map_cons, mapE, ih]

theorem mapE_ext {α γ} (f g : α → R γ) (l : List α) (hfg : ∀ a ∈ l, f a = g a) : mapE f l = mapE g l := by
  induction l with
  | nil => rfl
  | cons a r ih =>
    simp only [mapE]
    rw [hfg a (by simp), ih (fun x hx => hfg x (by simp [hx]))]

/-- the body shared by `deserialize_struct` and `struct_variant`, given the statements about the fields -/
theorem struct_any (fl : Flavour) (fs : Fields) (W : List (Bytes × Dec) → Dec)
    (ha : ∀ es : List (Bytes × Item),
      decodeEditFields editLenient fl fs (es.map fun kv => (kv.1, ESrc.item kv.2)) =
        decodeValueFields valueLenient fl fs (pairsTV es))
    (hb : ∀ s, decodeEditFields editLenient fl fs [(FIELD, ESrc.str s)] =
      decodeValueFields valueLenient fl fs [(FIELD, TV.str s)])
    (hc : ∀ l, decodeEditFieldsSeq editLenient fl fs l = decodeValueFieldsSeq valueLenient fl fs (l.map plainItem))
    (it : Item) :
    (match editMapEntries it with
     | some es =>
       if dupField fs (es.map Prod.fst) then fail else
       rmap W (decodeEditFields editLenient fl fs es)
     | none =>
       match itemElems it with
       | some l =>
         rmap W (decodeEditFieldsSeq editLenient fl fs l)
       | none => fail) =
    (match valueMapEntries (plainItem it) with
     | some es =>
       if dupField fs (es.map Prod.fst) then fail else
       rmap W (decodeValueFields valueLenient fl fs es)
     | none =>
       match plainItem it with
       | .arr l =>
         if valueLenient.trailingCheck && l.length > fs.length then fail else
         rmap W (decodeValueFieldsSeq valueLenient fl fs l)
       | _ => (fail : R Dec)) := by
  cases hk : kindOf it with
  | scalar =>
    obtain ⟨h1, _, h3, _, _, h6⟩ := view_scalar hk
    rw [h3, h1]
    rcases h6 with ⟨n, h⟩ | ⟨b, h⟩ | ⟨b, h⟩ <;> rw [h] <;> rfl
  | str s => rw [view_str hk]; rfl
  | dt d =>
    rw [view_dt hk]
    simp only [editMapEntries, plainItem, plainVal, valueMapEntries, List.map_cons, List.map_nil, hb]
  | elems l =>
    obtain ⟨h1, _, h3, _, _, h6⟩ := view_elems hk
    rw [h3, h1, h6]
    simp [valueMapEntries, valueLenient, hc]
  | entries es =>
    obtain ⟨_, _, h3, _, _, h6⟩ := view_entries hk
    rw [h3, h6]
    simp only [valueMapEntries, srcKeys, pairsTV_keys, ha]


theorem scalar_eq (ty : Ty) (it : Item) :
    visitScalar ty (presOfItem it) = visitScalar ty (presValue currentDtAsMap (plainItem it)) := by
  rw [presOfItem_presValue]

mutual
theorem lenient_ty (fl : Flavour) : ∀ (ty : Ty) (it : Item),
    decodeEdit editLenient fl ty it = decodeValue valueLenient fl ty (plainItem it)
  | .bool, it => by unfold decodeEdit decodeValue; rw [scalar_eq]
  | .int _ _, it => by unfold decodeEdit decodeValue; rw [scalar_eq]
  | .f64, it => by unfold decodeEdit decodeValue; rw [scalar_eq]
  | .f32, it => by unfold decodeEdit decodeValue; rw [scalar_eq]
  | .string, it => by unfold decodeEdit decodeValue; rw [scalar_eq]
  | .char, it => by unfold decodeEdit decodeValue; rw [scalar_eq]
  | .unit, it => by unfold decodeEdit decodeValue; rw [scalar_eq]
  | .datetime, it => by
    unfold decodeEdit decodeValue
    rw [← presOfItem_presValue]
    split <;> split <;> simp [valueLenient, presOfItem, presOfVal]
  | .date, it => by
    unfold decodeEdit decodeValue
    rw [← presOfItem_presValue]
    split <;> split <;> simp [valueLenient, presOfItem, presOfVal]
  | .time, it => by
    unfold decodeEdit decodeValue
    rw [← presOfItem_presValue]
    split <;> split <;> simp [valueLenient, presOfItem, presOfVal]
  | .value, it => by unfold decodeEdit decodeValue; rw [presOfItem_presValue]; rfl
  | .ignored, it => by unfold decodeEdit decodeValue; rfl
  | .option t, it => by unfold decodeEdit decodeValue; rw [lenient_ty fl t it]
  | .newtype t, it => by unfold decodeEdit decodeValue; rw [lenient_ty fl t it]
  | .seq t, it => by
    unfold decodeEdit decodeValue
    cases hk : kindOf it with
    | scalar =>
      obtain ⟨h1, _, _, _, _, h6⟩ := view_scalar hk
      rw [h1]
      rcases h6 with ⟨n, h⟩ | ⟨b, h⟩ | ⟨b, h⟩ <;> rw [h]
    | str s => rw [view_str hk]; rfl
    | dt d => rw [view_dt hk]; rfl
    | elems l =>
      obtain ⟨h1, _, _, _, _, h6⟩ := view_elems hk
      rw [h1, h6]
      simp only []
      rw [mapE_congr _ _ plainItem l (fun a _ => lenient_ty fl t a)]
    | entries es =>
      obtain ⟨h1, _, _, _, _, h6⟩ := view_entries hk
      rw [h1, h6]
  | .tuple ts, it => by
    unfold decodeEdit decodeValue
    cases hk : kindOf it with
    | scalar =>
      obtain ⟨h1, _, _, _, _, h6⟩ := view_scalar hk
      rw [h1]
      rcases h6 with ⟨n, h⟩ | ⟨b, h⟩ | ⟨b, h⟩ <;> rw [h]
    | str s => rw [view_str hk]; rfl
    | dt d => rw [view_dt hk]; rfl
    | elems l =>
      obtain ⟨h1, _, _, _, _, h6⟩ := view_elems hk
      rw [h1, h6]
      simp [valueLenient, lenient_tys fl ts l]
    | entries es =>
      obtain ⟨h1, _, _, _, _, h6⟩ := view_entries hk
      rw [h1, h6]
  | .map t, it => by
    unfold decodeEdit decodeValue
    cases hk : kindOf it with
    | scalar =>
      obtain ⟨_, _, h3, _, _, h6⟩ := view_scalar hk
      rw [h3]
      rcases h6 with ⟨n, h⟩ | ⟨b, h⟩ | ⟨b, h⟩ <;> rw [h] <;> rfl
    | str s => rw [view_str hk]; rfl
    | dt d =>
      rw [view_dt hk]
      have hL : editLenient.dtValueViaSerdeString = false := rfl
      simp only [editMapEntries, plainItem, plainVal, valueMapEntries, mapE, hL, Bool.false_eq_true, if_false]
      rw [lenient_ty fl t (strItem (Datetime.Std.display d)), plain_strItem]
    | elems l =>
      obtain ⟨_, _, h3, _, _, h6⟩ := view_elems hk
      rw [h3, h6]; rfl
    | entries es =>
      obtain ⟨_, _, h3, _, _, h6⟩ := view_entries hk
      rw [h3, h6]
      simp only [valueMapEntries, pairsTV]
      rw [mapE_map, mapE_map]
      congr 1
      apply mapE_ext
      intro a _
      simp only [lenient_ty fl t a.2]
  | .struct fs, it => by
    unfold decodeEdit decodeValue
    exact struct_any fl fs Dec.struct (lenient_fields fl fs) (lenient_fields_dt fl fs) (lenient_fields_seq fl fs) it
  | .enum vs, it => by
    unfold decodeEdit decodeValue
    cases it with
    | value v =>
      cases v with
      | str s => simp [plainItem, plainVal]
      | int n => simp [plainItem, plainVal, itemEntries]
      | float b => simp [plainItem, plainVal, itemEntries]
      | bool b => simp [plainItem, plainVal, itemEntries]
      | dt d => simp [plainItem, plainVal, itemEntries]
      | arr l => simp [plainItem, plainVal, itemEntries]
      | inl items a b =>
        match items with
        | [] => simp [plainItem, plainVal, plainValPairs, itemEntries]
        | [(k, v)] =>
          simp only [plainItem, plainVal, plainValPairs, itemEntries, List.map_cons, List.map_nil]
          exact lenient_variants fl vs k (.value v)
        | _ :: _ :: _ => simp [plainItem, plainVal, plainValPairs, itemEntries]
    | table t =>
      obtain ⟨items, a, b, c⟩ := t
      match items with
      | [] => simp [plainItem, plainTbl, plainItems, itemEntries, Tbl.items]
      | [(k, i)] =>
        simp only [plainItem, plainTbl, plainItems, itemEntries, Tbl.items]
        exact lenient_variants fl vs k i
      | _ :: _ :: _ => simp [plainItem, plainTbl, plainItems, itemEntries, Tbl.items]
    | aot ts => simp [plainItem, itemEntries]
theorem lenient_tys (fl : Flavour) : ∀ (ts : Tys) (l : List Item),
    decodeEditTys editLenient fl ts l = decodeValueTys valueLenient fl ts (l.map plainItem)
  | .nil, l => by rw [decodeEditTys, decodeValueTys]
  | .cons t r, [] => by rw [decodeEditTys, List.map_nil, decodeValueTys]
  | .cons t r, i :: l => by
    rw [decodeEditTys, List.map_cons, decodeValueTys, lenient_ty fl t i, lenient_tys fl r l]
theorem lenient_fields (fl : Flavour) : ∀ (fs : Fields) (es : List (Bytes × Item)),
    decodeEditFields editLenient fl fs (es.map fun kv => (kv.1, ESrc.item kv.2)) =
      decodeValueFields valueLenient fl fs (pairsTV es)
  | .nil, es => by rw [decodeEditFields, decodeValueFields]
  | .cons name t dflt r, es => by
    rw [decodeEditFields, decodeValueFields, lenient_fields fl r es, alookup_map, pairsTV, alookup_map]
    cases alookup name es with
    | none => rfl
    | some i => simp only [Option.map_some, lenient_ty fl t i]
theorem lenient_fields_dt (fl : Flavour) : ∀ (fs : Fields) (s : Bytes),
    decodeEditFields editLenient fl fs [(FIELD, ESrc.str s)] =
      decodeValueFields valueLenient fl fs [(FIELD, TV.str s)]
  | .nil, s => by rw [decodeEditFields, decodeValueFields]
  | .cons name t dflt r, s => by
    rw [decodeEditFields, decodeValueFields, lenient_fields_dt fl r s]
    simp only [alookup]
    by_cases h : (FIELD == name) = true
    · have hL : editLenient.dtValueViaSerdeString = false := rfl
      simp only [h, if_true, hL, Bool.false_eq_true, if_false]
      rw [lenient_ty fl t (strItem s), plain_strItem]
    · simp only [h, Bool.false_eq_true, if_false]
theorem lenient_fields_seq (fl : Flavour) : ∀ (fs : Fields) (l : List Item),
    decodeEditFieldsSeq editLenient fl fs l = decodeValueFieldsSeq valueLenient fl fs (l.map plainItem)
  | .nil, l => by rw [decodeEditFieldsSeq, decodeValueFieldsSeq]
  | .cons name t dflt r, [] => by
    rw [decodeEditFieldsSeq, List.map_nil, decodeValueFieldsSeq]
    have := lenient_fields_seq fl r []
    rw [List.map_nil] at this
    rw [this]
  | .cons name t dflt r, i :: l => by
    rw [decodeEditFieldsSeq, List.map_cons, decodeValueFieldsSeq, lenient_ty fl t i, lenient_fields_seq fl r l]
theorem lenient_variants (fl : Flavour) : ∀ (vs : Variants) (k : Bytes) (p : Item),
    decodeEditVariants editLenient fl vs k p = decodeValueVariants valueLenient fl vs k (plainItem p)
  | .nil, k, p => by rw [decodeEditVariants, decodeValueVariants]
  | .cons name s r, k, p => by
    rw [decodeEditVariants, decodeValueVariants, lenient_shape fl s name p, lenient_variants fl r k p]
theorem lenient_shape (fl : Flavour) : ∀ (s : Shape) (n : Bytes) (p : Item),
    decodeEditShape editLenient fl s n p = decodeValueShape valueLenient fl s n (plainItem p)
  | .unit, n, p => by
    unfold decodeEditShape decodeValueShape
    cases hk : kindOf p with
    | scalar =>
      obtain ⟨h1, h2, _, _, _, h6⟩ := view_scalar hk
      rw [h1, h2]
      rcases h6 with ⟨n, h⟩ | ⟨b, h⟩ | ⟨b, h⟩ <;> rw [h]
    | str s => rw [view_str hk]; rfl
    | dt d => rw [view_dt hk]; rfl
    | elems l =>
      obtain ⟨h1, _, _, _, _, h6⟩ := view_elems hk
      rw [h1, h6]; simp
    | entries es =>
      obtain ⟨h1, h2, _, _, _, h6⟩ := view_entries hk
      rw [h1, h2, h6]; simp [pairsTV]
  | .newtype t, n, p => by unfold decodeEditShape decodeValueShape; rw [lenient_ty fl t p]
  | .tuple ts, n, p => by
    unfold decodeEditShape decodeValueShape
    cases hk : kindOf p with
    | scalar =>
      obtain ⟨h1, h2, _, _, _, h6⟩ := view_scalar hk
      rw [h1, h2]
      rcases h6 with ⟨n, h⟩ | ⟨b, h⟩ | ⟨b, h⟩ <;> rw [h]
    | str s => rw [view_str hk]; rfl
    | dt d => rw [view_dt hk]; rfl
    | elems l =>
      obtain ⟨h1, _, _, _, _, h6⟩ := view_elems hk
      rw [h1, h6]; simp [lenient_tys fl ts l]
    | entries es =>
      obtain ⟨h1, h2, _, _, _, h6⟩ := view_entries hk
      rw [h1, h2, h6]
      simp only [pairsTV_length, pairsTV_snd, lenient_tys fl ts (es.map Prod.snd)]
      rw [pairsTV, indexKeys_map]
  | .struct fs, n, p => by
    unfold decodeEditShape decodeValueShape
    have hL : editLenient.validateVariantKeys = false := rfl
    simp only [hL, Bool.false_and, Bool.false_eq_true, if_false]
    exact struct_any fl fs (Dec.vStruct n) (lenient_fields fl fs) (lenient_fields_dt fl fs) (lenient_fields_seq fl fs) p
end

end TomlVerif.Lemmas.DeTyped13
