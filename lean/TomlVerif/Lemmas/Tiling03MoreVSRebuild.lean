import TomlVerif.Model.Value
import TomlVerif.Lemmas.ValEq
/-! The semantic REBUILD lemma for inline tables: the item list `table_from_pairs` returns,
    flattened back to `(path, key, value)` entries the way `InlineTable::get_values` does (dotted
    sub-tables contribute their entries under the longer key path), is assembled by
    `table_from_pairs` into the same item list again. -/
namespace TomlVerif.Lemmas.Tiling03More.VS
open TomlVerif TomlVerif.Model TomlVerif.Model.Value

abbrev SItems := List (Bytes × Val)
abbrev STriple := List Bytes × Bytes × Val

/-- not a dotted inline table -/
def SLeaf (v : Val) : Prop := ∀ sub imp dot, v = .inl sub imp dot → imp = false ∧ dot = false

mutual
/-- the shape of the item lists `table_from_pairs` builds: keys distinct; a dotted entry is implicit,
    not empty and of that shape again -/
def RbV : Val → Prop
  | .inl sub imp dot => imp = dot ∧ (dot = true → sub ≠ [] ∧ RbL sub)
  | .str _ => True
  | .int _ => True
  | .float _ => True
  | .bool _ => True
  | .dt _ => True
  | .arr _ => True
def RbL : SItems → Prop
  | [] => True
  | (k, v) :: r => k ∉ r.map Prod.fst ∧ RbV v ∧ RbL r
end

def consK (k : Bytes) (e : STriple) : STriple := (k :: e.1, e.2.1, e.2.2)

mutual
/-- `get_values` on the semantic tree, with key paths relative to the table -/
def sflat : SItems → List STriple
  | [] => []
  | (k, v) :: r => sflatV k v ++ sflat r
def sflatV (k : Bytes) : Val → List STriple
  | .inl sub imp dot => if dot then (sflat sub).map (consK k) else [([], k, .inl sub imp dot)]
  | .str s => [([], k, .str s)]
  | .int s => [([], k, .int s)]
  | .float s => [([], k, .float s)]
  | .bool s => [([], k, .bool s)]
  | .dt s => [([], k, .dt s)]
  | .arr s => [([], k, .arr s)]
end

/-- the insertion loop of `table_from_pairs`, for the root table (`td = false`, `top = true`) and
    for a dotted sub-table reached through a non-empty path (`td = true`, `top = false`) -/
def insAll (td top : Bool) : List STriple → SItems → Option SItems
  | [], acc => some acc
  | (path, key, v) :: rest, acc =>
    match inlInsert acc td path (top && path.isEmpty) key v with
    | some acc' => insAll td top rest acc'
    | none => none

theorem tableFromPairs_insAll : ∀ (l : List STriple) (acc : SItems), tableFromPairs l acc = insAll false true l acc
  | [], acc => rfl
  | (path, key, v) :: rest, acc => by
    simp only [tableFromPairs, insAll, Bool.true_and]
    cases inlInsert acc false path path.isEmpty key v with
    | none => rfl
    | some acc' => exact tableFromPairs_insAll rest acc'

theorem insAll_append (td top : Bool) : ∀ (a b : List STriple) (acc : SItems),
    insAll td top (a ++ b) acc = (insAll td top a acc).bind (insAll td top b)
  | [], b, acc => rfl
  | (path, key, v) :: rest, b, acc => by
    simp only [List.cons_append, insAll]
    cases inlInsert acc td path (top && path.isEmpty) key v with
    | none => rfl
    | some acc' => exact insAll_append td top rest b acc'

theorem alookup_snoc_none {α} (k : Bytes) (x : α) : ∀ (acc : List (Bytes × α)), alookup k acc = none →
    alookup k (acc ++ [(k, x)]) = some x ∧ ∀ y, areplace k y (acc ++ [(k, x)]) = acc ++ [(k, y)]
  | [], _ => by simp [alookup, areplace]
  | (k', v) :: r, h => by
    unfold alookup at h
    by_cases hk : (k' == k) = true
    · simp [hk] at h
    · simp only [hk] at h
      have ih := alookup_snoc_none k x r h
      simp only [List.cons_append, alookup, areplace, hk]
      exact ⟨ih.1, fun y => by simp [ih.2 y]⟩

theorem alookup_snoc_ne {α} (k k' : Bytes) (x : α) (hne : k' ≠ k) : ∀ (acc : List (Bytes × α)), alookup k acc = none →
    alookup k (acc ++ [(k', x)]) = none
  | [], _ => by simp [alookup, hne]
  | (k'', v) :: r, h => by
    unfold alookup at h
    by_cases hk : (k'' == k) = true
    · simp [hk] at h
    · simp only [hk] at h
      simp only [List.cons_append, alookup, hk]
      exact alookup_snoc_ne k k' x hne r h

/-- entries below an existing dotted entry `k` are inserted into its sub-table -/
theorem insAll_push (td top : Bool) (k : Bytes) (acc : SItems) (hk : alookup k acc = none) :
    ∀ (es : List STriple) (sub : SItems),
      insAll td top (es.map (consK k)) (acc ++ [(k, .inl sub true true)])
        = (insAll true false es sub).map (fun sub' => acc ++ [(k, .inl sub' true true)])
  | [], sub => rfl
  | (path, key, v) :: rest, sub => by
    obtain ⟨h1, h2⟩ := alookup_snoc_none k (Val.inl sub true true) acc hk
    simp only [List.map_cons, consK, insAll, List.isEmpty_cons, Bool.and_false, Bool.false_and]
    rw [inlInsert, h1]
    simp only [Bool.not_true, Bool.false_eq_true, if_false]
    cases hs : inlInsert sub true path false key v with
    | none => rfl
    | some sub' =>
      simp only [h2]
      exact insAll_push td top k acc hk rest sub'

/-- the first entry below a fresh key `k` creates the dotted entry -/
theorem insAll_first (td top : Bool) (k : Bytes) (acc : SItems) (hk : alookup k acc = none)
    (es : List STriple) (hne : es ≠ []) :
    insAll td top (es.map (consK k)) acc
      = (insAll true false es []).map (fun sub' => acc ++ [(k, .inl sub' true true)]) := by
  cases es with
  | nil => exact absurd rfl hne
  | cons e rest =>
    obtain ⟨path, key, v⟩ := e
    simp only [List.map_cons, consK, insAll, List.isEmpty_cons, Bool.and_false, Bool.false_and]
    rw [inlInsert, hk]
    simp only []
    cases hs : inlInsert [] true path false key v with
    | none => rfl
    | some sub' => exact insAll_push td top k acc hk rest sub'

mutual
theorem sflat_ne : ∀ (its : SItems), its ≠ [] → RbL its → sflat its ≠ []
  | [], h, _ => absurd rfl h
  | (k, v) :: r, _, hr => by
    rw [RbL] at hr
    rw [sflat]
    intro e
    exact sflatV_ne k v hr.2.1 (List.append_eq_nil_iff.1 e).1
theorem sflatV_ne (k : Bytes) : ∀ (v : Val), RbV v → sflatV k v ≠ []
  | .inl sub imp true, h => by
    rw [RbV] at h
    obtain ⟨hne, hs⟩ := h.2 rfl
    rw [sflatV]
    simp only [if_true]
    intro e
    exact sflat_ne sub hne hs (List.map_eq_nil_iff.1 e)
  | .inl sub imp false, _ => by simp [sflatV]
  | .str _, _ => by simp [sflatV]
  | .int _, _ => by simp [sflatV]
  | .float _, _ => by simp [sflatV]
  | .bool _, _ => by simp [sflatV]
  | .dt _, _ => by simp [sflatV]
  | .arr _, _ => by simp [sflatV]
end

theorem insAll_leaf (td top : Bool) (hcons : td = !top) (k : Bytes) (v : Val) (acc : SItems) (hk : alookup k acc = none) :
    insAll td top [([], k, v)] acc = some (acc ++ [(k, v)]) := by
  simp only [insAll, List.isEmpty_nil, Bool.and_true]
  rw [inlInsert]
  have : (td == top) = false := by subst hcons; cases top <;> rfl
  simp [this, hk]

mutual
/-- **rebuild**: inserting the flattened entries of `its` into an accumulator without those keys
    appends `its` -/
theorem rebuild_list (td top : Bool) (hcons : td = !top) : ∀ (its : SItems), RbL its → ∀ (acc : SItems),
    (∀ k ∈ its.map Prod.fst, alookup k acc = none) → insAll td top (sflat its) acc = some (acc ++ its)
  | [], _, acc, _ => by simp [sflat, insAll]
  | (k, v) :: r, hr, acc, hfresh => by
    rw [RbL] at hr
    rw [sflat, insAll_append, rebuild_val td top hcons k v hr.2.1 acc (hfresh k (by simp))]
    simp only [Option.bind_some]
    rw [rebuild_list td top hcons r hr.2.2 (acc ++ [(k, v)])]
    · simp
    · intro k' hk'
      have hne : k ≠ k' := by intro e; subst e; exact hr.1 hk'
      exact alookup_snoc_ne k' k v hne acc (hfresh k' (by simp [hk']))
theorem rebuild_val (td top : Bool) (hcons : td = !top) (k : Bytes) : ∀ (v : Val), RbV v → ∀ (acc : SItems),
    alookup k acc = none → insAll td top (sflatV k v) acc = some (acc ++ [(k, v)])
  | .inl sub imp true, h, acc, hk => by
    rw [RbV] at h
    obtain ⟨hne, hs⟩ := h.2 rfl
    have himp := h.1
    subst himp
    rw [sflatV]
    simp only [if_true]
    rw [insAll_first td top k acc hk _ (sflat_ne sub hne hs),
      rebuild_list true false rfl sub hs [] (by intro k' _; rfl)]
    simp
  | .inl sub imp false, _, acc, hk => by rw [sflatV]; exact insAll_leaf td top hcons k _ acc hk
  | .str _, _, acc, hk => by rw [sflatV]; exact insAll_leaf td top hcons k _ acc hk
  | .int _, _, acc, hk => by rw [sflatV]; exact insAll_leaf td top hcons k _ acc hk
  | .float _, _, acc, hk => by rw [sflatV]; exact insAll_leaf td top hcons k _ acc hk
  | .bool _, _, acc, hk => by rw [sflatV]; exact insAll_leaf td top hcons k _ acc hk
  | .dt _, _, acc, hk => by rw [sflatV]; exact insAll_leaf td top hcons k _ acc hk
  | .arr _, _, acc, hk => by rw [sflatV]; exact insAll_leaf td top hcons k _ acc hk
end

/-- **the rebuild lemma** -/
theorem tableFromPairs_rebuild (its : SItems) (h : RbL its) : tableFromPairs (sflat its) [] = some its := by
  rw [tableFromPairs_insAll, rebuild_list false true rfl its h [] (by intro k _; rfl)]
  simp

/-! ### the shape is an invariant of `table_from_pairs` -/

theorem RbV_leaf (v : Val) (h : SLeaf v) : RbV v := by
  cases v with
  | inl sub imp dot =>
    obtain ⟨h1, h2⟩ := h sub imp dot rfl
    subst h1; subst h2; simp [RbV]
  | _ => simp [RbV]

theorem RbL_append (a b : SItems) :
    RbL (a ++ b) ↔ RbL a ∧ RbL b ∧ ∀ k ∈ a.map Prod.fst, k ∉ b.map Prod.fst := by
  induction a with
  | nil => simp [RbL]
  | cons x a ih =>
    obtain ⟨k, v⟩ := x
    simp only [List.cons_append, RbL, ih, List.map_append, List.mem_append, List.map_cons, List.mem_cons]
    constructor
    · rintro ⟨h1, h2, h3, h4, h5⟩
      refine ⟨⟨fun h => h1 (Or.inl h), h2, h3⟩, h4, ?_⟩
      rintro k' (rfl | hk')
      · exact fun h => h1 (Or.inr h)
      · exact h5 k' hk'
    · rintro ⟨⟨h1, h2, h3⟩, h4, h5⟩
      refine ⟨?_, h2, h3, h4, fun k' hk' => h5 k' (Or.inr hk')⟩
      rintro (h | h)
      · exact h1 h
      · exact h5 k (Or.inl rfl) h

theorem not_mem_of_alookup_none' (k : Bytes) : ∀ items : SItems, alookup k items = none →
    k ∉ items.map Prod.fst
  | [], _ => by simp
  | (k', v) :: r, h => by
    unfold alookup at h
    by_cases hk : (k' == k) = true
    · simp [hk] at h
    · simp only [hk] at h
      simp only [List.map_cons, List.mem_cons, not_or]
      exact ⟨fun e => hk (by simp [e]), not_mem_of_alookup_none' k r h⟩

theorem alookup_split' (k : Bytes) (v0 : Val) : ∀ items : SItems, alookup k items = some v0 →
    ∃ before after, items = before ++ (k, v0) :: after ∧ ∀ v', areplace k v' items = before ++ (k, v') :: after := by
  intro items
  induction items with
  | nil => intro h; simp [alookup] at h
  | cons x items ih =>
    obtain ⟨k', v⟩ := x
    intro h
    unfold alookup at h
    by_cases hk : (k' == k) = true
    · simp only [hk, if_true] at h
      injection h with h
      subst h
      have : k' = k := by simpa using hk
      subst this
      exact ⟨[], items, rfl, fun v' => by simp [areplace]⟩
    · simp only [hk] at h
      obtain ⟨before, after, e, hr⟩ := ih h
      refine ⟨(k', v) :: before, after, by simp [e], fun v' => ?_⟩
      simp only [areplace, hk]
      simp [hr v']

theorem inlInsert_ne : ∀ (path : List Bytes) (items items' : SItems) (dot pe : Bool) (key : Bytes) (v : Val),
    inlInsert items dot path pe key v = some items' → items' ≠ [] := by
  intro path items items' dot pe key v h
  cases path with
  | nil =>
    unfold inlInsert at h
    split at h
    · cases h
    · split at h
      · cases h
      · injection h with h; subst h; simp
  | cons k ks =>
    unfold inlInsert at h
    split at h
    · split at h
      · injection h with h; subst h; simp
      · cases h
    · rename_i sub imp d hl
      split at h
      · cases h
      · split at h
        · injection h with h; subst h
          obtain ⟨before, after, e, hrep⟩ := alookup_split' k _ items hl
          rw [hrep]; simp
        · cases h
    · cases h

/-- a successful insertion of a leaf keeps the shape -/
theorem inlInsert_Rb : ∀ (path : List Bytes) (items items' : SItems) (dot pe : Bool) (key : Bytes) (v : Val),
    inlInsert items dot path pe key v = some items' → RbL items → SLeaf v → RbL items' := by
  intro path
  induction path with
  | nil =>
    intro items items' dot pe key v h hd hv
    unfold inlInsert at h
    split at h
    · cases h
    · split at h
      · cases h
      · rename_i hl
        injection h with h; subst h
        rw [RbL_append]
        refine ⟨hd, by simp [RbL, RbV_leaf v hv], ?_⟩
        intro k hk hk'
        simp at hk'
        subst hk'
        exact not_mem_of_alookup_none' _ items hl hk
  | cons k ks ih =>
    intro items items' dot pe key v h hd hv
    unfold inlInsert at h
    split at h
    · rename_i hl
      split at h
      · rename_i sub hs
        injection h with h; subst h
        have hsub := ih [] sub true pe key v hs (by simp [RbL]) hv
        rw [RbL_append]
        refine ⟨hd, ?_, ?_⟩
        · simp only [RbL, List.map_nil, List.not_mem_nil, not_false_eq_true, and_true, true_and]
          show RbV (.inl sub true true)
          unfold RbV; exact ⟨rfl, fun _ => ⟨inlInsert_ne _ _ _ _ _ _ _ hs, hsub⟩⟩
        · intro k' hk' hk''
          simp at hk''
          subst hk''
          exact not_mem_of_alookup_none' _ items hl hk'
      · cases h
    · rename_i sub imp d hl
      split at h
      · cases h
      · rename_i himp
        have himp' : imp = true := by simpa using himp
        subst himp'
        split at h
        · rename_i sub' hs
          injection h with h; subst h
          obtain ⟨before, after, e, hrep⟩ := alookup_split' k _ items hl
          have hd0 := hd
          rw [e, RbL_append] at hd0
          obtain ⟨hb, ha, hba⟩ := hd0
          rw [RbL] at ha
          have hav := ha.2.1
          unfold RbV at hav
          have hd1 : d = true := hav.1.symm
          subst hd1
          have hsubRb : RbL sub := (hav.2 rfl).2
          have hsub' := ih sub sub' true pe key v hs hsubRb hv
          rw [hrep, RbL_append]
          refine ⟨hb, ?_, ?_⟩
          · rw [RbL]
            refine ⟨ha.1, ?_, ha.2.2⟩
            unfold RbV; exact ⟨rfl, fun _ => ⟨inlInsert_ne _ _ _ _ _ _ _ hs, hsub'⟩⟩
          · simpa using hba
        · cases h
    · cases h

/-- `table_from_pairs` on leaves keeps the shape -/
theorem tableFromPairs_Rb : ∀ (l : List STriple) (acc its : SItems), tableFromPairs l acc = some its →
    RbL acc → (∀ e ∈ l, SLeaf e.2.2) → RbL its
  | [], acc, its, h, ha, _ => by
    simp only [tableFromPairs] at h; injection h with h; subst h; exact ha
  | (path, key, v) :: rest, acc, its, h, ha, hl => by
    unfold tableFromPairs at h
    split at h
    · rename_i acc' hi
      exact tableFromPairs_Rb rest acc' its h (inlInsert_Rb _ _ _ _ _ _ _ hi ha (hl (path, key, v) (List.mem_cons_self ..)))
        (fun e he => hl e (List.mem_cons_of_mem _ he))
    · cases h

theorem sflatV_leaf (k : Bytes) (v : Val) (h : SLeaf v) : sflatV k v = [([], k, v)] := by
  cases v with
  | inl sub imp dot =>
    obtain ⟨_, h2⟩ := h sub imp dot rfl
    subst h2; simp [sflatV]
  | _ => simp [sflatV]

/-- non-vacuity: `{a.b = 1, c = 2, a.d.e = 3}` as `table_from_pairs` builds it -/
example : tableFromPairs (sflat [([0x61], .inl [([0x62], .int 1), ([0x64], .inl [([0x65], .int 3)] true true)] true true),
    ([0x63], .int 2)]) [] = some [([0x61], .inl [([0x62], .int 1), ([0x64], .inl [([0x65], .int 3)] true true)] true true),
    ([0x63], .int 2)] := by
  apply tableFromPairs_rebuild
  simp [RbL, RbV]

/-- non-vacuity of `inlInsert_Rb` / `tableFromPairs_Rb`: `a.b = 1`, then `a.c = 2` into the table built so far -/
example : (inlInsert [([0x61], .inl [([0x62], .int 1)] true true)] false [[0x61]] false [0x63] (.int 2)).isSome = true := by
  decide +kernel
example : RbL [([0x61], .inl [([0x62], .int 1)] true true)] := by simp [RbL, RbV]
example : SLeaf (.int 2) := by intro sub imp dot e; cases e
example : (tableFromPairs [([[0x61]], [0x62], .int 1), ([], [0x63], .int 2), ([[0x61]], [0x64], .inl [] false false)] []).isSome = true := by
  decide +kernel

end TomlVerif.Lemmas.Tiling03More.VS
