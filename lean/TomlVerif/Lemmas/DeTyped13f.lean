import TomlVerif.Lemmas.DeTyped13e
/-! Lemmas for Props/C13Typed, part 6: `sorted_ty` — for every target type, `impl Deserializer for toml::Value` (without
    the trailing-element check) on a well-formed tree and on the same tree with every table in key order returns the
    same value whenever it succeeds on both. -/
namespace TomlVerif.Lemmas.DeTyped13
open TomlVerif TomlVerif.Model TomlVerif.Model.TomlValue TomlVerif.Model.DeRoutes
open TomlVerif.Model.DeTyped TomlVerif.Lemmas.DeRoutes13 TomlVerif.Lemmas.RoundTrip17

theorem unit_result {b : Bool} {n : Bytes} : ∀ d, (if b then (.ok (.vUnit n) : R Dec) else fail) = .ok d → d = .vUnit n := by
  intro d h
  cases b
  · exact (fail_ne_ok (by simpa using h)).elim
  · simp at h; cases h; rfl

theorem wfPs_values (es : List (Bytes × TV)) (h : WfPs es) : WfVs (es.map Prod.snd) := by
  rw [wfVs_iff]
  intro v hv
  obtain ⟨e, he, rfl⟩ := List.mem_map.1 hv
  exact (wfPs_iff es).1 h e he

theorem map_snd_place (es : List (Bytes × TV)) :
    (es.map fun e => (e.1, P e.2)).map Prod.snd = (es.map Prod.snd).map P := by
  simp

mutual
theorem sorted_ty : ∀ (ty : Ty) (v : TV), WfTV v →
    Agree (decodeValue valueLenient .sorted ty v) (decodeValue valueLenient .sorted ty (P v))
  | .bool, v, _ => by unfold decodeValue; exact scalar_place _ v
  | .int _ _, v, _ => by unfold decodeValue; exact scalar_place _ v
  | .f64, v, _ => by unfold decodeValue; exact scalar_place _ v
  | .f32, v, _ => by unfold decodeValue; exact scalar_place _ v
  | .string, v, _ => by unfold decodeValue; exact scalar_place _ v
  | .char, v, _ => by unfold decodeValue; exact scalar_place _ v
  | .unit, v, _ => by unfold decodeValue; exact scalar_place _ v
  | .datetime, v, h => by
    unfold decodeValue
    cases v with
    | tbl es =>
      have := dt_place .datetime (.tbl es) h
      rw [place_tbl] at this ⊢
      simpa only [lenient_check, Bool.false_and, Bool.false_eq_true, if_false] using this
    | arr l =>
      have := dt_place .datetime (.arr l) h
      rw [place_arr] at this ⊢
      exact this
    | _ => exact agree_refl _
  | .date, v, h => by
    unfold decodeValue
    cases v with
    | tbl es =>
      have := dt_place .date (.tbl es) h
      rw [place_tbl] at this ⊢
      simpa only [lenient_check, Bool.false_and, Bool.false_eq_true, if_false] using this
    | arr l =>
      have := dt_place .date (.arr l) h
      rw [place_arr] at this ⊢
      exact this
    | _ => exact agree_refl _
  | .time, v, h => by
    unfold decodeValue
    cases v with
    | tbl es =>
      have := dt_place .time (.tbl es) h
      rw [place_tbl] at this ⊢
      simpa only [lenient_check, Bool.false_and, Bool.false_eq_true, if_false] using this
    | arr l =>
      have := dt_place .time (.arr l) h
      rw [place_arr] at this ⊢
      exact this
    | _ => exact agree_refl _
  | .value, v, h => by
    unfold decodeValue
    rw [visit_place _ v h]
    exact agree_refl _
  | .ignored, v, _ => by unfold decodeValue; exact agree_refl _
  | .option t, v, h => by unfold decodeValue; exact agree_rmap _ (sorted_ty t v h)
  | .newtype t, v, h => by unfold decodeValue; exact agree_rmap _ (sorted_ty t v h)
  | .seq t, v, h => by
    unfold decodeValue
    cases v with
    | arr l =>
      rw [WfTV] at h
      rw [place_arr]
      exact agree_rmap _ (agree_mapE_map _ P l fun a ha => sorted_ty t a ((wfVs_iff l).1 h a ha))
    | tbl es => rw [place_tbl]; exact agree_fail_left _
    | _ => exact agree_fail_left _
  | .tuple ts, v, h => by
    unfold decodeValue
    cases v with
    | arr l =>
      rw [WfTV] at h
      rw [place_arr]
      simp only [lenient_check, Bool.false_and, Bool.false_eq_true, if_false]
      exact agree_rmap _ (sorted_tys ts l h)
    | tbl es => rw [place_tbl]; exact agree_fail_left _
    | _ => exact agree_fail_left _
  | .map t, v, h => by
    unfold decodeValue
    cases v with
    | tbl es =>
      rw [WfTV] at h
      rw [place_tbl]
      simp only [valueMapEntries]
      exact agree_map_target (decodeValue valueLenient .sorted t) es h.2.1
        (fun e he => sorted_ty t e.2 ((wfPs_iff es).1 h.1 e he))
    | arr l => rw [place_arr]; exact agree_fail_left _
    | dt d => exact agree_refl _
    | _ => exact agree_fail_left _
  | .struct fs, v, h => by
    unfold decodeValue
    cases v with
    | tbl es =>
      rw [WfTV] at h
      rw [place_tbl]
      simp only [valueMapEntries]
      exact agree_ite_fail (agree_rmap _ (sorted_fields fs es h.1 h.2.1))
    | arr l =>
      rw [WfTV] at h
      rw [place_arr]
      simp only [valueMapEntries, lenient_check, Bool.false_and, Bool.false_eq_true, if_false]
      exact agree_rmap _ (sorted_fields_seq fs l h)
    | dt d => exact agree_refl _
    | _ => exact agree_fail_left _
  | .enum vs, v, h => by
    unfold decodeValue
    cases v with
    | tbl es =>
      rw [WfTV] at h
      rw [place_tbl]
      match es, h with
      | [], _ => rw [S_nil]; exact agree_refl _
      | [(k, p)], h =>
        rw [S_single]
        rw [WfPs] at h
        exact sorted_variants vs k p h.1.1
      | _ :: _ :: _, _ => exact agree_fail_left _
    | arr l => rw [place_arr]; exact agree_refl _
    | _ => exact agree_refl _
theorem sorted_tys : ∀ (ts : Tys) (l : List TV), WfVs l →
    Agree (decodeValueTys valueLenient .sorted ts l) (decodeValueTys valueLenient .sorted ts (l.map P))
  | .nil, l, _ => by unfold decodeValueTys; exact agree_refl _
  | .cons t r, [], _ => by rw [List.map_nil]; exact agree_refl _
  | .cons t r, i :: l, h => by
    rw [WfVs] at h
    rw [List.map_cons]
    unfold decodeValueTys
    exact agree_rcons (sorted_ty t i h.1) (sorted_tys r l h.2)
theorem sorted_fields : ∀ (fs : Fields) (es : List (Bytes × TV)), WfPs es → (es.map Prod.fst).Nodup →
    Agree (decodeValueFields valueLenient .sorted fs es) (decodeValueFields valueLenient .sorted fs (S es))
  | .nil, es, _, _ => by unfold decodeValueFields; exact agree_refl _
  | .cons name t dflt r, es, hp, hn => by
    unfold decodeValueFields
    refine agree_rcons (agree_rmap _ ?_) (sorted_fields r es hp hn)
    rw [alookup_S name es hn]
    cases hl : alookup name es with
    | none => exact agree_refl _
    | some i =>
      obtain ⟨k', hm⟩ := alookup_mem name es i hl
      exact sorted_ty t i ((wfPs_iff es).1 hp _ hm)
theorem sorted_fields_seq : ∀ (fs : Fields) (l : List TV), WfVs l →
    Agree (decodeValueFieldsSeq valueLenient .sorted fs l) (decodeValueFieldsSeq valueLenient .sorted fs (l.map P))
  | .nil, l, _ => by unfold decodeValueFieldsSeq; exact agree_refl _
  | .cons name t dflt r, [], _ => by rw [List.map_nil]; exact agree_refl _
  | .cons name t dflt r, i :: l, h => by
    rw [WfVs] at h
    rw [List.map_cons]
    unfold decodeValueFieldsSeq
    exact agree_rcons (agree_rmap _ (sorted_ty t i h.1)) (sorted_fields_seq r l h.2)
theorem sorted_variants : ∀ (vs : Variants) (k : Bytes) (p : TV), WfTV p →
    Agree (decodeValueVariants valueLenient .sorted vs k p) (decodeValueVariants valueLenient .sorted vs k (P p))
  | .nil, k, p, _ => by unfold decodeValueVariants; exact agree_refl _
  | .cons name s r, k, p, h => by
    unfold decodeValueVariants
    exact agree_ite (sorted_shape s name p h) (sorted_variants r k p h)
theorem sorted_shape : ∀ (s : Shape) (n : Bytes) (p : TV), WfTV p →
    Agree (decodeValueShape valueLenient .sorted s n p) (decodeValueShape valueLenient .sorted s n (P p))
  | .unit, n, p, _ => by
    unfold decodeValueShape
    cases p with
    | arr l => rw [place_arr]; exact agree_const (.vUnit n) unit_result unit_result
    | tbl es => rw [place_tbl]; exact agree_const (.vUnit n) unit_result unit_result
    | _ => exact agree_refl _
  | .newtype t, n, p, h => by unfold decodeValueShape; exact agree_rmap _ (sorted_ty t p h)
  | .tuple ts, n, p, h => by
    unfold decodeValueShape
    cases p with
    | arr l =>
      rw [WfTV] at h
      rw [place_arr]
      exact agree_ite_else_fail (agree_rmap _ (sorted_tys ts l h))
    | tbl es =>
      rw [WfTV] at h
      rw [place_tbl]
      simp only []
      by_cases hc1 : (indexKeys 0 es && es.length == ts.length) = true
      · by_cases hc2 : (indexKeys 0 (S es) && (S es).length == ts.length) = true
        · rw [if_pos hc1, if_pos hc2]
          simp only [Bool.and_eq_true] at hc1 hc2
          rw [index_same_order es h.2.1 hc1.1 hc2.1, map_snd_place]
          exact agree_rmap _ (sorted_tys ts _ (wfPs_values es h.1))
        · rw [if_neg hc2]; exact agree_fail_right _
      · rw [if_neg hc1]; exact agree_fail_left _
    | _ => exact agree_refl _
  | .struct fs, n, p, h => by
    unfold decodeValueShape
    cases p with
    | tbl es =>
      rw [WfTV] at h
      rw [place_tbl]
      simp only [valueMapEntries]
      exact agree_ite_fail (agree_rmap _ (sorted_fields fs es h.1 h.2.1))
    | arr l =>
      rw [WfTV] at h
      rw [place_arr]
      simp only [valueMapEntries, lenient_check, Bool.false_and, Bool.false_eq_true, if_false]
      exact agree_rmap _ (sorted_fields_seq fs l h)
    | dt d => exact agree_refl _
    | _ => exact agree_fail_left _
end

end TomlVerif.Lemmas.DeTyped13
