import TomlVerif.Model.Edit
/-! Lemmas about `Model/Edit.lean`: the frame property of path updates, the arena only grows. -/
namespace TomlVerif.Lemmas.Edit08
open TomlVerif TomlVerif.Model TomlVerif.Model.Cst TomlVerif.Model.Edit

/-- two segments that cannot select the same child: in a table-like (selection by key) and in an
    array-like (selection by index) -/
def SegDiffer (a b : Seg) : Prop :=
  (a.key = none ∨ a.key ≠ b.key) ∧ (a.idx = none ∨ a.idx ≠ b.idx)

/-- the paths share a (possibly empty) common prefix and then continue with differing segments:
    neither leads into the subtree of the other -/
inductive Diverge : List Seg → List Seg → Prop
  | here {a b : Seg} {p q : List Seg} : SegDiffer a b → Diverge (a :: p) (b :: q)
  | step {a : Seg} {p q : List Seg} : Diverge p q → Diverge (a :: p) (a :: q)

theorem diverge_cons {a b : Seg} {p q : List Seg} (h : Diverge (a :: p) (b :: q)) :
    SegDiffer a b ∨ (a = b ∧ Diverge p q) := by
  cases h with
  | here h => exact .inl h
  | step h => exact .inr ⟨rfl, h⟩

mutual
theorem frame_val (u : Upd) : ∀ (p : List Seg) (v v' : CVal), updVal u p v = some v' →
    ∀ q, Diverge p q → lookupVal q v' = lookupVal q v
  | [], _, _, _, _, hd => by cases hd
  | _ :: _, .scalar _ _ _, _, h, _, _ => by simp [updVal] at h
  | s :: r, .arr items tr c d sp, v', h, q, hd => by
    cases q with
    | nil => cases hd
    | cons b q =>
      simp only [updVal] at h
      cases hi : s.idx with
      | none => simp [hi] at h
      | some i =>
        simp only [hi] at h
        cases hu : updElems u i r items with
        | none => simp [hu] at h
        | some items' =>
          simp only [hu, Option.map_some, Option.some.injEq] at h
          subst h
          have ih := frame_elems u i r items items' hu
          simp only [lookupVal]
          cases hb : b.idx with
          | none => rfl
          | some j =>
            simp only []
            rcases diverge_cons hd with hdif | ⟨hab, hd'⟩
            · have : j ≠ i := by
                rcases hdif.2 with h0 | h0
                · simp [hi] at h0
                · intro e; apply h0; rw [hi, hb, e]
              exact ih.1 j q this
            · subst hab
              have : j = i := by rw [hi] at hb; exact (Option.some.inj hb).symm
              subst this
              exact ih.2 q hd'
  | s :: r, .inl items pre imp dot d sp, v', h, q, hd => by
    cases q with
    | nil => cases hd
    | cons b q =>
      simp only [updVal] at h
      cases hi : s.key with
      | none => simp [hi] at h
      | some k =>
        simp only [hi] at h
        cases hu : updKvs u k r items with
        | none => simp [hu] at h
        | some items' =>
          simp only [hu, Option.map_some, Option.some.injEq] at h
          subst h
          have ih := frame_kvs u k r items items' hu
          simp only [lookupVal]
          cases hb : b.key with
          | none => rfl
          | some j =>
            simp only []
            rcases diverge_cons hd with hdif | ⟨hab, hd'⟩
            · have : j ≠ k := by
                rcases hdif.1 with h0 | h0
                · simp [hi] at h0
                · intro e; apply h0; rw [hi, hb, e]
              exact ih.1 j q this
            · subst hab
              have : j = k := by rw [hi] at hb; exact (Option.some.inj hb).symm
              subst this
              exact ih.2 q hd'
theorem frame_elems (u : Upd) : ∀ (i : Nat) (r : List Seg) (items items' : List CVal),
    updElems u i r items = some items' →
    (∀ j q, j ≠ i → lookupElems j q items' = lookupElems j q items) ∧
    (∀ q, Diverge r q → lookupElems i q items' = lookupElems i q items)
  | _, _, [], _, h => by simp [updElems] at h
  | 0, r, v :: rest, items', h => by
    simp only [updElems] at h
    cases hu : updVal u r v with
    | none => simp [hu] at h
    | some v' =>
      simp only [hu, Option.map_some, Option.some.injEq] at h
      subst h
      refine ⟨?_, ?_⟩
      · intro j q hj
        cases j with
        | zero => exact absurd rfl hj
        | succ j => simp [lookupElems]
      · intro q hd
        simp only [lookupElems]
        exact frame_val u r v v' hu q hd
  | i + 1, r, v :: rest, items', h => by
    simp only [updElems] at h
    cases hu : updElems u i r rest with
    | none => simp [hu] at h
    | some rest' =>
      simp only [hu, Option.map_some, Option.some.injEq] at h
      subst h
      have ih := frame_elems u i r rest rest' hu
      refine ⟨?_, ?_⟩
      · intro j q hj
        cases j with
        | zero => simp [lookupElems]
        | succ j =>
          simp only [lookupElems]
          exact ih.1 j q (by omega)
      · intro q hd
        simp only [lookupElems]
        exact ih.2 q hd
theorem frame_kvs (u : Upd) (k : Bytes) : ∀ (r : List Seg) (items items' : List (CKey × CVal)),
    updKvs u k r items = some items' →
    (∀ j q, j ≠ k → lookupKvs j q items' = lookupKvs j q items) ∧
    (∀ q, Diverge r q → lookupKvs k q items' = lookupKvs k q items)
  | _, [], _, h => by simp [updKvs] at h
  | r, (k', v) :: rest, items', h => by
    simp only [updKvs] at h
    by_cases hk : (k'.key == k) = true
    · simp only [hk, if_true] at h
      cases hu : updVal u r v with
      | none => simp [hu] at h
      | some v' =>
        simp only [hu, Option.map_some, Option.some.injEq] at h
        subst h
        have hkk : k'.key = k := by simpa using hk
        refine ⟨?_, ?_⟩
        · intro j q hj
          have : (k'.key == j) = false := by
            simp only [beq_eq_false_iff_ne, ne_eq]; intro e; exact hj (e ▸ hkk.symm ▸ rfl)
          simp [lookupKvs, this]
        · intro q hd
          simp only [lookupKvs, hk, if_true]
          exact frame_val u r v v' hu q hd
    · have hk' : (k'.key == k) = false := by simpa using hk
      simp only [hk', Bool.false_eq_true, if_false] at h
      cases hu : updKvs u k r rest with
      | none => simp [hu] at h
      | some rest' =>
        simp only [hu, Option.map_some, Option.some.injEq] at h
        subst h
        have ih := frame_kvs u k r rest rest' hu
        refine ⟨?_, ?_⟩
        · intro j q hj
          simp only [lookupKvs]
          split
          · rfl
          · exact ih.1 j q hj
        · intro q hd
          simp only [lookupKvs, hk', Bool.false_eq_true, if_false]
          exact ih.2 q hd
end

mutual
theorem frame_tbl (u : Upd) : ∀ (p : List Seg) (t t' : CTbl), updTbl u p t = some t' →
    ∀ q, Diverge p q → lookupTbl q t' = lookupTbl q t
  | [], _, _, _, _, hd => by cases hd
  | s :: r, .mk items imp dot ps dec sp, t', h, q, hd => by
    cases q with
    | nil => cases hd
    | cons b q =>
      simp only [updTbl] at h
      cases hi : s.key with
      | none => simp [hi] at h
      | some k =>
        simp only [hi] at h
        cases hu : updItems u k r items with
        | none => simp [hu] at h
        | some items' =>
          simp only [hu, Option.map_some, Option.some.injEq] at h
          subst h
          have ih := frame_items u k r items items' hu
          simp only [lookupTbl]
          cases hb : b.key with
          | none => rfl
          | some j =>
            simp only []
            rcases diverge_cons hd with hdif | ⟨hab, hd'⟩
            · have : j ≠ k := by
                rcases hdif.1 with h0 | h0
                · simp [hi] at h0
                · intro e; apply h0; rw [hi, hb, e]
              exact ih.1 j q this
            · subst hab
              have : j = k := by rw [hi] at hb; exact (Option.some.inj hb).symm
              subst this
              exact ih.2 q hd'
theorem frame_items (u : Upd) (k : Bytes) : ∀ (r : List Seg) (items items' : List (CKey × CItem)),
    updItems u k r items = some items' →
    (∀ j q, j ≠ k → lookupItems j q items' = lookupItems j q items) ∧
    (∀ q, Diverge r q → lookupItems k q items' = lookupItems k q items)
  | _, [], _, h => by simp [updItems] at h
  | r, (k', it) :: rest, items', h => by
    simp only [updItems] at h
    by_cases hk : (k'.key == k) = true
    · simp only [hk, if_true] at h
      cases hu : updItem u r it with
      | none => simp [hu] at h
      | some it' =>
        simp only [hu, Option.map_some, Option.some.injEq] at h
        subst h
        have hkk : k'.key = k := by simpa using hk
        refine ⟨?_, ?_⟩
        · intro j q hj
          have : (k'.key == j) = false := by
            simp only [beq_eq_false_iff_ne, ne_eq]; intro e; exact hj (e ▸ hkk.symm ▸ rfl)
          simp [lookupItems, this]
        · intro q hd
          simp only [lookupItems, hk, if_true]
          exact frame_item u r it it' hu q hd
    · have hk' : (k'.key == k) = false := by simpa using hk
      simp only [hk', Bool.false_eq_true, if_false] at h
      cases hu : updItems u k r rest with
      | none => simp [hu] at h
      | some rest' =>
        simp only [hu, Option.map_some, Option.some.injEq] at h
        subst h
        have ih := frame_items u k r rest rest' hu
        refine ⟨?_, ?_⟩
        · intro j q hj
          simp only [lookupItems]
          split
          · rfl
          · exact ih.1 j q hj
        · intro q hd
          simp only [lookupItems, hk', Bool.false_eq_true, if_false]
          exact ih.2 q hd
theorem frame_item (u : Upd) : ∀ (r : List Seg) (it it' : CItem), updItem u r it = some it' →
    ∀ q, Diverge r q → lookupItem q it' = lookupItem q it
  | r, .value v, it', h, q, hd => by
    simp only [updItem] at h
    cases hu : updVal u r v with
    | none => simp [hu] at h
    | some v' =>
      simp only [hu, Option.map_some, Option.some.injEq] at h
      subst h
      simp only [lookupItem]
      exact frame_val u r v v' hu q hd
  | r, .table t, it', h, q, hd => by
    simp only [updItem] at h
    cases hu : updTbl u r t with
    | none => simp [hu] at h
    | some t' =>
      simp only [hu, Option.map_some, Option.some.injEq] at h
      subst h
      simp only [lookupItem]
      exact frame_tbl u r t t' hu q hd
  | [], .aot _ _, _, _, _, hd => by cases hd
  | s :: r, .aot ts sp, it', h, q, hd => by
    cases q with
    | nil => cases hd
    | cons b q =>
      simp only [updItem] at h
      cases hi : s.idx with
      | none => simp [hi] at h
      | some i =>
        simp only [hi] at h
        cases hu : updNth u i r ts with
        | none => simp [hu] at h
        | some ts' =>
          simp only [hu, Option.map_some, Option.some.injEq] at h
          subst h
          have ih := frame_nth u i r ts ts' hu
          simp only [lookupItem]
          cases hb : b.idx with
          | none => rfl
          | some j =>
            simp only []
            rcases diverge_cons hd with hdif | ⟨hab, hd'⟩
            · have : j ≠ i := by
                rcases hdif.2 with h0 | h0
                · simp [hi] at h0
                · intro e; apply h0; rw [hi, hb, e]
              exact ih.1 j q this
            · subst hab
              have : j = i := by rw [hi] at hb; exact (Option.some.inj hb).symm
              subst this
              exact ih.2 q hd'
theorem frame_nth (u : Upd) : ∀ (i : Nat) (r : List Seg) (ts ts' : List CTbl),
    updNth u i r ts = some ts' →
    (∀ j q, j ≠ i → lookupNth j q ts' = lookupNth j q ts) ∧
    (∀ q, Diverge r q → lookupNth i q ts' = lookupNth i q ts)
  | _, _, [], _, h => by simp [updNth] at h
  | 0, r, t :: rest, ts', h => by
    simp only [updNth] at h
    cases hu : updTbl u r t with
    | none => simp [hu] at h
    | some t' =>
      simp only [hu, Option.map_some, Option.some.injEq] at h
      subst h
      refine ⟨?_, ?_⟩
      · intro j q hj
        cases j with
        | zero => exact absurd rfl hj
        | succ j => simp [lookupNth]
      · intro q hd
        simp only [lookupNth]
        exact frame_tbl u r t t' hu q hd
  | i + 1, r, t :: rest, ts', h => by
    simp only [updNth] at h
    cases hu : updNth u i r rest with
    | none => simp [hu] at h
    | some rest' =>
      simp only [hu, Option.map_some, Option.some.injEq] at h
      subst h
      have ih := frame_nth u i r rest rest' hu
      refine ⟨?_, ?_⟩
      · intro j q hj
        cases j with
        | zero => simp [lookupNth]
        | succ j =>
          simp only [lookupNth]
          exact ih.1 j q (by omega)
      · intro q hd
        simp only [lookupNth]
        exact ih.2 q hd
end

/-! ### the arena only grows; text inside the old arena is unchanged -/

theorem allocAll_prefix : ∀ (ts : List Bytes) (inp : Bytes), ∃ x, (allocAll inp ts).1 = inp ++ x
  | [], inp => ⟨[], by simp [allocAll]⟩
  | t :: r, inp => by
    obtain ⟨x, hx⟩ := allocAll_prefix r (inp ++ t)
    exact ⟨t ++ x, by simp [allocAll, mkRaw, hx]⟩

theorem applyOp_arena (st st' : St) (op : Op) (p : List Seg) (h : applyOp st op p = some st') :
    ∃ x, st'.inp = st.inp ++ x := by
  unfold applyOp at h
  cases op with
  | tpush =>
    obtain ⟨x, hm, rfl⟩ := Option.map_eq_some_iff.mp h
    unfold tpushUpd at hm
    split at hm
    · obtain ⟨r, _, rfl⟩ := Option.map_eq_some_iff.mp hm
      exact allocAll_prefix _ _
    · cases hm
  | mv k p2 =>
    obtain ⟨r, _, rfl⟩ := Option.map_eq_some_iff.mp h
    exact allocAll_prefix _ _
  | set k v | del k | newt k | viv k1 k2 v | sort | fmt | push v | ains i v | arepl i v | adel i
  | tdel i | inl k | tbl k | aot2arr k | arr2aot k =>
    obtain ⟨r, _, rfl⟩ := Option.map_eq_some_iff.mp h
    exact allocAll_prefix _ _

theorem slice_append (inp x : Bytes) (a b : Nat) (hb : b ≤ inp.length) :
    Encode.slice (inp ++ x) a b = Encode.slice inp a b := by
  unfold Encode.slice
  by_cases hab : a ≤ b
  · rw [List.drop_append_of_le_length (by omega)]
    rw [List.take_append_of_le_length (by simp; omega)]
  · have : b - a = 0 := by omega
    simp [this]

/-! ### erasure of the entry operations -/

/-- `IndexMap::insert` on the semantic association list, in the shape of `cinsert` -/
def ainsert {α} (k : Bytes) (v : α) : List (Bytes × α) → List (Bytes × α)
  | [] => [(k, v)]
  | (k', v') :: r => if k' == k then (k, v) :: r else (k', v') :: ainsert k v r

theorem areplace_of_lookup_none {α} (k : Bytes) (v : α) : ∀ l : List (Bytes × α),
    alookup k l = none → ainsert k v l = l ++ [(k, v)]
  | [], _ => rfl
  | (k', v') :: r, h => by
    by_cases hk : (k' == k) = true
    · simp [alookup, hk] at h
    · have hk' : (k' == k) = false := by simpa using hk
      simp only [alookup, hk', Bool.false_eq_true, if_false] at h
      simp [ainsert, hk', areplace_of_lookup_none k v r h]

theorem ainsert_of_lookup_some {α} (k : Bytes) (v : α) : ∀ l : List (Bytes × α),
    alookup k l ≠ none → ainsert k v l = areplace k v l
  | [], h => by simp [alookup] at h
  | (k', v') :: r, h => by
    by_cases hk : (k' == k) = true
    · have : k' = k := by simpa using hk
      subst this
      simp [ainsert, areplace]
    · have hk' : (k' == k) = false := by simpa using hk
      simp only [alookup, hk', Bool.false_eq_true, if_false] at h
      simp [ainsert, areplace, hk', ainsert_of_lookup_some k v r h]

/-- `ainsert` is `Tree.aset` (`IndexMap::insert`: replace in place or append) -/
theorem ainsert_eq_aset {α} (k : Bytes) (v : α) (l : List (Bytes × α)) : ainsert k v l = aset k v l := by
  unfold aset
  cases h : alookup k l with
  | none => exact areplace_of_lookup_none k v l h
  | some x => exact ainsert_of_lookup_some k v l (by simp [h])

theorem erase_cinsert_items (k : CKey) (it : CItem) : ∀ l : List (CKey × CItem),
    eraseItems (cinsert k it l) = aset k.key (eraseItem it) (eraseItems l) := by
  intro l
  rw [← ainsert_eq_aset]
  induction l with
  | nil => simp [cinsert, eraseItems, ainsert]
  | cons x r ih =>
    obtain ⟨k', v'⟩ := x
    by_cases hk : (k'.key == k.key) = true
    · simp [cinsert, eraseItems, ainsert, hk]
    · have hk' : (k'.key == k.key) = false := by simpa using hk
      simp [cinsert, eraseItems, ainsert, hk', ih]

theorem erase_cinsert_kvs (k : CKey) (v : CVal) : ∀ l : List (CKey × CVal),
    eraseKvs (cinsert k v l) = aset k.key (eraseVal v) (eraseKvs l) := by
  intro l
  rw [← ainsert_eq_aset]
  induction l with
  | nil => simp [cinsert, eraseKvs, ainsert]
  | cons x r ih =>
    obtain ⟨k', v'⟩ := x
    by_cases hk : (k'.key == k.key) = true
    · simp [cinsert, eraseKvs, ainsert, hk]
    · have hk' : (k'.key == k.key) = false := by simpa using hk
      simp [cinsert, eraseKvs, ainsert, hk', ih]

theorem erase_cerase_items (k : Bytes) : ∀ l : List (CKey × CItem),
    eraseItems (cerase k l) = aerase k (eraseItems l)
  | [] => by simp [cerase, eraseItems, aerase]
  | (k', v') :: r => by
    by_cases hk : (k'.key == k) = true
    · simp [cerase, eraseItems, aerase, hk]
    · have hk' : (k'.key == k) = false := by simpa using hk
      simp [cerase, eraseItems, aerase, hk', erase_cerase_items k r]

theorem erase_cerase_kvs (k : Bytes) : ∀ l : List (CKey × CVal),
    eraseKvs (cerase k l) = aerase k (eraseKvs l)
  | [] => by simp [cerase, eraseKvs, aerase]
  | (k', v') :: r => by
    by_cases hk : (k'.key == k) = true
    · simp [cerase, eraseKvs, aerase, hk]
    · have hk' : (k'.key == k) = false := by simpa using hk
      simp [cerase, eraseKvs, aerase, hk', erase_cerase_kvs k r]

theorem erase_setDecor (v : CVal) (d : Decor) : eraseVal (v.setDecor d) = eraseVal v := by
  cases v <;> simp [CVal.setDecor, eraseVal]

theorem erase_fmtItems : ∀ l : List (CKey × CItem), eraseItems (fmtItems l) = eraseItems l
  | [] => rfl
  | (k, .value v) :: r => by simp [fmtItems, eraseItems, eraseItem, clearKey, erase_setDecor, erase_fmtItems r]
  | (k, .table t) :: r => by simp [fmtItems, eraseItems, erase_fmtItems r]
  | (k, .aot ts sp) :: r => by simp [fmtItems, eraseItems, erase_fmtItems r]

theorem erase_fmtKvs : ∀ l : List (CKey × CVal), eraseKvs (fmtKvs l) = eraseKvs l
  | [] => rfl
  | (k, v) :: r => by simp [fmtKvs, eraseKvs, clearKey, erase_setDecor, erase_fmtKvs r]

theorem erase_fmtElems (sp : Raw) : ∀ (l : List CVal) (b : Bool), eraseVals (fmtElems sp l b) = eraseVals l
  | [], _ => rfl
  | v :: r, b => by simp [fmtElems, eraseVals, erase_setDecor, erase_fmtElems sp r false]

theorem eraseVals_append : ∀ (l m : List CVal), eraseVals (l ++ m) = eraseVals l ++ eraseVals m
  | [], m => rfl
  | v :: r, m => by simp [eraseVals, eraseVals_append r m]

theorem eraseTbls_append : ∀ (l m : List CTbl), eraseTbls (l ++ m) = eraseTbls l ++ eraseTbls m
  | [], m => rfl
  | v :: r, m => by simp [eraseTbls, eraseTbls_append r m]

theorem eraseVals_insertAt (x : CVal) : ∀ (i : Nat) (l : List CVal),
    eraseVals (insertAt x i l) = insertAt (eraseVal x) i (eraseVals l)
  | 0, l => by simp [insertAt, eraseVals]
  | _ + 1, [] => by simp [insertAt, eraseVals]
  | i + 1, y :: r => by simp [insertAt, eraseVals, eraseVals_insertAt x i r]

theorem eraseVals_removeAt : ∀ (i : Nat) (l : List CVal),
    eraseVals (removeAt i l) = removeAt i (eraseVals l)
  | _, [] => by simp [removeAt, eraseVals]
  | 0, _ :: r => by simp [removeAt, eraseVals]
  | i + 1, y :: r => by simp [removeAt, eraseVals, eraseVals_removeAt i r]

theorem eraseTbls_removeAt : ∀ (i : Nat) (l : List CTbl),
    eraseTbls (removeAt i l) = removeAt i (eraseTbls l)
  | _, [] => by simp [removeAt, eraseTbls]
  | 0, _ :: r => by simp [removeAt, eraseTbls]
  | i + 1, y :: r => by simp [removeAt, eraseTbls, eraseTbls_removeAt i r]

theorem eraseVals_set (x : CVal) : ∀ (i : Nat) (l : List CVal),
    eraseVals (l.set i x) = (eraseVals l).set i (eraseVal x)
  | _, [] => by simp [eraseVals]
  | 0, _ :: r => by simp [eraseVals]
  | i + 1, y :: r => by simp [eraseVals, eraseVals_set x i r]

/-! ### sorting -/

open TomlVerif.Spec.OrderedPlain in
theorem erase_insertByCKey_items (x : CKey × CItem) : ∀ l : List (CKey × CItem),
    eraseItems (insertByCKey x l) = insertByKey (x.1.key, eraseItem x.2) (eraseItems l)
  | [] => by simp [insertByCKey, eraseItems, insertByKey]
  | y :: r => by
    obtain ⟨ky, vy⟩ := y
    obtain ⟨kx, vx⟩ := x
    simp only [insertByCKey, eraseItems, insertByKey]
    split
    · simp [eraseItems, erase_insertByCKey_items (kx, vx) r]
    · simp [eraseItems]

open TomlVerif.Spec.OrderedPlain in
/-- `sort_keys` on the decorated entries is the verified `sortByKey` of `Spec/OrderedPlain.lean`
    on the semantic entries -/
theorem erase_sortByCKey_items : ∀ l : List (CKey × CItem),
    eraseItems (sortByCKey l) = sortByKey (eraseItems l)
  | [] => rfl
  | (k, v) :: r => by
    simp only [sortByCKey, eraseItems, sortByKey]
    rw [erase_insertByCKey_items, erase_sortByCKey_items r]

end TomlVerif.Lemmas.Edit08
