import TomlVerif.Lemmas.DeLocated15b
/-! Lemmas for Props/C15Located.lean, part 3: `decodeLoc` with the locations forgotten is `decodeEdit` (the code as it
    stands) on the erased tree — by induction over the type grammar. -/
namespace TomlVerif.Lemmas.DeLocated15
open TomlVerif TomlVerif.Model TomlVerif.Model.TomlValue TomlVerif.Model.DeRoutes TomlVerif.Model.DeText
open TomlVerif.Model.DeTyped TomlVerif.Model.Cst TomlVerif.Model.DeLocated

mutual
/-- the field names of every struct and struct variant of the type are distinct (what Rust and serde_derive demand) -/
def wfTy : Ty → Bool
  | .option t => wfTy t
  | .seq t => wfTy t
  | .map t => wfTy t
  | .newtype t => wfTy t
  | .tuple ts => wfTys ts
  | .struct fs => distinctNames fs && wfFields fs
  | .enum vs => wfVariants vs
  | _ => true
def wfTys : Tys → Bool
  | .nil => true
  | .cons t r => wfTy t && wfTys r
def wfFields : Fields → Bool
  | .nil => true
  | .cons _ t _ r => wfTy t && wfFields r
def wfShape : Shape → Bool
  | .unit => true
  | .newtype t => wfTy t
  | .tuple ts => wfTys ts
  | .struct fs => distinctNames fs && wfFields fs
def wfVariants : Variants → Bool
  | .nil => true
  | .cons _ s r => wfShape s && wfVariants r
end

/-! ### date-times -/

theorem pres_entries_cons (it : CItem) (k : CKey) (v : CItem) (rest : List (CKey × CItem))
    (h : citemEntries it = some ((k, v) :: rest)) (hd : ∀ d, eraseItem it ≠ .value (.dt d)) :
    ∃ tl, presOfItem (eraseItem it) = .map ((k.key, presOfItem (eraseItem v)) :: tl) := by
  cases it with
  | value x =>
    cases x with
    | scalar x r d =>
      cases x with
      | inl items a b =>
        cases items with
        | nil => simp [citemEntries] at h
        | cons kv tl =>
          obtain ⟨k0, v0⟩ := kv
          simp only [citemEntries, List.map_cons, Option.some.injEq, List.cons.injEq, Prod.mk.injEq] at h
          obtain ⟨⟨hk, hv⟩, _⟩ := h
          subst hk; subst hv
          exact ⟨presOfValPairs tl, by simp [eraseItem, eraseVal, presOfItem, presOfVal, presOfValPairs, bareKey, bareItem]⟩
      | _ => simp [citemEntries] at h
    | arr => simp [citemEntries] at h
    | inl items p i dt d sp =>
      cases items with
      | nil => simp [citemEntries] at h
      | cons kv tl =>
        obtain ⟨k0, v0⟩ := kv
        simp only [citemEntries, List.map_cons, Option.some.injEq, List.cons.injEq, Prod.mk.injEq] at h
        obtain ⟨⟨hk, hv⟩, _⟩ := h
        subst hk; subst hv
        exact ⟨presOfValPairs (eraseKvs tl), by simp [eraseItem, eraseVal, eraseKvs, presOfItem, presOfVal, presOfValPairs]⟩
  | table t =>
    cases t with
    | mk items i d p dc sp =>
      cases items with
      | nil => simp [citemEntries, CTbl.items] at h
      | cons kv tl =>
        obtain ⟨k0, v0⟩ := kv
        simp only [citemEntries, CTbl.items, Option.some.injEq, List.cons.injEq, Prod.mk.injEq] at h
        obtain ⟨⟨hk, hv⟩, _⟩ := h
        subst hk; subst hv
        exact ⟨presOfItems (eraseItems tl), by simp [eraseItem, eraseTbl, eraseItems, presOfItem, presOfTbl, presOfItems]⟩
  | aot => simp [citemEntries] at h

theorem pres_entries_nil (it : CItem) (h : citemEntries it = some []) :
    presOfItem (eraseItem it) = .map [] := by
  cases it with
  | value x =>
    cases x with
    | scalar x r d =>
      cases x with
      | inl items a b =>
        cases items with
        | nil => simp [eraseItem, eraseVal, presOfItem, presOfVal, presOfValPairs]
        | cons kv tl => simp [citemEntries] at h
      | _ => simp [citemEntries] at h
    | arr => simp [citemEntries] at h
    | inl items p i dt d sp =>
      cases items with
      | nil => simp [eraseItem, eraseVal, eraseKvs, presOfItem, presOfVal, presOfValPairs]
      | cons kv tl => simp [citemEntries] at h
  | table t =>
    cases t with
    | mk items i d p dc sp =>
      cases items with
      | nil => simp [eraseItem, eraseTbl, eraseItems, presOfItem, presOfTbl, presOfItems]
      | cons kv tl => simp [citemEntries, CTbl.items] at h
  | aot => simp [citemEntries] at h

theorem pres_no_entries (it : CItem) (h : citemEntries it = none) (hd : ∀ d, eraseItem it ≠ .value (.dt d)) :
    decodeDatetime (presOfItem (eraseItem it)) = none := by
  cases it with
  | value x =>
    cases x with
    | scalar x r d =>
      cases x with
      | dt d0 => exact absurd rfl (hd d0)
      | inl items a b => simp [citemEntries] at h
      | _ => simp [eraseItem, eraseVal, presOfItem, presOfVal, decodeDatetime]
    | arr => simp [eraseItem, eraseVal, presOfItem, presOfVal, decodeDatetime]
    | inl => simp [citemEntries] at h
  | table t => simp [citemEntries] at h
  | aot => simp [eraseItem, presOfItem, decodeDatetime]

theorem dtCore_erase (it : CItem) : toR (dtCore it) = ofOpt (decodeDatetime (presOfItem (eraseItem it))) := by
  unfold dtCore
  split
  · rename_i d hd
    rw [hd]
    simp [presOfItem, presOfVal]
  · rename_i hnd
    have hd : ∀ d, eraseItem it ≠ .value (.dt d) := fun d h => hnd d h
    simp only [toR_atSpan]
    cases he : citemEntries it with
    | none => simp [pres_no_entries it he hd, ofOpt]
    | some es =>
      cases es with
      | nil => simp [pres_entries_nil it he, decodeDatetime, ofOpt]
      | cons kv rest =>
        obtain ⟨k, v⟩ := kv
        obtain ⟨tl, hp⟩ := pres_entries_cons it k v rest he hd
        rw [hp]
        simp only []
        by_cases hk : (k.key == FIELD) = true
        · simp only [hk, if_true, toR_inEntry, toR_atSpan]
          cases hpv : presOfItem (eraseItem v) <;> simp [decodeDatetime, hk, ofOpt]
        · simp only [hk]
          cases hpv : presOfItem (eraseItem v) <;> simp [decodeDatetime, hk, ofOpt]

theorem dtLoc_erase (ty : Ty) (it : CItem) :
    toR (dtLoc ty it) = datetimeTarget ty (presOfItem (eraseItem it)) := by
  unfold dtLoc datetimeTarget
  have h := dtCore_erase it
  cases hc : dtCore it with
  | error e =>
    rw [hc] at h
    cases hdd : decodeDatetime (presOfItem (eraseItem it)) with
    | none => rfl
    | some d => rw [hdd] at h; simp [ofOpt, fail] at h
  | ok d =>
    rw [hc] at h
    cases hdd : decodeDatetime (presOfItem (eraseItem it)) with
    | none => rw [hdd] at h; simp [ofOpt, fail] at h
    | some d' =>
      rw [hdd] at h
      simp only [toR_ok, ofOpt, Except.ok.injEq] at h
      subst h
      simp only [shapeCheck]
      cases ty <;> simp <;> split <;> simp [vfail]

/-! ### structs -/

theorem toR_walk (known : Bytes → Bool) (f : Bytes → LSrc → LR (Option Dec)) (g : Bytes → ESrc → R (Option Dec)) :
    ∀ (es : List (Bytes × LSrc)) (seen : List Bytes), (∀ kv ∈ es, toR (f kv.1 kv.2) = g kv.1 (eraseSrc kv.2)) →
    toR (walkEntries visitorErr known f seen es) = walkEntries Err.fail known g seen (eraseSrcs es)
  | [], _, _ => rfl
  | (k, s) :: r, seen, h => by
    have hh := h (k, s) (List.mem_cons_self ..)
    have ih := fun seen' => toR_walk known f g r seen' fun kv hkv => h kv (List.mem_cons_of_mem _ hkv)
    simp only [eraseSrcs, List.map_cons] at ih ⊢
    unfold walkEntries
    by_cases hc : (known k && seen.contains k) = true
    · rw [if_pos hc, if_pos hc]; rfl
    · rw [if_neg hc, if_neg hc]
      simp only [] at hh
      rw [← hh]
      cases hf : f k s with
      | error e => simp [fail]
      | ok o =>
        cases o with
        | none => simpa using ih seen
        | some d =>
          have := ih (k :: seen)
          simp only [toR_ok]
          cases hw : walkEntries visitorErr known f (k :: seen) r with
          | error e => rw [hw] at this; simp only [toR_error] at this; rw [← this]; rfl
          | ok ds => rw [hw] at this; simp only [toR_ok] at this; rw [← this]; rfl

theorem toR_fill : ∀ (fs : Fields) (ds : List (Bytes × Dec)),
    toR (fillFields visitorErr fs ds) = fillFields Err.fail fs ds
  | .nil, _ => rfl
  | .cons name t dflt r, ds => by
    unfold fillFields
    have ih := toR_fill r ds
    cases alookup name ds with
    | some d =>
      simp only []
      cases hf : fillFields visitorErr r ds with
      | error e => rw [hf] at ih; simp only [toR_error] at ih; rw [← ih]; rfl
      | ok l => rw [hf] at ih; simp only [toR_ok] at ih; rw [← ih]; rfl
    | none =>
      simp only []
      cases dflt with
      | true =>
        simp only [if_true]
        cases hf : fillFields visitorErr r ds with
        | error e => rw [hf] at ih; simp only [toR_error] at ih; rw [← ih]; rfl
        | ok l => rw [hf] at ih; simp only [toR_ok] at ih; rw [← ih]; rfl
      | false =>
        simp only [Bool.false_eq_true, if_false]
        cases missingField t with
        | error e => rfl
        | ok d =>
          simp only []
          cases hf : fillFields visitorErr r ds with
          | error e => rw [hf] at ih; simp only [toR_error] at ih; rw [← ih]; rfl
          | ok l => rw [hf] at ih; simp only [toR_ok] at ih; rw [← ih]; rfl

/-- the `visit_map` of a derived struct (both uses: a struct, a struct variant) -/
theorem struct_body_erase (fl : Flavour) (fs : Fields) (hd : distinctNames fs = true) (C : List (Bytes × Dec) → Dec)
    (f : Bytes → LSrc → LR (Option Dec)) (es : List (Bytes × LSrc))
    (hf : ∀ kv ∈ es, toR (f kv.1 kv.2) = entryR fl fs kv.1 (eraseSrc kv.2)) :
    toR (match walkEntries visitorErr fs.hasName f [] es with
         | .error e => .error e
         | .ok ds => lmap C (fillFields visitorErr fs ds)) =
      if dupField fs ((eraseSrcs es).map Prod.fst) then fail
      else rmap C (decodeEditFields editAsIs fl fs (eraseSrcs es)) := by
  have hw := toR_walk fs.hasName f (entryR fl fs) es [] hf
  have ht := walk_fill_top fl fs hd (eraseSrcs es)
  cases hx : walkEntries visitorErr fs.hasName f [] es with
  | error e =>
    rw [hx] at hw
    simp only [toR_error] at hw
    rw [← hw] at ht
    simp only [fail] at ht
    by_cases hdup : dupField fs ((eraseSrcs es).map Prod.fst) = true
    · simp [hdup]
    · have ht' : decodeEditFields editAsIs fl fs (eraseSrcs es) = fail := by
        simp only [hdup] at ht
        simpa [fail] using ht.symm
      simp [hdup, ht', rmap, fail]
  | ok ds =>
    rw [hx] at hw
    simp only [toR_ok] at hw
    rw [← hw] at ht
    simp only [] at ht
    simp only [toR_lmap, toR_fill]
    rw [ht]
    by_cases hdup : dupField fs ((eraseSrcs es).map Prod.fst) = true
    · simp [hdup, rmap, fail]
    · simp [hdup]

end TomlVerif.Lemmas.DeLocated15
