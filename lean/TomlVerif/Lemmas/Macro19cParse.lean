import TomlVerif.Lemmas.Macro19cLeaf
import TomlVerif.Lemmas.SoundDoc01Unique
import TomlVerif.Lemmas.InlineKeys01
/-! C19 (text): the grammar tree (`QDoc`, Lemmas/SoundDoc01Ast.lean) whose rendering is `textOf ds` and whose
    statements are `stmtsOf ds`; with `T01_stmtsOfText_iff` the TOML parser reads the canonical text as those statements. -/
namespace TomlVerif.Lemmas.Macro19c
open TomlVerif TomlVerif.Spec TomlVerif.Model TomlVerif.Model.Macro TomlVerif.Lemmas.Macro19 TomlVerif.Lemmas.Macro19b
open TomlVerif.Spec.AstValue TomlVerif.Spec.AstValueQ TomlVerif.Spec.AstDoc TomlVerif.Spec.AstDocQ
open TomlVerif.Model.Value TomlVerif.Lemmas.Value01 TomlVerif.Lemmas.State09
open TomlVerif.Spec.AstString (BasicChar renderBasic semBasic wfBasic)

/-! ## keys -/

/-- the key a segment denotes: the value of a quoted key, the text of a bare one -/
def segKey (s : Seg) : Bytes :=
  match s.head with
  | .str _ val => val
  | _ => segText s

def keyStrs (k : MKey) : List Bytes := segKey k.head :: k.tail.map segKey

def qkeyOf (pre post : Bytes) (s : Seg) : QKey := ⟨pre, segText s, segKey s, post⟩

/-- the components after the first; `post` goes behind the last one -/
def moreOf (post : Bytes) : List Seg → List QKey
  | [] => []
  | [s] => [qkeyOf [] post s]
  | s :: t :: r => qkeyOf [] [] s :: moreOf post (t :: r)

/-- the dotted key with `pre` in front and `post` behind -/
def qdkeyOf (pre post : Bytes) (k : MKey) : QDKey :=
  match k.tail with
  | [] => ⟨qkeyOf pre post k.head, []⟩
  | t :: r => ⟨qkeyOf pre [] k.head, moreOf post (t :: r)⟩

theorem moreOf_render (post : Bytes) : ∀ (l : List Seg), l ≠ [] → renderQKeySep (moreOf post l) = dottedText l ++ post
  | [], h => absurd rfl h
  | [s], _ => by simp [moreOf, renderQKeySep, qkeyOf, QKey.render, dottedText]
  | s :: t :: r, _ => by
    have := moreOf_render post (t :: r) (by simp)
    simp only [moreOf, renderQKeySep, this]
    simp [qkeyOf, QKey.render, dottedText]

theorem qdkeyOf_render (pre post : Bytes) (k : MKey) : (qdkeyOf pre post k).render = pre ++ (keyText k ++ post) := by
  obtain ⟨hd, tl⟩ := k
  cases tl with
  | nil => simp [qdkeyOf, QDKey.render, renderQKeySep, qkeyOf, QKey.render, keyText, dottedText]
  | cons t r =>
    simp only [qdkeyOf, QDKey.render, moreOf_render post (t :: r) (by simp)]
    simp [qkeyOf, QKey.render, keyText]

theorem moreOf_keys (post : Bytes) : ∀ l : List Seg, (moreOf post l).map QKey.key = l.map segKey
  | [] => rfl
  | [s] => by simp [moreOf, qkeyOf]
  | s :: t :: r => by
    have := moreOf_keys post (t :: r)
    simp only [moreOf, List.map_cons, this]
    simp [qkeyOf]

theorem moreOf_length (post : Bytes) : ∀ l : List Seg, (moreOf post l).length = l.length
  | [] => rfl
  | [s] => rfl
  | s :: t :: r => by simp [moreOf, moreOf_length post (t :: r)]

theorem qdkeyOf_keys (pre post : Bytes) (k : MKey) : (qdkeyOf pre post k).keys = keyStrs k := by
  obtain ⟨hd, tl⟩ := k
  cases tl with
  | nil => simp [qdkeyOf, QDKey.keys, keyStrs, qkeyOf]
  | cons t r => simp [qdkeyOf, QDKey.keys, keyStrs, qkeyOf, moreOf_keys]

theorem qdkeyOf_more_length (pre post : Bytes) (k : MKey) : (qdkeyOf pre post k).more.length = k.tail.length := by
  obtain ⟨hd, tl⟩ := k
  cases tl with
  | nil => simp [qdkeyOf]
  | cons t r => simp [qdkeyOf, moreOf_length]

theorem qdkeyOf_split (pre post : Bytes) (k : MKey) :
    State.splitLast (keyStrs k) = some ((qdkeyOf pre post k).path, (qdkeyOf pre post k).last) := by
  have h := qdkeyOf_keys pre post k
  have := TomlVerif.Lemmas.InlineKeys01.splitKeys_append ((qdkeyOf pre post k).more.map QKey.key) (qdkeyOf pre post k).first.key
  rw [← h]
  unfold QDKey.keys
  rw [← this]
  exact TomlVerif.Lemmas.State09.splitLast_append _ _

/-! ### what `concat!` computes is the same key -/

theorem identAtom_path (a : KAtom) (h : identAtom a = true) : pathStr a.tt = some (atomText a) := by
  cases a <;> simp [identAtom] at h
  rfl

theorem segStr_idents (a : KAtom) (l : List KAtom) (ha : identAtom a = true) (hl : l.all identAtom = true) :
    segStr (a.tt :: l.map KAtom.tt) = some (atomText a ++ dashedText l) := by
  induction l generalizing a with
  | nil => simp [segStr, identAtom_path a ha, dashedText]
  | cons b r ih =>
    simp only [List.all_cons, Bool.and_eq_true] at hl
    have := ih b hl.1 hl.2
    simp only [List.map_cons] at this ⊢
    rw [segStr]
    · simp [identAtom_path a ha, this, dashedText]
    · intro h; cases h

theorem seg_path (s : Seg) (h : segOk s = true) : segStr s.tts = some (segKey s) := by
  obtain ⟨hd, tl⟩ := s
  cases hd with
  | ident w =>
    simp only [segOk, Bool.and_eq_true] at h
    have := segStr_idents (.ident w) tl (by simpa [identAtom] using h.1) h.2
    simpa [Seg.tts, segKey, segText] using this
  | str raw val =>
    simp only [segOk, Bool.and_eq_true, List.isEmpty_iff] at h
    obtain ⟨_, rfl⟩ := h
    simp [Seg.tts, segKey, segStr, pathStr, KAtom.tt, KAtom.tok]
  | num b sf f => simp [segOk] at h
  | chr r v => simp [segOk] at h

theorem segs_path (l : List Seg) (h : l.all segOk = true) : segsStr (l.map Seg.tts) = some (l.map segKey) := by
  induction l with
  | nil => rfl
  | cons s r ih =>
    simp only [List.all_cons, Bool.and_eq_true] at h
    simp [segsStr, seg_path s h.1, ih h.2]

/-- the path `concat!` computes for a shared key is the list of its components as TOML reads them -/
theorem key_path (k : MKey) (h : keyOk k = true) : k.path = some (keyStrs k) := by
  simp only [keyOk, Bool.and_eq_true] at h
  have := segs_path (k.head :: k.tail) (by simp [h.1.1, h.1.2])
  simpa [MKey.path, MKey.segs, keyStrs] using this

/-! ### the components are keys of the grammar -/

theorem idStart_unquoted : ∀ b : Byte, isIdCont b = true → isUnquotedChar b = true := forall_byte (by decide +kernel)

theorem ident_unquoted (w : Bytes) (h : identOk w = true) : w ≠ [] ∧ ∀ b ∈ w, isUnquotedChar b = true := by
  cases w with
  | nil => simp [identOk] at h
  | cons c t =>
    simp only [identOk, Bool.and_eq_true] at h
    refine ⟨by simp, ?_⟩
    intro b hb
    rcases List.mem_cons.1 hb with rfl | hb
    · exact idStart_unquoted _ (idStart_facts _ h.1.1).2
    · exact idStart_unquoted _ (List.all_eq_true.1 h.1.2 b hb)

theorem dashed_unquoted (l : List KAtom) (h : l.all identAtom = true) : ∀ b ∈ dashedText l, isUnquotedChar b = true := by
  induction l with
  | nil => intro b hb; simp [dashedText] at hb
  | cons a r ih =>
    simp only [List.all_cons, Bool.and_eq_true] at h
    intro b hb
    simp only [dashedText, List.mem_cons, List.mem_append] at hb
    rcases hb with rfl | hb | hb
    · decide
    · cases a <;> simp [identAtom] at h
      rename_i w
      exact (ident_unquoted w h.1).2 b (by simpa [atomText, KAtom.tok, tokText] using hb)
    · exact ih h.2 b hb

theorem allWs_nil' : AllWs [] := by intro b hb; cases hb
theorem allWs_sp : AllWs [0x20] := by intro b hb; simp at hb; subst hb; decide

theorem qkeyOf_wf (pre post : Bytes) (s : Seg) (h1 : AllWs pre) (h2 : AllWs post) (h : segOk s = true) :
    (qkeyOf pre post s).WF := by
  refine ⟨h1, h2, ?_⟩
  obtain ⟨hd, tl⟩ := s
  cases hd with
  | ident w =>
    simp only [segOk, Bool.and_eq_true] at h
    left
    obtain ⟨hne, hu⟩ := ident_unquoted w h.1
    refine ⟨rfl, ?_, ?_⟩
    · simp [qkeyOf, segKey, segText, atomText, KAtom.tok, tokText, hne]
    · intro b hb
      simp only [qkeyOf, segKey, segText, atomText, KAtom.tok, tokText, List.mem_append] at hb
      rcases hb with hb | hb
      · exact hu b hb
      · exact dashed_unquoted tl h.2 b hb
  | str raw val =>
    simp only [segOk, Bool.and_eq_true, List.isEmpty_iff] at h
    obtain ⟨hs, rfl⟩ := h
    obtain ⟨cs, rfl, rfl, _, hwf⟩ := strOk_spec raw val hs
    right; left
    exact ⟨cs, hwf, by simp [qkeyOf, segText, atomText, KAtom.tok, tokText, dashedText], by simp [qkeyOf, segKey]⟩
  | num b sf f => simp [segOk] at h
  | chr r v => simp [segOk] at h

theorem moreOf_wf (post : Bytes) (hp : AllWs post) : ∀ l : List Seg, l.all segOk = true → ∀ x ∈ moreOf post l, x.WF
  | [], _ => by intro x hx; cases hx
  | [s], h => by
    intro x hx
    simp only [moreOf, List.mem_singleton] at hx
    subst hx
    exact qkeyOf_wf [] post s allWs_nil' hp (by simpa using h)
  | s :: t :: r, h => by
    intro x hx
    have h' : segOk s = true ∧ (t :: r).all segOk = true := by
      have := h; simp only [List.all_cons, Bool.and_eq_true] at this ⊢; exact this
    simp only [moreOf, List.mem_cons] at hx
    rcases hx with rfl | hx
    · exact qkeyOf_wf [] [] s allWs_nil' allWs_nil' h'.1
    · exact moreOf_wf post hp (t :: r) h'.2 x (by simpa [moreOf] using hx)

theorem qdkeyOf_wf (pre post : Bytes) (k : MKey) (h1 : AllWs pre) (h2 : AllWs post) (h : keyOk k = true) :
    (qdkeyOf pre post k).WF := by
  have hl := qdkeyOf_more_length pre post k
  simp only [keyOk, Bool.and_eq_true, decide_eq_true_eq] at h
  obtain ⟨⟨hh, ht⟩, hlim⟩ := h
  obtain ⟨hd, tl⟩ := k
  cases tl with
  | nil =>
    refine ⟨qkeyOf_wf pre post hd h1 h2 hh, ?_, ?_⟩
    · intro x hx; simp [qdkeyOf] at hx
    · simpa [qdkeyOf] using hlim
  | cons t r =>
    refine ⟨qkeyOf_wf pre [] hd h1 allWs_nil' hh, moreOf_wf post h2 (t :: r) ht, ?_⟩
    rw [hl]; exact hlim

/-! ## values -/

mutual
def qvalOf : MTree → QVal
  | .leaf a => .scalar ⟨leafText a, leafVal a⟩
  | .arr items tr => .arr (qitems true items) (tr && !items.isEmpty) []
  | .tbl es _ => .inl (qpairs true es) []
/-- array items; every item but the first has a blank in front -/
def qitems : Bool → List MTree → List (Wcn × QVal × Wcn)
  | _, [] => []
  | first, a :: r => ((if first then [] else [.ws [0x20]]), qvalOf a, []) :: qitems false r
/-- entries `key = value`; every key but the first has a blank in front -/
def qpairs : Bool → List (MKey × MTree) → List (QDKey × Bytes × QVal × Bytes)
  | _, [] => []
  | first, (k, a) :: r => (qdkeyOf (if first then [] else [0x20]) [0x20] k, [0x20], qvalOf a, []) :: qpairs false r
end

mutual
theorem qvalOf_render : ∀ v : MTree, renderQ (qvalOf v) = valText v
  | .leaf a => by simp [qvalOf, renderQ, valText]
  | .arr items tr => by simp [qvalOf, renderQ, valText, qitems_render items, renderWcn]
  | .tbl es tr => by simp [qvalOf, renderQ, valText, qpairs_render es]
theorem qitems_render : ∀ l : List MTree, renderItemsQ (qitems true l) = itemsText l
  | [] => by simp [qitems, renderItemsQ, itemsText]
  | a :: r => by simp [qitems, renderItemsQ, itemsText, qvalOf_render a, qitemsSep_render r, renderWcn]
theorem qitemsSep_render : ∀ l : List MTree, renderItemsSepQ (qitems false l) = itemsSepText l
  | [] => by simp [qitems, renderItemsSepQ, itemsSepText]
  | a :: r => by
    simp [qitems, renderItemsSepQ, itemsSepText, qvalOf_render a, qitemsSep_render r, renderWcn, Piece.render]
theorem qpairs_render : ∀ l : List (MKey × MTree), renderPairsQ (qpairs true l) = entriesText l
  | [] => by simp [qpairs, renderPairsQ, entriesText]
  | (k, a) :: r => by
    simp [qpairs, renderPairsQ, entriesText, qvalOf_render a, qpairsSep_render r, qdkeyOf_render]
theorem qpairsSep_render : ∀ l : List (MKey × MTree), renderPairsSepQ (qpairs false l) = entriesSepText l
  | [] => by simp [qpairs, renderPairsSepQ, entriesSepText]
  | (k, a) :: r => by
    simp [qpairs, renderPairsSepQ, entriesSepText, qvalOf_render a, qpairsSep_render r, qdkeyOf_render]
end

mutual
theorem qvalOf_depth : ∀ v : MTree, depthQ (qvalOf v) = mdepth v
  | .leaf a => by simp [qvalOf, depthQ, mdepth]
  | .arr items tr => by simp [qvalOf, depthQ, mdepth, qitems_depth items true]
  | .tbl es tr => by simp [qvalOf, depthQ, mdepth, qpairs_depth es true]
theorem qitems_depth : ∀ (l : List MTree) (first : Bool), depthItemsQ (qitems first l) = mdepthL l
  | [], _ => by simp [qitems, depthItemsQ, mdepthL]
  | a :: r, first => by simp [qitems, depthItemsQ, mdepthL, qvalOf_depth a, qitems_depth r false]
theorem qpairs_depth : ∀ (l : List (MKey × MTree)) (first : Bool), depthPairsQ (qpairs first l) = mdepthE l
  | [], _ => by simp [qpairs, depthPairsQ, mdepthE]
  | (k, a) :: r, first => by
    simp [qpairs, depthPairsQ, mdepthE, qvalOf_depth a, qpairs_depth r false, qdkeyOf_more_length]
end

theorem wcnWF_nil : WcnWF [] := by intro p hp; cases hp
theorem wcnWF_sp : WcnWF [.ws [0x20]] := by
  intro p hp; simp at hp; subst hp
  intro b hb; simp at hb; subst hb; decide

mutual
/-- the tree of a value: its meaning is the parser's value, and it is well formed -/
theorem qvalOf_sem : ∀ v : MTree, valOk v = true → ∀ x, refV v = some x → semQ (qvalOf v) = x ∧ WFQ (qvalOf v)
  | .leaf a, h, x, hx => by
    simp only [valOk] at h
    simp only [refV] at hx
    cases hs : a.sem with
    | ok m =>
      simp only [hs] at hx
      injection hx with hx; subst hx
      have hv : leafVal a = mvalV m := by simp [leafVal, hs]
      refine ⟨by simp [qvalOf, semQ, hv], ?_⟩
      rw [qvalOf, WFQ, hv]
      exact leaf_scalarOK a h m hs
    | unsupported => simp [hs] at hx
    | panic => simp [hs] at hx
  | .arr items tr, h, x, hx => by
    simp only [valOk] at h
    simp only [refV] at hx
    cases hv : refVs items with
    | none => simp [hv] at hx
    | some xs =>
      simp only [hv, Option.map_some] at hx
      injection hx with hx; subst hx
      obtain ⟨h1, h2⟩ := qitems_sem items h true xs hv
      refine ⟨by simp [qvalOf, semQ, h1], ?_⟩
      rw [qvalOf, WFQ]
      refine ⟨h2, wcnWF_nil, ?_⟩
      intro e
      cases items with
      | nil => simp
      | cons a r => simp [qitems] at e
  | .tbl es tr, h, x, hx => by
    simp only [valOk, Bool.and_eq_true] at h
    simp only [refV] at hx
    cases he : refEs es with
    | none => simp [he] at hx
    | some pairs =>
      simp only [he] at hx
      cases ht : tableFromPairs pairs [] with
      | none => simp [ht] at hx
      | some items =>
        simp only [ht, Option.map_some] at hx
        injection hx with hx; subst hx
        obtain ⟨h1, h2⟩ := qpairs_sem es h.1 true pairs he
        refine ⟨by simp [qvalOf, semQ, h1, ht], ?_⟩
        rw [qvalOf, WFQ]
        exact ⟨h2, allWs_nil', by rw [h1, ht]; rfl⟩
theorem qitems_sem : ∀ (l : List MTree), itemsOk l = true → ∀ (first : Bool) (xs : List Val), refVs l = some xs →
    semItemsQ (qitems first l) = xs ∧ WFItemsQ (qitems first l)
  | [], _, first, xs, hx => by
    simp only [refVs] at hx
    injection hx with hx; subst hx
    simp [qitems, semItemsQ, WFItemsQ]
  | a :: r, h, first, xs, hx => by
    simp only [itemsOk, Bool.and_eq_true] at h
    simp only [refVs] at hx
    cases ha : refV a with
    | none => simp [ha] at hx
    | some v =>
      cases hr : refVs r with
      | none => simp [ha, hr] at hx
      | some vs =>
        simp only [ha, hr] at hx
        injection hx with hx; subst hx
        obtain ⟨a1, a2⟩ := qvalOf_sem a h.1 v ha
        obtain ⟨r1, r2⟩ := qitems_sem r h.2 false vs hr
        refine ⟨by simp [qitems, semItemsQ, a1, r1], ?_⟩
        rw [qitems, WFItemsQ]
        refine ⟨?_, a2, wcnWF_nil, r2⟩
        cases first
        · exact wcnWF_sp
        · exact wcnWF_nil
theorem qpairs_sem : ∀ (l : List (MKey × MTree)), entriesOk l = true → ∀ (first : Bool)
    (ps : List (List Bytes × Bytes × Val)), refEs l = some ps →
    flatPairsQ (qpairs first l) = ps ∧ WFPairsQ (qpairs first l)
  | [], _, first, ps, hx => by
    simp only [refEs] at hx
    injection hx with hx; subst hx
    simp [qpairs, flatPairsQ, WFPairsQ]
  | (k, a) :: r, h, first, ps, hx => by
    simp only [entriesOk, Bool.and_eq_true] at h
    simp only [refEs, key_path k h.1.1, Option.bind_some,
      qdkeyOf_split (if first then [] else [0x20]) [0x20] k] at hx
    cases ha : refV a with
    | none => simp [ha] at hx
    | some v =>
      cases hr : refEs r with
      | none => simp [ha, hr] at hx
      | some ps' =>
        simp only [ha, hr] at hx
        injection hx with hx; subst hx
        obtain ⟨a1, a2⟩ := qvalOf_sem a h.1.2 v ha
        obtain ⟨r1, r2⟩ := qpairs_sem r h.2 false ps' hr
        refine ⟨by simp [qpairs, flatPairsQ, a1, r1], ?_⟩
        rw [qpairs, WFPairsQ]
        refine ⟨qdkeyOf_wf _ _ k ?_ allWs_sp h.1.1, allWs_sp, a2, allWs_nil', r2⟩
        cases first
        · exact allWs_sp
        · exact allWs_nil'
end

/-! ## lines and documents -/

def qlineOf : DStmt → QLine
  | .kv k v => .keyval (qdkeyOf [] [0x20] k) [0x20] (qvalOf v) [] none
  | .std k => .std [] (qdkeyOf [] [] k) [] none
  | .arr k => .aot [] (qdkeyOf [] [] k) [] none

/-- the grammar tree of the canonical text: every statement a line ended by `LF` -/
def qdocOf (ds : List DStmt) : QDoc := ⟨false, ds.map fun s => (qlineOf s, false), none⟩

theorem qlineOf_render (s : DStmt) : (qlineOf s).render = stmtText s := by
  cases s <;> simp [qlineOf, QLine.render, stmtText, qdkeyOf_render, qvalOf_render, commentBytes]

theorem qdocOf_render (ds : List DStmt) : (qdocOf ds).render = textOf ds := by
  simp only [qdocOf, QDoc.render, bomBytes, Bool.false_eq_true, if_false, List.nil_append, renderLastQ, List.append_nil]
  induction ds with
  | nil => rfl
  | cons s r ih => simp [renderLinesQ, textOf, qlineOf_render, nlBytes, ih]

theorem qlineOf_stmt (s : DStmt) (h : stmtOk s = true) (x : Stmt) (hx : stmtOf s = some x) :
    (qlineOf s).stmt = some x ∧ (qlineOf s).WF := by
  cases s with
  | kv k v =>
    simp only [stmtOk, Bool.and_eq_true, decide_eq_true_eq] at h
    obtain ⟨⟨hk, hv⟩, hd⟩ := h
    simp only [stmtOf, key_path k hk, Option.bind_some, qdkeyOf_split [] [0x20] k] at hx
    cases ha : refV v with
    | none => simp [ha] at hx
    | some y =>
      simp only [ha] at hx
      injection hx with hx; subst hx
      obtain ⟨a1, a2⟩ := qvalOf_sem v hv y ha
      refine ⟨by simp [qlineOf, QLine.stmt, a1], ?_⟩
      exact ⟨qdkeyOf_wf _ _ k allWs_nil' allWs_sp hk, allWs_sp, a2,
        by rw [qdkeyOf_more_length, qvalOf_depth]; exact hd, allWs_nil', TomlVerif.Lemmas.SoundDoc01.commentOK_none⟩
  | std k =>
    simp only [stmtOk] at h
    simp only [stmtOf, key_path k h, Option.map_some] at hx
    injection hx with hx; subst hx
    exact ⟨by simp [qlineOf, QLine.stmt, qdkeyOf_keys],
      allWs_nil', qdkeyOf_wf _ _ k allWs_nil' allWs_nil' h, allWs_nil', TomlVerif.Lemmas.SoundDoc01.commentOK_none⟩
  | arr k =>
    simp only [stmtOk] at h
    simp only [stmtOf, key_path k h, Option.map_some] at hx
    injection hx with hx; subst hx
    exact ⟨by simp [qlineOf, QLine.stmt, qdkeyOf_keys],
      allWs_nil', qdkeyOf_wf _ _ k allWs_nil' allWs_nil' h, allWs_nil', TomlVerif.Lemmas.SoundDoc01.commentOK_none⟩

theorem qdocOf_stmts (ds : List DStmt) (h : synOk ds = true) : ∀ ss, stmtsOf ds = some ss →
    (qdocOf ds).stmts = ss ∧ (qdocOf ds).WF := by
  induction ds with
  | nil =>
    intro ss hs
    simp only [stmtsOf] at hs
    injection hs with hs; subst hs
    refine ⟨rfl, ?_, ?_⟩
    · intro p hp; simp [qdocOf] at hp
    · intro l hl; simp [qdocOf] at hl
  | cons s r ih =>
    intro ss hs
    simp only [synOk, List.all_cons, Bool.and_eq_true] at h
    simp only [stmtsOf] at hs
    cases hx : stmtOf s with
    | none => simp [hx] at hs
    | some x =>
      cases hr : stmtsOf r with
      | none => simp [hx, hr] at hs
      | some xs =>
        simp only [hx, hr] at hs
        injection hs with hs; subst hs
        obtain ⟨l1, l2⟩ := qlineOf_stmt s h.1 x hx
        obtain ⟨r1, r2⟩ := ih h.2 xs hr
        refine ⟨?_, ?_, ?_⟩
        · simp only [qdocOf, QDoc.stmts, stmtsLastQ, List.append_nil, List.map_cons, stmtsLinesQ, l1] at r1 ⊢
          rw [r1]
        · intro p hp
          simp only [qdocOf, List.map_cons, List.mem_cons] at hp
          rcases hp with rfl | hp
          · exact l2
          · exact r2.1 p hp
        · intro l hl; simp [qdocOf] at hl

/-- **the TOML parser reads the canonical text as the statements of the document** -/
theorem stmtsOfText_textOf (ds : List DStmt) (h : synOk ds = true) (ss : List Stmt) (hs : stmtsOf ds = some ss) :
    TomlVerif.Lemmas.SoundDoc01U.stmtsOfText (textOf ds) = some ss := by
  obtain ⟨h1, h2⟩ := qdocOf_stmts ds h ss hs
  exact (TomlVerif.Lemmas.SoundDoc01U.stmtsOfText_iff _ _).2 ⟨qdocOf ds, h2, qdocOf_render ds, h1⟩

end TomlVerif.Lemmas.Macro19c
