import TomlVerif.Lemmas.Refine08cOps
import TomlVerif.Lemmas.Refine08cParse
/-! The two instances of the invariant: `spanPr n` is `EndsIn n (tblSpans ·)` (`DocSpansIn`),
    `cleanPr` gives `inlOK` at every value the tree holds (`NodeInlOK`). Both are families the ops keep. -/
namespace TomlVerif.Lemmas.Refine08c
open TomlVerif TomlVerif.Model TomlVerif.Model.Cst TomlVerif.Model.Edit TomlVerif.Model.Encode
open TomlVerif.Lemmas.Edit08 TomlVerif.Lemmas.Cst03 TomlVerif.Lemmas.Refine08bPrint
open TomlVerif.Lemmas.Refine08bSem TomlVerif.Lemmas.Spans14

/-- every recorded span ends at or before `n` -/
def spanPr (n : Nat) : Pr := ⟨fun r => EndsIn n (rawSp r), fun s => EndsIn n (optSp s), fun _ => True⟩

variable {n : Nat}

theorem DecOK_span (d : Decor) : DecOK (spanPr n) d ↔ EndsIn n (decorSp d) := by
  obtain ⟨pre, suf⟩ := d
  cases pre <;> cases suf <;> simp [DecOK, spanPr, decorSp, optRawSp]

theorem KeyOK_span (k : CKey) : KeyOK (spanPr n) k ↔ EndsIn n (keySpans k) := by
  simp only [KeyOK, DecOK_span, keySpans, endsIn_append, and_assoc]
  rfl

mutual
theorem VOK_span : ∀ v : CVal, VOK (spanPr n) v ↔ EndsIn n (valSpans v)
  | .scalar v r d => by
    simp only [VOK, valSpans, endsIn_append, DecOK_span]
    exact ⟨fun h => ⟨h.2.1, h.2.2⟩, fun h => ⟨trivial, h.1, h.2⟩⟩
  | .arr items t _ d sp => by
    simp only [VOK, valSpans, endsIn_append, DecOK_span, VsOK_span items, and_assoc]
    rfl
  | .inl items p _ _ d sp => by
    simp only [VOK, valSpans, endsIn_append, DecOK_span, KvsOK_span items, and_assoc]
    rfl
theorem VsOK_span : ∀ l : List CVal, VsOK (spanPr n) l ↔ EndsIn n (elemsSpans l)
  | [] => by simp [VsOK, elemsSpans]
  | v :: r => by simp only [VsOK, elemsSpans, endsIn_append, VOK_span v, VsOK_span r]
theorem KvsOK_span : ∀ l : List (CKey × CVal), KvsOK (spanPr n) l ↔ EndsIn n (kvsSpans l)
  | [] => by simp [KvsOK, kvsSpans]
  | (k, v) :: r => by
    simp only [KvsOK, kvsSpans, endsIn_append, KeyOK_span, VOK_span v, KvsOK_span r]
end

mutual
theorem TOK_span : ∀ t : CTbl, TOK (spanPr n) t ↔ EndsIn n (tblSpans t)
  | .mk items _ _ _ d sp => by
    simp only [TOK, tblSpans, endsIn_append, DecOK_span, IsOK_span items, and_assoc]
    rfl
theorem IsOK_span : ∀ l : List (CKey × CItem), IsOK (spanPr n) l ↔ EndsIn n (itemsSpans l)
  | [] => by simp [IsOK, itemsSpans]
  | (k, .value v) :: r => by
    simp only [IsOK, itemsSpans, endsIn_append, KeyOK_span, VOK_span v, IsOK_span r]
  | (k, .table t) :: r => by
    simp only [IsOK, itemsSpans, endsIn_append, KeyOK_span, TOK_span t, IsOK_span r]
  | (k, .aot ts sp) :: r => by
    simp only [IsOK, itemsSpans, endsIn_append, KeyOK_span, TsOK_span ts, IsOK_span r]
    rfl
theorem TsOK_span : ∀ l : List CTbl, TsOK (spanPr n) l ↔ EndsIn n (tblsSpans l)
  | [] => by simp [TsOK, tblsSpans]
  | t :: r => by simp only [TsOK, tblsSpans, endsIn_append, TOK_span t, TsOK_span r]
end

theorem spanPr_adm (n : Nat) : (spanPr n).Adm :=
  ⟨by simp [spanPr, rawSp], by simp [spanPr, optSp], fun _ => trivial⟩

theorem spanPr_le {n m : Nat} (h : n ≤ m) : (spanPr n).Le (spanPr m) :=
  ⟨fun _ hr => endsIn_mono hr h, fun _ hs => endsIn_mono hs h, fun _ _ => trivial⟩

/-- the family of `DocSpansIn`: the bound is the length of the arena -/
theorem spanFam : Fam (fun inp => spanPr inp.length) where
  adm inp := spanPr_adm _
  le inp x := spanPr_le (by simp)
  mkRaw inp t := by
    show EndsIn (inp ++ t).length (rawSp (mkRaw inp t).2)
    simp only [mkRaw, Raw.withSpan]
    split
    · simp [rawSp]
    · intro sp hs
      simp only [rawSp, List.mem_singleton] at hs
      subst hs
      simp

theorem cleanPr_adm : cleanPr.Adm := ⟨trivial, trivial, fun v => by cases v <;> rfl⟩

/-- the family of `NodeInlOK`: independent of the arena -/
theorem cleanFam : Fam (fun _ => cleanPr) where
  adm _ := cleanPr_adm
  le _ _ := ⟨fun _ h => h, fun _ h => h, fun _ h => h⟩
  mkRaw _ _ := trivial

mutual
theorem inlOK_of_clean : ∀ v : CVal, VOK cleanPr v → inlOK v = true
  | .scalar v _ _, h => by simp only [VOK] at h; simp only [inlOK]; exact h.1
  | .arr _ _ _ _ _, _ => rfl
  | .inl items _ _ _ _ _, h => by
    simp only [VOK] at h
    simp only [inlOK]
    exact inlKvsOK_of_clean items h.1
theorem inlKvsOK_of_clean : ∀ l : List (CKey × CVal), KvsOK cleanPr l → inlKvsOK l = true
  | [], _ => rfl
  | (k, v) :: r, h => by
    simp only [KvsOK] at h
    simp only [inlKvsOK, Bool.and_eq_true]
    exact ⟨inlOK_of_clean v h.1.2, inlKvsOK_of_clean r h.2⟩
end

/-- in a clean tree every node a path leads to is `NodeInlOK` -/
theorem nodeInlOK_of_clean (root : CTbl) (h : TOK cleanPr root) (p : List Seg) (n : Node)
    (hn : lookupTbl p root = some n) : NodeInlOK n := by
  have := look_ok_tbl p root n hn h
  cases n with
  | val v => exact inlOK_of_clean v this
  | tbl _ => trivial
  | aot _ _ => trivial

end TomlVerif.Lemmas.Refine08c
