import TomlVerif.Lemmas.DeLocated15
/-! Lemmas for Props/C15Located.lean, part 5: the rule that locates an error, as a relation (`Loc`), and the induction
    over the type grammar showing every error of `decodeLoc` obeys it. -/
namespace TomlVerif.Lemmas.DeLocated15
open TomlVerif TomlVerif.Model TomlVerif.Model.TomlValue TomlVerif.Model.DeRoutes TomlVerif.Model.DeText
open TomlVerif.Model.DeTyped TomlVerif.Model.Cst TomlVerif.Model.DeLocated

/-- `Loc it keys span`: the (keys, span) pairs an error raised while decoding the node `it` may carry.
    The keys are the table entries passed on the way down, outermost first, every one an entry of the node reached so
    far; array elements, the single entry of an enum's table and the numeric keys of a tuple variant's table are passed
    WITHOUT a key. The span is that of the innermost node on that way whose deserializer ran under a `map_err` and has a
    span (`fallback`), or the span of a key of the node reached (`key`), or — in an entry whose value gave no span —
    the value's span, else the entry key's (`entry`); `none` only if none of these exists. -/
inductive Loc : CItem → List Bytes → Option Span → Prop where
  /-- an error just raised by a visitor: no span, no keys -/
  | pending (it : CItem) : Loc it [] none
  /-- a key of the node: unknown variant, unexpected key of a struct variant, wrong index key, not the date-time key -/
  | key {it : CItem} {es : List (CKey × CItem)} {k : CKey} {v : CItem} :
      citemEntries it = some es → (k, v) ∈ es → Loc it [] (keySpan k)
  /-- `TableMapAccess::next_value_seed` -/
  | entry {it : CItem} {es : List (CKey × CItem)} {k : CKey} {v : CItem} {ks : List Bytes} {sp : Option Span} :
      citemEntries it = some es → (k, v) ∈ es → Loc v ks sp →
      Loc it (k.key :: ks) (if sp.isNone then entrySpan k v else sp)
  /-- `ArraySeqAccess::next_element_seed` -/
  | elem {it : CItem} {l : List CItem} {v : CItem} {ks : List Bytes} {sp : Option Span} :
      citemElems it = some l → v ∈ l → Loc v ks sp → Loc it ks sp
  /-- the payload of an enum read from a one-entry table -/
  | variant {it : CItem} {k : CKey} {v : CItem} {ks : List Bytes} {sp : Option Span} :
      citemEntries it = some [(k, v)] → Loc v ks sp → Loc it ks sp
  /-- a component of a tuple variant read from a table with the keys "0", "1", … -/
  | index {it : CItem} {es : List (CKey × CItem)} {k : CKey} {v : CItem} {ks : List Bytes} {sp : Option Span} :
      citemEntries it = some es → (k, v) ∈ es → (parseUsize k.key).isSome = true → Loc v ks sp → Loc it ks sp
  /-- the `map_err` of a `ValueDeserializer` method: the node's span when there is none yet -/
  | fallback {it : CItem} {ks : List Bytes} : Loc it ks none → Loc it ks it.span

/-- every error of `x` is located by the rule, relative to `it` -/
def LocE {α} (it : CItem) (x : LR α) : Prop := ∀ e, x = .error e → Loc it e.keys e.span

theorem Loc.self (it : CItem) : Loc it [] it.span := .fallback (.pending it)

theorem locE_ok {α} (it : CItem) (a : α) : LocE it (.ok a : LR α) := by intro e h; cases h
theorem locE_vfail {α} (it : CItem) : LocE it (vfail : LR α) := by
  intro e h; cases h; exact .pending it
theorem locE_liftV {α} (it : CItem) (r : R α) : LocE it (liftV r) := by
  cases r with
  | ok a => exact locE_ok it a
  | error x => exact locE_vfail it
theorem locE_failAt_self {α} (it : CItem) : LocE it (failAt it.span : LR α) := by
  intro e h; cases h; exact Loc.self it

theorem locE_atSpan {α} (it : CItem) (x : LR α) (h : LocE it x) : LocE it (atSpan it.span x) := by
  intro e he
  cases x with
  | ok a => cases he
  | error e0 =>
    have h0 := h e0 rfl
    cases hs : e0.span with
    | none =>
      rw [hs] at h0
      simp only [atSpan, hs, Option.isNone_none, if_true, Except.error.injEq] at he
      rw [← he]
      exact Loc.fallback h0
    | some s =>
      simp only [atSpan, hs, Option.isNone_some, Bool.false_eq_true, if_false, Except.error.injEq] at he
      rw [← he]
      exact h0

theorem locE_lmap {α β} (it : CItem) (f : α → β) (x : LR α) (h : LocE it x) : LocE it (lmap f x) := by
  intro e he
  cases x with
  | ok a => cases he
  | error e0 => cases he; exact h _ rfl

theorem lcons_error {α} (a : LR α) (l : LR (List α)) (e : LErr) (h : lcons a l = .error e) :
    a = .error e ∨ l = .error e := by
  cases a with
  | error e0 => cases h; exact Or.inl rfl
  | ok x =>
    cases l with
    | error e1 => cases h; exact Or.inr rfl
    | ok y => cases h

theorem mapL_error {α β} (f : α → LR β) : ∀ (l : List α) (e : LErr), mapL f l = .error e → ∃ a ∈ l, f a = .error e
  | [], e, h => by cases h
  | a :: r, e, h => by
    rcases lcons_error _ _ _ h with h1 | h1
    · exact ⟨a, List.mem_cons_self .., h1⟩
    · obtain ⟨x, hx, hf⟩ := mapL_error f r e h1
      exact ⟨x, List.mem_cons_of_mem _ hx, hf⟩

theorem inEntry_error {α} (sp : Option Span) (k : Bytes) (x : LR α) (e : LErr) (h : inEntry sp k x = .error e) :
    ∃ e0, x = .error e0 ∧ e = ⟨if e0.span.isNone then sp else e0.span, k :: e0.keys⟩ := by
  cases x with
  | ok a => cases h
  | error e0 => cases h; exact ⟨_, rfl, rfl⟩

theorem lmap_error {α β} (f : α → β) (x : LR α) (e : LErr) (h : lmap f x = .error e) : x = .error e := by
  cases x with
  | ok a => cases h
  | error e0 => cases h; rfl

theorem liftV_error {α} (r : R α) (e : LErr) (h : liftV r = .error e) : e = visitorErr := by
  cases r with
  | ok a => cases h
  | error x => cases h; rfl

/-- where an `LSrc` of `locMapEntries it` comes from -/
theorem srcs_item_mem (it : CItem) (es : List (Bytes × LSrc)) (h : locMapEntries it = some es) (key : Bytes) (k : CKey) (i : CItem)
    (hkv : (key, LSrc.item k i) ∈ es) : ∃ ces, citemEntries it = some ces ∧ (k, i) ∈ ces := by
  unfold locMapEntries at h
  split at h
  · simp only [Option.some.injEq] at h
    subst h
    simp at hkv
  · cases hc : citemEntries it with
    | none => rw [hc] at h; simp at h
    | some ces =>
      rw [hc] at h
      simp only [Option.map_some, Option.some.injEq] at h
      subst h
      simp only [List.mem_map] at hkv
      obtain ⟨x, hx, hxe⟩ := hkv
      simp only [Prod.mk.injEq, LSrc.item.injEq] at hxe
      obtain ⟨_, hk, hi⟩ := hxe
      exact ⟨ces, rfl, by rw [← hk, ← hi]; exact hx⟩

/-- what an entry's `next_value_seed` error looks like -/
def EntryLoc (src : LSrc) (e : LErr) : Prop :=
  match src with
  | .item key i => ∃ ks sp, Loc i ks sp ∧ e = ⟨if sp.isNone then entrySpan key i else sp, key.key :: ks⟩
  | .str _ => e = visitorErr

theorem entryLoc_to_loc (it : CItem) (es : List (Bytes × LSrc)) (h : locMapEntries it = some es) (key : Bytes) (src : LSrc)
    (hm : (key, src) ∈ es) (e : LErr) (he : EntryLoc src e) : Loc it e.keys e.span := by
  cases src with
  | str s => simp only [EntryLoc] at he; subst he; exact .pending it
  | item k i =>
    obtain ⟨ks, sp, hl, rfl⟩ := he
    obtain ⟨ces, hc, hmem⟩ := srcs_item_mem it es h key k i hm
    exact .entry hc hmem hl

theorem walk_error {σ} (known : Bytes → Bool) (f : Bytes → σ → LR (Option Dec)) :
    ∀ (es : List (Bytes × σ)) (seen : List Bytes) (e : LErr), walkEntries visitorErr known f seen es = .error e →
    e = visitorErr ∨ ∃ kv ∈ es, f kv.1 kv.2 = .error e
  | [], _, e, h => by cases h
  | (k, s) :: r, seen, e, h => by
    unfold walkEntries at h
    split at h
    · cases h; exact Or.inl rfl
    · cases hf : f k s with
      | error e0 => rw [hf] at h; cases h; exact Or.inr ⟨(k, s), List.mem_cons_self .., hf⟩
      | ok o =>
        rw [hf] at h
        cases o with
        | none =>
          rcases walk_error known f r seen e h with h1 | ⟨kv, hkv, h1⟩
          · exact Or.inl h1
          · exact Or.inr ⟨kv, List.mem_cons_of_mem _ hkv, h1⟩
        | some d =>
          simp only [] at h
          cases hw : walkEntries visitorErr known f (k :: seen) r with
          | ok ds => rw [hw] at h; cases h
          | error e1 =>
            rw [hw] at h; cases h
            rcases walk_error known f r (k :: seen) e hw with h1 | ⟨kv, hkv, h1⟩
            · exact Or.inl h1
            · exact Or.inr ⟨kv, List.mem_cons_of_mem _ hkv, h1⟩

theorem fill_error : ∀ (fs : Fields) (ds : List (Bytes × Dec)) (e : LErr), fillFields visitorErr fs ds = .error e → e = visitorErr
  | .nil, _, e, h => by cases h
  | .cons name t dflt r, ds, e, h => by
    unfold fillFields at h
    simp only [] at h
    split at h
    · rename_i e0 hh
      cases h
      split at hh
      · cases hh
      · split at hh
        · cases hh
        · split at hh
          · cases hh
          · cases hh; rfl
    · split at h
      · rename_i e1 hf
        cases h
        exact fill_error r ds _ hf
      · cases h

/-- the `visit_map` of a derived struct obeys the rule -/
theorem struct_body_loc {α} (it : CItem) (fs : Fields) (C : List (Bytes × Dec) → α) (f : Bytes → LSrc → LR (Option Dec))
    (es : List (Bytes × LSrc)) (hl : locMapEntries it = some es)
    (hf : ∀ kv ∈ es, ∀ e, f kv.1 kv.2 = .error e → EntryLoc kv.2 e) :
    LocE it (match walkEntries visitorErr fs.hasName f [] es with
             | .error e => .error e
             | .ok ds => lmap C (fillFields visitorErr fs ds)) := by
  intro e he
  cases hw : walkEntries visitorErr fs.hasName f [] es with
  | error e0 =>
    rw [hw] at he; cases he
    rcases walk_error _ _ _ _ _ hw with h1 | ⟨kv, hkv, h1⟩
    · subst h1; exact .pending it
    · exact entryLoc_to_loc it es hl kv.1 kv.2 hkv e (hf kv hkv e h1)
  | ok ds =>
    rw [hw] at he
    have := fill_error fs ds e (lmap_error _ _ _ he)
    subst this; exact .pending it

theorem firstExtraKey_mem (fs : Fields) : ∀ (es : List (CKey × CItem)) (k : CKey), firstExtraKey fs es = some k →
    ∃ v, (k, v) ∈ es
  | [], k, h => by cases h
  | (k0, v0) :: r, k, h => by
    unfold firstExtraKey at h
    split at h
    · obtain ⟨v, hv⟩ := firstExtraKey_mem fs r k h
      exact ⟨v, List.mem_cons_of_mem _ hv⟩
    · cases h; exact ⟨v0, List.mem_cons_self ..⟩

theorem firstBadIndex_mem : ∀ (es : List (CKey × CItem)) (i : Nat) (k : CKey), firstBadIndex i es = some k →
    ∃ v, (k, v) ∈ es
  | [], _, k, h => by cases h
  | (k0, v0) :: r, i, k, h => by
    unfold firstBadIndex at h
    split at h
    · obtain ⟨v, hv⟩ := firstBadIndex_mem r (i + 1) k h
      exact ⟨v, List.mem_cons_of_mem _ hv⟩
    · cases h; exact ⟨v0, List.mem_cons_self ..⟩

theorem firstBadIndex_none : ∀ (es : List (CKey × CItem)) (i : Nat), firstBadIndex i es = none →
    ∀ kv ∈ es, (parseUsize kv.1.key).isSome = true
  | [], _, _, kv, hkv => by cases hkv
  | (k0, v0) :: r, i, h, kv, hkv => by
    unfold firstBadIndex at h
    split at h
    · rename_i hp
      rcases List.mem_cons.1 hkv with h1 | h1
      · subst h1
        have : parseUsize k0.key = some i := by simpa using hp
        simp [this]
      · exact firstBadIndex_none r (i + 1) h kv h1
    · cases h

end TomlVerif.Lemmas.DeLocated15
