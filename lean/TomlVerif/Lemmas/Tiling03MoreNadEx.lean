import TomlVerif.Lemmas.Tiling03MoreNadMain
import TomlVerif.Spec.Encode06
/-! C03, same data for NON-adjacent dotted keys — the decidable hypotheses of the lemmas of
    `Tiling03MoreNad*.lean` on concrete inputs (non-vacuity). -/
namespace TomlVerif.Lemmas.Tiling03More.Nad
open TomlVerif TomlVerif.Spec TomlVerif.Model TomlVerif.Model.Strings TomlVerif.Model.Value
open TomlVerif.Model.Cst TomlVerif.Model.Encode TomlVerif.Lemmas.Tiling03Nest TomlVerif.Lemmas.Tiling03More

/-- two levels of dotted keys, none adjacent; an inline table with dotted keys as a value -/
def exN : Bytes := strBytes "a.x.p = 1 # c1\na.y = 2\nq = {u.v = 1}\na.x.q = 3\n"

/-- the state after the first three key/value lines, and the rest -/
def afterKv3 (s : Bytes) : Option (CState × Bytes) :=
  (ckeyvalLine s.length {} s).bind fun p =>
    (ckeyvalLine s.length (parseWs s.length p.1 p.2).1 (parseWs s.length p.1 p.2).2).bind fun q =>
      (ckeyvalLine s.length (parseWs s.length q.1 q.2).1 (parseWs s.length q.1 q.2).2).map fun u =>
        ((parseWs s.length u.1 u.2).1, (parseWs s.length u.1 u.2).2)

/-- `kvLineOkN_use`, `kv_descendN`, `keyval_step_N`: the fourth line (`a.x.q`, after `a.y` and `q`)
    passes `dottedOkN`, fails the adjacency check, and is accepted; the body it meets is a
    `bodyOkN` body -/
example : ((afterKv3 exN).map fun p => kvLineOkN exN p.1 p.2) = some true ∧
    ((afterKv3 exN).map fun p => kvLineOkA exN p.1 p.2) = some false ∧
    ((afterKv3 exN).map fun p => (ckeyvalLine exN.length p.1 p.2).isSome) = some true ∧
    ((afterKv3 exN).map fun p => bodyOkN p.1.current.items && bodyOkU p.1.current.items) = some true := by
  decide +kernel

/-- `replay_body`, `flat_stmts`, `flatN_ne`, `run_body`: the parsed body satisfies `bodyOkN`;
    replaying its statements into the emptied table rebuilds it (decidable form of the
    conclusion); one statement per flattened entry -/
example : ((parseCst exN).map fun d => bodyOkN d.root.items) = some true ∧
    ((parseCst exN).map fun d => Spec.Encode06.beqOptTbl
      (replay true ((eraseTbl d.root).setItems []) (flatN d.root.items)) (some (eraseTbl d.root))) = some true ∧
    ((parseCst exN).map fun d => (valuesTbl d.root.items []).length) = some 4 ∧
    ((parseCst exN).map fun d => (flatN d.root.items).length) = some 4 := by decide +kernel

/-- `replay_push_new`, `replay_push_some`: statements under a common first segment -/
example : Spec.Encode06.beqOptTbl
    (replay true Tbl.empty ([([[0x78]], [0x70], .int 1), ([], [0x79], .int 2)].map (push [0x61])))
    ((replay false (State.newImplicit true) [([[0x78]], [0x70], .int 1), ([], [0x79], .int 2)]).map
      (fun s' => Tbl.empty.setItems (Tbl.empty.items ++ [([0x61], .table s')]))) = true ∧
    (replay true Tbl.empty ([([[0x78]], [0x70], .int 1), ([], [0x79], .int 2)].map (push [0x61]))).isSome = true := by
  decide +kernel

/-- `clines_ninv`, `same_data_nad`, `runOkA_N`: the whole run -/
example : nadRun exN = true ∧ adjRun exN = false ∧ (parseCst exN).isSome = true ∧
    adjRun (strBytes "a.b = 1\na.c = 2\n") = true ∧ nadRun (strBytes "a.b = 1\na.c = 2\n") = true := by decide +kernel

end TomlVerif.Lemmas.Tiling03More.Nad
