import TomlVerif.Lemmas.Sound01Datetime
/-! C19 (text): the date-time parser treats a blank and `T` between date and time alike. -/
namespace TomlVerif.Lemmas.Macro19c
open TomlVerif TomlVerif.Spec TomlVerif.Model TomlVerif.Model.Datetime TomlVerif.Lemmas.Sound01

/-- `fullDate_local` with the length of the consumed token: a date is exactly ten bytes -/
theorem fullDate_local10 (s r : Bytes) (d : Date) (h : Doc.fullDate s = .ok d r) :
    ∃ tok, s = tok ++ r ∧ tok.length = 10 ∧ ∀ r', Doc.fullDate (tok ++ r') = .ok d r' := by
  unfold Doc.fullDate at h
  cases h4 : digits4 s with
  | none => rw [h4] at h; cases h
  | some p =>
    obtain ⟨year, r0⟩ := p
    obtain ⟨a, b, c, dd, e4, ha, _, _, _, loc4⟩ := digits4_split _ _ _ h4
    rw [h4] at h
    simp only [] at h
    split at h
    · rename_i r1
      cases h2 : digits2 r1 with
      | none => rw [h2] at h; cases h
      | some p2 =>
        obtain ⟨month, r2⟩ := p2
        obtain ⟨m1, m2, e2, _, _, _, loc2⟩ := digits2_split _ _ _ h2
        rw [h2] at h
        simp only [] at h
        split at h
        · cases h
        · rename_i hm
          split at h
          · rename_i r3
            cases h2' : digits2 r3 with
            | none => rw [h2'] at h; cases h
            | some p3 =>
              obtain ⟨day, r4⟩ := p3
              obtain ⟨d1, d2, e3, _, _, _, loc3⟩ := digits2_split _ _ _ h2'
              rw [h2'] at h
              simp only [] at h
              split at h
              · cases h
              · rename_i hday
                split at h
                · cases h
                · rename_i hmax
                  injection h with h1 h2
                  subst h1 h2
                  refine ⟨[a, b, c, dd, 0x2D, m1, m2, 0x2D, d1, d2], by rw [e4, e2, e3]; simp, rfl, ?_⟩
                  intro r'
                  unfold Doc.fullDate
                  simp only [List.cons_append, List.nil_append, loc4, loc2]
                  rw [if_neg hm]
                  simp only [loc3]
                  rw [if_neg hday, if_neg hmax]
          · cases h
    · cases h

/-- a date-time written with `T` between a ten-byte date and the time reads the same with a blank -/
theorem dateTime_sp (a b c d : Byte) (X W : Bytes) (hl : (a :: b :: c :: d :: 0x2D :: X).length = 10)
    (ha : isDigit a = true) (hb : isDigit b = true) (hc : isDigit c = true) (hd : isDigit d = true) (dt : Datetime)
    (h : Doc.dateTime ((a :: b :: c :: d :: 0x2D :: X) ++ 0x54 :: W) = .ok dt []) :
    Doc.dateTime ((a :: b :: c :: d :: 0x2D :: X) ++ 0x20 :: W) = .ok dt [] := by
  cases hf : Doc.fullDate ((a :: b :: c :: d :: 0x2D :: X) ++ 0x54 :: W) with
  | bt => exact absurd hf (fullDate_ne_bt a b c d _ ha hb hc hd)
  | cut => unfold Doc.dateTime at h; rw [hf] at h; cases h
  | ok dd r =>
    obtain ⟨tok, e, hlen, loc⟩ := fullDate_local10 _ _ _ hf
    obtain ⟨e1, e2⟩ := List.append_inj e (by rw [hl, hlen])
    subst e1 e2
    have hf2 := loc (0x20 :: W)
    unfold Doc.dateTime at h ⊢
    rw [hf] at h
    rw [hf2]
    have t1 : Doc.isTimeDelim 0x54 = true := by decide
    have t2 : Doc.isTimeDelim 0x20 = true := by decide
    simp only [t1, t2, if_true] at h ⊢
    cases hp : Doc.partialTime W with
    | bt => rw [hp] at h; simp only [] at h; injection h with _ h; cases h
    | cut => rw [hp] at h; cases h
    | ok t r'' => rw [hp] at h; simpa using h

end TomlVerif.Lemmas.Macro19c
