import TomlVerif.Lemmas.Tiling03MoreEraseValue
import TomlVerif.Lemmas.Tiling03MoreEraseState
/-! Erasure simulation, layer 6 (C03): the line driver.  The format-preserving parser
    (`Cst.parseCst`) decodes exactly the tree of the semantic parser (`Doc.parseDocument`). -/
namespace TomlVerif.Lemmas.Tiling03More
open TomlVerif TomlVerif.Spec TomlVerif.Model TomlVerif.Model.Strings TomlVerif.Model.Value
open TomlVerif.Model.Cst

/-- erasing the result of a line parser -/
def eraseStep (p : CState × Bytes) : State.ParseState × Bytes := (eraseState p.1, p.2)

theorem ckeyvalLine_erase (n : Nat) (st : CState) (s : Bytes) :
    (ckeyvalLine n st s).map eraseStep = Doc.keyvalLine (eraseState st) s := by
  unfold ckeyvalLine Doc.keyvalLine
  rw [← ckeyPath_erase n s]
  cases ckeyPath n s with
  | bt => rfl
  | cut => rfl
  | ok ks r =>
    simp only [map_ok, keysOf_length]
    by_cases hl : LIMIT ≤ ks.length - 1
    · simp only [hl, if_true]; rfl
    · simp only [hl, if_false]
      split
      · rename_i r1
        simp only []
        rw [← cvalue_erase n]
        cases cvalue n (3 * r1.length + 4) (ks.length - 1) (dropWs r1) with
        | bt => rfl
        | cut => rfl
        | ok v r2 =>
          simp only [map_ok]
          cases lineTrailing r2 with
          | bt => rfl
          | cut => rfl
          | ok u r3 =>
            simp only []
            rw [vsplitLast_keysOf]
            cases Value.splitLast ks with
            | none => rfl
            | some p =>
              obtain ⟨path, key⟩ := p
              simp only [Option.map_some]
              rw [← eraseVal_setDecor v (Decor.new (rawBetween n r1 (dropWs r1)) (rawBetween n r2 (trailEnd r2))),
                ← onKeyval_erase]
              cases onKeyval st path key _ with
              | none => rfl
              | some st' => rfl
      · rename_i hne
        split
        · rename_i r1; exact absurd rfl (hne r1)
        · rfl

/-- the tail of an `[[…]]` header line -/
theorem aotLine_erase (n : Nat) (st : CState) (s r : Bytes) :
    (match ckeyPath n r with
      | .ok ks r1 =>
        match r1 with
        | 0x5D :: 0x5D :: r2 =>
          match lineTrailing r2 with
          | .ok () r3 => (onArrayHeader st ks (rawBetween n r2 (trailEnd r2)) (pos n s, pos n r2)).map fun st' => (st', r3)
          | _ => none
        | _ => none
      | _ => none : Option (CState × Bytes)).map eraseStep =
    (match keyPath r with
      | .ok ks r1 =>
        match r1 with
        | 0x5D :: 0x5D :: r2 =>
          match lineTrailing r2 with
          | .ok () r3 => (State.onArrayHeader (eraseState st) ks).map fun st' => (st', r3)
          | _ => none
        | _ => none
      | _ => none) := by
  rw [← ckeyPath_erase n r]
  cases ckeyPath n r with
  | bt => rfl
  | cut => rfl
  | ok ks r1 =>
    simp only [map_ok]
    split
    · rename_i r2
      cases lineTrailing r2 with
      | bt => rfl
      | cut => rfl
      | ok u r3 =>
        simp only []
        rw [← onArrayHeader_erase st ks (rawBetween n r2 (trailEnd r2)) (pos n s, pos n r2)]
        cases onArrayHeader st ks _ _ with
        | none => rfl
        | some st' => rfl
    · rfl

/-- the tail of a `[…]` header line -/
theorem stdLine_erase (n : Nat) (st : CState) (s r : Bytes) :
    (match ckeyPath n r with
      | .ok ks r1 =>
        match r1 with
        | 0x5D :: r2 =>
          match lineTrailing r2 with
          | .ok () r3 => (onStdHeader st ks (rawBetween n r2 (trailEnd r2)) (pos n s, pos n r2)).map fun st' => (st', r3)
          | _ => none
        | _ => none
      | _ => none : Option (CState × Bytes)).map eraseStep =
    (match keyPath r with
      | .ok ks r1 =>
        match r1 with
        | 0x5D :: r2 =>
          match lineTrailing r2 with
          | .ok () r3 => (State.onStdHeader (eraseState st) ks).map fun st' => (st', r3)
          | _ => none
        | _ => none
      | _ => none) := by
  rw [← ckeyPath_erase n r]
  cases ckeyPath n r with
  | bt => rfl
  | cut => rfl
  | ok ks r1 =>
    simp only [map_ok]
    split
    · rename_i r2
      cases lineTrailing r2 with
      | bt => rfl
      | cut => rfl
      | ok u r3 =>
        simp only []
        rw [← onStdHeader_erase st ks (rawBetween n r2 (trailEnd r2)) (pos n s, pos n r2)]
        cases onStdHeader st ks _ _ with
        | none => rfl
        | some st' => rfl
    · rfl

theorem ctableLine_erase (n : Nat) (st : CState) (s : Bytes) :
    (ctableLine n st s).map eraseStep = Doc.tableLine (eraseState st) s := by
  conv => rhs; unfold Doc.tableLine
  split
  · rename_i r
    unfold ctableLine
    exact aotLine_erase n st _ r
  · rename_i r hne
    unfold ctableLine
    split
    · rename_i r' heq
      injection heq with _ h2
      exact absurd h2 (hne r')
    · rename_i r' hne' heq
      injection heq with _ h2
      subst h2
      cases r with
      | nil => rfl
      | cons c t =>
        simp only [List.isEmpty_cons, Bool.false_eq_true, if_false]
        exact stdLine_erase n st _ (c :: t)
    · rename_i h1 h2
      exact absurd rfl (h2 r)
  · rename_i h1 h2
    unfold ctableLine
    split
    · rename_i r; exact absurd rfl (h1 r)
    · rename_i r _; exact absurd rfl (h2 r)
    · rfl

theorem parseWs_fst_erase (n : Nat) (st : CState) (s : Bytes) :
    eraseState (parseWs n st s).1 = eraseState st := by
  unfold parseWs
  exact onWs_erase _ _ _

theorem parseWs_snd (n : Nat) (st : CState) (s : Bytes) : (parseWs n st s).2 = dropWs s := rfl

theorem clines_erase (n : Nat) : ∀ (fuel : Nat) (st : CState) (s : Bytes),
    (clines n fuel st s).map eraseState = Doc.lines fuel (eraseState st) s := by
  intro fuel
  induction fuel with
  | zero => intro st s; rfl
  | succ fuel ih =>
    intro st s
    unfold clines Doc.lines
    cases s with
    | nil => rfl
    | cons b r =>
      simp only []
      by_cases h1 : (b == 0x23) = true
      · simp only [h1, if_true]
        generalize dropComment r = r1
        cases r1 with
        | nil =>
          simp only [Option.map_some, parseWs_fst_erase, onWs_erase]
        | cons c t =>
          simp only []
          cases newline? (c :: t) with
          | none => rfl
          | some r2 =>
            simp only []
            rw [ih, parseWs_fst_erase, onWs_erase, parseWs_snd]
      · simp only [h1, Bool.false_eq_true, if_false]
        by_cases h2 : (b == 0x5B) = true
        · simp only [h2, if_true]
          rw [← ctableLine_erase n]
          cases ctableLine n st (b :: r) with
          | none => rfl
          | some p =>
            obtain ⟨st', r1⟩ := p
            simp only [Option.map_some, eraseStep]
            rw [ih, parseWs_fst_erase, parseWs_snd]
        · simp only [h2, Bool.false_eq_true, if_false]
          by_cases h3 : (b == 0x0A || b == 0x0D) = true
          · simp only [h3, if_true]
            cases newline? (b :: r) with
            | none => rfl
            | some r1 =>
              simp only []
              rw [ih, parseWs_fst_erase, onWs_erase, parseWs_snd]
          · simp only [h3, Bool.false_eq_true, if_false]
            rw [← ckeyvalLine_erase n]
            cases ckeyvalLine n st (b :: r) with
            | none => rfl
            | some p =>
              obtain ⟨st', r1⟩ := p
              simp only [Option.map_some, eraseStep]
              rw [ih, parseWs_fst_erase, parseWs_snd]

theorem eraseState_init : eraseState {} = {} := by
  simp [eraseState, eraseTbl, eraseItems, Tbl.empty, CTbl.empty]

/-- **The format-preserving parser decodes the same data as the semantic one**: the layout-free
    tree of what `parseCst` accepts is what `parseDocument` returns, and they reject the same texts. -/
theorem cst_erases_to_doc (s : Bytes) :
    (Cst.parseCst s).map (fun d => Cst.eraseTbl d.root) = Doc.parseDocument s := by
  unfold Cst.parseCst Doc.parseDocument
  simp only []
  rw [parseWs_snd, ← eraseState_init, ← parseWs_fst_erase s.length {} (Doc.stripBom s), ← clines_erase]
  cases clines s.length ((dropWs (Doc.stripBom s)).length + 1) (parseWs s.length {} (Doc.stripBom s)).1
      (dropWs (Doc.stripBom s)) with
  | none => rfl
  | some st => exact intoDocument_erase st

/-- the two entry points on byte slices agree as well -/
theorem cstSlice_erases_to_doc (b : Bytes) :
    (Cst.parseCstSlice b).map (fun d => Cst.eraseTbl d.root) = Doc.parseSlice b := by
  unfold Cst.parseCstSlice Doc.parseSlice
  split
  · exact cst_erases_to_doc b
  · rfl

/-- acceptance agrees -/
theorem parseCst_isSome (s : Bytes) : (Cst.parseCst s).isSome = (Doc.parseDocument s).isSome := by
  rw [← cst_erases_to_doc]; simp

/-- non-vacuity: a document with a dotted key, a header, an inline table holding an array, and an
    array of tables is accepted by both parsers -/
example : (Doc.parseDocument (strBytes "a.b = 1\n[t]\nx = {y = [1, 2]}\n[[u]]\n")).isSome = true := by
  decide +kernel
example : (Cst.parseCst (strBytes "a.b = 1\n[t]\nx = {y = [1, 2]}\n[[u]]\n")).isSome = true := by
  decide +kernel

#print axioms cst_erases_to_doc
