import TomlVerif.Lemmas.Macro19bVal
/-! C19 (full): whole documents through `@toplevel`. A document is a list of statements `key = value`, `[key]`,
    `[[key]]` (`DStmt`); `spellDoc` is its token list, `docSem` its meaning for the macro: the three run-time
    helpers of macros.rs folded over the statements. `toplevel_doc`: the muncher computes exactly `docSem`. -/
namespace TomlVerif.Lemmas.Macro19b
open TomlVerif TomlVerif.Model TomlVerif.Model.Macro TomlVerif.Lemmas.Macro19

inductive DStmt where
  | kv (k : MKey) (v : MTree)
  | std (k : MKey)
  | arr (k : MKey)

def DStmt.toks : DStmt → List TT
  | .kv k v => k.toks ++ eqT :: v.toks
  | .std k => [.group .bracket k.toks]
  | .arr k => [.group .bracket [.group .bracket k.toks]]

/-- the tokens of the document (statements are separated by blanks or line ends only, which rustc drops) -/
def spellDoc : List DStmt → List TT
  | [] => []
  | s :: r => s.toks ++ spellDoc r

/-- the meaning of a document for the macro: `root` is the value built so far, `path` the last header -/
def docSem (keep : Bool) : List DStmt → MVal → List Bytes → R MVal
  | [], root, _ => .ok root
  | .kv k v :: r, root, path =>
    match k.path with
    | none => .unsupported
    | some ks => R.bind v.sem fun x =>
      match insertToml root (path ++ ks) x with
      | some root' => docSem keep r root' path
      | none => .panic
  | .std k :: r, root, _ =>
    match k.path with
    | none => .unsupported
    | some p =>
      match headerTable keep root p with
      | some root' => docSem keep r root' p
      | none => .panic
  | .arr k :: r, root, _ =>
    match k.path with
    | none => .unsupported
    | some p =>
      match pushToml root p with
      | some root' => docSem keep r root' p
      | none => .panic

def docCost : List DStmt → Nat
  | [] => 1
  | .kv _ v :: r => v.cost + 2 + docCost r
  | _ :: r => 1 + docCost r

/-- what may follow a statement: nothing, or a token that is not punctuation and whose successor is not `:` -/
def DocRest (rest : List TT) : Prop :=
  (∀ t r, rest = t :: r → ∀ c, isP c t = false) ∧ (∀ t u r, rest = t :: u :: r → isP 0x3A u = false)

theorem docRest_nil : DocRest [] := by
  constructor
  · intro t r h; cases h
  · intro t u r h; cases h

theorem docRest_top {rest : List TT} (h : DocRest rest) : RestTopOk rest :=
  ⟨fun t r e => ⟨h.1 t r e _, h.1 t r e _, h.1 t r e _⟩, h.2⟩

theorem key_second (k : MKey) (x : List TT) :
    ∃ c r, k.toks ++ eqT :: x = k.head.head.tt :: pc c :: r ∧ isP 0x3A (pc c) = false := by
  obtain ⟨⟨a, tl⟩, segs⟩ := k
  cases tl with
  | cons b r => exact ⟨0x2D, _, rfl, rfl⟩
  | nil =>
    cases segs with
    | cons s r => exact ⟨0x2E, _, rfl, rfl⟩
    | nil => exact ⟨0x3D, _, rfl, rfl⟩

theorem docRest_spellDoc (l : List DStmt) : DocRest (spellDoc l) := by
  cases l with
  | nil => exact docRest_nil
  | cons s r =>
    cases s with
    | kv k v =>
      constructor
      · intro t r' h c
        simp [spellDoc, DStmt.toks, MKey.toks, Seg.toks] at h
        rw [← h.1]; simp
      · intro t u r' h
        obtain ⟨c, r2, hc, hcc⟩ := key_second k (v.toks ++ spellDoc r)
        have h' : k.toks ++ eqT :: (v.toks ++ spellDoc r) = t :: u :: r' := by
          simpa [spellDoc, DStmt.toks] using h
        rw [hc] at h'
        injection h' with h1 h2
        injection h2 with h2 h3
        rw [← h2]; exact hcc
    | std k =>
      constructor
      · intro t r' h c
        simp [spellDoc, DStmt.toks] at h
        rw [← h.1]; simp
      · intro t u r' h
        simp only [spellDoc, DStmt.toks, List.cons_append, List.nil_append] at h
        injection h with h1 h2
        exact (docRest_spellDoc r).1 u r' h2 _
    | arr k =>
      constructor
      · intro t r' h c
        simp [spellDoc, DStmt.toks] at h
        rw [← h.1]; simp
      · intro t u r' h
        simp only [spellDoc, DStmt.toks, List.cons_append, List.nil_append] at h
        injection h with h1 h2
        exact (docRest_spellDoc r).1 u r' h2 _

/-! ## a value at the top level -/

/-- the value arms of `@toplevel`: sign rewriting, the eleven date-time arms, `$v:tt` -/
def readTop (fuel : Nat) (after0 : List TT) : R (MVal × List TT) :=
  let after := rewriteSignTop after0
  match firstDt [] after dtArms with
  | some (dts, rest) => R.bind (dtValue dts) fun v => .ok (v, rest)
  | none =>
    match after with
    | v :: rest => R.bind (value fuel v) fun x => .ok (x, rest)
    | [] => .unsupported

theorem rewriteSignTop_ne (l : List TT) (h : l ≠ []) : rewriteSignTop l ≠ [] := by
  unfold rewriteSignTop
  split
  · split
    · simp
    · split
      · simp
      · exact h
  · exact h

theorem toplevel_kv_eq (keep : Bool) (fuel : Nat) (root : MVal) (path : List Bytes) (ts : List TT)
    (segs : List (List TT)) (after0 : List TT) (hk : keyPath ts [] [] = some (segs, after0)) (hne : after0 ≠ []) :
    toplevel keep (fuel + 1) root path ts =
      match segsStr segs with
      | none => .unsupported
      | some ks => R.bind (readTop fuel after0) fun p =>
        match insertToml root (path ++ ks) p.1 with
        | some root' => toplevel keep fuel root' path p.2
        | none => .panic := by
  rw [toplevel.eq_def]
  cases ts with
  | nil => simp [keyPath] at hk
  | cons t0 r0 =>
    simp only [hk]
    unfold readTop
    simp only []
    cases hfd : firstDt [] (rewriteSignTop after0) dtArms with
    | some p =>
      obtain ⟨dts, rest⟩ := p
      simp only []
      cases segsStr segs with
      | none => rfl
      | some ks =>
        simp only []
        cases dtValue dts with
        | ok v => simp only [R.bind]; cases insertToml root (path ++ ks) v <;> rfl
        | unsupported => rfl
        | panic => rfl
    | none =>
      simp only []
      cases hr : rewriteSignTop after0 with
      | nil => exact absurd hr (rewriteSignTop_ne _ hne)
      | cons v rest =>
        simp only []
        cases segsStr segs with
        | none => rfl
        | some ks =>
          simp only []
          cases value fuel v with
          | ok x => simp only [R.bind]; cases insertToml root (path ++ ks) x <;> rfl
          | unsupported => rfl
          | panic => rfl

theorem firstDt_none_top (m : TT) (rest : List TT) (h : DocRest rest) : firstDt [] (m :: rest) dtArms = none := by
  cases rest with
  | nil => simp [firstDt, dtArms, matchPat]
  | cons t r =>
    have h1 := h.1 t r rfl
    simp [firstDt, dtArms, matchPat, h1]

theorem rewriteSignTop_nonsign (m : TT) (r : List TT) (h1 : isP 0x2D m = false) (h2 : isP 0x2B m = false) :
    rewriteSignTop (m :: r) = m :: r := by
  unfold rewriteSignTop
  split <;> simp_all

theorem readTop_tt (fuel : Nat) (m : TT) (rest : List TT) (h1 : isP 0x2D m = false) (h2 : isP 0x2B m = false)
    (hr : DocRest rest) : readTop fuel (m :: rest) = R.bind (value fuel m) fun v => .ok (v, rest) := by
  unfold readTop
  simp only [rewriteSignTop_nonsign m _ h1 h2, firstDt_none_top m rest hr]

theorem readTop_neg (fuel : Nat) (v : TT) (rest : List TT) (hr : DocRest rest) :
    readTop fuel (dash :: v :: rest) = R.bind (value fuel (negGroup v)) fun x => .ok (x, rest) := by
  have h : rewriteSignTop (dash :: v :: rest) = negGroup v :: rest := by
    simp [rewriteSignTop, dash, pc]
  unfold readTop
  simp only [h, firstDt_none_top _ rest hr]

theorem readTop_pos (fuel : Nat) (v : TT) (rest : List TT) (hr : DocRest rest) :
    readTop fuel (pc 0x2B :: v :: rest) = R.bind (value fuel (posGroup v)) fun x => .ok (x, rest) := by
  have h : rewriteSignTop (pc 0x2B :: v :: rest) = posGroup v :: rest := by
    simp [rewriteSignTop, pc]
  unfold readTop
  simp only [h, firstDt_none_top _ rest hr]

theorem readTop_dt (fuel : Nat) (f : DtForm) (rest : List TT) (h : DocRest rest) :
    readTop fuel (f.toks ++ rest) = R.bind (dtValue f.text) fun x => .ok (x, rest) := by
  obtain ⟨n, r, hn⟩ := dt_toks_head f
  have hr : rewriteSignTop (f.toks ++ rest) = f.toks ++ rest := by
    rw [hn]; exact rewriteSignTop_nonsign _ _ (by simp [Num.tt]) (by simp [Num.tt])
  unfold readTop
  simp only [hr, firstDt_form_top f rest (docRest_top h)]

theorem readTop_leaf (a : MacroVal) (f : Nat) (rest : List TT) (hf : a.cost ≤ f) (hr : DocRest rest) :
    readTop (f + 1) (a.toks ++ rest) = R.bind a.sem fun v => .ok (v, rest) := by
  match a with
  | .int s b =>
    cases s
    · simpa [MacroVal.toks, Sign.toks, MacroVal.sem, Sign.neg, value_num] using
        readTop_tt (f + 1) (.tok (.num b [] false)) rest (by simp) (by simp) hr
    · simpa [MacroVal.toks, Sign.toks, MacroVal.sem, Sign.neg, value_pos_num] using
        readTop_pos (f + 1) (.tok (.num b [] false)) rest hr
    · simpa [MacroVal.toks, Sign.toks, MacroVal.sem, Sign.neg, value_neg_num] using
        readTop_neg (f + 1) (.tok (.num b [] false)) rest hr
  | .float s b =>
    cases s
    · simpa [MacroVal.toks, Sign.toks, MacroVal.sem, Sign.neg, value_num] using
        readTop_tt (f + 1) (.tok (.num b [] true)) rest (by simp) (by simp) hr
    · simpa [MacroVal.toks, Sign.toks, MacroVal.sem, Sign.neg, value_pos_num] using
        readTop_pos (f + 1) (.tok (.num b [] true)) rest hr
    · simpa [MacroVal.toks, Sign.toks, MacroVal.sem, Sign.neg, value_neg_num] using
        readTop_neg (f + 1) (.tok (.num b [] true)) rest hr
  | .special s n =>
    cases s
    · simpa [MacroVal.toks, Sign.toks, MacroVal.sem, Sign.neg, value_special] using
        readTop_tt (f + 1) (.tok (.ident (if n then bNan else bInf))) rest (by simp) (by simp) hr
    · simpa [MacroVal.toks, Sign.toks, MacroVal.sem, Sign.neg, value_pos_special] using
        readTop_pos (f + 1) (.tok (.ident (if n then bNan else bInf))) rest hr
    · simpa [MacroVal.toks, Sign.toks, MacroVal.sem, Sign.neg, value_neg_special] using
        readTop_neg (f + 1) (.tok (.ident (if n then bNan else bInf))) rest hr
  | .bool b =>
    simpa [MacroVal.toks, MacroVal.sem, value_bool] using
      readTop_tt (f + 1) (.tok (.ident (if b then bTrue else bFalse))) rest (by simp) (by simp) hr
  | .str raw v =>
    simpa [MacroVal.toks, MacroVal.sem, value_str] using readTop_tt (f + 1) (.tok (.str raw v)) rest (by simp) (by simp) hr
  | .chr raw v =>
    simpa [MacroVal.toks, MacroVal.sem, value_chr] using readTop_tt (f + 1) (.tok (.chr raw v)) rest (by simp) (by simp) hr
  | .dt d =>
    simpa [MacroVal.toks, MacroVal.sem] using readTop_dt (f + 1) d rest hr
  | .arr items tr =>
    have hc : costs items ≤ f := by simp [MacroVal.cost] at hf; omega
    have hv := value_arr items tr f hc
    have := readTop_tt (f + 1) (.group .bracket (joinToks items tr)) rest (by simp) (by simp) hr
    rw [hv] at this
    simpa [MacroVal.toks] using this

/-- a value at the top level (behind `key =`, followed by the next statement): the muncher yields its meaning
    and continues with the next statement -/
theorem readTop_step (a : MTree) (f : Nat) (rest : List TT) (hf : a.cost ≤ f) (hr : DocRest rest) :
    readTop (f + 1) (a.toks ++ rest) = R.bind a.sem fun v => .ok (v, rest) := by
  match a with
  | .leaf a => simpa [MTree.toks, MTree.sem] using readTop_leaf a f rest (by simpa [MTree.cost] using hf) hr
  | .arr items tr =>
    have hc : costsT items ≤ f := by simp [MTree.cost] at hf; omega
    have hv := value_tree_arr items tr f hc
    have := readTop_tt (f + 1) (.group .bracket (joinC (chunksT items) tr)) rest (by simp) (by simp) hr
    rw [hv] at this
    simpa [MTree.toks] using this
  | .tbl es tr =>
    have hc : costsE es ≤ f := by simp [MTree.cost] at hf; omega
    have hv := value_tree_tbl es tr f hc
    have := readTop_tt (f + 1) (.group .brace (joinC (chunksE es) tr)) rest (by simp) (by simp) hr
    rw [hv] at this
    simpa [MTree.toks] using this

/-! ## the statements -/

theorem toplevel_kv (keep : Bool) (f : Nat) (root : MVal) (path : List Bytes) (k : MKey) (a : MTree) (rest : List TT)
    (hf : a.cost ≤ f) (hr : DocRest rest) :
    toplevel keep (f + 2) root path (k.toks ++ eqT :: a.toks ++ rest) =
      match k.path with
      | none => .unsupported
      | some ks => R.bind a.sem fun x =>
        match insertToml root (path ++ ks) x with
        | some root' => toplevel keep (f + 1) root' path rest
        | none => .panic := by
  obtain ⟨t, r, ht⟩ := tree_toks_ne a
  have hk : keyPath (k.toks ++ eqT :: a.toks ++ rest) [] [] = some (k.segs, a.toks ++ rest) := by
    have := keyPath_key k (a.toks ++ rest)
    simpa using this
  rw [toplevel_kv_eq keep (f + 1) root path _ k.segs (a.toks ++ rest) hk (by simp [ht])]
  change (match k.path with | none => _ | some ks => _) = _
  cases k.path with
  | none => rfl
  | some ks =>
    simp only []
    rw [readTop_step a f rest hf hr]
    cases a.sem with
    | ok v => rfl
    | unsupported => rfl
    | panic => rfl

theorem keyPath_group (d : Delim) (inner rest : List TT) (hr : DocRest rest) :
    keyPath (.group d inner :: rest) [] [] = none := by
  cases rest with
  | nil => simp [keyPath]
  | cons t r =>
    have h1 := hr.1 t r rfl
    simp [keyPath, h1]

theorem toplevel_std (keep : Bool) (fuel : Nat) (root : MVal) (path : List Bytes) (k : MKey) (rest : List TT)
    (hr : DocRest rest) :
    toplevel keep (fuel + 1) root path (.group .bracket k.toks :: rest) =
      match k.path with
      | none => .unsupported
      | some p =>
        match headerTable keep root p with
        | some root' => toplevel keep fuel root' p rest
        | none => .panic := by
  have hside : ∀ inner2 : List TT, k.toks = [TT.group Delim.bracket inner2] → False := by
    intro inner2 h
    obtain ⟨r, hkr⟩ := key_toks_cons k
    rw [hkr] at h
    simp [KAtom.tt] at h
  rw [toplevel.eq_4 _ _ _ _ _ _ hside]
  simp only [keyPath_group _ _ _ hr, headerPath_key k]
  rfl

theorem toplevel_arr (keep : Bool) (fuel : Nat) (root : MVal) (path : List Bytes) (k : MKey) (rest : List TT)
    (hr : DocRest rest) :
    toplevel keep (fuel + 1) root path (.group .bracket [.group .bracket k.toks] :: rest) =
      match k.path with
      | none => .unsupported
      | some p =>
        match pushToml root p with
        | some root' => toplevel keep fuel root' p rest
        | none => .panic := by
  rw [toplevel.eq_3]
  simp only [keyPath_group _ _ _ hr, headerPath_key k]
  rfl

/-- `@toplevel` on the tokens of a document computes its meaning -/
theorem toplevel_doc (keep : Bool) (l : List DStmt) : ∀ (fuel : Nat) (root : MVal) (path : List Bytes),
    docCost l ≤ fuel → toplevel keep fuel root path (spellDoc l) = docSem keep l root path := by
  induction l with
  | nil =>
    intro fuel root path hf
    obtain ⟨f, rfl⟩ : ∃ f, fuel = f + 1 := ⟨fuel - 1, by simp [docCost] at hf; omega⟩
    simp [spellDoc, docSem, toplevel]
  | cons s r ih =>
    intro fuel root path hf
    have hr := docRest_spellDoc r
    cases s with
    | kv k a =>
      have hf' : a.cost + 2 + docCost r ≤ fuel := by simpa [docCost] using hf
      obtain ⟨f, rfl⟩ : ∃ f, fuel = f + 2 := ⟨fuel - 2, by omega⟩
      have hs : spellDoc (.kv k a :: r) = k.toks ++ eqT :: a.toks ++ spellDoc r := by
        simp [spellDoc, DStmt.toks]
      rw [hs, toplevel_kv keep f root path k a _ (by omega) hr, docSem]
      cases k.path with
      | none => rfl
      | some ks =>
        simp only []
        cases a.sem with
        | ok v =>
          simp only [R.bind]
          cases insertToml root (path ++ ks) v with
          | none => rfl
          | some root' => simp only []; exact ih (f + 1) root' path (by omega)
        | unsupported => rfl
        | panic => rfl
    | std k =>
      have hf' : 1 + docCost r ≤ fuel := by simpa [docCost] using hf
      obtain ⟨f, rfl⟩ : ∃ f, fuel = f + 1 := ⟨fuel - 1, by omega⟩
      have hs : spellDoc (.std k :: r) = .group .bracket k.toks :: spellDoc r := by
        simp [spellDoc, DStmt.toks]
      rw [hs, toplevel_std keep f root path k _ hr, docSem]
      cases k.path with
      | none => rfl
      | some p =>
        simp only []
        cases headerTable keep root p with
        | none => rfl
        | some root' => simp only []; exact ih f root' p (by omega)
    | arr k =>
      have hf' : 1 + docCost r ≤ fuel := by simpa [docCost] using hf
      obtain ⟨f, rfl⟩ : ∃ f, fuel = f + 1 := ⟨fuel - 1, by omega⟩
      have hs : spellDoc (.arr k :: r) = .group .bracket [.group .bracket k.toks] :: spellDoc r := by
        simp [spellDoc, DStmt.toks]
      rw [hs, toplevel_arr keep f root path k _ hr, docSem]
      cases k.path with
      | none => rfl
      | some p =>
        simp only []
        cases pushToml root p with
        | none => rfl
        | some root' => simp only []; exact ih f root' p (by omega)

/-! ## the fuel `macroDocWith` supplies is enough -/

theorem key_size (k : MKey) : 1 ≤ sizeTTs k.toks := by
  simp [MKey.toks, Seg.toks, sizeTTs, sizeTT, KAtom.tt]

theorem docCost_le (l : List DStmt) : docCost l ≤ 1 + 2 * sizeTTs (spellDoc l) := by
  induction l with
  | nil => simp [docCost, spellDoc, sizeTTs]
  | cons s r ih =>
    cases s with
    | kv k a =>
      have := tree_cost_le a
      simp [docCost, spellDoc, DStmt.toks, sizeTTs_append, sizeTTs, sizeTT, eqT, pc]; omega
    | std k => simp [docCost, spellDoc, DStmt.toks, sizeTTs, sizeTT]; omega
    | arr k => simp [docCost, spellDoc, DStmt.toks, sizeTTs, sizeTT]; omega

theorem spellDoc_ne (s : DStmt) (r : List DStmt) : spellDoc (s :: r) ≠ [] := by
  cases s <;> simp [spellDoc, DStmt.toks, MKey.toks, Seg.toks]

theorem macroDoc_doc (keep : Bool) (l : List DStmt) (hne : l ≠ []) :
    macroDocWith keep (spellDoc l) = docSem keep l emptyTbl [] := by
  cases l with
  | nil => exact absurd rfl hne
  | cons s r =>
    have h := spellDoc_ne s r
    unfold macroDocWith
    split
    · rename_i heq; exact absurd heq h
    · exact toplevel_doc keep (s :: r) _ _ _ (by have := docCost_le (s :: r); omega)

end TomlVerif.Lemmas.Macro19b
