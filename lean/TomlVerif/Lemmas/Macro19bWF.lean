import TomlVerif.Lemmas.Macro19bAgree
import TomlVerif.Lemmas.InlineKeys01
/-! C19 (full): a syntactic well-formedness of value trees that makes the parser accept them: every literal
    evaluates, every key token is accepted by `concat!`, and within each inline table no full key is a prefix of
    (or equal to) another one — no duplicate keys, no dotted key through a defined key. -/
namespace TomlVerif.Lemmas.Macro19b
open TomlVerif TomlVerif.Model TomlVerif.Model.Macro TomlVerif.Lemmas.Macro19 TomlVerif.Model.Value
open TomlVerif.Lemmas.State09 TomlVerif.Lemmas.InlineKeys01

/-- the paths of the entries' keys -/
def keyPaths : List (MKey × MTree) → Option (List (List Bytes))
  | [] => some []
  | (k, _) :: r =>
    match k.path, keyPaths r with
    | some p, some ps => some (p :: ps)
    | _, _ => none

mutual
def MTree.WFs : MTree → Prop
  | .leaf a => ∃ m, a.sem = .ok m
  | .arr items _ => WFsL items
  | .tbl es _ => WFsE es ∧ ∃ ps, keyPaths es = some ps ∧ ps.Pairwise Incomp
def WFsL : List MTree → Prop
  | [] => True
  | a :: r => a.WFs ∧ WFsL r
def WFsE : List (MKey × MTree) → Prop
  | [] => True
  | (_, a) :: r => a.WFs ∧ WFsE r
end

theorem exists_snoc {α} (l : List α) (h : l ≠ []) : ∃ p x, l = p ++ [x] := by
  induction l with
  | nil => exact absurd rfl h
  | cons a r ih =>
    cases r with
    | nil => exact ⟨[], a, rfl⟩
    | cons b t =>
      obtain ⟨p, x, hp⟩ := ih (by simp)
      exact ⟨a :: p, x, by rw [hp]; rfl⟩

theorem key_path_ne (k : MKey) (ks : List Bytes) (h : k.path = some ks) : ks ≠ [] := by
  unfold MKey.path MKey.segs at h
  simp only [segsStr] at h
  split at h
  · simp at h; subst h; simp
  · simp at h

theorem mvalV_notImplicit (m : MVal) : NotImplicit (mvalV m) := by
  intro sub d h
  cases m <;> simp [mvalV] at h

mutual
theorem refV_of_WFs (a : MTree) : a.WFs → ∃ v, refV a = some v ∧ NotImplicit v := by
  intro h
  match a with
  | .leaf m =>
    obtain ⟨x, hx⟩ := h
    exact ⟨mvalV x, by simp [refV, hx], mvalV_notImplicit x⟩
  | .arr items tr =>
    simp only [MTree.WFs] at h
    obtain ⟨vs, hvs⟩ := refVs_of_WFsL items h
    exact ⟨.arr vs, by simp [refV, hvs], by intro sub d e; cases e⟩
  | .tbl es tr =>
    simp only [MTree.WFs] at h
    obtain ⟨he, ps, hps, hinc⟩ := h
    obtain ⟨pairs, hp1, hp2, hp3⟩ := refEs_of_WFsE es he ps hps
    obtain ⟨items, hit, _, _⟩ := tableFromPairs_ok pairs [] (by simp [GoodL]) hp3 (by rw [hp2]; exact hinc)
      (by intro e _ p hp; simp [leafKeys] at hp)
    exact ⟨.inl items false false, by simp [refV, hp1, hit], by intro sub d e; cases e⟩
theorem refVs_of_WFsL (l : List MTree) : WFsL l → ∃ vs, refVs l = some vs := by
  intro h
  match l with
  | [] => exact ⟨[], rfl⟩
  | a :: r =>
    simp only [WFsL] at h
    obtain ⟨v, hv, _⟩ := refV_of_WFs a h.1
    obtain ⟨vs, hvs⟩ := refVs_of_WFsL r h.2
    exact ⟨v :: vs, by simp [refVs, hv, hvs]⟩
theorem refEs_of_WFsE (l : List (MKey × MTree)) : WFsE l → ∀ ps, keyPaths l = some ps →
    ∃ pairs, refEs l = some pairs ∧ pairs.map fullKey = ps ∧ ∀ e ∈ pairs, NotImplicit e.2.2 := by
  intro h ps hps
  match l with
  | [] => simp [keyPaths] at hps; subst hps; exact ⟨[], rfl, rfl, by simp⟩
  | (k, a) :: r =>
    simp only [WFsE] at h
    simp only [keyPaths] at hps
    cases hk : k.path with
    | none => simp [hk] at hps
    | some ks =>
      cases hr : keyPaths r with
      | none => simp [hk, hr] at hps
      | some ps' =>
        simp [hk, hr] at hps; subst hps
        obtain ⟨v, hv, hni⟩ := refV_of_WFs a h.1
        obtain ⟨pairs, hp1, hp2, hp3⟩ := refEs_of_WFsE r h.2 ps' hr
        obtain ⟨p, key, hpk⟩ := exists_snoc ks (key_path_ne k ks hk)
        refine ⟨(p, key, v) :: pairs, ?_, ?_, ?_⟩
        · simp [refEs, hk, hpk, splitLast_append, hv, hp1]
        · simp [fullKey, hpk, hp2]
        · intro e he
          simp only [List.mem_cons] at he
          rcases he with he | he
          · subst he; exact hni
          · exact hp3 e he
end

/-- a syntactically well-formed value is accepted by the parser -/
theorem wf_of_WFs (a : MTree) (h : a.WFs) : a.WF := by
  obtain ⟨v, hv, _⟩ := refV_of_WFs a h
  simp [MTree.WF, hv]

end TomlVerif.Lemmas.Macro19b
