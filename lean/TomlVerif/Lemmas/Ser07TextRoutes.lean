import TomlVerif.Lemmas.Ser07TextDoc
/-! C07 at the TEXT level, part 4: the texts of `toml::to_string`, `toml::to_string_pretty` and (guarded)
    `toml_edit::ser::to_string_pretty`, and what the document parser makes of them.

    The serializer's table `kvs` (plain data `V`) is handed, as a `toml::Value`-shaped tree (`tvKVs`), to the
    model of `DocumentFormatter` + `Display for DocumentMut` in `Model/TomlValue.lean` (`emitDoc`, `renderStmts`):
    below a table inline tables become `[tables]` (header hidden when the table is non-empty and has no values of
    its own) and non-empty arrays of inline tables become `[[arrays of tables]]`; below a value everything stays
    inline; the pretty layout puts arrays of two or more elements one element per line. -/
namespace TomlVerif.Lemmas.Ser07Text
open TomlVerif TomlVerif.Model TomlVerif.Model.Ser TomlVerif.Spec TomlVerif.Spec.Serde
open TomlVerif.Model.TomlValue TomlVerif.Spec.Encode06 TomlVerif.Props.C06 TomlVerif.Spec.AstValue
open TomlVerif.Model.Encode06 (reprFloat)
open TomlVerif.Model.Value (LIMIT)
open TomlVerif.Lemmas.RoundTrip17 TomlVerif.Lemmas.Ser07TextF

mutual
/-- plain data as a `toml::Value`-shaped tree -/
def tvOf : V → TV
  | .sc (.str s) => .str s
  | .sc (.int n) => .int n
  | .sc (.float b) => .float b
  | .sc (.bool b) => .bool b
  | .sc (.dt d) => .dt d
  | .arr xs => .arr (tvList xs)
  | .inl kvs => .tbl (tvKVs kvs)
def tvList : List V → List TV
  | [] => []
  | x :: r => tvOf x :: tvList r
def tvKVs : List (Bytes × V) → List (Bytes × TV)
  | [] => []
  | (k, v) :: r => (k, tvOf v) :: tvKVs r
end

/-- `toml_write`'s text of a double, on top of std's `Display` text -/
def flOf (disp : FloatDisp) : FloatText := fun b => reprFloat b (disp b)

/-- the text `DocumentFormatter { multiline_array: pretty }` + `Display for DocumentMut` print for the table `kvs` -/
def fmtText (disp : FloatDisp) (pretty : Bool) (kvs : List (Bytes × V)) : Bytes :=
  renderStmts (flOf disp) pretty (ownValues (tvKVs kvs)).isEmpty (emitDoc (tvKVs kvs))

/-- **`toml::to_string`** (`byName = false` is `toml::ser::Serializer::serialize_struct` as it stands, F17) -/
def textToml (byName : Bool) (disp : FloatDisp) (v : SVal) : Except SerErr Bytes :=
  match tomlDocument byName v with
  | .ok kvs => .ok (fmtText disp false kvs)
  | .error e => .error e

/-- **`toml::to_string_pretty`** -/
def textTomlPretty (byName : Bool) (disp : FloatDisp) (v : SVal) : Except SerErr Bytes :=
  match tomlDocument byName v with
  | .ok kvs => .ok (fmtText disp true kvs)
  | .error e => .error e

/-- **`toml_edit::ser::to_string_pretty`** with the `is_value` guard of `DocumentFormatter` ported to `Pretty`
    (F5 repaired: `routeEditPretty true`); the guarded `Pretty` is `DocumentFormatter { multiline_array: true }` -/
def textEditPretty (disp : FloatDisp) (v : SVal) : Except SerErr Bytes :=
  match serDocument v with
  | .ok kvs => .ok (fmtText disp true kvs)
  | .error e => .error e

/-- a table in the order the printed document defines its entries: at every table that is printed as a
    `[table]` / `[[array of tables]]` section (and at the root) the entries that stay values first, then the
    sub-tables and arrays of tables; tables below a value (inline) keep their order -/
def docOrder (kvs : List (Bytes × V)) : List (Bytes × V) := vOfPs (docTbl (tvKVs kvs))

/-! ## conversions -/

mutual
theorem vOf_tvOf : ∀ v : V, vOf (tvOf v) = v
  | .sc (.str _) => rfl
  | .sc (.int _) => rfl
  | .sc (.float _) => rfl
  | .sc (.bool _) => rfl
  | .sc (.dt _) => rfl
  | .arr xs => by rw [tvOf, vOf, vOfList_tvList xs]
  | .inl kvs => by rw [tvOf, vOf, vOfPs_tvKVs kvs]
theorem vOfList_tvList : ∀ l : List V, vOfList (tvList l) = l
  | [] => rfl
  | x :: r => by rw [tvList, vOfList, vOf_tvOf x, vOfList_tvList r]
theorem vOfPs_tvKVs : ∀ l : List (Bytes × V), vOfPs (tvKVs l) = l
  | [] => rfl
  | (k, v) :: r => by rw [tvKVs, vOfPs, vOf_tvOf v, vOfPs_tvKVs r]
end

theorem keys_tvKVs : ∀ l : List (Bytes × V), (tvKVs l).map Prod.fst = l.map Prod.fst
  | [] => rfl
  | (k, v) :: r => by simp [tvKVs, keys_tvKVs r]

theorem keys_canonKVs : ∀ l : List (Bytes × V), (canonKVs l).map Prod.fst = l.map Prod.fst
  | [] => rfl
  | (k, v) :: r => by simp [canonKVs, keys_canonKVs r]

mutual
theorem depth_tvOf : ∀ v : V, depthTV (tvOf (canonV v)) = depthS v
  | .sc (.str _) => rfl
  | .sc (.int _) => rfl
  | .sc (.float _) => rfl
  | .sc (.bool _) => rfl
  | .sc (.dt _) => rfl
  | .arr xs => by rw [canonV, tvOf, depthTV, depthS, depth_tvList xs]
  | .inl kvs => by rw [canonV, tvOf, depthTV, depthS, depth_tvKVs kvs]
theorem depth_tvList : ∀ l : List V, depthTVs (tvList (canonVs l)) = depthSs l
  | [] => rfl
  | x :: r => by rw [canonVs, tvList, depthTVs, depthSs, depth_tvOf x, depth_tvList r]
theorem depth_tvKVs : ∀ l : List (Bytes × V), depthTVPs (tvKVs (canonKVs l)) = depthSKVs l
  | [] => rfl
  | (k, v) :: r => by rw [canonKVs, tvKVs, depthTVPs, depthSKVs, depth_tvOf v, depth_tvKVs r]
end

/-! ## the text of a double is a scalar token -/

theorem reprFloat_nan (bits : Nat) (disp : Bytes) (he : bits / 2 ^ 52 % 2 ^ 11 = 2047) (hm : bits % 2 ^ 52 ≠ 0) :
    reprFloat bits disp = (if bits / 2 ^ 63 == 1 then [0x2D] else []) ++ [0x6E, 0x61, 0x6E] := by
  have hm' : (bits % 2 ^ 52 != 0) = true := by simpa using hm
  have he' : (bits / 2 ^ 52 % 2 ^ 11 == 2047) = true := by simpa using he
  unfold reprFloat
  simp only [he', hm', Numbers.writeFloat, Lemmas.Encode06.strBytes_nan, Lemmas.Encode06.strBytes_mnan, Bool.and_self,
    if_true]
  split <;> rfl

theorem scalarOK_special (neg : Bool) :
    ScalarOK ⟨(if neg then [0x2D] else []) ++ [0x6E, 0x61, 0x6E], .float ((if neg then Ieee.signBit else 0) + Ieee.nanBits)⟩ ∧
    ScalarOK ⟨(if neg then [0x2D] else []) ++ [0x69, 0x6E, 0x66], .float ((if neg then Ieee.signBit else 0) + Ieee.infBits)⟩ := by
  cases neg
  · exact ⟨Lemmas.Sound01.scalarOK_of_local _ _ 0x6E _ rfl (by decide) (by decide) (by decide)
        (fun f d rest _ => (Lemmas.Encode06.value_special false rest f d).1),
      Lemmas.Sound01.scalarOK_of_local _ _ 0x69 _ rfl (by decide) (by decide) (by decide)
        (fun f d rest _ => (Lemmas.Encode06.value_special false rest f d).2)⟩
  · exact ⟨Lemmas.Sound01.scalarOK_of_local _ _ 0x2D _ rfl (by decide) (by decide) (by decide)
        (fun f d rest _ => (Lemmas.Encode06.value_special true rest f d).1),
      Lemmas.Sound01.scalarOK_of_local _ _ 0x2D _ rfl (by decide) (by decide) (by decide)
        (fun f d rest _ => (Lemmas.Encode06.value_special true rest f d).2)⟩

/-- `T06_leaf_float` before every continuation in which a value may end (not only those the printer produces) -/
theorem scalarOK_reprFloat (bits : Nat) (disp : Bytes) (h : FloatOk bits disp) :
    ScalarOK ⟨reprFloat bits disp, .float (canonFloat bits)⟩ := by
  cases h
  case nan he hm =>
    have hm' : (bits % 2 ^ 52 != 0) = true := by simpa using hm
    have he' : (bits / 2 ^ 52 % 2 ^ 11 == 2047) = true := by simpa using he
    have c : canonFloat bits = (if bits / 2 ^ 63 == 1 then Ieee.signBit else 0) + Ieee.nanBits := by
      unfold canonFloat; simp only [he', hm', Bool.and_self, if_true]
    rw [reprFloat_nan bits disp he hm, c]
    exact (scalarOK_special _).1
  case inf neg =>
    have e : reprFloat ((if neg then Ieee.signBit else 0) + Ieee.infBits) ((if neg then [0x2D] else []) ++ [0x69, 0x6E, 0x66]) =
        (if neg then [0x2D] else []) ++ [0x69, 0x6E, 0x66] := by
      cases neg <;> decide +kernel
    have c : canonFloat ((if neg then Ieee.signBit else 0) + Ieee.infBits) = (if neg then Ieee.signBit else 0) + Ieee.infBits := by
      cases neg <;> decide +kernel
    rw [e, c]
    exact (scalarOK_special neg).2
  case zero neg =>
    have e : reprFloat (if neg then Ieee.signBit else 0) disp =
        Numbers.writeFloat false false false (!(Lemmas.Numbers11.dispBytes neg [0x30] (some [0x30])).contains 0x2E)
          (Lemmas.Numbers11.dispBytes neg [0x30] (some [0x30])) := by
      cases neg
      · simp [reprFloat, Numbers.writeFloat, Lemmas.Encode06.strBytes_zero, Lemmas.Numbers11.dispBytes]
      · simp [reprFloat, Numbers.writeFloat, Lemmas.Encode06.strBytes_mzero, Lemmas.Numbers11.dispBytes, Ieee.signBit]
    have hbits : Numbers.FloatLit.bits ⟨neg, [0x30], [0x30], false, []⟩ = (if neg then Ieee.signBit else 0) := by
      cases neg <;> decide +kernel
    have c : canonFloat (if neg then Ieee.signBit else 0) = (if neg then Ieee.signBit else 0) := by
      cases neg <;> decide +kernel
    have := Props.C01Values.T01_scalar_float false neg [0x30] (some [0x30]) (by simp)
      (by intro b hb; simp at hb; subst hb; decide) (by intro t h; injection h with _ h; exact h.symm)
      (by intro f h; injection h with h; subst h; exact ⟨by simp, by intro b hb; simp at hb; subst hb; decide⟩)
      (by simp only [Option.getD_some]; rw [hbits]; cases neg <;> decide +kernel)
    simp only [Option.getD_some] at this
    rw [e, c, ← hbits]
    exact this
  case fin negD intDs frac hne hi hz hf hb hfin hnz =>
    simp only [Nat.reducePow] at hfin hnz
    have hnan : (bits / 2 ^ 52 % 2 ^ 11 == 2047) = false := by simpa using hfin
    have hzero : (bits / 2 ^ 52 % 2 ^ 11 == 0 && bits % 2 ^ 52 == 0) = false := by
      simp only [Nat.reducePow, Bool.and_eq_false_imp, beq_iff_eq, beq_eq_false_iff_ne, ne_eq]
      intro h1 h2
      omega
    have e : reprFloat bits (Lemmas.Numbers11.dispBytes negD intDs frac) =
        Numbers.writeFloat (bits / 2 ^ 63 == 1) false false (!(Lemmas.Numbers11.dispBytes negD intDs frac).contains 0x2E)
          (Lemmas.Numbers11.dispBytes negD intDs frac) := by
      unfold reprFloat
      simp only [hnan, hzero, Bool.false_and, Bool.not_false, Bool.true_and]
    have c : canonFloat bits = bits := by
      unfold canonFloat; simp only [hnan, Bool.false_and, Bool.false_eq_true, if_false]
    have hinf : Ieee.isInfBits (Numbers.FloatLit.bits ⟨negD, intDs, frac.getD [0x30], false, []⟩) = false := by
      rw [hb]
      unfold Ieee.isInfBits Ieee.signBit Ieee.infBits
      simp only [beq_eq_false_iff_ne, ne_eq]
      omega
    have := Props.C01Values.T01_scalar_float (bits / 2 ^ 63 == 1) negD intDs frac hne hi hz hf hinf
    rw [e, c, ← hb]
    exact this

/-- the text of a double depends on its NaN payload no more than the parsed value does -/
theorem flOf_canon (disp : FloatDisp) (b : Nat) : flOf disp (canonFloat b) = flOf disp b := by
  unfold canonFloat
  split
  · rename_i hc
    simp only [Bool.and_eq_true, beq_iff_eq, bne_iff_ne, ne_eq] at hc
    unfold flOf
    rw [reprFloat_nan b (disp b) hc.1 hc.2]
    cases hs : b / 2 ^ 63 == 1
    · rw [reprFloat_nan _ _ (by decide) (by decide)]; rfl
    · rw [reprFloat_nan _ _ (by decide) (by decide)]; rfl
  · rfl

/-! ## the tree meets the hypotheses of the layers -/

mutual
theorem okF_tvOf (disp : FloatDisp) : ∀ v : V, LeavesOkS disp v → NodupS v → OkF (flOf disp) (tvOf (canonV v))
  | .sc (.str _), _, _ => by simp [canonV, canonScalar, tvOf, OkF]
  | .sc (.int n), h, _ => by simpa [canonV, canonScalar, tvOf, OkF, LeavesOkS, ScalarOkS] using h
  | .sc (.float b), h, _ => by
    have h' : FloatOk b (disp b) := by simpa [LeavesOkS, ScalarOkS] using h
    have := scalarOK_reprFloat b (disp b) h'
    simp only [canonV, canonScalar, tvOf, OkF]
    rw [flOf_canon]
    exact this
  | .sc (.bool _), _, _ => by simp [canonV, canonScalar, tvOf, OkF]
  | .sc (.dt d), h, _ => by
    have h' : Props.C12.FieldsInRange d ∧ ∀ x, d.date = some x → x.year ≤ 9999 := by
      simpa [LeavesOkS, ScalarOkS] using h
    simp only [canonV, canonScalar, tvOf, OkF]
    exact h'
  | .arr xs, h, hn => by
    rw [LeavesOkS] at h; rw [NodupS] at hn
    rw [canonV, tvOf, OkF]; exact okF_tvList disp xs h hn
  | .inl kvs, h, hn => by
    rw [LeavesOkS] at h; rw [NodupS] at hn
    rw [canonV, tvOf, OkF]
    exact ⟨okF_tvKVs disp kvs h hn.1, by rw [keys_tvKVs, keys_canonKVs]; exact hn.2, trivial⟩
theorem okF_tvList (disp : FloatDisp) : ∀ l : List V, LeavesOkSs disp l → NodupSs l → OkFs (flOf disp) (tvList (canonVs l))
  | [], _, _ => by simp [canonVs, tvList, OkFs]
  | x :: r, h, hn => by
    rw [LeavesOkSs] at h; rw [NodupSs] at hn
    rw [canonVs, tvList, OkFs]; exact ⟨okF_tvOf disp x h.1 hn.1, okF_tvList disp r h.2 hn.2⟩
theorem okF_tvKVs (disp : FloatDisp) : ∀ l : List (Bytes × V), LeavesOkSKVs disp l → NodupSKVs l →
    OkFPs (flOf disp) (tvKVs (canonKVs l))
  | [], _, _ => by simp [canonKVs, tvKVs, OkFPs]
  | (k, v) :: r, h, hn => by
    rw [LeavesOkSKVs] at h; rw [NodupSKVs] at hn
    rw [canonKVs, tvKVs, OkFPs]; exact ⟨okF_tvOf disp v h.1 hn.1, okF_tvKVs disp r h.2 hn.2⟩
end

/-- the text printed for a table whose NaNs are already reduced to their sign, read back by the document parser:
    the table in document order -/
theorem parse_fmtText_canon (disp : FloatDisp) (pretty : Bool) (kvs : List (Bytes × V))
    (hn : NodupSKVs kvs ∧ (kvs.map Prod.fst).Nodup) (hl : LeavesOkSKVs disp kvs) (hd : depthSKVs kvs < LIMIT) :
    (Doc.parseDocument (fmtText disp pretty (canonKVs kvs))).map dataTbl = some (docOrder (canonKVs kvs)) := by
  have hok := okF_tvKVs disp kvs hl hn.1
  have hdep : 1 + depthTVPs (tvKVs (canonKVs kvs)) ≤ LIMIT := by rw [depth_tvKVs]; omega
  have hnd : ((tvKVs (canonKVs kvs)).map Prod.fst).Nodup := by rw [keys_tvKVs, keys_canonKVs]; exact hn.2
  unfold fmtText
  rw [parseDocument_stmtsF (flOf disp) pretty _ (emitDoc (tvKVs (canonKVs kvs))) (stokF_doc (flOf disp) _ hok hdep)]
  obtain ⟨T, hT, hdata⟩ := run_emitDocD (flOf disp) (tvKVs (canonKVs kvs)) hok hnd
  rw [hT]
  simp only [Option.map, hdata, docOrder]

end TomlVerif.Lemmas.Ser07Text
