import TomlVerif.Lemmas.Tiling03HdrRel
/-! Tiling of multi-segment key paths (C03): what `ckeyPath` records for `ws k1 ws . ws k2 ws …`
    prints back as the consumed text.  A stepping stone for dotted keys and dotted header names. -/
namespace TomlVerif.Lemmas.Tiling03Hdr
open TomlVerif TomlVerif.Spec TomlVerif.Model TomlVerif.Model.Strings TomlVerif.Model.Value
open TomlVerif.Model.Cst TomlVerif.Model.Encode TomlVerif.Lemmas.Suffix03 TomlVerif.Lemmas.Cst03
open TomlVerif.Lemmas.Tiling03

/-- one segment as the key-path parser records it: `ws key ws` -/
def segText (f : Bytes → Bytes) (inp : Bytes) (k : CKey) : Bytes :=
  prefixEncode f inp k.dotted [] ++ encodeKey inp k ++ suffixEncode f inp k.dotted []

def segsText (f : Bytes → Bytes) (inp : Bytes) : List CKey → Bool → Bytes
  | [], _ => []
  | k :: r, first => (if first then [] else [0x2E]) ++ segText f inp k ++ segsText f inp r false

theorem segsText_false (f : Bytes → Bytes) (inp : Bytes) (l : List CKey) (hne : l ≠ []) :
    segsText f inp l false = [0x2E] ++ segsText f inp l true := by
  cases l with
  | nil => exact absurd rfl hne
  | cons k r => simp [segsText]

theorem segsText_append (f : Bytes → Bytes) (inp : Bytes) : ∀ (a b : List CKey) (first : Bool),
    segsText f inp (a ++ b) first = segsText f inp a first ++ segsText f inp b (first && a.isEmpty)
  | [], b, first => by simp [segsText]
  | k :: r, b, first => by
    simp only [List.cons_append, segsText, segsText_append f inp r b false, List.append_assoc]
    simp

/-- the parser side: the segments recorded by `ckeyPathAux` cover the consumed text -/
theorem ckeyPathAux_tiling (f : Bytes → Bytes) (inp : Bytes) (hf : FixOn f inp) :
    ∀ (fuel : Nat) (s : Bytes) (acc ks : List CKey) (r : Bytes), s <:+ inp →
      ckeyPathAux inp.length fuel s acc = .ok ks r →
      ∃ new, ks = acc ++ new ∧ new ≠ [] ∧ s = segsText f inp new true ++ r ∧
        (∀ k ∈ new, ∃ a b, k.dotted = Decor.new a b) := by
  intro fuel
  induction fuel with
  | zero => intro s acc ks r _ h; unfold ckeyPathAux at h; cases h
  | succ fuel ih =>
    intro s acc ks r hs h
    unfold ckeyPathAux at h
    simp only [] at h
    split at h
    · rename_i k r0 hk
      obtain ⟨w0, hw0⟩ := Cst03.dropWs_suffix s
      obtain ⟨hsuf, _⟩ := simpleKey_suffix _ _ _ hk
      obtain ⟨kt, hkt⟩ := hsuf
      obtain ⟨w1, hw1⟩ := Cst03.dropWs_suffix r0
      have hs0 : dropWs s <:+ inp := (Cst03.dropWs_suffix s).trans hs
      have hr0 : r0 <:+ inp := (hkt ▸ suffix_of_append kt r0).trans hs0
      obtain ⟨ck, hck⟩ : ∃ ck : CKey, (CKey.mk k (rawBetween inp.length (dropWs s) r0) {} (Decor.new (rawBetween inp.length s (dropWs s)) (rawBetween inp.length r0 (dropWs r0)))) = ck := ⟨_, rfl⟩
      rw [hck] at h
      have hseg : segText f inp ck = w0 ++ kt ++ w1 := by
        rw [← hck]
        simp only [segText, prefixEncode, suffixEncode, Decor.new, encodeKey]
        rw [encRaw_fix hf, encRaw_fix hf, rawText_between inp s w0 (dropWs s) hs hw0.symm,
          rawText_between inp (dropWs s) kt r0 hs0 hkt.symm, rawText_between inp r0 w1 (dropWs r0) hr0 hw1.symm]
      have hdec : ∃ a b, ck.dotted = Decor.new a b := ⟨_, _, by rw [← hck]⟩
      have htext : s = w0 ++ kt ++ w1 ++ dropWs r0 := by
        rw [List.append_assoc, List.append_assoc, hw1, hkt, hw0]
      have single : ∃ new, acc ++ [ck] = acc ++ new ∧ new ≠ [] ∧ s = segsText f inp new true ++ dropWs r0 ∧
          (∀ k ∈ new, ∃ a b, k.dotted = Decor.new a b) := by
        refine ⟨[ck], rfl, by simp, ?_, ?_⟩
        · simp only [segsText, if_true, List.nil_append, List.append_nil, hseg]; exact htext
        · intro x hx; simp at hx; subst hx; exact hdec
      split at h
      · rename_i r2 heq
        have hr2 : r2 <:+ inp := (List.suffix_cons _ r2).trans (heq ▸ ((Cst03.dropWs_suffix r0).trans hr0))
        split at h
        · injection h with h1 h2; subst h1; subst h2
          exact single
        · rename_i other hne
          cases hres : ckeyPathAux inp.length fuel r2 (acc ++ [ck]) with
          | bt => exact absurd hres (by simpa using hne)
          | cut => rw [hres] at h; cases h
          | ok ks' r' =>
            rw [hres] at h
            injection h with h1 h2; subst h1; subst h2
            obtain ⟨new', e1, e2, e3, e4⟩ := ih _ _ _ _ hr2 hres
            refine ⟨ck :: new', by rw [e1]; simp, by simp, ?_, ?_⟩
            · simp only [segsText, if_true, List.nil_append, hseg]
              rw [segsText_false f inp new' e2, htext, heq, e3]
              simp [List.append_assoc]
            · intro x hx
              rcases List.mem_cons.1 hx with hx | hx
              · subst hx; exact hdec
              · exact e4 x hx
      · injection h with h1 h2; subst h1; subst h2
        exact single
    · cases h
    · cases h

/-- the printer side on `init ++ [last]`: every key but the last is written with its own dotted
    decor (the first with the path's leaf prefix), the last with the leaf suffix -/
theorem encodeKeyPathAux_snoc (f : Bytes → Bytes) (inp : Bytes) (leaf : Decor) (dp ds : Bytes) (L : CKey) :
    ∀ (init : List CKey) (first : Bool),
      encodeKeyPathAux f inp leaf dp ds first (init ++ [L]) =
        (match init with
         | [] => (if first then prefixEncode f inp leaf dp else [0x2E] ++ prefixEncode f inp L.dotted [])
                  ++ encodeKey inp L ++ suffixEncode f inp leaf ds
         | k :: r => (if first then prefixEncode f inp leaf dp else [0x2E] ++ prefixEncode f inp k.dotted [])
                  ++ encodeKey inp k ++ suffixEncode f inp k.dotted []
                  ++ encodeKeyPathAux f inp leaf dp ds false (r ++ [L]))
  | [], first => by simp [encodeKeyPathAux]
  | k :: r, first => by simp [encodeKeyPathAux]

/-- non-first segments followed by the last key -/
theorem encodeKeyPathAux_tail (f : Bytes → Bytes) (inp : Bytes) (leaf : Decor) (dp ds : Bytes) (L : CKey) :
    ∀ (init : List CKey),
      encodeKeyPathAux f inp leaf dp ds false (init ++ [L]) =
        segsText f inp init false ++ [0x2E] ++ prefixEncode f inp L.dotted [] ++ encodeKey inp L
          ++ suffixEncode f inp leaf ds
  | [] => by simp [encodeKeyPathAux, segsText]
  | k :: r => by
    rw [encodeKeyPathAux_snoc]
    simp only [Bool.false_eq_true, if_false]
    rw [encodeKeyPathAux_tail f inp leaf dp ds L r]
    simp [segsText, segText, List.append_assoc]

theorem vsplitLast_snoc {α} : ∀ (init : List α) (l : α), splitLast (init ++ [l]) = some (init, l)
  | [], l => rfl
  | [a], l => rfl
  | a :: b :: r, l => by
    have ih := vsplitLast_snoc (b :: r) l
    simp only [List.cons_append] at ih ⊢
    rw [splitLast]
    · rw [ih]
    · intro h; cases h

/-- the printer side: `fixLeaf` followed by `encode_key_path` writes the segments as recorded -/
theorem encodeKeyPath_fixLeaf (f : Bytes → Bytes) (inp : Bytes) (ks : List CKey) (hne : ks ≠ [])
    (hdec : ∀ k ∈ ks, ∃ a b, k.dotted = Decor.new a b) (dp ds : Bytes) :
    encodeKeyPath f inp (fixLeaf ks) dp ds = segsText f inp ks true := by
  cases ks with
  | nil => exact absurd rfl hne
  | cons first rest =>
    obtain ⟨a1, b1, hd1⟩ := hdec first (by simp)
    rcases List.eq_nil_or_concat rest with hr | ⟨init', last, hr⟩
    · subst hr
      simp [fixLeaf, hd1, Decor.new, splitLast, encodeKeyPath, encodeKeyPathAux, segsText, segText,
        prefixEncode, suffixEncode, encodeKey]
    · rw [List.concat_eq_append] at hr
      subst hr
      obtain ⟨a2, b2, hd2⟩ := hdec last (by simp)
      have hsl : ∀ x : CKey, splitLast (x :: (init' ++ [last])) = some (x :: init', last) := by
        intro x
        have := vsplitLast_snoc (x :: init') last
        simpa using this
      unfold fixLeaf
      simp only [hd1, Decor.new, hsl, hd2]
      unfold encodeKeyPath
      simp only [List.getLast?_append, List.getLast?_singleton, Option.some_or]
      rw [List.cons_append, encodeKeyPathAux]
      have hie : ∀ x : CKey, (init' ++ [x]).isEmpty = false := by intro x; cases init' <;> rfl
      simp only [if_true, hie, Bool.false_eq_true, if_false]
      rw [encodeKeyPathAux_tail]
      have hseg : segsText f inp (first :: (init' ++ [last])) true
          = segText f inp first ++ segsText f inp init' false ++ [0x2E] ++ segText f inp last := by
        simp only [segsText, if_true, List.nil_append]
        rw [segsText_append]
        simp [segsText, List.append_assoc]
      rw [hseg]
      simp [segText, prefixEncode, suffixEncode, encodeKey, hd1, hd2, Decor.new, List.append_assoc]

/-- key-path tiling: what `ckeyPath` consumed is what the printer writes for the recorded path,
    for any number of segments -/
theorem ckeyPath_tiling (f : Bytes → Bytes) (inp : Bytes) (hf : FixOn f inp) (s r : Bytes) (ks : List CKey)
    (hs : s <:+ inp) (h : ckeyPath inp.length s = .ok ks r) (dp ds : Bytes) :
    s = encodeKeyPath f inp ks dp ds ++ r := by
  unfold ckeyPath at h
  cases hk : ckeyPathAux inp.length (s.length + 1) s [] with
  | bt => rw [hk] at h; cases h
  | cut => rw [hk] at h; cases h
  | ok ks0 r0 =>
    rw [hk] at h
    simp only [] at h
    split at h
    · cases h
    · injection h with h1 h2; subst h1; subst h2
      obtain ⟨new, e1, e2, e3, e4⟩ := ckeyPathAux_tiling f inp hf _ _ _ _ _ hs hk
      simp only [List.nil_append] at e1
      subst e1
      rw [encodeKeyPath_fixLeaf f inp ks0 e2 e4]
      exact e3

end TomlVerif.Lemmas.Tiling03Hdr
