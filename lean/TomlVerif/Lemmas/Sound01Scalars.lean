import TomlVerif.Lemmas.Sound01Datetime
/-! `ScalarSound`: every scalar branch of `value` consumes a scalar token (`ScalarOK`). -/
namespace TomlVerif.Lemmas.Sound01
open TomlVerif TomlVerif.Spec TomlVerif.Model TomlVerif.Model.Strings TomlVerif.Model.Value
open TomlVerif.Spec.AstValue TomlVerif.Lemmas.Value01 TomlVerif.Lemmas.Scalars01
open TomlVerif.Model.Datetime TomlVerif.Lemmas.Datetime12 TomlVerif.Lemmas.Numbers11
open TomlVerif.Spec.AstString (StringAst MlFollow)

theorem head_of_prefix (b : Byte) (r tok rest : Bytes) (e : b :: r = tok ++ rest) (hne : tok ≠ []) :
    ∃ X, tok = b :: X := by
  cases tok with
  | nil => exact absurd rfl hne
  | cons c X =>
    simp only [List.cons_append] at e
    injection e with e1 _
    exact ⟨X, by rw [e1]⟩

/-- a token whose first byte cannot follow a value and which `value` reads back before every `ValFollowS`
    continuation is a scalar token -/
theorem scalarOK_of_local (tok : Bytes) (v : Val) (b : Byte) (X : Bytes) (e : tok = b :: X)
    (hbf : isFollowByte b = false) (hb1 : b ≠ 0x5B) (hb2 : b ≠ 0x7B)
    (hloc : ∀ f d rest', ValFollowS rest' → value (f + 1) d (tok ++ rest') = .ok v rest') : ScalarOK ⟨tok, v⟩ := by
  refine ⟨⟨b, X, e, hbf, hb1, hb2⟩, ?_⟩
  intro fuel d rest hf hr
  obtain ⟨f, rfl⟩ : ∃ f, fuel = f + 1 := ⟨fuel - 1, by omega⟩
  exact hloc f d rest hr

/-! ## strings -/

theorem stringFollow_of_follow (a : StringAst) (rest : Bytes) (hr : ValFollow rest) : a.Follow rest := by
  have hq : ∀ q : Byte, (q = 0x22 ∨ q = 0x27) → rest.head? ≠ some q := by
    intro q hq
    cases rest with
    | nil => simp
    | cons c t =>
      have := follow_not_quote c hr
      simp only [List.head?_cons, ne_eq, Option.some.injEq]
      rcases hq with rfl | rfl
      · exact this.1
      · exact this.2
  cases a with
  | basic cs => exact Or.inr (hq _ (Or.inl rfl))
  | mlBasic a => exact Or.inr (hq _ (Or.inl rfl))
  | literal bs => exact Or.inr (hq _ (Or.inr rfl))
  | mlLiteral a => exact Or.inr (hq _ (Or.inr rfl))

theorem stringRender_ne_nil (a : StringAst) : a.render ≠ [] := by
  cases a <;> simp [StringAst.render, AstString.renderBasic, AstString.MlBasic.render, AstString.renderLiteral,
    AstString.MlLiteral.render]

theorem quote_facts : ∀ b : UInt8, (b == 0x22 || b == 0x27) = true →
    (b = 0x22 ∨ b = 0x27) ∧ isFollowByte b = false ∧ b ≠ 0x5B ∧ b ≠ 0x7B :=
  forall_byte (by decide +kernel)

theorem scalar_string (b : Byte) (r : Bytes) (v : Val) (rest : Bytes)
    (hq : (b == 0x22 || b == 0x27) = true) (h : Res.map Val.str (Strings.string (b :: r)) = .ok v rest) :
    ∃ t : ScalarTok, ScalarOK t ∧ b :: r = t.tok ++ rest ∧ t.v = v := by
  cases hs : Strings.string (b :: r) with
  | bt => rw [hs] at h; cases h
  | cut => rw [hs] at h; cases h
  | ok sv r1 =>
    rw [hs] at h
    simp only [Res.map] at h
    injection h with h1 h2
    subst h1 h2
    obtain ⟨a, hw, _, e, hv⟩ := TomlVerif.Props.C02Strings.T02_string_sound _ _ _ hs
    obtain ⟨X, eX⟩ := head_of_prefix b r a.render r1 e (stringRender_ne_nil a)
    have hbq := quote_facts b hq
    refine ⟨⟨a.render, .str sv⟩, ?_, e, rfl⟩
    apply scalarOK_of_local a.render (.str sv) b X eX hbq.2.1 hbq.2.2.1 hbq.2.2.2
    intro f' d' rest' hr
    have hd := TomlVerif.Props.C02Strings.T02_string_dispatch a rest' hw (stringFollow_of_follow a rest' hr.1)
    rw [eX, List.cons_append] at hd ⊢
    rw [value_str f' d' b _ hbq.1, hd, hv]
    rfl

/-! ## keywords -/

theorem keyword_split (kw s r1 : Bytes) (h : Numbers.keyword kw s = .ok () r1) : s = kw ++ r1 := by
  unfold Numbers.keyword at h
  split at h
  · split at h
    · split at h
      · rename_i r' hsw
        injection h with _ h2
        subst h2
        exact startsWith_split _ _ _ hsw
      · cases h
    · cases h
  · cases h

def infTok : ScalarTok := ⟨[0x69, 0x6E, 0x66], .float Ieee.infBits⟩
def nanTok : ScalarTok := ⟨[0x6E, 0x61, 0x6E], .float Ieee.nanBits⟩

theorem scalarOK_inf : ScalarOK infTok := by
  refine ⟨⟨0x69, _, rfl, by decide, by decide, by decide⟩, ?_⟩
  intro fuel d rest hf _
  obtain ⟨f, rfl⟩ : ∃ f, fuel = f + 1 := ⟨fuel - 1, by omega⟩
  simp [infTok, value, Numbers.startsWith, isDigit, inR]

theorem scalarOK_nan : ScalarOK nanTok := by
  refine ⟨⟨0x6E, _, rfl, by decide, by decide, by decide⟩, ?_⟩
  intro fuel d rest hf _
  obtain ⟨f, rfl⟩ : ∃ f, fuel = f + 1 := ⟨fuel - 1, by omega⟩
  simp [nanTok, value, Numbers.startsWith, isDigit, inR]

/-! ## numbers and date-times -/

theorem head_signed (sign : Option Bool) (d : Byte) (X : Bytes) : signBytes sign ++ d :: X ≠ [] := by
  cases sign with
  | none => simp [signBytes]
  | some c => cases c <;> simp [signBytes]

theorem scalar_number (b : Byte) (r : Bytes) (v : Val) (rest : Bytes)
    (hb : (b == 0x2B || b == 0x2D || isDigit b) = true)
    (h : (match Doc.dateTime (b :: r) with
      | .ok dtv r1 => Res.ok (Val.dt dtv) r1
      | .cut => .cut
      | .bt =>
        match Numbers.float (b :: r) with
        | .ok bits r1 => .ok (.float bits) r1
        | .cut => .cut
        | .bt => Res.map Val.int (Numbers.integer (b :: r))) = .ok v rest) :
    ∃ t : ScalarTok, ScalarOK t ∧ b :: r = t.tok ++ rest ∧ t.v = v := by
  have hs := numStart_facts b hb
  cases hdt : Doc.dateTime (b :: r) with
  | cut => rw [hdt] at h; cases h
  | ok dtv r1 =>
    rw [hdt] at h
    simp only [] at h
    injection h with h1 h2
    subst h1 h2
    obtain ⟨tok, e, ⟨a, X0, et, _⟩, hloc⟩ := dateTime_local _ _ _ hdt
    obtain ⟨X, eX⟩ := head_of_prefix b r tok r1 e (by rw [et]; simp)
    refine ⟨⟨tok, .dt dtv⟩, ?_, e, rfl⟩
    apply scalarOK_of_local tok _ b X eX hs.2.2.2.1 hs.2.2.2.2.1 hs.2.2.2.2.2
    intro f' d' rest' hr
    have := hloc rest' hr
    rw [eX, List.cons_append] at this ⊢
    exact value_dt f' d' b _ rest' dtv hb this
  | bt =>
    rw [hdt] at h
    simp only [] at h
    cases hfl : Numbers.float (b :: r) with
    | cut => rw [hfl] at h; cases h
    | ok bits r1 =>
      rw [hfl] at h
      simp only [] at h
      injection h with h1 h2
      subst h1 h2
      obtain ⟨tok, e, hne, hloc⟩ := float_local _ _ _ hfl
      obtain ⟨X, eX⟩ := head_of_prefix b r tok r1 e hne
      refine ⟨⟨tok, .float bits⟩, ?_, e, rfl⟩
      apply scalarOK_of_local tok _ b X eX hs.2.2.2.1 hs.2.2.2.2.1 hs.2.2.2.2.2
      intro f' d' rest' hr
      have h1 := dateTime_bt_transfer tok r1 rest' (by rw [← e]; exact hdt) (dtStops_of_follow rest' hr.1)
      have h2 := hloc rest' hr.1
      rw [eX, List.cons_append] at h1 h2 ⊢
      exact value_float f' d' b _ rest' bits hb h1 h2
    | bt =>
      rw [hfl] at h
      simp only [] at h
      cases hi : Numbers.integer (b :: r) with
      | bt => rw [hi] at h; cases h
      | cut => rw [hi] at h; cases h
      | ok n r1 =>
        rw [hi] at h
        simp only [Res.map] at h
        injection h with h1 h2
        subst h1 h2
        obtain ⟨tok, e, ⟨sign, d0, X0, et, _⟩, hloc⟩ := integer_local _ _ _ hi
        obtain ⟨X, eX⟩ := head_of_prefix b r tok r1 e (by rw [et]; exact head_signed sign d0 X0)
        refine ⟨⟨tok, .int n⟩, ?_, e, rfl⟩
        apply scalarOK_of_local tok _ b X eX hs.2.2.2.1 hs.2.2.2.2.1 hs.2.2.2.2.2
        intro f' d' rest' hr
        have h1 := dateTime_bt_transfer tok r1 rest' (by rw [← e]; exact hdt) (dtStops_of_follow rest' hr.1)
        have h2 := (hloc rest' hr.1).2
        have h3 := (hloc rest' hr.1).1
        rw [eX, List.cons_append] at h1 h2 h3 ⊢
        exact value_int f' d' b _ rest' n hb h1 h2 h3

theorem integer_underscore (r : Bytes) : Numbers.integer (0x5F :: r) = .bt := rfl
theorem float_dot (r : Bytes) : Numbers.float (0x2E :: r) = .bt := rfl

/-- **(c) scalars**: every scalar branch of `value` — strings, date-times, floats, integers, booleans, `inf`,
    `nan` — consumes a scalar token -/
theorem scalarSound : ScalarSound := by
  intro fuel d s v rest h hnb
  cases fuel with
  | zero => simp [value] at h
  | succ f =>
    cases s with
    | nil => rw [value_nil] at h; cases h
    | cons b r =>
      obtain ⟨hb1, hb2⟩ := hnb b r rfl
      unfold value at h
      simp only [] at h
      split at h
      · rename_i hq
        exact scalar_string b r v rest hq h
      · split at h
        · rename_i hb; exact absurd (by simpa using hb) hb1
        · split at h
          · rename_i hb; exact absurd (by simpa using hb) hb2
          · split at h
            · rename_i hnum
              exact scalar_number b r v rest hnum h
            · split at h
              · rename_i hu
                have : b = 0x5F := by simpa using hu
                subst this
                rw [integer_underscore] at h
                cases h
              · split at h
                · rename_i hdot
                  have : b = 0x2E := by simpa using hdot
                  subst this
                  rw [float_dot] at h
                  cases h
                · split at h
                  · cases hk : Numbers.keyword [0x74, 0x72, 0x75, 0x65] (b :: r) with
                    | bt => rw [hk] at h; cases h
                    | cut => rw [hk] at h; cases h
                    | ok u r1 =>
                      rw [hk] at h
                      simp only [Res.map] at h
                      injection h with h1 h2
                      subst h1 h2
                      exact ⟨trueTok, scalarOK_true, keyword_split _ _ _ hk, rfl⟩
                  · split at h
                    · cases hk : Numbers.keyword [0x66, 0x61, 0x6C, 0x73, 0x65] (b :: r) with
                      | bt => rw [hk] at h; cases h
                      | cut => rw [hk] at h; cases h
                      | ok u r1 =>
                        rw [hk] at h
                        simp only [Res.map] at h
                        injection h with h1 h2
                        subst h1 h2
                        exact ⟨falseTok, scalarOK_false, keyword_split _ _ _ hk, rfl⟩
                    · split at h
                      · split at h
                        · rename_i r1 hsw
                          injection h with h1 h2
                          subst h1 h2
                          exact ⟨infTok, scalarOK_inf, startsWith_split _ _ _ hsw, rfl⟩
                        · cases h
                      · split at h
                        · split at h
                          · rename_i r1 hsw
                            injection h with h1 h2
                            subst h1 h2
                            exact ⟨nanTok, scalarOK_nan, startsWith_split _ _ _ hsw, rfl⟩
                          · cases h
                        · cases h

end TomlVerif.Lemmas.Sound01
