import TomlVerif.Lemmas.FuelValue04
/-! Fuel monotonicity of the value parser: a result other than `.cut` is never changed by more fuel
    (running out of fuel always surfaces as `.cut`). -/
namespace TomlVerif.Lemmas.FuelMono04
open TomlVerif TomlVerif.Spec TomlVerif.Model TomlVerif.Model.Strings TomlVerif.Model.Value

def valueArr (av : Res (List Val)) : Res Val :=
  match av with
  | .ok vs r1 =>
    match r1 with
    | 0x5D :: r2 => .ok (.arr vs) r2
    | _ => .cut
  | _ => .cut

def valueInl (ik : Res (List (List Bytes × Bytes × Val))) : Res Val :=
  match ik with
  | .ok kvs r1 =>
    match tableFromPairs kvs [] with
    | none => .cut
    | some items =>
      match dropWs r1 with
      | 0x7D :: r2 => .ok (.inl items false false) r2
      | _ => .cut
  | _ => .cut

theorem value_brack (g d : Nat) (t : Bytes) :
    value (g + 1) d (0x5B :: t) = if LIMIT ≤ d + 1 then .cut else valueArr (arrayValues g (d + 1) t) := by
  conv => lhs; unfold value
  simp only [valueArr]
  rfl

theorem value_brace (g d : Nat) (t : Bytes) :
    value (g + 1) d (0x7B :: t) = if LIMIT ≤ d + 1 then .cut else valueInl (inlineKeyvals g (d + 1) t []) := by
  conv => lhs; unfold value
  simp only [valueInl]
  rfl

theorem value_other (g g' d : Nat) (b : UInt8) (t : Bytes) (h1 : b ≠ 0x5B) (h2 : b ≠ 0x7B) :
    value (g + 1) d (b :: t) = value (g' + 1) d (b :: t) := by
  have e1 : (b == 0x5B) = false := by simpa using h1
  have e2 : (b == 0x7B) = false := by simpa using h2
  unfold value
  simp only [e1, e2, Bool.false_eq_true, if_false]


def MonoGoal (f : Nat) : Prop :=
  (∀ f' d s, f ≤ f' → value f d s ≠ .cut → value f' d s = value f d s) ∧
  (∀ f' d s, f ≤ f' → arrayValues f d s ≠ .cut → arrayValues f' d s = arrayValues f d s) ∧
  (∀ f' d s acc, f ≤ f' → arrayElems f d s acc ≠ .cut → arrayElems f' d s acc = arrayElems f d s acc) ∧
  (∀ f' d s acc, f ≤ f' → inlineKeyvals f d s acc ≠ .cut → inlineKeyvals f' d s acc = inlineKeyvals f d s acc)

theorem value_mono_step (g : Nat) (ih : MonoGoal g) :
    ∀ f' d s, g + 1 ≤ f' → value (g + 1) d s ≠ .cut → value f' d s = value (g + 1) d s := by
  obtain ⟨ihV, ihAV, ihAE, ihIK⟩ := ih
  intro f' d s hf h
  obtain ⟨g', rfl⟩ : ∃ g', f' = g' + 1 := ⟨f' - 1, by omega⟩
  cases s with
  | nil => simp [value]
  | cons b t =>
    by_cases h1 : b = 0x5B
    · subst h1
      rw [value_brack] at h ⊢
      rw [value_brack]
      split
      · rfl
      · rename_i hl
        rw [if_neg hl] at h
        cases hav : arrayValues g (d + 1) t with
        | cut => rw [hav] at h; exact absurd rfl h
        | bt => rw [ihAV g' (d + 1) t (by omega) (by rw [hav]; intro c; cases c), hav]
        | ok vs r => rw [ihAV g' (d + 1) t (by omega) (by rw [hav]; intro c; cases c), hav]
    · by_cases h2 : b = 0x7B
      · subst h2
        rw [value_brace] at h ⊢
        rw [value_brace]
        split
        · rfl
        · rename_i hl
          rw [if_neg hl] at h
          cases hik : inlineKeyvals g (d + 1) t [] with
          | cut => rw [hik] at h; exact absurd rfl h
          | bt => rw [ihIK g' (d + 1) t [] (by omega) (by rw [hik]; intro c; cases c), hik]
          | ok vs r => rw [ihIK g' (d + 1) t [] (by omega) (by rw [hik]; intro c; cases c), hik]
      · exact value_other g' g d b t h1 h2

theorem arrayValues_mono_step (g : Nat) (ih : MonoGoal g) :
    ∀ f' d s, g + 1 ≤ f' → arrayValues (g + 1) d s ≠ .cut → arrayValues f' d s = arrayValues (g + 1) d s := by
  obtain ⟨ihV, ihAV, ihAE, ihIK⟩ := ih
  intro f' d s hf h
  obtain ⟨g', rfl⟩ : ∃ g', f' = g' + 1 := ⟨f' - 1, by omega⟩
  unfold arrayValues at h ⊢
  split
  · rfl
  · rename_i hne
    split at h
    · rename_i t0
      exact absurd rfl (hne t0)
    · cases hae : arrayElems g d s [] with
      | cut => rw [hae] at h; exact absurd rfl h
      | bt => rw [ihAE g' d s [] (by omega) (by rw [hae]; intro c; cases c), hae]
      | ok vs r => rw [ihAE g' d s [] (by omega) (by rw [hae]; intro c; cases c), hae]

theorem arrayElems_mono_step (g : Nat) (ih : MonoGoal g) :
    ∀ f' d s acc, g + 1 ≤ f' → arrayElems (g + 1) d s acc ≠ .cut →
      arrayElems f' d s acc = arrayElems (g + 1) d s acc := by
  obtain ⟨ihV, ihAV, ihAE, ihIK⟩ := ih
  intro f' d s acc hf h
  obtain ⟨g', rfl⟩ : ∃ g', f' = g' + 1 := ⟨f' - 1, by omega⟩
  unfold arrayElems at h ⊢
  cases hw : wsCommentNewline (s.length + 1) s with
  | none => rfl
  | some s1 =>
    rw [hw] at h
    simp only [] at h ⊢
    cases hv : value g d s1 with
    | cut => rw [hv] at h; exact absurd rfl h
    | bt => rw [ihV g' d s1 (by omega) (by rw [hv]; intro c; cases c), hv]
    | ok v s2 =>
      rw [hv] at h
      rw [ihV g' d s1 (by omega) (by rw [hv]; intro c; cases c), hv]
      simp only [] at h ⊢
      cases hw2 : wsCommentNewline (s2.length + 1) s2 with
      | none => rfl
      | some s3 =>
        rw [hw2] at h
        simp only [] at h ⊢
        split
        · rename_i s4
          simp only [] at h
          cases he : arrayElems g d s4 (acc ++ [v]) with
          | cut => rw [he] at h; exact absurd rfl h
          | bt => rw [ihAE g' d s4 _ (by omega) (by rw [he]; intro c; cases c), he]
          | ok vs r => rw [ihAE g' d s4 _ (by omega) (by rw [he]; intro c; cases c), he]
        · rfl

theorem inlineKeyvals_mono_step (g : Nat) (ih : MonoGoal g) :
    ∀ f' d s acc, g + 1 ≤ f' → inlineKeyvals (g + 1) d s acc ≠ .cut →
      inlineKeyvals f' d s acc = inlineKeyvals (g + 1) d s acc := by
  obtain ⟨ihV, ihAV, ihAE, ihIK⟩ := ih
  intro f' d s acc hf h
  obtain ⟨g', rfl⟩ : ∃ g', f' = g' + 1 := ⟨f' - 1, by omega⟩
  unfold inlineKeyvals at h ⊢
  cases hk : keyPath s with
  | cut => rfl
  | bt => rfl
  | ok ks r =>
    rw [hk] at h
    simp only [] at h ⊢
    split
    · rfl
    · rename_i hl
      rw [if_neg hl] at h
      split
      · rename_i r1
        simp only [] at h
        cases hv : value g (d + (ks.length - 1)) (dropWs r1) with
        | cut => rw [hv] at h; exact absurd rfl h
        | bt => rw [hv] at h; exact absurd rfl h
        | ok v r2 =>
          rw [hv] at h
          rw [ihV g' _ (dropWs r1) (by omega) (by rw [hv]; intro c; cases c), hv]
          simp only [] at h ⊢
          cases hsl : Value.splitLast ks with
          | none => rfl
          | some pk =>
            obtain ⟨path, key⟩ := pk
            rw [hsl] at h
            simp only [] at h ⊢
            split
            · rename_i r4 heq
              rw [heq] at h
              simp only [] at h
              cases hi : inlineKeyvals g d r4 (acc ++ [(path, key, v)]) with
              | cut => rw [hi] at h; exact absurd rfl h
              | bt => rw [ihIK g' d r4 _ (by omega) (by rw [hi]; intro c; cases c), hi]
              | ok kvs r5 => rw [ihIK g' d r4 _ (by omega) (by rw [hi]; intro c; cases c), hi]
            · rfl
      · rfl

theorem monoGoal : ∀ f, MonoGoal f := by
  intro f
  induction f with
  | zero =>
    refine ⟨?_, ?_, ?_, ?_⟩
    · intro f' d s _ h; exact absurd (by simp [value]) h
    · intro f' d s _ h; exact absurd (by simp [arrayValues]) h
    · intro f' d s acc _ h; exact absurd (by simp [arrayElems]) h
    · intro f' d s acc _ h; exact absurd (by simp [inlineKeyvals]) h
  | succ g ih =>
    exact ⟨value_mono_step g ih, arrayValues_mono_step g ih, arrayElems_mono_step g ih, inlineKeyvals_mono_step g ih⟩

end TomlVerif.Lemmas.FuelMono04
