import TomlVerif.Lemmas.RoundTrip17c
/-! Round trip of `toml::Value` trees, layers (b)/(c), semantic side, part 2: the definition state machine on the
    statements `emitDoc` lists for a (normalised) tree builds a `toml_edit` table which the deserializer presents
    as the tree `docTbl` — every table's own values first, then its sub-tables and arrays of tables
    (`run_emitDoc`). The induction follows `emitSubs` / `emitItem` / `emitAot`. -/
namespace TomlVerif.Lemmas.RoundTrip17
open TomlVerif.Model.DeText
open TomlVerif TomlVerif.Spec TomlVerif.Model TomlVerif.Model.TomlValue TomlVerif.Model.DeRoutes
open TomlVerif.Model.State
open TomlVerif.Lemmas.State09 TomlVerif.Lemmas.Encode06d

/-! ## the tree in document order -/

mutual
/-- the sub-tables and arrays of tables of a table, each again with its own values first -/
def docSubs : List (Bytes × TV) → List (Bytes × TV)
  | [] => []
  | (k, v) :: r => docItem k v ++ docSubs r
def docItem (k : Bytes) : TV → List (Bytes × TV)
  | .tbl items => [(k, .tbl (ownValues items ++ docSubs items))]
  | .arr l => if isAotList l then [(k, .arr (docAot l))] else []
  | _ => []
def docAot : List TV → List TV
  | [] => []
  | .tbl items :: r => .tbl (ownValues items ++ docSubs items) :: docAot r
  | _ :: r => docAot r
end

/-- the entries of a table in the order the printed document defines them -/
def docTbl (items : List (Bytes × TV)) : List (Bytes × TV) := ownValues items ++ docSubs items

/-- keys of the entries printed as tables or arrays of tables -/
def subKeys (items : List (Bytes × TV)) : List Bytes :=
  (items.filter fun e => !(kindOf e.2 == .value)).map Prod.fst

/-! ## presentations -/

mutual
theorem presOfVal_valOf : ∀ v : TV, presOfVal (valOf v) = presEdit v
  | .str _ => by simp [valOf, presOfVal, presEdit]
  | .int _ => by simp [valOf, presOfVal, presEdit]
  | .float _ => by simp [valOf, presOfVal, presEdit]
  | .bool _ => by simp [valOf, presOfVal, presEdit]
  | .dt _ => by simp [valOf, presOfVal, presEdit]
  | .arr l => by simp [valOf, presOfVal, presEdit, presOfVals_valOf l]
  | .tbl items => by simp [valOf, presOfVal, presEdit, presOfValPairs_valOf items]
theorem presOfVals_valOf : ∀ l : List TV, presOfVals (valOfList l) = presEditList l
  | [] => by simp [valOfList, presOfVals, presEditList]
  | v :: r => by simp [valOfList, presOfVals, presEditList, presOfVal_valOf v, presOfVals_valOf r]
theorem presOfValPairs_valOf : ∀ l : List (Bytes × TV), presOfValPairs (valOfPairs l) = presEditPairs l
  | [] => by simp [valOfPairs, presOfValPairs, presEditPairs]
  | (k, v) :: r => by simp [valOfPairs, presOfValPairs, presEditPairs, presOfVal_valOf v, presOfValPairs_valOf r]
end

theorem presOfItems_valItemsTV (l : List (Bytes × TV)) : presOfItems (valItemsTV l) = presEditPairs l := by
  induction l with
  | nil => simp [valItemsTV, presOfItems, presEditPairs]
  | cons x r ih => obtain ⟨k, v⟩ := x; simp [valItemsTV, presOfItems, presOfItem, presEditPairs, presOfVal_valOf, ih]

theorem presOfItems_append (a b : List (Bytes × Item)) : presOfItems (a ++ b) = presOfItems a ++ presOfItems b := by
  induction a with
  | nil => rfl
  | cons x r ih => obtain ⟨k, i⟩ := x; simp [presOfItems, ih]

theorem presEditPairs_append (a b : List (Bytes × TV)) : presEditPairs (a ++ b) = presEditPairs a ++ presEditPairs b := by
  induction a with
  | nil => rfl
  | cons x r ih => obtain ⟨k, i⟩ := x; simp [presEditPairs, ih]

theorem presOfTbls_append (a b : List Tbl) : presOfTbls (a ++ b) = presOfTbls a ++ presOfTbls b := by
  induction a with
  | nil => rfl
  | cons x r ih => simp [presOfTbls, ih]

/-! ## statements -/

theorem kvS_eq (l : List (Bytes × TV)) : (l.map fun e => TomlValue.Stmt.kv e.1 e.2).map stmtOf = kvS l := by
  induction l with
  | nil => rfl
  | cons x r ih => obtain ⟨k, v⟩ := x; simp [stmtOf, kvS] at ih ⊢; exact ih

theorem ownKvs_stmts (items : List (Bytes × TV)) : (ownKvs items).map stmtOf = kvS (ownValues items) :=
  kvS_eq (ownValues items)

/-! ## keys -/

theorem keys_split (items : List (Bytes × TV)) (hn : (items.map Prod.fst).Nodup) :
    (subKeys items).Nodup ∧ ((ownValues items).map Prod.fst).Nodup ∧
    (∀ k ∈ subKeys items, k ∉ (ownValues items).map Prod.fst) := by
  induction items with
  | nil => simp [subKeys, ownValues]
  | cons x r ih =>
    obtain ⟨k, v⟩ := x
    simp only [List.map_cons, List.nodup_cons] at hn
    obtain ⟨h1, h2, h3⟩ := ih hn.2
    have hsub : ∀ a ∈ subKeys r, a ∈ r.map Prod.fst := by
      intro a ha
      simp only [subKeys, List.mem_map, List.mem_filter] at ha
      obtain ⟨e, ⟨he, _⟩, rfl⟩ := ha
      exact List.mem_map_of_mem he
    have hown : ∀ a ∈ (ownValues r).map Prod.fst, a ∈ r.map Prod.fst := by
      intro a ha
      simp only [ownValues, List.mem_map, List.mem_filter] at ha
      obtain ⟨e, ⟨he, _⟩, rfl⟩ := ha
      exact List.mem_map_of_mem he
    cases hkind : kindOf v == .value with
    | true =>
      have e1 : subKeys ((k, v) :: r) = subKeys r := by simp [subKeys, List.filter_cons, hkind]
      have e2 : ownValues ((k, v) :: r) = (k, v) :: ownValues r := by simp [ownValues, List.filter_cons, hkind]
      rw [e1, e2]
      refine ⟨h1, ?_, ?_⟩
      · simp only [List.map_cons, List.nodup_cons]
        exact ⟨fun hk => hn.1 (hown k hk), h2⟩
      · intro a ha hc
        simp only [List.map_cons, List.mem_cons] at hc
        rcases hc with hc | hc
        · subst hc; exact hn.1 (hsub a ha)
        · exact h3 a ha hc
    | false =>
      have e1 : subKeys ((k, v) :: r) = k :: subKeys r := by simp [subKeys, List.filter_cons, hkind]
      have e2 : ownValues ((k, v) :: r) = ownValues r := by simp [ownValues, List.filter_cons, hkind]
      rw [e1, e2]
      refine ⟨?_, h2, ?_⟩
      · simp only [List.nodup_cons]
        exact ⟨fun hk => hn.1 (hsub k hk), h1⟩
      · intro a ha hc
        simp only [List.mem_cons] at ha
        rcases ha with ha | ha
        · subst ha; exact hn.1 (hown a hc)
        · exact h3 a ha hc

/-! ## descending into the entry under `key` -/

/-- how the last step of a header path goes through an entry: a table, or the last element of an array of tables -/
structure Through (wrap : Tbl → Item) : Prop where
  desc : ∀ (W T : Tbl) (key : Bytes) (h : Tbl → Option Tbl), alookup key W.items = some (wrap T) →
    descend W [key] false h = (h T).map (fun T' => W.setItems (aset key (wrap T') W.items))
  look : ∀ (W T : Tbl) (key : Bytes), alookup key W.items = some (wrap T) → lookupTbl W [key] = some T

theorem through_table : Through Item.table where
  desc W T key h ha := by
    rw [descend_cons_table W T key [] false h (by simp [ha]) rfl]
    rfl
  look W T key ha := by simp [lookupTbl, ha]

theorem through_aot (init : List Tbl) : Through (fun T => Item.aot (init ++ [T])) where
  desc W T key h ha := by
    rw [descend_cons_aot W T init key [] false h ha rfl]
    rfl
  look W T key ha := by simp [lookupTbl, ha]

/-! ## the claims -/

/-- the sub-tables and arrays of tables of a table that exists (its values are already there) -/
def ClaimSubs (items : List (Bytes × TV)) : Prop :=
  ∀ st V W P, intoDocument st = some V → lookupTbl V P = some W →
    (∀ k ∈ subKeys items, k ∉ W.items.map Prod.fst) → (subKeys items).Nodup →
    ∃ st' its, run st ((emitSubs P items).map stmtOf) = some st' ∧
      intoDocument st' = descend V P false (appendF its) ∧ presOfItems its = presEditPairs (docSubs items)

/-- the same for a table whose header the printer hid (non-empty, no values of its own) and that does not exist
    yet: the first thing printed below it creates it as an implicit table -/
def ClaimSubsH (items : List (Bytes × TV)) : Prop :=
  items ≠ [] → ownValues items = [] → (subKeys items).Nodup →
  ∀ st V U A R key, intoDocument st = some V → lookupTbl V A = some U → alookup (headKey R key) U.items = none →
    ∃ st' its, run st ((emitSubs (A ++ R ++ [key]) items).map stmtOf) = some st' ∧
      intoDocument st' = descend V A false (appendF [nest R key (.table (.mk its true false none))]) ∧
      presOfItems its = presEditPairs (docSubs items)

/-- one entry printed as a table or as an array of tables, below tables `R` that may not exist yet -/
def ClaimItem (v : TV) : Prop :=
  ∀ st V U A R key, intoDocument st = some V → lookupTbl V A = some U → alookup (headKey R key) U.items = none →
    ∃ st' I, run st ((emitItem (A ++ R ++ [key]) v).map stmtOf) = some st' ∧
      intoDocument st' = descend V A false (appendF [nest R key I]) ∧
      presOfItems [(key, I)] = presEditPairs (docItem key v)

/-- further elements of an array of tables -/
def ClaimAotMore (l : List TV) : Prop :=
  ∀ st V W P key pre, intoDocument st = some V → lookupTbl V P = some W → alookup key W.items = some (.aot pre) →
    ∃ st' ts', run st ((emitAot (P ++ [key]) l).map stmtOf) = some st' ∧
      intoDocument st' = descend V P false (setF key (.aot (pre ++ ts'))) ∧ presOfTbls ts' = presEditList (docAot l)

/-! ## steps -/

/-- the sub-tables of a table that was just put under a fresh chain -/
theorem subs_under (wrap : Tbl → Item) (hw : Through wrap) (items : List (Bytes × TV)) (hs : ClaimSubs items)
    (st1 : ParseState) (V U T0 : Tbl) (A R : List Bytes) (key : Bytes)
    (hU : lookupTbl V A = some U) (hk : alookup (headKey R key) U.items = none)
    (hdoc1 : intoDocument st1 = descend V A false (appendF [nest R key (wrap T0)]))
    (hkeys : ∀ k ∈ subKeys items, k ∉ T0.items.map Prod.fst) (hn : (subKeys items).Nodup) :
    ∃ st2 its, run st1 ((emitSubs (A ++ R ++ [key]) items).map stmtOf) = some st2 ∧
      intoDocument st2 = descend V A false (appendF [nest R key (wrap (T0.setItems (T0.items ++ its)))]) ∧
      presOfItems its = presEditPairs (docSubs items) := by
  obtain ⟨V1, hV1, hl1⟩ := descend_some V U _ A (appendF [nest R key (wrap T0)]) hU rfl
  obtain ⟨hlu, hau⟩ := lookup_nest R key (wrap T0) U hk
  have hlook : lookupTbl V1 (A ++ R ++ [key]) = some T0 := by
    rw [lookupTbl_append, lookupTbl_append, hl1]
    simp only [Option.bind, hlu]
    exact hw.look _ T0 key hau
  obtain ⟨st2, its, hrun2, hdoc2, hp⟩ := hs st1 V1 T0 (A ++ R ++ [key]) (hdoc1.trans hV1) hlook hkeys hn
  refine ⟨st2, its, hrun2, ?_, hp⟩
  rw [hdoc2, descend_append_false]
  exact descend_under V V1 U A R key (wrap T0) _ _ hU hk hV1 (by rw [hw.desc _ T0 key _ hau]; rfl)

/-- a table whose header is printed -/
theorem item_visible (items : List (Bytes × TV)) (hn : (items.map Prod.fst).Nodup) (hs : ClaimSubs items)
    (hvis : (!items.isEmpty && (ownValues items).isEmpty) = false) : ClaimItem (.tbl items) := by
  intro st V U A R key hV hU hk
  obtain ⟨hn1, hn2, hn3⟩ := keys_split items hn
  obtain ⟨st1, n, hrun1, hdoc1⟩ := std_block_free st V U A R key (ownValues items) hV hU hk hn2
  obtain ⟨st2, its, hrun2, hdoc2, hp⟩ := subs_under Item.table through_table items hs st1 V U
    (.mk (valItemsTV (ownValues items)) false false (some n)) A R key hU hk hdoc1
    (by intro k hkm; simpa [Tbl.items, valItemsTV_keys] using hn3 k hkm) hn1
  refine ⟨st2, _, ?_, hdoc2, ?_⟩
  · have hpe : (A ++ R ++ [key]).isEmpty = false := by simp
    have e : (emitItem (A ++ R ++ [key]) (.tbl items)).map stmtOf =
        (State09.Stmt.std (A ++ R ++ [key]) :: kvS (ownValues items)) ++ (emitSubs (A ++ R ++ [key]) items).map stmtOf := by
      rw [emitItem, tableStmts, headerOf]
      simp only [hpe, hvis, Bool.false_eq_true, if_false]
      simp [stmtOf, ownKvs_stmts]
    rw [e, run_append, hrun1]
    exact hrun2
  · simp [presOfItems, presOfItem, presOfTbl, docItem, presEditPairs, presEdit, Tbl.setItems, Tbl.items,
      presOfItems_append, presEditPairs_append, presOfItems_valItemsTV, hp]

/-- a table whose header is hidden -/
theorem item_hidden (items : List (Bytes × TV)) (hn : (items.map Prod.fst).Nodup) (hs : ClaimSubsH items)
    (hhid : (!items.isEmpty && (ownValues items).isEmpty) = true) : ClaimItem (.tbl items) := by
  intro st V U A R key hV hU hk
  simp only [Bool.and_eq_true, Bool.not_eq_eq_eq_not, Bool.not_true, List.isEmpty_eq_false_iff, List.isEmpty_iff] at hhid
  obtain ⟨hn1, _, _⟩ := keys_split items hn
  obtain ⟨st', its, hrun, hdoc, hp⟩ := hs hhid.1 hhid.2 hn1 st V U A R key hV hU hk
  refine ⟨st', _, ?_, hdoc, ?_⟩
  · have hpe : (A ++ R ++ [key]).isEmpty = false := by simp
    have hkv : ownKvs items = [] := by simp [ownKvs, hhid.2]
    have hne : items.isEmpty = false := by simpa using hhid.1
    rw [emitItem, tableStmts, headerOf]
    simp only [hpe, hkv, hhid.2, hne, Bool.false_eq_true, if_false, List.isEmpty_nil, Bool.not_false, Bool.and_self,
      if_true, List.nil_append]
    exact hrun
  · simp [presOfItems, presOfItem, presOfTbl, docItem, presEditPairs, presEdit, hhid.2, hp]

theorem subs_nil : ClaimSubs [] := by
  intro st V W P hV hW _ _
  refine ⟨st, [], by simp [emitSubs, run], ?_, by simp [docSubs, presOfItems, presEditPairs]⟩
  rw [hV, descend_id V W P _ hW (by simp [appendF, setItems_self])]

theorem emitItem_value (path : List Bytes) (v : TV) (h : (kindOf v == .value) = true) : emitItem path v = [] := by
  cases v with
  | tbl items => simp [kindOf] at h
  | arr l =>
    rw [emitItem]
    simp only [kindOf] at h
    split
    · rename_i hc; simp [hc] at h
    · rfl
  | _ => simp [emitItem]

theorem docItem_value (k : Bytes) (v : TV) (h : (kindOf v == .value) = true) : docItem k v = [] := by
  cases v with
  | tbl items => simp [kindOf] at h
  | arr l =>
    rw [docItem]
    simp only [kindOf] at h
    split
    · rename_i hc; simp [hc] at h
    · rfl
  | _ => simp [docItem]

theorem subs_value (k : Bytes) (v : TV) (r : List (Bytes × TV)) (hv : (kindOf v == .value) = true)
    (hr : ClaimSubs r) : ClaimSubs ((k, v) :: r) := by
  intro st V W P hV hW hk hn
  have e1 : subKeys ((k, v) :: r) = subKeys r := by simp [subKeys, List.filter_cons, hv]
  rw [e1] at hk hn
  obtain ⟨st', its, h1, h2, h3⟩ := hr st V W P hV hW hk hn
  refine ⟨st', its, ?_, h2, ?_⟩
  · rw [emitSubs, emitItem_value _ v hv]; exact h1
  · rw [docSubs, docItem_value k v hv]; exact h3

theorem subs_item (k : Bytes) (v : TV) (r : List (Bytes × TV)) (hv : (kindOf v == .value) = false)
    (hi : ClaimItem v) (hr : ClaimSubs r) : ClaimSubs ((k, v) :: r) := by
  intro st V W P hV hW hk hn
  have e1 : subKeys ((k, v) :: r) = k :: subKeys r := by simp [subKeys, List.filter_cons, hv]
  rw [e1] at hk hn
  have hkW : alookup k W.items = none := (alookup_none_iff _ _).2 (hk k (by simp))
  obtain ⟨st1, I, hrun1, hdoc1, hp1⟩ := hi st V W P [] k hV hW hkW
  simp only [nest, List.append_nil] at hdoc1 hrun1
  obtain ⟨V1, hV1, hl1⟩ := descend_some V W _ P (appendF [(k, I)]) hW rfl
  obtain ⟨st2, its, hrun2, hdoc2, hp2⟩ := hr st1 V1 _ P (hdoc1.trans hV1) hl1 (keys_after W k _ _ hk hn)
    (List.nodup_cons.1 hn).2
  refine ⟨st2, (k, I) :: its, ?_, ?_, ?_⟩
  · simp only [emitSubs, List.map_append, run_append, hrun1, Option.bind]
    exact hrun2
  · rw [hdoc2]
    refine descend_then V V1 W P _ _ _ hV1 hW ?_
    simp [appendF, Tbl.setItems, Tbl.items, Tbl.implicit, Tbl.dotted, Tbl.pos]
  · simp only [docSubs, presEditPairs_append]
    rw [← hp1, ← hp2]
    simp [presOfItems]

/-- the first entry of a hidden table creates it; the others find it there -/
theorem subsH_cons (k : Bytes) (v : TV) (r : List (Bytes × TV)) (hi : ClaimItem v) (hr : ClaimSubs r) :
    ClaimSubsH ((k, v) :: r) := by
  intro _ hown hn st V U A R key hV hU hk
  have hv : (kindOf v == .value) = false := by
    cases h : kindOf v == .value with
    | false => rfl
    | true => simp [ownValues, List.filter_cons, h] at hown
  have e1 : subKeys ((k, v) :: r) = k :: subKeys r := by simp [subKeys, List.filter_cons, hv]
  rw [e1] at hn
  have hk' : alookup (headKey (R ++ [key]) k) U.items = none := by rw [headKey_append]; exact hk
  obtain ⟨st1, I, hrun1, hdoc1, hp1⟩ := hi st V U A (R ++ [key]) k hV hU hk'
  rw [nest_append] at hdoc1
  rw [← List.append_assoc] at hrun1
  obtain ⟨st2, its, hrun2, hdoc2, hp2⟩ := subs_under Item.table through_table r hr st1 V U
    (.mk [(k, I)] true false none) A R key hU hk hdoc1
    (by intro a ha hm
        simp only [Tbl.items, List.map_cons, List.map_nil, List.mem_singleton] at hm
        subst hm; exact (List.nodup_cons.1 hn).1 ha)
    (List.nodup_cons.1 hn).2
  refine ⟨st2, (k, I) :: its, ?_, ?_, ?_⟩
  · simp only [emitSubs, List.map_append, run_append, hrun1, Option.bind]
    exact hrun2
  · rw [hdoc2]; rfl
  · simp only [docSubs, presEditPairs_append]
    rw [← hp1, ← hp2]
    simp [presOfItems]

/-! ### arrays of tables -/

theorem aotMore_nil : ClaimAotMore [] := by
  intro st V W P key pre hV hW hk
  refine ⟨st, [], by simp [emitAot, run], ?_, by simp [docAot, presOfTbls, presEditList]⟩
  rw [hV, descend_id V W P _ hW (by simp [setF, aset_self _ _ _ hk, setItems_self])]

theorem aotMore_skip (v : TV) (r : List TV) (hv : v.isTable = false) (hr : ClaimAotMore r) : ClaimAotMore (v :: r) := by
  intro st V W P key pre hV hW hk
  obtain ⟨st', ts', h1, h2, h3⟩ := hr st V W P key pre hV hW hk
  refine ⟨st', ts', ?_, h2, ?_⟩
  · cases v <;> first | (simp only [emitAot]; exact h1) | (simp [TV.isTable] at hv)
  · cases v <;> first | (simp only [docAot]; exact h3) | (simp [TV.isTable] at hv)

theorem aotMore_tbl (items : List (Bytes × TV)) (r : List TV) (hn : (items.map Prod.fst).Nodup)
    (hs : ClaimSubs items) (hr : ClaimAotMore r) : ClaimAotMore (.tbl items :: r) := by
  intro st V W P key pre hV hW hk
  obtain ⟨hn1, hn2, hn3⟩ := keys_split items hn
  obtain ⟨st1, n, hrun1, hdoc1⟩ := arr_block_more st V W P key (ownValues items) pre hV hW hk hn2
  -- the element is there; its sub-tables
  obtain ⟨V1, hV1, hl1⟩ := descend_some V W _ P
    (setF key (.aot (pre ++ [.mk (valItemsTV (ownValues items)) false false (some n)]))) hW rfl
  have ha1 : alookup key (W.setItems (aset key (.aot (pre ++ [.mk (valItemsTV (ownValues items)) false false (some n)])) W.items)).items
      = some (.aot (pre ++ [.mk (valItemsTV (ownValues items)) false false (some n)])) := by
    simp [alookup_aset_same]
  have hlook : lookupTbl V1 (P ++ [key]) = some (.mk (valItemsTV (ownValues items)) false false (some n)) := by
    rw [lookupTbl_append, hl1]
    exact (through_aot pre).look _ _ key ha1
  obtain ⟨st2, its, hrun2, hdoc2, hp2⟩ := hs st1 V1 _ (P ++ [key]) (hdoc1.trans hV1) hlook
    (by intro k hkm; simpa [Tbl.items, valItemsTV_keys] using hn3 k hkm) hn1
  have hdoc2' : intoDocument st2 = descend V P false
      (setF key (.aot (pre ++ [.mk (valItemsTV (ownValues items) ++ its) false false (some n)]))) := by
    rw [hdoc2, descend_append_false]
    refine descend_then V V1 W P _ _ _ hV1 hW ?_
    simp only [setF, Option.bind]
    rw [(through_aot pre).desc _ _ key _ ha1]
    simp [appendF, aset_aset, Tbl.setItems, Tbl.items, Tbl.implicit, Tbl.dotted, Tbl.pos]
  -- the remaining elements
  obtain ⟨V2, hV2, hl2⟩ := descend_some V W _ P
    (setF key (.aot (pre ++ [.mk (valItemsTV (ownValues items) ++ its) false false (some n)]))) hW rfl
  obtain ⟨st3, ts', hrun3, hdoc3, hp3⟩ := hr st2 V2 _ P key
    (pre ++ [.mk (valItemsTV (ownValues items) ++ its) false false (some n)]) (hdoc2'.trans hV2) hl2
    (by simp [alookup_aset_same])
  refine ⟨st3, .mk (valItemsTV (ownValues items) ++ its) false false (some n) :: ts', ?_, ?_, ?_⟩
  · have hpe : (P ++ [key]).isEmpty = false := by simp
    have e : (emitAot (P ++ [key]) (.tbl items :: r)).map stmtOf =
        (State09.Stmt.arr (P ++ [key]) :: kvS (ownValues items)) ++ ((emitSubs (P ++ [key]) items).map stmtOf ++
          (emitAot (P ++ [key]) r).map stmtOf) := by
      rw [emitAot, tableStmts, headerOf]
      simp only [hpe, Bool.false_eq_true, if_false, if_true]
      simp [stmtOf, ownKvs_stmts]
    rw [e, run_append, hrun1]
    simp only [Option.bind, run_append, hrun2]
    exact hrun3
  · rw [hdoc3]
    refine descend_then V V2 W P _ _ _ hV2 hW ?_
    simp [setF, aset_aset, Tbl.setItems, Tbl.items, Tbl.implicit, Tbl.dotted, Tbl.pos]
  · simp [presOfTbls, presOfTbl, docAot, presEditList, presEdit, presOfItems_append, presEditPairs_append,
      presOfItems_valItemsTV, hp2, hp3]

/-- an array of tables: the first element creates the array (and the tables above it), the others extend it -/
theorem item_aot (items : List (Bytes × TV)) (r : List TV) (hn : (items.map Prod.fst).Nodup)
    (hall : r.all TV.isTable = true) (hs : ClaimSubs items) (hr : ClaimAotMore r) : ClaimItem (.arr (.tbl items :: r)) := by
  intro st V U A R key hV hU hk
  have haot : isAotList (.tbl items :: r) = true := by simp [isAotList, TV.isTable, hall]
  obtain ⟨hn1, hn2, hn3⟩ := keys_split items hn
  obtain ⟨st1, n, hrun1, hdoc1⟩ := arr_block_free st V U A R key (ownValues items) hV hU hk hn2
  obtain ⟨st2, its, hrun2, hdoc2, hp2⟩ := subs_under (fun T => Item.aot ([] ++ [T])) (through_aot []) items hs st1 V U
    (.mk (valItemsTV (ownValues items)) false false (some n)) A R key hU hk hdoc1
    (by intro k hkm; simpa [Tbl.items, valItemsTV_keys] using hn3 k hkm) hn1
  simp only [List.nil_append] at hdoc2
  -- the remaining elements, below the (now existing) table at `A ++ R`
  obtain ⟨V2, hV2, hl2⟩ := descend_some V U _ A
    (appendF [nest R key (.aot [.mk (valItemsTV (ownValues items) ++ its) false false (some n)])]) hU rfl
  obtain ⟨hlu, hau⟩ := lookup_nest R key (.aot [.mk (valItemsTV (ownValues items) ++ its) false false (some n)]) U hk
  have hlook : lookupTbl V2 (A ++ R) = some (under R key (.aot [.mk (valItemsTV (ownValues items) ++ its) false false (some n)]) U) := by
    rw [lookupTbl_append, hl2]; exact hlu
  have hdoc2' : intoDocument st2 = some V2 := by
    rw [hdoc2]; exact hV2
  obtain ⟨st3, ts', hrun3, hdoc3, hp3⟩ := hr st2 V2 _ (A ++ R) key _ hdoc2' hlook hau
  refine ⟨st3, .aot (.mk (valItemsTV (ownValues items) ++ its) false false (some n) :: ts'), ?_, ?_, ?_⟩
  · have hpe : (A ++ R ++ [key]).isEmpty = false := by simp
    have e : (emitItem (A ++ R ++ [key]) (.arr (.tbl items :: r))).map stmtOf =
        (State09.Stmt.arr (A ++ R ++ [key]) :: kvS (ownValues items)) ++ ((emitSubs (A ++ R ++ [key]) items).map stmtOf ++
          (emitAot (A ++ R ++ [key]) r).map stmtOf) := by
      rw [emitItem]
      simp only [haot, if_true]
      rw [emitAot, tableStmts, headerOf]
      simp only [hpe, Bool.false_eq_true, if_false, if_true]
      simp [stmtOf, ownKvs_stmts]
    rw [e, run_append, hrun1]
    simp only [Option.bind, run_append, hrun2]
    exact hrun3
  · rw [hdoc3]
    exact descend_under V V2 U A R key _ _ _ hU hk hV2 rfl
  · simp only [docItem, haot, if_true]
    simp [presOfItems, presOfItem, presOfTbls, presOfTbl, docAot, presEditPairs, presEditList, presEdit,
      presOfItems_append, presEditPairs_append, presOfItems_valItemsTV, hp2, hp3]

/-! ## the induction -/

mutual
theorem claim_subs : ∀ items : List (Bytes × TV), OkPs items → ClaimSubs items ∧ ClaimSubsH items
  | [], _ => ⟨subs_nil, fun h => absurd rfl h⟩
  | (k, v) :: r, h => by
    rw [OkPs] at h
    have hr := (claim_subs r h.2).1
    cases hv : kindOf v == .value with
    | true =>
      refine ⟨subs_value k v r hv hr, ?_⟩
      intro _ hown
      simp [ownValues, List.filter_cons, hv] at hown
    | false =>
      have hi := claim_item v h.1 hv
      exact ⟨subs_item k v r hv hi hr, subsH_cons k v r hi hr⟩
theorem claim_item : ∀ v : TV, OkV v → (kindOf v == .value) = false → ClaimItem v
  | .tbl items, h, _ => by
    rw [OkV] at h
    have hs := claim_subs items h.1
    cases hvis : (!items.isEmpty && (ownValues items).isEmpty) with
    | false => exact item_visible items h.2.1 hs.1 hvis
    | true => exact item_hidden items h.2.1 hs.2 hvis
  | .arr [], _, hk => by simp [kindOf, isAotList] at hk
  | .arr (.tbl items :: r), h, hk => by
    rw [OkV, OkVs, OkV] at h
    have hall : r.all TV.isTable = true := by
      cases ha : isAotList (.tbl items :: r) with
      | false => simp [kindOf, ha] at hk
      | true => simpa [isAotList, TV.isTable] using ha
    exact item_aot items r h.1.2.1 hall (claim_subs items h.1.1).1 (claim_aotMore r h.2)
  | .arr (.str _ :: r), _, hk => by simp [kindOf, isAotList, TV.isTable] at hk
  | .arr (.int _ :: r), _, hk => by simp [kindOf, isAotList, TV.isTable] at hk
  | .arr (.float _ :: r), _, hk => by simp [kindOf, isAotList, TV.isTable] at hk
  | .arr (.bool _ :: r), _, hk => by simp [kindOf, isAotList, TV.isTable] at hk
  | .arr (.dt _ :: r), _, hk => by simp [kindOf, isAotList, TV.isTable] at hk
  | .arr (.arr _ :: r), _, hk => by simp [kindOf, isAotList, TV.isTable] at hk
  | .str _, _, hk => by simp [kindOf] at hk
  | .int _, _, hk => by simp [kindOf] at hk
  | .float _, _, hk => by simp [kindOf] at hk
  | .bool _, _, hk => by simp [kindOf] at hk
  | .dt _, _, hk => by simp [kindOf] at hk
theorem claim_aotMore : ∀ l : List TV, OkVs l → ClaimAotMore l
  | [], _ => aotMore_nil
  | .tbl items :: r, h => by
    rw [OkVs, OkV] at h
    exact aotMore_tbl items r h.1.2.1 (claim_subs items h.1.1).1 (claim_aotMore r h.2)
  | .str _ :: r, h => by rw [OkVs] at h; exact aotMore_skip _ r rfl (claim_aotMore r h.2)
  | .int _ :: r, h => by rw [OkVs] at h; exact aotMore_skip _ r rfl (claim_aotMore r h.2)
  | .float _ :: r, h => by rw [OkVs] at h; exact aotMore_skip _ r rfl (claim_aotMore r h.2)
  | .bool _ :: r, h => by rw [OkVs] at h; exact aotMore_skip _ r rfl (claim_aotMore r h.2)
  | .dt _ :: r, h => by rw [OkVs] at h; exact aotMore_skip _ r rfl (claim_aotMore r h.2)
  | .arr _ :: r, h => by rw [OkVs] at h; exact aotMore_skip _ r rfl (claim_aotMore r h.2)
end

/-! ## the document -/

/-- **the definition state machine on the statements of a tree**: it accepts them, and the deserializer presents
    the table it builds as the tree in document order -/
theorem run_emitDoc (items : List (Bytes × TV)) (h : OkPs items) (hn : (items.map Prod.fst).Nodup) :
    ∃ T, (run {} ((emitDoc items).map stmtOf)).bind intoDocument = some T ∧
      presOfTbl T = .map (presEditPairs (docTbl items)) := by
  obtain ⟨hn1, hn2, hn3⟩ := keys_split items hn
  have e : (emitDoc items).map stmtOf = kvS (ownValues items) ++ (emitSubs [] items).map stmtOf := by
    simp [emitDoc, tableStmts, headerOf, ownKvs_stmts]
  rw [e, run_append, run_kvS (ownValues items) {} rfl hn2 (by simp [Tbl.items, Tbl.empty])]
  simp only [Option.bind]
  have hV0 := intoDocument_root
    { ({} : ParseState) with current := ({} : ParseState).current.setItems (({} : ParseState).current.items ++ valItemsTV (ownValues items)) }
    rfl rfl
  obtain ⟨st', its, hrun, hdoc, hp⟩ := (claim_subs items h).1 _ _ _ [] hV0 rfl
    (by intro k hk; simpa [Tbl.items, Tbl.empty, Tbl.setItems, valItemsTV_keys] using hn3 k hk) hn1
  rw [hrun]
  simp only [hdoc, descend, appendF]
  refine ⟨_, rfl, ?_⟩
  simp [presOfTbl, Tbl.setItems, Tbl.items, Tbl.empty, presOfItems_append, presOfItems_valItemsTV, hp, docTbl,
    presEditPairs_append]

end TomlVerif.Lemmas.RoundTrip17
