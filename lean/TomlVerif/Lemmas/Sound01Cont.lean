import TomlVerif.Lemmas.Sound01Trivia
/-! Soundness of the container parsers (`array`, `inline_table`) over the syntax `QVal`, given that the
    scalar branches of `value` are sound (`ScalarSound`). -/
namespace TomlVerif.Lemmas.Sound01
open TomlVerif TomlVerif.Spec TomlVerif.Model TomlVerif.Model.Strings TomlVerif.Model.Value
open TomlVerif.Spec.AstValue TomlVerif.Spec.AstValueQ TomlVerif.Lemmas.Value01

/-- the scalar branches of `value` (everything that does not start with `[` or `{`) are sound: what is consumed
    is a scalar token (`ScalarOK`: read back the same way before anything that may follow a value) -/
def ScalarSound : Prop :=
  ∀ (fuel d : Nat) (s : Bytes) (v : Val) (rest : Bytes), value fuel d s = .ok v rest →
    (∀ b r, s = b :: r → b ≠ 0x5B ∧ b ≠ 0x7B) →
    ∃ t : ScalarTok, ScalarOK t ∧ s = t.tok ++ rest ∧ t.v = v

/-- what the model guarantees about nesting: scalars are accepted at any depth (the recursion check sits in
    `array` and `inline_table`), containers only below the limit -/
def DepthOK (d : Nat) (a : QVal) : Prop := depthQ a = 0 ∨ d + depthQ a < LIMIT

def ValSpec (d : Nat) (s : Bytes) (v : Val) (rest : Bytes) : Prop :=
  ∃ a : QVal, WFQ a ∧ s = renderQ a ++ rest ∧ semQ a = v ∧ DepthOK d a

def ElemsSpec (d : Nat) (s : Bytes) (acc vs : List Val) (r : Bytes) : Prop :=
  ∃ items : List (Wcn × QVal × Wcn), WFItemsQ items ∧ vs = acc ++ semItemsQ items ∧
    (depthItemsQ items = 0 ∨ d + depthItemsQ items < LIMIT) ∧
    ((items = [] ∧ r = s) ∨ (items ≠ [] ∧ s = renderItemsQ items ++ r))

def ArrSpec (d : Nat) (s : Bytes) (vs : List Val) (r : Bytes) : Prop :=
  ∃ (items : List (Wcn × QVal × Wcn)) (tc : Bool) (tail : Wcn), WFItemsQ items ∧ WcnWF tail ∧ (items = [] → tc = false) ∧
    vs = semItemsQ items ∧ (depthItemsQ items = 0 ∨ d + depthItemsQ items < LIMIT) ∧
    s = renderItemsQ items ++ ((if tc then [0x2C] else []) ++ (renderWcn tail ++ r))

def PairsSpec (d : Nat) (s : Bytes) (acc kvs : List (List Bytes × Bytes × Val)) (r : Bytes) : Prop :=
  ∃ items : List (QDKey × Bytes × QVal × Bytes), WFPairsQ items ∧ kvs = acc ++ flatPairsQ items ∧
    (depthPairsQ items = 0 ∨ d + depthPairsQ items < LIMIT) ∧
    ((items = [] ∧ r = s) ∨ (items ≠ [] ∧ s = renderPairsQ items ++ r))

theorem semItemsQ_length (l : List (Wcn × QVal × Wcn)) : (semItemsQ l).length = l.length := by
  induction l with
  | nil => rfl
  | cons p l ih => obtain ⟨a, v, b⟩ := p; simp [semItemsQ, ih]

theorem flatPairsQ_length (l : List (QDKey × Bytes × QVal × Bytes)) : (flatPairsQ l).length = l.length := by
  induction l with
  | nil => rfl
  | cons p l ih => obtain ⟨k, a, v, b⟩ := p; simp [flatPairsQ, ih]

theorem renderItemsSepQ_cons (p : Wcn × QVal × Wcn) (l : List (Wcn × QVal × Wcn)) :
    renderItemsSepQ (p :: l) = 0x2C :: renderItemsQ (p :: l) := by
  obtain ⟨a, v, b⟩ := p; simp [renderItemsSepQ, renderItemsQ]

theorem renderPairsSepQ_cons (p : QDKey × Bytes × QVal × Bytes) (l : List (QDKey × Bytes × QVal × Bytes)) :
    renderPairsSepQ (p :: l) = 0x2C :: renderPairsQ (p :: l) := by
  obtain ⟨k, a, v, b⟩ := p; simp [renderPairsSepQ, renderPairsQ]

/-! ## `array_values`' element loop -/

theorem elems_step (f : Nat)
    (ihV : ∀ d s v rest, value f d s = .ok v rest → ValSpec d s v rest)
    (ihE : ∀ d s acc vs r, arrayElems f d s acc = .ok vs r → ElemsSpec d s acc vs r) :
    ∀ d s acc vs r, arrayElems (f + 1) d s acc = .ok vs r → ElemsSpec d s acc vs r := by
  intro d s acc vs r h
  have hnone : ∀ vs' r', Res.ok acc s = Res.ok vs' r' → ElemsSpec d s acc vs' r' := by
    intro vs' r' e
    injection e with e1 e2
    subst e1 e2
    exact ⟨[], trivial, by simp [semItemsQ], Or.inl rfl, Or.inl ⟨rfl, rfl⟩⟩
  unfold arrayElems at h
  split at h
  · exact hnone _ _ h
  · rename_i s1 hw1
    obtain ⟨pre, hpre, e1, hnt1⟩ := wcn_sound _ _ _ hw1
    split at h
    · cases h
    · exact hnone _ _ h
    · rename_i v s2 hv
      obtain ⟨a, hwa, e2, hsa, hda⟩ := ihV _ _ _ _ hv
      split at h
      · exact hnone _ _ h
      · rename_i s3 hw3
        obtain ⟨post, hpost, e3, hnt3⟩ := wcn_sound _ _ _ hw3
        have hdep1 : depthItemsQ [(pre, a, post)] = 0 ∨ d + depthItemsQ [(pre, a, post)] < LIMIT := by
          simp only [depthItemsQ, Nat.max_zero]; exact hda
        have hone : ElemsSpec d s acc (acc ++ [v]) s3 := by
          refine ⟨[(pre, a, post)], ⟨hpre, hwa, hpost, trivial⟩, by simp [semItemsQ, hsa], hdep1, Or.inr ⟨by simp, ?_⟩⟩
          rw [e1, e2, e3]; simp [renderItemsQ, renderItemsSepQ]
        split at h
        · rename_i s4
          cases hrec : arrayElems f d s4 (acc ++ [v]) with
          | bt => rw [hrec] at h; cases h
          | cut => rw [hrec] at h; cases h
          | ok vs' r' =>
            rw [hrec] at h
            simp only [] at h
            obtain ⟨items', hwi, evs, hdi, hcase⟩ := ihE _ _ _ _ _ hrec
            have hl : vs'.length = (acc ++ [v]).length + items'.length := by
              rw [evs]; simp [semItemsQ_length]; omega
            split at h
            · rename_i hlen
              injection h with h1 h2
              subst h1 h2
              have hlen' : vs'.length = (acc ++ [v]).length := by simpa using hlen
              have : items' = [] := List.eq_nil_of_length_eq_zero (by omega)
              subst this
              simp only [semItemsQ, List.append_nil] at evs
              rw [evs]
              exact hone
            · rename_i hlen
              injection h with h1 h2
              subst h1 h2
              rcases hcase with ⟨hnil, _⟩ | ⟨hne, es4⟩
              · subst hnil
                simp at hl
                simp [hl] at hlen
              · refine ⟨(pre, a, post) :: items', ⟨hpre, hwa, hpost, hwi⟩, ?_, ?_, Or.inr ⟨by simp, ?_⟩⟩
                · rw [evs]; simp [semItemsQ, hsa]
                · simp only [depthItemsQ]
                  unfold DepthOK at hda
                  omega
                · cases items' with
                  | nil => exact absurd rfl hne
                  | cons p l =>
                    rw [e1, e2, e3, es4]
                    simp only [renderItemsQ.eq_2, renderItemsSepQ_cons, List.append_assoc, List.cons_append]
        · injection h with h1 h2
          subst h1 h2
          exact hone

/-! ## `array_values` -/

theorem arr_step (f : Nat)
    (ihE : ∀ d s acc vs r, arrayElems f d s acc = .ok vs r → ElemsSpec d s acc vs r) :
    ∀ d s vs r, arrayValues (f + 1) d s = .ok vs r → ArrSpec d s vs r := by
  intro d s vs r h
  unfold arrayValues at h
  split at h
  · injection h with h1 h2
    subst h1 h2
    exact ⟨[], false, [], trivial, wcnWF_nil, fun _ => rfl, rfl, Or.inl rfl, by simp [renderItemsQ, renderWcn]⟩
  · cases hel : arrayElems f d s [] with
    | bt => rw [hel] at h; cases h
    | cut => rw [hel] at h; cases h
    | ok vs' r' =>
      rw [hel] at h
      simp only [] at h
      obtain ⟨items, hwi, evs, hdi, hcase⟩ := ihE _ _ _ _ _ hel
      simp only [List.nil_append] at evs
      split at h
      · rename_i r2 hw
        injection h with h1 h2
        subst h1 h2
        obtain ⟨tail, htail, et, _⟩ := wcn_sound _ _ _ hw
        rcases hcase with ⟨hnil, hr⟩ | ⟨hne, es⟩
        · subst hnil hr
          simp only [semItemsQ] at evs
          subst evs
          simp only [List.isEmpty_nil, if_true] at et
          exact ⟨[], false, tail, trivial, htail, fun _ => rfl, rfl, Or.inl rfl, by simpa [renderItemsQ] using et⟩
        · have hvne : vs'.isEmpty = false := by
            cases items with
            | nil => exact absurd rfl hne
            | cons p l => obtain ⟨a, b, c⟩ := p; rw [evs]; simp [semItemsQ]
          simp only [hvne, Bool.false_eq_true, if_false] at et
          split at et
          · rename_i t
            exact ⟨items, true, tail, hwi, htail, fun e => absurd e hne, evs, hdi, by rw [es, et]; simp⟩
          · exact ⟨items, false, tail, hwi, htail, fun _ => rfl, evs, hdi, by rw [es, et]; simp⟩
      · cases h

/-! ## inline tables -/

theorem splitLast_cons_eq (k : Bytes) (ks : List Bytes) (path : List Bytes) (key : Bytes)
    (h : splitLast (k :: ks) = some (path, key)) : path = (splitKeys k ks).1 ∧ key = (splitKeys k ks).2 := by
  rw [splitLast_splitKeys] at h
  injection h with h
  rw [h]; exact ⟨rfl, rfl⟩

theorem pairs_step (f : Nat)
    (ihV : ∀ d s v rest, value f d s = .ok v rest → ValSpec d s v rest)
    (ihP : ∀ d s acc kvs r, inlineKeyvals f d s acc = .ok kvs r → PairsSpec d s acc kvs r) :
    ∀ d s acc kvs r, inlineKeyvals (f + 1) d s acc = .ok kvs r → PairsSpec d s acc kvs r := by
  intro d s acc kvs r h
  unfold inlineKeyvals at h
  split at h
  · cases h
  · injection h with h1 h2
    subst h1 h2
    exact ⟨[], trivial, by simp [flatPairsQ], Or.inl rfl, Or.inl ⟨rfl, rfl⟩⟩
  · rename_i ks r0 hkp
    obtain ⟨k, hkwf, ek, ekeys⟩ := keyPath_sound _ _ _ hkp
    have hlen : ks.length - 1 = k.more.length := by rw [← ekeys]; simp [QDKey.keys]
    split at h
    · cases h
    · rename_i hlim
      split at h
      · rename_i r1
        cases hv : value f (d + (ks.length - 1)) (dropWs r1) with
        | bt => rw [hv] at h; cases h
        | cut => rw [hv] at h; cases h
        | ok v r2 =>
          rw [hv] at h
          simp only [] at h
          obtain ⟨a, hwa, ea, hsa, hda⟩ := ihV _ _ _ _ hv
          obtain ⟨w1, hw1, e1, _⟩ := dropWs_split r1
          obtain ⟨w2, hw2, e2, _⟩ := dropWs_split r2
          split at h
          · cases h
          · rename_i path key hsl
            rw [← ekeys] at hsl
            obtain ⟨hp, hk⟩ := splitLast_cons_eq _ _ _ _ hsl
            have hpath : path = k.path := hp
            have hkey : key = k.last := hk
            subst hpath hkey
            have hdep1 : d + (k.more.length + depthQ a) < LIMIT := by
              unfold DepthOK at hda
              omega
            have hs3 : s = renderPairsQ [(k, w1, a, w2)] ++ dropWs r2 := by
              rw [ek, e1, ea, e2]
              simp [renderPairsQ, renderPairsSepQ]
              rw [← e2]
            have hone : PairsSpec d s acc (acc ++ [(k.path, k.last, v)]) (dropWs r2) := by
              refine ⟨[(k, w1, a, w2)], ⟨hkwf, hw1, hwa, hw2, trivial⟩, by simp [flatPairsQ, hsa], ?_, Or.inr ⟨by simp, hs3⟩⟩
              simp only [depthPairsQ, Nat.max_zero]
              exact Or.inr hdep1
            split at h
            · rename_i r4 hr3
              cases hrec : inlineKeyvals f d r4 (acc ++ [(k.path, k.last, v)]) with
              | bt => rw [hrec] at h; cases h
              | cut => rw [hrec] at h; cases h
              | ok kvs' r5 =>
                rw [hrec] at h
                simp only [] at h
                obtain ⟨items', hwi, ekvs, hdi, hcase⟩ := ihP _ _ _ _ _ hrec
                have hl : kvs'.length = (acc ++ [(k.path, k.last, v)]).length + items'.length := by
                  rw [ekvs]; simp [flatPairsQ_length]; omega
                split at h
                · rename_i hlen'
                  injection h with h1 h2
                  subst h1 h2
                  have hlen'' : kvs'.length = (acc ++ [(k.path, k.last, v)]).length := by simpa using hlen'
                  have : items' = [] := List.eq_nil_of_length_eq_zero (by omega)
                  subst this
                  simp only [flatPairsQ, List.append_nil] at ekvs
                  rw [ekvs]
                  exact hone
                · rename_i hlen'
                  injection h with h1 h2
                  subst h1 h2
                  rcases hcase with ⟨hnil, _⟩ | ⟨hne, es4⟩
                  · subst hnil
                    simp at hl
                    simp [hl] at hlen'
                  · refine ⟨(k, w1, a, w2) :: items', ⟨hkwf, hw1, hwa, hw2, hwi⟩, ?_, ?_, Or.inr ⟨by simp, ?_⟩⟩
                    · rw [ekvs]; simp [flatPairsQ, hsa]
                    · simp only [depthPairsQ]
                      omega
                    · cases items' with
                      | nil => exact absurd rfl hne
                      | cons p l =>
                        obtain ⟨k', a', v', b'⟩ := p
                        rw [hs3, hr3, es4]
                        simp [renderPairsQ, renderPairsSepQ]
            · injection h with h1 h2
              subst h1 h2
              exact hone
      · cases h

/-! ## `value` -/

theorem value_nil (f d : Nat) : value (f + 1) d [] = .bt := by
  unfold value; rfl

theorem value_arr_unfold (f d : Nat) (r : Bytes) :
    value (f + 1) d (0x5B :: r) =
      if LIMIT ≤ d + 1 then .cut
      else match arrayValues f (d + 1) r with
        | .ok vs r1 =>
          match r1 with
          | 0x5D :: r2 => .ok (.arr vs) r2
          | _ => .cut
        | _ => .cut := by
  conv => lhs; unfold value
  simp
  rfl

theorem value_inl_unfold (f d : Nat) (r : Bytes) :
    value (f + 1) d (0x7B :: r) =
      if LIMIT ≤ d + 1 then .cut
      else match inlineKeyvals f (d + 1) r [] with
        | .ok kvs r1 =>
          match tableFromPairs kvs [] with
          | none => .cut
          | some items =>
            match dropWs r1 with
            | 0x7D :: r2 => .ok (.inl items false false) r2
            | _ => .cut
        | _ => .cut := by
  conv => lhs; unfold value
  simp
  rfl

theorem value_step (hs : ScalarSound) (f : Nat)
    (ihA : ∀ d s vs r, arrayValues f d s = .ok vs r → ArrSpec d s vs r)
    (ihP : ∀ d s acc kvs r, inlineKeyvals f d s acc = .ok kvs r → PairsSpec d s acc kvs r) :
    ∀ d s v rest, value (f + 1) d s = .ok v rest → ValSpec d s v rest := by
  intro d s v rest h
  cases s with
  | nil => rw [value_nil] at h; cases h
  | cons b r =>
    by_cases hb1 : b = 0x5B
    · subst hb1
      rw [value_arr_unfold] at h
      split at h
      · cases h
      · rename_i hlim
        cases ha : arrayValues f (d + 1) r with
        | bt => rw [ha] at h; cases h
        | cut => rw [ha] at h; cases h
        | ok vs r1 =>
          rw [ha] at h
          simp only [] at h
          obtain ⟨items, tc, tail, hwi, htail, htc, evs, hdi, es⟩ := ihA _ _ _ _ ha
          split at h
          · rename_i r2
            injection h with h1 h2
            subst h1 h2
            refine ⟨.arr items tc tail, ?_, ?_, ?_, Or.inr ?_⟩
            · rw [WFQ]; exact ⟨hwi, htail, htc⟩
            · rw [es]; simp [renderQ]
            · simp [semQ, evs]
            · simp only [depthQ]; omega
          · cases h
    · by_cases hb2 : b = 0x7B
      · subst hb2
        rw [value_inl_unfold] at h
        split at h
        · cases h
        · rename_i hlim
          cases hp : inlineKeyvals f (d + 1) r [] with
          | bt => rw [hp] at h; cases h
          | cut => rw [hp] at h; cases h
          | ok kvs r1 =>
            rw [hp] at h
            simp only [] at h
            obtain ⟨items, hwi, ekvs, hdi, hcase⟩ := ihP _ _ _ _ _ hp
            simp only [List.nil_append] at ekvs
            split at h
            · cases h
            · rename_i tbl htbl
              obtain ⟨tail, htail, et, _⟩ := dropWs_split r1
              split at h
              · rename_i r2 hclose
                injection h with h1 h2
                subst h1 h2
                rw [hclose] at et
                refine ⟨.inl items tail, ?_, ?_, ?_, Or.inr ?_⟩
                · rw [WFQ]; exact ⟨hwi, htail, by rw [← ekvs, htbl]; rfl⟩
                · rcases hcase with ⟨hnil, hr⟩ | ⟨hne, es⟩
                  · subst hnil hr
                    rw [et]; simp [renderQ, renderPairsQ]
                  · rw [es, et]; simp [renderQ]
                · simp [semQ, ← ekvs, htbl]
                · simp only [depthQ]; omega
              · cases h
      · obtain ⟨t, ht, e, hv⟩ := hs (f + 1) d (b :: r) v rest h
          (by intro b' r' e; injection e with e1 _; subst e1; exact ⟨hb1, hb2⟩)
        exact ⟨.scalar t, by rw [WFQ]; exact ht, by simp [renderQ, e], by simp [semQ, hv], Or.inl (by simp [depthQ])⟩

/-- **(b) containers given scalars**: by induction on the fuel -/
theorem sound_all (hs : ScalarSound) : ∀ fuel : Nat,
    (∀ d s v rest, value fuel d s = .ok v rest → ValSpec d s v rest) ∧
    (∀ d s vs r, arrayValues fuel d s = .ok vs r → ArrSpec d s vs r) ∧
    (∀ d s acc vs r, arrayElems fuel d s acc = .ok vs r → ElemsSpec d s acc vs r) ∧
    (∀ d s acc kvs r, inlineKeyvals fuel d s acc = .ok kvs r → PairsSpec d s acc kvs r) := by
  intro fuel
  induction fuel with
  | zero =>
    refine ⟨?_, ?_, ?_, ?_⟩
    · intro d s v rest h; simp [value] at h
    · intro d s vs r h; simp [arrayValues] at h
    · intro d s acc vs r h; simp [arrayElems] at h
    · intro d s acc kvs r h; simp [inlineKeyvals] at h
  | succ f ih =>
    obtain ⟨ihV, ihA, ihE, ihP⟩ := ih
    exact ⟨value_step hs f ihA ihP, arr_step f ihE, elems_step f ihV ihE, pairs_step f ihV ihP⟩

end TomlVerif.Lemmas.Sound01
