import TomlVerif.Lemmas.Tiling03MoreNadDefs
import TomlVerif.Lemmas.Tiling03MoreNadSem
/-! C03, same data for NON-adjacent dotted keys — the tree side: bodies with pairwise distinct
    keys and non-empty, implicit, position-less dotted-key tables (`bodyOkN`); replaying the
    flattened entries of such a body rebuilds it (`replay_body`); `descend` along dotted keys
    INSERTS one entry into the flattened body (`kv_descendN`). -/
namespace TomlVerif.Lemmas.Tiling03More.Nad
open TomlVerif TomlVerif.Spec TomlVerif.Model TomlVerif.Model.Strings TomlVerif.Model.Value
open TomlVerif.Model.Cst TomlVerif.Model.Encode TomlVerif.Lemmas.Suffix03 TomlVerif.Lemmas.Cst03
open TomlVerif.Lemmas.LastByte03 TomlVerif.Lemmas.Tiling03 TomlVerif.Lemmas.Tiling03Hdr
open TomlVerif.Lemmas.Tiling03Nest TomlVerif.Lemmas.Tiling03More TomlVerif.Lemmas.Tiling03More.VS
open TomlVerif.Lemmas.State09 (Stmt run step run_append)

mutual
/-- a table body as key/value lines build it: distinct keys; values that are not dotted inline
    tables; dotted-key tables: implicit, no position, not empty, of the same kind -/
def bodyOkN : List (CKey × CItem) → Bool
  | [] => true
  | (k, it) :: r =>
    (clookup k.key r).isNone &&
    (match it with
     | .value v => undotted v
     | .table t => bodyTblN t
     | .aot _ _ => false) && bodyOkN r
def bodyTblN : CTbl → Bool
  | .mk items imp dot p _ _ => dot && imp && p.isNone && !items.isEmpty && bodyOkN items
end

mutual
/-- the key/value statements of a body, in the order the printer writes them -/
def flatN : List (CKey × CItem) → List KV
  | [] => []
  | (k, it) :: r =>
    (match it with
     | .value v => [([], k.key, eraseVal v)]
     | .table t => (flatTblN t).map (push k.key)
     | .aot _ _ => []) ++ flatN r
def flatTblN : CTbl → List KV
  | .mk items _ _ _ _ _ => flatN items
end

theorem bodyTblN_eq (t : CTbl) : bodyTblN t =
    (t.dotted && t.implicit && t.pos.isNone && !t.items.isEmpty && bodyOkN t.items) := by
  cases t; rfl

theorem flatTblN_eq (t : CTbl) : flatTblN t = flatN t.items := by
  cases t; rw [flatTblN]; rfl

/-- the statement of a flattened entry -/
def stmtOf (e : List CKey × CVal) : Stmt :=
  match splitLast e.1 with
  | some (X, key) => .kv (keysOf X) key.key (eraseVal e.2)
  | none => .kv [] [] (eraseVal e.2)

theorem stmtOf_snoc (X : List CKey) (key : CKey) (v : CVal) :
    stmtOf (X ++ [key], v) = .kv (keysOf X) key.key (eraseVal v) := by
  simp only [stmtOf, vsplitLast_snoc]

/-! ### the flattened body, item by item -/

theorem valuesTbl_cons_value (k : CKey) (v : CVal) (h : undotted v = true) (r : Items) (P : List CKey) :
    valuesTbl ((k, .value v) :: r) P = (P ++ [k], v) :: valuesTbl r P := by
  have : (k, CItem.value v) :: r = [(k, .value v)] ++ r := rfl
  rw [this, valuesTbl_append, valuesTbl_value_atU k v h]; rfl

theorem valuesTbl_cons_dotted (k : CKey) (c : CTbl) (hc : c.dotted = true) (r : Items) (P : List CKey) :
    valuesTbl ((k, .table c) :: r) P = valuesTbl c.items (P ++ [k]) ++ valuesTbl r P := by
  have : (k, CItem.table c) :: r = ([] ++ [(k, .table c)]) ++ r := rfl
  rw [this, valuesTbl_append, valuesTbl_snoc_dotted [] k c hc]
  simp [valuesTbl]

theorem clookup_none_mem (k : Bytes) : ∀ (l : Items), clookup k l = none → ∀ x ∈ l, x.1.key ≠ k
  | [], _, _, hx => by cases hx
  | (k', v) :: r, h, x, hx => by
    unfold clookup at h
    split at h
    · cases h
    · rename_i hk
      rcases List.mem_cons.1 hx with hx | hx
      · subst hx; simpa using hk
      · exact clookup_none_mem k r h x hx

/-- the statements of the flattened entries are the statements `flatN` -/
theorem flat_stmts : ∀ (items : Items), bodyOkN items = true → ∀ P : List CKey,
    (valuesTbl items P).map stmtOf = (flatN items).map (fun t => Stmt.kv (keysOf P ++ t.1) t.2.1 t.2.2)
  | [], _, P => by simp [valuesTbl, flatN]
  | (k, .value v) :: r, h, P => by
    simp only [bodyOkN, Bool.and_eq_true] at h
    rw [valuesTbl_cons_value k v h.1.2, flatN]
    simp only [List.map_cons, List.cons_append, List.nil_append, stmtOf_snoc, List.append_nil]
    rw [flat_stmts r h.2 P]
  | (k, .table (.mk its imp dot p dec sp)) :: r, h, P => by
    simp only [bodyOkN, bodyTblN, Bool.and_eq_true] at h
    obtain ⟨⟨_, ⟨⟨⟨⟨hd, _⟩, _⟩, _⟩, hb⟩⟩, hr⟩ := h
    rw [valuesTbl_cons_dotted k _ (by simpa [CTbl.dotted] using hd), flatN, flatTblN]
    simp only [List.map_append, List.map_map, CTbl.items]
    rw [flat_stmts its hb (P ++ [k]), flat_stmts r hr P]
    congr 1
    apply List.map_congr_left
    intro t _
    simp [push, keysOf_append, List.append_assoc]
  | (k, .aot _ _) :: r, h, _ => by simp [bodyOkN] at h

theorem flatN_ne : ∀ (items : Items), bodyOkN items = true → items ≠ [] → flatN items ≠ []
  | [], _, h => absurd rfl h
  | (k, .value v) :: r, _, _ => by simp [flatN]
  | (k, .table (.mk its imp dot p dec sp)) :: r, h, _ => by
    simp only [bodyOkN, bodyTblN, Bool.and_eq_true] at h
    obtain ⟨⟨_, ⟨⟨_, hne⟩, hb⟩⟩, _⟩ := h
    have := flatN_ne its hb (by intro e; subst e; simp at hne)
    rw [flatN, flatTblN]
    intro e
    have e1 := (List.append_eq_nil_iff.1 e).1
    exact this (List.map_eq_nil_iff.1 e1)
  | (k, .aot _ _) :: r, h, _ => by simp [bodyOkN] at h

/-- replaying the statements of a body rebuilds the body -/
theorem replay_body : ∀ (items : Items) (b : Tbl) (top : Bool), bodyOkN items = true → b.dotted = !top →
    (∀ x ∈ items, alookup x.1.key b.items = none) →
    replay top b (flatN items) = some (b.setItems (b.items ++ mapKv eraseItem items))
  | [], b, top, _, _, _ => by
    simp only [flatN, replay, mapKv_nil, List.append_nil, setItems_self]
  | (k, .value v) :: r, b, top, h, hd, hdis => by
    simp only [bodyOkN, Bool.and_eq_true] at h
    have hk : alookup k.key b.items = none := hdis (k, .value v) (by simp)
    have hne := clookup_none_mem k.key r (by simpa using h.1.1)
    rw [flatN]
    simp only [List.cons_append, List.nil_append, replay]
    have hins : ins top b ([], k.key, eraseVal v) = some (b.setItems (b.items ++ [(k.key, .value (eraseVal v))])) := by
      simp [ins, State.descend, kvLeaf, hd, hk]
    rw [hins]
    simp only []
    refine Eq.trans (replay_body r _ top h.2 ?_ ?_) ?_
    · exact hd
    rotate_left
    · simp [mapKv_cons, eraseItem, Tbl.setItems, Tbl.implicit, Tbl.dotted, Tbl.pos, Tbl.items, List.append_assoc]
    · intro x hx
      simp only [State09.items_setItems]
      rw [State09.alookup_append_other _ _ _ _ (by exact fun e => hne x hx e)]
      exact hdis x (List.mem_cons_of_mem _ hx)
  | (k, .table (.mk its imp dot p dec sp)) :: r, b, top, h, hd, hdis => by
    simp only [bodyOkN, bodyTblN, Bool.and_eq_true] at h
    obtain ⟨⟨hkr, ⟨⟨⟨⟨hdot, himp⟩, hp⟩, hne⟩, hb⟩⟩, hr⟩ := h
    have hk : alookup k.key b.items = none := hdis (k, .table (.mk its imp dot p dec sp)) (by simp)
    have hner := clookup_none_mem k.key r (by simpa using hkr)
    have hfl := flatN_ne its hb (by intro e; subst e; simp at hne)
    rw [flatN, flatTblN]
    rw [replay_append]
    obtain ⟨e, es, hes⟩ := List.exists_cons_of_ne_nil hfl
    rw [hes, replay_push_new top k.key e es b hk, ← hes,
      replay_body its (State.newImplicit true) false hb rfl (fun x _ => rfl)]
    simp only [Option.map_some, Option.bind_some]
    refine Eq.trans (replay_body r _ top hr ?_ ?_) ?_
    · exact hd
    rotate_left
    · have hp' : p = none := by cases p <;> simp_all
      subst hp'
      simp [mapKv_cons, eraseItem, eraseTbl_mk, Tbl.setItems, Tbl.implicit, Tbl.dotted, Tbl.pos, Tbl.items,
        State.newImplicit, List.append_assoc, hdot, himp]
    · intro x hx
      simp only [State09.items_setItems]
      rw [State09.alookup_append_other _ _ _ _ (by exact fun e => hner x hx e)]
      exact hdis x (List.mem_cons_of_mem _ hx)
  | (k, .aot _ _) :: r, _, _, h, _, _ => by simp [bodyOkN] at h

/-! ### `bodyOkN` along `descend` -/

def itemOkN : CItem → Bool
  | .value v => undotted v
  | .table t => bodyTblN t
  | .aot _ _ => false

theorem bodyOkN_cons (k : CKey) (it : CItem) (r : Items) :
    bodyOkN ((k, it) :: r) = ((clookup k.key r).isNone && itemOkN it && bodyOkN r) := by
  cases it <;> simp [bodyOkN, itemOkN]

theorem clookup_one (k : Bytes) (k' : CKey) (it : CItem) (h : (k'.key == k) = false) :
    clookup k [(k', it)] = none := by
  simp [clookup, h]

theorem bodyOkN_snoc (k : CKey) (it : CItem) (hit : itemOkN it = true) : ∀ (l : Items), bodyOkN l = true →
    clookup k.key l = none → bodyOkN (l ++ [(k, it)]) = true
  | [], _, _ => by simp [bodyOkN_cons, hit, clookup, bodyOkN]
  | (k0, it0) :: r, h, hl => by
    rw [bodyOkN_cons] at h
    simp only [Bool.and_eq_true] at h
    unfold clookup at hl
    split at hl
    · cases hl
    · rename_i hk
      have hk' : (k0.key == k.key) = false := by simpa using hk
      simp only [List.cons_append, bodyOkN_cons, Bool.and_eq_true]
      refine ⟨⟨?_, h.1.2⟩, bodyOkN_snoc k it hit r h.2 hl⟩
      have h1 : clookup k0.key r = none := by simpa using h.1.1
      rw [clookup_append_none _ _ _ h1, clookup_one _ _ _ (beq_comm_false hk')]
      rfl

theorem clookup_mid_isNone (k : Bytes) (k' : CKey) (x y : CItem) (B : Items) : ∀ (A : Items),
    (clookup k (A ++ (k', x) :: B)).isNone = (clookup k (A ++ (k', y) :: B)).isNone
  | [] => by
    simp only [List.nil_append, clookup]
    split <;> rfl
  | (k0, v) :: r => by
    simp only [List.cons_append, clookup]
    split
    · rfl
    · exact clookup_mid_isNone k k' x y B r

theorem bodyOkN_mid (k' : CKey) (x y : CItem) (B : Items) (hy : itemOkN y = true) : ∀ (A : Items),
    bodyOkN (A ++ (k', x) :: B) = true → bodyOkN (A ++ (k', y) :: B) = true ∧ itemOkN x = true
  | [], h => by
    simp only [List.nil_append, bodyOkN_cons, Bool.and_eq_true] at h ⊢
    exact ⟨⟨⟨h.1.1, hy⟩, h.2⟩, h.1.2⟩
  | (k0, v) :: r, h => by
    simp only [List.cons_append, bodyOkN_cons, Bool.and_eq_true] at h ⊢
    obtain ⟨i1, i2⟩ := bodyOkN_mid k' x y B hy r h.2
    exact ⟨⟨⟨by rw [← clookup_mid_isNone k0.key k' x y B r]; exact h.1.1, h.1.2⟩, i1⟩, i2⟩

theorem bodyTblN_of (t c : CTbl) (h : c = t.setItems c.items) (hd : t.dotted = true) (hi : t.implicit = true)
    (hp : t.pos = none) (hne : c.items ≠ []) (hb : bodyOkN c.items = true) : bodyTblN c = true := by
  rw [bodyTblN_eq, hb]
  have e1 : c.dotted = true := by rw [h]; exact hd
  have e2 : c.implicit = true := by rw [h]; exact hi
  have e3 : c.pos = none := by rw [h]; exact hp
  rw [e1, e2, e3]
  cases hc : c.items with
  | nil => exact absurd hc hne
  | cons a b => rfl

theorem bodyG_append (inp : Bytes) (x y : Items) : bodyG inp (x ++ y) ↔ bodyG inp x ∧ bodyG inp y := by
  unfold bodyG
  rw [dkItems_append]
  constructor
  · intro h
    exact ⟨fun k hk => h k (List.mem_append_left _ hk), fun k hk => h k (List.mem_append_right _ hk)⟩
  · rintro ⟨h1, h2⟩ k hk
    rcases List.mem_append.1 hk with hk | hk
    · exact h1 k hk
    · exact h2 k hk

theorem valuesTbl_mid_dotted (A B : Items) (k : CKey) (c : CTbl) (hc : c.dotted = true) (P : List CKey) :
    valuesTbl (A ++ (k, .table c) :: B) P = valuesTbl A P ++ (valuesTbl c.items (P ++ [k]) ++ valuesTbl B P) := by
  rw [valuesTbl_append, valuesTbl_cons_dotted k c hc]

theorem valuesTbl_items_ne (items : Items) (P : List CKey) (h : valuesTbl items P ≠ []) : items ≠ [] := by
  intro e; subst e; exact h (by simp [valuesTbl])

/-- `descend` along dotted keys (adjacent or not): one entry is INSERTED into the flattened body,
    under the stored keys `X` of the dotted path -/
theorem kv_descendN (inp : Bytes) (g : CTbl → Option CTbl) (key' : CKey) (v : CVal)
    (hv : undotted v = true)
    (hg : ∀ p p', g p = some p' → p' = p.setItems (p.items ++ [(key', .value v)]) ∧ clookup key'.key p.items = none) :
    ∀ (path : List CKey) (t c : CTbl) (P : List CKey), dottedOkN t path = true → bodyOkU t.items = true →
      bodyOkN t.items = true → bodyG inp t.items → (∀ k ∈ path, GKey inp k) → descend t path true g = some c →
      c = t.setItems c.items ∧ bodyOkU c.items = true ∧ bodyOkN c.items = true ∧ bodyG inp c.items ∧
      ∃ X L1 L2, valuesTbl t.items P = L1 ++ L2 ∧
        valuesTbl c.items P = L1 ++ [(P ++ X ++ [key'], v)] ++ L2 ∧
        keysOf X = keysOf path ∧ ∀ k ∈ X, GKey inp k := by
  intro path
  induction path with
  | nil =>
    intro t c P _ hb hbn hbg _ hd
    rw [descend_nil] at hd
    obtain ⟨e, hnew⟩ := hg _ _ hd
    subst e
    refine ⟨by simp, ?_, ?_, ?_, [], valuesTbl t.items P, [], by simp, ?_, rfl, fun k hk => by cases hk⟩
    · rw [setItems_items, bodyOkU_append, hb]; simp [bodyOkU, hv]
    · rw [setItems_items]; exact bodyOkN_snoc key' _ (by simpa [itemOkN] using hv) _ hbn hnew
    · rw [setItems_items]; exact (bodyG_snoc_value inp _ _ _).2 hbg
    · rw [setItems_items, valuesTbl_append, valuesTbl_value_atU key' v hv]; simp
  | cons k ks ih =>
    intro t c P hok hb hbn hbg hpath hd
    have hk : GKey inp k := hpath k (by simp)
    have hks : ∀ x ∈ ks, GKey inp x := fun x hx => hpath x (List.mem_cons_of_mem _ hx)
    obtain ⟨x, ec, hx⟩ := descend_cons_shape _ _ _ _ _ _ hd
    simp only [dottedOkN] at hok
    cases hl : clookup k.key t.items with
    | none =>
      rw [hl] at hx
      simp only [Option.getD_none] at hx
      rcases hx with ⟨sub, sub', e1, hd', e2⟩ | ⟨_, _, _, _, e1, _⟩
      · injection e1 with e1
        subst e1; subst e2
        obtain ⟨i1, i2, i2n, i2g, X, L1, L2, i3a, i3, i4, i5⟩ := ih (newImplicit true) _ (P ++ [k])
          (dottedOkN_empty _ rfl ks) rfl rfl (bodyG_nil inp) hks hd'
        have hsd : sub'.dotted = true := by rw [setItems_eq_dotted _ _ i1]; rfl
        have hne : sub'.items ≠ [] := valuesTbl_items_ne _ (P ++ [k]) (by rw [i3]; simp)
        have hbt : bodyTblN sub' = true := bodyTblN_of (newImplicit true) sub' i1 rfl rfl rfl hne i2n
        have hnil : L1 ++ L2 = [] := by rw [← i3a]; simp [newImplicit, CTbl.items, valuesTbl]
        rw [cset_none _ _ _ hl] at ec
        subst ec
        refine ⟨by simp, ?_, ?_, ?_, k :: X, valuesTbl t.items P ++ L1, L2, ?_, ?_, ?_, ?_⟩
        · rw [setItems_items, bodyOkU_snoc_table, hb, hsd, i2]; rfl
        · rw [setItems_items]; exact bodyOkN_snoc k _ (by simpa [itemOkN] using hbt) _ hbn hl
        · rw [setItems_items]; exact (bodyG_snoc_table inp _ _ _).2 ⟨hbg, hk, i2g⟩
        · rw [List.append_assoc, hnil, List.append_nil]
        · rw [setItems_items, valuesTbl_snoc_dotted _ _ _ hsd, i3]
          simp [List.append_assoc]
        · simp only [keysOf, List.map_cons] at i4 ⊢; rw [i4]
        · intro y hy
          rcases List.mem_cons.1 hy with hy | hy
          · subst hy; exact hk
          · exact i5 y hy
      · cases e1
    | some y =>
      rw [hl] at hok hx
      simp only [Option.getD_some] at hx hok
      cases y with
      | value _ => cases hok
      | aot _ _ => cases hok
      | table sub =>
        simp only [Bool.and_eq_true] at hok
        obtain ⟨hsubd, hok2⟩ := hok
        obtain ⟨A, k', B, e1, e2, e3, _⟩ := clookup_split _ _ _ hl
        rcases hx with ⟨sub0, sub', e5, hd', e6⟩ | ⟨_, _, _, _, e5, _⟩
        · injection e5 with e5
          subst e5; subst e6
          have e1' : t.items = (A ++ [(k', .table sub)]) ++ B := by rw [e1]; simp
          rw [e1', bodyOkU_append, bodyOkU_snoc_table] at hb
          simp only [Bool.and_eq_true] at hb
          obtain ⟨⟨hbA, _, hbs⟩, hbB⟩ := hb
          rw [e1'] at hbg
          obtain ⟨hgAs, hgB⟩ := (bodyG_append inp _ _).1 hbg
          obtain ⟨g1, g2, g3⟩ := (bodyG_snoc_table inp A k' sub).1 hgAs
          rw [e1] at hbn
          have hsubN : bodyTblN sub = true := by
            have := (bodyOkN_mid k' (.table sub) (.table sub) B (by
              have := (bodyOkN_mid k' (.table sub) (.value v) B (by simpa [itemOkN] using hv) A hbn).2
              exact this) A hbn).2
            simpa [itemOkN] using this
          rw [bodyTblN_eq] at hsubN
          simp only [Bool.and_eq_true] at hsubN
          obtain ⟨⟨⟨⟨_, hsi⟩, hsp⟩, _⟩, hsb⟩ := hsubN
          obtain ⟨i1, i2, i2n, i2g, X, L1, L2, i3a, i3, i4, i5⟩ := ih sub sub' (P ++ [k']) hok2 hbs hsb g3 hks hd'
          have hsd : sub'.dotted = true := by rw [setItems_eq_dotted _ _ i1]; exact hsubd
          have hne : sub'.items ≠ [] := valuesTbl_items_ne _ (P ++ [k']) (by rw [i3]; simp)
          have hbt : bodyTblN sub' = true :=
            bodyTblN_of sub sub' i1 hsubd hsi (by simpa using hsp) hne i2n
          have hcs : cset k (.table sub') t.items = A ++ (k', .table sub') :: B := by
            rw [e1]; exact cset_mid _ _ _ _ _ _ e3 e2
          rw [hcs] at ec
          subst ec
          refine ⟨by simp, ?_, ?_, ?_, k' :: X, valuesTbl A P ++ L1, L2 ++ valuesTbl B P, ?_, ?_, ?_, ?_⟩
          · rw [setItems_items]
            have : A ++ (k', CItem.table sub') :: B = (A ++ [(k', .table sub')]) ++ B := by simp
            rw [this, bodyOkU_append, bodyOkU_snoc_table, hbA, hsd, i2, hbB]; rfl
          · rw [setItems_items]
            exact (bodyOkN_mid k' _ (.table sub') B (by simpa [itemOkN] using hbt) A hbn).1
          · rw [setItems_items]
            have : A ++ (k', CItem.table sub') :: B = (A ++ [(k', .table sub')]) ++ B := by simp
            rw [this]
            exact (bodyG_append inp _ _).2 ⟨(bodyG_snoc_table inp _ _ _).2 ⟨g1, g2, i2g⟩, hgB⟩
          · rw [e1, valuesTbl_mid_dotted _ _ _ _ hsubd, i3a]; simp [List.append_assoc]
          · rw [setItems_items, valuesTbl_mid_dotted _ _ _ _ hsd, i3]; simp [List.append_assoc]
          · simp only [keysOf, List.map_cons] at i4 ⊢; rw [i4, beq_key_eq e3]
          · intro y hy
            rcases List.mem_cons.1 hy with hy | hy
            · subst hy; exact g2
            · exact i5 y hy
        · cases e5

end TomlVerif.Lemmas.Tiling03More.Nad
