import TomlVerif.Model.Encode06
import TomlVerif.Model.Doc
import TomlVerif.Props.C10
import TomlVerif.Props.C11
import TomlVerif.Props.C12
/-! Helper lemmas for C06: what the `value` dispatcher of the parser model makes of the default
    representation of every leaf, in the contexts the printer puts it in. -/
namespace TomlVerif.Lemmas.Encode06
open TomlVerif TomlVerif.Spec TomlVerif.Model TomlVerif.Model.Encode06 TomlVerif.Model.Value
open TomlVerif.Model.Numbers TomlVerif.Model.Datetime TomlVerif.Lemmas.Numbers11 TomlVerif.Lemmas.Datetime12
open TomlVerif.Props.C12

/-- what the printer writes after a value: end of text, a newline (table body), `,` / `]`
    (array), `,` or ` }` (inline table) -/
def LeafFollow (rest : Bytes) : Prop :=
  ∀ b r, rest = b :: r → b = 0x0A ∨ b = 0x2C ∨ b = 0x5D ∨ (b = 0x20 ∧ ∃ r', r = 0x7D :: r')

theorem leafFollow_nil : LeafFollow [] := by intro b r h; cases h
theorem leafFollow_lf (r : Bytes) : LeafFollow (0x0A :: r) := by
  intro b r' h; injection h with h1 _; subst h1; exact Or.inl rfl
theorem leafFollow_comma (r : Bytes) : LeafFollow (0x2C :: r) := by
  intro b r' h; injection h with h1 _; subst h1; exact Or.inr (Or.inl rfl)
theorem leafFollow_close (r : Bytes) : LeafFollow (0x5D :: r) := by
  intro b r' h; injection h with h1 _; subst h1; exact Or.inr (Or.inr (Or.inl rfl))
theorem leafFollow_brace (r : Bytes) : LeafFollow (0x20 :: 0x7D :: r) := by
  intro b r' h; injection h with h1 h2; subst h1; subst h2; exact Or.inr (Or.inr (Or.inr ⟨rfl, _, rfl⟩))

/-- the head of a follow context is one of four bytes -/
theorem LeafFollow.head {rest : Bytes} (h : LeafFollow rest) :
    ∀ b r, rest = b :: r → b = 0x0A ∨ b = 0x2C ∨ b = 0x5D ∨ b = 0x20 := by
  intro b r hr
  rcases h b r hr with h | h | h | ⟨h, _⟩
  · exact Or.inl h
  · exact Or.inr (Or.inl h)
  · exact Or.inr (Or.inr (Or.inl h))
  · exact Or.inr (Or.inr (Or.inr h))

theorem LeafFollow.valueFollow {rest : Bytes} (h : LeafFollow rest) : Props.C10.ValueFollow rest := by
  cases rest with
  | nil => exact ⟨by simp, by simp⟩
  | cons b r =>
    rcases h.head b r rfl with h | h | h | h <;> subst h <;> exact ⟨by simp, by simp⟩

theorem LeafFollow.intFollow {rest : Bytes} (h : LeafFollow rest) : Props.C11.IntFollow rest := by
  cases rest with
  | nil => trivial
  | cons b r =>
    rcases h.head b r rfl with h | h | h | h <;> subst h <;> (show _ ∧ _ ∧ _ ∧ _ ∧ _; decide)

theorem LeafFollow.floatStops {rest : Bytes} (h : LeafFollow rest) : FloatStops rest := by
  cases rest with
  | nil => trivial
  | cons b r =>
    rcases h.head b r rfl with h | h | h | h <;> subst h <;> (show _ ∧ _ ∧ _ ∧ _; decide)

theorem LeafFollow.timeFollow {rest : Bytes} (h : LeafFollow rest) : TimeFollow rest := by
  intro b r hr
  rcases h.head b r hr with h | h | h | h <;> subst h <;> decide



theorem reprStr_spec (s : Bytes) : ∃ q t, reprString s = q :: t ∧ (q = 0x22 ∨ q = 0x27) ∧
    Write.writeValue .default s = some (q :: t) := by
  unfold reprString
  have h := Props.C10.T10_value_default_total s
  cases hw : Write.writeValue .default s with
  | none => rw [hw] at h; cases h
  | some tok =>
    simp only [Option.getD_some]
    unfold Write.writeValue at hw
    simp only [Option.map_eq_some_iff] at hw
    obtain ⟨e, _, htok⟩ := hw
    subst htok
    cases e <;> simp only [Write.writeTomlValue, Write.delimiter, List.cons_append, List.nil_append, List.append_assoc]
    · exact ⟨_, _, rfl, Or.inr rfl, rfl⟩
    · exact ⟨_, _, rfl, Or.inl rfl, rfl⟩
    · exact ⟨_, _, rfl, Or.inr rfl, rfl⟩
    · exact ⟨_, _, rfl, Or.inl rfl, rfl⟩

theorem value_str (s rest : Bytes) (fuel d : Nat) (hr : LeafFollow rest) :
    value (fuel + 1) d (reprString s ++ rest) = .ok (.str s) rest := by
  obtain ⟨q, t, he, hq, hw⟩ := reprStr_spec s
  have h10 := Props.C10.T10_value .default s (q :: t) rest hw hr.valueFollow
  rw [he]
  rw [List.cons_append] at h10 ⊢
  unfold value
  rcases hq with hq | hq <;> subst hq <;> simp [h10, Res.map]


theorem strBytes_true : strBytes "true" = [0x74, 0x72, 0x75, 0x65] := by decide +kernel
theorem strBytes_false : strBytes "false" = [0x66, 0x61, 0x6C, 0x73, 0x65] := by decide +kernel
theorem strBytes_nan : strBytes "nan" = [0x6E, 0x61, 0x6E] := by decide +kernel
theorem strBytes_mnan : strBytes "-nan" = [0x2D, 0x6E, 0x61, 0x6E] := by decide +kernel
theorem strBytes_zero : strBytes "0.0" = [0x30, 0x2E, 0x30] := by decide +kernel
theorem strBytes_mzero : strBytes "-0.0" = [0x2D, 0x30, 0x2E, 0x30] := by decide +kernel

theorem value_bool (b : Bool) (rest : Bytes) (fuel d : Nat) :
    value (fuel + 1) d (reprBool b ++ rest) = .ok (.bool b) rest := by
  cases b
  · simp [reprBool, strBytes_false, value, Numbers.keyword, Numbers.startsWith, Res.map, (by decide : isDigit (102 : Byte) = false)]
  · simp [reprBool, strBytes_true, value, Numbers.keyword, Numbers.startsWith, Res.map, (by decide : isDigit (116 : Byte) = false)]

/-- a run of digits followed by something that is not a digit, `-` or `:` is not a date-time -/
theorem dateTime_digits_bt (ds rest : Bytes) (hd : AllB isDigit ds)
    (hr : ∀ x r, rest = x :: r → isDigit x = false ∧ x ≠ 0x2D ∧ x ≠ 0x3A) :
    Doc.dateTime (ds ++ rest) = .bt := by
  have key : ∀ x : Byte, isDigit x = true → x ≠ 0x2D ∧ x ≠ 0x3A := by
    intro x hx; constructor <;> (intro h; subst h; revert hx; decide)
  have fd : Doc.fullDate (ds ++ rest) = .bt := by
    unfold Doc.fullDate
    cases h4 : digits4 (ds ++ rest) with
    | none => rfl
    | some p =>
      obtain ⟨y, r⟩ := p
      simp only
      -- r starts with a digit of ds or with the head of rest
      rcases ds with _ | ⟨a, _ | ⟨b, _ | ⟨c, _ | ⟨e, t⟩⟩⟩⟩
      case cons.cons.cons.cons =>
        have hr4 : r = t ++ rest := by
          have ha := hd
          simp only [AllB_cons] at ha
          simp [digits4, ha.1, ha.2.1, ha.2.2.1, ha.2.2.2.1] at h4
          exact h4.2.symm
        subst hr4
        cases t with
        | nil =>
          cases rest with
          | nil => rfl
          | cons x r' =>
            have := (hr x r' rfl).2.1
            simp only [List.nil_append]
            split
            · rename_i heq; injection heq with h1 _; exact absurd h1 this
            · rfl
        | cons f t' =>
          have ha := hd
          simp only [AllB_cons] at ha
          have := (key f ha.2.2.2.2.1).1
          simp only [List.cons_append]
          split
          · rename_i heq; injection heq with h1 _; exact absurd h1 this
          · rfl
      all_goals
        exfalso
        have ha := hd
        try simp only [AllB_cons] at ha
        cases rest with
        | nil => simp [digits4] at h4
        | cons x r' =>
          have hx := (hr x r' rfl).1
          unfold digits4 at h4
          split at h4
          · rename_i heq
            simp at heq
            simp_all
          · cases h4
  have pt : Doc.partialTime (ds ++ rest) = .bt := by
    unfold Doc.partialTime
    cases h2 : digits2 (ds ++ rest) with
    | none => rfl
    | some p =>
      obtain ⟨y, r⟩ := p
      simp only
      split
      · rfl
      rcases ds with _ | ⟨a, _ | ⟨b, t⟩⟩
      case cons.cons =>
        have hr2 : r = t ++ rest := by
          have ha := hd
          simp only [AllB_cons] at ha
          simp [digits2, ha.1, ha.2.1] at h2
          exact h2.2.symm
        subst hr2
        cases t with
        | nil =>
          cases rest with
          | nil => rfl
          | cons x r' =>
            have := (hr x r' rfl).2.2
            simp only [List.nil_append]
            split
            · rename_i heq; injection heq with h1 _; exact absurd h1 this
            · rfl
        | cons f t' =>
          have ha := hd
          simp only [AllB_cons] at ha
          have := (key f ha.2.2.1).2
          simp only [List.cons_append]
          split
          · rename_i heq; injection heq with h1 _; exact absurd h1 this
          · rfl
      all_goals
        exfalso
        have ha := hd
        try simp only [AllB_cons] at ha
        cases rest with
        | nil => simp [digits2] at h2
        | cons x r' =>
          have hx := (hr x r' rfl).1
          unfold digits2 at h2
          split at h2
          · rename_i heq
            simp at heq
            simp_all
          · cases h2
  unfold Doc.dateTime
  rw [fd]
  simp only [pt]


/-- text that does not start with a digit is not a date-time -/
theorem dateTime_nondigit_bt (b : Byte) (r : Bytes) (hb : isDigit b = false) : Doc.dateTime (b :: r) = .bt := by
  have h4 : digits4 (b :: r) = none := by
    unfold digits4; split
    · rename_i heq; injection heq with h1 _; subst h1; simp [hb]
    · rfl
  have h2 : digits2 (b :: r) = none := by
    unfold digits2; split
    · rename_i heq; injection heq with h1 _; subst h1; simp [hb]
    · rfl
  simp [Doc.dateTime, Doc.fullDate, Doc.partialTime, h4, h2]

theorem startsWith3_ne (a b c d : Byte) (l : Bytes) (h : d ≠ a) : startsWith [a, b, c] (d :: l) = none := by
  simp [startsWith, h]

theorem digit_not_special : ∀ d : Byte, isDigit d = true → d ≠ 0x69 ∧ d ≠ 0x6E ∧ d ≠ 0x2B ∧ d ≠ 0x2D ∧ d ≠ 0x2E :=
  forall_byte (by decide +kernel)

/-- a decimal integer token followed by something that does not continue a number is not a float -/
theorem float_intTok_bt (sign : Option Bool) (ds rest : Bytes) (hne : ds ≠ []) (hd : AllB isDigit ds)
    (hz : ∀ t, ds = 0x30 :: t → t = []) (hs : FloatStops rest) (hdot : ∀ r, rest ≠ 0x2E :: r) :
    float (signBytes sign ++ ds ++ rest) = .bt := by
  have hg : GoodGroups isDigit [ds] := ⟨by simp, by intro g hg; simp at hg; subst hg; exact ⟨hne, hd⟩⟩
  have hnz : NoLeadingZero [ds] := by
    intro g0 gs h; injection h with h1 h2; exact ⟨hz g0 h1, h2.symm⟩
  have hdec := decInt_lit sign [ds] rest hg hnz hs.stops
  simp only [joinU, tailGroups, List.append_nil, List.flatten_cons, List.flatten_nil] at hdec
  have hfl : floatLit (signBytes sign ++ ds ++ rest) = .bt := by
    have he := expPart_bt rest hs
    unfold floatLit
    rw [hdec]
    simp only
    cases rest with
    | nil => simp only [he]
    | cons x r' =>
      have hx : x ≠ 0x2E := fun h => hdot r' (by rw [h])
      split <;> simp_all
  obtain ⟨d, t, hdt⟩ : ∃ d t, ds = d :: t := by
    cases ds with
    | nil => exact absurd rfl hne
    | cons d t => exact ⟨d, t, rfl⟩
  subst hdt
  have hdd := digit_not_special d (AllB_cons.1 hd).1
  have hsp : specialFloat (signBytes sign ++ (d :: t) ++ rest) = .bt := by
    match sign with
    | some true =>
      simp only [signBytes, List.cons_append, List.nil_append, specialFloat_minus, specialBody,
        startsWith3_ne _ _ _ _ _ hdd.1, startsWith3_ne _ _ _ _ _ hdd.2.1]
    | some false =>
      simp only [signBytes, List.cons_append, List.nil_append, specialFloat_plus, specialBody,
        startsWith3_ne _ _ _ _ _ hdd.1, startsWith3_ne _ _ _ _ _ hdd.2.1]
    | none =>
      simp only [signBytes, List.cons_append, List.nil_append]
      rw [specialFloat_nosign d _ hdd.2.2.1 hdd.2.2.2.1]
      simp only [specialBody, startsWith3_ne _ _ _ _ _ hdd.1, startsWith3_ne _ _ _ _ _ hdd.2.1]
  unfold float
  rw [hfl]
  exact hsp


theorem LeafFollow.notNum {rest : Bytes} (h : LeafFollow rest) :
    ∀ x r, rest = x :: r → isDigit x = false ∧ x ≠ 0x2D ∧ x ≠ 0x3A ∧ x ≠ 0x2E := by
  intro x r hr
  rcases h.head x r hr with h | h | h | h <;> subst h <;> decide

/-- the number branch of the dispatcher -/
theorem value_number (fuel d : Nat) (b : Byte) (r : Bytes) (hb : b = 0x2D ∨ isDigit b = true) :
    value (fuel + 1) d (b :: r) =
      match Datetime.Doc.dateTime (b :: r) with
      | .ok dtv r1 => .ok (.dt dtv) r1
      | .cut => .cut
      | .bt =>
        match Numbers.float (b :: r) with
        | .ok bits r1 => .ok (.float bits) r1
        | .cut => .cut
        | .bt => (Numbers.integer (b :: r)).map Val.int := by
  have h1 : (b == 0x22 || b == 0x27) = false := by
    rcases hb with hb | hb
    · subst hb; decide
    · revert hb; revert b; exact forall_byte (by decide +kernel)
  have h2 : (b == 0x5B) = false ∧ (b == 0x7B) = false := by
    rcases hb with hb | hb
    · subst hb; decide
    · revert hb; revert b; exact forall_byte (by decide +kernel)
  have h3 : (b == 0x2B || b == 0x2D || isDigit b) = true := by
    rcases hb with hb | hb
    · subst hb; decide
    · simp [hb]
  conv => lhs; unfold value
  simp only [h1, h2.1, h2.2, h3, if_true, Bool.false_eq_true, if_false]
  rfl

theorem value_int (n : Int) (hn : inI64 n = true) (rest : Bytes) (fuel d : Nat) (hr : LeafFollow rest) :
    value (fuel + 1) d (writeInt n ++ rest) = .ok (.int n) rest := by
  have hsp := natDigits_spec n.natAbs
  have hi := Props.C11.T11_int_roundtrip_follow n hn rest hr.intFollow
  obtain ⟨dg, t, hdt⟩ : ∃ dg t, natDigits n.natAbs = dg :: t := by
    cases h : natDigits n.natAbs with
    | nil => exact absurd h hsp.1
    | cons dg t => exact ⟨dg, t, rfl⟩
  have hdg : isDigit dg = true := by
    have := hsp.2.1; rw [hdt] at this; exact (AllB_cons.1 this).1
  have hfl : float (writeInt n ++ rest) = .bt := by
    rw [writeInt_eq]
    simp only [joinU, tailGroups, List.append_nil]
    exact float_intTok_bt _ _ rest hsp.1 hsp.2.1 (fun t h => (hsp.2.2.2 t h).2) hr.floatStops
      (by intro r h; exact (hr.notNum _ _ h).2.2.2 rfl)
  by_cases hneg : n < 0
  · have hw : writeInt n = 0x2D :: natDigits n.natAbs := by unfold writeInt; simp [hneg]
    rw [hw] at hi hfl ⊢
    rw [List.cons_append] at hi hfl ⊢
    rw [value_number fuel d _ _ (Or.inl rfl), dateTime_nondigit_bt _ _ (by decide)]
    simp only [hfl, hi, Res.map]
  · have hw : writeInt n = natDigits n.natAbs := by unfold writeInt; simp [hneg]
    have hdt' : Doc.dateTime (natDigits n.natAbs ++ rest) = .bt :=
      dateTime_digits_bt _ rest hsp.2.1 (fun x r h => ⟨(hr.notNum x r h).1, (hr.notNum x r h).2.1, (hr.notNum x r h).2.2.1⟩)
    rw [hw] at hi hfl ⊢
    rw [hdt] at hi hfl hdt' ⊢
    rw [List.cons_append] at hi hfl hdt' ⊢
    rw [value_number fuel d _ _ (Or.inr hdg)]
    simp only [hdt', hfl, hi, Res.map]


theorem value_n (fuel d : Nat) (r : Bytes) : value (fuel + 1) d (0x6E :: r) =
    match Numbers.startsWith [0x6E, 0x61, 0x6E] (0x6E :: r) with
    | some r1 => .ok (.float Ieee.nanBits) r1
    | none => .bt := by
  conv => lhs; unfold value
  rfl

theorem value_i (fuel d : Nat) (r : Bytes) : value (fuel + 1) d (0x69 :: r) =
    match Numbers.startsWith [0x69, 0x6E, 0x66] (0x69 :: r) with
    | some r1 => .ok (.float Ieee.infBits) r1
    | none => .bt := by
  conv => lhs; unfold value
  rfl

theorem startsWith_self3 (a b c : Byte) (rest : Bytes) : startsWith [a, b, c] (a :: b :: c :: rest) = some rest := by
  simp [startsWith]

theorem float_minus_kw (k b c : Byte) (rest : Bytes) (hk : isDigit k = false) :
    float (0x2D :: k :: b :: c :: rest) = specialBody Ieee.signBit (k :: b :: c :: rest) := by
  have h19 : isDigit1_9 k = false := by
    revert hk; revert k; exact forall_byte (by decide +kernel)
  have : floatLit (0x2D :: k :: b :: c :: rest) = .bt := by
    unfold floatLit
    rw [decInt_minus]
    simp [decBody, h19, hk]
  unfold float
  rw [this, specialFloat_minus]

/-- `nan` / `inf` after an optional `-` -/
theorem value_special (neg : Bool) (rest : Bytes) (fuel d : Nat) :
    value (fuel + 1) d ((if neg then [0x2D] else []) ++ [0x6E, 0x61, 0x6E] ++ rest) =
      .ok (.float ((if neg then Ieee.signBit else 0) + Ieee.nanBits)) rest ∧
    value (fuel + 1) d ((if neg then [0x2D] else []) ++ [0x69, 0x6E, 0x66] ++ rest) =
      .ok (.float ((if neg then Ieee.signBit else 0) + Ieee.infBits)) rest := by
  cases neg
  · simp only [Bool.false_eq_true, if_false, List.nil_append, List.cons_append, Nat.zero_add]
    rw [value_n, value_i, startsWith_self3, startsWith_self3]
    exact ⟨rfl, rfl⟩
  · simp only [if_true, List.cons_append, List.nil_append]
    rw [value_number fuel d _ _ (Or.inl rfl), dateTime_nondigit_bt _ _ (by decide),
      value_number fuel d _ _ (Or.inl rfl), dateTime_nondigit_bt _ _ (by decide),
      float_minus_kw _ _ _ _ (by decide), float_minus_kw _ _ _ _ (by decide)]
    simp only [specialBody, startsWith_self3, startsWith3_ne _ _ _ _ _ (by decide : (0x6E : Byte) ≠ 0x69)]
    trivial


/-- the float writer's token for a finite value, in a follow context: the dispatcher returns the
    correctly rounded value of the digits std printed -/
theorem value_floatTok (neg negD : Bool) (intDs : Bytes) (frac : Option Bytes) (rest : Bytes) (fuel d : Nat)
    (hne : intDs ≠ []) (hi : AllB isDigit intDs) (hz : ∀ t, intDs = 0x30 :: t → t = [])
    (hf : ∀ f, frac = some f → f ≠ [] ∧ AllB isDigit f) (hr : LeafFollow rest)
    (hfin : Ieee.isInfBits (FloatLit.bits ⟨negD, intDs, frac.getD [0x30], false, []⟩) = false) :
    value (fuel + 1) d (writeFloat neg false false (!(dispBytes negD intDs frac).contains 0x2E)
        (dispBytes negD intDs frac) ++ rest) =
      .ok (.float (FloatLit.bits ⟨negD, intDs, frac.getD [0x30], false, []⟩)) rest := by
  have hfl := floatLit_writeFloat neg negD intDs frac rest hne hi hz hf hr.floatStops
  have hfloat : float (writeFloat neg false false (!(dispBytes negD intDs frac).contains 0x2E)
        (dispBytes negD intDs frac) ++ rest) =
      .ok (FloatLit.bits ⟨negD, intDs, frac.getD [0x30], false, []⟩) rest := by
    unfold float; rw [hfl]; simp [hfin]
  obtain ⟨tail, htail⟩ : ∃ tail, writeFloat neg false false (!(dispBytes negD intDs frac).contains 0x2E)
        (dispBytes negD intDs frac) ++ rest = (if negD then [0x2D] else []) ++ (intDs ++ 0x2E :: tail) := by
    rw [dispBytes_contains_dot negD intDs frac hi]
    cases frac with
    | none => exact ⟨0x30 :: rest, by simp [writeFloat, dispBytes]⟩
    | some f => exact ⟨f ++ rest, by simp [writeFloat, dispBytes]⟩
  rw [htail] at hfloat ⊢
  obtain ⟨dg, t, hdt⟩ : ∃ dg t, intDs = dg :: t := by
    cases intDs with
    | nil => exact absurd rfl hne
    | cons dg t => exact ⟨dg, t, rfl⟩
  have hdg : isDigit dg = true := by rw [hdt] at hi; exact (AllB_cons.1 hi).1
  cases negD
  · have hdtm : Doc.dateTime (intDs ++ 0x2E :: tail) = .bt :=
      dateTime_digits_bt intDs _ hi (by intro x r h; injection h with h1 _; subst h1; decide)
    simp only [Bool.false_eq_true, if_false, List.nil_append] at hfloat ⊢
    rw [hdt] at hfloat hdtm ⊢
    rw [List.cons_append] at hfloat hdtm ⊢
    rw [value_number fuel d _ _ (Or.inr hdg)]
    simp only [hdtm, hfloat]
  · simp only [if_true, List.cons_append, List.nil_append] at hfloat ⊢
    rw [value_number fuel d _ _ (Or.inl rfl), dateTime_nondigit_bt _ _ (by decide)]
    simp only [hfloat]


theorem timeOffset_follow_bt (rest : Bytes) (hr : LeafFollow rest) : Doc.timeOffset rest = .bt := by
  cases rest with
  | nil => rfl
  | cons b r =>
    rcases hr.head b r rfl with h | h | h | h <;> subst h <;> simp [Doc.timeOffset]

theorem partialTime_nondigit_bt (b : Byte) (r : Bytes) (hb : isDigit b = false) : Doc.partialTime (b :: r) = .bt := by
  have h2 : digits2 (b :: r) = none := by
    unfold digits2; split
    · rename_i heq; injection heq with h1 _; subst h1; simp [hb]
    · rfl
  simp [Doc.partialTime, h2]

/-- after a printed date: the follow context does not start a time -/
theorem date_follow (d : Date) (rest : Bytes) (hr : LeafFollow rest) :
    (match rest with
     | c :: r' =>
       if Doc.isTimeDelim c then
         match Doc.partialTime r' with
         | .ok t r'' =>
           match Doc.timeOffset r'' with
           | .ok o r3 => Res.ok (⟨some d, some t, some o⟩ : Datetime) r3
           | .bt => .ok ⟨some d, some t, none⟩ r''
           | .cut => .cut
         | .bt => .ok ⟨some d, none, none⟩ rest
         | .cut => .cut
       else .ok ⟨some d, none, none⟩ rest
     | [] => .ok ⟨some d, none, none⟩ rest) = .ok ⟨some d, none, none⟩ rest := by
  cases rest with
  | nil => rfl
  | cons b r =>
    rcases hr b r rfl with h | h | h | ⟨h, r', hr'⟩
    · subst h; simp [Doc.isTimeDelim]
    · subst h; simp [Doc.isTimeDelim]
    · subst h; simp [Doc.isTimeDelim]
    · subst h; subst hr'; simp [Doc.isTimeDelim, partialTime_nondigit_bt _ r' (by decide : isDigit (0x7D : Byte) = false)]

theorem dateTime_display (dt : Datetime) (rest : Bytes) (h : FieldsInRange dt)
    (hy : ∀ d, dt.date = some d → d.year ≤ 9999) (hr : LeafFollow rest) :
    Doc.dateTime (Std.display dt ++ rest) = .ok dt rest := by
  obtain ⟨date, time, offset⟩ := dt
  obtain ⟨hd, ht, ho, hs1, hs2⟩ := h
  simp only at hd ht ho hs1 hs2 hy
  cases date with
  | none =>
    obtain ⟨h1, h2⟩ := hs2 rfl
    subst h2
    cases time with
    | none => exact absurd rfl h1
    | some t =>
      obtain ⟨⟨a, b, c⟩, n⟩ := ht t rfl
      have e : Std.display ⟨none, some t, none⟩ = Std.displayTime t := by simp [Std.display]
      have f1 := fullDate_displayTime t rest a
      have f2 := partialTime_display t rest a b c n hr.timeFollow
      rw [e]
      simp [Doc.dateTime, f1, f2]
  | some d =>
    obtain ⟨m1, m2, d1, d2⟩ := hd d rfl
    have hyy := hy d rfl
    cases time with
    | none =>
      cases offset with
      | some o => exact absurd rfl (hs1 (by simp)).2
      | none =>
        have e : Std.display ⟨some d, none, none⟩ = Std.displayDate d := by simp [Std.display]
        have f1 := fullDate_display d rest hyy m1 m2 d1 d2
        rw [e]
        unfold Doc.dateTime
        rw [f1]
        exact date_follow d rest hr
    | some t =>
      obtain ⟨⟨a, b, c⟩, n⟩ := ht t rfl
      cases offset with
      | none =>
        have e : Std.display ⟨some d, some t, none⟩ ++ rest = Std.displayDate d ++ (0x54 :: (Std.displayTime t ++ rest)) := by
          simp [Std.display]
        have f2 := partialTime_display t rest a b c n hr.timeFollow
        rw [e]
        simp [Doc.dateTime, fullDate_display d _ hyy m1 m2 d1 d2, Doc.isTimeDelim, f2, timeOffset_follow_bt rest hr]
      | some o =>
        have hor := ho o rfl
        have hor' : ∀ m, o = .custom m → -1439 ≤ m ∧ m ≤ 1439 := by
          intro m hm; subst hm; exact hor
        have e : Std.display ⟨some d, some t, some o⟩ ++ rest =
            Std.displayDate d ++ (0x54 :: (Std.displayTime t ++ (Std.displayOffset o ++ rest))) := by
          simp [Std.display]
        have f2 := partialTime_display t _ a b c n (timeFollow_offset o rest)
        have f3 := timeOffset_display o rest hor'
        rw [e]
        simp [Doc.dateTime, fullDate_display d _ hyy m1 m2 d1 d2, Doc.isTimeDelim, f2, f3]

theorem value_dt (dt : Datetime) (rest : Bytes) (fuel d : Nat) (h : FieldsInRange dt)
    (hy : ∀ x, dt.date = some x → x.year ≤ 9999) (hr : LeafFollow rest) :
    value (fuel + 1) d (Std.display dt ++ rest) = .ok (.dt dt) rest := by
  have hd := dateTime_display dt rest h hy hr
  cases hl : Std.display dt ++ rest with
  | nil =>
    rw [hl] at hd
    simp [Doc.dateTime, Doc.fullDate, Doc.partialTime, digits4, digits2] at hd
  | cons b r =>
    rw [hl] at hd
    by_cases hb : isDigit b = true
    · rw [value_number fuel d _ _ (Or.inr hb), hd]
    · rw [dateTime_nondigit_bt b r (by simpa using hb)] at hd
      cases hd


/-! ### the stable sort by position -/

theorem insertByPos_end (v : Visit) : ∀ l : List Visit, (∀ w ∈ l, ¬ v.lastPos < w.lastPos) → insertByPos v l = l ++ [v]
  | [], _ => rfl
  | w :: r, h => by
    have hw := h w (List.mem_cons_self ..)
    have ih := insertByPos_end v r (fun x hx => h x (List.mem_cons_of_mem _ hx))
    simp [insertByPos, hw, ih]

theorem sortByPos_aux : ∀ (l acc : List Visit), (∀ w ∈ acc ++ l, w.lastPos = 0) →
    l.foldl (fun acc v => insertByPos v acc) acc = acc ++ l
  | [], acc, _ => by simp
  | v :: r, acc, h => by
    have hv : v.lastPos = 0 := h v (by simp)
    have e : insertByPos v acc = acc ++ [v] := insertByPos_end v acc (by
      intro w hw; rw [hv, h w (by simp [hw])]; omega)
    simp only [List.foldl_cons, e]
    rw [sortByPos_aux r (acc ++ [v]) (by intro w hw; apply h; simpa using hw)]
    simp

end TomlVerif.Lemmas.Encode06
