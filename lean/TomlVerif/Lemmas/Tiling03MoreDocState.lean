import TomlVerif.Lemmas.Tiling03MoreDoc
/-! C03, documents with dotted keys inside inline tables — the parse-state invariant with
    `bodyOkU` bodies (`NInvU`), `finalize_table` and the header line, for the text and for the
    positions. -/
namespace TomlVerif.Lemmas.Tiling03More
open TomlVerif TomlVerif.Spec TomlVerif.Model TomlVerif.Model.Strings TomlVerif.Model.Value
open TomlVerif.Model.Cst TomlVerif.Model.Encode TomlVerif.Lemmas.Suffix03 TomlVerif.Lemmas.Cst03
open TomlVerif.Lemmas.LastByte03 TomlVerif.Lemmas.Tiling03 TomlVerif.Lemmas.Tiling03Hdr
open TomlVerif.Lemmas.Tiling03Nest

/-- before the first header -/
def RootPhU (st : CState) : Prop :=
  st.root = CTbl.empty ∧ st.currentPath = [] ∧
  ∃ items imp sp, st.current = .mk items imp false none {} sp ∧ bodyOkU items = true

/-- after a header: the root has the spine of the header path, the current table is the
    section being read -/
def HdrPhU (inp : Bytes) (st : CState) : Prop :=
  ∃ pp key items q lead trail sp, st.currentPath = pp ++ [key] ∧
    st.current = .mk items false false (some q) (Decor.new lead trail) sp ∧ bodyOkU items = true ∧
    SpineP inp st.currentIsArray key st.root pp

def NInvU (f : Bytes → Bytes) (inp base : Bytes) (st : CState) (s : Bytes) : Prop :=
  (RootPhU st ∨ HdrPhU inp st) ∧ TxtOf inp base st.trailing (stTextN f inp st) s

theorem ninv_onWsU (f : Bytes → Bytes) (inp base : Bytes) (st : CState) (w s' : Bytes)
    (h : NInvU f inp base st (w ++ s')) :
    NInvU f inp base (onWs st (pos inp.length (w ++ s')) (pos inp.length s')) s' := by
  obtain ⟨e1, e2, e3, e4, e5⟩ := onWs_fields st (pos inp.length (w ++ s')) (pos inp.length s')
  obtain ⟨hsh, htx⟩ := h
  refine ⟨?_, ?_⟩
  · unfold RootPhU HdrPhU; rw [e1, e2, e3, e4]; exact hsh
  · rw [stTextN_congr f inp st _ e1 e2 e3 e4]
    exact txtOf_onWs inp base st _ w s' htx

theorem ninv_consumeU (f : Bytes → Bytes) (inp base : Bytes) (st : CState) (s s' : Bytes) (hs : s' <:+ s)
    (h : NInvU f inp base st s) : NInvU f inp base (onWs st (pos inp.length s) (pos inp.length s')) s' := by
  obtain ⟨w, hw⟩ := hs
  subst hw
  exact ninv_onWsU f inp base st w s' h

theorem ninv_parseWsU (f : Bytes → Bytes) (inp base : Bytes) (st : CState) (s : Bytes)
    (h : NInvU f inp base st s) :
    NInvU f inp base (parseWs inp.length st s).1 (parseWs inp.length st s).2 :=
  ninv_consumeU f inp base st s (dropWs s) (Cst03.dropWs_suffix s) h

/-! ### `finalize_table` -/

theorem finalize_nestU (f : Bytes → Bytes) (inp : Bytes) (st st1 : CState) (hfin : finalizeTable st = some st1)
    (hsh : RootPhU st ∨ HdrPhU inp st) :
    textTbl f inp st1.root [] false = stTextN f inp st ∧ st1.root.dotted = false ∧
    st1.trailing = st.trailing ∧ st1.position = st.position ∧ st1.current = CTbl.empty := by
  rcases finalize_cases st st1 hfin with ⟨hp, _, e⟩ | ⟨pp', key', root', hp, hd, e⟩
  · subst e
    rcases hsh with ⟨_, _, items, imp, sp, a3, a4⟩ | ⟨pp, key, _, _, _, _, _, b1, _⟩
    · refine ⟨?_, by rw [a3]; rfl, rfl, rfl, rfl⟩
      simp only [stTextN, hp, List.isEmpty_nil, if_true]
      rw [a3, textTbl_eq]
      simp only [CTbl.dotted, Bool.false_eq_true, if_false, CTbl.items]
      rw [bodyOkU_text f inp items a4, entText_root]; simp [CTbl.items]
    · rw [hp] at b1; exact absurd b1.symm (by simp)
  · subst e
    rcases hsh with ⟨_, a2, _⟩ | ⟨pp, key, items, q, lead, trail, sp, b1, b2, b3, b4⟩
    · rw [a2] at hp; exact absurd hp.symm (by simp)
    · rw [b1] at hp
      obtain ⟨e1, e2⟩ := snoc_inj hp
      subst e1; subst e2
      have hcd : st.current.dotted = false := by rw [b2]; rfl
      have hbody : ∀ X, textItems f inp st.current.items X = [] := by
        intro X; rw [b2]; exact bodyOkU_text f inp items b3 X
      obtain ⟨i1, i2⟩ := fin_spine f inp st.currentIsArray key st.current hcd hbody pp st.root root' [] [] false b4
        .nil hd
      refine ⟨?_, i2, rfl, rfl, rfl⟩
      have hne : st.currentPath.isEmpty = false := by rw [b1]; cases pp <;> rfl
      simp only [stTextN, hne, Bool.false_eq_true, if_false]
      rw [i1, b1]; simp

theorem finalize_pinvU (inp : Bytes) (st st1 : CState) (hfin : finalizeTable st = some st1)
    (hsh : RootPhU st ∨ HdrPhU inp st) (hP : PInv st) :
    st1.root.decor.pre = none ∧ st1.root.decor.suf = none ∧ good 0 (sumTbl st1.root true false) = true ∧
    lastOf 0 (sumTbl st1.root true false) ≤ st.position ∧ st1.position = st.position := by
  rcases finalize_cases st st1 hfin with ⟨hp, _, e⟩ | ⟨pp', key', root', hp, hd, e⟩
  · subst e
    rcases hsh with ⟨_, _, items, imp, sp, a3, a4⟩ | ⟨pp, key, _, _, _, _, _, b1, _⟩
    · simp only []
      rw [a3, sumTbl_eq]
      simp only [CTbl.items, bodyOkU_sum items a4, List.append_nil]
      refine ⟨rfl, rfl, ?_, ?_, trivial⟩
      · simp [hdSum, CTbl.dotted, okFlag, good]
      · simp [hdSum, CTbl.dotted, CTbl.pos, lastOf]
    · rw [hp] at b1; exact absurd b1.symm (by simp)
  · subst e
    rcases hsh with ⟨_, a2, _⟩ | ⟨pp, key, items, q, lead, trail, sp, b1, b2, b3, b4⟩
    · rw [a2] at hp; exact absurd hp.symm (by simp)
    · rw [b1] at hp
      obtain ⟨e1, e2⟩ := snoc_inj hp
      subst e1; subst e2
      obtain ⟨p1, p2, p3⟩ := hP
      have hne : st.currentPath ≠ [] := by rw [b1]; simp
      obtain ⟨g1, g2, g3⟩ := p3 hne
      have hq : q = st.position := by
        rw [b2] at g3
        simpa [CTbl.pos] using g3
      have hcd : st.current.dotted = false := by rw [b2]; rfl
      obtain ⟨i1, i2⟩ := fin_sum inp st.currentIsArray key st.current hcd pp st.root root' b4 hd true false
      have hcur : sumTbl st.current false st.currentIsArray = [(some q, true)] := by
        rw [b2, sumTbl_eq]
        simp only [CTbl.items, bodyOkU_sum items b3, List.append_nil]
        simp [hdSum, CTbl.dotted, CTbl.pos, okFlag, CTbl.decor, Decor.new]
      simp only []
      rw [i2, i1, hcur, good_append, lastOf_append]
      refine ⟨p1, p2, ?_, ?_, trivial⟩
      · rw [g1]
        simp only [good, Bool.true_and, Option.getD_some, Bool.and_true, decide_eq_true_eq]
        omega
      · simp only [lastOf, Option.getD_some]
        omega

/-! ### the header line -/

theorem header_step_nestU (f : Bytes → Bytes) (inp base : Bytes) (hf : FixOn f inp)
    (st st' : CState) (s r3 : Bytes)
    (h : ctableLine inp.length st s = some (st', r3)) (hok : hdrLineOk inp st s = true)
    (hI : NInvU f inp base st s) : NInvU f inp base st' r3 := by
  obtain ⟨isArr, r, ks, r2, hsr, hk, hlt, ho⟩ := table_frame _ _ _ _ _ h
  clear h
  obtain ⟨hsh, htx⟩ := hI
  subst hsr
  cases isArr with
  | false =>
    simp only [Bool.false_eq_true, if_false] at ho hk
    unfold onStdHeader at ho
    split at ho
    · rename_i st1 hfin
      obtain ⟨f1, f2, f3, f4, f5⟩ := finalize_nestU f inp st st1 hfin hsh
      obtain ⟨pp, key, root', hks, _, hroot, hst'⟩ := startTable_cases _ _ _ _ _ ho
      clear ho
      simp only [] at hroot
      have hsl : splitLast ks = some (pp, key) := by rw [hks]; exact vsplitLast_snoc pp key
      have hpo := hdrLineOk_use inp st st1 false r _ ks pp key hok hfin hk hsl
      obtain ⟨i1, i2, i3, i4, i5, i6⟩ := start_spine inp false key pp st1.root root' hpo hroot
      have hft := i6 rfl
      have hroottext : textTbl f inp root' [] false = textTbl f inp st1.root [] false := by
        rw [textTbl_eq, textTbl_eq f inp st1.root, spineP_dotted i1, f2, i5 f, entText_tbl_congr f inp _ _ _ _ i2 i3 i4]
      have hne : ks ≠ [] := by rw [hks]; simp
      have hpe : ks.isEmpty = false := by rw [hks]; cases pp <;> rfl
      subst hst'
      refine ⟨Or.inr ⟨pp, key, [], st1.position + 1, takeTrailing st1.trailing, rawBetween inp.length r2 (trailEnd r2),
        some (pos inp.length ([0x5B] ++ r), pos inp.length r2), hks, ?_, rfl, i1⟩, ?_⟩
      · show CTbl.mk ((findTable key.key st1.root pp).getD st1.current).items false false _ _ _ = _
        rw [hft, f5]; rfl
      · have hT : stTextN f inp
            { root := root', trailing := none, position := st1.position + 1,
              current := .mk ((findTable key.key st1.root pp).getD st1.current).items false false
                (some (st1.position + 1)) (Decor.new (takeTrailing st1.trailing) (rawBetween inp.length r2 (trailEnd r2)))
                (some (pos inp.length ([0x5B] ++ r), pos inp.length r2)),
              currentIsArray := false, currentPath := ks }
            = stTextN f inp st ++ hdrText f inp
                (Decor.new (takeTrailing st.trailing) (rawBetween inp.length r2 (trailEnd r2))) ks false := by
          have hit : (CTbl.empty).items = [] := rfl
          rw [stTextN]
          simp only [hpe, Bool.false_eq_true, if_false, hft, Option.getD_none, f5, hit]
          rw [hroottext, f1, entText_explicit, f3]
          simp [valuesTbl, encodeBody]
        simp only [] at hT ⊢
        rw [hT]
        exact header_txt_n f inp base hf st.trailing false _ r r2 r3 ks rfl hk hlt hne _ htx
    · cases ho
  | true =>
    simp only [if_true] at ho hk
    unfold onArrayHeader at ho
    split at ho
    · rename_i st1 hfin
      obtain ⟨f1, f2, f3, f4, f5⟩ := finalize_nestU f inp st st1 hfin hsh
      obtain ⟨pp, key, root', hks, hroot, hst'⟩ := startArrayTable_cases _ _ _ _ _ ho
      clear ho
      simp only [] at hroot
      have hsl : splitLast ks = some (pp, key) := by rw [hks]; exact vsplitLast_snoc pp key
      have hpo := hdrLineOk_use inp st st1 true r _ ks pp key hok hfin hk hsl
      obtain ⟨i1, i2, i3, i4, i5, _⟩ := start_spine inp true key pp st1.root root' hpo hroot
      have hroottext : textTbl f inp root' [] false = textTbl f inp st1.root [] false := by
        rw [textTbl_eq, textTbl_eq f inp st1.root, spineP_dotted i1, f2, i5 f, entText_tbl_congr f inp _ _ _ _ i2 i3 i4]
      have hne : ks ≠ [] := by rw [hks]; simp
      have hpe : ks.isEmpty = false := by rw [hks]; cases pp <;> rfl
      subst hst'
      refine ⟨Or.inr ⟨pp, key, [], st1.position + 1, takeTrailing st1.trailing, rawBetween inp.length r2 (trailEnd r2),
        some (pos inp.length ([0x5B, 0x5B] ++ r), pos inp.length r2), hks, ?_, rfl, i1⟩, ?_⟩
      · show CTbl.mk st1.current.items false false _ _ _ = _
        rw [f5]; rfl
      · have hT : stTextN f inp
            { root := root', trailing := none, position := st1.position + 1,
              current := .mk st1.current.items false false
                (some (st1.position + 1)) (Decor.new (takeTrailing st1.trailing) (rawBetween inp.length r2 (trailEnd r2)))
                (some (pos inp.length ([0x5B, 0x5B] ++ r), pos inp.length r2)),
              currentIsArray := true, currentPath := ks }
            = stTextN f inp st ++ hdrText f inp
                (Decor.new (takeTrailing st.trailing) (rawBetween inp.length r2 (trailEnd r2))) ks true := by
          have hit : (CTbl.empty).items = [] := rfl
          rw [stTextN]
          simp only [hpe, Bool.false_eq_true, if_false, f5, hit]
          rw [hroottext, f1, entText_explicit, f3]
          simp [valuesTbl, encodeBody]
        simp only [] at hT ⊢
        rw [hT]
        exact header_txt_n f inp base hf st.trailing true _ r r2 r3 ks rfl hk hlt hne _ htx
    · cases ho

theorem pinv_headerU (inp : Bytes) (st st' : CState) (s r3 : Bytes)
    (h : ctableLine inp.length st s = some (st', r3)) (hok : hdrLineOk inp st s = true)
    (hsh : RootPhU st ∨ HdrPhU inp st) (hP : PInv st) : PInv st' := by
  obtain ⟨isArr, r, ks, r2, hsr, hk, hlt, ho⟩ := table_frame _ _ _ _ _ h
  clear h
  subst hsr
  cases isArr with
  | false =>
    simp only [Bool.false_eq_true, if_false] at ho hk
    unfold onStdHeader at ho
    split at ho
    · rename_i st1 hfin
      obtain ⟨f1, f2, f3, f4, f5⟩ := finalize_pinvU inp st st1 hfin hsh hP
      obtain ⟨pp, key, root', hks, _, hroot, hst'⟩ := startTable_cases _ _ _ _ _ ho
      clear ho
      simp only [] at hroot
      have hsl : splitLast ks = some (pp, key) := by rw [hks]; exact vsplitLast_snoc pp key
      have hpo := hdrLineOk_use inp st st1 false r _ ks pp key hok hfin hk hsl
      obtain ⟨⟨n, i1⟩, i2⟩ := start_sum inp false key pp st1.root root' hpo hroot true false
      subst hst'
      refine ⟨by simp only []; rw [i2]; exact f1, by simp only []; rw [i2]; exact f2, fun _ => ?_⟩
      simp only []
      rw [i1, good_append, lastOf_append, f3, good_nones, lastOf_nones]
      refine ⟨rfl, ?_, rfl⟩
      omega
    · cases ho
  | true =>
    simp only [if_true] at ho hk
    unfold onArrayHeader at ho
    split at ho
    · rename_i st1 hfin
      obtain ⟨f1, f2, f3, f4, f5⟩ := finalize_pinvU inp st st1 hfin hsh hP
      obtain ⟨pp, key, root', hks, hroot, hst'⟩ := startArrayTable_cases _ _ _ _ _ ho
      clear ho
      simp only [] at hroot
      have hsl : splitLast ks = some (pp, key) := by rw [hks]; exact vsplitLast_snoc pp key
      have hpo := hdrLineOk_use inp st st1 true r _ ks pp key hok hfin hk hsl
      obtain ⟨⟨n, i1⟩, i2⟩ := start_sum inp true key pp st1.root root' hpo hroot true false
      subst hst'
      refine ⟨by simp only []; rw [i2]; exact f1, by simp only []; rw [i2]; exact f2, fun _ => ?_⟩
      simp only []
      rw [i1, good_append, lastOf_append, f3, good_nones, lastOf_nones]
      refine ⟨rfl, ?_, rfl⟩
      omega
    · cases ho

end TomlVerif.Lemmas.Tiling03More
