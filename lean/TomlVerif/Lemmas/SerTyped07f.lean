import TomlVerif.Lemmas.SerTyped07e
import TomlVerif.Lemmas.Ser07TextCanon
import TomlVerif.Lemmas.RoundTrip17g
/-! C07, reading back, part 6: where `Sim` holds — the serializer's tree itself, the tree a text parses to (NaNs
    reduced to their sign), and any reordering of the tables of either (`PermTV`: the document order of the formatted
    routes, the key order of a `BTreeMap`-backed `toml::Value`). -/
namespace TomlVerif.Lemmas.SerTyped07
open TomlVerif TomlVerif.Model TomlVerif.Model.TomlValue TomlVerif.Model.DeRoutes TomlVerif.Model.DeTyped
open TomlVerif.Model.SerTyped TomlVerif.Model.Ser TomlVerif.Spec TomlVerif.Spec.Serde
open TomlVerif.Spec.Encode06 (canonFloat)
open TomlVerif.Lemmas.Ser07Text TomlVerif.Lemmas.DeTyped13
open TomlVerif.Lemmas.RoundTrip17 (PermTV PermTVs PermTVPs valOf valOfList valOfPairs)

/-! ## the tree itself, and the tree with canonical NaNs -/

mutual
theorem sim_tvOf : ∀ x : V, Sim id x (tvOf x)
  | .sc (.str _) => by simp [Sim, tvOf]
  | .sc (.int _) => by simp [Sim, tvOf]
  | .sc (.float _) => by simp [Sim, tvOf]
  | .sc (.bool _) => by simp [Sim, tvOf]
  | .sc (.dt _) => by simp [Sim, tvOf]
  | .arr xs => by simp only [Sim, tvOf]; exact ⟨_, rfl, simList_tvOf xs⟩
  | .inl kvs => by simp only [Sim, tvOf]; exact ⟨_, _, rfl, List.Perm.refl _, simKVs_tvOf kvs⟩
theorem simList_tvOf : ∀ xs : List V, SimList id xs (tvList xs)
  | [] => by simp [SimList, tvList]
  | x :: r => by simp only [SimList, tvList]; exact ⟨_, _, rfl, sim_tvOf x, simList_tvOf r⟩
theorem simKVs_tvOf : ∀ kvs : List (Bytes × V), SimKVs id kvs (tvKVs kvs)
  | [] => by simp [SimKVs, tvKVs]
  | (k, x) :: r => by simp only [SimKVs, tvKVs]; exact ⟨_, _, rfl, sim_tvOf x, simKVs_tvOf r⟩
end

mutual
theorem sim_canon : ∀ x : V, Sim canonFloat x (tvOf (canonV x))
  | .sc (.str _) => by simp [Sim, tvOf, canonV, canonScalar]
  | .sc (.int _) => by simp [Sim, tvOf, canonV, canonScalar]
  | .sc (.float _) => by simp [Sim, tvOf, canonV, canonScalar]
  | .sc (.bool _) => by simp [Sim, tvOf, canonV, canonScalar]
  | .sc (.dt _) => by simp [Sim, tvOf, canonV, canonScalar]
  | .arr xs => by simp only [Sim, tvOf, canonV]; exact ⟨_, rfl, simList_canon xs⟩
  | .inl kvs => by simp only [Sim, tvOf, canonV]; exact ⟨_, _, rfl, List.Perm.refl _, simKVs_canon kvs⟩
theorem simList_canon : ∀ xs : List V, SimList canonFloat xs (tvList (canonVs xs))
  | [] => by simp [SimList, tvList, canonVs]
  | x :: r => by simp only [SimList, tvList, canonVs]; exact ⟨_, _, rfl, sim_canon x, simList_canon r⟩
theorem simKVs_canon : ∀ kvs : List (Bytes × V), SimKVs canonFloat kvs (tvKVs (canonKVs kvs))
  | [] => by simp [SimKVs, tvKVs, canonKVs]
  | (k, x) :: r => by simp only [SimKVs, tvKVs, canonKVs]; exact ⟨_, _, rfl, sim_canon x, simKVs_canon r⟩
end

/-! ## a parsed tree and its data -/

mutual
theorem tvOf_dataVal : ∀ v : Val, tvOf (dataVal v) = plainVal v
  | .str _ => by simp [dataVal, tvOf, plainVal]
  | .int _ => by simp [dataVal, tvOf, plainVal]
  | .float _ => by simp [dataVal, tvOf, plainVal]
  | .bool _ => by simp [dataVal, tvOf, plainVal]
  | .dt _ => by simp [dataVal, tvOf, plainVal]
  | .arr l => by simp [dataVal, tvOf, plainVal, tvList_dataVals l]
  | .inl items _ _ => by simp [dataVal, tvOf, plainVal, tvKVs_dataPairs items]
theorem tvList_dataVals : ∀ l : List Val, tvList (dataVals l) = plainVals l
  | [] => by simp [dataVals, tvList, plainVals]
  | v :: r => by simp [dataVals, tvList, plainVals, tvOf_dataVal v, tvList_dataVals r]
theorem tvKVs_dataPairs : ∀ l : List (Bytes × Val), tvKVs (dataPairs l) = plainValPairs l
  | [] => by simp [dataPairs, tvKVs, plainValPairs]
  | (k, v) :: r => by simp [dataPairs, tvKVs, plainValPairs, tvOf_dataVal v, tvKVs_dataPairs r]
end

mutual
theorem tvOf_dataItem : ∀ i : Item, tvOf (dataItem i) = plainItem i
  | .value v => by simp [dataItem, plainItem, tvOf_dataVal v]
  | .table t => by simp [dataItem, plainItem, tvOf, tvKVs_dataTbl t]
  | .aot ts => by simp [dataItem, plainItem, tvOf, tvList_dataTbls ts]
theorem tvKVs_dataTbl : ∀ t : Tbl, .tbl (tvKVs (dataTbl t)) = plainTbl t
  | .mk items _ _ _ => by simp [dataTbl, plainTbl, tvKVs_dataItems items]
theorem tvList_dataTbls : ∀ l : List Tbl, tvList (dataTbls l) = plainTbls l
  | [] => by simp [dataTbls, tvList, plainTbls]
  | t :: r => by simp [dataTbls, tvList, plainTbls, tvOf, tvKVs_dataTbl t, tvList_dataTbls r]
theorem tvKVs_dataItems : ∀ l : List (Bytes × Item), tvKVs (dataItems l) = plainItems l
  | [] => by simp [dataItems, tvKVs, plainItems]
  | (k, i) :: r => by simp [dataItems, tvKVs, plainItems, tvOf_dataItem i, tvKVs_dataItems r]
end

mutual
theorem plainVal_valOf : ∀ w : TV, plainVal (valOf w) = w
  | .str _ => by simp [valOf, plainVal]
  | .int _ => by simp [valOf, plainVal]
  | .float _ => by simp [valOf, plainVal]
  | .bool _ => by simp [valOf, plainVal]
  | .dt _ => by simp [valOf, plainVal]
  | .arr l => by simp [valOf, plainVal, plainVals_valOfList l]
  | .tbl es => by simp [valOf, plainVal, plainValPairs_valOfPairs es]
theorem plainVals_valOfList : ∀ l : List TV, plainVals (valOfList l) = l
  | [] => by simp [valOfList, plainVals]
  | w :: r => by simp [valOfList, plainVals, plainVal_valOf w, plainVals_valOfList r]
theorem plainValPairs_valOfPairs : ∀ l : List (Bytes × TV), plainValPairs (valOfPairs l) = l
  | [] => by simp [valOfPairs, plainValPairs]
  | (k, w) :: r => by simp [valOfPairs, plainValPairs, plainVal_valOf w, plainValPairs_valOfPairs r]
end

/-! ## reordering the tables of the data -/

/-- entry by entry: same key, values indistinguishable for `Sim` -/
def RelPs (cf : Nat → Nat) : List (Bytes × TV) → List (Bytes × TV) → Prop
  | [], [] => True
  | (k, y) :: r, (k', y') :: r' => k = k' ∧ (∀ x, Sim cf x y ↔ Sim cf x y') ∧ RelPs cf r r'
  | _, _ => False

theorem relPs_symm (cf : Nat → Nat) : ∀ a b, RelPs cf a b → RelPs cf b a
  | [], [], _ => trivial
  | [], _ :: _, h => by simp [RelPs] at h
  | _ :: _, [], h => by simp [RelPs] at h
  | (k, y) :: r, (k', y') :: r', h => by
    simp only [RelPs] at h ⊢
    exact ⟨h.1.symm, fun x => (h.2.1 x).symm, relPs_symm cf r r' h.2.2⟩

theorem relPs_simKVs (cf : Nat → Nat) : ∀ (kvs : List (Bytes × V)) (a b : List (Bytes × TV)), RelPs cf a b →
    SimKVs cf kvs a → SimKVs cf kvs b
  | [], a, b, hr, h => by
    simp only [SimKVs] at h ⊢
    subst h
    cases b with
    | nil => rfl
    | cons _ _ => simp [RelPs] at hr
  | (k, x) :: r, a, b, hr, h => by
    simp only [SimKVs] at h ⊢
    obtain ⟨y, a', rfl, hy, ha'⟩ := h
    match b, hr with
    | (k', y') :: b', hr =>
      simp only [RelPs] at hr
      obtain ⟨rfl, hyy, hr'⟩ := hr
      exact ⟨y', b', rfl, (hyy x).1 hy, relPs_simKVs cf r a' b' hr' ha'⟩
    | [], hr => simp [RelPs] at hr

theorem relPs_perm (cf : Nat → Nat) {a es0 : List (Bytes × TV)} (hp : a.Perm es0) :
    ∀ b, RelPs cf a b → ∃ es0', b.Perm es0' ∧ RelPs cf es0 es0' := by
  induction hp with
  | nil => intro b h; exact ⟨b, List.Perm.refl _, by cases b <;> simp_all [RelPs]⟩
  | cons x _ ih =>
    intro b h
    obtain ⟨k, y⟩ := x
    match b, h with
    | (k', y') :: b', h =>
      simp only [RelPs] at h
      obtain ⟨l, hl, hr⟩ := ih b' h.2.2
      exact ⟨(k', y') :: l, List.Perm.cons _ hl, by simp only [RelPs]; exact ⟨h.1, h.2.1, hr⟩⟩
    | [], h => simp [RelPs] at h
  | swap x y l =>
    intro b h
    obtain ⟨kx, wx⟩ := x
    obtain ⟨ky, wy⟩ := y
    match b, h with
    | (k1, d1) :: (k2, d2) :: ds, h =>
      simp only [RelPs] at h
      refine ⟨(k2, d2) :: (k1, d1) :: ds, List.Perm.swap _ _ _, ?_⟩
      simp only [RelPs]
      exact ⟨h.2.2.1, h.2.2.2.1, h.1, h.2.1, h.2.2.2.2⟩
    | [(_, _)], h => simp [RelPs] at h
    | [], h => simp [RelPs] at h
  | trans _ _ ih1 ih2 =>
    intro b h
    obtain ⟨l1, hp1, hg1⟩ := ih1 b h
    obtain ⟨l2, hp2, hg2⟩ := ih2 l1 hg1
    exact ⟨l2, hp1.trans hp2, hg2⟩

/-- a table target sees `Sim` through any reordering of its entries -/
theorem sim_tbl_iff (cf : Nat → Nat) (a b : List (Bytes × TV))
    (h : ∀ kvs, (∃ es0, a.Perm es0 ∧ SimKVs cf kvs es0) → ∃ es0, b.Perm es0 ∧ SimKVs cf kvs es0)
    (h' : ∀ kvs, (∃ es0, b.Perm es0 ∧ SimKVs cf kvs es0) → ∃ es0, a.Perm es0 ∧ SimKVs cf kvs es0) (x : V) :
    Sim cf x (.tbl a) ↔ Sim cf x (.tbl b) := by
  cases x with
  | sc s => cases s <;> simp [Sim]
  | arr xs => simp [Sim]
  | inl kvs =>
    simp only [Sim, TV.tbl.injEq]
    constructor
    · rintro ⟨es, es0, rfl, hp, hs⟩
      obtain ⟨l, hl, hs'⟩ := h kvs ⟨es0, hp, hs⟩
      exact ⟨_, l, rfl, hl, hs'⟩
    · rintro ⟨es, es0, rfl, hp, hs⟩
      obtain ⟨l, hl, hs'⟩ := h' kvs ⟨es0, hp, hs⟩
      exact ⟨_, l, rfl, hl, hs'⟩

mutual
theorem sim_permTV (cf : Nat → Nat) : ∀ {w w' : TV}, PermTV w w' → ∀ x, Sim cf x w ↔ Sim cf x w'
  | _, _, .refl _ => fun _ => Iff.rfl
  | _, _, .symm h => fun x => (sim_permTV cf h x).symm
  | _, _, .trans h1 h2 => fun x => (sim_permTV cf h1 x).trans (sim_permTV cf h2 x)
  | _, _, .arr h => by
    intro x
    cases x with
    | sc s => cases s <;> simp [Sim]
    | inl kvs => simp [Sim]
    | arr xs =>
      simp only [Sim, TV.arr.injEq]
      constructor
      · rintro ⟨ws, rfl, hs⟩; exact ⟨_, rfl, (simList_permTVs cf h xs).1 hs⟩
      · rintro ⟨ws, rfl, hs⟩; exact ⟨_, rfl, (simList_permTVs cf h xs).2 hs⟩
  | _, _, .perm (a := a) (b := b) h => by
    intro x
    apply sim_tbl_iff
    · rintro kvs ⟨es0, hp, hs⟩; exact ⟨es0, h.symm.trans hp, hs⟩
    · rintro kvs ⟨es0, hp, hs⟩; exact ⟨es0, h.trans hp, hs⟩
  | _, _, .tbl (a := a) (b := b) h => by
    intro x
    have hr := relPs_permTVPs cf h
    apply sim_tbl_iff
    · rintro kvs ⟨es0, hp, hs⟩
      obtain ⟨l, hl, hrel⟩ := relPs_perm cf hp b hr
      exact ⟨l, hl, relPs_simKVs cf kvs es0 l hrel hs⟩
    · rintro kvs ⟨es0, hp, hs⟩
      obtain ⟨l, hl, hrel⟩ := relPs_perm cf hp a (relPs_symm cf a b hr)
      exact ⟨l, hl, relPs_simKVs cf kvs es0 l hrel hs⟩
theorem simList_permTVs (cf : Nat → Nat) : ∀ {l l' : List TV}, PermTVs l l' → ∀ xs, SimList cf xs l ↔ SimList cf xs l'
  | _, _, .nil => fun _ => Iff.rfl
  | _, _, .cons (x := y) (y := y') (r := r) (t := t) h1 h2 => by
    intro xs
    cases xs with
    | nil => simp [SimList]
    | cons x xs =>
      simp only [SimList, List.cons.injEq]
      constructor
      · rintro ⟨_, _, ⟨rfl, rfl⟩, hy, hr⟩
        exact ⟨_, _, ⟨rfl, rfl⟩, (sim_permTV cf h1 x).1 hy, (simList_permTVs cf h2 xs).1 hr⟩
      · rintro ⟨_, _, ⟨rfl, rfl⟩, hy, hr⟩
        exact ⟨_, _, ⟨rfl, rfl⟩, (sim_permTV cf h1 x).2 hy, (simList_permTVs cf h2 xs).2 hr⟩
theorem relPs_permTVPs (cf : Nat → Nat) : ∀ {a b : List (Bytes × TV)}, PermTVPs a b → RelPs cf a b
  | _, _, .nil => trivial
  | _, _, .cons h1 h2 => by
    simp only [RelPs]
    exact ⟨trivial, sim_permTV cf h1, relPs_permTVPs cf h2⟩
end

end TomlVerif.Lemmas.SerTyped07
