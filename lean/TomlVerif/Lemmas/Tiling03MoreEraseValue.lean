import TomlVerif.Lemmas.Tiling03MoreEraseKey
import TomlVerif.Lemmas.Refine08cParse
/-! Erasure simulation, layers 3-4 (C03): `table_from_pairs` and the value parser of the
    format-preserving side decode the same data as their semantic twins.  The type `CVal` lets a
    `scalar` hold any `Val` (also an inline table); the parser never builds such a value
    (`Refine08cParse.lean`: `cleanPr`), which the inline-table insertion needs. -/
namespace TomlVerif.Lemmas.Tiling03More
open TomlVerif TomlVerif.Spec TomlVerif.Model TomlVerif.Model.Strings TomlVerif.Model.Value
open TomlVerif.Model.Cst TomlVerif.Lemmas.Refine08c TomlVerif.Lemmas.Refine08bSem TomlVerif.Lemmas.Spans14

/-- no scalar of the item list holds an inline table -/
abbrev CleanKvs (items : List (CKey × CVal)) : Prop := AllKV (KeyOK cleanPr) (VOK cleanPr) items

theorem eraseVal_setDecor (v : CVal) (d : Decor) : eraseVal (v.setDecor d) = eraseVal v := by
  cases v <;> simp [CVal.setDecor, eraseVal]

/-! ### `table_from_pairs` -/

theorem cinlInsert_erase : ∀ (path : List CKey) (items : List (CKey × CVal)) (td pe : Bool)
    (key : CKey) (v : CVal), CleanKvs items →
    (cinlInsert items td path pe key v).map eraseKvs =
      inlInsert (eraseKvs items) td (keysOf path) pe key.key (eraseVal v) := by
  intro path
  induction path with
  | nil =>
    intro items td pe key v _
    simp only [keysOf_nil]
    unfold cinlInsert inlInsert
    by_cases h : (td == pe) = true
    · simp [h]
    · simp only [h, eraseKvs_eq, alookup_mapKv]
      cases clookup key.key items with
      | none => simp [eraseKvs_eq]
      | some x => simp
  | cons k ks ih =>
    intro items td pe key v hit
    simp only [keysOf_cons]
    unfold cinlInsert inlInsert
    simp only [eraseKvs_eq, alookup_mapKv]
    cases hl : clookup k.key items with
    | none =>
      have := ih [] true pe key v AllKV.nil
      simp only [eraseKvs_eq, mapKv_nil] at this
      simp only [Option.map_none, ← this]
      cases cinlInsert [] true ks pe key v with
      | none => rfl
      | some sub => simp [newDottedInl, eraseVal, eraseKvs_eq]
    | some x =>
      have hx : VOK cleanPr x := hit.lookup hl
      cases x with
      | scalar a b c =>
        simp only [VOK, cleanPr] at hx
        have ha := hx.1
        simp only [Option.map_some, eraseVal]
        cases a <;> simp [notInlVal] at ha <;> rfl
      | arr a b c d e => simp only [Option.map_some, eraseVal]; rfl
      | inl sub pre imp dot dec sp =>
        simp only [VOK] at hx
        have := ih sub dot pe key v ((Refine08c.KvsOK_iff _).1 hx.1)
        simp only [eraseKvs_eq] at this
        simp only [Option.map_some, eraseVal, eraseKvs_eq, ← this]
        cases imp with
        | false => rfl
        | true =>
          simp only [Bool.not_true, Bool.false_eq_true, if_false]
          cases cinlInsert sub dot ks pe key v with
          | none => rfl
          | some sub' =>
            simp only [Option.map_some]
            rw [eraseKvs_eq, ← areplace_mapKv]
            simp [eraseVal, eraseKvs_eq]

/-- erasing the keyval list of an inline table -/
def eraseTriples (l : List (List CKey × CKey × CVal)) : List (List Bytes × Bytes × Val) :=
  l.map (fun x => (keysOf x.1, x.2.1.key, eraseVal x.2.2))

@[simp] theorem eraseTriples_nil : eraseTriples [] = [] := rfl
@[simp] theorem eraseTriples_cons (p : List CKey) (k : CKey) (v : CVal) (l : List (List CKey × CKey × CVal)) :
    eraseTriples ((p, k, v) :: l) = (keysOf p, k.key, eraseVal v) :: eraseTriples l := rfl
@[simp] theorem eraseTriples_append (a b : List (List CKey × CKey × CVal)) :
    eraseTriples (a ++ b) = eraseTriples a ++ eraseTriples b := by simp [eraseTriples]
@[simp] theorem eraseTriples_length (a : List (List CKey × CKey × CVal)) :
    (eraseTriples a).length = a.length := by simp [eraseTriples]

theorem ctableFromPairs_erase : ∀ (kvs : List (List CKey × CKey × CVal)) (acc : List (CKey × CVal)),
    PairsOK kvs → CleanKvs acc →
    (ctableFromPairs kvs acc).map eraseKvs = tableFromPairs (eraseTriples kvs) (eraseKvs acc) := by
  intro kvs
  induction kvs with
  | nil => intro acc _ _; rfl
  | cons x rest ih =>
    intro acc hn hacc
    obtain ⟨path, key, v⟩ := x
    simp only [eraseTriples_cons]
    unfold ctableFromPairs tableFromPairs
    have hv : VOK cleanPr v := hn (path, key, v) (by simp)
    have hrest : PairsOK rest := fun y hy => hn y (List.mem_cons_of_mem _ hy)
    rw [keysOf_isEmpty, ← cinlInsert_erase path acc false path.isEmpty key v hacc]
    cases hins : cinlInsert acc false path path.isEmpty key v with
    | none => rfl
    | some acc' =>
      simp only [Option.map_some]
      exact ih acc' hrest (cinlInsert_clean _ _ _ _ _ _ _ hins hacc hv)

/-! ### scalars: the token parsers do not use the fuel -/

theorem value_scalar_fuel (fuel d : Nat) (b : UInt8) (r : Bytes) (h1 : (b == 0x5B) = false) (h2 : (b == 0x7B) = false) :
    Value.value (fuel + 1) d (b :: r) = Value.value 1 d (b :: r) := by
  show Value.value (fuel + 1) d (b :: r) = Value.value (0 + 1) d (b :: r)
  unfold Value.value
  simp only [h1, h2, Bool.false_eq_true, if_false]

/-! ### the value-level induction -/

def E1 (n fuel : Nat) : Prop := ∀ d s, (cvalue n fuel d s).map eraseVal = Value.value fuel d s

def E2 (n fuel : Nat) : Prop :=
  ∀ d s, (carrayValues n fuel d s).map (fun x => x.1.map eraseVal) = arrayValues fuel d s

def E3 (n fuel : Nat) : Prop :=
  ∀ d s acc, (carrayElems n fuel d s acc).map (List.map eraseVal) = arrayElems fuel d s (acc.map eraseVal)

def E4 (n fuel : Nat) : Prop :=
  ∀ d s acc, PairsOK acc →
    (cinlineKeyvals n fuel d s acc).map eraseTriples = inlineKeyvals fuel d s (eraseTriples acc)

theorem estep1 (n fuel : Nat) (ih2 : E2 n fuel) (ih4 : E4 n fuel) : E1 n (fuel + 1) := by
  intro d s
  cases s with
  | nil => unfold cvalue Value.value; rfl
  | cons b r =>
    by_cases h1 : b = 0x5B
    · subst h1
      unfold cvalue Value.value
      simp only [show ((0x5B : UInt8) == 0x5B) = true from by decide,
        show ((0x5B : UInt8) == 0x22 || (0x5B : UInt8) == 0x27) = false from by decide,
        if_true, Bool.false_eq_true, if_false]
      by_cases hl : LIMIT ≤ d + 1
      · simp only [hl, if_true]; rfl
      · simp only [hl, if_false]
        rw [← ih2 (d + 1) r]
        cases carrayValues n fuel (d + 1) r with
        | bt => rfl
        | cut => rfl
        | ok x r1 =>
          obtain ⟨vs, comma, tr⟩ := x
          simp only [map_ok]
          split
          · simp only [map_ok, eraseVal, eraseVals_eq]
          · rename_i hne
            split
            · rename_i r2; exact absurd rfl (hne r2)
            · rfl
    · by_cases h2 : b = 0x7B
      · subst h2
        unfold cvalue Value.value
        simp only [show ((0x7B : UInt8) == 0x5B) = false from by decide,
          show ((0x7B : UInt8) == 0x7B) = true from by decide,
          show ((0x7B : UInt8) == 0x22 || (0x7B : UInt8) == 0x27) = false from by decide,
          if_true, Bool.false_eq_true, if_false]
        by_cases hl : LIMIT ≤ d + 1
        · simp only [hl, if_true]; rfl
        · simp only [hl, if_false]
          have h4 := ih4 (d + 1) r [] (fun _ h => by cases h)
          simp only [eraseTriples_nil] at h4
          rw [← h4]
          cases hk : cinlineKeyvals n fuel (d + 1) r [] with
          | bt => rfl
          | cut => rfl
          | ok kvs r1 =>
            have hp : PairsOK kvs := (cmain n fuel).2.2.2 _ _ _ _ _ hk (fun _ h => by cases h)
            have ht := ctableFromPairs_erase kvs [] hp AllKV.nil
            simp only [eraseKvs_eq, mapKv_nil] at ht
            simp only [map_ok, ← ht]
            cases ctableFromPairs kvs [] with
            | none => rfl
            | some items =>
              simp only [Option.map_some]
              generalize dropWs r1 = r1'
              split
              · simp only [map_ok, eraseVal, eraseKvs_eq]
              · rename_i hne
                split
                · rename_i r2; exact absurd rfl (hne r2)
                · rfl
      · have e1 : (b == 0x5B) = false := by simpa using h1
        have e2 : (b == 0x7B) = false := by simpa using h2
        rw [value_scalar_fuel fuel d b r e1 e2]
        unfold cvalue
        simp only [e1, e2, Bool.false_eq_true, if_false]
        cases Value.value 1 d (b :: r) with
        | bt => rfl
        | cut => rfl
        | ok v r1 => simp only [map_ok, eraseVal]

theorem commaRest_snd (r : Bytes) :
    (match r with | 0x2C :: t => (true, t) | _ => (false, r) : Bool × Bytes).2 =
      (match r with | 0x2C :: t => t | _ => r) := by
  split <;> rfl

theorem estep2 (n fuel : Nat) (ih3 : E3 n fuel) : E2 n (fuel + 1) := by
  intro d s
  conv => rhs; unfold arrayValues
  split
  · unfold carrayValues
    simp only [map_ok, List.map_nil]
  · rename_i hne
    unfold carrayValues
    split
    · rename_i t; exact absurd rfl (hne t)
    · have h3 := ih3 d s []
      simp only [List.map_nil] at h3
      rw [← h3]
      cases carrayElems n fuel d s [] with
      | bt => rfl
      | cut => rfl
      | ok vs r =>
        simp only [map_ok]
        cases vs with
        | nil =>
          simp only [List.isEmpty_nil, if_true, List.map_nil]
          cases wsCommentNewline (r.length + 1) r <;> rfl
        | cons v vs =>
          simp only [List.isEmpty_cons, Bool.false_eq_true, if_false, List.map_cons]
          rw (config := { transparency := .default }) [commaRest_snd r]
          cases wsCommentNewline _ _ <;> rfl

theorem estep3 (n fuel : Nat) (ih1 : E1 n fuel) (ih3 : E3 n fuel) : E3 n (fuel + 1) := by
  intro d s acc
  unfold carrayElems arrayElems
  cases wsCommentNewline (s.length + 1) s with
  | none => rfl
  | some s1 =>
    simp only []
    rw [← ih1 d s1]
    cases cvalue n fuel d s1 with
    | bt => rfl
    | cut => rfl
    | ok v s2 =>
      simp only [map_ok]
      cases wsCommentNewline (s2.length + 1) s2 with
      | none => rfl
      | some s3 =>
        simp only []
        split
        · rename_i s4
          simp only []
          have h3 := ih3 d s4 (acc ++ [v.setDecor (Decor.new (rawBetween n s s1) (rawBetween n s2 (0x2C :: s4)))])
          simp only [List.map_append, List.map_cons, List.map_nil, eraseVal_setDecor] at h3
          rw [← h3]
          cases carrayElems n fuel d s4 (acc ++ [v.setDecor (Decor.new (rawBetween n s s1) (rawBetween n s2 (0x2C :: s4)))]) with
          | bt => rfl
          | cut => rfl
          | ok vs r =>
            simp only [map_ok, List.length_map, List.length_append, List.length_cons, List.length_nil]
            split <;> rfl
        · rename_i hne
          split
          · rename_i s4; exact absurd rfl (hne s4)
          · simp only [map_ok, List.map_append, List.map_cons, List.map_nil, eraseVal_setDecor]

theorem PairsOK_snoc {acc : List (List CKey × CKey × CVal)} {p : List CKey} {k : CKey} {v : CVal}
    (h : PairsOK acc) (hv : VOK cleanPr v) : PairsOK (acc ++ [(p, k, v)]) := by
  intro y hy
  rcases List.mem_append.1 hy with hy | hy
  · exact h y hy
  · simp only [List.mem_singleton] at hy; subst hy; exact hv

theorem estep4 (n fuel : Nat) (ih1 : E1 n fuel) (ih4 : E4 n fuel) : E4 n (fuel + 1) := by
  intro d s acc hacc
  unfold cinlineKeyvals inlineKeyvals
  rw [← ckeyPath_erase n s]
  cases ckeyPath n s with
  | bt => rfl
  | cut => rfl
  | ok ks r =>
    simp only [map_ok, keysOf_length]
    by_cases hl : LIMIT ≤ d + (ks.length - 1)
    · simp only [hl, if_true]; rfl
    · simp only [hl, if_false]
      split
      · rename_i r1
        simp only []
        rw [← ih1 (d + (ks.length - 1)) (dropWs r1)]
        cases hv : cvalue n fuel (d + (ks.length - 1)) (dropWs r1) with
        | bt => rfl
        | cut => rfl
        | ok v r2 =>
          have hvc : VOK cleanPr v := (cmain n fuel).1 _ _ _ _ hv
          simp only [map_ok]
          rw [vsplitLast_keysOf]
          cases Value.splitLast ks with
          | none => rfl
          | some p =>
            obtain ⟨path, key⟩ := p
            simp only [Option.map_some]
            generalize dropWs r2 = r3
            split
            · rename_i r4
              simp only []
              have hacc' : PairsOK (acc ++ [(path, key, v.setDecor (Decor.new (rawBetween n r1 (dropWs r1)) (rawBetween n r2 (0x2C :: r4))))]) :=
                PairsOK_snoc hacc ((VOK_clean_setDecor _ _).2 hvc)
              have h4 := ih4 d r4 _ hacc'
              simp only [eraseTriples_append, eraseTriples_cons, eraseTriples_nil, eraseVal_setDecor] at h4
              rw [← h4]
              cases cinlineKeyvals n fuel d r4 (acc ++ [(path, key, v.setDecor (Decor.new (rawBetween n r1 (dropWs r1)) (rawBetween n r2 (0x2C :: r4))))]) with
              | bt => rfl
              | cut => rfl
              | ok kvs r5 =>
                simp only [map_ok, eraseTriples_length, List.length_append, List.length_cons, List.length_nil]
                split <;> rfl
            · rename_i hne
              split
              · rename_i r4; exact absurd rfl (hne r4)
              · simp only [map_ok, eraseTriples_append, eraseTriples_cons, eraseTriples_nil, eraseVal_setDecor]
      · rename_i hne
        split
        · rename_i r1; exact absurd rfl (hne r1)
        · rfl

theorem emain (n : Nat) : ∀ fuel : Nat, E1 n fuel ∧ E2 n fuel ∧ E3 n fuel ∧ E4 n fuel := by
  intro fuel
  induction fuel with
  | zero =>
    refine ⟨?_, ?_, ?_, ?_⟩
    · intro d s; unfold cvalue Value.value; rfl
    · intro d s; unfold carrayValues arrayValues; rfl
    · intro d s acc; unfold carrayElems arrayElems; rfl
    · intro d s acc _; unfold cinlineKeyvals inlineKeyvals; rfl
  | succ fuel ih =>
    obtain ⟨i1, i2, i3, i4⟩ := ih
    exact ⟨estep1 n fuel i2 i4, estep2 n fuel i3, estep3 n fuel i1 i3, estep4 n fuel i1 i4⟩

/-- the format-preserving value parser decodes the same value as the semantic one -/
theorem cvalue_erase (n fuel d : Nat) (s : Bytes) :
    (cvalue n fuel d s).map eraseVal = Value.value fuel d s := (emain n fuel).1 d s

theorem parseCstValue_erase (s : Bytes) : (parseCstValue s).map eraseVal = Value.parseValue s := by
  unfold parseCstValue Value.parseValue
  rw [← cvalue_erase s.length]
  cases cvalue s.length (3 * s.length + 4) 0 s with
  | bt => rfl
  | cut => rfl
  | ok v r => cases r <;> rfl
