import TomlVerif.Lemmas.Tiling03MoreSpine
/-! C03, nested documents — the position invariant over the line loop, and `preorderDoc` from
    the checked run. -/
namespace TomlVerif.Lemmas.Tiling03More
open TomlVerif TomlVerif.Spec TomlVerif.Model TomlVerif.Model.Strings TomlVerif.Model.Value
open TomlVerif.Model.Cst TomlVerif.Model.Encode TomlVerif.Lemmas.Suffix03 TomlVerif.Lemmas.Cst03
open TomlVerif.Lemmas.LastByte03 TomlVerif.Lemmas.Tiling03 TomlVerif.Lemmas.Tiling03Hdr
open TomlVerif.Lemmas.Tiling03Nest

/-- the position invariant of a parse state: the root carries no decor; after a header the
    entries of the root are in position order with `entOk`, none beyond `st.position`, which is
    the position of the section being read -/
def PInv (st : CState) : Prop :=
  st.root.decor.pre = none ∧ st.root.decor.suf = none ∧
  (st.currentPath ≠ [] → good 0 (sumTbl st.root true false) = true ∧
    lastOf 0 (sumTbl st.root true false) ≤ st.position ∧ st.current.pos = some st.position)

theorem pinv_congr (st st' : CState) (h1 : st'.root = st.root) (h2 : st'.current.pos = st.current.pos)
    (h3 : st'.currentPath = st.currentPath) (h4 : st'.position = st.position) (h : PInv st) : PInv st' := by
  unfold PInv at h ⊢
  rw [h1, h2, h3, h4]; exact h

theorem pinv_onWs (st : CState) (a b : Nat) (h : PInv st) : PInv (onWs st a b) := by
  obtain ⟨e1, e2, e3, _, e5⟩ := onWs_fields st a b
  exact pinv_congr st _ e1 (by rw [e2]) e3 e5 h

theorem pinv_parseWs (n : Nat) (st : CState) (s : Bytes) (h : PInv st) : PInv (parseWs n st s).1 :=
  pinv_onWs st _ _ h

theorem pinv_init : PInv {} := ⟨rfl, rfl, fun h => absurd rfl h⟩

/-! ### the key/value line -/

theorem pinv_keyval (n : Nat) (st st' : CState) (s r3 : Bytes) (h : ckeyvalLine n st s = some (st', r3))
    (hP : PInv st) : PInv st' := by
  obtain ⟨ks, r1, v, r2, path, key, c, _, _, _, _, hd, he⟩ := keyval_frame _ _ _ _ _ h
  subst he
  have hs := descend_setItems _ (fun p p' hp => by rw [(kvFn_facts _ _ _ _ _ hp).1]; simp) path _ _ _ hd
  have hpos : c.pos = st.current.pos := by
    rw [hs, ← (kvCur_fields st (kvVal n v r1 r2)).2.2.2.1]
    simp [CTbl.setItems, CTbl.pos]
  exact pinv_congr st _ rfl hpos rfl rfl hP

/-! ### `finalize_table` -/

theorem finalize_pinv (inp : Bytes) (st st1 : CState) (hfin : finalizeTable st = some st1)
    (hsh : RootPh st ∨ HdrPh inp st) (hP : PInv st) :
    st1.root.decor.pre = none ∧ st1.root.decor.suf = none ∧ good 0 (sumTbl st1.root true false) = true ∧
    lastOf 0 (sumTbl st1.root true false) ≤ st.position ∧ st1.position = st.position := by
  rcases finalize_cases st st1 hfin with ⟨hp, _, e⟩ | ⟨pp', key', root', hp, hd, e⟩
  · subst e
    rcases hsh with ⟨_, _, items, imp, sp, a3, a4⟩ | ⟨pp, key, _, _, _, _, _, b1, _⟩
    · simp only []
      rw [a3, sumTbl_eq]
      simp only [CTbl.items, bodyOk_sum items a4, List.append_nil]
      refine ⟨rfl, rfl, ?_, ?_, trivial⟩
      · simp [hdSum, CTbl.dotted, okFlag, good]
      · simp [hdSum, CTbl.dotted, CTbl.pos, lastOf]
    · rw [hp] at b1; exact absurd b1.symm (by simp)
  · subst e
    rcases hsh with ⟨_, a2, _⟩ | ⟨pp, key, items, q, lead, trail, sp, b1, b2, b3, b4⟩
    · rw [a2] at hp; exact absurd hp.symm (by simp)
    · rw [b1] at hp
      obtain ⟨e1, e2⟩ := snoc_inj hp
      subst e1; subst e2
      obtain ⟨p1, p2, p3⟩ := hP
      have hne : st.currentPath ≠ [] := by rw [b1]; simp
      obtain ⟨g1, g2, g3⟩ := p3 hne
      have hq : q = st.position := by
        rw [b2] at g3
        simpa [CTbl.pos] using g3
      have hcd : st.current.dotted = false := by rw [b2]; rfl
      obtain ⟨i1, i2⟩ := fin_sum inp st.currentIsArray key st.current hcd pp st.root root' b4 hd true false
      have hcur : sumTbl st.current false st.currentIsArray = [(some q, true)] := by
        rw [b2, sumTbl_eq]
        simp only [CTbl.items, bodyOk_sum items b3, List.append_nil]
        simp [hdSum, CTbl.dotted, CTbl.pos, okFlag, CTbl.decor, Decor.new]
      simp only []
      rw [i2, i1, hcur, good_append, lastOf_append]
      refine ⟨p1, p2, ?_, ?_, trivial⟩
      · rw [g1]
        simp only [good, Bool.true_and, Option.getD_some, Bool.and_true, decide_eq_true_eq]
        omega
      · simp only [lastOf, Option.getD_some]
        omega

/-! ### the header line -/

theorem pinv_header (inp : Bytes) (st st' : CState) (s r3 : Bytes)
    (h : ctableLine inp.length st s = some (st', r3)) (hok : hdrLineOk inp st s = true)
    (hsh : RootPh st ∨ HdrPh inp st) (hP : PInv st) : PInv st' := by
  obtain ⟨isArr, r, ks, r2, hsr, hk, hlt, ho⟩ := table_frame _ _ _ _ _ h
  clear h
  subst hsr
  cases isArr with
  | false =>
    simp only [Bool.false_eq_true, if_false] at ho hk
    unfold onStdHeader at ho
    split at ho
    · rename_i st1 hfin
      obtain ⟨f1, f2, f3, f4, f5⟩ := finalize_pinv inp st st1 hfin hsh hP
      obtain ⟨pp, key, root', hks, _, hroot, hst'⟩ := startTable_cases _ _ _ _ _ ho
      clear ho
      simp only [] at hroot
      have hsl : splitLast ks = some (pp, key) := by rw [hks]; exact vsplitLast_snoc pp key
      have hpo := hdrLineOk_use inp st st1 false r _ ks pp key hok hfin hk hsl
      obtain ⟨⟨n, i1⟩, i2⟩ := start_sum inp false key pp st1.root root' hpo hroot true false
      subst hst'
      refine ⟨by simp only []; rw [i2]; exact f1, by simp only []; rw [i2]; exact f2, fun _ => ?_⟩
      simp only []
      rw [i1, good_append, lastOf_append, f3, good_nones, lastOf_nones]
      refine ⟨rfl, ?_, rfl⟩
      omega
    · cases ho
  | true =>
    simp only [if_true] at ho hk
    unfold onArrayHeader at ho
    split at ho
    · rename_i st1 hfin
      obtain ⟨f1, f2, f3, f4, f5⟩ := finalize_pinv inp st st1 hfin hsh hP
      obtain ⟨pp, key, root', hks, hroot, hst'⟩ := startArrayTable_cases _ _ _ _ _ ho
      clear ho
      simp only [] at hroot
      have hsl : splitLast ks = some (pp, key) := by rw [hks]; exact vsplitLast_snoc pp key
      have hpo := hdrLineOk_use inp st st1 true r _ ks pp key hok hfin hk hsl
      obtain ⟨⟨n, i1⟩, i2⟩ := start_sum inp true key pp st1.root root' hpo hroot true false
      subst hst'
      refine ⟨by simp only []; rw [i2]; exact f1, by simp only []; rw [i2]; exact f2, fun _ => ?_⟩
      simp only []
      rw [i1, good_append, lastOf_append, f3, good_nones, lastOf_nones]
      refine ⟨rfl, ?_, rfl⟩
      omega
    · cases ho

/-! ### the line loop -/

theorem clines_pinv (inp base : Bytes) (dot : Bool) :
    ∀ (fuel : Nat) (st : CState) (s : Bytes) (stf : CState),
      clines inp.length fuel st s = some stf → runOk inp dot fuel st s = true →
      NInv id inp base st s → PInv st → NInv id inp base stf [] ∧ PInv stf := by
  have hf := FixOn.id inp
  intro fuel
  induction fuel with
  | zero => intro st s stf h; unfold clines at h; cases h
  | succ fuel ih =>
    intro st s stf h hr hI hP
    unfold clines at h
    unfold runOk at hr
    cases s with
    | nil =>
      simp only [] at h
      injection h with h; subst h; exact ⟨hI, hP⟩
    | cons b r =>
      simp only [] at h hr
      by_cases hb1 : (b == 0x23) = true
      · simp only [hb1, if_true] at h hr
        cases hdc : dropComment r with
        | nil =>
          simp only [hdc] at h
          injection h with h; subst h
          have h1 := ninv_consume id inp base st (b :: r) [] List.nil_suffix hI
          rw [pos_nil] at h1
          exact ⟨ninv_parseWs id inp base _ [] h1, pinv_parseWs _ _ _ (pinv_onWs _ _ _ hP)⟩
        | cons c1 r1 =>
          simp only [hdc] at h hr
          cases hnl : newline? (c1 :: r1) with
          | none => simp only [hnl] at h; cases h
          | some r2 =>
            simp only [hnl] at h hr
            have hsuf : r2 <:+ b :: r := by
              have := (Cst03.newline?_suffix _ _ hnl).1
              rw [← hdc] at this
              exact (this.trans (Cst03.dropComment_suffix r)).trans (List.suffix_cons b r)
            have h1 := ninv_consume id inp base st (b :: r) r2 hsuf hI
            exact ih _ _ _ h hr (ninv_parseWs id inp base _ r2 h1) (pinv_parseWs _ _ _ (pinv_onWs _ _ _ hP))
      · simp only [hb1, Bool.false_eq_true, if_false] at h hr
        by_cases hb2 : (b == 0x5B) = true
        · simp only [hb2, if_true, Bool.and_eq_true] at h hr
          cases hl : ctableLine inp.length st (b :: r) with
          | none => simp only [hl] at h; cases h
          | some pr =>
            obtain ⟨st', r1⟩ := pr
            simp only [hl] at h hr
            have h1 := header_step_nest id inp base hf st st' (b :: r) r1 hl hr.1 hI
            have p1 := pinv_header inp st st' (b :: r) r1 hl hr.1 hI.1 hP
            exact ih _ _ _ h hr.2 (ninv_parseWs id inp base _ r1 h1) (pinv_parseWs _ _ _ p1)
        · simp only [hb2, Bool.false_eq_true, if_false] at h hr
          by_cases hb3 : (b == 0x0A || b == 0x0D) = true
          · simp only [hb3, if_true] at h hr
            cases hnl : newline? (b :: r) with
            | none => simp only [hnl] at h; cases h
            | some r1 =>
              simp only [hnl] at h hr
              have h1 := ninv_consume id inp base st (b :: r) r1 (Cst03.newline?_suffix _ _ hnl).1 hI
              exact ih _ _ _ h hr (ninv_parseWs id inp base _ r1 h1) (pinv_parseWs _ _ _ (pinv_onWs _ _ _ hP))
          · simp only [hb3, Bool.false_eq_true, if_false, Bool.and_eq_true] at h hr
            cases hl : ckeyvalLine inp.length st (b :: r) with
            | none => simp only [hl] at h; cases h
            | some pr =>
              obtain ⟨st', r1⟩ := pr
              simp only [hl] at h hr
              have h1 := keyval_step_nest id inp base hf dot st st' (b :: r) r1 hl hr.1 hI
              have p1 := pinv_keyval inp.length st st' (b :: r) r1 hl hP
              exact ih _ _ _ h hr.2 (ninv_parseWs id inp base _ r1 h1) (pinv_parseWs _ _ _ p1)

/-- the tree side of the class follows from the source side: the tree a checked run builds is
    met in position order, every header has an explicit prefix, the root carries no decor -/
theorem preorder_of_run (dot : Bool) (s : Bytes) (d : CDoc) (h : parseCst s = some d)
    (hrun : nestRun dot s = true) : preorderDoc d = true := by
  obtain ⟨base, hbase⟩ := stripBom_split s
  unfold parseCst at h
  unfold nestRun at hrun
  simp only [] at h hrun
  split at h
  · rename_i stf hcl
    have h1 := ninv_parseWs id s base _ _ (ninv_init id s base hbase)
    have p1 : PInv (parseWs s.length {} (Doc.stripBom s)).1 := pinv_parseWs _ _ _ pinv_init
    obtain ⟨⟨hsh, _⟩, hP⟩ := clines_pinv s base dot _ _ _ _ hcl hrun h1 p1
    unfold intoDocument at h
    split at h
    · rename_i st' hfin
      injection h with h; subst h
      obtain ⟨f1, f2, f3, _, _⟩ := finalize_pinv s stf st' hfin hsh hP
      exact preorder_of_good _ f1 f2 f3
    · cases h
  · cases h

end TomlVerif.Lemmas.Tiling03More
