import TomlVerif.Lemmas.Tiling03MoreTkoDefs
/-! C03, same data with `[t]` taking over an implicit table — tree lemmas: `start_table` erasing an
    implicit table moves the summary of its sub-tables out of the root (`start_spineT`);
    `finalize_table` inserts the whole summary of the finished table (`fin_spineT`). -/
namespace TomlVerif.Lemmas.Tiling03More.Tko
open TomlVerif TomlVerif.Spec TomlVerif.Model TomlVerif.Model.Strings TomlVerif.Model.Value
open TomlVerif.Model.Cst TomlVerif.Model.Encode TomlVerif.Lemmas.Suffix03 TomlVerif.Lemmas.Cst03
open TomlVerif.Lemmas.LastByte03 TomlVerif.Lemmas.Tiling03 TomlVerif.Lemmas.Tiling03Hdr
open TomlVerif.Lemmas.Tiling03Nest TomlVerif.Lemmas.Tiling03More.VS

theorem cerase_mid (k : Bytes) (y : CItem) (k' : CKey) (B : Items) (hk : (k'.key == k) = true) :
    ∀ A : Items, clookup k A = none → cerase k (A ++ (k', y) :: B) = A ++ B
  | [], _ => by simp [cerase, hk]
  | (k2, v) :: r, h => by
    unfold clookup at h
    split at h
    · cases h
    · rename_i hk2
      simp only [List.cons_append, cerase, hk2]
      rw [cerase_mid k y k' B hk r h]; rfl

theorem pathOkT_dotted {inp : Bytes} {a : Bool} {key : CKey} {t : CTbl} {pp : List CKey}
    (h : pathOkT inp a key t pp = true) : t.dotted = false := by
  cases pp <;> simp only [pathOkT, Bool.and_eq_true, Bool.not_eq_true'] at h <;> exact h.1

theorem pathOkT_empty (inp : Bytes) (a : Bool) (key : CKey) (t : CTbl) (hi : t.items = []) (hd : t.dotted = false) :
    ∀ pp, pathOkT inp a key t pp = true
  | [] => by simp [pathOkT, hi, hd, clookup]
  | k :: ks => by simp [pathOkT, hi, hd, clookup]

theorem hdN_flags_false (f : Bytes → Bytes) (inp : Bytes) (t : CTbl) (P : List CKey) (a : Bool) (hp : t.pos = none) :
    ∀ x ∈ hdN f inp t P a, x.2.1 = false := by
  intro x hx
  unfold hdN at hx
  split at hx
  · cases hx
  · rw [hp] at hx
    simp only [] at hx
    split at hx
    · cases hx
    · simp only [List.mem_singleton] at hx; subst hx; rfl

/-- what `start_table` / `start_array_table` do to the summary: `Hd ++ K` is taken out, where `K`
    is the summary of the sub-tables of a table taken over (under the new path) and `Hd` that of
    the table itself (flags `false`: it must be empty when all flags are set) -/
def StartRes (f : Bytes → Bytes) (inp : Bytes) (a : Bool) (key : CKey) (t t' : CTbl) (pp P : List CKey) : Prop :=
  ∃ SP Hd K l1 l2, SpineA inp a key t' pp SP ∧ (∀ x ∈ Hd, x.2.1 = false) ∧
    nsItems f inp t.items P = l1 ++ (Hd ++ K) ++ l2 ∧ nsItems f inp t'.items P = l1 ++ l2 ∧
    (findTable key.key t pp = none → K = [] ∧ Hd = []) ∧
    (∀ tk, findTable key.key t pp = some tk → a = false ∧ K = nsItems f inp tk.items (P ++ SP) ∧
      tk.dotted = false ∧ onlySubs tk.items = true ∧ gkItems inp tk.items ∧ tiTbl tk = true)

theorem start_spineT (f : Bytes → Bytes) (inp : Bytes) (a : Bool) (key : CKey) (hkey : GKey inp key) :
    ∀ (pp : List CKey) (t t' : CTbl) (P : List CKey), (∀ k ∈ pp, GKey inp k) → pathOkT inp a key t pp = true →
      gkItems inp t.items → tiTbl t = true →
      descend t pp false (if a then arrFn key else eraseFn key) = some t' →
      StartRes f inp a key t t' pp P ∧ valuesTbl t'.items [] = valuesTbl t.items [] ∧ gkItems inp t'.items := by
  intro pp
  induction pp with
  | nil =>
    intro t t' P _ hok hg hti hd
    obtain ⟨hnd, htis, _⟩ := tiTbl_parts t hti
    rw [descend_nil] at hd
    simp only [pathOkT, Bool.and_eq_true, Bool.not_eq_true'] at hok
    obtain ⟨hdot, hok⟩ := hok
    cases hl : clookup key.key t.items with
    | none =>
      have hft : findTable key.key t [] = none := by simp [findTable, hl]
      cases a with
      | false =>
        simp only [Bool.false_eq_true, if_false] at hd
        unfold eraseFn at hd
        injection hd with hd
        rw [cerase_of_none _ _ hl, setItems_self] at hd
        subst hd
        refine ⟨⟨[key], [], [], nsItems f inp t.items P, [], ⟨hdot, by simpa using ⟨hl, hkey⟩⟩,
          (fun x hx => by cases hx), by simp, by simp, fun _ => ⟨rfl, rfl⟩, ?_⟩, rfl, hg⟩
        intro tk htk; rw [hft] at htk; cases htk
      | true =>
        simp only [if_true] at hd
        unfold arrFn at hd
        rw [hl] at hd
        simp only [] at hd
        injection hd with hd
        subst hd
        refine ⟨⟨[key], [], [], nsItems f inp t.items P, [], ⟨by simpa using hdot, ?_⟩,
          (fun x hx => by cases hx), by simp, ?_, fun _ => ⟨rfl, rfl⟩, ?_⟩, ?_, ?_⟩
        · simp only [if_true, setItems_items]
          exact ⟨t.items, key, [], none, [], rfl, by simp, hl, rfl, hkey⟩
        · rw [setItems_items, nsItems_append]
          simp [nsItems, nsAot]
        · intro tk htk; rw [hft] at htk; cases htk
        · rw [setItems_items]; exact valuesTbl_snoc_aot _ _ _ _ _
        · rw [setItems_items]
          exact (gk_mid_aot inp t.items [] key [] none).2 ⟨hg, ⟨hkey, gkAot_nil inp⟩, gk_nil inp⟩
    | some y =>
      rw [hl] at hok
      obtain ⟨A, k', B, e1, e2, e3, e4⟩ := clookup_split _ _ _ hl
      cases y with
      | value v => simp at hok
      | aot ts asp =>
        have hft : findTable key.key t [] = none := by simp [findTable, hl]
        simp only [] at hok
        subst hok
        simp only [if_true] at hd
        unfold arrFn at hd
        rw [hl] at hd
        simp only [] at hd
        injection hd with hd
        subst hd
        have hk' : GKey inp k' := by
          rw [e1] at hg
          exact ((gk_mid_aot inp A B k' ts asp).1 hg).2.1.1
        refine ⟨⟨[k'], [], [], nsItems f inp t.items P, [], ⟨hdot, ?_⟩,
          (fun x hx => by cases hx), by simp, by simp, fun _ => ⟨rfl, rfl⟩, ?_⟩, rfl, hg⟩
        · simp only [if_true]
          exact ⟨A, k', ts, asp, B, e1, e3, e2, rfl, hk'⟩
        · intro tk htk; rw [hft] at htk; cases htk
      | table tk =>
        have hft : findTable key.key t [] = some tk := by simp [findTable, hl]
        simp only [Bool.and_eq_true, Bool.not_eq_true', segChk, e4, Bool.false_eq_true, if_false] at hok
        obtain ⟨⟨⟨⟨ha, himp⟩, htd⟩, hseg⟩, hsubs⟩ := hok
        subst ha
        simp only [Bool.false_eq_true, if_false] at hd
        unfold eraseFn at hd
        injection hd with hd
        subst hd
        have hlk : clookup key.key (cerase key.key t.items) = none := clookup_cerase_self _ _ hnd
        have hce : cerase key.key t.items = A ++ B := by rw [e1]; exact cerase_mid _ _ _ _ e3 A e2
        have htk : tiTbl tk = true := ti_lookup _ _ _ htis hl
        obtain ⟨_, htki, hpos⟩ := tiTbl_parts tk htk
        rw [e1] at hg
        obtain ⟨g1, g2, g3⟩ := (gk_mid_table inp A B k' tk).1 hg
        have g2' : gkItems inp tk.items := by
          rcases g2 with g2 | g2
          · rw [htd] at g2; cases g2
          · exact g2.2
        have hcong : nsItems f inp tk.items (P ++ [k']) = nsItems f inp tk.items (P ++ [key]) :=
          nsItems_congr f inp tk.items _ _ ((SegsEq.refl f inp P).snoc (sameSeg_segEq f inp key k' hseg).symm)
        refine ⟨⟨[key], hdN f inp tk (P ++ [k']) false, nsItems f inp tk.items (P ++ [key]),
          nsItems f inp A P, nsItems f inp B P, ⟨by simpa using hdot, ?_⟩,
          hdN_flags_false f inp tk _ false (hpos himp), ?_, ?_, ?_, ?_⟩, ?_, ?_⟩
        · simp only [Bool.false_eq_true, if_false, setItems_items]
          exact ⟨hlk, trivial, hkey⟩
        · rw [e1, nsItems_append]
          simp only [nsItems]
          rw [nsTbl_eq, hcong]
          simp only [List.append_assoc]
        · rw [setItems_items, hce, nsItems_append]
        · intro h; rw [hft] at h; cases h
        · intro tk' h
          rw [hft] at h; injection h with h; subst h
          exact ⟨rfl, rfl, htd, hsubs, g2', htk⟩
        · rw [setItems_items, hce, e1, valuesTbl_mid_table _ _ _ _ htd, valuesTbl_append]
        · rw [setItems_items, hce]
          exact (gkItems_append inp A B).2 ⟨g1, g3⟩
  | cons k ks ih =>
    intro t t' P hpp hok hg hti hd
    obtain ⟨hnd, htis, _⟩ := tiTbl_parts t hti
    have hk : GKey inp k := hpp k (by simp)
    have hks : ∀ x ∈ ks, GKey inp x := fun x hx => hpp x (List.mem_cons_of_mem _ hx)
    simp only [pathOkT, Bool.and_eq_true, Bool.not_eq_true'] at hok
    obtain ⟨hdot, hok⟩ := hok
    obtain ⟨x, et', hx⟩ := descend_cons_shape _ _ _ _ _ _ hd
    cases hl : clookup k.key t.items with
    | none =>
      have hft : findTable key.key t (k :: ks) = none := by simp [findTable, hl]
      rw [hl] at hx
      simp only [Option.getD_none] at hx
      rcases hx with ⟨sub, sub', e1, hd', e2⟩ | ⟨_, _, _, _, e1, _⟩
      · injection e1 with e1
        subst e1; subst e2
        obtain ⟨⟨SP', Hd, K, l1, l2, i1, _, j1, j2, _, _⟩, i2, i4⟩ := ih (newImplicit false) _ (P ++ [k]) hks
          (pathOkT_empty inp a key _ rfl rfl ks) (gk_newImplicit inp false) (tiTbl_newImplicit false) hd'
        have hs := descend_setItems _ (startFn_setItems a key) ks _ _ _ hd'
        have hnil : l1 ++ l2 = [] := by
          have : nsItems f inp (newImplicit false).items (P ++ [k]) = [] := rfl
          rw [this] at j1
          have h2 := (List.append_eq_nil_iff.1 j1.symm)
          have h3 := (List.append_eq_nil_iff.1 h2.1)
          rw [h3.1, h2.2]; rfl
        rw [cset_none _ _ _ hl] at et'
        subst et'
        have hsd : sub'.dotted = false := spineA_dotted i1
        refine ⟨⟨k :: SP', [], [], nsItems f inp t.items P, [], ⟨by simpa using hdot, t.items, k, [], SP', hl, by simp, hk, rfl,
          Or.inl ⟨sub', by simp, i1⟩⟩, (fun x hx => by cases hx), by simp, ?_, fun _ => ⟨rfl, rfl⟩, ?_⟩, ?_, ?_⟩
        · rw [setItems_items, nsItems_append]
          simp only [nsItems, List.append_nil]
          rw [nsTbl_setItems f inp _ _ _ _ hs i2, hdN_newImplicit, j2, hnil]
          simp
        · intro tk htk; rw [hft] at htk; cases htk
        · rw [setItems_items]; exact valuesTbl_snoc_table _ _ _ hsd _
        · rw [setItems_items]
          exact (gk_mid_table inp t.items [] k sub').2 ⟨hg, Or.inr ⟨hk, i4⟩, gk_nil inp⟩
      · cases e1
    | some y =>
      rw [hl] at hok hx
      simp only [Option.getD_some] at hx
      obtain ⟨A, k', B, e1, e2, e3, e4⟩ := clookup_split _ _ _ hl
      have e3' : (k'.key == k.key) = true := e3
      have hlist : ∀ SP', P ++ [k'] ++ SP' = P ++ k' :: SP' := by intro SP'; simp
      cases y with
      | value v => simp at hok
      | table sub =>
        have hft : findTable key.key t (k :: ks) = findTable key.key sub ks := by simp [findTable, hl]
        simp only [] at hok
        rcases hx with ⟨sub0, sub', e5, hd', e6⟩ | ⟨_, _, _, _, e5, _⟩
        · injection e5 with e5
          subst e5; subst e6
          have hsd0 : sub.dotted = false := pathOkT_dotted hok
          obtain ⟨hk', hgs⟩ := gk_lookup_table inp A B k' sub hsd0 (e1 ▸ hg)
          have htsub : tiTbl sub = true := ti_lookup _ _ _ htis hl
          obtain ⟨⟨SP', Hd, K, l1, l2, i1, jh, j1, j2, j3, j4⟩, i2, i4⟩ := ih sub _ (P ++ [k']) hks hok hgs htsub hd'
          have hs := descend_setItems _ (startFn_setItems a key) ks _ _ _ hd'
          have hsd : sub'.dotted = false := spineA_dotted i1
          have hcs : cset k (.table sub') t.items = A ++ (k', .table sub') :: B := by
            rw [e1]; exact cset_mid _ _ _ _ _ _ e3' e2
          rw [hcs] at et'
          subst et'
          refine ⟨⟨k' :: SP', Hd, K, nsItems f inp A P ++ hdN f inp sub (P ++ [k']) false ++ l1, l2 ++ nsItems f inp B P,
            ⟨by simpa using hdot, A, k', B, SP', e2, e3', hk', rfl, Or.inl ⟨sub', by simp, i1⟩⟩, jh, ?_, ?_, ?_, ?_⟩, ?_, ?_⟩
          · rw [e1, nsItems_append]
            simp only [nsItems]
            rw [nsTbl_eq, j1]
            simp only [List.append_assoc]
          · rw [setItems_items, nsItems_append]
            simp only [nsItems]
            rw [nsTbl_setItems f inp _ _ _ _ hs i2, j2]
            simp only [List.append_assoc]
          · intro h; rw [hft] at h; exact j3 h
          · intro tk h; rw [hft] at h
            have := j4 tk h
            rw [hlist] at this; exact this
          · rw [setItems_items, e1, valuesTbl_mid_table _ _ _ _ hsd, valuesTbl_mid_table _ _ _ _ hsd0]
          · rw [setItems_items]
            rw [e1] at hg
            obtain ⟨g1, _, g3⟩ := (gk_mid_table inp A B k' sub).1 hg
            exact (gk_mid_table inp A B k' sub').2 ⟨g1, Or.inr ⟨hk', i4⟩, g3⟩
        · cases e5
      | aot ts asp =>
        simp only [] at hok
        rcases hx with ⟨_, _, e5, _, _⟩ | ⟨tsI, l, l', asp', e5, hd', e6⟩
        · cases e5
        · injection e5 with e5 e5'
          subst e5; subst e5'; subst e6
          have hrev : (tsI ++ [l]).reverse = l :: tsI.reverse := by simp
          have hft : findTable key.key t (k :: ks) = findTable key.key l ks := by simp [findTable, hl, hrev]
          rw [hrev] at hok
          simp only [] at hok
          rw [e1] at hg
          obtain ⟨g1, ⟨hk', g2⟩, g3⟩ := (gk_mid_aot inp A B k' _ asp).1 hg
          obtain ⟨g2a, g2b⟩ := (gkAot_snoc inp tsI l).1 g2
          have htl : tiTbl l = true := by
            have := ti_lookup _ _ _ htis hl
            simp only [tiItem] at this
            rw [tiAot_append] at this
            simp only [Bool.and_eq_true, tiAot, Bool.and_true] at this
            exact this.2
          obtain ⟨⟨SP', Hd, K, l1, l2, i1, jh, j1, j2, j3, j4⟩, i2, i4⟩ := ih l _ (P ++ [k']) hks hok g2b htl hd'
          have hs := descend_setItems _ (startFn_setItems a key) ks _ _ _ hd'
          have hcs : cset k (.aot (tsI ++ [l']) asp) t.items = A ++ (k', .aot (tsI ++ [l']) asp) :: B := by
            rw [e1]; exact cset_mid _ _ _ _ _ _ e3' e2
          rw [hcs] at et'
          subst et'
          refine ⟨⟨k' :: SP', Hd, K, nsItems f inp A P ++ nsAot f inp tsI (P ++ [k']) ++ hdN f inp l (P ++ [k']) true ++ l1,
            l2 ++ nsItems f inp B P,
            ⟨by simpa using hdot, A, k', B, SP', e2, e3', hk', rfl, Or.inr ⟨tsI, l', asp, by simp, i1⟩⟩, jh, ?_, ?_, ?_, ?_⟩, ?_, ?_⟩
          · rw [e1, nsItems_append]
            simp only [nsItems]
            rw [nsAot_append]
            simp only [nsAot, List.append_nil]
            rw [nsTbl_eq, j1]
            simp only [List.append_assoc]
          · rw [setItems_items, nsItems_append]
            simp only [nsItems]
            rw [nsAot_append]
            simp only [nsAot, List.append_nil]
            rw [nsTbl_setItems f inp _ _ _ _ hs i2, j2]
            simp only [List.append_assoc]
          · intro h; rw [hft] at h; exact j3 h
          · intro tk h; rw [hft] at h
            have := j4 tk h
            rw [hlist] at this; exact this
          · rw [setItems_items, e1, valuesTbl_mid_aot, valuesTbl_mid_aot]
          · rw [setItems_items]
            exact (gk_mid_aot inp A B k' _ asp).2 ⟨g1, ⟨hk', (gkAot_snoc inp tsI l').2 ⟨g2a, i4⟩⟩, g3⟩

/-- `finalize_table` along the path: the summary of the finished table (its own triple and those of its sub-tables) is inserted into the
    summary, under the STORED key path -/
theorem fin_spineT (f : Bytes → Bytes) (inp : Bytes) (a : Bool) (key : CKey) (cur : CTbl)
    (hcd : cur.dotted = false) (hgc : gkItems inp cur.items) :
    ∀ (pp : List CKey) (t t' : CTbl) (P SP : List CKey), SpineA inp a key t pp SP → gkItems inp t.items →
      descend t pp false (if a then finArr key cur else finStd key cur) = some t' →
      (∃ l1 l2, nsItems f inp t.items P = l1 ++ l2 ∧
        nsItems f inp t'.items P = l1 ++ nsTbl f inp cur (P ++ SP) a ++ l2) ∧
      valuesTbl t'.items [] = valuesTbl t.items [] ∧ gkItems inp t'.items := by
  intro pp
  induction pp with
  | nil =>
    intro t t' P SP hsp hg hd
    rw [descend_nil] at hd
    obtain ⟨hdot, hsp⟩ := hsp
    cases a with
    | false =>
      simp only [Bool.false_eq_true, if_false] at hd hsp
      obtain ⟨hsp, eSP, hkey⟩ := hsp
      subst eSP
      unfold finStd at hd
      rw [hsp] at hd
      simp only [] at hd
      injection hd with hd
      subst hd
      refine ⟨⟨nsItems f inp t.items P, [], by simp, ?_⟩, ?_, ?_⟩
      · rw [setItems_items, nsItems_append]
        simp only [nsItems, List.append_nil]
      · rw [setItems_items]; exact valuesTbl_snoc_table _ _ _ hcd _
      · rw [setItems_items]
        exact (gk_mid_table inp t.items [] key cur).2 ⟨hg, Or.inr ⟨hkey, hgc⟩, gk_nil inp⟩
    | true =>
      simp only [if_true] at hd hsp
      obtain ⟨A, k', ts, asp, B, e1, e2, e3, eSP, hk'⟩ := hsp
      subst eSP
      have hl : clookup key.key t.items = some (.aot ts asp) := by
        rw [e1]; exact clookup_mid _ _ _ _ _ e2 e3
      unfold finArr at hd
      rw [hl] at hd
      simp only [Option.getD_some] at hd
      injection hd with hd
      rw [e1, cset_mid _ _ _ _ _ _ e2 e3] at hd
      subst hd
      rw [e1] at hg
      obtain ⟨g1, ⟨_, g2⟩, g3⟩ := (gk_mid_aot inp A B k' ts asp).1 hg
      refine ⟨⟨nsItems f inp A P ++ nsAot f inp ts (P ++ [k']), nsItems f inp B P, ?_, ?_⟩, ?_, ?_⟩
      · rw [e1, nsItems_append]
        simp only [nsItems, List.append_assoc]
      · rw [setItems_items, nsItems_append]
        simp only [nsItems]
        rw [nsAot_append]
        simp only [nsAot, List.append_nil, List.append_assoc]
      · rw [setItems_items, e1, valuesTbl_mid_aot, valuesTbl_mid_aot]
      · rw [setItems_items]
        exact (gk_mid_aot inp A B k' _ _).2 ⟨g1, ⟨hk', (gkAot_snoc inp ts cur).2 ⟨g2, hgc⟩⟩, g3⟩
  | cons k ks ih =>
    intro t t' P SP hsp hg hd
    obtain ⟨hdot, A, k', B, SP', e3, e2, hk', eSP, hsp⟩ := hsp
    subst eSP
    obtain ⟨x, et', hx⟩ := descend_cons_shape _ _ _ _ _ _ hd
    have hlist : P ++ [k'] ++ SP' = P ++ k' :: SP' := by simp
    rcases hsp with ⟨sub, e1, hsub⟩ | ⟨tsI, l, asp, e1, hsub⟩
    · have hl : clookup k.key t.items = some (.table sub) := by
        rw [e1]; exact clookup_mid _ _ _ _ _ e2 e3
      rw [hl] at hx
      simp only [Option.getD_some] at hx
      rcases hx with ⟨sub0, sub', e5, hd', e6⟩ | ⟨_, _, _, _, e5, _⟩
      · injection e5 with e5
        subst e5; subst e6
        have hsd : sub.dotted = false := spineA_dotted hsub
        rw [e1] at hg
        obtain ⟨g1, g2, g3⟩ := (gk_mid_table inp A B k' sub).1 hg
        have g2' : gkItems inp sub.items := by
          rcases g2 with g2 | g2
          · rw [hsd] at g2; cases g2
          · exact g2.2
        obtain ⟨⟨l1, l2, i1, i2⟩, i3, i4⟩ := ih _ _ (P ++ [k']) SP' hsub g2' hd'
        have hs := descend_setItems _ (finFn_setItems a key cur) ks _ _ _ hd'
        have hsd' : sub'.dotted = false := by rw [hs]; simpa using hsd
        rw [e1, cset_mid _ _ _ _ _ _ e2 e3] at et'
        subst et'
        refine ⟨⟨nsItems f inp A P ++ hdN f inp sub (P ++ [k']) false ++ l1, l2 ++ nsItems f inp B P, ?_, ?_⟩, ?_, ?_⟩
        · rw [e1, nsItems_append]
          simp only [nsItems]
          rw [nsTbl_eq, i1]
          simp only [List.append_assoc]
        · rw [setItems_items, nsItems_append]
          simp only [nsItems]
          rw [nsTbl_setItems f inp _ _ _ _ hs i3, i2, hlist]
          simp only [List.append_assoc]
        · rw [setItems_items, e1, valuesTbl_mid_table _ _ _ _ hsd', valuesTbl_mid_table _ _ _ _ hsd]
        · rw [setItems_items]
          exact (gk_mid_table inp A B k' sub').2 ⟨g1, Or.inr ⟨hk', i4⟩, g3⟩
      · cases e5
    · have hl : clookup k.key t.items = some (.aot (tsI ++ [l]) asp) := by
        rw [e1]; exact clookup_mid _ _ _ _ _ e2 e3
      rw [hl] at hx
      simp only [Option.getD_some] at hx
      rcases hx with ⟨_, _, e5, _, _⟩ | ⟨tsI0, l0, l', asp', e5, hd', e6⟩
      · cases e5
      · injection e5 with e5 e5'
        obtain ⟨e7, e8⟩ := snoc_inj e5
        subst e7; subst e8; subst e5'; subst e6
        rw [e1] at hg
        obtain ⟨g1, ⟨_, g2⟩, g3⟩ := (gk_mid_aot inp A B k' _ asp).1 hg
        obtain ⟨g2a, g2b⟩ := (gkAot_snoc inp tsI l).1 g2
        obtain ⟨⟨l1, l2, i1, i2⟩, i3, i4⟩ := ih _ _ (P ++ [k']) SP' hsub g2b hd'
        have hs := descend_setItems _ (finFn_setItems a key cur) ks _ _ _ hd'
        rw [e1, cset_mid _ _ _ _ _ _ e2 e3] at et'
        subst et'
        refine ⟨⟨nsItems f inp A P ++ nsAot f inp tsI (P ++ [k']) ++ hdN f inp l (P ++ [k']) true ++ l1,
          l2 ++ nsItems f inp B P, ?_, ?_⟩, ?_, ?_⟩
        · rw [e1, nsItems_append]
          simp only [nsItems]
          rw [nsAot_append]
          simp only [nsAot, List.append_nil]
          rw [nsTbl_eq, i1]
          simp only [List.append_assoc]
        · rw [setItems_items, nsItems_append]
          simp only [nsItems]
          rw [nsAot_append]
          simp only [nsAot, List.append_nil]
          rw [nsTbl_setItems f inp _ _ _ _ hs i3, i2, hlist]
          simp only [List.append_assoc]
        · rw [setItems_items, e1, valuesTbl_mid_aot, valuesTbl_mid_aot]
        · rw [setItems_items]
          exact (gk_mid_aot inp A B k' _ asp).2 ⟨g1, ⟨hk', (gkAot_snoc inp tsI l').2 ⟨g2a, i4⟩⟩, g3⟩

end TomlVerif.Lemmas.Tiling03More.Tko
