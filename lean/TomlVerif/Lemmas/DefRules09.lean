import TomlVerif.Spec.DefRules
/-! Helper lemmas for C09Equiv: the simulation between the table-building state machine
    (`Model/State.lean`) and the flat-map definition rules (`Spec/DefRules.lean`). -/
namespace TomlVerif.Lemmas.DefRules09
open TomlVerif TomlVerif.Model TomlVerif.Model.State TomlVerif.Lemmas.State09 TomlVerif.Spec.DefRules

/-! ## the flat map seen as a function -/

theorem kget_kset {β : Type} (m : List (EPath × β)) (p q : EPath) (k : β) :
    kget (kset m p k) q = if p = q then some k else kget m q := rfl

theorem kget_kset_same {β : Type} (m : List (EPath × β)) (p : EPath) (k : β) : kget (kset m p k) p = some k := by
  simp [kget_kset]

theorem kget_kset_ne {β : Type} (m : List (EPath × β)) (p q : EPath) (k : β) (h : p ≠ q) :
    kget (kset m p k) q = kget m q := by
  simp [kget_kset, h]

theorem cget_kset_same (C : CMap) (p : EPath) (n : Nat) : cget (kset C p n) p = n := by
  simp [cget, kget_kset]

theorem cget_kset_ne (C : CMap) (p q : EPath) (n : Nat) (h : p ≠ q) : cget (kset C p n) q = cget C q := by
  simp [cget, kget_kset, h]

/-- what the tree can tell about an entry: value / table with its two flags / array with its length -/
inductive TKind where
  | value
  | tbl (implicit dotted : Bool)
  | aot (n : Nat)
  deriving DecidableEq

def Kind.toT (n : Nat) : Kind → TKind
  | .value => .value
  | .explicit => .tbl false false
  | .implicit => .tbl true false
  | .dotted _ => .tbl true true
  | .aot => .aot n

/-- the flat map with section ids erased and counts attached -/
def flat (K : KMap) (C : CMap) (p : EPath) : Option TKind := (kget K p).map (Kind.toT (cget C p))

theorem flat_none (K : KMap) (C : CMap) (p : EPath) : flat K C p = none ↔ kget K p = none := by
  simp [flat]

theorem flat_value (K : KMap) (C : CMap) (p : EPath) : flat K C p = some .value ↔ kget K p = some .value := by
  unfold flat
  cases kget K p with
  | none => simp
  | some k => cases k <;> simp [Kind.toT]

theorem flat_aot (K : KMap) (C : CMap) (p : EPath) (n : Nat) :
    flat K C p = some (.aot n) ↔ kget K p = some .aot ∧ cget C p = n := by
  unfold flat
  cases kget K p with
  | none => simp
  | some k => cases k <;> simp [Kind.toT]

theorem flat_tbl (K : KMap) (C : CMap) (p : EPath) (i d : Bool) :
    flat K C p = some (.tbl i d) ↔
      (kget K p = some .explicit ∧ i = false ∧ d = false) ∨ (kget K p = some .implicit ∧ i = true ∧ d = false) ∨
      (∃ s, kget K p = some (.dotted s) ∧ i = true ∧ d = true) := by
  unfold flat
  cases kget K p with
  | none => simp
  | some k => cases k <;> cases i <;> cases d <;> simp [Kind.toT]

/-! ## the tree seen through effective paths -/

def itemKind : Item → TKind
  | .value _ => .value
  | .table t => .tbl t.implicit t.dotted
  | .aot ts => .aot ts.length

/-- one component down: a key of a table, or an element of an array of tables -/
def stepE : Item → Comp → Option Item
  | .table t, .name k => alookup k t.items
  | .aot ts, .elem i => ts[i]?.map .table
  | _, _ => none

def walkE : Item → EPath → Option Item
  | it, [] => some it
  | it, c :: r => match stepE it c with
    | some it' => walkE it' r
    | none => none

def kindI (it : Item) (r : EPath) : Option TKind := (walkE it r).map itemKind

theorem kindI_cons_some (it it' : Item) (c : Comp) (r : EPath) (h : stepE it c = some it') :
    kindI it (c :: r) = kindI it' r := by
  simp [kindI, walkE, h]

theorem kindI_cons_none (it : Item) (c : Comp) (r : EPath) (h : stepE it c = none) :
    kindI it (c :: r) = none := by
  simp [kindI, walkE, h]

theorem kindI_single (it : Item) (c : Comp) : kindI it [c] = (stepE it c).map itemKind := by
  unfold kindI walkE
  cases stepE it c <;> simp [walkE]

/-- `κ` restricted to the paths strictly below `b` (and outside `X`) is what the item `it` holds -/
def SubX (X : EPath → Prop) (κ : EPath → Option TKind) (it : Item) (b : EPath) : Prop :=
  ∀ r, r ≠ [] → ¬ X (b ++ r) → κ (b ++ r) = kindI it r

def NoX : EPath → Prop := fun _ => False

theorem subX_child {X : EPath → Prop} {κ : EPath → Option TKind} {it it' : Item} {b : EPath} {c : Comp}
    (h : SubX X κ it b) (hs : stepE it c = some it') : SubX X κ it' (b ++ [c]) := by
  intro r hr hx
  have e : b ++ [c] ++ r = b ++ (c :: r) := by simp
  rw [e] at hx ⊢
  rw [h (c :: r) (by simp) hx, kindI_cons_some it it' c r hs]

theorem subX_here {X : EPath → Prop} {κ : EPath → Option TKind} {it : Item} {b : EPath} (c : Comp)
    (h : SubX X κ it b) (hx : ¬ X (b ++ [c])) : κ (b ++ [c]) = (stepE it c).map itemKind := by
  rw [h [c] (by simp) hx, kindI_single]

theorem subX_none {X : EPath → Prop} {κ : EPath → Option TKind} {it : Item} {b : EPath} {c : Comp} (r : EPath)
    (h : SubX X κ it b) (hs : stepE it c = none) (hx : ¬ X (b ++ c :: r)) : κ (b ++ c :: r) = none := by
  rw [h (c :: r) (by simp) hx, kindI_cons_none it c r hs]

/-- rebuild: `it'` is `it` with the child under `c0` replaced by `ch'` -/
theorem subX_rebuild {X : EPath → Prop} {κ : EPath → Option TKind} {it it' ch' : Item} {b : EPath} {c0 : Comp}
    (hstep : ∀ c, c ≠ c0 → stepE it' c = stepE it c)
    (hc0 : stepE it' c0 = some ch')
    (hsib : ∀ c r, c ≠ c0 → ¬ X (b ++ c :: r) → κ (b ++ c :: r) = kindI it (c :: r))
    (hk : ¬ X (b ++ [c0]) → κ (b ++ [c0]) = some (itemKind ch'))
    (hch : SubX X κ ch' (b ++ [c0])) : SubX X κ it' b := by
  intro r hr hx
  cases r with
  | nil => exact absurd rfl hr
  | cons c r' =>
    by_cases hc : c = c0
    · subst hc
      cases r' with
      | nil => rw [hk hx, kindI_single, hc0]; rfl
      | cons c1 r'' =>
        have e : b ++ c :: c1 :: r'' = b ++ [c] ++ (c1 :: r'') := by simp
        rw [kindI_cons_some it' ch' c _ hc0, e]
        rw [e] at hx
        exact hch (c1 :: r'') (by simp) hx
    · rw [hsib c r' hc hx]
      unfold kindI walkE
      rw [hstep c hc]

theorem subX_weaken {X X' : EPath → Prop} {κ : EPath → Option TKind} {it : Item} {b : EPath}
    (h : SubX X κ it b) (hxx : ∀ q, X q → X' q) : SubX X' κ it b :=
  fun r hr hx => h r hr (fun hq => hx (hxx _ hq))

theorem subX_congr {X : EPath → Prop} {κ κ' : EPath → Option TKind} {it : Item} {b : EPath}
    (h : SubX X κ it b) (hk : ∀ r, r ≠ [] → ¬ X (b ++ r) → κ' (b ++ r) = κ (b ++ r)) : SubX X κ' it b :=
  fun r hr hx => by rw [hk r hr hx]; exact h r hr hx

/-- the effective path that `descend … false` follows along existing tables (last elements of
    arrays of tables), with the table reached -/
def effPath : Tbl → List Bytes → Option (EPath × Tbl)
  | t, [] => some ([], t)
  | t, k :: ks => match alookup k t.items with
    | some (.table sub) => (effPath sub ks).map fun p => (.name k :: p.1, p.2)
    | some (.aot ts) => match ts.getLast? with
      | some l => (effPath l ks).map fun p => (.name k :: .elem (ts.length - 1) :: p.1, p.2)
      | none => none
    | _ => none

theorem effPath_cons_table (t sub : Tbl) (k : Bytes) (ks : List Bytes) (h : alookup k t.items = some (.table sub)) :
    effPath t (k :: ks) = (effPath sub ks).map fun p => (.name k :: p.1, p.2) := by
  simp [effPath, h]

theorem effPath_cons_aot (t l : Tbl) (init : List Tbl) (k : Bytes) (ks : List Bytes)
    (h : alookup k t.items = some (.aot (init ++ [l]))) :
    effPath t (k :: ks) = (effPath l ks).map fun p => (.name k :: .elem init.length :: p.1, p.2) := by
  simp [effPath, h]

/-- inversion of `effPath` at a cons -/
theorem effPath_cons_some (t u : Tbl) (k : Bytes) (ks : List Bytes) (er : EPath) (h : effPath t (k :: ks) = some (er, u)) :
    (∃ sub er', alookup k t.items = some (.table sub) ∧ effPath sub ks = some (er', u) ∧ er = .name k :: er') ∨
    (∃ init l er', alookup k t.items = some (.aot (init ++ [l])) ∧ effPath l ks = some (er', u) ∧
      er = .name k :: .elem init.length :: er') := by
  unfold effPath at h
  split at h
  · rename_i sub ha
    left
    cases he : effPath sub ks with
    | none => simp [he] at h
    | some p =>
      obtain ⟨er', u'⟩ := p
      simp [he] at h
      exact ⟨sub, er', ha, by rw [← h.2]; exact he, h.1.symm⟩
  · rename_i ts ha
    right
    split at h
    · rename_i l hl
      obtain ⟨init, hi⟩ := List.getLast?_eq_some_iff.1 hl
      subst hi
      cases he : effPath l ks with
      | none => simp [he] at h
      | some p =>
        obtain ⟨er', u'⟩ := p
        simp [he] at h
        exact ⟨init, l, er', ha, by rw [← h.2]; exact he, h.1.symm⟩
    · simp at h
  · simp at h

theorem stepE_table_name (t : Tbl) (k : Bytes) : stepE (.table t) (.name k) = alookup k t.items := rfl
theorem stepE_table_elem (t : Tbl) (i : Nat) : stepE (.table t) (.elem i) = none := rfl
theorem stepE_aot_elem (ts : List Tbl) (i : Nat) : stepE (.aot ts) (.elem i) = ts[i]?.map .table := rfl
theorem stepE_aot_name (ts : List Tbl) (k : Bytes) : stepE (.aot ts) (.name k) = none := rfl
theorem stepE_value (v : Val) (c : Comp) : stepE (.value v) c = none := by cases c <;> rfl

theorem stepE_aot_last (init : List Tbl) (l : Tbl) : stepE (.aot (init ++ [l])) (.elem init.length) = some (.table l) := by
  simp [stepE]

theorem effPath_sub {X : EPath → Prop} {κ : EPath → Option TKind} (pp : List Bytes) (t u : Tbl) (b er : EPath)
    (h : SubX X κ (.table t) b) (he : effPath t pp = some (er, u)) : SubX X κ (.table u) (b ++ er) := by
  induction pp generalizing t b er with
  | nil => simp [effPath] at he; obtain ⟨h1, h2⟩ := he; subst h1; subst h2; simpa using h
  | cons k ks ih =>
    rcases effPath_cons_some t u k ks er he with ⟨sub, er', ha, hs, e⟩ | ⟨init, l, er', ha, hs, e⟩
    · subst e
      have := ih sub (b ++ [.name k]) er' (subX_child h (by rw [stepE_table_name]; exact ha)) hs
      simpa using this
    · subst e
      have h1 : SubX X κ (.aot (init ++ [l])) (b ++ [.name k]) := subX_child h (by rw [stepE_table_name]; exact ha)
      have h2 : SubX X κ (.table l) (b ++ [.name k] ++ [.elem init.length]) := subX_child h1 (stepE_aot_last init l)
      have := ih l _ er' h2 hs
      simpa using this


/-! ## `descend` along an existing path, seen through effective paths -/

theorem app_cons (b : EPath) (c : Comp) (r : EPath) : b ++ [c] ++ r = b ++ c :: r := by simp

theorem descend_flags (t t' : Tbl) (k : Bytes) (ks : List Bytes) (d : Bool) (f : Tbl → Option Tbl)
    (h : descend t (k :: ks) d f = some t') : t'.implicit = t.implicit ∧ t'.dotted = t.dotted := by
  rcases descend_cons_some t t' k ks d f h with ⟨_, _, _, _, _, ht⟩ | ⟨_, _, _, _, _, _, ht⟩ <;> subst ht <;> exact ⟨rfl, rfl⟩

theorem effPath_cons_ne_nil (t u : Tbl) (k : Bytes) (ks : List Bytes) (er : EPath) (h : effPath t (k :: ks) = some (er, u)) :
    er ≠ [] := by
  rcases effPath_cons_some t u k ks er h with ⟨_, _, _, _, e⟩ | ⟨_, _, _, _, _, e⟩ <;> subst e <;> simp

theorem stepE_aset_other (t : Tbl) (k : Bytes) (item : Item) (c : Comp) (hc : c ≠ .name k) :
    stepE (.table (t.setItems (aset k item t.items))) c = stepE (.table t) c := by
  cases c with
  | elem i => rfl
  | name k' =>
    have : k' ≠ k := fun e => hc (by rw [e])
    simp [stepE, alookup_aset_other _ _ _ _ this]

theorem stepE_aot_other (init : List Tbl) (l l' : Tbl) (c : Comp) (hc : c ≠ .elem init.length) :
    stepE (.aot (init ++ [l'])) c = stepE (.aot (init ++ [l])) c := by
  cases c with
  | name k => rfl
  | elem i =>
    have hi : i ≠ init.length := fun e => hc (by rw [e])
    simp only [stepE]
    by_cases h : i < init.length
    · rw [List.getElem?_append_left h, List.getElem?_append_left h]
    · have h' : init.length ≤ i := Nat.le_of_not_lt h
      rw [List.getElem?_append_right h', List.getElem?_append_right h']
      have : i - init.length ≠ 0 := by omega
      cases hj : i - init.length with
      | zero => exact absurd hj this
      | succ j => simp

/-- `descend … false f` along a path all of whose tables exist: `f` is applied to the table at the
    effective path, and the result represents a flat map as soon as the new sub-table does -/
theorem descend_rebuild (pp : List Bytes) (t u u' : Tbl) (er : EPath) (f : Tbl → Option Tbl)
    (he : effPath t pp = some (er, u)) (hf : f u = some u') :
    ∃ t', descend t pp false f = some t' ∧ effPath t' pp = some (er, u') ∧
      ∀ (X X' : EPath → Prop) (κ : EPath → Option TKind) (b : EPath),
        SubX X κ (.table t) b → (∀ q, X q → (b ++ er) <+: q) →
        (er ≠ [] → ¬ X' (b ++ er) → κ (b ++ er) = some (.tbl u'.implicit u'.dotted)) →
        SubX X' κ (.table u') (b ++ er) → SubX X' κ (.table t') b := by
  induction pp generalizing t er with
  | nil =>
    simp [effPath] at he
    obtain ⟨h1, h2⟩ := he
    subst h1; subst h2
    refine ⟨u', by simpa [descend] using hf, rfl, ?_⟩
    intro X X' κ b _ _ _ h
    simpa using h
  | cons k ks ih =>
    rcases effPath_cons_some t u k ks er he with ⟨sub, er', ha, hs, e⟩ | ⟨init, l, er', ha, hs, e⟩
    · subst e
      obtain ⟨sub', hd, he', hr⟩ := ih sub er' hs
      refine ⟨t.setItems (aset k (.table sub') t.items), ?_, ?_, ?_⟩
      · rw [descend_cons_table t sub k ks false f (by simp [ha]) rfl, hd]; rfl
      · rw [effPath_cons_table _ sub' k ks (by simp [alookup_aset_same]), he']; rfl
      · intro X X' κ b hsub hX hk hu'
        have hxs : ∀ c r, c ≠ Comp.name k → ¬ X (b ++ c :: r) := by
          intro c r hc hq
          have := hX _ hq
          rw [List.prefix_append_right_inj, List.cons_prefix_cons] at this
          exact hc this.1.symm
        refine subX_rebuild (it := .table t) (c0 := .name k) (ch' := .table sub') ?_ ?_ ?_ ?_ ?_
        · intro c hc; exact stepE_aset_other t k _ c hc
        · simp [stepE, alookup_aset_same]
        · intro c r hc _
          exact hsub (c :: r) (by simp) (hxs c r hc)
        · intro hx
          cases ks with
          | nil =>
            simp [effPath] at hs
            obtain ⟨h1, h2⟩ := hs
            subst h1; subst h2
            simp [descend] at hd
            rw [hf] at hd; injection hd with hd; subst hd
            exact hk (by simp) hx
          | cons k2 ks' =>
            have hne := effPath_cons_ne_nil sub u k2 ks' er' hs
            obtain ⟨f1, f2⟩ := descend_flags sub sub' k2 ks' false f hd
            have hx' : ¬ X (b ++ [Comp.name k]) := by
              intro hq
              have := hX _ hq
              rw [List.prefix_append_right_inj, List.cons_prefix_cons] at this
              exact hne (List.prefix_nil.1 this.2)
            rw [subX_here (.name k) hsub hx', stepE_table_name, ha]
            simp [itemKind, f1, f2]
        · refine hr X X' κ (b ++ [.name k]) (subX_child hsub (by rw [stepE_table_name]; exact ha)) ?_ ?_ ?_
          · intro q hq; rw [app_cons]; exact hX q hq
          · intro hne; rw [app_cons]; exact hk (by simp)
          · rw [app_cons]; exact hu'
    · subst e
      obtain ⟨l', hd, he', hr⟩ := ih l er' hs
      refine ⟨t.setItems (aset k (.aot (init ++ [l'])) t.items), ?_, ?_, ?_⟩
      · rw [descend_cons_aot t l init k ks false f ha rfl, hd]; rfl
      · rw [effPath_cons_aot _ l' init k ks (by simp [alookup_aset_same]), he']; rfl
      · intro X X' κ b hsub hX hk hu'
        have hxs : ∀ c r, c ≠ Comp.name k → ¬ X (b ++ c :: r) := by
          intro c r hc hq
          have := hX _ hq
          rw [List.prefix_append_right_inj, List.cons_prefix_cons] at this
          exact hc this.1.symm
        have hsub1 : SubX X κ (.aot (init ++ [l])) (b ++ [.name k]) :=
          subX_child hsub (by rw [stepE_table_name]; exact ha)
        have hx1 : ¬ X (b ++ [Comp.name k]) := by
          intro hq
          have := hX _ hq
          rw [List.prefix_append_right_inj, List.cons_prefix_cons] at this
          have := List.prefix_nil.1 this.2
          simp at this
        refine subX_rebuild (it := .table t) (c0 := .name k) (ch' := .aot (init ++ [l'])) ?_ ?_ ?_ ?_ ?_
        · intro c hc; exact stepE_aset_other t k _ c hc
        · simp [stepE, alookup_aset_same]
        · intro c r hc _
          exact hsub (c :: r) (by simp) (hxs c r hc)
        · intro _
          rw [subX_here (.name k) hsub hx1, stepE_table_name, ha]
          simp [itemKind]
        · have hxs2 : ∀ c r, c ≠ Comp.elem init.length → ¬ X (b ++ [.name k] ++ c :: r) := by
            intro c r hc hq
            have := hX _ hq
            rw [List.append_assoc, List.prefix_append_right_inj] at this
            simp only [List.singleton_append, List.cons_prefix_cons] at this
            exact hc this.2.1.symm
          refine subX_rebuild (it := .aot (init ++ [l])) (c0 := .elem init.length) (ch' := .table l') ?_ ?_ ?_ ?_ ?_
          · intro c hc; exact stepE_aot_other init l l' c hc
          · exact stepE_aot_last init l'
          · intro c r hc _
            exact hsub1 (c :: r) (by simp) (hxs2 c r hc)
          · intro hx
            have e2 : b ++ [Comp.name k] ++ [Comp.elem init.length] = b ++ Comp.name k :: Comp.elem init.length :: [] := by simp
            cases ks with
            | nil =>
              simp [effPath] at hs
              obtain ⟨h1, h2⟩ := hs
              subst h1; subst h2
              simp [descend] at hd
              rw [hf] at hd; injection hd with hd; subst hd
              rw [e2] at hx ⊢
              exact hk (by simp) hx
            | cons k2 ks' =>
              have hne := effPath_cons_ne_nil l u k2 ks' er' hs
              obtain ⟨f1, f2⟩ := descend_flags l l' k2 ks' false f hd
              have hx' : ¬ X (b ++ [Comp.name k] ++ [Comp.elem init.length]) := by
                intro hq
                have := hX _ hq
                rw [e2, List.prefix_append_right_inj, List.cons_prefix_cons, List.cons_prefix_cons] at this
                exact hne (List.prefix_nil.1 this.2.2)
              rw [subX_here (.elem init.length) hsub1 hx', stepE_aot_last]
              simp [itemKind, f1, f2]
          · have e3 : ∀ r, b ++ [Comp.name k] ++ [Comp.elem init.length] ++ r = b ++ Comp.name k :: Comp.elem init.length :: r := by
              intro r; simp
            refine hr X X' κ (b ++ [.name k] ++ [.elem init.length]) (subX_child hsub1 (stepE_aot_last init l)) ?_ ?_ ?_
            · intro q hq; rw [e3]; exact hX q hq
            · intro hne; rw [e3]; exact hk (by simp)
            · rw [e3]; exact hu'


/-! ## the header walk of the rules against `descend … false` -/

theorem flat_congr (K K' : KMap) (C : CMap) (q : EPath) (h : kget K' q = kget K q) : flat K' C q = flat K C q := by
  simp [flat, h]

/-- every array of tables in the item is non-empty -/
def AotPos (it : Item) : Prop := ∀ r ts, walkE it r = some (.aot ts) → ts ≠ []

theorem walkE_cons_some (it it' : Item) (c : Comp) (r : EPath) (h : stepE it c = some it') :
    walkE it (c :: r) = walkE it' r := by
  simp [walkE, h]

theorem walkE_cons_none (it : Item) (c : Comp) (r : EPath) (h : stepE it c = none) : walkE it (c :: r) = none := by
  simp [walkE, h]

theorem aotPos_child {it it' : Item} {c : Comp} (h : AotPos it) (hs : stepE it c = some it') : AotPos it' :=
  fun r ts hw => h (c :: r) ts (by rw [walkE_cons_some it it' c r hs]; exact hw)

theorem aotPos_rebuild {it it' ch' : Item} {c0 : Comp} (h : AotPos it)
    (hstep : ∀ c, c ≠ c0 → stepE it' c = stepE it c) (hc0 : stepE it' c0 = some ch')
    (hself : ∀ ts, it' = .aot ts → ts ≠ []) (hch : AotPos ch') : AotPos it' := by
  intro r ts hw
  cases r with
  | nil => simp [walkE] at hw; exact hself ts hw
  | cons c r' =>
    by_cases hc : c = c0
    · subst hc
      rw [walkE_cons_some it' ch' c r' hc0] at hw
      exact hch r' ts hw
    · refine h (c :: r') ts ?_
      unfold walkE at hw ⊢
      rw [← hstep c hc]; exact hw

theorem aotPos_empty (t : Tbl) (h : t.items = []) : AotPos (.table t) := by
  intro r ts hw
  cases r with
  | nil => simp [walkE] at hw
  | cons c r' =>
    have : stepE (.table t) c = none := by cases c <;> simp [stepE, h, alookup]
    rw [walkE_cons_none _ c r' this] at hw
    cases hw

theorem kindI_empty (t : Tbl) (h : t.items = []) (r : EPath) (hr : r ≠ []) : kindI (.table t) r = none := by
  cases r with
  | nil => exact absurd rfl hr
  | cons c r' =>
    have : stepE (.table t) c = none := by cases c <;> simp [stepE, h, alookup]
    exact kindI_cons_none _ c r' this

theorem descend_some_flags (t t' : Tbl) (pp : List Bytes) (d : Bool) (h : descend t pp d some = some t') :
    t'.implicit = t.implicit ∧ t'.dotted = t.dotted := by
  cases pp with
  | nil => simp [descend] at h; subst h; exact ⟨rfl, rfl⟩
  | cons k ks => exact descend_flags t t' k ks d some h

/-- the rules' header walk only adds `implicit` entries, strictly below its starting point -/
def HFrame (b : EPath) (K K' : KMap) : Prop :=
  ∀ q, kget K' q = kget K q ∨ (kget K q = none ∧ kget K' q = some .implicit ∧ ∃ r, r ≠ [] ∧ q = b ++ r)

theorem hframe_refl (b : EPath) (K : KMap) : HFrame b K K := fun _ => Or.inl rfl

theorem hframe_down (b : EPath) (c : Comp) (K K' : KMap) (h : HFrame (b ++ [c]) K K') : HFrame b K K' := by
  intro q
  rcases h q with h1 | ⟨h1, h2, r, hr, e⟩
  · exact Or.inl h1
  · exact Or.inr ⟨h1, h2, c :: r, by simp, by rw [e, app_cons]⟩

theorem hframe_off (b : EPath) (K K' : KMap) (h : HFrame b K K') (q : EPath) (hq : ∀ r, r ≠ [] → q ≠ b ++ r) :
    kget K' q = kget K q := by
  rcases h q with h1 | ⟨_, _, r, hr, e⟩
  · exact h1
  · exact absurd e (hq r hr)

theorem ne_append_cons (b : EPath) (c : Comp) (r : EPath) : b ≠ b ++ c :: r := by
  intro h
  have := congrArg List.length h
  simp at this

theorem hwalk_cons_none (C : CMap) (K : KMap) (b : EPath) (k : Bytes) (ks : List Bytes)
    (h : kget K (b ++ [.name k]) = none) :
    hwalk C K b (k :: ks) = hwalk C (kset K (b ++ [.name k]) .implicit) (b ++ [.name k]) ks := by
  simp [hwalk, h]

theorem hwalk_cons_value (C : CMap) (K : KMap) (b : EPath) (k : Bytes) (ks : List Bytes)
    (h : kget K (b ++ [.name k]) = some .value) : hwalk C K b (k :: ks) = none := by
  simp [hwalk, h]

theorem hwalk_cons_aot (C : CMap) (K : KMap) (b : EPath) (k : Bytes) (ks : List Bytes)
    (h : kget K (b ++ [.name k]) = some .aot) :
    hwalk C K b (k :: ks) = hwalk C K (b ++ [.name k] ++ [.elem (cget C (b ++ [.name k]) - 1)]) ks := by
  simp [hwalk, h]

theorem hwalk_cons_tbl (C : CMap) (K : KMap) (b : EPath) (k : Bytes) (ks : List Bytes) (i d : Bool)
    (h : flat K C (b ++ [.name k]) = some (.tbl i d)) :
    hwalk C K b (k :: ks) = hwalk C K (b ++ [.name k]) ks := by
  rcases (flat_tbl _ _ _ _ _).1 h with ⟨h1, _⟩ | ⟨h1, _⟩ | ⟨s, h1, _⟩ <;> simp [hwalk, h1]

theorem hwalk_sim (C : CMap) (pp : List Bytes) (K : KMap) (b : EPath) (t : Tbl)
    (hs : SubX NoX (flat K C) (.table t) b) (hp : AotPos (.table t)) :
    (hwalk C K b pp = none → ∀ f, descend t pp false f = none) ∧
    (∀ K' e, hwalk C K b pp = some (K', e) → ∃ tc er, descend t pp false some = some tc ∧
        effPath tc pp = some (er, target t pp false) ∧ e = b ++ er ∧
        SubX NoX (flat K' C) (.table tc) b ∧ AotPos (.table tc) ∧ HFrame b K K') := by
  induction pp generalizing K b t with
  | nil =>
    refine ⟨by simp [hwalk], ?_⟩
    intro K' e h
    simp [hwalk] at h
    obtain ⟨h1, h2⟩ := h
    subst h1; subst h2
    exact ⟨t, [], rfl, by simp [effPath, target, lookupTbl], by simp, hs, hp, hframe_refl _ _⟩
  | cons k ks ih =>
    have hnx : ∀ q, ¬ NoX q := fun _ h => h
    have hhere := subX_here (.name k) hs (hnx _)
    rw [stepE_table_name] at hhere
    cases ha : alookup k t.items with
    | none =>
      rw [ha] at hhere
      have hkn : kget K (b ++ [.name k]) = none := (flat_none _ _ _).1 hhere
      rw [hwalk_cons_none C K b k ks hkn]
      have hent : (alookup k t.items).getD (.table (newImplicit false)) = .table (newImplicit false) := by simp [ha]
      have hs1 : SubX NoX (flat (kset K (b ++ [.name k]) .implicit) C) (.table (newImplicit false)) (b ++ [.name k]) := by
        intro r hr _
        rw [kindI_empty _ rfl r hr]
        cases r with
        | nil => exact absurd rfl hr
        | cons c r' =>
          have hne : b ++ [Comp.name k] ≠ b ++ [Comp.name k] ++ c :: r' := ne_append_cons _ _ _
          rw [flat_congr K _ C _ (kget_kset_ne _ _ _ _ hne), app_cons]
          exact subX_none (c :: r') hs (by rw [stepE_table_name]; exact ha) (hnx _)
      obtain ⟨ih1, ih2⟩ := ih (kset K (b ++ [.name k]) .implicit) (b ++ [.name k]) (newImplicit false) hs1 (aotPos_empty _ rfl)
      refine ⟨?_, ?_⟩
      · intro h f
        rw [descend_cons_table t _ k ks false f hent rfl, ih1 h f]; rfl
      · intro K' e h
        obtain ⟨tcs, er', hd, hep, he, hsub', hpos', hfr⟩ := ih2 K' e h
        refine ⟨t.setItems (aset k (.table tcs) t.items), .name k :: er', ?_, ?_, ?_, ?_, ?_, ?_⟩
        · rw [descend_cons_table t _ k ks false some hent rfl, hd]; rfl
        · rw [effPath_cons_table _ tcs k ks (by simp [alookup_aset_same]), hep, target_cons_table t _ k ks false hent]; rfl
        · rw [he, app_cons]
        · have hfl := descend_some_flags _ _ _ _ hd
          refine subX_rebuild (it := .table t) (c0 := .name k) (ch' := .table tcs) ?_ ?_ ?_ ?_ hsub'
          · intro c hc; exact stepE_aset_other t k _ c hc
          · simp [stepE, alookup_aset_same]
          · intro c r hc _
            have e1 : kget K' (b ++ c :: r) = kget (kset K (b ++ [.name k]) .implicit) (b ++ c :: r) := by
              refine hframe_off _ _ _ hfr _ ?_
              intro r' _ e
              rw [app_cons, List.append_right_inj] at e
              injection e with e1 _
              exact hc e1
            have e2 : kget (kset K (b ++ [.name k]) .implicit) (b ++ c :: r) = kget K (b ++ c :: r) := by
              refine kget_kset_ne _ _ _ _ ?_
              intro e
              rw [List.append_right_inj] at e
              injection e with e1 _
              exact hc e1.symm
            rw [flat_congr K _ C _ (e1.trans e2)]
            exact hs (c :: r) (by simp) (hnx _)
          · intro _
            have e1 : kget K' (b ++ [.name k]) = kget (kset K (b ++ [.name k]) .implicit) (b ++ [.name k]) := by
              refine hframe_off _ _ _ hfr _ ?_
              intro r' hr' e
              cases r' with
              | nil => exact hr' rfl
              | cons c r'' => exact ne_append_cons _ _ _ e
            simp only [flat, e1, kget_kset_same, Option.map_some, Kind.toT, itemKind, hfl.1, hfl.2]
            rfl
        · refine aotPos_rebuild (it := .table t) (c0 := .name k) (ch' := .table tcs) hp ?_ ?_ ?_ hpos'
          · intro c hc; exact stepE_aset_other t k _ c hc
          · simp [stepE, alookup_aset_same]
          · intro ts e; cases e
        · intro q
          rcases hfr q with h1 | ⟨h1, h2, r, hr, e⟩
          · by_cases hq : b ++ [.name k] = q
            · subst hq
              right
              rw [kget_kset_same] at h1
              exact ⟨hkn, h1, [.name k], by simp, rfl⟩
            · left; rw [h1, kget_kset_ne _ _ _ _ hq]
          · right
            have hq : b ++ [.name k] ≠ q := by
              rw [e]
              cases r with
              | nil => exact absurd rfl hr
              | cons c r' => exact ne_append_cons _ _ _
            rw [kget_kset_ne _ _ _ _ hq] at h1
            exact ⟨h1, h2, .name k :: r, by simp, by rw [e, app_cons]⟩
    | some it =>
      rw [ha] at hhere
      cases it with
      | value v =>
        have hkv : kget K (b ++ [.name k]) = some .value := (flat_value _ _ _).1 hhere
        rw [hwalk_cons_value C K b k ks hkv]
        exact ⟨fun _ f => descend_cons_value t v k ks false f ha, by simp⟩
      | table sub =>
        simp only [Option.map_some, itemKind] at hhere
        rw [hwalk_cons_tbl C K b k ks _ _ hhere]
        have hent : (alookup k t.items).getD (.table (newImplicit false)) = .table sub := by simp [ha]
        have hst : stepE (.table t) (.name k) = some (.table sub) := by rw [stepE_table_name]; exact ha
        obtain ⟨ih1, ih2⟩ := ih K (b ++ [.name k]) sub (subX_child hs hst) (aotPos_child hp hst)
        refine ⟨?_, ?_⟩
        · intro h f
          rw [descend_cons_table t _ k ks false f hent rfl, ih1 h f]; rfl
        · intro K' e h
          obtain ⟨tcs, er', hd, hep, he, hsub', hpos', hfr⟩ := ih2 K' e h
          refine ⟨t.setItems (aset k (.table tcs) t.items), .name k :: er', ?_, ?_, ?_, ?_, ?_, hframe_down _ _ _ _ hfr⟩
          · rw [descend_cons_table t _ k ks false some hent rfl, hd]; rfl
          · rw [effPath_cons_table _ tcs k ks (by simp [alookup_aset_same]), hep, target_cons_table t _ k ks false hent]; rfl
          · rw [he, app_cons]
          · have hfl := descend_some_flags _ _ _ _ hd
            refine subX_rebuild (it := .table t) (c0 := .name k) (ch' := .table tcs) ?_ ?_ ?_ ?_ hsub'
            · intro c hc; exact stepE_aset_other t k _ c hc
            · simp [stepE, alookup_aset_same]
            · intro c r hc _
              have e1 : kget K' (b ++ c :: r) = kget K (b ++ c :: r) := by
                refine hframe_off _ _ _ hfr _ ?_
                intro r' _ e
                rw [app_cons, List.append_right_inj] at e
                injection e with e1 _
                exact hc e1
              rw [flat_congr K _ C _ e1]
              exact hs (c :: r) (by simp) (hnx _)
            · intro _
              have e1 : kget K' (b ++ [.name k]) = kget K (b ++ [.name k]) := by
                refine hframe_off _ _ _ hfr _ ?_
                intro r' hr' e
                cases r' with
                | nil => exact hr' rfl
                | cons c r'' => exact ne_append_cons _ _ _ e
              rw [flat_congr K _ C _ e1, hhere]
              simp [itemKind, hfl.1, hfl.2]
          · refine aotPos_rebuild (it := .table t) (c0 := .name k) (ch' := .table tcs) hp ?_ ?_ ?_ hpos'
            · intro c hc; exact stepE_aset_other t k _ c hc
            · simp [stepE, alookup_aset_same]
            · intro ts e; cases e
      | aot ts =>
        simp only [Option.map_some, itemKind] at hhere
        obtain ⟨hka, hcn⟩ := (flat_aot _ _ _ _).1 hhere
        have hst : stepE (.table t) (.name k) = some (.aot ts) := by rw [stepE_table_name]; exact ha
        have hne : ts ≠ [] := hp [.name k] ts (by rw [walkE_cons_some _ _ _ _ hst]; rfl)
        rcases List.eq_nil_or_concat ts with hn | ⟨init, l, hc⟩
        · exact absurd hn hne
        · rw [List.concat_eq_append] at hc
          subst hc
          rw [hwalk_cons_aot C K b k ks hka, hcn]
          have hlen : (init ++ [l]).length - 1 = init.length := by simp
          rw [hlen]
          have hs1 := subX_child hs hst
          have hs2 := subX_child hs1 (stepE_aot_last init l)
          have hp2 := aotPos_child (aotPos_child hp hst) (stepE_aot_last init l)
          obtain ⟨ih1, ih2⟩ := ih K (b ++ [.name k] ++ [.elem init.length]) l hs2 hp2
          refine ⟨?_, ?_⟩
          · intro h f
            rw [descend_cons_aot t l init k ks false f ha rfl, ih1 h f]; rfl
          · intro K' e h
            obtain ⟨tcs, er', hd, hep, he, hsub', hpos', hfr⟩ := ih2 K' e h
            have hfr1 := hframe_down _ _ _ _ hfr
            refine ⟨t.setItems (aset k (.aot (init ++ [tcs])) t.items), .name k :: .elem init.length :: er', ?_, ?_, ?_, ?_, ?_,
              hframe_down _ _ _ _ hfr1⟩
            · rw [descend_cons_aot t l init k ks false some ha rfl, hd]; rfl
            · rw [effPath_cons_aot _ tcs init k ks (by simp [alookup_aset_same]), hep, target_cons_aot t l init k ks false ha]; rfl
            · rw [he]; simp
            · have hfl := descend_some_flags _ _ _ _ hd
              refine subX_rebuild (it := .table t) (c0 := .name k) (ch' := .aot (init ++ [tcs])) ?_ ?_ ?_ ?_ ?_
              · intro c hc; exact stepE_aset_other t k _ c hc
              · simp [stepE, alookup_aset_same]
              · intro c r hc _
                have e1 : kget K' (b ++ c :: r) = kget K (b ++ c :: r) := by
                  refine hframe_off _ _ _ hfr1 _ ?_
                  intro r' _ e
                  rw [app_cons, List.append_right_inj] at e
                  injection e with e1 _
                  exact hc e1
                rw [flat_congr K _ C _ e1]
                exact hs (c :: r) (by simp) (hnx _)
              · intro _
                have e1 : kget K' (b ++ [.name k]) = kget K (b ++ [.name k]) := by
                  refine hframe_off _ _ _ hfr1 _ ?_
                  intro r' hr' e
                  cases r' with
                  | nil => exact hr' rfl
                  | cons c r'' => exact ne_append_cons _ _ _ e
                rw [flat_congr K _ C _ e1, hhere]
                simp [itemKind]
              · refine subX_rebuild (it := .aot (init ++ [l])) (c0 := .elem init.length) (ch' := .table tcs) ?_ ?_ ?_ ?_ hsub'
                · intro c hc; exact stepE_aot_other init l tcs c hc
                · exact stepE_aot_last init tcs
                · intro c r hc _
                  have e1 : kget K' (b ++ [.name k] ++ c :: r) = kget K (b ++ [.name k] ++ c :: r) := by
                    refine hframe_off _ _ _ hfr _ ?_
                    intro r' _ e
                    rw [app_cons (b ++ [Comp.name k]) (Comp.elem init.length) r', List.append_right_inj] at e
                    injection e with e1 _
                    exact hc e1
                  rw [flat_congr K _ C _ e1]
                  exact hs1 (c :: r) (by simp) (hnx _)
                · intro _
                  have e1 : kget K' (b ++ [.name k] ++ [.elem init.length]) = kget K (b ++ [.name k] ++ [.elem init.length]) := by
                    refine hframe_off _ _ _ hfr _ ?_
                    intro r' hr' e
                    cases r' with
                    | nil => exact hr' rfl
                    | cons c r'' => exact ne_append_cons _ _ _ e
                  rw [flat_congr K _ C _ e1, subX_here (.elem init.length) hs1 (hnx _), stepE_aot_last]
                  simp [itemKind, hfl.1, hfl.2]
            · refine aotPos_rebuild (it := .table t) (c0 := .name k) (ch' := .aot (init ++ [tcs])) hp ?_ ?_ ?_ ?_
              · intro c hc; exact stepE_aset_other t k _ c hc
              · simp [stepE, alookup_aset_same]
              · intro ts e; cases e
              · refine aotPos_rebuild (it := .aot (init ++ [l])) (c0 := .elem init.length) (ch' := .table tcs)
                  (aotPos_child hp hst) ?_ ?_ ?_ hpos'
                · intro c hc; exact stepE_aot_other init l tcs c hc
                · exact stepE_aot_last init tcs
                · intro ts e; injection e with e; rw [← e]; simp


/-! ## more about effective paths -/

theorem effPath_walk (pp : List Bytes) (t u : Tbl) (er : EPath) (he : effPath t pp = some (er, u)) :
    walkE (.table t) er = some (.table u) := by
  induction pp generalizing t er with
  | nil => simp [effPath] at he; obtain ⟨h1, h2⟩ := he; subst h1; subst h2; rfl
  | cons k ks ih =>
    rcases effPath_cons_some t u k ks er he with ⟨sub, er', ha, hs, e⟩ | ⟨init, l, er', ha, hs, e⟩
    · subst e
      rw [walkE_cons_some _ (.table sub) _ _ (by rw [stepE_table_name]; exact ha)]
      exact ih sub er' hs
    · subst e
      rw [walkE_cons_some _ (.aot (init ++ [l])) _ _ (by rw [stepE_table_name]; exact ha),
        walkE_cons_some _ (.table l) _ _ (stepE_aot_last init l)]
      exact ih l er' hs

theorem effPath_kind {X : EPath → Prop} {κ : EPath → Option TKind} (pp : List Bytes) (t u : Tbl) (er : EPath)
    (h : SubX X κ (.table t) []) (he : effPath t pp = some (er, u)) (hne : er ≠ []) (hx : ¬ X er) :
    κ er = some (.tbl u.implicit u.dotted) := by
  have := h er hne (by simpa using hx)
  simp only [List.nil_append] at this
  rw [this, kindI, effPath_walk pp t u er he]
  rfl

theorem kindI_table_congr (t t' : Tbl) (h : t'.items = t.items) (r : EPath) (hr : r ≠ []) :
    kindI (.table t') r = kindI (.table t) r := by
  cases r with
  | nil => exact absurd rfl hr
  | cons c r' =>
    have : stepE (.table t') c = stepE (.table t) c := by cases c <;> simp [stepE, h]
    unfold kindI walkE
    rw [this]

theorem subX_table_congr {X : EPath → Prop} {κ : EPath → Option TKind} {t t' : Tbl} {b : EPath}
    (h : SubX X κ (.table t) b) (hi : t'.items = t.items) : SubX X κ (.table t') b :=
  fun r hr hx => by rw [h r hr hx, kindI_table_congr t t' hi r hr]

/-- taking an entry out of a table whose sub-tree is excluded anyway -/
theorem subX_erase {X : EPath → Prop} {κ : EPath → Option TKind} {u : Tbl} {b : EPath} (key : Bytes)
    (h : SubX X κ (.table u) b) (hx : ∀ r, X (b ++ .name key :: r)) :
    SubX X κ (.table (u.setItems (aerase key u.items))) b := by
  intro r hr hnx
  cases r with
  | nil => exact absurd rfl hr
  | cons c r' =>
    by_cases hc : c = .name key
    · subst hc; exact absurd (hx r') hnx
    · rw [h (c :: r') hr hnx]
      have : stepE (.table (u.setItems (aerase key u.items))) c = stepE (.table u) c := by
        cases c with
        | elem i => rfl
        | name k' =>
          have : k' ≠ key := fun e => hc (by rw [e])
          simp [stepE, alookup_aerase_other _ _ _ this]
      unfold kindI walkE
      rw [this]

theorem stepE_aot_append_other (ts : List Tbl) (l : Tbl) (c : Comp) (hc : c ≠ .elem ts.length) :
    stepE (.aot (ts ++ [l])) c = stepE (.aot ts) c := by
  cases c with
  | name k => rfl
  | elem i =>
    have hi : i ≠ ts.length := fun e => hc (by rw [e])
    simp only [stepE]
    by_cases h : i < ts.length
    · rw [List.getElem?_append_left h]
    · have h' : ts.length ≤ i := Nat.le_of_not_lt h
      rw [List.getElem?_append_right h', List.getElem?_eq_none h']
      have : i - ts.length ≠ 0 := by omega
      cases hj : i - ts.length with
      | zero => exact absurd hj this
      | succ j => simp

theorem stepE_append_other (u : Tbl) (key : Bytes) (item : Item) (c : Comp) (hc : c ≠ .name key) :
    stepE (.table (u.setItems (u.items ++ [(key, item)]))) c = stepE (.table u) c := by
  cases c with
  | elem i => rfl
  | name k' =>
    have : k' ≠ key := fun e => hc (by rw [e])
    simp [stepE, alookup_append_other _ _ _ _ this]

/-! ## the simulation relation -/

/-- elements of arrays of tables are explicit tables -/
def ElemExp (K : KMap) : Prop := ∀ p i k, kget K (p ++ [.elem i]) = some k → k = .explicit

theorem elemExp_kset_name {K : KMap} (h : ElemExp K) (x : EPath) (n : Bytes) (k : Kind) :
    ElemExp (kset K (x ++ [.name n]) k) := by
  intro p i k' hk
  rw [kget_kset_ne] at hk
  · exact h p i k' hk
  · intro e
    have := List.append_inj' e rfl
    simp at this

theorem elemExp_kset_explicit {K : KMap} (h : ElemExp K) (x : EPath) : ElemExp (kset K x .explicit) := by
  intro p i k' hk
  rw [kget_kset] at hk
  split at hk
  · injection hk with hk; exact hk.symm
  · exact h p i k' hk

theorem hwalk_elemExp (C : CMap) (pp : List Bytes) (K : KMap) (b : EPath) (K' : KMap) (e : EPath)
    (h : ElemExp K) (hw : hwalk C K b pp = some (K', e)) : ElemExp K' := by
  induction pp generalizing K b with
  | nil => simp [hwalk] at hw; rw [← hw.1]; exact h
  | cons n r ih =>
    simp only [hwalk] at hw
    split at hw
    · exact ih _ _ (elemExp_kset_name h _ _ _) hw
    · cases hw
    · exact ih _ _ h hw
    · exact ih _ _ h hw



/-- dotted tables are children of the root, of explicitly defined tables, or of dotted tables of the same section -/
def Par (K : KMap) : Prop :=
  ∀ p c s, kget K (p ++ [c]) = some (.dotted s) → p = [] ∨ kget K p = some .explicit ∨ kget K p = some (.dotted s)

theorem par_hframe {b : EPath} {K K' : KMap} (h : Par K) (hf : HFrame b K K') : Par K' := by
  intro p c s hk
  rcases hf (p ++ [c]) with h1 | ⟨_, h2, _⟩
  · rw [h1] at hk
    rcases h p c s hk with h0 | h0 | h0
    · exact Or.inl h0
    · rcases hf p with h3 | ⟨h3, _⟩
      · exact Or.inr (Or.inl (by rw [h3]; exact h0))
      · rw [h3] at h0; cases h0
    · rcases hf p with h3 | ⟨h3, _⟩
      · exact Or.inr (Or.inr (by rw [h3]; exact h0))
      · rw [h3] at h0; cases h0
  · rw [h2] at hk; cases hk

theorem par_kset_explicit {K : KMap} (h : Par K) (e : EPath) : Par (kset K e .explicit) := by
  intro p c s hk
  rw [kget_kset] at hk
  split at hk
  · cases hk
  · rcases h p c s hk with h0 | h0 | h0
    · exact Or.inl h0
    · by_cases hp : e = p
      · subst hp; exact Or.inr (Or.inl (kget_kset_same _ _ _))
      · exact Or.inr (Or.inl (by rw [kget_kset_ne _ _ _ _ hp]; exact h0))
    · by_cases hp : e = p
      · subst hp; exact Or.inr (Or.inl (kget_kset_same _ _ _))
      · exact Or.inr (Or.inr (by rw [kget_kset_ne _ _ _ _ hp]; exact h0))

theorem par_kset_absent {K : KMap} (h : Par K) (e : EPath) (k : Kind) (hn : kget K e = none) (hk : ∀ s, k ≠ .dotted s) :
    Par (kset K e k) := by
  intro p c s hd
  rw [kget_kset] at hd
  split at hd
  · injection hd with hd; exact absurd hd (hk s)
  · have hp : ∀ x, kget K p = some x → kget (kset K e k) p = some x := by
      intro x hx
      have : e ≠ p := by intro e'; subst e'; rw [hn] at hx; cases hx
      rw [kget_kset_ne _ _ _ _ this]; exact hx
    rcases h p c s hd with h0 | h0 | h0
    · exact Or.inl h0
    · exact Or.inr (Or.inl (hp _ h0))
    · exact Or.inr (Or.inr (hp _ h0))

structure DJ (K : KMap) (sect : EPath) (sid : Nat) : Prop where
  par : Par K
  cur : ∀ c s, kget K (sect ++ [c]) = some (.dotted s) → s = sid

/-- every array of tables of the rules has at least one element -/
def CPos (K : KMap) (C : CMap) : Prop := ∀ q, kget K q = some .aot → 1 ≤ cget C q

theorem aotPos_of_cpos {K : KMap} {C : CMap} {t : Tbl} (hc : CPos K C) (hs : SubX NoX (flat K C) (.table t) []) :
    AotPos (.table t) := by
  intro r ts hw
  cases r with
  | nil => simp [walkE] at hw
  | cons c r' =>
    have := hs (c :: r') (by simp) (fun h => h)
    simp only [List.nil_append, kindI, hw, Option.map_some, itemKind] at this
    obtain ⟨h1, h2⟩ := (flat_aot _ _ _ _).1 this
    have := hc _ h1
    intro e; subst e
    simp at h2; omega

inductive Shape (st : ParseState) (ds : DState) : Prop where
  | root (hp : st.currentPath = []) (hr : st.root.items = []) (hs : ds.sect = [])
  | std (pp : List Bytes) (key : Bytes) (er : EPath) (u : Tbl)
      (hp : st.currentPath = pp ++ [key]) (ha : st.currentIsArray = false)
      (he : effPath st.root pp = some (er, u)) (hv : alookup key u.items = none)
      (hs : ds.sect = er ++ [.name key]) (hk : kget ds.kinds ds.sect = some .explicit)
      (hsub : SubX (fun q => ds.sect <+: q) (flat ds.kinds ds.count) (.table st.root) [])
  | arr (pp : List Bytes) (key : Bytes) (er : EPath) (u : Tbl) (ts : List Tbl)
      (hp : st.currentPath = pp ++ [key]) (ha : st.currentIsArray = true)
      (he : effPath st.root pp = some (er, u)) (hv : alookup key u.items = some (.aot ts))
      (hs : ds.sect = er ++ [.name key, .elem ts.length]) (hk : kget ds.kinds ds.sect = some .explicit)
      (hka : kget ds.kinds (er ++ [.name key]) = some .aot) (hc : cget ds.count (er ++ [.name key]) = ts.length + 1)
      (hsub : SubX (fun q => ds.sect <+: q ∨ q = er ++ [.name key]) (flat ds.kinds ds.count) (.table st.root) [])

structure R (st : ParseState) (ds : DState) : Prop where
  inv : Inv st
  cur : SubX NoX (flat ds.kinds ds.count) (.table st.current) ds.sect
  curI : st.current.implicit = false
  curD : st.current.dotted = false
  shape : Shape st ds
  dj : DJ ds.kinds ds.sect ds.sid
  cpos : CPos ds.kinds ds.count
  elemExp : ElemExp ds.kinds

theorem R_init : R {} {} :=
  { inv := inv_init
    cur := by
      intro r hr _
      rw [kindI_empty _ rfl r hr]
      rfl
    curI := rfl
    curD := rfl
    shape := .root rfl rfl rfl
    dj := ⟨fun p c s h => by simp [kget] at h, fun c s h => by simp [kget] at h⟩
    cpos := fun q h => by simp [kget] at h
    elemExp := fun p i k h => by simp [kget] at h }

theorem flat_explicit (K : KMap) (C : CMap) (p : EPath) (h : kget K p = some .explicit) :
    flat K C p = some (.tbl false false) := by simp [flat, h, Kind.toT]

/-- closing the open section: the finalized tree is exactly the flat map -/
theorem fin_sim (st : ParseState) (ds : DState) (h : R st ds) :
    ∃ sf, finalizeTable st = some sf ∧ SubX NoX (flat ds.kinds ds.count) (.table sf.root) [] := by
  have hnx : ∀ q, ¬ NoX q := fun _ h => h
  rcases h.shape with ⟨hp, hr, hs⟩ | ⟨pp, key, er, u, hp, ha, he, hv, hs, hk, hsub⟩ |
      ⟨pp, key, er, u, ts, hp, ha, he, hv, hs, hk, hka, hc, hsub⟩
  · refine ⟨{ st with current := Tbl.empty, currentPath := [], root := st.current }, ?_, ?_⟩
    · rw [finalizeTable_eq]; simp [hp, splitLast, hr]
    · have := h.cur; rw [hs] at this; exact this
  · have hcur := h.cur
    rw [hs] at hcur hk hsub
    have hf : finF st.currentIsArray key st.current u = some (u.setItems (u.items ++ [(key, .table st.current)])) := by
      simp [finF, ha, finStdF, hv]
    obtain ⟨root', hd, _, hr⟩ := descend_rebuild pp st.root u _ er _ he hf
    refine ⟨_, by rw [finalizeTable_of_path st pp key hp, hd]; rfl, ?_⟩
    have hsu := effPath_sub pp st.root u [] er hsub he
    simp only [List.nil_append] at hsu
    have hnp : ∀ c r, c ≠ Comp.name key → ¬ (er ++ [Comp.name key] <+: er ++ c :: r) := by
      intro c r hc hq
      rw [List.prefix_append_right_inj, List.cons_prefix_cons] at hq
      exact hc hq.1.symm
    refine hr _ NoX _ [] hsub ?_ ?_ ?_
    · intro q hq
      exact List.IsPrefix.trans (by simp) hq
    · intro hne _
      simp only [List.nil_append]
      refine effPath_kind pp st.root u er hsub he hne ?_
      intro hq
      have := hq.length_le
      simp at this
      omega
    · simp only [List.nil_append]
      refine subX_rebuild (it := .table u) (c0 := .name key) (ch' := .table st.current) ?_ ?_ ?_ ?_ hcur
      · intro c hc; exact stepE_append_other u key _ c hc
      · simp [stepE, alookup_append_new _ _ _ hv]
      · intro c r hc _
        exact hsu (c :: r) (by simp) (hnp c r hc)
      · intro _
        rw [flat_explicit _ _ _ hk]
        simp [itemKind, h.curI, h.curD]
  · have hcur := h.cur
    rw [hs] at hcur hk hsub
    have hf : finF st.currentIsArray key st.current u = some (u.setItems (aset key (.aot (ts ++ [st.current])) u.items)) := by
      simp [finF, ha, finArrF, hv]
    obtain ⟨root', hd, _, hr⟩ := descend_rebuild pp st.root u _ er _ he hf
    refine ⟨_, by rw [finalizeTable_of_path st pp key hp, hd]; rfl, ?_⟩
    have hsu := effPath_sub pp st.root u [] er hsub he
    simp only [List.nil_append] at hsu
    have hst : stepE (.table u) (.name key) = some (.aot ts) := by rw [stepE_table_name]; exact hv
    have hsa := subX_child hsu hst
    have hnp : ∀ c r, c ≠ Comp.name key →
        ¬ (er ++ [Comp.name key, Comp.elem ts.length] <+: er ++ c :: r ∨ er ++ c :: r = er ++ [Comp.name key]) := by
      intro c r hc hq
      rcases hq with hq | hq
      · rw [List.prefix_append_right_inj, List.cons_prefix_cons] at hq
        exact hc hq.1.symm
      · rw [List.append_right_inj] at hq
        injection hq with hq _
        exact hc hq
    have hnp2 : ∀ c r, c ≠ Comp.elem ts.length →
        ¬ (er ++ [Comp.name key, Comp.elem ts.length] <+: er ++ [Comp.name key] ++ c :: r ∨
           er ++ [Comp.name key] ++ c :: r = er ++ [Comp.name key]) := by
      intro c r hc hq
      rcases hq with hq | hq
      · rw [List.append_assoc, List.prefix_append_right_inj] at hq
        simp only [List.singleton_append, List.cons_prefix_cons] at hq
        exact hc hq.2.1.symm
      · have := congrArg List.length hq
        simp at this
    refine hr _ NoX _ [] hsub ?_ ?_ ?_
    · intro q hq
      rcases hq with hq | hq
      · exact List.IsPrefix.trans (by simp) hq
      · subst hq; simp
    · intro hne _
      simp only [List.nil_append]
      refine effPath_kind pp st.root u er hsub he hne ?_
      intro hq
      rcases hq with hq | hq
      · have := hq.length_le
        simp at this
        omega
      · have := congrArg List.length hq
        simp at this
    · simp only [List.nil_append]
      refine subX_rebuild (it := .table u) (c0 := .name key) (ch' := .aot (ts ++ [st.current])) ?_ ?_ ?_ ?_ ?_
      · intro c hc; exact stepE_aset_other u key _ c hc
      · simp [stepE, alookup_aset_same]
      · intro c r hc _
        exact hsu (c :: r) (by simp) (hnp c r hc)
      · intro _
        simp [flat, hka, hc, Kind.toT, itemKind]
      · refine subX_rebuild (it := .aot ts) (c0 := .elem ts.length) (ch' := .table st.current) ?_ ?_ ?_ ?_ ?_
        · intro c hc; exact stepE_aot_append_other ts _ c hc
        · exact stepE_aot_last ts _
        · intro c r hc _
          exact hsa (c :: r) (by simp) (hnp2 c r hc)
        · intro _
          have e : er ++ [Comp.name key] ++ [Comp.elem ts.length] = er ++ [Comp.name key, Comp.elem ts.length] := by simp
          rw [e, flat_explicit _ _ _ hk]
          simp [itemKind, h.curI, h.curD]
        · have e : er ++ [Comp.name key] ++ [Comp.elem ts.length] = er ++ [Comp.name key, Comp.elem ts.length] := by simp
          rw [e]; exact hcur


/-! ## opening a section -/

theorem effPath_lookup (pp : List Bytes) (t u : Tbl) (er : EPath) (he : effPath t pp = some (er, u)) :
    lookupTbl t pp = some u := by
  induction pp generalizing t er with
  | nil => simp [effPath] at he; simp [lookupTbl, he.2]
  | cons k ks ih =>
    rcases effPath_cons_some t u k ks er he with ⟨sub, er', ha, hs, _⟩ | ⟨init, l, er', ha, hs, _⟩
    · simp [lookupTbl, ha, ih sub er' hs]
    · simp [lookupTbl, ha, ih l er' hs]

theorem effPath_target (pp : List Bytes) (t u : Tbl) (er : EPath) (d : Bool) (he : effPath t pp = some (er, u)) :
    target t pp d = u := by
  simp [target, effPath_lookup pp t u er he]

theorem descend_none_of_eff (pp : List Bytes) (t u : Tbl) (er : EPath) (f : Tbl → Option Tbl)
    (he : effPath t pp = some (er, u)) (hf : f u = none) : descend t pp false f = none := by
  cases hd : descend t pp false f with
  | none => rfl
  | some t' =>
    obtain ⟨u', h1, _⟩ := descend_spec t t' pp false f hd
    rw [effPath_target pp t u er false he, hf] at h1
    cases h1

theorem descend_via (root tc : Tbl) (pp : List Bytes) (g : Tbl → Option Tbl)
    (hd : descend root pp false some = some tc) : descend root pp false g = descend tc pp false g := by
  rw [descend_descend root tc pp some g hd]
  rfl

/-- everything the header lemmas need after the prefix of a header has been walked on both sides -/
theorem walk_data (C : CMap) (K : KMap) (root : Tbl) (pp : List Bytes) (K' : KMap) (e : EPath)
    (hG : SubX NoX (flat K C) (.table root) []) (hcp : CPos K C) (hw : hwalk C K [] pp = some (K', e)) :
    ∃ tc, effPath tc pp = some (e, target root pp false) ∧ SubX NoX (flat K' C) (.table tc) [] ∧ HFrame [] K K' ∧
      SubX NoX (flat K' C) (.table (target root pp false)) e ∧ (∀ g, descend root pp false g = descend tc pp false g) := by
  obtain ⟨_, h2⟩ := hwalk_sim C pp K [] root hG (aotPos_of_cpos hcp hG)
  obtain ⟨tc, er, hd, hep, he, hsub', _, hfr⟩ := h2 K' e hw
  simp only [List.nil_append] at he
  subst he
  have hsu := effPath_sub pp tc _ [] e hsub' hep
  simp only [List.nil_append] at hsu
  exact ⟨tc, hep, hsub', hfr, hsu, fun g => descend_via root tc pp g hd⟩

theorem headerStep_none (ds : DState) (path : List Bytes) (fin : KMap → EPath → Verdict × DState)
    (h : splitLast path = none) : headerStep ds path fin = (.invalid, ds) := by
  simp [headerStep, h]

theorem headerStep_walk_none (ds : DState) (path pp : List Bytes) (key : Bytes) (fin : KMap → EPath → Verdict × DState)
    (h : splitLast path = some (pp, key)) (hw : hwalk ds.count ds.kinds [] pp = none) :
    headerStep ds path fin = (.invalid, ds) := by
  simp [headerStep, h, hw]

theorem headerStep_walk_some (ds : DState) (path pp : List Bytes) (key : Bytes) (fin : KMap → EPath → Verdict × DState)
    (K' : KMap) (e : EPath)
    (h : splitLast path = some (pp, key)) (hw : hwalk ds.count ds.kinds [] pp = some (K', e)) :
    headerStep ds path fin = fin K' (e ++ [.name key]) := by
  simp [headerStep, h, hw]

theorem cpos_hframe {b : EPath} {K K' : KMap} {C : CMap} (h : CPos K C) (hf : HFrame b K K') : CPos K' C := by
  intro q hq
  rcases hf q with h1 | ⟨_, h2, _⟩
  · rw [h1] at hq; exact h q hq
  · rw [h2] at hq; cases hq

/-- the accepted `[table]` header -/
theorem start_std_ok (sf : ParseState) (ds : DState) (path pp : List Bytes) (key : Bytes) (K' : KMap) (e : EPath)
    (hG : SubX NoX (flat ds.kinds ds.count) (.table sf.root) []) (hwf : WF sf.root) (hcur : sf.current = Tbl.empty)
    (hpar : Par ds.kinds) (hcp : CPos ds.kinds ds.count) (hee : ElemExp ds.kinds)
    (hsp : splitLast path = some (pp, key)) (hw : hwalk ds.count ds.kinds [] pp = some (K', e))
    (hacc : ∃ r0, probeF key (target sf.root pp false) = some r0)
    (hk : kget K' (e ++ [.name key]) = none ∨ kget K' (e ++ [.name key]) = some .implicit) :
    ∃ st1, startTable sf path = some st1 ∧
      R st1 { ds with kinds := kset K' (e ++ [.name key]) .explicit, sect := e ++ [.name key], sid := ds.sid + 1 } := by
  have hnx : ∀ q, ¬ NoX q := fun _ h => h
  obtain ⟨tc, hep, hsub', hfr, hsu, hvia⟩ := walk_data _ _ sf.root pp K' e hG hcp hw
  obtain ⟨r0, hacc⟩ := hacc
  generalize hu : target sf.root pp false = u at *
  obtain ⟨_, hd0, _, _⟩ := descend_rebuild pp tc u r0 e (probeF key) hep hacc
  obtain ⟨root1, hd1, hep1, hr1⟩ := descend_rebuild pp tc u (u.setItems (aerase key u.items)) e (eraseF key) hep rfl
  have hstart : startTable sf path = some
      { sf with root := root1, position := sf.position + 1,
                current := .mk ((startTable.find key sf.root pp).getD sf.current).items false false (some (sf.position + 1)),
                currentIsArray := false, currentPath := path } := by
    rw [startTable_eq]
    simp only [hsp]
    rw [hvia, hd0]
    simp only []
    rw [hvia, hd1]
  refine ⟨_, hstart, ?_⟩
  obtain ⟨_, _, _, hinv⟩ := std_step (fun _ => True) sf _ path hwf hcur hstart
  have hwu : WF u := by rw [← hu]; exact wf_target _ _ _ hwf
  -- the new section table holds what was under the key
  have hbase : ∀ r, r ≠ [] →
      kindI (.table (.mk ((startTable.find key sf.root pp).getD sf.current).items false false (some (sf.position + 1)))) r =
      kindI (.table u) (.name key :: r) := by
    intro r hr
    rcases probeF_some key u r0 hacc with hn | ⟨t0, ha, _, _⟩
    · have hf : startTable.find key sf.root pp = none := by
        rw [find_eq]
        cases hl : lookupTbl sf.root pp with
        | none => rfl
        | some u0 =>
          have : u0 = u := by rw [← hu]; simp [target, hl]
          subst this
          simp [tableAt, hn]
      rw [hf, kindI_empty _ (by simp [hcur]; rfl) r hr, kindI_cons_none _ _ _ (by rw [stepE_table_name]; exact hn)]
    · have hl : lookupTbl sf.root pp = some u := by
        have := target_items_some sf.root pp false key _ (by rw [hu]; exact ha)
        rw [hu] at this; exact this
      have hf : startTable.find key sf.root pp = some t0 := by
        rw [find_eq, hl]; simp [tableAt, ha]
      rw [hf, kindI_cons_some _ (.table t0) _ _ (by rw [stepE_table_name]; exact ha)]
      exact kindI_table_congr t0 (.mk t0.items false false _) rfl r hr
  have hK1 : ∀ q, q ≠ e ++ [.name key] → kget (kset K' (e ++ [.name key]) .explicit) q = kget K' q :=
    fun q hq => kget_kset_ne _ _ _ _ (fun h => hq h.symm)
  exact {
    inv := hinv
    cur := by
      intro r hr _
      show flat _ _ (e ++ [.name key] ++ r) = _
      cases r with
      | nil => exact absurd rfl hr
      | cons c r' =>
        rw [hbase _ hr, flat_congr K' _ _ _ (hK1 _ (fun h => ne_append_cons _ _ _ h.symm)), app_cons]
        exact hsu _ (by simp) (hnx _)
    curI := rfl
    curD := rfl
    shape := by
      refine .std pp key e (u.setItems (aerase key u.items)) (splitLast_some _ _ _ hsp) rfl hep1 ?_ rfl (kget_kset_same _ _ _) ?_
      · exact alookup_aerase_same _ _ (wf_nodup _ hwu)
      · show SubX (fun q => e ++ [.name key] <+: q) (flat (kset K' (e ++ [.name key]) .explicit) ds.count) (.table root1) []
        have hoff : ∀ q, ¬ (e ++ [.name key] <+: q) → flat (kset K' (e ++ [.name key]) .explicit) ds.count q = flat K' ds.count q :=
          fun q hq => flat_congr K' _ _ _ (hK1 q (fun h => hq (h ▸ List.prefix_refl _)))
        have hsubX : SubX (fun q => e ++ [.name key] <+: q) (flat (kset K' (e ++ [.name key]) .explicit) ds.count) (.table tc) [] :=
          subX_congr (subX_weaken hsub' (fun _ h => h.elim)) (fun r _ hx => hoff _ hx)
        refine hr1 _ _ _ [] hsubX ?_ ?_ ?_
        · intro q hq
          exact List.IsPrefix.trans (by simp) hq
        · intro hne hx
          exact effPath_kind pp tc u e hsubX hep hne hx
        · simp only [List.nil_append]
          refine subX_erase key (subX_congr (subX_weaken hsu (fun _ h => h.elim)) (fun r _ hx => hoff _ hx)) ?_
          intro r
          show e ++ [Comp.name key] <+: e ++ Comp.name key :: r
          rw [← app_cons e (Comp.name key) r]; exact List.prefix_append _ _
    dj := by
      have hp' : Par K' := par_hframe hpar hfr
      refine ⟨par_kset_explicit hp' _, ?_⟩
      intro c s hd
      show s = ds.sid + 1
      exfalso
      rw [hK1 _ (by intro h; exact ne_append_cons (e ++ [.name key]) c [] h.symm)] at hd
      rcases hp' _ c s hd with h0 | h0 | h0
      · simp at h0
      · rcases hk with hk | hk <;> rw [hk] at h0 <;> cases h0
      · rcases hk with hk | hk <;> rw [hk] at h0 <;> cases h0
    cpos := by
      intro q hq
      show 1 ≤ cget ds.count q
      by_cases hqe : q = e ++ [.name key]
      · subst hqe; rw [kget_kset_same] at hq; cases hq
      · rw [hK1 q hqe] at hq
        exact cpos_hframe hcp hfr q hq
    elemExp := elemExp_kset_explicit (hwalk_elemExp _ _ _ _ _ _ hee hw) _ }


theorem stdAt_ok (ds : DState) (K : KMap) (e : EPath) (h : kget K e = none ∨ kget K e = some .implicit) :
    stdAt ds K e = (.valid, { ds with kinds := kset K e .explicit, sect := e, sid := ds.sid + 1 }) := by
  rcases h with h | h <;> simp [stdAt, h]

theorem stdAt_bad (ds : DState) (K : KMap) (e : EPath) (k : Kind) (h : kget K e = some k) (hk : k ≠ .implicit) :
    stdAt ds K e = (.invalid, ds) := by
  cases k <;> simp [stdAt, h] at hk ⊢

theorem startTable_probe_none (sf : ParseState) (path pp : List Bytes) (key : Bytes)
    (hsp : splitLast path = some (pp, key)) (h : descend sf.root pp false (probeF key) = none) :
    startTable sf path = none := by
  rw [startTable_eq]
  simp only [hsp, h]

/-- a `[table]` header after the previous section was closed: the verdicts agree and the relation is kept -/
theorem start_std_sim (sf : ParseState) (ds : DState) (path : List Bytes)
    (hG : SubX NoX (flat ds.kinds ds.count) (.table sf.root) []) (hwf : WF sf.root) (hcur : sf.current = Tbl.empty)
    (hpar : Par ds.kinds) (hcp : CPos ds.kinds ds.count) (hee : ElemExp ds.kinds) :
    (∀ ds', headerStep ds path (stdAt ds) = (.valid, ds') → ∃ st1, startTable sf path = some st1 ∧ R st1 ds') ∧
    (∀ ds', headerStep ds path (stdAt ds) = (.invalid, ds') → startTable sf path = none) ∧
    (∀ ds', headerStep ds path (stdAt ds) ≠ (.undecided, ds')) := by
  have hnx : ∀ q, ¬ NoX q := fun _ h => h
  cases hsp : splitLast path with
  | none =>
    rw [headerStep_none ds path _ hsp]
    refine ⟨fun ds' h => by simp at h, fun _ _ => ?_, fun ds' h => by simp at h⟩
    rw [startTable_eq]; simp only [hsp]
  | some pr =>
    obtain ⟨pp, key⟩ := pr
    cases hw : hwalk ds.count ds.kinds [] pp with
    | none =>
      rw [headerStep_walk_none ds path pp key _ hsp hw]
      refine ⟨fun ds' h => by simp at h, fun _ _ => ?_, fun ds' h => by simp at h⟩
      obtain ⟨h1, _⟩ := hwalk_sim ds.count pp ds.kinds [] sf.root hG (aotPos_of_cpos hcp hG)
      exact startTable_probe_none sf path pp key hsp (h1 hw _)
    | some pr2 =>
      obtain ⟨K', e⟩ := pr2
      rw [headerStep_walk_some ds path pp key _ K' e hsp hw]
      obtain ⟨tc, hep, hsub', hfr, hsu, hvia⟩ := walk_data _ _ sf.root pp K' e hG hcp hw
      have hhere := subX_here (.name key) hsu (hnx _)
      rw [stepE_table_name] at hhere
      have hbad : ∀ k, kget K' (e ++ [.name key]) = some k → k ≠ .implicit →
          probeF key (target sf.root pp false) = none →
          (∀ ds', stdAt ds K' (e ++ [.name key]) = (.valid, ds') → ∃ st1, startTable sf path = some st1 ∧ R st1 ds') ∧
          (∀ ds', stdAt ds K' (e ++ [.name key]) = (.invalid, ds') → startTable sf path = none) ∧
          (∀ ds', stdAt ds K' (e ++ [.name key]) ≠ (.undecided, ds')) := by
        intro k hk hne hpr
        rw [stdAt_bad ds K' _ k hk hne]
        refine ⟨fun ds' h => by simp at h, fun _ _ => ?_, fun ds' h => by simp at h⟩
        refine startTable_probe_none sf path pp key hsp ?_
        rw [hvia]
        exact descend_none_of_eff pp tc _ e _ hep hpr
      have hgood : (kget K' (e ++ [.name key]) = none ∨ kget K' (e ++ [.name key]) = some .implicit) →
          (∃ r0, probeF key (target sf.root pp false) = some r0) →
          (∀ ds', stdAt ds K' (e ++ [.name key]) = (.valid, ds') → ∃ st1, startTable sf path = some st1 ∧ R st1 ds') ∧
          (∀ ds', stdAt ds K' (e ++ [.name key]) = (.invalid, ds') → startTable sf path = none) ∧
          (∀ ds', stdAt ds K' (e ++ [.name key]) ≠ (.undecided, ds')) := by
        intro hk hacc
        rw [stdAt_ok ds K' _ hk]
        refine ⟨fun ds' h => ?_, fun ds' h => by simp at h, fun ds' h => by simp at h⟩
        injection h with _ h2
        subst h2
        exact start_std_ok sf ds path pp key K' e hG hwf hcur hpar hcp hee hsp hw hacc hk
      cases ha : alookup key (target sf.root pp false).items with
      | none =>
        rw [ha] at hhere
        exact hgood (Or.inl ((flat_none _ _ _).1 hhere)) ⟨_, by simp [probeF, ha]; rfl⟩
      | some it =>
        rw [ha] at hhere
        cases it with
        | value v =>
          exact hbad .value ((flat_value _ _ _).1 hhere) (by simp) (by simp [probeF, ha])
        | aot ts =>
          exact hbad .aot ((flat_aot _ _ _ _).1 hhere).1 (by simp) (by simp [probeF, ha])
        | table t0 =>
          simp only [Option.map_some, itemKind] at hhere
          rcases (flat_tbl _ _ _ _ _).1 hhere with ⟨hk, hi, hd⟩ | ⟨hk, hi, hd⟩ | ⟨s, hk, hi, hd⟩
          · exact hbad .explicit hk (by simp) (by simp [probeF, ha, hi, hd])
          · exact hgood (Or.inr hk) ⟨_, by simp [probeF, ha, hi, hd]; rfl⟩
          · exact hbad (.dotted s) hk (by simp) (by simp [probeF, ha, hi, hd])


/-! ## key/value statements -/

/-- the rules' dotted-key walk (with the final value) only adds `dotted sid` / `value` entries strictly below `b` -/
def KFrame (sid : Nat) (b : EPath) (K K1 : KMap) : Prop :=
  ∀ q, kget K1 q = kget K q ∨
    (kget K q = none ∧ (kget K1 q = some (.dotted sid) ∨ kget K1 q = some .value) ∧ ∃ r, r ≠ [] ∧ q = b ++ r)

theorem kframe_off {sid : Nat} {b : EPath} {K K1 : KMap} (h : KFrame sid b K K1) (q : EPath)
    (hq : ∀ r, r ≠ [] → q ≠ b ++ r) : kget K1 q = kget K q := by
  rcases h q with h1 | ⟨_, _, r, hr, e⟩
  · exact h1
  · exact absurd e (hq r hr)

theorem par_kset_dotted {K : KMap} (h : Par K) (b : EPath) (c : Comp) (sid : Nat) (hn : kget K (b ++ [c]) = none)
    (hbk : b = [] ∨ kget K b = some .explicit ∨ kget K b = some (.dotted sid)) : Par (kset K (b ++ [c]) (.dotted sid)) := by
  have hp : ∀ p x, kget K p = some x → kget (kset K (b ++ [c]) (.dotted sid)) p = some x := by
    intro p x hx
    have : b ++ [c] ≠ p := by intro e'; subst e'; rw [hn] at hx; cases hx
    rw [kget_kset_ne _ _ _ _ this]; exact hx
  intro p c' s hd
  rw [kget_kset] at hd
  split at hd
  · rename_i heq
    injection hd with hd; injection hd with hd; subst hd
    obtain ⟨h1, _⟩ := List.append_inj' heq rfl
    subst h1
    rcases hbk with h0 | h0 | h0
    · exact Or.inl h0
    · exact Or.inr (Or.inl (hp _ _ h0))
    · exact Or.inr (Or.inr (hp _ _ h0))
  · rcases h p c' s hd with h0 | h0 | h0
    · exact Or.inl h0
    · exact Or.inr (Or.inl (hp _ _ h0))
    · exact Or.inr (Or.inr (hp _ _ h0))

def KWConc (sid : Nat) (C : CMap) (path0 : List Bytes) (key : Bytes) (v : Val) (K : KMap) (b : EPath) (t : Tbl)
    (path : List Bytes) : Verdict × KMap × EPath → Prop
  | (.valid, K', e) =>
    (∀ k, kget K' (e ++ [.name key]) = some k → descend t path true (kvF path0 key v) = none) ∧
    (kget K' (e ++ [.name key]) = none → ∃ t', descend t path true (kvF path0 key v) = some t' ∧
      SubX NoX (flat (kset K' (e ++ [.name key]) .value) C) (.table t') b ∧
      KFrame sid b K (kset K' (e ++ [.name key]) .value) ∧ Par (kset K' (e ++ [.name key]) .value) ∧
      ElemExp (kset K' (e ++ [.name key]) .value))
  | (.invalid, _, _) => descend t path true (kvF path0 key v) = none
  | (.undecided, _, _) => True

theorem descend_kvF_flags (t t' : Tbl) (path p0 : List Bytes) (key : Bytes) (v : Val) (d : Bool)
    (h : descend t path d (kvF p0 key v) = some t') : t'.implicit = t.implicit ∧ t'.dotted = t.dotted := by
  cases path with
  | nil =>
    simp [descend] at h
    obtain ⟨_, e, _⟩ := kvF_some _ _ _ _ _ h
    subst e; exact ⟨rfl, rfl⟩
  | cons k ks => exact descend_flags t t' k ks d _ h

theorem descend_cons_block (t sub : Tbl) (k : Bytes) (ks : List Bytes) (f : Tbl → Option Tbl)
    (he : (alookup k t.items).getD (.table (newImplicit true)) = .table sub) (hc : sub.implicit = false) :
    descend t (k :: ks) true f = none := by
  rw [descend]
  simp only [he, hc]
  rfl

theorem kwconc_lift (sid : Nat) (C : CMap) (path0 : List Bytes) (key : Bytes) (v : Val) (t sub : Tbl) (k : Bytes)
    (ks : List Bytes) (K K2 : KMap) (b : EPath)
    (he : (alookup k t.items).getD (.table (newImplicit true)) = .table sub)
    (hfl : sub.implicit = true ∧ sub.dotted = true)
    (hs : SubX NoX (flat K C) (.table t) b)
    (hK2 : K2 = K ∨ (kget K (b ++ [.name k]) = none ∧ K2 = kset K (b ++ [.name k]) (.dotted sid)))
    (hke : kget K2 (b ++ [.name k]) = some (.dotted sid))
    (res : Verdict × KMap × EPath) (h : KWConc sid C path0 key v K2 (b ++ [.name k]) sub ks res) :
    KWConc sid C path0 key v K b t (k :: ks) res := by
  have hnx : ∀ q, ¬ NoX q := fun _ h => h
  have hc : (true && !sub.implicit) = false := by simp [hfl.1]
  obtain ⟨vd, K', e'⟩ := res
  cases vd with
  | undecided => trivial
  | invalid =>
    simp only [KWConc] at h ⊢
    rw [descend_cons_table t sub k ks true _ he hc, h]; rfl
  | valid =>
    simp only [KWConc] at h ⊢
    refine ⟨fun k' hk => by rw [descend_cons_table t sub k ks true _ he hc, h.1 k' hk]; rfl, fun hn => ?_⟩
    obtain ⟨sub', hd, hsub', hfr, hpar', hee'⟩ := h.2 hn
    have hK2off : ∀ q, q ≠ b ++ [.name k] → kget K2 q = kget K q := by
      intro q hq
      rcases hK2 with e | ⟨_, e⟩
      · rw [e]
      · rw [e, kget_kset_ne _ _ _ _ (fun h => hq h.symm)]
    refine ⟨t.setItems (aset k (.table sub') t.items), by rw [descend_cons_table t sub k ks true _ he hc, hd]; rfl, ?_, ?_, hpar', hee'⟩
    · have hfl' := descend_kvF_flags _ _ _ _ _ _ _ hd
      refine subX_rebuild (it := .table t) (c0 := .name k) (ch' := .table sub') ?_ ?_ ?_ ?_ hsub'
      · intro c hc; exact stepE_aset_other t k _ c hc
      · simp [stepE, alookup_aset_same]
      · intro c r hc _
        have e1 : kget (kset K' (e' ++ [.name key]) .value) (b ++ c :: r) = kget K2 (b ++ c :: r) := by
          refine kframe_off hfr _ ?_
          intro r' _ e
          rw [app_cons, List.append_right_inj] at e
          injection e with e1 _
          exact hc e1
        have e2 : kget K2 (b ++ c :: r) = kget K (b ++ c :: r) := by
          refine hK2off _ ?_
          intro e
          rw [List.append_right_inj] at e
          injection e with e1 _
          exact hc e1
        rw [flat_congr K _ C _ (e1.trans e2)]
        exact hs (c :: r) (by simp) (hnx _)
      · intro _
        have e1 : kget (kset K' (e' ++ [.name key]) .value) (b ++ [.name k]) = kget K2 (b ++ [.name k]) := by
          refine kframe_off hfr _ ?_
          intro r' hr' e
          cases r' with
          | nil => exact hr' rfl
          | cons c r'' => exact ne_append_cons _ _ _ e
        simp only [flat, e1, hke, Option.map_some, Kind.toT, itemKind, hfl'.1, hfl'.2, hfl.1, hfl.2]
    · intro q
      rcases hfr q with h1 | ⟨h1, h2, r, hr, e⟩
      · by_cases hq : q = b ++ [.name k]
        · rcases hK2 with e | ⟨hkn, e⟩
          · left; rw [h1, e]
          · right
            subst hq
            rw [hke] at h1
            exact ⟨hkn, Or.inl h1, [.name k], by simp, rfl⟩
        · left; rw [h1, hK2off q hq]
      · right
        have hq : q ≠ b ++ [.name k] := by
          rw [e]
          cases r with
          | nil => exact absurd rfl hr
          | cons c r' => exact fun h => ne_append_cons _ _ _ h.symm
        rw [hK2off q hq] at h1
        exact ⟨h1, h2, .name k :: r, by simp, by rw [e, app_cons]⟩

theorem kwalk_cons_none (sid : Nat) (K : KMap) (b : EPath) (k : Bytes) (ks : List Bytes)
    (h : kget K (b ++ [.name k]) = none) :
    kwalk sid K b (k :: ks) = kwalk sid (kset K (b ++ [.name k]) (.dotted sid)) (b ++ [.name k]) ks := by
  simp [kwalk, h]

theorem kwalk_cons_dotted (sid : Nat) (K : KMap) (b : EPath) (k : Bytes) (ks : List Bytes)
    (h : kget K (b ++ [.name k]) = some (.dotted sid)) :
    kwalk sid K b (k :: ks) = kwalk sid K (b ++ [.name k]) ks := by
  simp [kwalk, h]

theorem kwalk_cons_implicit (sid : Nat) (K : KMap) (b : EPath) (k : Bytes) (ks : List Bytes)
    (h : kget K (b ++ [.name k]) = some .implicit) :
    kwalk sid K b (k :: ks) = (.undecided, K, b) := by
  simp [kwalk, h]

theorem kwalk_cons_bad (sid : Nat) (K : KMap) (b : EPath) (k : Bytes) (ks : List Bytes) (x : Kind)
    (h : kget K (b ++ [.name k]) = some x) (hx : x = .value ∨ x = .explicit ∨ x = .aot) :
    kwalk sid K b (k :: ks) = (.invalid, K, b) := by
  rcases hx with e | e | e <;> subst e <;> simp [kwalk, h]

theorem kwalk_sim (sid : Nat) (C : CMap) (path0 : List Bytes) (key : Bytes) (v : Val) (path : List Bytes) (K : KMap)
    (b : EPath) (t : Tbl)
    (hs : SubX NoX (flat K C) (.table t) b) (hpar : Par K) (hee : ElemExp K)
    (hbk : b = [] ∨ kget K b = some .explicit ∨ kget K b = some (.dotted sid))
    (hcur : ∀ c s, kget K (b ++ [c]) = some (.dotted s) → s = sid)
    (h0 : path ≠ [] → path0 ≠ [])
    (hfl : path = [] → t.dotted = !path0.isEmpty) :
    KWConc sid C path0 key v K b t path (kwalk sid K b path) := by
  have hnx : ∀ q, ¬ NoX q := fun _ h => h
  induction path generalizing K b t with
  | nil =>
    simp only [kwalk, KWConc]
    have hhere := subX_here (.name key) hs (hnx _)
    rw [stepE_table_name] at hhere
    have hkv : kvF path0 key v t = match alookup key t.items with
        | some _ => none
        | none => some (t.setItems (t.items ++ [(key, .value v)])) := by
      unfold kvF
      rw [hfl rfl]
      cases path0.isEmpty <;> rfl
    refine ⟨?_, ?_⟩
    · intro k hk
      simp only [descend, hkv]
      cases ha : alookup key t.items with
      | some it => rfl
      | none =>
        rw [ha] at hhere
        rw [(flat_none _ _ _).1 hhere] at hk; cases hk
    · intro hn
      have ha : alookup key t.items = none := by
        cases ha : alookup key t.items with
        | none => rfl
        | some it =>
          rw [ha, (flat_none _ _ _).2 hn] at hhere
          cases hhere
      refine ⟨t.setItems (t.items ++ [(key, .value v)]), by simp only [descend, hkv, ha], ?_, ?_,
        par_kset_absent hpar _ _ hn (by intro s; simp), elemExp_kset_name hee _ _ _⟩
      · refine subX_rebuild (it := .table t) (c0 := .name key) (ch' := .value v) ?_ ?_ ?_ ?_ ?_
        · intro c hc; exact stepE_append_other t key _ c hc
        · simp [stepE, alookup_append_new _ _ _ ha]
        · intro c r hc _
          rw [flat_congr K _ C _ (kget_kset_ne _ _ _ _ (by
            intro e
            rw [List.append_right_inj] at e
            injection e with e1 _
            exact hc e1.symm))]
          exact hs (c :: r) (by simp) (hnx _)
        · intro _
          simp [flat, kget_kset_same, Kind.toT, itemKind]
        · intro r hr _
          cases r with
          | nil => exact absurd rfl hr
          | cons c r' =>
            rw [kindI_cons_none _ _ _ (stepE_value v c),
              flat_congr K _ C _ (kget_kset_ne _ _ _ _ (ne_append_cons _ _ _)), app_cons]
            exact subX_none (c :: r') hs (by rw [stepE_table_name]; exact ha) (hnx _)
      · intro q
        by_cases hq : b ++ [.name key] = q
        · subst hq
          exact Or.inr ⟨hn, Or.inr (kget_kset_same _ _ _), [.name key], by simp, rfl⟩
        · exact Or.inl (kget_kset_ne _ _ _ _ hq)
  | cons k ks ih =>
    have hp0 : path0 ≠ [] := h0 (by simp)
    have hp0e : path0.isEmpty = false := by cases path0 <;> simp at hp0 ⊢
    have hhere := subX_here (.name k) hs (hnx _)
    rw [stepE_table_name] at hhere
    cases ha : alookup k t.items with
    | none =>
      rw [ha] at hhere
      have hkn : kget K (b ++ [.name k]) = none := (flat_none _ _ _).1 hhere
      rw [kwalk_cons_none sid K b k ks hkn]
      have hent : (alookup k t.items).getD (.table (newImplicit true)) = .table (newImplicit true) := by simp [ha]
      refine kwconc_lift sid C path0 key v t (newImplicit true) k ks K _ b hent ⟨rfl, rfl⟩ hs (Or.inr ⟨hkn, rfl⟩)
        (kget_kset_same _ _ _) _ ?_
      refine ih _ (b ++ [.name k]) (newImplicit true) ?_ (par_kset_dotted hpar b _ sid hkn hbk) (elemExp_kset_name hee _ _ _)
        (Or.inr (Or.inr (kget_kset_same _ _ _))) ?_ (fun _ => hp0) (fun _ => by simp [hp0e]; rfl)
      · intro r hr _
        rw [kindI_empty _ rfl r hr]
        cases r with
        | nil => exact absurd rfl hr
        | cons c r' =>
          have hne : b ++ [Comp.name k] ≠ b ++ [Comp.name k] ++ c :: r' := ne_append_cons _ _ _
          rw [flat_congr K _ C _ (kget_kset_ne _ _ _ _ hne), app_cons]
          exact subX_none (c :: r') hs (by rw [stepE_table_name]; exact ha) (hnx _)
      · intro c s hd
        rw [kget_kset_ne _ _ _ _ (ne_append_cons _ _ _)] at hd
        have := subX_none [c] hs (show stepE (.table t) (.name k) = none by rw [stepE_table_name]; exact ha) (hnx _)
        have e : b ++ [Comp.name k] ++ [c] = b ++ Comp.name k :: [c] := by simp
        rw [e, (flat_none _ _ _).1 this] at hd
        cases hd
    | some it =>
      rw [ha] at hhere
      cases it with
      | value x =>
        rw [kwalk_cons_bad sid K b k ks .value ((flat_value _ _ _).1 hhere) (Or.inl rfl)]
        exact descend_cons_value t x k ks true _ ha
      | table sub =>
        simp only [Option.map_some, itemKind] at hhere
        have hent : (alookup k t.items).getD (.table (newImplicit true)) = .table sub := by simp [ha]
        have hst : stepE (.table t) (.name k) = some (.table sub) := by rw [stepE_table_name]; exact ha
        rcases (flat_tbl _ _ _ _ _).1 hhere with ⟨hk, hi, hd⟩ | ⟨hk, hi, hd⟩ | ⟨s, hk, hi, hd⟩
        · rw [kwalk_cons_bad sid K b k ks .explicit hk (Or.inr (Or.inl rfl))]
          exact descend_cons_block t sub k ks _ hent hi
        · rw [kwalk_cons_implicit sid K b k ks hk]
          trivial
        · have hsid : s = sid := hcur _ s hk
          subst hsid
          rw [kwalk_cons_dotted s K b k ks hk]
          refine kwconc_lift s C path0 key v t sub k ks K K b hent ⟨hi, hd⟩ hs (Or.inl rfl) hk _ ?_
          refine ih K (b ++ [.name k]) sub (subX_child hs hst) hpar hee (Or.inr (Or.inr hk)) ?_ (fun _ => hp0)
            (fun _ => by simp [hp0e, hd])
          intro c s' hd'
          rcases hpar _ c s' hd' with h1 | h1 | h1
          · simp at h1
          · rw [hk] at h1; cases h1
          · rw [hk] at h1; injection h1 with h1; injection h1 with h1; exact h1.symm
      | aot ts =>
        simp only [Option.map_some, itemKind] at hhere
        rw [kwalk_cons_bad sid K b k ks .aot ((flat_aot _ _ _ _).1 hhere).1 (Or.inr (Or.inr rfl))]
        simp only [KWConc]
        cases ks with
        | cons k2 ks' =>
          rw [descend]
          simp only [ha, Option.getD_some]
          rfl
        | nil =>
          rcases List.eq_nil_or_concat ts with hn | ⟨init, l, hc⟩
          · subst hn
            rw [descend]
            simp only [ha, Option.getD_some]
            rfl
          · rw [List.concat_eq_append] at hc
            subst hc
            rw [descend_cons_aot t l init k [] true _ ha rfl]
            have hst : stepE (.table t) (.name k) = some (.aot (init ++ [l])) := by rw [stepE_table_name]; exact ha
            have h2 := subX_here (.elem init.length) (subX_child hs hst) (hnx _)
            rw [stepE_aot_last] at h2
            simp only [Option.map_some, itemKind] at h2
            have hld : l.dotted = false := by
              rcases (flat_tbl _ _ _ _ _).1 h2 with ⟨_, _, hd⟩ | ⟨hk, _, _⟩ | ⟨s, hk, _, _⟩
              · exact hd
              · have := hee _ _ _ hk; cases this
              · have := hee _ _ _ hk; cases this
            have : descend l [] true (kvF path0 key v) = none := by
              simp [descend, kvF, hld, hp0e]
            rw [this]; rfl


theorem kvAt_some (ds : DState) (K : KMap) (e : EPath) (k : Kind) (h : kget K e = some k) : kvAt ds K e = (.invalid, ds) := by
  simp [kvAt, h]

theorem kvAt_none (ds : DState) (K : KMap) (e : EPath) (h : kget K e = none) :
    kvAt ds K e = (.valid, { ds with kinds := kset K e .value }) := by
  simp [kvAt, h]

theorem prefix_of_eq_append {s q r : EPath} (h : q = s ++ r) : s <+: q := h ▸ List.prefix_append _ _

/-- a key/value statement: the verdicts agree and the relation is kept -/
theorem kv_sim (st : ParseState) (ds : DState) (path : List Bytes) (key : Bytes) (v : Val) (h : R st ds) :
    (∀ ds', dstep ds (.kv path key v) = (.valid, ds') → ∃ st1, onKeyval st path key v = some st1 ∧ R st1 ds') ∧
    (∀ ds', dstep ds (.kv path key v) = (.invalid, ds') → onKeyval st path key v = none) := by
  have hbk : ds.sect = [] ∨ kget ds.kinds ds.sect = some .explicit ∨ kget ds.kinds ds.sect = some (.dotted ds.sid) := by
    rcases h.shape with ⟨_, _, hs⟩ | ⟨_, _, _, _, _, _, _, _, _, hk, _⟩ | ⟨_, _, _, _, _, _, _, _, _, _, hk, _⟩
    · exact Or.inl hs
    · exact Or.inr (Or.inl hk)
    · exact Or.inr (Or.inl hk)
  have hc := kwalk_sim ds.sid ds.count path key v path ds.kinds ds.sect st.current h.cur h.dj.par h.elemExp hbk h.dj.cur
    (fun h => h) (fun hp => by subst hp; simp [h.curD])
  have hds : dstep ds (.kv path key v) = match kwalk ds.sid ds.kinds ds.sect path with
      | (.valid, K, eff) => kvAt ds K (eff ++ [.name key])
      | (v, _, _) => (v, ds) := rfl
  rw [hds]
  generalize kwalk ds.sid ds.kinds ds.sect path = res at hc
  obtain ⟨vd, K', e⟩ := res
  cases vd with
  | undecided => exact ⟨fun ds' h => by simp at h, fun ds' h => by simp at h⟩
  | invalid =>
    simp only [KWConc] at hc
    refine ⟨fun ds' h => by simp at h, fun _ _ => ?_⟩
    rw [onKeyval_eq, hc]; rfl
  | valid =>
    simp only [KWConc] at hc
    simp only []
    cases hk : kget K' (e ++ [.name key]) with
    | some k =>
      rw [kvAt_some ds K' _ k hk]
      refine ⟨fun ds' h => by simp at h, fun _ _ => ?_⟩
      rw [onKeyval_eq, hc.1 k hk]; rfl
    | none =>
      rw [kvAt_none ds K' _ hk]
      refine ⟨fun ds' hd => ?_, fun ds' h => by simp at h⟩
      injection hd with _ hd
      subst hd
      obtain ⟨t', hd, hsub, hfr, hpar, hee⟩ := hc.2 hk
      have hkv : onKeyval st path key v = some { st with current := t' } := by rw [onKeyval_eq, hd]; rfl
      refine ⟨_, hkv, ?_⟩
      obtain ⟨sf, hf, _⟩ := fin_sim st ds h
      obtain ⟨_, _, _, hinv⟩ := kv_step (fun _ => True) st _ sf path key v h.inv hkv hf
      have hfl := descend_kvF_flags _ _ _ _ _ _ _ hd
      have hoff : ∀ q, ¬ ds.sect <+: q → kget (kset K' (e ++ [.name key]) .value) q = kget ds.kinds q :=
        fun q hq => kframe_off hfr q (fun r _ e => hq (prefix_of_eq_append e))
      have hsect : kget (kset K' (e ++ [.name key]) .value) ds.sect = kget ds.kinds ds.sect := by
        refine kframe_off hfr _ ?_
        intro r hr e
        cases r with
        | nil => exact hr rfl
        | cons c r' => exact ne_append_cons _ _ _ e
      exact {
        inv := hinv
        cur := hsub
        curI := by rw [← h.curI]; exact hfl.1
        curD := by rw [← h.curD]; exact hfl.2
        shape := by
          rcases h.shape with ⟨hp, hr, hs⟩ | ⟨pp, key', er, u, hp, ha, he, hv, hs, hk', hsubr⟩ |
              ⟨pp, key', er, u, ts, hp, ha, he, hv, hs, hk', hka, hcn, hsubr⟩
          · exact .root hp hr hs
          · refine .std pp key' er u hp ha he hv hs (by rw [← hk']; exact hsect) ?_
            exact subX_congr hsubr (fun r _ hx => flat_congr _ _ _ _ (hoff _ hx))
          · refine .arr pp key' er u ts hp ha he hv hs (by rw [← hk']; exact hsect) ?_ hcn ?_
            · rw [← hka]
              refine hoff _ ?_
              intro hq
              have hq' : ds.sect <+: er ++ [Comp.name key'] := hq
              rw [hs] at hq'
              have := hq'.length_le
              simp at this
            · exact subX_congr hsubr (fun r _ hx => flat_congr _ _ _ _ (hoff _ (fun hq => hx (Or.inl hq))))
        dj := by
          refine ⟨hpar, ?_⟩
          intro c s hd'
          rcases hfr (ds.sect ++ [c]) with h1 | ⟨_, h2, _⟩
          · rw [h1] at hd'; exact h.dj.cur c s hd'
          · rcases h2 with h2 | h2
            · have hd'' : kget (kset K' (e ++ [.name key]) .value) (ds.sect ++ [c]) = some (.dotted s) := hd'
              rw [h2] at hd''; injection hd'' with h3; injection h3 with h3; exact h3.symm
            · have hd'' : kget (kset K' (e ++ [.name key]) .value) (ds.sect ++ [c]) = some (.dotted s) := hd'
              rw [h2] at hd''; cases hd''
        cpos := by
          intro q hq
          have hq' : kget (kset K' (e ++ [.name key]) .value) q = some .aot := hq
          rcases hfr q with h1 | ⟨_, h2, _⟩
          · rw [h1] at hq'; exact h.cpos q hq'
          · rcases h2 with h2 | h2 <;> rw [h2] at hq' <;> cases hq'
        elemExp := hee }


/-! ## opening an element of an array of tables -/

theorem startArrayTable_eq (st : ParseState) (path : List Bytes) :
    startArrayTable st path =
      match splitLast path with
      | none => none
      | some (pp, key) =>
        match descend st.root pp false (arrStartF key) with
        | none => none
        | some root' =>
          some { st with root := root', position := st.position + 1,
                         current := .mk st.current.items false false (some (st.position + 1)),
                         currentIsArray := true, currentPath := path } := by
  unfold startArrayTable
  cases splitLast path with
  | none => rfl
  | some pr => obtain ⟨pp, key⟩ := pr; rfl

theorem flat_congr2 (K K' : KMap) (C C' : CMap) (q : EPath) (h : kget K' q = kget K q) (hc : cget C' q = cget C q) :
    flat K' C' q = flat K C q := by
  simp [flat, h, hc]

/-- the accepted `[[array]]` header, new or existing array -/
theorem start_arr_ok (sf : ParseState) (ds : DState) (path pp : List Bytes) (key : Bytes) (K' : KMap) (e : EPath)
    (u'' : Tbl) (ts : List Tbl) (K1 : KMap) (C1 : CMap)
    (hG : SubX NoX (flat ds.kinds ds.count) (.table sf.root) []) (hwf : WF sf.root) (hcur : sf.current = Tbl.empty)
    (hcp : CPos ds.kinds ds.count)
    (hsp : splitLast path = some (pp, key)) (hw : hwalk ds.count ds.kinds [] pp = some (K', e))
    (hf : arrStartF key (target sf.root pp false) = some u'')
    (hv : alookup key u''.items = some (.aot ts))
    (hstep : ∀ c, c ≠ .name key → stepE (.table u'') c = stepE (.table (target sf.root pp false)) c)
    (hfl : u''.implicit = (target sf.root pp false).implicit ∧ u''.dotted = (target sf.root pp false).dotted)
    (hch : SubX NoX (flat K' ds.count) (.aot ts) (e ++ [.name key]))
    (hks : kget K1 (e ++ [.name key, .elem ts.length]) = some .explicit)
    (hka : kget K1 (e ++ [.name key]) = some .aot) (hcn : cget C1 (e ++ [.name key]) = ts.length + 1)
    (hoff : ∀ q, ¬ (e ++ [.name key, .elem ts.length] <+: q) → q ≠ e ++ [.name key] → flat K1 C1 q = flat K' ds.count q)
    (hcurr : ∀ r, r ≠ [] → flat K1 C1 (e ++ [.name key, .elem ts.length] ++ r) = none)
    (hpar : Par K1) (hcp1 : CPos K1 C1) (hee : ElemExp K1) :
    ∃ st1, startArrayTable sf path = some st1 ∧
      R st1 { kinds := K1, count := C1, sect := e ++ [.name key, .elem ts.length], sid := ds.sid + 1 } := by
  have hnx : ∀ q, ¬ NoX q := fun _ h => h
  obtain ⟨tc, hep, hsub', hfr, hsu, hvia⟩ := walk_data _ _ sf.root pp K' e hG hcp hw
  generalize hu : target sf.root pp false = u at *
  obtain ⟨root1, hd1, hep1, hr1⟩ := descend_rebuild pp tc u u'' e (arrStartF key) hep hf
  have hstart : startArrayTable sf path = some
      { sf with root := root1, position := sf.position + 1,
                current := .mk sf.current.items false false (some (sf.position + 1)),
                currentIsArray := true, currentPath := path } := by
    rw [startArrayTable_eq]
    simp only [hsp]
    rw [hvia, hd1]
  refine ⟨_, hstart, ?_⟩
  obtain ⟨_, _, _, hinv⟩ := arr_step sf _ path hwf hcur hstart
  exact {
    inv := hinv
    cur := by
      intro r hr _
      rw [kindI_empty _ (by simp [hcur]; rfl) r hr]
      exact hcurr r hr
    curI := rfl
    curD := rfl
    shape := by
      refine .arr pp key e u'' ts (splitLast_some _ _ _ hsp) rfl hep1 hv rfl hks hka hcn ?_
      show SubX (fun q => e ++ [.name key, .elem ts.length] <+: q ∨ q = e ++ [.name key]) (flat K1 C1) (.table root1) []
      have hoff' : ∀ q, ¬ (e ++ [.name key, .elem ts.length] <+: q ∨ q = e ++ [.name key]) → flat K1 C1 q = flat K' ds.count q :=
        fun q hq => hoff q (fun h => hq (Or.inl h)) (fun h => hq (Or.inr h))
      have hsubX : SubX (fun q => e ++ [.name key, .elem ts.length] <+: q ∨ q = e ++ [.name key]) (flat K1 C1) (.table tc) [] :=
        subX_congr (subX_weaken hsub' (fun _ h => h.elim)) (fun r _ hx => hoff' _ hx)
      refine hr1 _ _ _ [] hsubX ?_ ?_ ?_
      · intro q hq
        rcases hq with hq | hq
        · exact List.IsPrefix.trans (by simp) hq
        · subst hq; simp
      · intro hne hx
        simp only [List.nil_append] at hx ⊢
        rw [hfl.1, hfl.2]
        exact effPath_kind pp tc u e hsubX hep hne hx
      · simp only [List.nil_append]
        intro r hr hx
        cases r with
        | nil => exact absurd rfl hr
        | cons c r' =>
          rw [hoff' _ hx]
          by_cases hc : c = .name key
          · subst hc
            rw [kindI_cons_some _ (.aot ts) _ _ (by rw [stepE_table_name]; exact hv)]
            cases r' with
            | nil => exact absurd (Or.inr rfl) hx
            | cons c2 r'' =>
              have := hch (c2 :: r'') (by simp) (hnx _)
              rw [app_cons] at this
              exact this
          · rw [hsu (c :: r') hr (hnx _)]
            unfold kindI walkE
            rw [hstep c hc]
    dj := by
      refine ⟨hpar, ?_⟩
      intro c s hd
      have := hcurr [c] (by simp)
      rw [(flat_none _ _ _).1 this] at hd
      cases hd
    cpos := hcp1
    elemExp := hee }

theorem arrAt_new (ds : DState) (K : KMap) (e : EPath) (h : kget K e = none) :
    arrAt ds K e = (.valid, { kinds := kset (kset K e .aot) (e ++ [.elem 0]) .explicit, count := kset ds.count e 1,
                              sect := e ++ [.elem 0], sid := ds.sid + 1 }) := by
  simp [arrAt, h]

theorem arrAt_more (ds : DState) (K : KMap) (e : EPath) (n : Nat) (h : kget K e = some .aot) (hn : cget ds.count e = n) :
    arrAt ds K e = (.valid, { kinds := kset K (e ++ [.elem n]) .explicit, count := kset ds.count e (n + 1),
                              sect := e ++ [.elem n], sid := ds.sid + 1 }) := by
  simp [arrAt, h, hn]

theorem arrAt_bad (ds : DState) (K : KMap) (e : EPath) (k : Kind) (h : kget K e = some k) (hk : k ≠ .aot) :
    arrAt ds K e = (.invalid, ds) := by
  cases k <;> simp [arrAt, h] at hk ⊢

theorem startArrayTable_none (sf : ParseState) (path pp : List Bytes) (key : Bytes)
    (hsp : splitLast path = some (pp, key)) (h : descend sf.root pp false (arrStartF key) = none) :
    startArrayTable sf path = none := by
  rw [startArrayTable_eq]
  simp only [hsp, h]

theorem append_two (e : EPath) (a b : Comp) : e ++ [a, b] = e ++ [a] ++ [b] := by simp

/-- a `[[array]]` header after the previous section was closed -/
theorem start_arr_sim (sf : ParseState) (ds : DState) (path : List Bytes)
    (hG : SubX NoX (flat ds.kinds ds.count) (.table sf.root) []) (hwf : WF sf.root) (hcur : sf.current = Tbl.empty)
    (hpar : Par ds.kinds) (hcp : CPos ds.kinds ds.count) (hee : ElemExp ds.kinds) :
    (∀ ds', headerStep ds path (arrAt ds) = (.valid, ds') → ∃ st1, startArrayTable sf path = some st1 ∧ R st1 ds') ∧
    (∀ ds', headerStep ds path (arrAt ds) = (.invalid, ds') → startArrayTable sf path = none) ∧
    (∀ ds', headerStep ds path (arrAt ds) ≠ (.undecided, ds')) := by
  have hnx : ∀ q, ¬ NoX q := fun _ h => h
  cases hsp : splitLast path with
  | none =>
    rw [headerStep_none ds path _ hsp]
    refine ⟨fun ds' h => by simp at h, fun _ _ => ?_, fun ds' h => by simp at h⟩
    rw [startArrayTable_eq]; simp only [hsp]
  | some pr =>
    obtain ⟨pp, key⟩ := pr
    cases hw : hwalk ds.count ds.kinds [] pp with
    | none =>
      rw [headerStep_walk_none ds path pp key _ hsp hw]
      refine ⟨fun ds' h => by simp at h, fun _ _ => ?_, fun ds' h => by simp at h⟩
      obtain ⟨h1, _⟩ := hwalk_sim ds.count pp ds.kinds [] sf.root hG (aotPos_of_cpos hcp hG)
      exact startArrayTable_none sf path pp key hsp (h1 hw _)
    | some pr2 =>
      obtain ⟨K', e⟩ := pr2
      rw [headerStep_walk_some ds path pp key _ K' e hsp hw]
      obtain ⟨tc, hep, hsub', hfr, hsu, hvia⟩ := walk_data _ _ sf.root pp K' e hG hcp hw
      have hpar' : Par K' := par_hframe hpar hfr
      have hcp' : CPos K' ds.count := cpos_hframe hcp hfr
      have hee' : ElemExp K' := hwalk_elemExp _ _ _ _ _ _ hee hw
      have hhere := subX_here (.name key) hsu (hnx _)
      rw [stepE_table_name] at hhere
      have hbad : ∀ k, kget K' (e ++ [.name key]) = some k → k ≠ .aot →
          arrStartF key (target sf.root pp false) = none →
          (∀ ds', arrAt ds K' (e ++ [.name key]) = (.valid, ds') → ∃ st1, startArrayTable sf path = some st1 ∧ R st1 ds') ∧
          (∀ ds', arrAt ds K' (e ++ [.name key]) = (.invalid, ds') → startArrayTable sf path = none) ∧
          (∀ ds', arrAt ds K' (e ++ [.name key]) ≠ (.undecided, ds')) := by
        intro k hk hne hpr
        rw [arrAt_bad ds K' _ k hk hne]
        refine ⟨fun ds' h => by simp at h, fun _ _ => ?_, fun ds' h => by simp at h⟩
        refine startArrayTable_none sf path pp key hsp ?_
        rw [hvia]
        exact descend_none_of_eff pp tc _ e _ hep hpr
      have hlen2 : ∀ (i : Nat) (r : EPath), e ++ [Comp.name key] ≠ e ++ [Comp.name key, Comp.elem i] ++ r := by
        intro i r h
        have := congrArg List.length h
        simp at this
      cases ha : alookup key (target sf.root pp false).items with
      | none =>
        rw [ha] at hhere
        have hkn : kget K' (e ++ [.name key]) = none := (flat_none _ _ _).1 hhere
        rw [arrAt_new ds K' _ hkn]
        refine ⟨fun ds' h => ?_, fun ds' h => by simp at h, fun ds' h => by simp at h⟩
        injection h with _ h2
        subst h2
        have e0 : e ++ [Comp.name key] ++ [Comp.elem 0] = e ++ [Comp.name key, Comp.elem ([] : List Tbl).length] := by simp
        rw [e0]
        have hbelow : ∀ r, r ≠ [] → kget K' (e ++ [Comp.name key] ++ r) = none := by
          intro r hr
          cases r with
          | nil => exact absurd rfl hr
          | cons c r' =>
            rw [app_cons]
            exact (flat_none _ _ _).1 (subX_none (c :: r') hsu (by rw [stepE_table_name]; exact ha) (hnx _))
        refine start_arr_ok sf ds path pp key K' e
          ((target sf.root pp false).setItems ((target sf.root pp false).items ++ [(key, .aot [])])) [] _ _
          hG hwf hcur hcp hsp hw (by simp [arrStartF, ha]) (by simp [alookup_append_new _ _ _ ha])
          (fun c hc => stepE_append_other _ key _ c hc) ⟨rfl, rfl⟩ ?_ (kget_kset_same _ _ _) ?_ (cget_kset_same _ _ _) ?_ ?_ ?_ ?_ ?_
        · intro r hr _
          cases r with
          | nil => exact absurd rfl hr
          | cons c r' =>
            rw [(flat_none _ _ _).2 (hbelow _ hr)]
            unfold kindI walkE
            cases c <;> simp [stepE]
        · rw [kget_kset_ne _ _ _ _ (by rw [append_two]; exact fun h => ne_append_cons _ _ _ h.symm), kget_kset_same]
        · intro q hq1 hq2
          refine flat_congr2 _ _ _ _ _ ?_ (cget_kset_ne _ _ _ _ (fun h => hq2 h.symm))
          rw [kget_kset_ne _ _ _ _ (fun h => hq1 (by rw [← h]; exact List.prefix_refl _)), kget_kset_ne _ _ _ _ (fun h => hq2 h.symm)]
        · intro r hr
          rw [flat_none]
          cases r with
          | nil => exact absurd rfl hr
          | cons c r' =>
            rw [kget_kset_ne _ _ _ _ (ne_append_cons _ _ _), kget_kset_ne _ _ _ _ (hlen2 _ _)]
            have := hbelow (Comp.elem ([] : List Tbl).length :: c :: r') (by simp)
            simpa using this
        · exact par_kset_explicit (par_kset_absent hpar' _ _ hkn (by intro s; simp)) _
        · intro q hq
          rw [kget_kset] at hq
          split at hq
          · cases hq
          · by_cases hqe : e ++ [.name key] = q
            · subst hqe; rw [cget_kset_same]; exact Nat.le_refl 1
            · rw [kget_kset_ne _ _ _ _ hqe] at hq
              rw [cget_kset_ne _ _ _ _ hqe]
              exact hcp' q hq
        · exact elemExp_kset_explicit (elemExp_kset_name hee' _ _ _) _
      | some it =>
        rw [ha] at hhere
        cases it with
        | value v =>
          exact hbad .value ((flat_value _ _ _).1 hhere) (by simp) (by simp [arrStartF, ha])
        | table t0 =>
          simp only [Option.map_some, itemKind] at hhere
          rcases (flat_tbl _ _ _ _ _).1 hhere with ⟨hk, _, _⟩ | ⟨hk, _, _⟩ | ⟨s, hk, _, _⟩
          · exact hbad .explicit hk (by simp) (by simp [arrStartF, ha])
          · exact hbad .implicit hk (by simp) (by simp [arrStartF, ha])
          · exact hbad (.dotted s) hk (by simp) (by simp [arrStartF, ha])
        | aot ts =>
          simp only [Option.map_some, itemKind] at hhere
          obtain ⟨hka, hcn⟩ := (flat_aot _ _ _ _).1 hhere
          rw [arrAt_more ds K' _ ts.length hka hcn]
          refine ⟨fun ds' h => ?_, fun ds' h => by simp at h, fun ds' h => by simp at h⟩
          injection h with _ h2
          subst h2
          have e0 : e ++ [Comp.name key] ++ [Comp.elem ts.length] = e ++ [Comp.name key, Comp.elem ts.length] := by simp
          rw [e0]
          have hst : stepE (.table (target sf.root pp false)) (.name key) = some (.aot ts) := by rw [stepE_table_name]; exact ha
          have hch := subX_child hsu hst
          have hbelow : ∀ r, kget K' (e ++ [Comp.name key, Comp.elem ts.length] ++ r) = none := by
            intro r
            have := hch (Comp.elem ts.length :: r) (by simp) (hnx _)
            rw [kindI_cons_none _ _ _ (by simp [stepE])] at this
            rw [← e0, app_cons]
            exact (flat_none _ _ _).1 this
          have hsne : e ++ [Comp.name key, Comp.elem ts.length] ≠ e ++ [Comp.name key] := by
            intro h
            have := hlen2 ts.length [] (by simpa using h.symm)
            exact this
          refine start_arr_ok sf ds path pp key K' e (target sf.root pp false) ts _ _
            hG hwf hcur hcp hsp hw (by simp [arrStartF, ha]) ha (fun _ _ => rfl) ⟨rfl, rfl⟩ hch (kget_kset_same _ _ _)
            ?_ (cget_kset_same _ _ _) ?_ ?_ ?_ ?_ ?_
          · rw [kget_kset_ne _ _ _ _ hsne]; exact hka
          · intro q hq1 hq2
            refine flat_congr2 _ _ _ _ _ ?_ (cget_kset_ne _ _ _ _ (fun h => hq2 h.symm))
            rw [kget_kset_ne _ _ _ _ (fun h => hq1 (by rw [← h]; exact List.prefix_refl _))]
          · intro r hr
            rw [flat_none]
            cases r with
            | nil => exact absurd rfl hr
            | cons c r' =>
              rw [kget_kset_ne _ _ _ _ (ne_append_cons _ _ _)]
              exact hbelow _
          · exact par_kset_explicit hpar' _
          · intro q hq
            rw [kget_kset] at hq
            split at hq
            · cases hq
            · by_cases hqe : e ++ [.name key] = q
              · subst hqe; rw [cget_kset_same]; omega
              · rw [cget_kset_ne _ _ _ _ hqe]
                exact hcp' q hq
          · exact elemExp_kset_explicit hee' _


/-! ## one statement, and a run -/

/-- one statement: `valid` is accepted and keeps the relation, `invalid` is rejected -/
theorem step_sim (st : ParseState) (ds : DState) (s : Stmt) (h : R st ds) :
    (∀ ds', dstep ds s = (.valid, ds') → ∃ st1, step st s = some st1 ∧ R st1 ds') ∧
    (∀ ds', dstep ds s = (.invalid, ds') → step st s = none) := by
  cases s with
  | kv p k v => exact kv_sim st ds p k v h
  | std p =>
    obtain ⟨sf, hf, hG⟩ := fin_sim st ds h
    have hwf := finalize_wf st sf h.inv hf
    have hc := (finalize_fields st sf hf).1
    have hs : step st (.std p) = startTable sf p := by simp only [step, onStdHeader, hf]
    rw [hs]
    obtain ⟨h1, h2, _⟩ := start_std_sim sf ds p hG hwf hc h.dj.par h.cpos h.elemExp
    exact ⟨h1, h2⟩
  | arr p =>
    obtain ⟨sf, hf, hG⟩ := fin_sim st ds h
    have hwf := finalize_wf st sf h.inv hf
    have hc := (finalize_fields st sf hf).1
    have hs : step st (.arr p) = startArrayTable sf p := by simp only [step, onArrayHeader, hf]
    rw [hs]
    obtain ⟨h1, h2, _⟩ := start_arr_sim sf ds p hG hwf hc h.dj.par h.cpos h.elemExp
    exact ⟨h1, h2⟩

theorem run_sim (stmts : List Stmt) (st : ParseState) (ds : DState) (h : R st ds) :
    (drunFrom ds stmts = .valid → (run st stmts).isSome) ∧
    ((run st stmts).isSome → drunFrom ds stmts ≠ .invalid) := by
  induction stmts generalizing st ds with
  | nil => exact ⟨fun _ => rfl, fun _ => by simp [drunFrom]⟩
  | cons s r ih =>
    obtain ⟨h1, h2⟩ := step_sim st ds s h
    cases hd : dstep ds s with
    | mk vd ds' =>
      cases vd with
      | valid =>
        obtain ⟨st1, hs, hr⟩ := h1 ds' hd
        have e1 : drunFrom ds (s :: r) = drunFrom ds' r := by simp only [drunFrom, hd]
        have e2 : run st (s :: r) = run st1 r := by simp only [run, hs]
        rw [e1, e2]
        exact ih st1 ds' hr
      | invalid =>
        have e1 : drunFrom ds (s :: r) = .invalid := by simp only [drunFrom, hd]
        have e2 : run st (s :: r) = none := by simp only [run, h2 ds' hd]
        rw [e1, e2]
        exact ⟨fun h => (by cases h), fun h => (by simp at h)⟩
      | undecided =>
        have e1 : drunFrom ds (s :: r) = .undecided := by simp only [drunFrom, hd]
        rw [e1]
        exact ⟨fun h => (by cases h), fun _ h => (by cases h)⟩


/-! ## class U1: the dotted key whose last table is header-implicit -/

theorem kwalk_eff (sid : Nat) (p : List Bytes) (K : KMap) (b : EPath) (K' : KMap) (e : EPath)
    (h : kwalk sid K b p = (.valid, K', e)) : ∃ r, e = b ++ r := by
  induction p generalizing K b with
  | nil => simp [kwalk] at h; exact ⟨[], by simp [h.2]⟩
  | cons n r ih =>
    simp only [kwalk] at h
    split at h
    · obtain ⟨r', e'⟩ := ih _ _ h
      exact ⟨.name n :: r', by rw [e', app_cons]⟩
    · split at h
      · obtain ⟨r', e'⟩ := ih _ _ h
        exact ⟨.name n :: r', by rw [e', app_cons]⟩
      · simp at h
    · simp at h
    · simp at h

/-- the dotted-key walk of the rules only adds `dotted sid` entries -/
theorem kwalk_frame (sid : Nat) (p : List Bytes) (K : KMap) (b : EPath) (K' : KMap) (e : EPath)
    (h : kwalk sid K b p = (.valid, K', e)) : ∀ q, kget K' q = kget K q ∨ kget K' q = some (.dotted sid) := by
  induction p generalizing K b with
  | nil => simp [kwalk] at h; intro q; rw [h.1]; exact Or.inl rfl
  | cons n r ih =>
    simp only [kwalk] at h
    split at h
    · intro q
      rcases ih _ _ h q with h1 | h1
      · rw [kget_kset] at h1
        split at h1
        · exact Or.inr h1
        · exact Or.inl h1
      · exact Or.inr h1
    · split at h
      · exact ih _ _ h
      · simp at h
    · simp at h
    · simp at h

theorem kwalk_append (sid : Nat) (p q : List Bytes) (K : KMap) (b : EPath) :
    kwalk sid K b (p ++ q) = match kwalk sid K b p with
      | (.valid, K', e) => kwalk sid K' e q
      | r => r := by
  induction p generalizing K b with
  | nil => simp [kwalk]
  | cons n r ih =>
    simp only [List.cons_append, kwalk]
    split
    · exact ih _ _
    · split
      · exact ih _ _
      · rfl
    · rfl
    · rfl

/-- a walk that ends at a table with an old entry below it created nothing and followed existing tables -/
theorem kwalk_existing (sid : Nat) (C : CMap) (p : List Bytes) (K : KMap) (b : EPath) (t : Tbl) (K' : KMap) (e : EPath)
    (c : Comp) (hs : SubX NoX (flat K C) (.table t) b) (hw : kwalk sid K b p = (.valid, K', e))
    (hc : kget K (e ++ [c]) ≠ none) :
    K' = K ∧ ∃ u, lookupTbl t p = some u ∧ SubX NoX (flat K C) (.table u) e := by
  have hnx : ∀ q, ¬ NoX q := fun _ h => h
  induction p generalizing K b t with
  | nil => simp [kwalk] at hw; rw [← hw.1, ← hw.2]; exact ⟨rfl, t, rfl, hs⟩
  | cons k ks ih =>
    have hhere := subX_here (.name k) hs (hnx _)
    rw [stepE_table_name] at hhere
    cases ha : alookup k t.items with
    | none =>
      rw [ha] at hhere
      rw [kwalk_cons_none sid K b k ks ((flat_none _ _ _).1 hhere)] at hw
      obtain ⟨r, er⟩ := kwalk_eff _ _ _ _ _ _ hw
      exfalso
      apply hc
      have e1 : e ++ [c] = b ++ Comp.name k :: (r ++ [c]) := by rw [er]; simp
      rw [e1]
      exact (flat_none _ _ _).1 (subX_none _ hs (by rw [stepE_table_name]; exact ha) (hnx _))
    | some it =>
      rw [ha] at hhere
      cases it with
      | value x =>
        rw [kwalk_cons_bad sid K b k ks .value ((flat_value _ _ _).1 hhere) (Or.inl rfl)] at hw
        simp at hw
      | aot ts =>
        simp only [Option.map_some, itemKind] at hhere
        rw [kwalk_cons_bad sid K b k ks .aot ((flat_aot _ _ _ _).1 hhere).1 (Or.inr (Or.inr rfl))] at hw
        simp at hw
      | table sub =>
        simp only [Option.map_some, itemKind] at hhere
        have hst : stepE (.table t) (.name k) = some (.table sub) := by rw [stepE_table_name]; exact ha
        rcases (flat_tbl _ _ _ _ _).1 hhere with ⟨hk, _, _⟩ | ⟨hk, _, _⟩ | ⟨s, hk, _, _⟩
        · rw [kwalk_cons_bad sid K b k ks .explicit hk (Or.inr (Or.inl rfl))] at hw
          simp at hw
        · rw [kwalk_cons_implicit sid K b k ks hk] at hw
          simp at hw
        · by_cases hsid : s = sid
          · subst hsid
            rw [kwalk_cons_dotted s K b k ks hk] at hw
            obtain ⟨h1, u, h2, h3⟩ := ih K (b ++ [.name k]) sub (subX_child hs hst) hw hc
            exact ⟨h1, u, by simp [lookupTbl, ha, h2], h3⟩
          · simp [kwalk, hk, hsid] at hw

/-- U1, direct case: the dotted key `p.k.key` where `p.k` is a header-implicit table is rejected -/
theorem u1_direct (st : ParseState) (ds : DState) (p : List Bytes) (k key : Bytes) (v : Val) (h : R st ds)
    (K' : KMap) (e : EPath) (hw : kwalk ds.sid ds.kinds ds.sect p = (.valid, K', e))
    (hk : kget K' (e ++ [.name k]) = some .implicit) :
    dstep ds (.kv (p ++ [k]) key v) = (.undecided, ds) ∧ onKeyval st (p ++ [k]) key v = none := by
  have hnx : ∀ q, ¬ NoX q := fun _ h => h
  refine ⟨?_, ?_⟩
  · have : kwalk ds.sid ds.kinds ds.sect (p ++ [k]) = (.undecided, K', e) := by
      rw [kwalk_append, hw]
      simp [kwalk, hk]
    have hds : dstep ds (.kv (p ++ [k]) key v) = match kwalk ds.sid ds.kinds ds.sect (p ++ [k]) with
        | (.valid, K, eff) => kvAt ds K (eff ++ [Comp.name key])
        | (v, _, _) => (v, ds) := rfl
    rw [hds, this]
  · have hk0 : kget ds.kinds (e ++ [.name k]) = some .implicit := by
      rcases kwalk_frame _ _ _ _ _ _ hw (e ++ [.name k]) with h1 | h1
      · rw [← h1]; exact hk
      · rw [hk] at h1; cases h1
    obtain ⟨_, u, hl, hsu⟩ := kwalk_existing ds.sid ds.count p ds.kinds ds.sect st.current K' e (.name k) h.cur hw
      (by rw [hk0]; simp)
    rw [onKeyval_eq]
    cases hd : descend st.current (p ++ [k]) true (kvF (p ++ [k]) key v) with
    | none => rfl
    | some t' =>
      exfalso
      have h1 := descend_append_some _ _ _ _ _ _ hd
      obtain ⟨u', h2, _⟩ := descend_spec _ _ _ _ _ h1
      have ht : target st.current p true = u := by simp [target, hl]
      rw [ht] at h2
      have hhere := subX_here (.name k) hsu (hnx _)
      rw [stepE_table_name, (show flat ds.kinds ds.count (e ++ [.name k]) = some (.tbl true false) by
        simp [flat, hk0, Kind.toT])] at hhere
      cases ha : alookup k u.items with
      | none => rw [ha] at hhere; cases hhere
      | some it =>
        rw [ha] at hhere
        cases it with
        | value x => simp [itemKind] at hhere
        | aot ts => simp [itemKind] at hhere
        | table sub =>
          simp only [Option.map_some, itemKind, Option.some.injEq, TKind.tbl.injEq] at hhere
          rw [descend_cons_table u sub k [] true _ (by simp [ha]) (by simp [← hhere.1])] at h2
          have : descend sub [] true (kvF (p ++ [k]) key v) = none := by
            simp [descend, kvF, ← hhere.2]
          rw [this] at h2
          cases h2


/-- the state of the rules after a list of statements all judged `valid` -/
def dstateFrom : DState → List Stmt → Option DState
  | ds, [] => some ds
  | ds, s :: r => match dstep ds s with
    | (.valid, ds') => dstateFrom ds' r
    | _ => none

theorem dstateFrom_cons (ds ds1 : DState) (s : Stmt) (r : List Stmt) (h : dstateFrom ds (s :: r) = some ds1) :
    ∃ ds', dstep ds s = (.valid, ds') ∧ dstateFrom ds' r = some ds1 := by
  simp only [dstateFrom] at h
  cases hd : dstep ds s with
  | mk vd ds' =>
    rw [hd] at h
    cases vd with
    | valid => exact ⟨ds', rfl, h⟩
    | invalid => simp at h
    | undecided => simp at h

theorem run_R (stmts : List Stmt) (st : ParseState) (ds ds1 : DState) (h : R st ds) (hd : dstateFrom ds stmts = some ds1) :
    ∃ st1, run st stmts = some st1 ∧ R st1 ds1 := by
  induction stmts generalizing st ds with
  | nil => simp [dstateFrom] at hd; subst hd; exact ⟨st, rfl, h⟩
  | cons s r ih =>
    obtain ⟨ds', h1, h2⟩ := dstateFrom_cons ds ds1 s r hd
    obtain ⟨st', hs, hr⟩ := (step_sim st ds s h).1 ds' h1
    obtain ⟨st1, hr1, hR⟩ := ih st' ds' hr h2
    exact ⟨st1, by simp only [run, hs, hr1], hR⟩

theorem drunFrom_append (s1 r : List Stmt) (ds ds1 : DState) (hd : dstateFrom ds s1 = some ds1) :
    drunFrom ds (s1 ++ r) = drunFrom ds1 r := by
  induction s1 generalizing ds with
  | nil => simp [dstateFrom] at hd; subst hd; rfl
  | cons s r' ih =>
    obtain ⟨ds', h1, h2⟩ := dstateFrom_cons ds ds1 s r' hd
    simp only [List.cons_append, drunFrom, h1]
    exact ih ds' h2

end TomlVerif.Lemmas.DefRules09
