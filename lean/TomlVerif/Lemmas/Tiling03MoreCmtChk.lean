import TomlVerif.Lemmas.Tiling03MoreCmtTInv
/-! C03, "every comment is kept" — decidable versions of the tree invariants `VD` / `TDc`
    (used for the non-vacuity examples, and to state the printer half for ANY tree that passes
    the check, parsed or not). -/
namespace TomlVerif.Lemmas.Tiling03More
open TomlVerif TomlVerif.Spec TomlVerif.Model TomlVerif.Model.Strings TomlVerif.Model.Value
open TomlVerif.Model.Cst TomlVerif.Model.Encode TomlVerif.Lemmas.Cst03
open TomlVerif.Lemmas.Refine08c TomlVerif.Lemmas.Spans14

/-- `DotBare`, decidable -/
def dotBareOk (k : CKey) : CVal → Bool
  | .inl _ pre _ dot dec _ => !dot || (decide (k.leaf = {}) && decide (dec = {}) && decide (pre = .empty))
  | _ => true

theorem dotBareOk_sound (k : CKey) (v : CVal) (h : dotBareOk k v = true) : DotBare k v := by
  cases v with
  | scalar _ _ _ => trivial
  | arr _ _ _ _ _ => trivial
  | inl sub pre imp dot dec sp =>
    intro hd
    subst hd
    simp only [dotBareOk, Bool.not_true, Bool.false_or, Bool.and_eq_true, decide_eq_true_eq] at h
    exact ⟨h.1.1, h.1.2, h.2⟩

mutual
def vdOk : CVal → Bool
  | .scalar _ _ _ => true
  | .arr items _ _ _ _ => vsdOk items
  | .inl items _ _ _ _ _ => kvsdOk items
def vsdOk : List CVal → Bool
  | [] => true
  | v :: r => vdOk v && vsdOk r
def kvsdOk : List (CKey × CVal) → Bool
  | [] => true
  | (k, v) :: r => dotBareOk k v && vdOk v && kvsdOk r
end

mutual
theorem vdOk_sound : ∀ v : CVal, vdOk v = true → VD v
  | .scalar _ _ _, _ => by rw [VD]; trivial
  | .arr items _ _ _ _, h => by rw [vdOk] at h; rw [VD]; exact vsdOk_sound items h
  | .inl items _ _ _ _ _, h => by rw [vdOk] at h; rw [VD]; exact kvsdOk_sound items h
theorem vsdOk_sound : ∀ l : List CVal, vsdOk l = true → VsD l
  | [], _ => by rw [VsD]; trivial
  | v :: r, h => by
    rw [vsdOk, Bool.and_eq_true] at h
    rw [VsD]
    exact ⟨vdOk_sound v h.1, vsdOk_sound r h.2⟩
theorem kvsdOk_sound : ∀ l : List (CKey × CVal), kvsdOk l = true → KvsD l
  | [], _ => by rw [KvsD]; trivial
  | (k, v) :: r, h => by
    rw [kvsdOk, Bool.and_eq_true, Bool.and_eq_true] at h
    rw [KvsD]
    exact ⟨⟨dotBareOk_sound k v h.1.1, vdOk_sound v h.1.2⟩, kvsdOk_sound r h.2⟩
end

mutual
/-- `TDc`, decidable -/
def tdcOk : CTbl → Bool
  | .mk items imp dot _ dec _ => (!(imp || dot) || decide (dec = {})) && idcOk items
def idcOk : List (CKey × CItem) → Bool
  | [] => true
  | (_, it) :: r => (match it with
      | .value v => notDottedInl v && vdOk v
      | .table t => tdcOk t
      | .aot ts _ => tsdcOk ts) && idcOk r
def tsdcOk : List CTbl → Bool
  | [] => true
  | t :: r => !t.dotted && tdcOk t && tsdcOk r
end

mutual
theorem tdcOk_sound : ∀ t : CTbl, tdcOk t = true → TDc t
  | .mk items imp dot _ dec _, h => by
    rw [tdcOk, Bool.and_eq_true] at h
    rw [TDc]
    refine ⟨?_, idcOk_sound items h.2⟩
    intro hh
    have h1 := h.1
    rcases hh with hh | hh <;> subst hh <;> simpa using h1
theorem idcOk_sound : ∀ l : List (CKey × CItem), idcOk l = true → IDc l
  | [], _ => by rw [IDc]; trivial
  | (k, .value v) :: r, h => by
    rw [idcOk, Bool.and_eq_true] at h
    rw [IDc]
    have h1 := h.1
    simp only [Bool.and_eq_true] at h1
    exact ⟨⟨h1.1, vdOk_sound v h1.2⟩, idcOk_sound r h.2⟩
  | (k, .table t) :: r, h => by
    rw [idcOk, Bool.and_eq_true] at h
    rw [IDc]
    exact ⟨tdcOk_sound t h.1, idcOk_sound r h.2⟩
  | (k, .aot ts _) :: r, h => by
    rw [idcOk, Bool.and_eq_true] at h
    rw [IDc]
    exact ⟨tsdcOk_sound ts h.1, idcOk_sound r h.2⟩
theorem tsdcOk_sound : ∀ l : List CTbl, tsdcOk l = true → TsDc l
  | [], _ => by rw [TsDc]; trivial
  | t :: r, h => by
    rw [tsdcOk, Bool.and_eq_true, Bool.and_eq_true] at h
    rw [TsDc]
    exact ⟨⟨by simpa using h.1.1, tdcOk_sound t h.1.2⟩, tsdcOk_sound r h.2⟩
end

/-- the check on a document: the tree invariant, and the root is not dotted -/
def cmtDocOk (d : CDoc) : Bool := tdcOk d.root && !d.root.dotted

theorem cmtDocOk_sound (d : CDoc) (h : cmtDocOk d = true) : TDc d.root ∧ d.root.dotted = false := by
  simp only [cmtDocOk, Bool.and_eq_true, Bool.not_eq_true'] at h
  exact ⟨tdcOk_sound _ h.1, h.2⟩

/-! ### non-vacuity of the hypotheses of the lemma files -/

/-- `valPieces_printed`, `cvalue_VD`: a parsed inline table with dotted keys, arrays and comments -/
example : (parseCstValue (strBytes "{ a.b = [1, # c\n 2], a.c.d = { e.f = 3 } }")).map vdOk = some true := by
  decide +kernel

/-- the hypothesis `VD` is needed: a dotted inline table with a (hand-made) decor loses it -/
example :
    let v : CVal := .inl [(⟨[0x61], .spanned 0 1, {}, {}⟩,
      .inl [(⟨[0x62], .spanned 2 3, {}, {}⟩, .scalar (.bool true) (.spanned 4 8) {})]
        .empty true true ⟨some (.spanned 8 11), none⟩ none)] .empty false false {} none
    let inp := strBytes "a.b=true#c\n"
    vdOk v = false ∧ valPieces inp v = [[], strBytes "#c\n", []] ∧
      isInfix (strBytes "#c") (encodeValue stripCr inp v [] []) = false := by
  decide +kernel

/-- `tblPieces_printed`: the hypothesis `TDc` is needed — an implicit table without values is not
    printed, so a (hand-made) decor on it is lost -/
example :
    let d : CDoc := ⟨.mk [(⟨[0x61], .spanned 0 1, {}, {}⟩,
      .table (.mk [] true false none ⟨some (.spanned 1 4), none⟩ none))] false false none {} none, .empty⟩
    let inp := strBytes "a#c\n"
    cmtDocOk d = false ∧ recordedComments inp d = [strBytes "#c"] ∧ printDoc inp d = [] := by
  decide +kernel

end TomlVerif.Lemmas.Tiling03More
