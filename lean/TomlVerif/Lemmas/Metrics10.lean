import TomlVerif.Model.Write
import TomlVerif.Lemmas.ByteDecide
/-! What `ValueMetrics::calculate` / `KeyMetrics::calculate` compute, in closed form. -/
namespace TomlVerif.Lemmas
open TomlVerif TomlVerif.Spec TomlVerif.Model.Write

/-- bytes that set `escape_codes` in `ValueMetrics::calculate` -/
def escCodeByte (b : UInt8) : Bool := b != 0x5C && b != 0x09 && b != 0x0A && isCtlByte b

/-- no run of more than two `q` in `s`, given `k` of them immediately before -/
def noTriple (q : UInt8) : Nat → Bytes → Bool
  | _, [] => true
  | k, b :: s => if b == q then decide (k + 1 ≤ 2) && noTriple q (k + 1) s else noTriple q 0 s

theorem vmStep_escapeCodes (m : ValueMetrics) (ps pd : Nat) (b : UInt8) :
    (vmStep (m, ps, pd) b).1.escapeCodes = (m.escapeCodes || escCodeByte b) := by
  unfold vmStep escCodeByte
  by_cases h1 : b = 0x5C <;> by_cases h2 : b = 0x09 <;> by_cases h3 : b = 0x0A <;>
    by_cases h4 : isCtlByte b = true <;> by_cases h5 : b = 0x27 <;> by_cases h6 : b = 0x22 <;>
    simp_all

theorem vmStep_newline (m : ValueMetrics) (ps pd : Nat) (b : UInt8) :
    (vmStep (m, ps, pd) b).1.newline = (m.newline || b == 0x0A) := by
  unfold vmStep
  by_cases h1 : b = 0x5C <;> by_cases h2 : b = 0x09 <;> by_cases h3 : b = 0x0A <;>
    by_cases h4 : isCtlByte b = true <;> by_cases h5 : b = 0x27 <;> by_cases h6 : b = 0x22 <;>
    simp_all

theorem vmStep_maxSingle (m : ValueMetrics) (ps pd : Nat) (b : UInt8) :
    (vmStep (m, ps, pd) b).1.maxSingle = (if b == 0x27 then max m.maxSingle (ps + 1) else m.maxSingle) := by
  unfold vmStep
  by_cases h1 : b = 0x5C <;> by_cases h2 : b = 0x09 <;> by_cases h3 : b = 0x0A <;>
    by_cases h4 : isCtlByte b = true <;> by_cases h5 : b = 0x27 <;> by_cases h6 : b = 0x22 <;>
    simp_all

theorem vmStep_ps (m : ValueMetrics) (ps pd : Nat) (b : UInt8) :
    (vmStep (m, ps, pd) b).2.1 = (if b == 0x27 then ps + 1 else 0) := by
  unfold vmStep
  by_cases h1 : b = 0x5C <;> by_cases h2 : b = 0x09 <;> by_cases h3 : b = 0x0A <;>
    by_cases h4 : isCtlByte b = true <;> by_cases h5 : b = 0x27 <;> by_cases h6 : b = 0x22 <;>
    simp_all

theorem vm_fold (s : Bytes) : ∀ (st : ValueMetrics × Nat × Nat),
    (s.foldl vmStep st).1.escapeCodes = (st.1.escapeCodes || s.any escCodeByte) ∧
    (s.foldl vmStep st).1.newline = (st.1.newline || s.any (· == 0x0A)) ∧
    st.1.maxSingle ≤ (s.foldl vmStep st).1.maxSingle ∧
    ((s.foldl vmStep st).1.maxSingle ≤ 2 → noTriple 0x27 st.2.1 s = true) ∧
    ((s.foldl vmStep st).1.maxSingle = 0 → s.all (· != 0x27) = true) := by
  induction s with
  | nil => intro st; simp [noTriple]
  | cons b s ih =>
    intro st
    obtain ⟨m, ps, pd⟩ := st
    obtain ⟨i1, i2, i3, i4, i5⟩ := ih (vmStep (m, ps, pd) b)
    simp only [List.foldl_cons]
    rw [vmStep_escapeCodes] at i1
    rw [vmStep_newline] at i2
    rw [vmStep_maxSingle] at i3
    rw [vmStep_ps] at i4
    refine ⟨?_, ?_, ?_, ?_, ?_⟩
    · rw [i1]; simp [Bool.or_assoc]
    · rw [i2]; simp [Bool.or_assoc]
    · split at i3
      · exact Nat.le_trans (Nat.le_max_left _ _) i3
      · exact i3
    · intro h
      have := i4 h
      by_cases hb : b = 0x27
      · subst hb
        simp at i3 this
        simp [noTriple, this]; omega
      · simp [hb] at this
        simp [noTriple, hb, this]
    · intro h
      have h5 := i5 h
      by_cases hb : b = 0x27
      · subst hb; simp at i3; omega
      · simp [hb, h5]

end TomlVerif.Lemmas
