import TomlVerif.Lemmas.Tiling03MoreGen2State
/-! C03, same data, headers THROUGH dotted-key tables — the line loop and `parse_document` for the
    class `genRun2`. -/
namespace TomlVerif.Lemmas.Tiling03More.Gen
open TomlVerif TomlVerif.Spec TomlVerif.Model TomlVerif.Model.Strings TomlVerif.Model.Value
open TomlVerif.Model.Cst TomlVerif.Model.Encode TomlVerif.Lemmas.Suffix03 TomlVerif.Lemmas.Cst03
open TomlVerif.Lemmas.LastByte03 TomlVerif.Lemmas.Tiling03 TomlVerif.Lemmas.Tiling03Hdr
open TomlVerif.Lemmas.Tiling03Nest TomlVerif.Lemmas.Tiling03More TomlVerif.Lemmas.Tiling03More.VS
open TomlVerif.Lemmas.Tiling03More.Tko TomlVerif.Lemmas.Tiling03More.Nad
open TomlVerif.Spec.AstValue TomlVerif.Spec.AstValueQ TomlVerif.Spec.AstDoc TomlVerif.Spec.AstDocQ
open TomlVerif.Lemmas.Value01 (commentBytes)
open TomlVerif.Lemmas.State09 (Stmt run step run_append)

theorem ainv2_initT (s base : Bytes) (hbase : s = base ++ Doc.stripBom s) :
    AInvT2 TrivOK s {} (Doc.stripBom s) := by
  refine ⟨[], [], [], (fun p hp => by cases hp), rfl, ?_, ?_, ?_, ?_, Or.inl ⟨rfl, rfl⟩,
    ⟨base, by simpa using hbase.symm⟩, triv_nil⟩
  · rw [eraseState_init]; rfl
  · exact Or.inl ⟨rfl, rfl, [], false, some (0, 0), rfl, mixOk_nil s, fun _ => rfl, gk2_nil s, rfl⟩
  · exact ⟨rfl, rfl, rfl, rfl, rfl, fun h => absurd rfl h⟩
  · exact gk2_nil s

theorem clines_ginv2 (inp : Bytes) :
    ∀ (fuel : Nat) (st : CState) (s : Bytes) (stf : CState),
      clines inp.length fuel st s = some stf → runOkG2 inp fuel st s = true →
      GInvG2 TrivOK inp st s → GInvG2 TrivEnd inp stf [] := by
  intro fuel
  induction fuel with
  | zero => intro st s stf h; unfold clines at h; cases h
  | succ fuel ih =>
    intro st s stf h hr hI
    unfold clines at h
    unfold runOkG2 at hr
    cases s with
    | nil =>
      simp only [] at h
      injection h with h; subst h; exact ginv2_end inp st [] hI
    | cons b r =>
      simp only [] at h hr
      by_cases hb1 : (b == 0x23) = true
      · simp only [hb1, if_true] at h hr
        have hb : b = 0x23 := by simpa using hb1
        subst hb
        obtain ⟨body, hbody, ebody⟩ := Sound01.dropComment_split r
        cases hdc : dropComment r with
        | nil =>
          simp only [hdc] at h
          injection h with h; subst h
          rw [hdc, List.append_nil] at ebody
          have h1 := ginv2_consume TrivOK TrivEnd inp st (0x23 :: r) [] hI
            ⟨0x23 :: body, by rw [ebody]; simp, fun tr ht => triv_comment_eof tr body ht hbody⟩
          rw [pos_nil] at h1
          exact ginv2_parseWs_end inp _ h1
        | cons c1 r1 =>
          simp only [hdc] at h hr
          cases hnl : newline? (c1 :: r1) with
          | none => simp only [hnl] at h; cases h
          | some r2 =>
            simp only [hnl] at h hr
            obtain ⟨nl, enl, hnls⟩ := newline?_piece _ _ hnl
            have h1 := ginv2_consume TrivOK TrivOK inp st (0x23 :: r) r2 hI
              ⟨0x23 :: body ++ nl, by rw [ebody, hdc, enl]; simp [List.append_assoc],
                fun tr ht => triv_comment tr body nl ht hbody hnls⟩
            exact ih _ _ _ h hr (ginv2_parseWs inp _ r2 h1)
      · simp only [hb1, Bool.false_eq_true, if_false] at h hr
        by_cases hb2 : (b == 0x5B) = true
        · simp only [hb2, if_true, Bool.and_eq_true] at h hr
          cases hl : ctableLine inp.length st (b :: r) with
          | none => simp only [hl] at h; cases h
          | some pr =>
            obtain ⟨st', r1⟩ := pr
            simp only [hl] at h hr
            have h1 := header_step_G2 inp st st' (b :: r) r1 hl hr.1 hI
            exact ih _ _ _ h hr.2 (ginv2_parseWs inp _ r1 h1)
        · simp only [hb2, Bool.false_eq_true, if_false] at h hr
          by_cases hb3 : (b == 0x0A || b == 0x0D) = true
          · simp only [hb3, if_true] at h hr
            cases hnl : newline? (b :: r) with
            | none => simp only [hnl] at h; cases h
            | some r1 =>
              simp only [hnl] at h hr
              obtain ⟨nl, enl, hnls⟩ := newline?_piece _ _ hnl
              have h1 := ginv2_consume TrivOK TrivOK inp st (b :: r) r1 hI
                ⟨nl, enl, fun tr ht => triv_nl tr nl ht hnls⟩
              exact ih _ _ _ h hr (ginv2_parseWs inp _ r1 h1)
          · simp only [hb3, Bool.false_eq_true, if_false, Bool.and_eq_true] at h hr
            cases hl : ckeyvalLine inp.length st (b :: r) with
            | none => simp only [hl] at h; cases h
            | some pr =>
              obtain ⟨st', r1⟩ := pr
              simp only [hl] at h hr
              have h1 := keyval_step_G2 inp st st' (b :: r) r1 hl hr.1 hI
              exact ih _ _ _ h hr.2 (ginv2_parseWs inp _ r1 h1)

/-- the printed text of a source in the class decodes to the same table -/
theorem same_data_gen2 (s : Bytes) (d : CDoc) (h : parseCst s = some d) (hrun : genRun2 s = true) :
    Doc.parseDocument (printDoc s d) = some (eraseTbl d.root) := by
  obtain ⟨base, hbase⟩ := stripBom_split s
  unfold parseCst at h
  unfold genRun2 at hrun
  simp only [] at h hrun
  split at h
  · rename_i stf hcl
    have h1 := ginv2_parseWs s _ _ (ainvT2_ginv2_subs TrivOK s {} _ (ainv2_initT s base hbase) rfl)
    obtain ⟨ls, T, tr, a1, a2, a3, hsh, hP, hg, a7, a8, a9⟩ :=
      ginv2_ainvT2 TrivEnd s _ _ (clines_ginv2 s _ _ _ _ hcl hrun h1)
    have hinto := intoDocument_erase stf
    rw [h] at hinto
    unfold intoDocument at h
    split at h
    · rename_i st' hfin
      injection h with h; subst h
      obtain ⟨f1, f2, f3, _, _, f6, f7, f8, f9, _⟩ := finalize_T2 s stf st' T hfin hsh hP hg
      obtain ⟨tl, l, t1, t2, t3, t4⟩ := a9
      have htr : rawText s (takeTrailing stf.trailing) = tr := trailIs_text s _ tr [] a7 a8
      have hp : printDoc s { root := st'.root, trailing := takeTrailing st'.trailing }
          = renderLinesQ ls ++ (renderLinesQ tl ++ l.render) := by
        unfold printDoc
        rw [printDocG_ord stripCr s _ f7 f8 f6 f2 (fun x hx => (f9 x hx).1)]
        simp only [encRaw]
        rw [f1, f3, htr, t4, a2]
      let q : QDoc := ⟨false, ls ++ tl, some l⟩
      have hwf : q.WF := by
        refine ⟨?_, ?_⟩
        · intro p hp'
          rcases List.mem_append.1 hp' with hp' | hp'
          · exact a1 p hp'
          · exact (t1 p hp').1
        · intro l' hl'
          injection hl' with hl'
          subst hl'; exact t2
      have hr : q.render = renderLinesQ ls ++ (renderLinesQ tl ++ l.render) := by
        simp [QDoc.render, q, bomBytes, renderLinesQ_append, renderLastQ, List.append_assoc]
      have hst : q.stmts = stmtsLinesQ ls := by
        simp [QDoc.stmts, q, stmtsLinesQ_append, trivLines_stmts tl t1, stmtsLastQ, t3]
      rw [hp, ← hr, SoundDoc01C.parseDocument_renderQ q hwf, hst, a3]
      simp only [Option.bind_some]
      rw [← hinto]; rfl
    · cases h
  · cases h


end TomlVerif.Lemmas.Tiling03More.Gen
