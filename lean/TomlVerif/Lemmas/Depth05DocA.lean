import TomlVerif.Lemmas.Depth05
import TomlVerif.Lemmas.State09
import TomlVerif.Lemmas.TypedGapsParsedA
/-! Nesting depth of the decoded document tree (C05, document level), part A: the depth functions `nestItem` /
    `nestTbl`, the invariant `OkTbl n d` the definition state machine keeps ("this table sits `n` keys below the
    root; `d` of the tables between it and its nearest header-made ancestor were made by dotted keys"), and the
    bound the invariant gives: `nestTbl t ≤ 3 * LIMIT - 2` for the root. -/
namespace TomlVerif.Lemmas.Depth05Doc
open TomlVerif TomlVerif.Model TomlVerif.Model.Value TomlVerif.Model.State
open TomlVerif.Lemmas.Depth05 TomlVerif.Lemmas.State09
open TomlVerif.Lemmas.TypedGapsParsed (mem_of_alookup mem_areplace mem_aset mem_aerase)

/-! ## depth of the decoded tree -/

mutual
/-- nesting depth of an item: a value counts its own nesting, a table one level plus its deepest entry, an array
    of tables one level for the array plus its deepest table -/
def nestItem : Item → Nat
  | .value v => nest v
  | .table t => nestTbl t
  | .aot ts => 1 + nestTbls ts
def nestTbl : Tbl → Nat
  | .mk items _ _ _ => 1 + nestItems items
def nestItems : List (Bytes × Item) → Nat
  | [] => 0
  | (_, it) :: r => max (nestItem it) (nestItems r)
def nestTbls : List Tbl → Nat
  | [] => 0
  | t :: r => max (nestTbl t) (nestTbls r)
end

example : nestTbl (.mk [([1], .value (.arr [.int 1])), ([2], .aot [.mk [([3], .value (.int 1))] false false none])]
    false false none) = 3 := by decide

theorem nestTbl_eq (t : Tbl) : nestTbl t = 1 + nestItems t.items := by
  obtain ⟨i, a, b, c⟩ := t; rw [nestTbl]; rfl

theorem nestItems_le (B : Nat) (l : List (Bytes × Item)) : nestItems l ≤ B ↔ ∀ p ∈ l, nestItem p.2 ≤ B := by
  induction l with
  | nil => simp [nestItems]
  | cons x r ih =>
    obtain ⟨k, it⟩ := x
    simp only [nestItems, List.mem_cons, forall_eq_or_imp, ← ih]
    omega

theorem nestTbls_le (B : Nat) (l : List Tbl) : nestTbls l ≤ B ↔ ∀ t ∈ l, nestTbl t ≤ B := by
  induction l with
  | nil => simp [nestTbls]
  | cons x r ih =>
    simp only [nestTbls, List.mem_cons, forall_eq_or_imp, ← ih]
    omega

/-! ## the invariant -/

mutual
/-- `OkItem it n d`: `it` is an entry of a table that sits `n` keys below the root and `d` dotted-key tables below
    its nearest header-made ancestor.  Values stay below the limit together with the dotted tables above them;
    every table or array of tables made by a header sits fewer than `LIMIT` keys below the root. -/
def OkItem : Item → Nat → Nat → Prop
  | .value v, _, d => d + nest v < LIMIT
  | .table t, n, d =>
    (t.dotted = true → d + 1 < LIMIT ∧ OkTbl t (n + 1) (d + 1)) ∧
    (t.dotted = false → n + 1 < LIMIT ∧ OkTbl t (n + 1) 0)
  | .aot ts, n, _ => n + 1 < LIMIT ∧ OkTbls ts (n + 1)
def OkTbl : Tbl → Nat → Nat → Prop
  | .mk items _ _ _, n, d => OkItems items n d
def OkItems : List (Bytes × Item) → Nat → Nat → Prop
  | [], _, _ => True
  | (_, it) :: r, n, d => OkItem it n d ∧ OkItems r n d
def OkTbls : List Tbl → Nat → Prop
  | [], _ => True
  | t :: r, n => OkTbl t n 0 ∧ OkTbls r n
end

theorem okItems_iff (l : List (Bytes × Item)) (n d : Nat) : OkItems l n d ↔ ∀ p ∈ l, OkItem p.2 n d := by
  induction l with
  | nil => simp [OkItems]
  | cons x r ih => obtain ⟨k, it⟩ := x; simp [OkItems, ih]

theorem okTbls_iff (l : List Tbl) (n : Nat) : OkTbls l n ↔ ∀ t ∈ l, OkTbl t n 0 := by
  induction l with
  | nil => simp [OkTbls]
  | cons x r ih => simp [OkTbls, ih]

theorem okTbl_iff (t : Tbl) (n d : Nat) : OkTbl t n d ↔ ∀ p ∈ t.items, OkItem p.2 n d := by
  obtain ⟨i, a, b, c⟩ := t
  rw [OkTbl, okItems_iff]; rfl

theorem okItem_value (v : Val) (n d : Nat) : OkItem (.value v) n d ↔ d + nest v < LIMIT := by rw [OkItem]

theorem okItem_table (t : Tbl) (n d : Nat) : OkItem (.table t) n d ↔
    (t.dotted = true → d + 1 < LIMIT ∧ OkTbl t (n + 1) (d + 1)) ∧
    (t.dotted = false → n + 1 < LIMIT ∧ OkTbl t (n + 1) 0) := by rw [OkItem]

theorem okItem_aot (ts : List Tbl) (n d : Nat) : OkItem (.aot ts) n d ↔ n + 1 < LIMIT ∧ ∀ t ∈ ts, OkTbl t (n + 1) 0 := by
  rw [OkItem, okTbls_iff]

theorem okTbl_of_nil (t : Tbl) (n d : Nat) (h : t.items = []) : OkTbl t n d := by
  rw [okTbl_iff, h]; simp

theorem okTbl_congr_items (u u' : Tbl) (n d : Nat) (he : u'.items = u.items) (h : OkTbl u n d) : OkTbl u' n d := by
  rw [okTbl_iff] at h ⊢; rw [he]; exact h

theorem okTbl_setItems (t : Tbl) (l : List (Bytes × Item)) (n d : Nat) :
    OkTbl (t.setItems l) n d ↔ ∀ p ∈ l, OkItem p.2 n d := okTbl_iff _ _ _

/-- a smaller dotted count is a weaker claim -/
theorem okAnti :
    (∀ (it : Item) (n d d' : Nat), d' ≤ d → OkItem it n d → OkItem it n d') ∧
    (∀ (t : Tbl) (n d d' : Nat), d' ≤ d → OkTbl t n d → OkTbl t n d') := by
  have key : ∀ (sz : Nat),
      (∀ (it : Item) (n d d' : Nat), sizeOf it ≤ sz → d' ≤ d → OkItem it n d → OkItem it n d') ∧
      (∀ (t : Tbl) (n d d' : Nat), sizeOf t ≤ sz → d' ≤ d → OkTbl t n d → OkTbl t n d') := by
    intro sz
    induction sz with
    | zero =>
      refine ⟨?_, ?_⟩
      · intro it n d d' hs; cases it <;> simp at hs <;> omega
      · intro t n d d' hs; obtain ⟨i, a, b, c⟩ := t; simp at hs
    | succ sz ih =>
      refine ⟨?_, ?_⟩
      · intro it n d d' hs hd h
        cases it with
        | value v => rw [okItem_value] at h ⊢; omega
        | aot ts => rw [okItem_aot] at h ⊢; exact h
        | table t =>
          rw [okItem_table] at h ⊢
          have hsz : sizeOf t ≤ sz := by simp at hs; omega
          refine ⟨fun hdot => ?_, h.2⟩
          obtain ⟨h1, h2⟩ := h.1 hdot
          exact ⟨by omega, ih.2 t (n + 1) (d + 1) (d' + 1) hsz (by omega) h2⟩
      · intro t n d d' hs hd h
        rw [okTbl_iff] at h ⊢
        intro p hp
        obtain ⟨i, a, b, c⟩ := t
        have h1 : sizeOf p < sizeOf i := List.sizeOf_lt_of_mem hp
        have h2 : sizeOf p.2 < sizeOf p := by obtain ⟨k, it⟩ := p; simp; omega
        have : sizeOf p.2 ≤ sz := by simp at hs; omega
        exact ih.1 p.2 n d d' this hd (h p hp)
  exact ⟨fun it n d d' => (key (sizeOf it)).1 it n d d' (Nat.le_refl _),
         fun t n d d' => (key (sizeOf t)).2 t n d d' (Nat.le_refl _)⟩

theorem okTbl_anti (t : Tbl) (n d d' : Nat) (hd : d' ≤ d) (h : OkTbl t n d) : OkTbl t n d' := okAnti.2 t n d d' hd h

theorem okTbl_zero (t : Tbl) (n d : Nat) (h : OkTbl t n d) : OkTbl t n 0 := okTbl_anti t n d 0 (Nat.zero_le _) h

/-! ## one table -/

theorem ok_item (t : Tbl) (n d : Nat) (k : Bytes) (item : Item) (h : OkTbl t n d) (ha : alookup k t.items = some item) :
    OkItem item n d :=
  (okTbl_iff t n d).1 h _ (mem_of_alookup k item _ ha)

theorem ok_aset (t : Tbl) (n d : Nat) (k : Bytes) (item : Item) (h : OkTbl t n d) (hi : OkItem item n d) :
    OkTbl (t.setItems (aset k item t.items)) n d := by
  rw [okTbl_setItems]
  intro p hp
  rcases mem_aset k item _ p hp with hp | hp
  · exact (okTbl_iff t n d).1 h p hp
  · rw [hp]; exact hi

theorem ok_append (t : Tbl) (n d : Nat) (k : Bytes) (item : Item) (h : OkTbl t n d) (hi : OkItem item n d) :
    OkTbl (t.setItems (t.items ++ [(k, item)])) n d := by
  rw [okTbl_setItems]
  intro p hp
  rcases List.mem_append.1 hp with hp | hp
  · exact (okTbl_iff t n d).1 h p hp
  · simp at hp; rw [hp]; exact hi

theorem ok_areplace (t : Tbl) (n d : Nat) (k : Bytes) (item : Item) (h : OkTbl t n d) (hi : OkItem item n d) :
    OkTbl (t.setItems (areplace k item t.items)) n d := by
  rw [okTbl_setItems]
  intro p hp
  rcases mem_areplace k item _ p hp with hp | hp
  · exact (okTbl_iff t n d).1 h p hp
  · rw [hp]; exact hi

theorem ok_aerase (t : Tbl) (n d : Nat) (k : Bytes) (h : OkTbl t n d) : OkTbl (t.setItems (aerase k t.items)) n d := by
  rw [okTbl_setItems]
  exact fun p hp => (okTbl_iff t n d).1 h p (mem_aerase k _ p hp)

/-! ## the bound -/

/-- the deepest a table `n` keys below the root and `d` dotted tables below its header ancestor can be: its own
    dotted keys and values give `LIMIT - d`; a header can still add `LIMIT - 1 - n` keys below it, each possibly an
    array of tables (two levels), and the last of these tables again holds `LIMIT` levels of dotted keys and values -/
def Phi (n d : Nat) : Nat := max (LIMIT - d) (if n + 1 < LIMIT then 2 * (LIMIT - 1 - n) + LIMIT else 0)

theorem phi_value (n d x : Nat) (h : d + x < LIMIT) : x + 1 ≤ Phi n d := by
  simp only [Phi, LIMIT] at *; omega

theorem phi_dotted (n d x : Nat) (h : d + 1 < LIMIT) (hx : x ≤ Phi (n + 1) (d + 1)) : x + 1 ≤ Phi n d := by
  simp only [Phi, LIMIT] at *
  by_cases h1 : n + 1 < 80 <;> by_cases h2 : n + 1 + 1 < 80 <;> simp only [h1, h2, if_true, if_false] at hx ⊢ <;> omega

theorem phi_header (n d x : Nat) (hn : n + 1 < LIMIT) (hx : x ≤ Phi (n + 1) 0) : x + 2 ≤ Phi n d := by
  simp only [Phi, LIMIT] at *
  by_cases h2 : n + 1 + 1 < 80 <;> simp only [hn, h2, if_true, if_false] at hx ⊢ <;> omega

theorem phi_pos (n d : Nat) (h : d < LIMIT) : 1 ≤ Phi n d := by
  simp only [Phi, LIMIT] at *; omega

theorem phi_root : Phi 0 0 = 3 * LIMIT - 2 := by decide

theorem okBound :
    (∀ (it : Item) (n d : Nat), d < LIMIT → OkItem it n d → nestItem it + 1 ≤ Phi n d) ∧
    (∀ (t : Tbl) (n d : Nat), d < LIMIT → OkTbl t n d → nestTbl t ≤ Phi n d) := by
  have key : ∀ (sz : Nat),
      (∀ (it : Item) (n d : Nat), sizeOf it ≤ sz → d < LIMIT → OkItem it n d → nestItem it + 1 ≤ Phi n d) ∧
      (∀ (t : Tbl) (n d : Nat), sizeOf t ≤ sz → d < LIMIT → OkTbl t n d → nestTbl t ≤ Phi n d) := by
    intro sz
    induction sz with
    | zero =>
      refine ⟨?_, ?_⟩
      · intro it n d hs; cases it <;> simp at hs <;> omega
      · intro t n d hs; obtain ⟨i, a, b, c⟩ := t; simp at hs
    | succ sz ih =>
      refine ⟨?_, ?_⟩
      · intro it n d hs hd h
        cases it with
        | value v =>
          rw [okItem_value] at h
          rw [nestItem]; exact phi_value n d _ h
        | aot ts =>
          rw [okItem_aot] at h
          obtain ⟨hn, hall⟩ := h
          rw [nestItem]
          have hb : nestTbls ts ≤ Phi (n + 1) 0 := by
            rw [nestTbls_le]
            intro t ht
            have h1 : sizeOf t < sizeOf ts := List.sizeOf_lt_of_mem ht
            have : sizeOf t ≤ sz := by simp at hs; omega
            exact ih.2 t (n + 1) 0 this (by simp [LIMIT]) (hall t ht)
          have := phi_header n d _ hn hb
          omega
        | table t =>
          rw [okItem_table] at h
          have hsz : sizeOf t ≤ sz := by simp at hs; omega
          rw [nestItem]
          cases hdot : t.dotted with
          | true =>
            obtain ⟨h1, h2⟩ := h.1 hdot
            exact phi_dotted n d _ h1 (ih.2 t (n + 1) (d + 1) hsz h1 h2)
          | false =>
            obtain ⟨h1, h2⟩ := h.2 hdot
            have := phi_header n d _ h1 (ih.2 t (n + 1) 0 hsz (by simp [LIMIT]) h2)
            omega
      · intro t n d hs hd h
        rw [okTbl_iff] at h
        rw [nestTbl_eq]
        have hpos : 1 ≤ Phi n d := phi_pos n d hd
        have : nestItems t.items ≤ Phi n d - 1 := by
          rw [nestItems_le]
          intro p hp
          obtain ⟨i, a, b, c⟩ := t
          have h1 : sizeOf p < sizeOf i := List.sizeOf_lt_of_mem hp
          have h2 : sizeOf p.2 < sizeOf p := by obtain ⟨k, it⟩ := p; simp; omega
          have h3 : sizeOf p.2 ≤ sz := by simp at hs; omega
          have := ih.1 p.2 n d h3 hd (h p hp)
          omega
        omega
  exact ⟨fun it n d => (key (sizeOf it)).1 it n d (Nat.le_refl _),
         fun t n d => (key (sizeOf t)).2 t n d (Nat.le_refl _)⟩

/-- the root: at most `3 * LIMIT - 2` levels -/
theorem nestTbl_root_le (t : Tbl) (h : OkTbl t 0 0) : nestTbl t ≤ 3 * LIMIT - 2 := by
  rw [← phi_root]; exact okBound.2 t 0 0 (by simp [LIMIT]) h

end TomlVerif.Lemmas.Depth05Doc
