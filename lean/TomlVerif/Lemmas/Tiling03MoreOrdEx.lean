import TomlVerif.Lemmas.Tiling03MoreOrdMain
/-! C03, documents whose sections are NOT in pre-order — the hypotheses of the lemmas of
    `Tiling03MoreOrd{Sum,Tree,State,Main}.lean` on concrete inputs (non-vacuity). -/
namespace TomlVerif.Lemmas.Tiling03More
open TomlVerif TomlVerif.Spec TomlVerif.Model TomlVerif.Model.Strings TomlVerif.Model.Value
open TomlVerif.Model.Cst TomlVerif.Model.Encode TomlVerif.Lemmas.Suffix03 TomlVerif.Lemmas.Cst03
open TomlVerif.Lemmas.LastByte03 TomlVerif.Lemmas.Tiling03 TomlVerif.Lemmas.Tiling03Hdr
open TomlVerif.Lemmas.Tiling03Nest

/-- `[a]`, `[c]`, then a sub-table of `a`, with a body -/
def exO : Bytes := strBytes "[a]\n[c]\n[a.b]\nk = 1\n"

/-- the state after the first two header lines of `s`, and the rest -/
def after2 (s : Bytes) : Option (CState × Bytes) :=
  match ctableLine s.length {} s with
  | some (st1, r1) =>
    (match ctableLine s.length (parseWs s.length st1 r1).1 (parseWs s.length st1 r1).2 with
     | some (st2, r2) => some ((parseWs s.length st2 r2).1, (parseWs s.length st2 r2).2)
     | none => none)
  | none => none

/-- `printDocG_ord`, `entries_facts`, `entsText_sort_filter`: the parsed tree has no root decor,
    no root position, all flags of its summary set; its entries are NOT in position order (the
    summary has the positions 1, 3, 2 — `fin_spineO` inserted the triple of `a.b` before that of
    `c`); the printer writes the root text -/
example : (parseCst exO).map (fun d => d.root.decor.pre.isNone && d.root.decor.suf.isNone && d.root.pos.isNone &&
      !d.root.dotted && (nsItems id exO d.root.items []).all (fun x => x.2.1)) = some true ∧
    (parseCst exO).map (fun d => (nsItems id exO d.root.items []).map (fun x => x.1)) = some [1, 3, 2] ∧
    (parseCst exO).map (fun d => sortedFrom 0 (docEntries d)) = some false ∧
    (parseCst exO).map (fun d => printDocG id exO d) =
      (parseCst exO).map (fun d => rootTextO id exO d.root ++ encRaw id exO d.trailing) := by decide +kernel

/-- `hdrLineOkO_use`, `header_step_ord`, `pathOk_O`: the third header line on the state it meets
    passes the new check and fails the old one (`a` is not the last item of the root) -/
example : ((after2 exO).map fun p => hdrLineOkO exO p.1 p.2) = some true ∧
    ((after2 exO).map fun p => hdrLineOk exO p.1 p.2) = some false ∧
    ((after2 exO).map fun p => (ctableLine exO.length p.1 p.2).isSome) = some true := by decide +kernel

/-- `start_spineO`, `start_ord`, `fin_spineO`, `finalize_ord`: on the root after `finalize_table`
    at the third header, `pathOkO` holds for the parent path `[a]` and the key `b`, both `descend`
    runs succeed, `start_table` leaves the summary unchanged and the next `finalize_table`
    inserts one triple -/
example : ((after2 exO).bind fun p => finalizeTable p.1).isSome = true ∧
    ((after2 exO).bind fun p => (finalizeTable p.1).bind fun st1 =>
      match ckeyPath exO.length (p.2.drop 1) with
      | .ok ks _ => (splitLast ks).map fun x => pathOkO exO false x.2 st1.root x.1 &&
          (descend st1.root x.1 false (eraseFn x.2)).isSome
      | _ => none) = some true ∧
    ((after2 exO).bind fun p => (finalizeTable p.1).bind fun st1 =>
      (ctableLine exO.length p.1 p.2).bind fun q => (finalizeTable q.1).map fun st3 =>
        ((nsItems id exO st1.root.items []).length, (nsItems id exO q.1.root.items []).length,
          (nsItems id exO st3.root.items []).length)) = some (2, 2, 3) := by decide +kernel

/-- `keyval_step_ord`: the key/value line after the out-of-order header passes `kvLineOkV` -/
example : ((after2 exO).bind fun p => (ctableLine exO.length p.1 p.2).map fun q =>
      kvLineOkV exO (parseWs exO.length q.1 q.2).1 (parseWs exO.length q.1 q.2).2 &&
      (ckeyvalLine exO.length (parseWs exO.length q.1 q.2).1 (parseWs exO.length q.1 q.2).2).isSome) = some true := by
  decide +kernel

/-- `clines_oinv`, `ord_doc_tiling`, `runOkV_O`: the whole run -/
example : ordRunV exO = true ∧ nestRunV exO = false ∧ (parseCst exO).map (printDoc exO) = some exO ∧
    nestRunV (strBytes "[a]\n[a.b]\n[c]\n") = true ∧ ordRunV (strBytes "[a]\n[a.b]\n[c]\n") = true := by
  decide +kernel

end TomlVerif.Lemmas.Tiling03More
