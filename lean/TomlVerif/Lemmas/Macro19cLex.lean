import TomlVerif.Lemmas.Macro19cTT
import TomlVerif.Lemmas.ByteDecide
/-! C19 (text): the lexer model `lexAux`, one token at a time.
    `LexStep B text out`: before any continuation satisfying `B`, the lexer reads `text` as the flat tokens `out`
    and goes on with the continuation.  Steps compose (`LexStep.seq`); the boundary conditions are on the first
    byte of what follows (`Hd`). -/
namespace TomlVerif.Lemmas.Macro19c
open TomlVerif TomlVerif.Spec TomlVerif.Model TomlVerif.Model.Macro

/-- the continuation is empty or starts with a byte of class `p` -/
def Hd (p : Byte → Bool) : Bytes → Prop
  | [] => True
  | b :: _ => p b = true

/-- the text starts with a byte of class `p` -/
def HdIn (p : Byte → Bool) (t : Bytes) : Prop := ∃ b r, t = b :: r ∧ p b = true

theorem Hd_of_HdIn {p : Byte → Bool} {t : Bytes} (h : HdIn p t) (rest : Bytes) : Hd p (t ++ rest) := by
  obtain ⟨b, r, rfl, hb⟩ := h; exact hb

theorem HdIn_append {p : Byte → Bool} {t : Bytes} (h : HdIn p t) (u : Bytes) : HdIn p (t ++ u) := by
  obtain ⟨b, r, rfl, hb⟩ := h; exact ⟨b, r ++ u, rfl, hb⟩

theorem HdIn_mono {p q : Byte → Bool} {t : Bytes} (h : HdIn p t) (hpq : ∀ b, p b = true → q b = true) : HdIn q t := by
  obtain ⟨b, r, e, hb⟩ := h; exact ⟨b, r, e, hpq b hb⟩

theorem Hd_mono {p q : Byte → Bool} {t : Bytes} (h : Hd p t) (hpq : ∀ b, p b = true → q b = true) : Hd q t := by
  cases t with
  | nil => trivial
  | cons b r => exact hpq b h

def LexStep (B : Bytes → Prop) (text : Bytes) (out : List FTok) : Prop :=
  ∀ rest acc fuel, B rest → (text ++ rest).length < fuel →
    ∃ fuel', rest.length < fuel' ∧ lexAux fuel (text ++ rest) acc = lexAux fuel' rest (out.reverse ++ acc)

theorem LexStep.nil (B : Bytes → Prop) : LexStep B [] [] := by
  intro rest acc fuel _ hf
  exact ⟨fuel, by simpa using hf, by simp⟩

theorem LexStep.weaken {B B' : Bytes → Prop} {t : Bytes} {o : List FTok} (h : LexStep B t o)
    (hb : ∀ r, B' r → B r) : LexStep B' t o :=
  fun rest acc fuel hr hf => h rest acc fuel (hb rest hr) hf

theorem LexStep.comp {B1 B2 : Bytes → Prop} {t1 t2 : Bytes} {o1 o2 : List FTok} (h1 : LexStep B1 t1 o1)
    (h2 : LexStep B2 t2 o2) (hb : ∀ rest, B2 rest → B1 (t2 ++ rest)) : LexStep B2 (t1 ++ t2) (o1 ++ o2) := by
  intro rest acc fuel hr hf
  obtain ⟨f1, hf1, e1⟩ := h1 (t2 ++ rest) acc fuel (hb rest hr) (by simpa [List.append_assoc] using hf)
  obtain ⟨f2, hf2, e2⟩ := h2 rest (o1.reverse ++ acc) f1 hr hf1
  refine ⟨f2, hf2, ?_⟩
  rw [List.append_assoc, e1, e2]
  simp

/-- sequencing when the first step only looks at the next byte -/
theorem LexStep.seq {q : Byte → Bool} {B2 : Bytes → Prop} {t1 t2 : Bytes} {o1 o2 : List FTok}
    (h1 : LexStep (Hd q) t1 o1) (h2 : LexStep B2 t2 o2) (hh : HdIn q t2) : LexStep B2 (t1 ++ t2) (o1 ++ o2) :=
  LexStep.comp h1 h2 (fun rest _ => Hd_of_HdIn hh rest)

/-- a step that does not look ahead can be followed by anything -/
theorem LexStep.seqT {B2 : Bytes → Prop} {t1 t2 : Bytes} {o1 o2 : List FTok}
    (h1 : LexStep (fun _ => True) t1 o1) (h2 : LexStep B2 t2 o2) : LexStep B2 (t1 ++ t2) (o1 ++ o2) :=
  LexStep.comp h1 h2 (fun _ _ => trivial)

theorem LexStep.anyB {B : Bytes → Prop} {t : Bytes} {o : List FTok} (h : LexStep (fun _ => True) t o) : LexStep B t o :=
  h.weaken (fun _ _ => trivial)

/-- a complete text -/
theorem lex_of_step {B : Bytes → Prop} {t : Bytes} {o : List FTok} (h : LexStep B t o) (hB : B []) : lex t = some o := by
  unfold lex
  obtain ⟨f, hf, e⟩ := h [] [] (t.length + 1) hB (by simp)
  rw [List.append_nil] at e
  rw [e]
  obtain ⟨k, rfl⟩ : ∃ k, f = k + 1 := ⟨f - 1, by simp at hf; omega⟩
  simp [lexAux]

/-! ## primitive steps -/

theorem spanP_append (p : Byte → Bool) (w rest : Bytes) (hw : w.all p = true) (hr : Hd (fun c => !p c) rest) :
    spanP p (w ++ rest) = (w, rest) := by
  induction w with
  | nil =>
    cases rest with
    | nil => rfl
    | cons c r =>
      have : p c = false := by simpa [Hd] using hr
      simp [spanP, this]
  | cons b t ih =>
    simp only [List.all_cons, Bool.and_eq_true] at hw
    simp [spanP, hw.1, ih hw.2]

theorem ws_step (b : Byte) (hb : isWs b = true) : LexStep (fun _ => True) [b] [] := by
  intro rest acc fuel _ hf
  obtain ⟨k, rfl⟩ : ∃ k, fuel = k + 1 := ⟨fuel - 1, by simp at hf; omega⟩
  refine ⟨k, by simp at hf; omega, ?_⟩
  simp [lexAux, hb]

theorem sp_step : LexStep (fun _ => True) [0x20] [] := ws_step _ (by decide)
theorem nl_step : LexStep (fun _ => True) [0x0A] [] := ws_step _ (by decide)

/-- an identifier: starts with a letter or `_`, continues with letters, digits, `_`; not the lone `_` -/
def identOk (w : Bytes) : Bool :=
  match w with
  | b :: t => isIdStart b && t.all isIdCont && !(w == [0x5F])
  | [] => false

/-- what may follow an identifier -/
def identFol (c : Byte) : Bool := !isIdCont c && !(c == 0x22) && !(c == 0x27) && !(c == 0x23)

theorem idStart_facts : ∀ b : Byte, isIdStart b = true → isWs b = false ∧ isIdCont b = true :=
  forall_byte (by decide +kernel)

theorem ident_step (w : Bytes) (hw : identOk w = true) : LexStep (Hd identFol) w [.t (.ident w)] := by
  intro rest acc fuel hr hf
  cases w with
  | nil => simp [identOk] at hw
  | cons b t =>
    simp only [identOk, Bool.and_eq_true, Bool.not_eq_true', beq_eq_false_iff_ne, ne_eq] at hw
    obtain ⟨⟨hb, ht⟩, hne⟩ := hw
    obtain ⟨k, rfl⟩ : ∃ k, fuel = k + 1 := ⟨fuel - 1, by simp at hf; omega⟩
    obtain ⟨h1, h2⟩ := idStart_facts b hb
    have hsp : spanP isIdCont (b :: t ++ rest) = (b :: t, rest) := by
      apply spanP_append
      · simp [h2, ht]
      · exact Hd_mono hr (by intro c hc; simp only [identFol, Bool.and_eq_true] at hc; exact hc.1.1.1)
    refine ⟨k, by simp at hf; omega, ?_⟩
    rw [List.cons_append]
    conv => lhs; unfold lexAux
    simp only [h1, hb, if_true, Bool.false_eq_true, if_false]
    rw [← List.cons_append, hsp]
    have hne' : ¬(b = 95 ∧ t = []) := by simpa using hne
    cases rest with
    | nil => simp [hne']
    | cons c r =>
      simp only [Hd, identFol, Bool.and_eq_true, Bool.not_eq_true', beq_eq_false_iff_ne, ne_eq] at hr
      simp [hr.1.1.2, hr.1.2, hr.2, hne']

/-- what may follow a punctuation character `b` -/
def punctFol (b c : Byte) : Bool := !glues b c

theorem punct_facts : ∀ b : Byte, isPunct b = true →
    isWs b = false ∧ isIdStart b = false ∧ isDigit b = false ∧ (b == 0x22) = false ∧ (b == 0x27) = false ∧
    delimOpen b = none ∧ delimClose b = none :=
  forall_byte (by decide +kernel)

theorem punct_step (b : Byte) (hb : isPunct b = true) : LexStep (Hd (punctFol b)) [b] [.t (.punct b)] := by
  intro rest acc fuel hr hf
  obtain ⟨k, rfl⟩ : ∃ k, fuel = k + 1 := ⟨fuel - 1, by simp at hf; omega⟩
  obtain ⟨h1, h2, h3, h4, h5, h6, h7⟩ := punct_facts b hb
  refine ⟨k, by simp at hf; omega, ?_⟩
  rw [List.cons_append, List.nil_append]
  conv => lhs; unfold lexAux
  simp only [h1, h2, h3, h4, h5, h6, h7, hb, Bool.false_eq_true, if_false, if_true]
  cases rest with
  | nil => simp
  | cons c r =>
    simp only [Hd, punctFol, Bool.not_eq_true'] at hr
    simp [hr]

def openByte : Delim → Byte
  | .paren => 0x28 | .bracket => 0x5B | .brace => 0x7B
def closeByte : Delim → Byte
  | .paren => 0x29 | .bracket => 0x5D | .brace => 0x7D

theorem open_step (d : Delim) : LexStep (fun _ => True) [openByte d] [.opn d] := by
  intro rest acc fuel _ hf
  obtain ⟨k, rfl⟩ : ∃ k, fuel = k + 1 := ⟨fuel - 1, by simp at hf; omega⟩
  refine ⟨k, by simp at hf; omega, ?_⟩
  cases d <;> simp [openByte, lexAux, isWs, isIdStart, isDigit, inR, delimOpen]

theorem close_step (d : Delim) : LexStep (fun _ => True) [closeByte d] [.cls d] := by
  intro rest acc fuel _ hf
  obtain ⟨k, rfl⟩ : ∃ k, fuel = k + 1 := ⟨fuel - 1, by simp at hf; omega⟩
  refine ⟨k, by simp at hf; omega, ?_⟩
  cases d <;> simp [closeByte, lexAux, isWs, isIdStart, isDigit, inR, delimOpen, delimClose]

/-- a group: the delimiters around the inner tokens -/
theorem group_step (d : Delim) {B : Bytes → Prop} {q : Byte → Bool} {t : Bytes} {o : List FTok}
    (h : LexStep (Hd q) t o) (hq : q (closeByte d) = true) :
    LexStep B (openByte d :: (t ++ [closeByte d])) (.opn d :: (o ++ [.cls d])) := by
  have := LexStep.seqT (open_step d) (LexStep.seq h (close_step d) ⟨closeByte d, [], rfl, hq⟩)
  exact LexStep.anyB (by simpa using this)

theorem comma_step : LexStep (fun _ => True) [0x2C] [.t (.punct 0x2C)] :=
  (punct_step 0x2C (by decide)).weaken (fun r _ => by
    cases r with
    | nil => trivial
    | cons c t => simp [Hd, punctFol, glues])

/-! ## string literals -/

/-- what may follow a string or character literal -/
def strFol (c : Byte) : Bool := !isIdStart c

theorem str_step (body raw val : Bytes)
    (h : ∀ rest, lexStrBody (body ++ rest) [] [] = some (raw, val, rest)) :
    LexStep (Hd strFol) (0x22 :: body) [.t (.str ([0x22] ++ raw ++ [0x22]) val)] := by
  intro rest acc fuel hr hf
  obtain ⟨k, rfl⟩ : ∃ k, fuel = k + 1 := ⟨fuel - 1, by simp at hf; omega⟩
  have hlen : rest.length < k := by
    have := h rest
    cases body with
    | nil =>
      cases rest with
      | nil => simp [lexStrBody] at this
      | cons c r => simp at hf ⊢; omega
    | cons c b => simp at hf ⊢; omega
  refine ⟨k, hlen, ?_⟩
  rw [List.cons_append]
  conv => lhs; unfold lexAux
  have hq : isWs 0x22 = false ∧ isIdStart 0x22 = false ∧ isDigit 0x22 = false := by decide
  simp only [hq.1, hq.2.1, hq.2.2, Bool.false_eq_true, if_false, beq_self_eq_true, if_true, h rest]
  cases rest with
  | nil => simp
  | cons c r =>
    simp only [Hd, strFol, Bool.not_eq_true'] at hr
    simp [hr]

/-! ## number literals -/

/-- the suffix scanner of `lexNumber` -/
def sfxOf (r : Bytes) : Bytes × Bytes :=
  match r with
  | c :: _ => if isIdStart c then spanP isIdCont r else ([], r)
  | [] => ([], r)

theorem sfxOf_none (r : Bytes) (h : Hd (fun c => !isIdStart c) r) : sfxOf r = ([], r) := by
  cases r with
  | nil => rfl
  | cons c t =>
    have : isIdStart c = false := by simpa [Hd] using h
    simp [sfxOf, this]

theorem sfxOf_some (sf rest : Bytes) (h1 : HdIn isIdStart sf) (h2 : sf.all isIdCont = true)
    (hr : Hd (fun c => !isIdCont c) rest) : sfxOf (sf ++ rest) = (sf, rest) := by
  obtain ⟨c, t, rfl, hc⟩ := h1
  simp only [sfxOf, List.cons_append, hc, if_true]
  exact spanP_append isIdCont (c :: t) rest h2 hr

/-- what may follow the digits of a decimal literal so that they are lexed as an integer without exponent:
    not a digit, `_`, `.`, `e`, `E` -/
def decStop (c : Byte) : Bool := !isDigU c && !(c == 0x2E) && !(c == 0x65) && !(c == 0x45)

theorem digit_facts2 : ∀ b : Byte, isDigit b = true →
    isDigU b = true ∧ isWs b = false ∧ isIdStart b = false ∧ (b == 0x78 || b == 0x6F || b == 0x62) = false ∧
    (b == 0x2E) = false ∧ (0x80 ≤ b) = false :=
  forall_byte (by decide +kernel)

theorem all_digU (ds : Bytes) (h : ds.all isDigit = true) : ds.all isDigU = true := by
  rw [List.all_eq_true] at h ⊢
  intro b hb
  exact (digit_facts2 b (h b hb)).1

/-- a digit run followed by a byte that stops it: an integer literal, then the suffix scanner -/
theorem lexDecimal_int (ds T : Bytes) (hd : ds.all isDigit = true) (hT : Hd decStop T) :
    lexNumber.lexDecimal (ds ++ T) sfxOf = some (ds, (sfxOf T).1, false, (sfxOf T).2) := by
  unfold lexNumber.lexDecimal
  have hsp : spanP isDigU (ds ++ T) = (ds, T) :=
    spanP_append isDigU ds T (all_digU ds hd)
      (Hd_mono hT (by intro c hc; simp only [decStop, Bool.and_eq_true] at hc; exact hc.1.1.1))
  simp only [hsp]
  cases T with
  | nil => simp [sfxOf]
  | cons c r =>
    simp only [Hd, decStop, Bool.and_eq_true, Bool.not_eq_true', beq_eq_false_iff_ne, ne_eq] at hT
    obtain ⟨⟨⟨_, h2⟩, h3⟩, h4⟩ := hT
    split
    · rename_i heq; injection heq with heq _; exact absurd heq h2
    · rename_i e r3 _ heq
      injection heq with e1 e2
      subst e1 e2
      simp [h3, h4]
    · rename_i heq; cases heq

theorem lexNumber_eq_decimal (s : Bytes) (h : ∀ c r, s = 0x30 :: c :: r → (c == 0x78 || c == 0x6F || c == 0x62) = false) :
    lexNumber s = lexNumber.lexDecimal s sfxOf := by
  unfold lexNumber
  split
  · rename_i c r
    have := h c r rfl
    simp only [this, Bool.false_eq_true, if_false]
    rfl
  · rfl

theorem notRadix_of : ∀ c : Byte, (isDigit c = true ∨ decStop c = true ∧ isIdStart c = false ∨ c = 0x2E ∨ c = 0x54 ∨ c = 0x74 ∨ c = 0x5A ∨ c = 0x7A) →
    (c == 0x78 || c == 0x6F || c == 0x62) = false :=
  forall_byte (by decide +kernel)

/-- second byte of `ds ++ T` when `ds` is a non-empty digit string -/
theorem second_cases (ds T : Bytes) (hne : ds ≠ []) (hd : ds.all isDigit = true) (c : Byte) (r : Bytes)
    (e : ds ++ T = 0x30 :: c :: r) : isDigit c = true ∨ ∃ r', T = c :: r' := by
  cases ds with
  | nil => exact absurd rfl hne
  | cons d t =>
    cases t with
    | nil => right; simp at e; exact ⟨r, e.2⟩
    | cons d2 t2 =>
      left
      simp at e hd
      rw [← e.2.1]; exact hd.2.1

/-- plain integer literal -/
def intFol (c : Byte) : Bool := decStop c && !isIdStart c

theorem lexNumber_int (ds rest : Bytes) (hne : ds ≠ []) (hd : ds.all isDigit = true) (hr : Hd intFol rest) :
    lexNumber (ds ++ rest) = some (ds, [], false, rest) := by
  rw [lexNumber_eq_decimal, lexDecimal_int ds rest hd
    (Hd_mono hr (by intro c hc; simp only [intFol, Bool.and_eq_true] at hc; exact hc.1)),
    sfxOf_none rest (Hd_mono hr (by intro c hc; simp only [intFol, Bool.and_eq_true] at hc; exact hc.2))]
  intro c r e
  rcases second_cases ds rest hne hd c r e with h | ⟨r', rfl⟩
  · exact notRadix_of c (Or.inl h)
  · simp only [Hd, intFol, Bool.and_eq_true, Bool.not_eq_true'] at hr
    exact notRadix_of c (Or.inr (Or.inl ⟨hr.1, hr.2⟩))

/-- the suffixes of the date-time shapes: `T07`, `t07`, `Z`, `z` -/
def sfxOk (sf : Bytes) : Bool :=
  match sf with
  | c :: t => (c == 0x54 || c == 0x74 || c == 0x5A || c == 0x7A) && t.all isIdCont
  | [] => false

theorem sfx_head_facts : ∀ c : Byte, (c == 0x54 || c == 0x74 || c == 0x5A || c == 0x7A) = true →
    isIdStart c = true ∧ isIdCont c = true ∧ decStop c = true ∧ isDigU c = false ∧ (c == 0x65 || c == 0x45) = false :=
  forall_byte (by decide +kernel)

theorem sfxOk_facts (sf : Bytes) (h : sfxOk sf = true) :
    HdIn isIdStart sf ∧ sf.all isIdCont = true ∧ HdIn decStop sf ∧
    HdIn (fun c => c == 0x54 || c == 0x74 || c == 0x5A || c == 0x7A) sf := by
  cases sf with
  | nil => simp [sfxOk] at h
  | cons c t =>
    simp only [sfxOk, Bool.and_eq_true] at h
    obtain ⟨f1, f2, f3, _⟩ := sfx_head_facts c h.1
    exact ⟨⟨c, t, rfl, f1⟩, by simp [f2, h.2], ⟨c, t, rfl, f3⟩, ⟨c, t, rfl, h.1⟩⟩

theorem lexNumber_int_sfx (ds sf rest : Bytes) (hne : ds ≠ []) (hd : ds.all isDigit = true) (hs : sfxOk sf = true)
    (hr : Hd (fun c => !isIdCont c) rest) :
    lexNumber (ds ++ (sf ++ rest)) = some (ds, sf, false, rest) := by
  obtain ⟨s1, s2, s3, s4⟩ := sfxOk_facts sf hs
  rw [lexNumber_eq_decimal, lexDecimal_int ds (sf ++ rest) hd (Hd_of_HdIn s3 rest), sfxOf_some sf rest s1 s2 hr]
  intro c r e
  rcases second_cases ds (sf ++ rest) hne hd c r e with h | ⟨r', e'⟩
  · exact notRadix_of c (Or.inl h)
  · obtain ⟨c', t, rfl, hc'⟩ := s4
    simp at e'
    rw [← e'.1]
    simp only [Bool.or_eq_true, beq_iff_eq] at hc'
    apply notRadix_of
    rcases hc' with ((h | h) | h) | h <;> simp [h]

/-- float literal `ip.fp` without exponent, then the suffix scanner -/
theorem lexDecimal_frac (ip fp T : Bytes) (hi : ip.all isDigit = true) (hf : fp.all isDigit = true) (hfne : fp ≠ [])
    (hT : Hd (fun c => !isDigU c && !(c == 0x65) && !(c == 0x45)) T) :
    lexNumber.lexDecimal (ip ++ 0x2E :: (fp ++ T)) sfxOf =
      some (ip ++ [0x2E] ++ fp, (sfxOf T).1, true, (sfxOf T).2) := by
  unfold lexNumber.lexDecimal
  have hsp : spanP isDigU (ip ++ 0x2E :: (fp ++ T)) = (ip, 0x2E :: (fp ++ T)) :=
    spanP_append isDigU ip _ (all_digU ip hi) (by simp [Hd, isDigU, isDigit, inR])
  have hsp2 : spanP isDigU (fp ++ T) = (fp, T) :=
    spanP_append isDigU fp T (all_digU fp hf)
      (Hd_mono hT (by intro c hc; simp only [Bool.and_eq_true] at hc; exact hc.1.1))
  simp only [hsp]
  obtain ⟨d, fp', rfl⟩ := List.exists_cons_of_ne_nil hfne
  have hdd : isDigit d = true := by simp at hf; exact hf.1
  obtain ⟨_, _, g3, _, g5, g6⟩ := digit_facts2 d hdd
  simp only [List.cons_append, g5, g3, g6, Bool.not_false, Bool.and_self]
  rw [← List.cons_append, hsp2]
  simp only []
  cases T with
  | nil => simp [sfxOf]
  | cons c r =>
    simp only [Hd, Bool.and_eq_true, Bool.not_eq_true', beq_eq_false_iff_ne, ne_eq] at hT
    simp [hT.1.2, hT.2]

/-- what may follow a float literal: not a digit, `_`, or the start of a suffix -/
def floatFol (c : Byte) : Bool := !isDigU c && !isIdStart c

theorem floatFol_facts : ∀ c : Byte, floatFol c = true → (!isDigU c && !(c == 0x65) && !(c == 0x45)) = true :=
  forall_byte (by decide +kernel)

theorem second_frac (ip X : Bytes) (hne : ip ≠ []) (hi : ip.all isDigit = true) (c : Byte) (r : Bytes)
    (e : ip ++ 0x2E :: X = 0x30 :: c :: r) : (c == 0x78 || c == 0x6F || c == 0x62) = false := by
  rcases second_cases ip (0x2E :: X) hne hi c r e with h | ⟨r', e'⟩
  · exact notRadix_of c (Or.inl h)
  · injection e' with e1 _
    exact notRadix_of c (Or.inr (Or.inr (Or.inl e1.symm)))

theorem lexNumber_frac (ip fp rest : Bytes) (hne : ip ≠ []) (hi : ip.all isDigit = true) (hf : fp.all isDigit = true)
    (hfne : fp ≠ []) (hr : Hd floatFol rest) :
    lexNumber (ip ++ 0x2E :: (fp ++ rest)) = some (ip ++ [0x2E] ++ fp, [], true, rest) := by
  rw [lexNumber_eq_decimal _ (second_frac ip _ hne hi), lexDecimal_frac ip fp rest hi hf hfne (Hd_mono hr floatFol_facts),
    sfxOf_none rest (Hd_mono hr (by intro c hc; simp only [floatFol, Bool.and_eq_true] at hc; exact hc.2))]

theorem lexNumber_frac_sfx (ip fp sf rest : Bytes) (hne : ip ≠ []) (hi : ip.all isDigit = true)
    (hf : fp.all isDigit = true) (hfne : fp ≠ []) (hs : sfxOk sf = true) (hr : Hd (fun c => !isIdCont c) rest) :
    lexNumber (ip ++ 0x2E :: (fp ++ (sf ++ rest))) = some (ip ++ [0x2E] ++ fp, sf, true, rest) := by
  obtain ⟨s1, s2, _, s4⟩ := sfxOk_facts sf hs
  have hT : Hd (fun c => !isDigU c && !(c == 0x65) && !(c == 0x45)) (sf ++ rest) := by
    obtain ⟨c, t, rfl, hc⟩ := s4
    obtain ⟨_, _, _, f4, f5⟩ := sfx_head_facts c hc
    simp only [List.cons_append, Hd, f4, Bool.not_false, Bool.true_and]
    simp only [Bool.or_eq_false_iff] at f5
    simp [f5.1, f5.2]
  rw [lexNumber_eq_decimal _ (second_frac ip _ hne hi), lexDecimal_frac ip fp (sf ++ rest) hi hf hfne hT,
    sfxOf_some sf rest s1 s2 hr]

/-- a number token, given what `lexNumber` does on its text before the continuation -/
theorem num_step {q : Byte → Bool} (text body sf : Bytes) (fl : Bool) (hh : HdIn isDigit text)
    (h : ∀ rest, Hd q rest → lexNumber (text ++ rest) = some (body, sf, fl, rest)) :
    LexStep (Hd q) text [.t (.num body sf fl)] := by
  intro rest acc fuel hr hf
  obtain ⟨k, rfl⟩ : ∃ k, fuel = k + 1 := ⟨fuel - 1, by simp at hf; omega⟩
  obtain ⟨b, t, rfl, hb⟩ := hh
  obtain ⟨_, g2, g3, _⟩ := digit_facts2 b hb
  refine ⟨k, by simp at hf; omega, ?_⟩
  have := h rest hr
  rw [List.cons_append] at this ⊢
  conv => lhs; unfold lexAux
  simp only [g2, g3, hb, Bool.false_eq_true, if_false, if_true, this]
  simp

end TomlVerif.Lemmas.Macro19c
