import TomlVerif.Lemmas.Tiling03NestKeyval
/-! C03, nested documents — the key/value line, the line loop and `parse_document`. -/
namespace TomlVerif.Lemmas.Tiling03Nest
open TomlVerif TomlVerif.Spec TomlVerif.Model TomlVerif.Model.Strings TomlVerif.Model.Value
open TomlVerif.Model.Cst TomlVerif.Model.Encode TomlVerif.Lemmas.Suffix03 TomlVerif.Lemmas.Cst03
open TomlVerif.Lemmas.LastByte03 TomlVerif.Lemmas.Tiling03 TomlVerif.Lemmas.Tiling03Hdr

theorem kvLineOk_use (inp : Bytes) (dot : Bool) (st : CState) (s r1 r2 : Bytes) (ks path : List CKey) (key : CKey)
    (v : CVal) (hok : kvLineOk inp dot st s = true) (hk : ckeyPath inp.length s = .ok ks (0x3D :: r1))
    (hv : cvalue inp.length (3 * r1.length + 4) (ks.length - 1) (dropWs r1) = .ok v r2)
    (hsl : splitLast ks = some (path, key)) :
    simpleVal v = true ∧ dottedOk inp st.current path = true := by
  unfold kvLineOk at hok
  rw [hk] at hok
  simp only [] at hok
  rw [hv] at hok
  simp only [hsl, Bool.and_eq_true] at hok
  exact ⟨hok.1, hok.2.2⟩

theorem nest_current {inp : Bytes} {st : CState} (h : RootPh st ∨ HdrPh inp st) :
    ∃ items imp p dec sp, st.current = .mk items imp false p dec sp ∧ bodyOk items = true ∧
      (st.currentPath ≠ [] → imp = false) := by
  rcases h with ⟨_, a2, items, imp, sp, h1, h2⟩ | ⟨pp, key, items, q, lead, trail, sp, _, h1, h2, _⟩
  · exact ⟨items, imp, none, {}, sp, h1, h2, fun hne => absurd a2 hne⟩
  · exact ⟨items, false, some q, _, sp, h1, h2, fun _ => rfl⟩

theorem shape_setCurrent_n (inp : Bytes) (st : CState) (items items' : Items) (imp : Bool) (p : Option Nat)
    (dec : Decor) (sp sp' : Option Span) (h : RootPh st ∨ HdrPh inp st) (hc : st.current = .mk items imp false p dec sp)
    (hs : bodyOk items' = true) :
    RootPh { st with current := .mk items' imp false p dec sp', trailing := none } ∨
    HdrPh inp { st with current := .mk items' imp false p dec sp', trailing := none } := by
  rcases h with ⟨a1, a2, itemsA, impA, spA, a3, a4⟩ | ⟨pp, key, itemsB, q, lead, trail, spB, b1, b2, b3, b4⟩
  · left
    rw [hc] at a3
    injection a3 with e1 e2 e3 e4 e5 e6
    subst e2; subst e4; subst e5
    exact ⟨a1, a2, items', imp, sp', rfl, hs⟩
  · right
    rw [hc] at b2
    injection b2 with e1 e2 e3 e4 e5 e6
    subst e2; subst e4; subst e5
    exact ⟨pp, key, items', q, lead, trail, sp', b1, rfl, hs, b4⟩

/-- the text of a state depends on the items of the current table through its body only -/
theorem stTextN_body (f : Bytes → Bytes) (inp : Bytes) (st : CState) (items : Items) (imp : Bool) (p : Option Nat)
    (dec : Decor) (sp : Option Span) (hc : st.current = .mk items imp false p dec sp)
    (himp : st.currentPath ≠ [] → imp = false) :
    ∃ H, stTextN f inp st = H ++ encodeBody f inp (valuesTbl items []) ∧
      ∀ items' sp', stTextN f inp { st with current := .mk items' imp false p dec sp', trailing := none }
        = H ++ encodeBody f inp (valuesTbl items' []) := by
  cases hpe : st.currentPath.isEmpty with
  | true =>
    refine ⟨[], ?_, ?_⟩
    · simp only [stTextN, hpe, if_true, hc, CTbl.items, List.nil_append]
    · intro items' sp'
      simp only [stTextN, hpe, if_true, CTbl.items, List.nil_append]
  | false =>
    have hne : st.currentPath ≠ [] := by intro e; rw [e] at hpe; cases hpe
    have hi := himp hne
    subst hi
    refine ⟨textTbl f inp st.root [] false ++ hdrText f inp dec st.currentPath st.currentIsArray, ?_, ?_⟩
    · simp only [stTextN, hpe, Bool.false_eq_true, if_false, hc]
      rw [entText_explicit, List.append_assoc]
    · intro items' sp'
      simp only [stTextN, hpe, Bool.false_eq_true, if_false]
      rw [entText_explicit, List.append_assoc]

theorem keyval_step_nest (f : Bytes → Bytes) (inp base : Bytes) (hf : FixOn f inp) (dot : Bool)
    (st st' : CState) (s r3 : Bytes)
    (h : ckeyvalLine inp.length st s = some (st', r3)) (hok : kvLineOk inp dot st s = true)
    (hI : NInv f inp base st s) : NInv f inp base st' r3 := by
  obtain ⟨ks, r1, v, r2, path, key, c, hk, hv, hlt, hsl, hd, he⟩ := keyval_frame _ _ _ _ _ h
  clear h
  subst he
  obtain ⟨hsh, htx⟩ := hI
  obtain ⟨hsv0, hdo⟩ := kvLineOk_use inp dot st s r1 r2 ks path key v hok hk hv hsl
  obtain ⟨items, imp, p, dec, sp, hcur, hbody, himp⟩ := nest_current hsh
  have hcm := kvCur_mk st (kvVal inp.length v r1 r2) items imp false p dec sp hcur
  have hci : (kvCur st (kvVal inp.length v r1 r2)).items = items := by
    rw [(kvCur_fields st (kvVal inp.length v r1 r2)).1, hcur]; rfl
  have hsv : simpleVal (kvVal inp.length v r1 r2) = true := by
    unfold kvVal; rw [simpleVal_setDecor]; exact hsv0
  have hdo' : dottedOk inp (kvCur st (kvVal inp.length v r1 r2)) path = true := by
    rw [dottedOk_items inp st.current _ (by rw [hci, hcur]; rfl)]; exact hdo
  obtain ⟨k1, k2, X, k3, k4⟩ := kv_descend f inp (kvFn path (kvKey st key) (kvVal inp.length v r1 r2)) (kvKey st key)
    (kvVal inp.length v r1 r2) hsv (fun p p' hp => (kvFn_facts _ _ _ _ _ hp).1) path _ c [] [] hdo'
    (by rw [hci]; exact hbody) .nil hd
  obtain ⟨ci, hci2⟩ : ∃ ci, c.items = ci := ⟨_, rfl⟩
  rw [hci2] at k1 k2 k3
  rw [hci] at k3
  have hc' : c = .mk ci imp false p dec (kvCur st (kvVal inp.length v r1 r2)).span := by
    rw [k1]
    conv => lhs; rw [hcm]
    simp [CTbl.setItems, CTbl.dotted, CTbl.implicit, CTbl.pos, CTbl.decor, CTbl.span]
  clear k1
  subst hc'
  obtain ⟨H, hH1, hH2⟩ := stTextN_body f inp st items imp p dec sp hcur himp
  refine ⟨shape_setCurrent_n inp st items ci imp p dec sp _ hsh hcur k2, ?_⟩
  have k4' := k4 [] [0x20]
  simp only [List.nil_append] at k4'
  have hT : stTextN f inp { st with current := .mk ci imp false p dec (kvCur st (kvVal inp.length v r1 r2)).span, trailing := none }
      = stTextN f inp st ++ (encodeKeyPath f inp (path ++ [kvKey st key]) [] [0x20] ++ [0x3D]
          ++ encodeValue f inp (kvVal inp.length v r1 r2) [0x20] [] ++ [0x0A]) := by
    rw [hH2, hH1, k3, encodeBody_append]
    simp only [encodeBody, k4', List.append_assoc, List.append_nil]
  simp only [] at hT ⊢
  rw [hT]
  obtain ⟨src, out, tr, eol, h1, h2, h3, h4, h5⟩ := htx
  have htrs : tr ++ s <:+ inp := ⟨base ++ src, by rw [h2]; simp [List.append_assoc]⟩
  obtain ⟨line, e, hs, hle, hl, htext⟩ := keyval_text_n f inp hf st s r1 r2 r3 tr ks path key v hk hv hlt hsl hsv0 h1 htrs
  have := txtOf_line inp base _ s src out tr eol line e r3 _ h2 h3 h4 h5 hs hle hl
  rw [htext]
  simpa [List.append_assoc] using this

/-! ### the line loop -/

theorem clines_ninv (f : Bytes → Bytes) (inp base : Bytes) (hf : FixOn f inp) (dot : Bool) :
    ∀ (fuel : Nat) (st : CState) (s : Bytes) (stf : CState),
      clines inp.length fuel st s = some stf → runOk inp dot fuel st s = true →
      NInv f inp base st s → NInv f inp base stf [] := by
  intro fuel
  induction fuel with
  | zero => intro st s stf h; unfold clines at h; cases h
  | succ fuel ih =>
    intro st s stf h hr hI
    unfold clines at h
    unfold runOk at hr
    cases s with
    | nil =>
      simp only [] at h
      injection h with h; subst h; exact hI
    | cons b r =>
      simp only [] at h hr
      by_cases hb1 : (b == 0x23) = true
      · simp only [hb1, if_true] at h hr
        cases hdc : dropComment r with
        | nil =>
          simp only [hdc] at h
          injection h with h; subst h
          have h1 := ninv_consume f inp base st (b :: r) [] List.nil_suffix hI
          rw [pos_nil] at h1
          exact ninv_parseWs f inp base _ [] h1
        | cons c1 r1 =>
          simp only [hdc] at h hr
          cases hnl : newline? (c1 :: r1) with
          | none => simp only [hnl] at h; cases h
          | some r2 =>
            simp only [hnl] at h hr
            have hsuf : r2 <:+ b :: r := by
              have := (Cst03.newline?_suffix _ _ hnl).1
              rw [← hdc] at this
              exact (this.trans (Cst03.dropComment_suffix r)).trans (List.suffix_cons b r)
            have h1 := ninv_consume f inp base st (b :: r) r2 hsuf hI
            exact ih _ _ _ h hr (ninv_parseWs f inp base _ r2 h1)
      · simp only [hb1, Bool.false_eq_true, if_false] at h hr
        by_cases hb2 : (b == 0x5B) = true
        · simp only [hb2, if_true, Bool.and_eq_true] at h hr
          cases hl : ctableLine inp.length st (b :: r) with
          | none => simp only [hl] at h; cases h
          | some pr =>
            obtain ⟨st', r1⟩ := pr
            simp only [hl] at h hr
            have h1 := header_step_nest f inp base hf st st' (b :: r) r1 hl hr.1 hI
            exact ih _ _ _ h hr.2 (ninv_parseWs f inp base _ r1 h1)
        · simp only [hb2, Bool.false_eq_true, if_false] at h hr
          by_cases hb3 : (b == 0x0A || b == 0x0D) = true
          · simp only [hb3, if_true] at h hr
            cases hnl : newline? (b :: r) with
            | none => simp only [hnl] at h; cases h
            | some r1 =>
              simp only [hnl] at h hr
              have h1 := ninv_consume f inp base st (b :: r) r1 (Cst03.newline?_suffix _ _ hnl).1 hI
              exact ih _ _ _ h hr (ninv_parseWs f inp base _ r1 h1)
          · simp only [hb3, Bool.false_eq_true, if_false, Bool.and_eq_true] at h hr
            cases hl : ckeyvalLine inp.length st (b :: r) with
            | none => simp only [hl] at h; cases h
            | some pr =>
              obtain ⟨st', r1⟩ := pr
              simp only [hl] at h hr
              have h1 := keyval_step_nest f inp base hf dot st st' (b :: r) r1 hl hr.1 hI
              exact ih _ _ _ h hr.2 (ninv_parseWs f inp base _ r1 h1)

theorem ninv_init (f : Bytes → Bytes) (s base : Bytes) (hbase : s = base ++ Doc.stripBom s) :
    NInv f s base {} (Doc.stripBom s) := by
  refine ⟨Or.inl ⟨rfl, rfl, [], false, some (0, 0), rfl, rfl⟩, ?_⟩
  refine ⟨[], [], [], [], Or.inl ⟨rfl, rfl⟩, by simpa using hbase, rfl, .nil, Or.inl rfl⟩

/-- the result for nested documents: on a source whose parse run passes the checks
    (`nestRun`) and whose tree is in position order (`preorderDoc`), the text written by the
    printer over a decor transformation fixing the pieces of the source is the source without
    its BOM, with the CR of the CR LF ends of key/value and header lines dropped, plus a final LF
    when the last such line ended at the end of input -/
theorem nest_doc_tiling (f : Bytes → Bytes) (s : Bytes) (d : CDoc) (hf : FixOn f s) (dot : Bool)
    (h : parseCst s = some d) (hrun : nestRun dot s = true) (hpre : preorderDoc d = true) :
    ∃ out eol, printDocG f s d = out ++ eol ∧ EolRel out (Doc.stripBom s) ∧
      (eol = [] ∨ (eol = [0x0A] ∧ (Doc.stripBom s).getLast? ≠ some 0x0A)) := by
  obtain ⟨base, hbase⟩ := stripBom_split s
  unfold parseCst at h
  unfold nestRun at hrun
  simp only [] at h hrun
  split at h
  · rename_i stf hcl
    have h1 := ninv_parseWs f s base _ _ (ninv_init f s base hbase)
    obtain ⟨hsh, htx⟩ := clines_ninv f s base hf dot _ _ _ _ hcl hrun h1
    unfold intoDocument at h
    split at h
    · rename_i st' hfin
      injection h with h; subst h
      obtain ⟨f1, _, f3, _, _⟩ := finalize_nest f s stf st' hfin hsh
      obtain ⟨src, out, tr, eol, g1, g2, g3, g4, g5⟩ := htx
      have htr : rawText s (takeTrailing stf.trailing) = tr :=
        trailIs_text s _ tr [] g1 ⟨base ++ src, by rw [g2]; simp [List.append_assoc]⟩
      have hs0 : Doc.stripBom s = src ++ tr := by
        have : base ++ Doc.stripBom s = base ++ (src ++ tr) := by
          rw [← hbase]; simpa [List.append_assoc] using g2
        exact List.append_cancel_left this
      have hp : printDocG f s { root := st'.root, trailing := takeTrailing st'.trailing } = out ++ eol ++ tr := by
        rw [printDocG_preorder f s _ hpre]
        simp only []
        rw [f1, g3, f3, encRaw_fix hf, htr]
      rcases g5 with g5 | ⟨g5, _, g6, g7⟩
      · subst g5
        refine ⟨out ++ tr, [], by rw [hp]; simp, ?_, Or.inl rfl⟩
        rw [hs0]; exact g4.append (EolRel.refl tr)
      · subst g5; subst g6
        refine ⟨out, [0x0A], by rw [hp]; simp, ?_, Or.inr ⟨rfl, ?_⟩⟩
        · rw [hs0, List.append_nil]; exact g4
        · rw [hs0, List.append_nil]; exact g7
    · cases h
  · cases h

end TomlVerif.Lemmas.Tiling03Nest

namespace TomlVerif.Lemmas.Tiling03Nest
open TomlVerif TomlVerif.Spec TomlVerif.Model TomlVerif.Model.Strings TomlVerif.Model.Value
open TomlVerif.Model.Cst TomlVerif.Model.Encode

/-! ### admitting dotted keys only enlarges the class -/

theorem kvLineOk_mono (inp : Bytes) (st : CState) (s : Bytes) (h : kvLineOk inp false st s = true) :
    kvLineOk inp true st s = true := by
  unfold kvLineOk at h ⊢
  split
  · rename_i ks r1 hk
    rw [hk] at h
    simp only [] at h ⊢
    split
    · rename_i v r2 hv
      rw [hv] at h
      simp only [] at h ⊢
      split
      · rename_i path key hsl
        rw [hsl] at h
        simp only [Bool.false_or, Bool.true_or, Bool.true_and, Bool.and_eq_true] at h ⊢
        exact ⟨h.1, h.2.2⟩
      · rename_i hsl
        simp only [Bool.and_true]
        split at h
        · rename_i p k hsl2; exact absurd hsl2 (by simp_all)
        · simpa using h
    · rfl
  · rfl

theorem runOk_mono (inp : Bytes) : ∀ (fuel : Nat) (st : CState) (s : Bytes),
    runOk inp false fuel st s = true → runOk inp true fuel st s = true := by
  intro fuel
  induction fuel with
  | zero => intro st s _; unfold runOk; rfl
  | succ fuel ih =>
    intro st s h
    unfold runOk at h ⊢
    cases s with
    | nil => rfl
    | cons b r =>
      simp only [] at h ⊢
      by_cases hb1 : (b == 0x23) = true
      · simp only [hb1, if_true] at h ⊢
        cases hdc : dropComment r with
        | nil => simp only []
        | cons c1 r1 =>
          simp only [hdc] at h ⊢
          cases hnl : newline? (c1 :: r1) with
          | none => simp only []
          | some r2 =>
            simp only [hnl] at h ⊢
            exact ih _ _ h
      · simp only [hb1, Bool.false_eq_true, if_false] at h ⊢
        by_cases hb2 : (b == 0x5B) = true
        · simp only [hb2, if_true, Bool.and_eq_true] at h ⊢
          refine ⟨h.1, ?_⟩
          cases hl : ctableLine inp.length st (b :: r) with
          | none => simp only []
          | some pr =>
            obtain ⟨st', r1⟩ := pr
            have h2 := h.2
            simp only [hl] at h2 ⊢
            exact ih _ _ h2
        · simp only [hb2, Bool.false_eq_true, if_false] at h ⊢
          by_cases hb3 : (b == 0x0A || b == 0x0D) = true
          · simp only [hb3, if_true] at h ⊢
            cases hnl : newline? (b :: r) with
            | none => simp only []
            | some r1 =>
              simp only [hnl] at h ⊢
              exact ih _ _ h
          · simp only [hb3, Bool.false_eq_true, if_false, Bool.and_eq_true] at h ⊢
            refine ⟨kvLineOk_mono inp st _ h.1, ?_⟩
            cases hl : ckeyvalLine inp.length st (b :: r) with
            | none => simp only []
            | some pr =>
              obtain ⟨st', r1⟩ := pr
              have h2 := h.2
              simp only [hl] at h2 ⊢
              exact ih _ _ h2

theorem nestRun_mono (s : Bytes) (h : nestRun false s = true) : nestRun true s = true := by
  unfold nestRun at h ⊢
  simp only [] at h ⊢
  exact runOk_mono s _ _ _ h

end TomlVerif.Lemmas.Tiling03Nest
