import TomlVerif.Lemmas.RoundTrip17e
import TomlVerif.Lemmas.Ser07Text
/-! C07 at the TEXT level, part 2: layers (a) and (b) of `Props/C17RoundTrip.lean` for trees that may hold FLOATS and
    the private date-time key.

    `Lemmas/RoundTrip17a.lean` … `17e` prove the text round trip of `toml::Value` trees under `OkV`, which excludes
    floats (the float printer is a parameter there) and the key `$__toml_private_datetime` (because of what
    `impl Deserialize for toml::Value` does with it).  A serde value holds `f32` / `f64` fields and its maps may use any
    key, and the statement here stops at the parsed document, so both restrictions go: `OkF fl` asks of a float
    that its text `fl bits` is a scalar token denoting exactly `bits` (`ScalarOK`).  The definitions and proofs
    below are those of `RoundTrip17a/b/e` with `OkV` replaced by `OkF fl` and the float case filled in; everything
    that does not mention `OkV` is reused from there. -/
namespace TomlVerif.Lemmas.Ser07TextF
open TomlVerif.Model.DeText
open TomlVerif TomlVerif.Spec TomlVerif.Model TomlVerif.Model.TomlValue TomlVerif.Model.DeRoutes
open TomlVerif.Model.Value TomlVerif.Model.Strings TomlVerif.Model.State TomlVerif.Model.Doc
open TomlVerif.Spec.AstValue TomlVerif.Spec.AstValueQ TomlVerif.Spec.AstDoc TomlVerif.Lemmas.Value01 TomlVerif.Lemmas.Doc01
open TomlVerif.Lemmas.State09 TomlVerif.Lemmas.FuelValue04 TomlVerif.Lemmas.Encode06c
open TomlVerif.Model.Encode06 (encodeKeyPath encodeKeyPathAux DEFAULT_KEY_PATH_DECOR DEFAULT_KEY_DECOR reprKey)
open TomlVerif.Lemmas.Fuel04 (dropWs_len)
open TomlVerif.Lemmas.RoundTrip17

mutual
/-- `OkV` of `Lemmas/RoundTrip17a.lean` with floats (their text must be a scalar token for exactly these bits) and
    without the restriction on the private date-time key (the third conjunct of the table case is kept as `True`
    so that the proofs can be taken over unchanged) -/
def OkF (fl : FloatText) : TV → Prop
  | .str _ => True
  | .int n => Numbers.inI64 n = true
  | .float b => ScalarOK ⟨fl b, .float b⟩
  | .bool _ => True
  | .dt d => DtOk d
  | .arr l => OkFs fl l
  | .tbl items => OkFPs fl items ∧ (items.map Prod.fst).Nodup ∧ True
def OkFs (fl : FloatText) : List TV → Prop
  | [] => True
  | v :: r => OkF fl v ∧ OkFs fl r
def OkFPs (fl : FloatText) : List (Bytes × TV) → Prop
  | [] => True
  | (_, v) :: r => OkF fl v ∧ OkFPs fl r
end


def scalarOfF (fl : FloatText) (v : TV) : ScalarTok :=
  match v with
  | .str s => ⟨(Write.writeValue .default s).getD [], .str s⟩
  | .int n => ⟨Numbers.writeInt n, .int n⟩
  | .float b => ⟨fl b, .float b⟩
  | .bool b => ⟨if b then strBytes "true" else strBytes "false", .bool b⟩
  | .dt d => ⟨Datetime.Std.display d, .dt d⟩
  | _ => ⟨[], .bool false⟩

mutual
def qOfF (fl : FloatText) (pretty : Bool) : TV → QVal
  | .arr l =>
    if !pretty || l.length ≤ 1 then .arr (qElemsF fl pretty true l) false []
    else .arr (qElemsMlF fl pretty l) true [.nl false]
  | .tbl items => .inl (qPairsF fl pretty items) []
  | .str s => .scalar (scalarOfF fl (.str s))
  | .int n => .scalar (scalarOfF fl (.int n))
  | .float b => .scalar (scalarOfF fl (.float b))
  | .bool b => .scalar (scalarOfF fl (.bool b))
  | .dt d => .scalar (scalarOfF fl (.dt d))
def qElemsF (fl : FloatText) (pretty : Bool) (first : Bool) : List TV → List (Wcn × QVal × Wcn)
  | [] => []
  | v :: r => ((if first then [] else [.ws [0x20]]), qOfF fl pretty v, []) :: qElemsF fl pretty false r
def qElemsMlF (fl : FloatText) (pretty : Bool) : List TV → List (Wcn × QVal × Wcn)
  | [] => []
  | v :: r => ([.nl false, .ws [0x20, 0x20, 0x20, 0x20]], qOfF fl pretty v, []) :: qElemsMlF fl pretty r
def qPairsF (fl : FloatText) (pretty : Bool) : List (Bytes × TV) → List (QDKey × Bytes × QVal × Bytes)
  | [] => []
  | (k, v) :: r => (spKey k, [0x20], qOfF fl pretty v, (if r.isEmpty then [0x20] else [])) :: qPairsF fl pretty r
end

theorem renderElems_cons_false (fl : FloatText) (p : Bool) (v : TV) (r : List TV) :
    renderElems fl p false (v :: r) = 0x2C :: 0x20 :: (renderVal fl p v ++ renderElems fl p false r) := by
  simp [renderElems, comma, sp]

mutual
theorem renderF_qOf (fl : FloatText) (p : Bool) : ∀ v : TV, renderQ (qOfF fl p v) = renderVal fl p v
  | .str s => by simp [qOfF, renderQ, scalarOfF, renderVal]
  | .int n => by simp [qOfF, renderQ, scalarOfF, renderVal]
  | .float b => by simp [qOfF, renderQ, scalarOfF, renderVal]
  | .bool b => by simp [qOfF, renderQ, scalarOfF, renderVal]
  | .dt d => by simp [qOfF, renderQ, scalarOfF, renderVal]
  | .arr l => by
    rw [qOfF, renderVal]
    split
    · simp [renderQ, renderF_qElems fl p l, renderWcn]
    · rename_i hc
      have hne : l ≠ [] := by
        intro e; subst e; simp at hc
      have h1 := (renderF_qElemsMl fl p l).1 hne
      simp only [renderQ, if_true, renderWcn, Piece.render, nlBytes, Bool.false_eq_true, if_false, List.append_nil,
        List.cons_append, List.nil_append]
      rw [← h1]
      simp
  | .tbl items => by
    rw [qOfF, renderVal]
    simp [renderQ, renderF_qPairs fl p items]
theorem renderF_qElems (fl : FloatText) (p : Bool) : ∀ l : List TV,
    renderItemsQ (qElemsF fl p true l) = renderElems fl p true l ∧
    renderItemsSepQ (qElemsF fl p false l) = renderElems fl p false l
  | [] => by simp [qElemsF, renderItemsQ, renderItemsSepQ, renderElems]
  | v :: r => by
    have h1 := renderF_qOf fl p v
    have h2 := (renderF_qElems fl p r).2
    constructor
    · simp [qElemsF, renderItemsQ, renderElems, renderWcn, h1, h2]
    · simp [qElemsF, renderItemsSepQ, renderElems, renderWcn, Piece.render, h1, h2, comma, sp]
theorem renderF_qElemsMl (fl : FloatText) (p : Bool) : ∀ l : List TV,
    (l ≠ [] → renderItemsQ (qElemsMlF fl p l) ++ [0x2C] = renderElemsMl fl p l) ∧
    renderItemsSepQ (qElemsMlF fl p l) ++ [0x2C] = 0x2C :: renderElemsMl fl p l
  | [] => by simp [qElemsMlF, renderItemsSepQ, renderElemsMl]
  | v :: r => by
    have h1 := renderF_qOf fl p v
    have h2 := (renderF_qElemsMl fl p r).2
    constructor
    · intro _
      simp [qElemsMlF, renderItemsQ, renderElemsMl, renderWcn, Piece.render, nlBytes, h1, h2, prettyIndent, comma]
    · simp [qElemsMlF, renderItemsSepQ, renderElemsMl, renderWcn, Piece.render, nlBytes, h1, h2, prettyIndent, comma]
theorem renderF_qPairs (fl : FloatText) (p : Bool) : ∀ l : List (Bytes × TV),
    renderPairsQ (qPairsF fl p l) = renderInline fl p true l ∧
    renderPairsSepQ (qPairsF fl p l) = renderInline fl p false l
  | [] => by simp [qPairsF, renderPairsQ, renderPairsSepQ, renderInline]
  | (k, v) :: r => by
    have h1 := renderF_qOf fl p v
    have h2 := (renderF_qPairs fl p r).2
    constructor
    · simp [qPairsF, renderPairsQ, renderInline, spKey, QDKey.render, QKey.render, renderQKeySep, h1, h2, sp]
    · simp [qPairsF, renderPairsSepQ, renderInline, spKey, QDKey.render, QKey.render, renderQKeySep, h1, h2, sp, comma]
end

mutual
theorem semF_qOf (fl : FloatText) (p : Bool) : ∀ v : TV, OkF fl v → semQ (qOfF fl p v) = valOf v
  | .str s, _ => by simp [qOfF, semQ, scalarOfF, valOf]
  | .int n, _ => by simp [qOfF, semQ, scalarOfF, valOf]
  | .float b, _ => by simp [qOfF, semQ, scalarOfF, valOf]
  | .bool b, _ => by simp [qOfF, semQ, scalarOfF, valOf]
  | .dt d, _ => by simp [qOfF, semQ, scalarOfF, valOf]
  | .arr l, h => by
    rw [OkF] at h
    rw [qOfF, valOf]
    split
    · simp [semQ, (semF_qElems fl p l h).1]
    · simp [semQ, (semF_qElems fl p l h).2]
  | .tbl items, h => by
    rw [OkF] at h
    rw [qOfF, valOf]
    simp only [semQ, flatF_qPairs fl p items h.1]
    rw [tableFromPairs_plainOf items [] h.2.1 (by simp)]
    simp
theorem semF_qElems (fl : FloatText) (p : Bool) : ∀ l : List TV, OkFs fl l →
    (∀ first, semItemsQ (qElemsF fl p first l) = valOfList l) ∧ semItemsQ (qElemsMlF fl p l) = valOfList l
  | [], _ => by simp [qElemsF, qElemsMlF, semItemsQ, valOfList]
  | v :: r, h => by
    rw [OkFs] at h
    have h1 := semF_qOf fl p v h.1
    have h2 := semF_qElems fl p r h.2
    exact ⟨fun first => by simp [qElemsF, semItemsQ, valOfList, h1, h2.1], by simp [qElemsMlF, semItemsQ, valOfList, h1, h2.2]⟩
theorem flatF_qPairs (fl : FloatText) (p : Bool) : ∀ l : List (Bytes × TV), OkFPs fl l → flatPairsQ (qPairsF fl p l) = plainOf l
  | [], _ => by simp [qPairsF, flatPairsQ, plainOf]
  | (k, v) :: r, h => by
    rw [OkFPs] at h
    simp [qPairsF, flatPairsQ, plainOf, (spKey_path k).1, (spKey_path k).2, semF_qOf fl p v h.1, flatF_qPairs fl p r h.2]
end

mutual
theorem depthF_qOf (fl : FloatText) (p : Bool) : ∀ v : TV, depthQ (qOfF fl p v) = depthTV v
  | .str s => by simp [qOfF, depthQ, depthTV]
  | .int n => by simp [qOfF, depthQ, depthTV]
  | .float b => by simp [qOfF, depthQ, depthTV]
  | .bool b => by simp [qOfF, depthQ, depthTV]
  | .dt d => by simp [qOfF, depthQ, depthTV]
  | .arr l => by
    rw [qOfF, depthTV]
    split
    · simp [depthQ, (depthF_qElems fl p l).1]
    · simp [depthQ, (depthF_qElems fl p l).2]
  | .tbl items => by
    rw [qOfF, depthTV]
    simp [depthQ, depthF_qPairs fl p items]
theorem depthF_qElems (fl : FloatText) (p : Bool) : ∀ l : List TV,
    (∀ first, depthItemsQ (qElemsF fl p first l) = depthTVs l) ∧ depthItemsQ (qElemsMlF fl p l) = depthTVs l
  | [] => by simp [qElemsF, qElemsMlF, depthItemsQ, depthTVs]
  | v :: r => by
    have h1 := depthF_qOf fl p v
    have h2 := depthF_qElems fl p r
    exact ⟨fun first => by simp [qElemsF, depthItemsQ, depthTVs, h1, h2.1], by simp [qElemsMlF, depthItemsQ, depthTVs, h1, h2.2]⟩
theorem depthF_qPairs (fl : FloatText) (p : Bool) : ∀ l : List (Bytes × TV), depthPairsQ (qPairsF fl p l) = depthTVPs l
  | [] => by simp [qPairsF, depthPairsQ, depthTVPs]
  | (k, v) :: r => by
    simp [qPairsF, depthPairsQ, depthTVPs, depthF_qOf fl p v, depthF_qPairs fl p r, spKey]
end

mutual
theorem wfF_qOf (fl : FloatText) (p : Bool) : ∀ v : TV, OkF fl v → WFQ (qOfF fl p v)
  | .str s, _ => by rw [qOfF, WFQ]; exact scalarOK_str s
  | .int n, h => by rw [qOfF, WFQ]; exact scalarOK_writeInt n (by simpa [OkF] using h)
  | .float b, h => by rw [qOfF, WFQ]; exact h
  | .bool b, _ => by
    rw [qOfF, WFQ]
    cases b
    · simp only [scalarOfF, strBytes_false, Bool.false_eq_true, if_false]; exact Lemmas.Value01.scalarOK_false
    · simp only [scalarOfF, strBytes_true, if_true]; exact Lemmas.Value01.scalarOK_true
  | .dt d, h => by
    rw [qOfF, WFQ]
    rw [OkF] at h
    exact Lemmas.Scalars01.scalarOK_datetime d h.1 h.2
  | .arr l, h => by
    rw [OkF] at h
    rw [qOfF]
    split
    · rw [WFQ]; exact ⟨(wfF_qElems fl p l h).1 true, wcn_nil, fun _ => rfl⟩
    · rename_i hc
      rw [WFQ]
      refine ⟨(wfF_qElems fl p l h).2, wcn_nl, ?_⟩
      intro e
      cases l with
      | nil => simp at hc
      | cons v r => simp [qElemsMlF] at e
  | .tbl items, h => by
    rw [OkF] at h
    rw [qOfF, WFQ]
    refine ⟨wfF_qPairs fl p items h.1, allWs_nil, ?_⟩
    rw [flatF_qPairs fl p items h.1, tableFromPairs_plainOf items [] h.2.1 (by simp)]
    rfl
theorem wfF_qElems (fl : FloatText) (p : Bool) : ∀ l : List TV, OkFs fl l →
    (∀ first, WFItemsQ (qElemsF fl p first l)) ∧ WFItemsQ (qElemsMlF fl p l)
  | [], _ => by simp [qElemsF, qElemsMlF, WFItemsQ]
  | v :: r, h => by
    rw [OkFs] at h
    have h1 := wfF_qOf fl p v h.1
    have h2 := wfF_qElems fl p r h.2
    refine ⟨fun first => ?_, ?_⟩
    · rw [qElemsF, WFItemsQ]
      exact ⟨by cases first <;> simp [wcn_nil, wcn_sp], h1, wcn_nil, h2.1 false⟩
    · rw [qElemsMlF, WFItemsQ]
      exact ⟨wcn_indent, h1, wcn_nil, h2.2⟩
theorem wfF_qPairs (fl : FloatText) (p : Bool) : ∀ l : List (Bytes × TV), OkFPs fl l → WFPairsQ (qPairsF fl p l)
  | [], _ => by simp [qPairsF, WFPairsQ]
  | (k, v) :: r, h => by
    rw [OkFPs] at h
    rw [qPairsF, WFPairsQ]
    exact ⟨spKey_wf k, allWs_sp, wfF_qOf fl p v h.1, by cases r <;> simp [allWs_nil, allWs_sp], wfF_qPairs fl p r h.2⟩
end

/-- **layer (a)**: the text `renderVal` prints for a well-formed tree — plain or pretty, with any float printer
    (the tree holds no float) — is read back by `value`, at any recursion depth that leaves room for the tree's own
    nesting and in any context in which a value may end, as exactly that tree, consuming exactly the text. -/
theorem value_renderValF (fl : FloatText) (p : Bool) (v : TV) (h : OkF fl v) (d fuel : Nat) (rest : Bytes)
    (hd : d + depthTV v < LIMIT) (hr : ValFollowS rest) (hf : 2 * (renderVal fl p v).length ≤ fuel) :
    value fuel d (renderVal fl p v ++ rest) = .ok (valOf v) rest := by
  have hq := Props.C01Sound.T01_value_completeQ (qOfF fl p v) (wfF_qOf fl p v h) d fuel rest
    (by rw [depthF_qOf fl]; exact hd) hr (by rw [renderF_qOf fl p v]; exact hf)
  rw [renderF_qOf fl p v, semF_qOf fl p v h] at hq
  exact hq

/-- the head of a printed value is not trivia and no value may end before it -/
theorem renderVal_headF (fl : FloatText) (p : Bool) (v : TV) (h : OkF fl v) :
    ∃ b r, renderVal fl p v = b :: r ∧ isFollowByte b = false := by
  obtain ⟨b, r, e, hb⟩ := Lemmas.Sound01C.render_headQ (qOfF fl p v) (wfF_qOf fl p v h)
  rw [renderF_qOf fl p v] at e
  exact ⟨b, r, e, hb⟩


def StmtOkF (fl : FloatText) : TomlValue.Stmt → Prop
  | .header p => p ≠ [] ∧ p.length < LIMIT
  | .aotHeader p => p ≠ [] ∧ p.length < LIMIT
  | .kv _ v => OkF fl v ∧ depthTV v < LIMIT

theorem noTrivia_renderValF (fl : FloatText) (p : Bool) (v : TV) (h : OkF fl v) (X : Bytes) :
    NoTriviaHead (renderVal fl p v ++ X) := by
  obtain ⟨b, r, e, hb⟩ := renderVal_headF fl p v h
  rw [e]; exact not_trivia_of_not_follow b hb

theorem keyvalLine_kvF (fl : FloatText) (p : Bool) (st : ParseState) (k : Bytes) (v : TV) (more : Bytes)
    (hv : OkF fl v) (hd : depthTV v < LIMIT) :
    keyvalLine st (kvLine fl p k v ++ more) = (onKeyval st [] k (valOf v)).map fun st' => (st', more) := by
  rw [kvLine_eq]
  have e1 := keyPath_path (bodyKey k) (0x3D :: ([0x20] ++ (renderVal fl p v ++ 0x0A :: more))) (bodyKey_ok k) (pathFollow_eq _)
  have e2 : dropWs ([0x20] ++ (renderVal fl p v ++ 0x0A :: more)) = renderVal fl p v ++ 0x0A :: more := by
    rw [dropWs_allws _ _ allWs_sp]; exact dropWs_stop _ (noTrivia_renderValF fl p v hv _)
  have e3 : value (3 * ([0x20] ++ (renderVal fl p v ++ 0x0A :: more)).length + 4) ((bodyKey k).names.length - 1)
      (dropWs ([0x20] ++ (renderVal fl p v ++ 0x0A :: more))) = .ok (valOf v) (0x0A :: more) := by
    rw [e2]
    exact value_renderValF fl p v hv _ _ _ (by simp [bodyKey, KeyPath.names]; omega)
      (followS_of_head 0x0A _ (by decide) (by decide)) (by simp; omega)
  have e4 : lineTrailing (0x0A :: more) = .ok () more := by
    have := lineTrailing_nl [] none false more (by intro b hb; cases hb) (by intro body h; cases h)
    simpa [commentBytes, nlBytes] using this
  have e5 : ¬ LIMIT ≤ (bodyKey k).names.length - 1 := by simp [bodyKey, KeyPath.names, LIMIT]
  have e6 : Value.splitLast (bodyKey k).names = some ([], k) := rfl
  unfold keyvalLine
  simp only [e1, e5, if_false, e3, e4, e6]

theorem lines_kvLineF (fl : FloatText) (p : Bool) (f : Nat) (st : ParseState) (k : Bytes) (v : TV) (more : Bytes)
    (hv : OkF fl v) (hd : depthTV v < LIMIT) :
    lines (f + 1) st (kvLine fl p k v ++ more) =
      (onKeyval st [] k (valOf v)).bind fun st' => lines f st' (dropWs more) := by
  obtain ⟨b, t, e, hb⟩ := kvLine_head fl p k v more
  have hf := keyhead_facts b hb
  have e1 := keyvalLine_kvF fl p st k v more hv hd
  rw [e] at e1 ⊢
  rw [lines_keyval f st b t hf.2.1 hf.2.2.1 hf.2.2.2.1 hf.2.2.2.2.1, e1]
  cases onKeyval st [] k (valOf v) <;> rfl

/-- **the statement loop on the printed statements is the run of the statements** -/
theorem lines_stmtsF (fl : FloatText) (p : Bool) : ∀ (stmts : List TomlValue.Stmt) (first : Bool) (st : ParseState)
    (f : Nat), (∀ s ∈ stmts, StmtOkF fl s) → (dropWs (renderStmts fl p first stmts)).length < f →
    lines f st (dropWs (renderStmts fl p first stmts)) = run st (stmts.map stmtOf) := by
  intro stmts
  induction stmts with
  | nil =>
    intro first st f _ hf
    obtain ⟨g, rfl⟩ : ∃ g, f = g + 1 := ⟨f - 1, by omega⟩
    simp [renderStmts, run, dropWs, lines]
  | cons s r ih =>
    intro first st f hok hf
    have hs := hok s (by simp)
    have hr : ∀ x ∈ r, StmtOkF fl x := fun x hx => hok x (by simp [hx])
    cases s with
    | kv k v =>
      rw [StmtOkF] at hs
      rw [renderStmts_kv, dropWs_kvLine] at hf ⊢
      obtain ⟨g, rfl⟩ : ∃ g, f = g + 1 := ⟨f - 1, by omega⟩
      rw [lines_kvLineF fl p g st k v _ hs.1 hs.2]
      simp only [List.map_cons, stmtOf, run_cons, step]
      have hp := kvLine_pos fl p k v
      have hl := dropWs_len (renderStmts fl p first r)
      rw [List.length_append] at hf
      cases onKeyval st [] k (valOf v) with
      | none => rfl
      | some st1 =>
        simp only [Option.bind]
        rw [lines_fuel g (g + 1) st1 _ (by omega) (by omega)]
        exact ih first st1 (g + 1) hr (by omega)
    | header path =>
      rw [StmtOkF] at hs
      rw [renderStmts_header fl p first path r hs.1] at hf ⊢
      rw [lines_header f st first false path _ hs.1 hs.2 hf]
      simp only [List.map_cons, stmtOf, run_cons, hdrStmt, Bool.false_eq_true, if_false]
      cases step st (.std path) with
      | none => rfl
      | some st1 =>
        simp only [Option.bind]
        refine ih false st1 f hr ?_
        have h1 := dropWs_dropWs_append_len ((if first then [] else [0x0A]) ++ hdrLine false path) (renderStmts fl p false r)
        rw [List.append_assoc] at h1
        omega
    | aotHeader path =>
      rw [StmtOkF] at hs
      rw [renderStmts_aot fl p first path r hs.1] at hf ⊢
      rw [lines_header f st first true path _ hs.1 hs.2 hf]
      simp only [List.map_cons, stmtOf, run_cons, hdrStmt, if_true]
      cases step st (.arr path) with
      | none => rfl
      | some st1 =>
        simp only [Option.bind]
        refine ih false st1 f hr ?_
        have h1 := dropWs_dropWs_append_len ((if first then [] else [0x0A]) ++ hdrLine true path) (renderStmts fl p false r)
        rw [List.append_assoc] at h1
        omega

/-! ## no byte-order mark -/

theorem renderStmts_headF (fl : FloatText) (p : Bool) : ∀ (stmts : List TomlValue.Stmt) (first : Bool),
    (∀ s ∈ stmts, StmtOkF fl s) → ∀ b t, renderStmts fl p first stmts = b :: t → b ≠ 0xEF := by
  intro stmts first hok b t h
  cases stmts with
  | nil => simp [renderStmts] at h
  | cons s r =>
    have hs := hok s (by simp)
    cases s with
    | kv k v =>
      rw [renderStmts_kv] at h
      obtain ⟨b', t', e, hb'⟩ := kvLine_head fl p k v (renderStmts fl p first r)
      rw [e] at h
      injection h with h _
      rw [← h]
      exact (keyhead_facts b' hb').2.2.2.2.2
    | header path =>
      rw [StmtOkF] at hs
      rw [renderStmts_header fl p first path r hs.1] at h
      cases first with
      | true =>
        simp only [if_true, List.nil_append] at h
        obtain ⟨t', e⟩ := hdrLine_head false path (renderStmts fl p false r)
        rw [e] at h
        injection h with h _
        rw [← h]; decide
      | false =>
        simp only [Bool.false_eq_true, if_false, List.cons_append] at h
        injection h with h _
        rw [← h]; decide
    | aotHeader path =>
      rw [StmtOkF] at hs
      rw [renderStmts_aot fl p first path r hs.1] at h
      cases first with
      | true =>
        simp only [if_true, List.nil_append] at h
        obtain ⟨t', e⟩ := hdrLine_head true path (renderStmts fl p false r)
        rw [e] at h
        injection h with h _
        rw [← h]; decide
      | false =>
        simp only [Bool.false_eq_true, if_false, List.cons_append] at h
        injection h with h _
        rw [← h]; decide

/-- **the parser on the printed statements**: the run of the statements, then `into_document` -/
theorem parseDocument_stmtsF (fl : FloatText) (p first : Bool) (stmts : List TomlValue.Stmt)
    (h : ∀ s ∈ stmts, StmtOkF fl s) :
    parseDocument (renderStmts fl p first stmts) = (run {} (stmts.map stmtOf)).bind intoDocument := by
  unfold parseDocument
  simp only [stripBom_noop _ (renderStmts_headF fl p stmts first h)]
  rw [lines_stmtsF fl p stmts first {} _ h (by omega)]
  cases run {} (stmts.map stmtOf) <;> rfl

theorem okFPs_iff (fl : FloatText) (l : List (Bytes × TV)) : OkFPs fl l ↔ ∀ e ∈ l, OkF fl e.2 := by
  induction l with
  | nil => simp [OkFPs]
  | cons x r ih => obtain ⟨k, v⟩ := x; simp [OkFPs, ih]

theorem okFs_iff (fl : FloatText) (l : List TV) : OkFs fl l ↔ ∀ v ∈ l, OkF fl v := by
  induction l with
  | nil => simp [OkFs]
  | cons x r ih => simp [OkFs, ih]

theorem stokF_table (fl : FloatText) (path : List Bytes) (isAot : Bool) (items : List (Bytes × TV)) (subs : List TomlValue.Stmt)
    (hne : path ≠ []) (hl : path.length < LIMIT) (hi : ∀ e ∈ items, OkF fl e.2 ∧ depthTV e.2 < LIMIT)
    (hs : ∀ s ∈ subs, StmtOkF fl s) : ∀ s ∈ tableStmts path isAot items subs, StmtOkF fl s := by
  intro s hs'
  simp only [tableStmts, List.mem_append] at hs'
  rcases hs' with (hs' | hs') | hs'
  · unfold headerOf at hs'
    have hpe : path.isEmpty = false := by cases path <;> simp_all
    simp only [hpe, Bool.false_eq_true, if_false] at hs'
    split at hs'
    · simp at hs'; subst hs'; exact ⟨hne, hl⟩
    · split at hs'
      · simp at hs'
      · simp at hs'; subst hs'; exact ⟨hne, hl⟩
  · simp only [ownKvs, ownValues, List.mem_map, List.mem_filter] at hs'
    obtain ⟨e, ⟨he, _⟩, rfl⟩ := hs'
    exact hi e he
  · exact hs s hs'

theorem itemsF_bound (fl : FloatText) (items : List (Bytes × TV)) (n : Nat) (h : OkFPs fl items) (hd : n + 1 + depthTVPs items ≤ LIMIT) :
    ∀ e ∈ items, OkF fl e.2 ∧ depthTV e.2 < LIMIT := by
  intro e he
  have := (depthTVPs_le items _).1 (Nat.le_refl _) e he
  exact ⟨(okFPs_iff fl items).1 h e he, by omega⟩

mutual
theorem stokF_subs (fl : FloatText) : ∀ (items : List (Bytes × TV)) (path : List Bytes), OkFPs fl items →
    path.length + 1 + depthTVPs items ≤ LIMIT → ∀ s ∈ emitSubs path items, StmtOkF fl s
  | [], _, _, _ => by intro s hs; simp [emitSubs] at hs
  | (k, v) :: r, path, h, hd => by
    rw [OkFPs] at h
    rw [depthTVPs] at hd
    intro s hs
    rw [emitSubs, List.mem_append] at hs
    rcases hs with hs | hs
    · exact stokF_item fl v (path ++ [k]) h.1 (by simp) (by simp; omega) s hs
    · exact stokF_subs fl r path h.2 (by omega) s hs
theorem stokF_item (fl : FloatText) : ∀ (v : TV) (path : List Bytes), OkF fl v → path ≠ [] → path.length + depthTV v ≤ LIMIT →
    ∀ s ∈ emitItem path v, StmtOkF fl s
  | .tbl items, path, h, hne, hd => by
    rw [OkF] at h
    rw [depthTV] at hd
    rw [emitItem]
    exact stokF_table fl path false items _ hne (by omega) (itemsF_bound fl items path.length h.1 (by omega))
      (stokF_subs fl items path h.1 (by omega))
  | .arr l, path, h, hne, hd => by
    rw [OkF] at h
    rw [depthTV] at hd
    rw [emitItem]
    split
    · exact stokF_aot fl l path h hne (by omega)
    · intro s hs; cases hs
  | .str _, _, _, _, _ => by intro s hs; simp [emitItem] at hs
  | .int _, _, _, _, _ => by intro s hs; simp [emitItem] at hs
  | .float _, _, _, _, _ => by intro s hs; simp [emitItem] at hs
  | .bool _, _, _, _, _ => by intro s hs; simp [emitItem] at hs
  | .dt _, _, _, _, _ => by intro s hs; simp [emitItem] at hs
theorem stokF_aot (fl : FloatText) : ∀ (l : List TV) (path : List Bytes), OkFs fl l → path ≠ [] → path.length + depthTVs l ≤ LIMIT →
    ∀ s ∈ emitAot path l, StmtOkF fl s
  | [], _, _, _, _ => by intro s hs; simp [emitAot] at hs
  | .tbl items :: r, path, h, hne, hd => by
    rw [OkFs, OkF] at h
    rw [depthTVs, depthTV] at hd
    intro s hs
    rw [emitAot, List.mem_append] at hs
    rcases hs with hs | hs
    · exact stokF_table fl path true items _ hne (by omega) (itemsF_bound fl items path.length h.1.1 (by omega))
        (stokF_subs fl items path h.1.1 (by omega)) s hs
    · exact stokF_aot fl r path h.2 hne (by omega) s hs
  | .str _ :: r, path, h, hne, hd => by
    rw [OkFs] at h; rw [depthTVs] at hd; simp only [emitAot]; exact stokF_aot fl r path h.2 hne (by omega)
  | .int _ :: r, path, h, hne, hd => by
    rw [OkFs] at h; rw [depthTVs] at hd; simp only [emitAot]; exact stokF_aot fl r path h.2 hne (by omega)
  | .float _ :: r, path, h, hne, hd => by
    rw [OkFs] at h; rw [depthTVs] at hd; simp only [emitAot]; exact stokF_aot fl r path h.2 hne (by omega)
  | .bool _ :: r, path, h, hne, hd => by
    rw [OkFs] at h; rw [depthTVs] at hd; simp only [emitAot]; exact stokF_aot fl r path h.2 hne (by omega)
  | .dt _ :: r, path, h, hne, hd => by
    rw [OkFs] at h; rw [depthTVs] at hd; simp only [emitAot]; exact stokF_aot fl r path h.2 hne (by omega)
  | .arr _ :: r, path, h, hne, hd => by
    rw [OkFs] at h; rw [depthTVs] at hd; simp only [emitAot]; exact stokF_aot fl r path h.2 hne (by omega)
end

theorem stokF_doc (fl : FloatText) (items : List (Bytes × TV)) (h : OkFPs fl items) (hd : 1 + depthTVPs items ≤ LIMIT) :
    ∀ s ∈ emitDoc items, StmtOkF fl s := by
  intro s hs
  have e : emitDoc items = ownKvs items ++ emitSubs [] items := by simp [emitDoc, tableStmts, headerOf]
  rw [e, List.mem_append] at hs
  rcases hs with hs | hs
  · simp only [ownKvs, ownValues, List.mem_map, List.mem_filter] at hs
    obtain ⟨e, ⟨he, _⟩, rfl⟩ := hs
    exact itemsF_bound fl items 0 h (by omega) e he
  · exact stokF_subs fl items [] h (by simpa using hd) s hs


end TomlVerif.Lemmas.Ser07TextF
